package main

import (
	"context"
	"fmt"
	"os"
	"runtime"
	"strconv"
	"sync"
	"time"

	"github.com/smart-core-os/sc-golang/internal/minibus"
	"github.com/smart-core-os/sc-golang/internal/verifhook"
	"github.com/smart-core-os/sc-golang/verifharness/vcoq"
)

var debugCase = func() int {
	if v, err := strconv.Atoi(os.Getenv("C10_DEBUG")); err == nil {
		return v
	}
	return -1
}()

// ---- threads of a bus script ----

type senderT struct {
	g      *gate
	ctx    context.Context
	cancel context.CancelFunc
	cmd    chan int
	mu     sync.Mutex
	incall bool
	calls  int
	rets   []bool
	panics int
}

type listenerT struct {
	ctx       context.Context
	cancel    context.CancelFunc
	lg        *gate // the goroutine calling Listen
	wg        *gate // the watcher goroutine (known once it reaches bus.stop.lock)
	wgid      int64
	woken     bool
	mu        sync.Mutex
	ch        <-chan any
	reg       bool
	cancelled bool
	rcmd      chan struct{}
	pending   bool
	sawclose  bool
	log       []event
}

type busWorld struct {
	bus      *minibus.Bus
	gs       *gates
	senders  []*senderT
	lis      []*listenerT
	curK     int
	lockWait bool // a watcher was seen waiting for the lock held by a sender
}

func (w *busWorld) startSender(i int) *senderT {
	s := &senderT{g: newGate(), cmd: make(chan int)}
	s.ctx, s.cancel = context.WithCancel(context.Background())
	ready := make(chan struct{})
	go func() {
		w.gs.register(s.g)
		close(ready)
		for n := range s.cmd {
			func() {
				defer func() {
					if r := recover(); r != nil {
						s.mu.Lock()
						s.panics++
						s.incall = false
						s.mu.Unlock()
					}
				}()
				ok := w.bus.Send(s.ctx, event{i, n})
				s.mu.Lock()
				s.rets = append(s.rets, ok)
				s.incall = false
				s.mu.Unlock()
			}()
		}
	}()
	<-ready
	return s
}

func (w *busWorld) startListen() *listenerT {
	l := &listenerT{lg: newGate(), wg: newGate(), rcmd: make(chan struct{})}
	l.ctx, l.cancel = context.WithCancel(context.Background())
	w.lis = append(w.lis, l)
	go func() {
		w.gs.register(l.lg)
		ch := w.bus.Listen(l.ctx)
		l.mu.Lock()
		l.ch = ch
		l.reg = true
		l.mu.Unlock()
	}()
	// the consumer: one blocking receive per command
	go func() {
		for range l.rcmd {
			l.mu.Lock()
			ch := l.ch
			l.mu.Unlock()
			v, ok := <-ch
			l.mu.Lock()
			l.pending = false
			if ok {
				l.log = append(l.log, v.(event))
			} else {
				l.sawclose = true
			}
			l.mu.Unlock()
		}
	}()
	return l
}

func (w *busWorld) observe(d []ginfo) []int {
	o := []int{len(w.senders)}
	for _, s := range w.senders {
		s.mu.Lock()
		st := 0
		switch at := s.g.at(); {
		case at == "bus.send.listener":
			st = 1
		case at == "bus.send.collect":
			st = 2
		case at == "bus.listener.send.locked":
			st = 4
		case s.incall:
			st = 3
		}
		last := 2
		if len(s.rets) > 0 {
			last = 0
			if s.rets[len(s.rets)-1] {
				last = 1
			}
		}
		o = append(o, st, len(s.rets), last)
		s.mu.Unlock()
	}
	o = append(o, len(w.lis))
	for _, l := range w.lis {
		l.mu.Lock()
		ws := 0
		if l.woken {
			switch {
			case l.wg.at() == "bus.stop.lock":
				ws = 1
			case hasGID(d, l.wgid):
				ws = 2
				w.lockWait = true
			default:
				ws = 3
			}
		}
		o = append(o, ws, b2i(l.reg), b2i(l.pending), b2i(l.sawclose), len(l.log))
		for _, e := range l.log {
			o = append(o, e.s*100000+e.n)
		}
		l.mu.Unlock()
	}
	return o
}

func b2i(b bool) int {
	if b {
		return 1
	}
	return 0
}

type bact struct {
	kind string // call stepS listen stepL stepW cancel cancelSend recv
	i    int
}

func (a bact) coq() string {
	switch a.kind {
	case "call":
		return vcoq.App("ACall", vcoq.Nat(a.i))
	case "stepS":
		return vcoq.App("AStepS", vcoq.Nat(a.i))
	case "listen":
		return "AListen"
	case "stepL":
		return vcoq.App("AStepL", vcoq.Nat(a.i))
	case "stepW":
		return vcoq.App("AStepW", vcoq.Nat(a.i))
	case "cancel":
		return vcoq.App("ACancel", vcoq.Nat(a.i))
	case "cancelSend":
		return vcoq.App("ACancelSend", vcoq.Nat(a.i))
	case "recv":
		return vcoq.App("ARecv", vcoq.Nat(a.i))
	}
	panic("bad action")
}

// busScript runs one scripted case on a fresh bus.
func (g *gen) busScript(idx int) error {
	r := g.r
	maxL, maxS, maxLen := 3, 2, 32
	if g.tier == "thorough" {
		maxL, maxS, maxLen = 8, 3, 50
	}
	nS := r.Range(1, maxS)
	wantL := r.Range(0, maxL)
	if idx%10 == 0 {
		wantL = 0
	}
	base := libCount(dump())
	w := &busWorld{bus: &minibus.Bus{}, gs: &gates{byGID: map[int64]*gate{}, parking: parkingPoints}}
	w.gs.unknown = func(point string) *gate {
		// the only goroutines of the library are the watchers; one reaches listener.stop only
		// because the context of the current action's listener was cancelled
		if point != "bus.stop.lock" || w.curK < 0 || w.curK >= len(w.lis) {
			return nil
		}
		l := w.lis[w.curK]
		l.mu.Lock()
		l.woken = true
		l.wgid = curGID()
		l.mu.Unlock()
		return l.wg
	}
	verifhook.Set(w.gs.hook)
	for i := 0; i < nS; i++ {
		w.senders = append(w.senders, w.startSender(i))
	}
	if _, err := settle(); err != nil {
		return err
	}

	var script []bact
	var obs [][]int
	var calls []callRec
	nontrivial := false
	tags := map[string]bool{}
	steps := r.Range(4, maxLen)
	for len(script) < steps {
		// enabled actions, weighted
		type cand struct {
			a bact
			w int
		}
		var cs []cand
		senderParked := false
		for i, s := range w.senders {
			s.mu.Lock()
			at := s.g.at()
			switch {
			case at != "":
				cs = append(cs, cand{bact{"stepS", i}, 30})
				senderParked = true
			case !s.incall && s.calls < 4:
				cs = append(cs, cand{bact{"call", i}, 25})
			}
			if s.ctx.Err() == nil {
				cs = append(cs, cand{bact{"cancelSend", i}, 1})
			}
			s.mu.Unlock()
		}
		if len(w.lis) < wantL {
			cs = append(cs, cand{bact{"listen", 0}, 30})
		}
		for k, l := range w.lis {
			l.mu.Lock()
			if !l.reg && l.lg.at() != "" {
				cs = append(cs, cand{bact{"stepL", k}, 35})
			}
			if l.woken && l.wg.at() != "" {
				cs = append(cs, cand{bact{"stepW", k}, 25})
			}
			if !l.cancelled {
				wgt := 6
				if senderParked {
					wgt = 18
				}
				cs = append(cs, cand{bact{"cancel", k}, wgt})
			}
			if l.reg && !l.pending && !l.sawclose {
				cs = append(cs, cand{bact{"recv", k}, 20})
			}
			l.mu.Unlock()
		}
		if len(cs) == 0 {
			break
		}
		tot := 0
		for _, c := range cs {
			tot += c.w
		}
		pick := r.Intn(tot)
		var a bact
		for _, c := range cs {
			if pick < c.w {
				a = c.a
				break
			}
			pick -= c.w
		}
		ai := len(script)
		w.curK = -1
		switch a.kind {
		case "call":
			s := w.senders[a.i]
			s.mu.Lock()
			s.calls++
			s.incall = true
			n := s.calls
			s.mu.Unlock()
			calls = append(calls, callRec{s: a.i, n: n, start: ai, end: -1})
			s.cmd <- n
		case "stepS":
			if senderAtWindow(w, a.i) {
				nontrivial = true
			}
			w.senders[a.i].g.release <- struct{}{}
		case "listen":
			w.curK = len(w.lis)
			w.startListen()
		case "stepL":
			w.lis[a.i].lg.release <- struct{}{}
		case "stepW":
			w.lis[a.i].wg.release <- struct{}{}
		case "cancel":
			l := w.lis[a.i]
			w.curK = a.i
			l.mu.Lock()
			l.cancelled = true
			l.mu.Unlock()
			if senderParked {
				tags["cancel-in-window"] = true
			}
			l.cancel()
		case "cancelSend":
			w.senders[a.i].cancel()
		case "recv":
			l := w.lis[a.i]
			l.mu.Lock()
			l.pending = true
			l.mu.Unlock()
			l.rcmd <- struct{}{}
		}
		tags["act-"+a.kind] = true
		d, err := settle()
		if err != nil {
			return fmt.Errorf("after %v: %w", a, err)
		}
		script = append(script, a)
		obs = append(obs, w.observe(d))
		if debugCase >= 0 && idx == debugCase {
			buf := make([]byte, 1<<20)
			n := runtime.Stack(buf, true)
			fmt.Fprintf(os.Stderr, "==== after %d %v: %v\n%s\n", ai, a, obs[len(obs)-1], buf[:n])
		}
		// calls seen finished
		for ci := range calls {
			c := &calls[ci]
			if c.end >= 0 {
				continue
			}
			s := w.senders[c.s]
			s.mu.Lock()
			if len(s.rets) >= c.n || (s.panics > 0 && !s.incall) {
				c.end = ai
				c.ret = true
				if len(s.rets) >= c.n {
					c.ok = s.rets[c.n-1]
				}
			}
			s.mu.Unlock()
		}
	}

	// ---- free-running end: cancel every listener, open all gates, consumers wait for the close ----
	L := len(script)
	ls := make([]lisRec, len(w.lis))
	for k, l := range w.lis {
		l.mu.Lock()
		ls[k] = lisRec{reg: L, cancel: L}
		l.mu.Unlock()
	}
	for k := range w.lis {
		for ai, a := range script {
			if a.kind == "stepL" && a.i == k {
				ls[k].reg = ai
			}
			if a.kind == "cancel" && a.i == k {
				ls[k].cancel = ai
			}
		}
	}
	w.gs.free.Store(true)
	for _, l := range w.lis {
		l.cancel()
	}
	for _, s := range w.senders {
		select {
		case s.g.release <- struct{}{}:
		default:
		}
	}
	for _, l := range w.lis {
		for _, gt := range []*gate{l.lg, l.wg} {
			select {
			case gt.release <- struct{}{}:
			default:
			}
		}
	}
	bound := time.Now().Add(3 * time.Second)
	// consumers: keep receiving until the close is seen
	var cwg sync.WaitGroup
	for _, l := range w.lis {
		l := l
		cwg.Add(1)
		go func() {
			defer cwg.Done()
			for time.Now().Before(bound) {
				l.mu.Lock()
				ch, pending, saw := l.ch, l.pending, l.sawclose
				l.mu.Unlock()
				if saw {
					return
				}
				if ch == nil || pending {
					time.Sleep(100 * time.Microsecond)
					continue
				}
				select {
				case v, ok := <-ch:
					l.mu.Lock()
					if ok {
						l.log = append(l.log, v.(event))
					} else {
						l.sawclose = true
					}
					l.mu.Unlock()
				case <-time.After(time.Until(bound)):
					return
				}
			}
		}()
	}
	cwg.Wait()
	// writers
	allRet := func() bool {
		for _, s := range w.senders {
			s.mu.Lock()
			in := s.incall
			s.mu.Unlock()
			if in {
				return false
			}
		}
		return true
	}
	for !allRet() && time.Now().Before(bound) {
		time.Sleep(100 * time.Microsecond)
	}
	panics := 0
	for _, s := range w.senders {
		s.mu.Lock()
		panics += s.panics
		for ci := range calls {
			c := &calls[ci]
			if c.s == indexOfSender(w, s) && c.end < 0 && !s.incall {
				c.end = L
				c.ret = true
				if len(s.rets) >= c.n {
					c.ok = s.rets[c.n-1]
				}
			}
		}
		s.mu.Unlock()
	}
	for ci := range calls {
		if calls[ci].end < 0 {
			calls[ci].end = L
		}
	}
	for k, l := range w.lis {
		l.mu.Lock()
		ls[k].closed = l.sawclose
		for _, e := range l.log {
			ls[k].log = append(ls[k].log, [2]int{e.s, e.n})
		}
		l.mu.Unlock()
	}
	leaks := waitLibGone(2*time.Second) - base
	if leaks < 0 {
		leaks = 0
	}
	// stop the harness goroutines of this case
	if allRet() {
		for _, s := range w.senders {
			close(s.cmd)
		}
	}
	for _, l := range w.lis {
		close(l.rcmd)
	}
	verifhook.Set(nil)

	if leaks > 0 || !allRet() {
		g.hard++
	} else {
		for _, l := range ls {
			if !l.closed {
				g.hard++
				break
			}
		}
	}

	// ---- emit ----
	items := make([]string, len(script))
	js := make([]any, len(script))
	for i, a := range script {
		items[i] = vcoq.Pair(a.coq(), zlist(obs[i]))
		js[i] = map[string]any{"action": a.kind, "arg": a.i, "observed": obs[i]}
	}
	coq := vcoq.App("KScript", vcoq.Nat(nS), vcoq.List(items), coqFin(calls, ls, panics, leaks))
	for _, c := range calls {
		if c.ret && !c.ok {
			tags["send-returned-false"] = true
		}
	}
	tags[fmt.Sprintf("listeners-%d", len(w.lis))] = true
	if w.lockWait {
		tags["stop-waits-for-reader"] = true
		nontrivial = true
	}
	tl := []string{"bus-script"}
	for t := range tags {
		tl = append(tl, t)
	}
	g.o.Add(vcoq.Case{Coq: coq, Key: coq, NonTrivial: nontrivial || tags["cancel-in-window"],
		Tags: tl,
		JSON: map[string]any{"kind": "bus-script", "senders": nS, "script": js, "end": jsFin(calls, ls, panics, leaks)}})
	if panics > 0 {
		g.o.Directs = append(g.o.Directs, vcoq.Direct{What: "Bus.Send panicked (send on closed channel)", Class: "panic",
			Replay: map[string]any{"kind": "bus-script", "script": js}})
	}
	return nil
}

func indexOfSender(w *busWorld, s *senderT) int {
	for i, x := range w.senders {
		if x == s {
			return i
		}
	}
	return -1
}

// senderAtWindow: a sender is released from a gate while some listener is cancelled but not yet stopped
func senderAtWindow(w *busWorld, _ int) bool {
	for _, l := range w.lis {
		l.mu.Lock()
		c := l.cancelled
		l.mu.Unlock()
		if c {
			return true
		}
	}
	return false
}
