// Correspondence harness for C10 (subscriptions and the event bus shut down cleanly).
//
// Three families of cases, all run against /repo's working tree:
//
//	KScript  a real minibus.Bus driven one controller action at a time through the verif yield
//	         points of bus.go (threads park at the gates, the controller waits for quiescence by
//	         looking at the goroutine dump), observations after every action + a free-running end
//	KPipe    one subscription of a resource.Value / resource.Collection (Pull, PullID, with and
//	         without backpressure) driven one action at a time (write, receive, cancel)
//	KScript (free)  free-running stress on a bus and on resources with cancels injected at yield
//	         points and at random instants; only the end-of-run record is judged
package main

import (
	"bytes"
	"fmt"
	"os"
	"runtime"
	"strconv"
	"strings"
	"sync"
	"sync/atomic"
	"time"

	"github.com/smart-core-os/sc-golang/internal/verifhook"
	"github.com/smart-core-os/sc-golang/verifharness/vcoq"
	"github.com/smart-core-os/sc-golang/verifharness/vh"
)

func init() { vh.Register("C10", genC10) }

var onlyFamily string

func main() { vh.Main() }

// ---------------------------------------------------------------- goroutine dumps

type ginfo struct {
	id      int64
	state   string
	lib     bool // has frames of internal/minibus or pkg/resource
	harness bool // has frames of this harness
}

var dumpBuf = make([]byte, 4<<20)

// dump returns the goroutines other than the caller.
func dump() []ginfo {
	n := runtime.Stack(dumpBuf, true)
	blocks := bytes.Split(dumpBuf[:n], []byte("\n\n"))
	out := make([]ginfo, 0, len(blocks))
	for i, b := range blocks {
		if i == 0 {
			continue // the caller
		}
		if !bytes.HasPrefix(b, []byte("goroutine ")) {
			continue
		}
		nl := bytes.IndexByte(b, '\n')
		if nl < 0 {
			nl = len(b)
		}
		head := string(b[len("goroutine "):nl])
		sp := strings.IndexByte(head, ' ')
		if sp < 0 {
			continue
		}
		id, _ := strconv.ParseInt(head[:sp], 10, 64)
		st := head[sp+1:]
		st = strings.TrimPrefix(st, "[")
		if j := strings.IndexAny(st, ",]"); j >= 0 {
			st = st[:j]
		}
		g := ginfo{id: id, state: st}
		g.lib = bytes.Contains(b, []byte("sc-golang/internal/minibus.")) || bytes.Contains(b, []byte("sc-golang/pkg/resource."))
		g.harness = bytes.Contains(b, []byte("/harness/c10/"))
		out = append(out, g)
	}
	return out
}

func curGID() int64 {
	var buf [64]byte
	n := runtime.Stack(buf[:], false)
	s := string(buf[len("goroutine "):n])
	if sp := strings.IndexByte(s, ' '); sp >= 0 {
		s = s[:sp]
	}
	id, _ := strconv.ParseInt(s, 10, 64)
	return id
}

var waiting = map[string]bool{
	"chan receive": true, "chan send": true, "select": true,
	"sync.RWMutex.RLock": true, "sync.RWMutex.Lock": true, "sync.Mutex.Lock": true,
	"semacquire": true, "sync.Cond.Wait": true, "sync.WaitGroup.Wait": true,
	"chan receive (nil chan)": true, "chan send (nil chan)": true, "select (no cases)": true,
}

func quiescent(d []ginfo) bool {
	for _, g := range d {
		if (g.lib || g.harness) && !waiting[g.state] {
			return false
		}
	}
	return true
}

// settle waits until no goroutine of the library or the harness can run.
func settle() ([]ginfo, error) {
	// The bound is generous and the polling backs off: every dump stops the world, and on a machine
	// with far more runnable threads than cores a goroutine that is merely waiting for a processor
	// was once seen "runnable" for 5 s while this loop kept stopping the world (thorough tier, load
	// average 60 on 16 cores).  A goroutine that really spins stays runnable for the whole bound.
	deadline := time.Now().Add(20 * time.Second)
	for i := 0; ; i++ {
		runtime.Gosched()
		d := dump()
		if quiescent(d) {
			// confirm: a goroutine readied by a runtime timer/netpoller would show up now
			runtime.Gosched()
			d = dump()
			if quiescent(d) {
				return d, nil
			}
		}
		if time.Now().After(deadline) {
			var sb strings.Builder
			for _, g := range d {
				if g.lib || g.harness {
					fmt.Fprintf(&sb, "%d:%s ", g.id, g.state)
				}
			}
			return d, fmt.Errorf("no quiescence within 20s: %s", sb.String())
		}
		if i > 20 {
			pause := 50 * time.Microsecond
			if i > 200 {
				pause = time.Millisecond
			}
			if i > 1000 {
				pause = 10 * time.Millisecond
			}
			time.Sleep(pause)
		}
	}
}

func libCount(d []ginfo) int {
	n := 0
	for _, g := range d {
		if g.lib && !g.harness {
			n++
		}
	}
	return n
}

func hasGID(d []ginfo, id int64) bool {
	for _, g := range d {
		if g.id == id {
			return true
		}
	}
	return false
}

// waitLibGone polls until no library goroutine (not counting harness callers) is left, or the bound passes.
func waitLibGone(bound time.Duration) int {
	deadline := time.Now().Add(bound)
	for {
		n := libCount(dump())
		if n == 0 || time.Now().After(deadline) {
			return n
		}
		time.Sleep(200 * time.Microsecond)
	}
}

// ---------------------------------------------------------------- gates

type gate struct {
	mu      sync.Mutex
	parked  string
	release chan struct{}
}

func newGate() *gate { return &gate{release: make(chan struct{}, 1)} }

func (g *gate) at() string {
	g.mu.Lock()
	defer g.mu.Unlock()
	return g.parked
}

type gates struct {
	mu       sync.Mutex
	byGID    map[int64]*gate
	free     atomic.Bool
	parking  map[string]bool
	unknown  func(point string) *gate // called for goroutines that are not registered
	onPoint  func(point string)       // free-running mode: called at every yield point
	disabled atomic.Bool
}

func (gs *gates) register(g *gate) {
	gs.mu.Lock()
	gs.byGID[curGID()] = g
	gs.mu.Unlock()
}

func (gs *gates) hook(point string) {
	if gs.disabled.Load() {
		return
	}
	if f := gs.onPoint; f != nil {
		f(point)
		return
	}
	if gs.free.Load() || !gs.parking[point] {
		return
	}
	id := curGID()
	gs.mu.Lock()
	g := gs.byGID[id]
	if g == nil && gs.unknown != nil {
		g = gs.unknown(point)
		if g != nil {
			gs.byGID[id] = g
		}
	}
	gs.mu.Unlock()
	if g == nil {
		return
	}
	g.mu.Lock()
	g.parked = point
	g.mu.Unlock()
	<-g.release
	g.mu.Lock()
	g.parked = ""
	g.mu.Unlock()
}

func (gs *gates) gidOf(g *gate) int64 {
	gs.mu.Lock()
	defer gs.mu.Unlock()
	for id, x := range gs.byGID {
		if x == g {
			return id
		}
	}
	return 0
}

var parkingPoints = map[string]bool{
	"bus.send.listener": true, "bus.listener.send.locked": true, "bus.send.collect": true, "bus.listen.register": true, "bus.stop.lock": true,
}

// ---------------------------------------------------------------- generator entry

type gen struct {
	o    *vcoq.Out
	r    *vcoq.Rand
	tier string
	hard int // cases that ran into a time bound (stuck writer, channel not closed, leaked goroutine)
}

func genC10(o *vcoq.Out, r *vcoq.Rand, tier string) error {
	o.Header = "From SC Require Import Base.Prelude Bus.Bus Bus.Pipe Bus.PipeHeld Bus.PipeJudge Bus.Res Bus.ResJudge Bus.ShapeJudge Bus.C10Judge."
	o.CaseType = "c10case"
	o.Judge = "judge"
	o.Shard = 130
	o.Rule = "distinct (script of controller actions with all observations) for KScript/KPipe, distinct end-of-run record for free-running cases; non-trivial = at least one cancel inside a Send/stop window, or a blocked writer, or a receive racing a close"
	g := &gen{o: o, r: r, tier: tier}
	nScript, nPipe, nFree := 1800, 1100, 120
	if tier == "thorough" {
		nScript, nPipe, nFree = 30000, 18000, 2000
	}
	defer verifhook.Set(nil)
	// C10_ONLY=shape|bus|pipe|res|race|free restricts the run to one family (debugging aid only;
	// bin/check never sets it)
	if only := os.Getenv("C10_ONLY"); only != "" {
		if only != "bus" {
			nScript = 0
		}
		if only != "pipe" {
			nPipe = 0
		}
		if only != "free" {
			nFree = 0
		}
		onlyFamily = only
	}
	if err := g.shapeCase(); err != nil {
		return fmt.Errorf("source shape: %w", err)
	}
	// every case that runs into a bound costs seconds: after a few of them the rest of the run
	// adds nothing (the failing inputs are already recorded)
	const maxHard = 3
	for i := 0; i < nScript && g.hard < maxHard; i++ {
		if err := g.busScript(i); err != nil {
			return fmt.Errorf("bus script %d: %w", i, err)
		}
	}
	for i := 0; i < nPipe && g.hard < 2*maxHard; i++ {
		if err := g.pipeScript(i); err != nil {
			return fmt.Errorf("pipe script %d: %w", i, err)
		}
	}
	nRes := 450
	if tier == "thorough" {
		nRes = 6000
	}
	if onlyFamily != "" && onlyFamily != "res" {
		nRes = 0
	}
	for i := 0; i < nRes && g.hard < 2*maxHard; i++ {
		if err := g.resScript(i); err != nil {
			return fmt.Errorf("res script %d: %w", i, err)
		}
	}
	nRace := 250
	if tier == "thorough" {
		nRace = 3000
	}
	if onlyFamily != "" && onlyFamily != "race" {
		nRace = 0
	}
	for i := 0; i < nRace && g.hard < 3*maxHard; i++ {
		if err := g.gcRace(i); err != nil {
			return fmt.Errorf("gc race %d: %w", i, err)
		}
	}
	for i := 0; i < nFree && g.hard < 3*maxHard; i++ {
		if err := g.freeRun(i); err != nil {
			return fmt.Errorf("free run %d: %w", i, err)
		}
	}
	return nil
}

// ---------------------------------------------------------------- shared records

type callRec struct {
	s, n       int
	start, end int
	ok, ret    bool
}

type lisRec struct {
	reg, cancel int
	log         [][2]int
	closed      bool
}

func coqFin(calls []callRec, ls []lisRec, panics, leaks int) string {
	cs := make([]string, len(calls))
	for i, c := range calls {
		cs[i] = vcoq.App("mkCall", vcoq.Int(c.s), vcoq.Int(c.n), vcoq.Int(c.start), vcoq.Int(c.end), vcoq.Bool(c.ok), vcoq.Bool(c.ret))
	}
	lr := make([]string, len(ls))
	for i, l := range ls {
		ev := make([]string, len(l.log))
		for j, e := range l.log {
			ev[j] = vcoq.Pair(vcoq.Int(e[0]), vcoq.Int(e[1]))
		}
		lr[i] = vcoq.App("mkLR", vcoq.Int(l.reg), vcoq.Int(l.cancel), vcoq.List(ev), vcoq.Bool(l.closed))
	}
	return vcoq.App("mkFin", vcoq.List(cs), vcoq.List(lr), vcoq.Int(panics), vcoq.Int(leaks))
}

func jsFin(calls []callRec, ls []lisRec, panics, leaks int) map[string]any {
	cs := make([]any, len(calls))
	for i, c := range calls {
		cs[i] = map[string]any{"sender": c.s, "n": c.n, "start": c.start, "end": c.end, "ok": c.ok, "returned": c.ret}
	}
	lr := make([]any, len(ls))
	for i, l := range ls {
		lr[i] = map[string]any{"registered_at": l.reg, "cancelled_at": l.cancel, "received": l.log, "closed_seen": l.closed}
	}
	return map[string]any{"calls": cs, "listeners": lr, "panics": panics, "leaked_goroutines": leaks}
}

func zlist(v []int) string {
	it := make([]string, len(v))
	for i, x := range v {
		it[i] = vcoq.Int(x)
	}
	return vcoq.List(it)
}

type event struct{ s, n int }
