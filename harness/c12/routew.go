package main

import (
	"fmt"
	"reflect"
	"strings"

	"github.com/smart-core-os/sc-golang/pkg/router"
	"github.com/smart-core-os/sc-golang/verifharness/vcoq"
	"google.golang.org/protobuf/reflect/protoreflect"
	"google.golang.org/protobuf/reflect/protoregistry"
)

// routewNames: what a history on a generated router asks for.  Besides ordinary names: the empty
// name, names that are blank but not empty, names that differ from a registered one only by
// padding or case (a router must not trim or fold).
var routewNames = []string{"a", "b", "zz", "", " ", "a ", " a", "A", "\t", "\u00a0", "a/b"}

// routewHistory: a generated router built from the option subset `opts` (bit 0 WithFallback, bit 1
// WithFactory, bit 2 WithOnChange).  Every lookup -- Router.Get, GetXxxClient, a unary method, a
// server-streaming method -- decides afresh what the fallback and the factory return if they are
// called: nil,nil / nil,err / CLIENT AND ERR / client,nil, the client being fresh, registered under
// some name, or handed out before.  Every client is a real generated XxxClient over a recording
// fake connection, so a call that reaches a value a factory returned next to an error is seen.
// Both results of every Get are observed (the value next to an error too).
func (g *c12) routewHistory(e routerEntry, opts int) {
	w := &world{}
	id := &ids{m: map[any]int{}}
	clients := map[int]any{0: nil}
	mk := func(i int) any {
		if c, ok := clients[i]; ok {
			return c
		}
		c := e.NewClient(&fakeConn{id: i, w: w})
		clients[i] = c
		id.m[c] = i
		return c
	}
	hasFb, hasFac, hasCb := opts&1 != 0, opts&2 != 0, opts&4 != 0
	fe, ae := g.randSt(), g.randSt()
	var log []change
	var nextFb, nextFac fout
	fbCalls, facCalls := 0, 0
	ret := func(o fout, e *st) (any, error) {
		switch o.kind {
		case "nil":
			return nil, nil
		case "err":
			return nil, e.err()
		case "both":
			return mk(o.c), e.err()
		}
		return mk(o.c), nil
	}
	var ro []router.Option
	if hasFb {
		ro = append(ro, router.WithFallback(func(string) (any, error) { fbCalls++; return ret(nextFb, fe) }))
	}
	if hasFac {
		f := func(string) (any, error) { facCalls++; return ret(nextFac, ae) }
		if g.r.Chance(50) { // through the generated WithXxxClientFactory
			ro = append(ro, e.WithFactory(f))
			g.o.Extra["acc:typed:WithFactory"] = extraInt(g.o.Extra["acc:typed:WithFactory"]) + 1
		} else {
			ro = append(ro, router.WithFactory(f))
			g.o.Extra["acc:Router:WithFactory"] = extraInt(g.o.Extra["acc:Router:WithFactory"]) + 1
		}
	}
	if hasCb {
		ro = append(ro, router.WithOnChange(func(ch router.Change) {
			log = append(log, change{ch.Name, id.of(ch.Old), id.of(ch.New), ch.Auto})
		}))
	}
	rt := e.New(ro...)
	reg := &registrar{}
	rt.Register(reg)
	if reg.desc == nil {
		return // reported by typedHistory
	}
	sdAny, err := protoregistry.GlobalFiles.FindDescriptorByName(protoreflect.FullName(reg.desc.ServiceName))
	if err != nil {
		return
	}
	sd := sdAny.(protoreflect.ServiceDescriptor)
	typed := findTyped(rt)
	var meths []meth
	for _, m := range methodsOf(reg, sd) {
		if m.md != nil {
			meths = append(meths, m)
		}
	}

	var ops, obs []string
	var jops []any
	next := 1
	var used []int // clients registered or handed out
	count := func(k string) { g.o.Extra[k] = extraInt(g.o.Extra[k]) + 1 }
	pickOut := func() fout {
		switch g.r.Intn(9) {
		case 0:
			return fout{kind: "nil"}
		case 1, 2:
			return fout{kind: "err"}
		case 3, 4:
			if len(used) > 0 && g.r.Chance(35) { // a client known under some name, returned next to an error
				return fout{kind: "both", c: used[g.r.Intn(len(used))]}
			}
			next++
			return fout{kind: "both", c: next - 1}
		case 5:
			if len(used) > 0 {
				return fout{kind: "ok", c: used[g.r.Intn(len(used))]}
			}
		}
		next++
		return fout{kind: "ok", c: next - 1}
	}
	regOpStep := func(o regOp) {
		var rc string
		var rj any
		via := "Router"
		if typed.ok && o.kind != "has" && g.r.Chance(50) {
			via = "typed"
			rc, rj = doRegTyped(typed, o, clients, id)
		} else {
			rc, rj = doReg(rt, o, clients, id)
		}
		switch o.kind {
		case "add":
			ops = append(ops, vcoq.App("XAdd", coqStr(o.name), vcoq.Int(o.c)))
		case "remove":
			ops = append(ops, vcoq.App("XRemove", coqStr(o.name)))
		case "has":
			ops = append(ops, vcoq.App("XHas", coqStr(o.name)))
		}
		obs = append(obs, vcoq.App("XR", rc))
		jops = append(jops, map[string]any{"op": o.kind, "name": o.name, "client": o.c, "result": rj, "via": via})
		count("x:" + o.kind)
	}
	addNil := func(name string) {
		// nil is not an XxxClient: the typed Add must refuse it (and store nothing)
		panicked := func() (p bool) {
			defer func() { p = recover() != nil }()
			rt.Add(name, nil)
			return false
		}()
		ops = append(ops, vcoq.App("XAdd", coqStr(name), "0"))
		if panicked {
			obs = append(obs, "XPanic")
		} else {
			obs = append(obs, vcoq.App("XR", vcoq.App("RClient", "0")))
		}
		jops = append(jops, map[string]any{"op": "add-nil", "name": name, "panicked": panicked})
		count("x:add-nil")
	}
	present := []string{}
	pickName := func() string {
		if len(present) > 0 && g.r.Chance(20) {
			return present[g.r.Intn(len(present))]
		}
		return routewNames[g.r.Intn(len(routewNames))]
	}
	add := func(name string) {
		c := next
		next++
		mk(c)
		used = append(used, c)
		present = append(present, name)
		regOpStep(regOp{"add", name, c})
	}
	add("a")
	if g.r.Chance(50) {
		add([]string{"b", " ", "A"}[g.r.Intn(3)])
	}
	nrpc := 0
	steps := g.r.Range(10, 18)
	for i := 0; i < steps; i++ {
		name := pickName()
		k := g.r.Intn(16)
		if k >= 4 {
			nextFb, nextFac = pickOut(), pickOut()
		}
		k0, f0, l0 := fbCalls, facCalls, len(log)
		lookup := ""
		var target string
		switch {
		case k == 0:
			add(name)
		case k == 1:
			regOpStep(regOp{"remove", name, 0})
		case k == 2:
			regOpStep(regOp{"has", name, 0})
		case k == 3:
			addNil(name)
		case k == 4 || k == 5 || len(meths) == 0:
			// both results of Get, raw or typed
			var c any
			var err error
			cons := "XGetRaw"
			if typed.ok && g.r.Chance(50) {
				cons = "XGetTyped"
				out := typed.get.Call([]reflect.Value{reflect.ValueOf(name)})
				c = ifaceOrNil(out[0])
				if e := ifaceOrNil(out[1]); e != nil {
					err = e.(error)
				}
			} else {
				c, err = rt.Get(name)
			}
			lookup = strings.TrimPrefix(cons, "X")
			ops = append(ops, vcoq.App(cons, coqStr(name), nextFb.coq(), nextFac.coq()))
			obs = append(obs, vcoq.App("XGot", vcoq.Int(id.of(c)), coqErr(err), vcoq.Int(fbCalls-k0), vcoq.Int(facCalls-f0)))
			jops = append(jops, map[string]any{"op": lookup, "name": name, "fallback_returns": nextFb, "factory_returns": nextFac,
				"value": id.of(c), "error": jsErr(err), "fallback_calls": fbCalls - k0, "factory_calls": facCalls - f0})
			target = "notfound"
			if err == nil {
				target = "got"
			}
		default:
			m := meths[g.r.Intn(len(meths))]
			out := g.driveRPC(reg, sd, m, name, w)
			if out == nil {
				continue
			}
			nrpc++
			if out.stream {
				lookup = "Stream"
				ops = append(ops, vcoq.App("XStream", coqStr(name), nextFb.coq(), nextFac.coq(), out.child, out.caller))
			} else {
				lookup = "Unary"
				ops = append(ops, vcoq.App("XUnary", coqStr(name), nextFb.coq(), nextFac.coq(), out.child))
			}
			obs = append(obs, vcoq.App("XCalled", out.calls, out.tr, vcoq.Int(fbCalls-k0), vcoq.Int(facCalls-f0)))
			out.jop["fallback_returns"], out.jop["factory_returns"] = nextFb, nextFac
			out.jop["fallback_calls"], out.jop["factory_calls"] = fbCalls-k0, facCalls-f0
			jops = append(jops, out.jop)
			target = "called"
			if out.calls == "[]" {
				target = "nobody-called"
			}
		}
		if lookup != "" {
			// outcome class: consumer, who was asked and what each returned, result
			asked := "registry"
			if fbCalls > k0 {
				asked += "+fallback(" + nextFb.kind + ")"
			}
			if facCalls > f0 {
				asked += "+factory(" + nextFac.kind + ")"
			}
			count(fmt.Sprintf("x:%s:%s:%s,callbacks=%d", lookup, asked, target, len(log)-l0))
			count("name:router:" + nameClass(name))
			for _, o := range []fout{nextFb, nextFac} {
				if o.kind == "ok" {
					used = append(used, o.c)
				}
			}
		}
	}
	coq := vcoq.App("KRouteW", vcoq.App("mkW", vcoq.Bool(hasFb), vcoq.Bool(hasFac), vcoq.Bool(hasCb)), mustSt(fe), mustSt(ae),
		vcoq.List(ops), vcoq.List(obs), coqChanges(log))
	g.o.Add(vcoq.Case{Coq: coq, JSON: map[string]any{"kind": "router-options-history", "router": e.File, "service": reg.desc.ServiceName,
		"fallback": hasFb, "factory": hasFac, "onChange": hasCb, "fallback_error": fe, "factory_error": ae, "ops": jops, "log": log},
		Key: coq, NonTrivial: nrpc > 0, Tags: []string{"router-options-history", fmt.Sprintf("router-options-history:%03b", opts)}})
}

// mustSt renders a status as a Coq pair (code, message).
func mustSt(s *st) string {
	return vcoq.Pair(vcoq.Int(stCode(s)), coqStr(s.Msg))
}
