package main

import (
	"errors"
	"fmt"
	"time"

	"github.com/smart-core-os/sc-golang/internal/verifhook"
	"github.com/smart-core-os/sc-golang/pkg/router"
	"github.com/smart-core-os/sc-golang/verifharness/vcoq"
	"google.golang.org/grpc/codes"
	"google.golang.org/grpc/status"
)

// Concurrent calls with PER-CALL fallback/factory outcomes (RouterCbW.v, case KSchedW).
//
// Every Get thread carries what its own fallback call and its own factory call return
// (nil,nil / nil,err / client AND err / client,nil).  The controller of sched.go lets one thread
// run at a time, so when the router calls the fallback or the factory it does so on the goroutine
// of the thread the controller resumed last: the functions answer with THAT thread's outcomes.
// The router is built from a subset of WithFallback / WithFactory; onChange is always configured
// and parks on entry (as in the KSchedCb cases), so callbacks are steps of the schedule.

type threadW struct {
	thread
	fbo, fao fout
}

func (t *threadW) coqW() string {
	switch t.kind {
	case "add":
		return vcoq.App("WTAdd", coqStr(t.name), vcoq.Int(t.c))
	case "remove":
		return vcoq.App("WTRemove", coqStr(t.name))
	}
	return vcoq.App("WTGet", coqStr(t.name), t.fbo.coq(), t.fao.coq())
}

type schedCaseW struct {
	hasFb, hasFac bool
	ths           []*threadW
	tag           string
}

func (g *c12) runScheduleW(sc schedCaseW, sched []int) error {
	id := &ids{m: map[any]int{}}
	clients := map[int]any{0: nil}
	mk := func(i int) any {
		if c, ok := clients[i]; ok {
			return c
		}
		c := &tok{i}
		clients[i] = c
		id.m[c] = i
		return c
	}
	ret := func(o fout) (any, error) {
		switch o.kind {
		case "nil":
			return nil, nil
		case "err":
			return nil, status.Error(codes.Unavailable, "cannot")
		case "both":
			return mk(o.c), errors.New("half made")
		}
		return mk(o.c), nil
	}
	var cur *threadW
	var log []change
	var misuse []string
	var ro []router.Option
	if sc.hasFb {
		ro = append(ro, router.WithFallback(func(name string) (any, error) {
			if cur == nil || cur.kind != "get" || cur.name != name {
				misuse = append(misuse, "fallback called for "+name+" outside a Get of that name")
				return nil, nil
			}
			return ret(cur.fbo)
		}))
	}
	if sc.hasFac {
		ro = append(ro, router.WithFactory(func(name string) (any, error) {
			if cur == nil || cur.kind != "get" || cur.name != name {
				misuse = append(misuse, "factory called for "+name+" outside a Get of that name")
				return nil, nil
			}
			return ret(cur.fao)
		}))
	}
	events := make(chan string)
	park := func(point string) {
		t := cur
		t.points = append(t.points, point)
		events <- "parked"
		<-t.resume
	}
	ro = append(ro, router.WithOnChange(func(ch router.Change) {
		park("onChange")
		log = append(log, change{ch.Name, id.of(ch.Old), id.of(ch.New), ch.Auto})
	}))
	rt := router.NewRouter(ro...)
	ths := make([]*threadW, len(sc.ths))
	for i, t := range sc.ths {
		c := *t
		c.resume = make(chan struct{})
		c.points = nil
		ths[i] = &c
		if c.kind == "add" {
			mk(c.c)
		}
	}
	verifhook.Set(park)
	defer verifhook.Set(nil)
	step := func(i int) error {
		if i < 0 || i >= len(ths) || ths[i].done {
			return nil // stutter
		}
		t := ths[i]
		cur = t
		if !t.started {
			t.started = true
			go func() {
				switch t.kind {
				case "get":
					c, err := rt.Get(t.name)
					t.resCoq, t.resJS = getRes(c, err, id)
				case "add":
					t.resCoq, t.resJS = doReg(rt, regOp{"add", t.name, t.c}, clients, id)
				case "remove":
					t.resCoq, t.resJS = doReg(rt, regOp{"remove", t.name, 0}, clients, id)
				}
				t.done = true
				events <- "done"
			}()
		} else {
			t.resume <- struct{}{}
		}
		select {
		case <-events:
			return nil
		case <-time.After(5 * time.Second):
			return fmt.Errorf("thread %d neither parked nor finished within 5s (schedule %v)", i, sched)
		}
	}
	executed := append([]int(nil), sched...)
	for _, i := range sched {
		if err := step(i); err != nil {
			return err
		}
	}
	for {
		progressed := false
		for i, t := range ths {
			if !t.done {
				if err := step(i); err != nil {
					return err
				}
				executed = append(executed, i)
				progressed = true
			}
		}
		if !progressed {
			break
		}
	}
	verifhook.Set(nil)
	cur = nil
	for _, m := range misuse {
		g.direct("schedw-misuse", m, map[string]any{"case": sc.tag, "schedule": executed})
	}
	var obs, tk []string
	var jres []any
	for _, t := range ths {
		obs = append(obs, t.resCoq)
		tk = append(tk, t.coqW())
		jt := map[string]any{"thread": t.kind, "name": t.name, "result": t.resJS, "parked_at": t.points}
		if t.kind == "get" {
			jt["fallback_returns"], jt["factory_returns"] = t.fbo, t.fao
		} else if t.kind == "add" {
			jt["client"] = t.c
		}
		jres = append(jres, jt)
	}
	names := map[string]bool{}
	var final []string
	jfinal := map[string]int{}
	// the final registry is read through a router whose fallback/factory must not be consulted:
	// Has first, Get only for registered names
	for _, t := range ths {
		if names[t.name] {
			continue
		}
		names[t.name] = true
		c := 0
		if rt.Has(t.name) {
			v, err := rt.Get(t.name)
			if err != nil {
				c = -2
			} else {
				c = id.of(v)
			}
		}
		final = append(final, vcoq.Pair(coqStr(t.name), vcoq.Int(c)))
		jfinal[t.name] = c
	}
	ss := make([]string, len(executed))
	for i, v := range executed {
		ss[i] = vcoq.Nat(v)
	}
	coq := vcoq.App("KSchedW", vcoq.App("mkW", vcoq.Bool(sc.hasFb), vcoq.Bool(sc.hasFac), vcoq.Bool(true)),
		vcoq.List(tk), vcoq.List(ss), vcoq.List(obs), coqChanges(log), vcoq.List(final))
	g.o.Add(vcoq.Case{Coq: coq, JSON: map[string]any{"kind": "schedule-percall", "with_fallback": sc.hasFb, "with_factory": sc.hasFac,
		"threads": jres, "schedule": executed, "callbacks": log, "final": jfinal}, Key: coq, NonTrivial: true,
		Tags: []string{"schedw", "schedw:" + sc.tag}})
	return nil
}

func (g *c12) schedulesW() {
	get := func(n string, fbo, fao fout) *threadW {
		return &threadW{thread: thread{kind: "get", name: n}, fbo: fbo, fao: fao}
	}
	add := func(n string, c int) *threadW { return &threadW{thread: thread{kind: "add", name: n, c: c}} }
	rem := func(n string) *threadW { return &threadW{thread: thread{kind: "remove", name: n}} }
	fnil, ferr := fout{kind: "nil"}, fout{kind: "err"}
	both := func(c int) fout { return fout{kind: "both", c: c} }
	ok := func(c int) fout { return fout{kind: "ok", c: c} }
	cases := []schedCaseW{
		{true, true, []*threadW{get("n", fnil, both(7)), get("n", fnil, ok(8))}, "client+err|client"},
		{true, true, []*threadW{get("n", fnil, ferr), get("n", fnil, ok(8))}, "err|client"},
		{true, true, []*threadW{get("n", ferr, ok(8)), get("n", fnil, ok(9))}, "client|other-client"},
		{true, true, []*threadW{get("n", fnil, ok(8)), get("n", fnil, ok(8))}, "client|same-client"},
		{true, true, []*threadW{get("n", ok(5), ok(8)), get("n", fnil, ok(9))}, "fallback|client"},
		{true, true, []*threadW{get("n", both(5), ok(8)), get("n", ferr, fnil)}, "fallback-client+err|nothing"},
		{false, true, []*threadW{get("n", ok(5), ok(8)), get("n", ok(5), ferr)}, "no-fallback"},
		{true, false, []*threadW{get("n", fnil, ok(8)), get("n", ok(5), ok(9))}, "no-factory"},
		{false, false, []*threadW{get("n", ok(5), ok(8)), add("n", 3)}, "no-options+add"},
		{true, true, []*threadW{get("n", fnil, ok(8)), add("n", 3)}, "client|add"},
		{true, true, []*threadW{get("n", fnil, ok(8)), rem("n")}, "client|remove"},
		{true, true, []*threadW{get("n", fnil, both(7)), get("m", fnil, ok(8))}, "two-names"},
	}
	for _, sc := range cases {
		steps := make([]int, len(sc.ths))
		for i, t := range sc.ths {
			steps[i] = t.maxStepsCb()
		}
		var failed error
		interleavings(steps, func(s []int) {
			if failed != nil {
				return
			}
			failed = g.runScheduleW(sc, s)
		})
		if failed != nil {
			g.direct("schedule-stuck", failed.Error(), map[string]any{"case": "percall:" + sc.tag})
		}
	}
	// random: 2-4 threads, random option subset, random outcomes (fresh clients, clients other
	// threads use too), two names
	n := 300
	if g.tier == "thorough" {
		n = 5000
	}
	for i := 0; i < n; i++ {
		k := g.r.Range(2, 4)
		sc := schedCaseW{hasFb: g.r.Chance(70), hasFac: g.r.Chance(80), tag: "random"}
		pick := func(j int) fout {
			switch g.r.Intn(7) {
			case 0:
				return fnil
			case 1, 2:
				return ferr
			case 3:
				return both(20 + j)
			case 4:
				return ok(30) // a client several calls hand out
			}
			return ok(40 + j)
		}
		var steps []int
		for j := 0; j < k; j++ {
			name := "n"
			if g.r.Chance(15) {
				name = "m"
			}
			switch g.r.Intn(8) {
			case 0:
				sc.ths = append(sc.ths, add(name, 10+j))
			case 1:
				sc.ths = append(sc.ths, rem(name))
			default:
				fbo := pick(j)
				if g.r.Chance(60) {
					fbo = []fout{fnil, ferr}[g.r.Intn(2)]
				}
				sc.ths = append(sc.ths, get(name, fbo, pick(j+4)))
			}
			steps = append(steps, sc.ths[j].maxStepsCb())
		}
		var s []int
		left := append([]int(nil), steps...)
		for len(s) < 16 {
			j := g.r.Intn(k)
			if left[j] > 0 {
				left[j]--
				s = append(s, j)
			} else if g.r.Chance(30) {
				break
			}
		}
		if err := g.runScheduleW(sc, s); err != nil {
			g.direct("schedule-stuck", err.Error(), map[string]any{"case": "percall:random"})
			break
		}
	}
}
