// Correspondence generator for C12: routers deliver each request to the client registered under
// its name.  Runs every generated router of /repo's working tree (every method, through the
// grpc.ServiceDesc handlers the router registers) against fake per-name clients, the bare
// registry on random histories, forced interleavings of concurrent calls through the verif
// yield points of router.Get, and the default-name interceptors.
package main

import (
	"context"
	"errors"
	"fmt"
	"sort"
	"strings"
	"time"

	"github.com/smart-core-os/sc-golang/pkg/router"
	"github.com/smart-core-os/sc-golang/verifharness/vcoq"
	"github.com/smart-core-os/sc-golang/verifharness/vh"
	"google.golang.org/grpc"
	"google.golang.org/grpc/codes"
	"google.golang.org/grpc/metadata"
	"google.golang.org/grpc/status"
	"google.golang.org/protobuf/proto"
	"google.golang.org/protobuf/reflect/protoreflect"
	"google.golang.org/protobuf/reflect/protoregistry"
)

func init() {
	vh.Register("C12", genC12)
	vh.RegisterTranslator("routers", translateRouters)
}

func main() { vh.Main() }

func codesOf(c int) codes.Code { return codes.Code(c) }

type c12 struct {
	o    *vcoq.Out
	r    *vcoq.Rand
	tier string
}

func (g *c12) direct(class, what string, replay any) {
	g.o.Directs = append(g.o.Directs, vcoq.Direct{What: what, Class: class, Replay: replay})
}

// ---------- random protobuf content ----------

func (g *c12) str() string {
	const al = "abcxyz019-_ /"
	n := g.r.Range(0, 6)
	b := make([]byte, n)
	for i := range b {
		b[i] = al[g.r.Intn(len(al))]
	}
	return string(b)
}

func (g *c12) scalar(fd protoreflect.FieldDescriptor) protoreflect.Value {
	switch fd.Kind() {
	case protoreflect.BoolKind:
		return protoreflect.ValueOfBool(true)
	case protoreflect.EnumKind:
		vs := fd.Enum().Values()
		return protoreflect.ValueOfEnum(vs.Get(g.r.Intn(vs.Len())).Number())
	case protoreflect.Int32Kind, protoreflect.Sint32Kind, protoreflect.Sfixed32Kind:
		return protoreflect.ValueOfInt32(int32(g.r.Range(-5, 100)))
	case protoreflect.Int64Kind, protoreflect.Sint64Kind, protoreflect.Sfixed64Kind:
		return protoreflect.ValueOfInt64(int64(g.r.Range(-5, 100000)))
	case protoreflect.Uint32Kind, protoreflect.Fixed32Kind:
		return protoreflect.ValueOfUint32(uint32(g.r.Range(0, 100)))
	case protoreflect.Uint64Kind, protoreflect.Fixed64Kind:
		return protoreflect.ValueOfUint64(uint64(g.r.Range(0, 100000)))
	case protoreflect.FloatKind:
		return protoreflect.ValueOfFloat32(float32(g.r.Range(-4, 50)) / 4)
	case protoreflect.DoubleKind:
		return protoreflect.ValueOfFloat64(float64(g.r.Range(-4, 50)) / 8)
	case protoreflect.StringKind:
		return protoreflect.ValueOfString(g.str())
	case protoreflect.BytesKind:
		return protoreflect.ValueOfBytes([]byte(g.str()))
	}
	panic("scalar: " + fd.Kind().String())
}

func (g *c12) fill(m protoreflect.Message, depth int) {
	fds := m.Descriptor().Fields()
	for i := 0; i < fds.Len(); i++ {
		fd := fds.Get(i)
		if !g.r.Chance(50) {
			continue
		}
		switch {
		case fd.IsMap():
			if depth <= 0 {
				continue
			}
			mp := m.Mutable(fd).Map()
			for k := g.r.Range(1, 2); k > 0; k-- {
				key := g.scalar(fd.MapKey()).MapKey()
				if fd.MapValue().Message() != nil {
					v := mp.NewValue()
					g.fill(v.Message(), depth-1)
					mp.Set(key, v)
				} else {
					mp.Set(key, g.scalar(fd.MapValue()))
				}
			}
		case fd.IsList():
			l := m.Mutable(fd).List()
			for k := g.r.Range(1, 2); k > 0; k-- {
				if fd.Message() != nil {
					if depth <= 0 {
						break
					}
					e := l.NewElement()
					g.fill(e.Message(), depth-1)
					l.Append(e)
				} else {
					l.Append(g.scalar(fd))
				}
			}
		case fd.Message() != nil:
			if depth > 0 {
				g.fill(m.Mutable(fd).Message(), depth-1)
			}
		default:
			m.Set(fd, g.scalar(fd))
		}
	}
}

func (g *c12) randMsg(d protoreflect.MessageDescriptor) proto.Message {
	mt, err := protoregistry.GlobalTypes.FindMessageByName(d.FullName())
	if err != nil {
		panic(err)
	}
	m := mt.New()
	g.fill(m, 2)
	return m.Interface()
}

func detBytes(m proto.Message) []byte {
	b, _ := proto.MarshalOptions{Deterministic: true}.Marshal(m)
	return b
}

func (g *c12) randMD() metadata.MD {
	md := metadata.MD{}
	keys := []string{"k-a", "k-b", "x-trace"}
	for _, k := range keys {
		if g.r.Chance(40) {
			for n := g.r.Range(1, 2); n > 0; n-- {
				md.Append(k, g.str())
			}
		}
	}
	return md
}

func (g *c12) randSt() *st {
	s := &st{Code: g.r.Range(1, 16), Msg: g.str()}
	if g.r.Chance(12) {
		s.Raw = true
		s.Msg = "plain " + s.Msg
	}
	return s
}

// canonical message identity: 1 + index of the first pool message with the same bytes; -1 unknown
func canonID(pool [][]byte, b []byte) int {
	for i, p := range pool {
		if string(p) == string(b) {
			return i + 1
		}
	}
	return -1
}

func (g *c12) childScript(out protoreflect.MessageDescriptor, stream bool) (*childScript, [][]byte) {
	s := &childScript{}
	if !stream {
		if g.r.Chance(35) {
			s.OpenErr, s.OpenAt = g.randSt(), "Invoke"
			return s, nil
		}
		m := g.randMsg(out)
		s.Msgs = []proto.Message{m}
		s.MsgIDs = []int{1}
		return s, [][]byte{detBytes(m)}
	}
	switch g.r.Intn(12) {
	case 0:
		s.OpenErr, s.OpenAt = g.randSt(), []string{"NewStream", "SendMsg", "CloseSend"}[g.r.Intn(3)]
	case 1:
		s.HdrErr = g.randSt()
	}
	s.Hdr = g.randMD()
	n := g.r.Range(0, 4)
	var pool [][]byte
	for i := 0; i < n; i++ {
		m := g.randMsg(out)
		s.Msgs = append(s.Msgs, m)
		pool = append(pool, detBytes(m))
	}
	for _, b := range pool {
		s.MsgIDs = append(s.MsgIDs, canonID(pool, b))
	}
	if g.r.Chance(45) {
		s.Fin = g.randSt()
	}
	if g.r.Chance(65) {
		s.HasTrl = true
		s.Trl = g.randMD()
	}
	return s, pool
}

func (g *c12) callerScript(nmsgs int) *callerScript {
	k := &callerScript{SendErrAt: -1}
	switch g.r.Intn(10) {
	case 0:
		k.SendHeaderErr = g.randSt()
	case 1, 2:
		k.SendErrAt = g.r.Range(0, nmsgs) // nmsgs itself: never reached
		k.SendErr = g.randSt()
	}
	return k
}

// ---------- histories on a generated router ----------

type change struct {
	Name     string
	Old, New int
	Auto     bool
}

func coqChange(c change) string {
	return vcoq.App("mkChange", coqStr(c.Name), vcoq.Int(c.Old), vcoq.Int(c.New), vcoq.Bool(c.Auto))
}
func coqChanges(l []change) string {
	it := make([]string, len(l))
	for i, c := range l {
		it[i] = coqChange(c)
	}
	return vcoq.List(it)
}

// ids maps client values back to the identities the harness gave them (nil = 0, unknown = -1)
type ids struct{ m map[any]int }

func (i *ids) of(c any) int {
	if c == nil {
		return 0
	}
	if v, ok := i.m[c]; ok {
		return v
	}
	return -1
}

type cfgT struct {
	fb    map[string]int // fallback: name -> client id
	fbL   []string
	facOK []string
	first int
}

func (c cfgT) coq() string {
	var fb []string
	for _, n := range c.fbL {
		fb = append(fb, vcoq.Pair(coqStr(n), vcoq.Int(c.fb[n])))
	}
	var ok []string
	for _, n := range c.facOK {
		ok = append(ok, coqStr(n))
	}
	return vcoq.App("mkCfg", vcoq.List(fb), vcoq.List(ok))
}
func (c cfgT) js() any {
	return map[string]any{"fallback": c.fb, "factory_ok": c.facOK, "first_auto": c.first}
}

// routerOpts builds the options for cfg; clients are made by mk (given an identity).
func routerOpts(c cfgT, mk func(id int) any, log *[]change, id *ids, nfac *int, r *vcoq.Rand) []router.Option {
	fbClients := map[string]any{}
	for n, i := range c.fb {
		fbClients[n] = mk(i)
	}
	ok := map[string]bool{}
	for _, n := range c.facOK {
		ok[n] = true
	}
	k := 0
	return []router.Option{
		router.WithFallback(func(name string) (any, error) {
			if cl, found := fbClients[name]; found {
				return cl, nil
			}
			k++
			if k%2 == 0 {
				return nil, nil
			}
			return nil, errors.New("fallback does not know " + name)
		}),
		router.WithFactory(func(name string) (any, error) {
			if !ok[name] {
				k++
				if k%3 == 0 {
					return nil, nil
				}
				return nil, status.Error(codes.Unavailable, "factory cannot make "+name)
			}
			cl := mk(c.first + *nfac)
			*nfac++
			return cl, nil
		}),
		router.WithOnChange(func(ch router.Change) {
			if cbHook != nil {
				cbHook()
			}
			*log = append(*log, change{ch.Name, id.of(ch.Old), id.of(ch.New), ch.Auto})
		}),
	}
}

var namePool = []string{"a", "b", "fb1", "fb2", "auto1", "auto2", "zz", "", " ", "a ", "A", "\u00a0"}

func (g *c12) randCfg() cfgT {
	c := cfgT{fb: map[string]int{}, first: 1000}
	for i, n := range []string{"fb1", "fb2"} {
		if g.r.Chance(60) {
			c.fb[n] = 101 + i
			c.fbL = append(c.fbL, n)
		}
	}
	// sometimes the fallback and the factory both know a name: the fallback wins and nothing is remembered
	if g.r.Chance(15) {
		c.fb["auto1"] = 103
		c.fbL = append(c.fbL, "auto1")
	}
	for _, n := range []string{"auto1", "auto2"} {
		if g.r.Chance(70) {
			c.facOK = append(c.facOK, n)
		}
	}
	return c
}

func (g *c12) pickName(present []string) string {
	if len(present) > 0 && g.r.Chance(45) {
		return present[g.r.Intn(len(present))]
	}
	return namePool[g.r.Intn(len(namePool))]
}

type regOp struct {
	kind string
	name string
	c    int
}

func (o regOp) coq() string {
	switch o.kind {
	case "add":
		return vcoq.App("OAdd", coqStr(o.name), vcoq.Int(o.c))
	case "remove":
		return vcoq.App("ORemove", coqStr(o.name))
	case "has":
		return vcoq.App("OHas", coqStr(o.name))
	}
	return vcoq.App("OGet", coqStr(o.name))
}

func getRes(c any, err error, id *ids) (string, any) {
	if err != nil {
		msg := status.Convert(err).Message()
		if status.Code(err) != codes.NotFound {
			// not the NotFound the property requires: a result shape no reference accepts
			return vcoq.App("RClient", "(-3)"), map[string]any{"error_code": int(status.Code(err)), "msg": msg}
		}
		return vcoq.App("RGet", vcoq.App("NotFound", coqStr(msg))), map[string]any{"notfound": msg}
	}
	return vcoq.App("RGet", vcoq.App("Got", vcoq.Int(id.of(c)))), map[string]any{"got": id.of(c)}
}

// doReg performs one registry op on rt and returns the Coq/JSON forms of its result.
func doReg(rt router.Router, o regOp, clients map[int]any, id *ids) (string, any) {
	switch o.kind {
	case "add":
		old := rt.Add(o.name, clients[o.c])
		return vcoq.App("RClient", vcoq.Int(id.of(old))), id.of(old)
	case "remove":
		old := rt.Remove(o.name)
		return vcoq.App("RClient", vcoq.Int(id.of(old))), id.of(old)
	case "has":
		b := rt.Has(o.name)
		return vcoq.App("RBool", vcoq.Bool(b)), b
	}
	c, err := rt.Get(o.name)
	return getRes(c, err, id)
}

func (g *c12) typedHistory(e routerEntry, scriptsPerMethod int) {
	w := &world{}
	id := &ids{m: map[any]int{}}
	clients := map[int]any{0: nil}
	mk := func(i int) any {
		c := e.NewClient(&fakeConn{id: i, w: w})
		clients[i] = c
		id.m[c] = i
		return c
	}
	cfg := g.randCfg()
	var log []change
	nfac := 0
	rt := e.New(routerOpts(cfg, mk, &log, id, &nfac, g.r)...)
	reg := &registrar{}
	rt.Register(reg)
	if reg.desc == nil {
		g.direct("no-service-registered:"+e.File, "router registers no service", e.File)
		return
	}
	sdAny, err := protoregistry.GlobalFiles.FindDescriptorByName(protoreflect.FullName(reg.desc.ServiceName))
	if err != nil {
		g.direct("unknown-service:"+e.File, "service "+reg.desc.ServiceName+" not in the descriptor registry", e.File)
		return
	}
	sd := sdAny.(protoreflect.ServiceDescriptor)
	typed := findTyped(rt)
	if !typed.ok {
		g.direct("typed-accessors:"+e.File, "router lacks AddXxxClient/RemoveXxxClient/GetXxxClient", e.File)
	}
	nmethods := len(reg.desc.Methods) + len(reg.desc.Streams)

	var ops, obs []string
	var jops []any
	nextAdd := 1
	present := map[string]bool{}
	presentList := func() []string {
		var l []string
		for n := range present {
			l = append(l, n)
		}
		l = append(l, cfg.fbL...)
		l = append(l, cfg.facOK...)
		sort.Strings(l)
		return l
	}
	regStep := func(o regOp) {
		if o.kind == "add" {
			mk(o.c)
			present[o.name] = true
		}
		if o.kind == "remove" {
			delete(present, o.name)
		}
		var rc string
		var rj any
		via := "Router"
		if typed.ok && o.kind != "has" && g.r.Chance(50) {
			via = "typed"
			rc, rj = doRegTyped(typed, o, clients, id)
		} else {
			rc, rj = doReg(rt, o, clients, id)
		}
		g.o.Extra["acc:"+via+":"+o.kind] = extraInt(g.o.Extra["acc:"+via+":"+o.kind]) + 1
		ops = append(ops, vcoq.App("HReg", o.coq()))
		obs = append(obs, vcoq.App("HR", rc))
		jops = append(jops, map[string]any{"op": o.kind, "name": o.name, "client": o.c, "result": rj, "via": via})
		if o.kind == "add" {
			// HoldsType: true of this service's clients, false of nil and of anything else
			if !rt.HoldsType(clients[o.c]) || rt.HoldsType(nil) || (nmethods > 0 && rt.HoldsType(&struct{ x int }{1})) {
				g.direct("holdstype:"+e.File, "HoldsType does not separate this service's clients from other values", e.File)
			}
		}
	}
	randReg := func() {
		n := g.pickName(presentList())
		k := g.r.Intn(6)
		if k == 5 && len(reg.desc.Methods)+len(reg.desc.Streams) == 0 {
			k = 3 // a service without methods has an empty client interface: every value is a client
		}
		switch k {
		case 0, 1:
			regStep(regOp{"add", n, nextAdd})
			nextAdd++
		case 2:
			regStep(regOp{"remove", n, 0})
		case 3:
			regStep(regOp{"has", n, 0})
		case 4:
			regStep(regOp{"get", n, 0})
		default:
			// a value that is not a client of this service: the typed Add must refuse it
			panicked := func() (p bool) {
				defer func() { p = recover() != nil }()
				rt.Add(n, &struct{ x int }{1})
				return false
			}()
			ops = append(ops, vcoq.App("HAddBad", coqStr(n)))
			if panicked {
				obs = append(obs, "HPanic")
			} else {
				obs = append(obs, vcoq.App("HR", vcoq.App("RClient", "(-1)")))
			}
			jops = append(jops, map[string]any{"op": "add-wrong-type", "name": n, "panicked": panicked})
		}
	}
	regStep(regOp{"add", "a", nextAdd})
	nextAdd++
	if g.r.Chance(70) {
		regStep(regOp{"add", "b", nextAdd})
		nextAdd++
	}

	meths := methodsOf(reg, sd)
	nstream, nunary := 0, 0
	for _, m := range meths {
		if m.md == nil {
			g.direct("method-not-in-descriptor:"+e.File, "registered method missing from the service descriptor", e.File)
			continue
		}
		for sc := 0; sc < scriptsPerMethod; sc++ {
			for g.r.Chance(30) {
				randReg()
			}
			name := g.pickName(presentList())
			out := g.driveRPC(reg, sd, m, name, w)
			if out == nil {
				continue
			}
			if out.stream {
				nstream++
				ops = append(ops, vcoq.App("HStream", coqStr(name), out.child, out.caller))
			} else {
				nunary++
				ops = append(ops, vcoq.App("HUnary", coqStr(name), out.child))
			}
			obs = append(obs, vcoq.App("HCalled", out.calls, out.tr))
			jops = append(jops, out.jop)
		}
	}
	for i := g.r.Range(0, 3); i > 0; i-- {
		randReg()
	}
	coq := vcoq.App("KHist", cfg.coq(), vcoq.Int(cfg.first), vcoq.List(ops), vcoq.List(obs), coqChanges(log))
	g.o.Add(vcoq.Case{Coq: coq, JSON: map[string]any{"kind": "router-history", "router": e.File, "service": reg.desc.ServiceName,
		"cfg": cfg.js(), "ops": jops, "log": log}, Key: coq, NonTrivial: nstream+nunary > 0,
		Tags: []string{"router-history", fmt.Sprintf("rpcs:unary=%d", min(nunary, 1)), fmt.Sprintf("rpcs:stream=%d", min(nstream, 1))}})
	g.o.Extra["rpcs_unary"] = g.o.Extra["rpcs_unary"].(int) + nunary
	g.o.Extra["rpcs_stream"] = g.o.Extra["rpcs_stream"].(int) + nstream
}

type meth struct {
	md     protoreflect.MethodDescriptor
	unary  *grpc.MethodDesc
	stream *grpc.StreamDesc
}

// methodsOf lists every method of the service description a router registered.
func methodsOf(reg *registrar, sd protoreflect.ServiceDescriptor) []meth {
	var meths []meth
	for i := range reg.desc.Methods {
		m := &reg.desc.Methods[i]
		meths = append(meths, meth{md: sd.Methods().ByName(protoreflect.Name(m.MethodName)), unary: m})
	}
	for i := range reg.desc.Streams {
		s := &reg.desc.Streams[i]
		meths = append(meths, meth{md: sd.Methods().ByName(protoreflect.Name(s.StreamName)), stream: s})
	}
	return meths
}

// rpcOut is one RPC driven through a router: the scripts played (Coq terms), who was called, and
// what the caller received.
type rpcOut struct {
	stream bool
	child  string // mkChild ... (stream) or UResp/UErr (unary)
	caller string // mkCaller ... (stream only)
	calls  string
	tr     string
	jop    map[string]any
}

// driveRPC sends one request naming `name` through method m of the router behind reg (through the
// handler of the grpc.ServiceDesc it registered), with a random child script and caller script.
// The fake clients of world w record who was called.  nil: the request type has no string name.
func (g *c12) driveRPC(reg *registrar, sd protoreflect.ServiceDescriptor, m meth, name string, w *world) *rpcOut {
	full := "/" + string(sd.FullName()) + "/" + string(m.md.Name())
	req := g.randMsg(m.md.Input())
	nf := nameField(req)
	if nf == nil || nf.Kind() != protoreflect.StringKind || nf.IsList() {
		g.direct("request-without-name:"+full, "request type has no string name field", full)
		return nil
	}
	req.ProtoReflect().Set(nf, protoreflect.ValueOfString(name))
	sent := detBytes(req)
	isStream := m.stream != nil
	script, pool := g.childScript(m.md.Output(), isStream)
	w.calls, w.script, w.last = nil, script, nil
	var tr string
	var jtr map[string]any
	out := &rpcOut{}
	jop := map[string]any{"op": "rpc", "method": full, "name": name, "child": script}
	if isStream {
		k := g.callerScript(len(script.Msgs))
		ctx, cancel := context.WithCancel(context.Background())
		ss := &fakeServerStream{ctx: ctx, req: req, k: k}
		err := func() (err error) {
			defer func() {
				if p := recover(); p != nil {
					g.direct("panic:"+full, fmt.Sprintf("router method panicked: %v", p), jop)
					err = status.Error(codes.Internal, "panic")
				}
			}()
			return m.stream.Handler(reg.impl, ss)
		}()
		cancelled, recvs := false, 0
		if w.last != nil {
			cancelled = w.last.ctx.Err() != nil
			recvs = w.last.recvs
			if w.last.trlEarly > 0 {
				g.direct("trailer-before-end:"+full, "router read the child's trailer before the child stream had ended", jop)
			}
			if w.last.afterEnd > 0 {
				g.direct("recv-after-end:"+full, "router kept calling Recv after the child stream ended", jop)
			}
		}
		cancel()
		for _, p := range ss.problems {
			g.direct("caller-protocol:"+full, p, jop)
		}
		msgIDs := make([]string, len(ss.sent))
		jm := make([]int, len(ss.sent))
		for i, b := range ss.sent {
			jm[i] = canonID(pool, b)
			msgIDs[i] = vcoq.Int(jm[i])
		}
		tr = vcoq.App("mkTr", coqOptMD(ss.headerSent, ss.header), vcoq.List(msgIDs), coqOptMD(ss.trailerSet, ss.trailer),
			coqErr(err), vcoq.Bool(cancelled), vcoq.Int(recvs))
		jtr = map[string]any{"header": ss.header, "header_sent": ss.headerSent, "msgs": jm, "trailer": ss.trailer,
			"trailer_set": ss.trailerSet, "status": jsErr(err), "child_cancelled": cancelled, "recvs": recvs}
		jop["caller"] = k
		out.stream, out.child, out.caller = true, coqChild(script), coqCaller(k)
	} else {
		var resp any
		var err error
		func() {
			defer func() {
				if p := recover(); p != nil {
					g.direct("panic:"+full, fmt.Sprintf("router method panicked: %v", p), jop)
					err = status.Error(codes.Internal, "panic")
				}
			}()
			resp, err = m.unary.Handler(reg.impl, context.Background(), func(in any) error {
				proto.Merge(in.(proto.Message), req)
				return nil
			}, nil)
		}()
		var got []string
		var jm []int
		if pm, ok := resp.(proto.Message); ok && resp != nil && !isNilMsg(pm) {
			jm = append(jm, canonID(pool, detBytes(pm)))
			got = append(got, vcoq.Int(jm[0]))
		}
		tr = vcoq.App("mkTr", "None", vcoq.List(got), "None", coqErr(err), "false", "0")
		jtr = map[string]any{"msgs": jm, "status": jsErr(err)}
		us := ""
		if script.OpenErr != nil {
			us = vcoq.App("UErr", vcoq.Pair(vcoq.Int(stCode(script.OpenErr)), coqStr(script.OpenErr.Msg)))
		} else {
			us = vcoq.App("UResp", "1")
		}
		out.child = us
	}
	calls := make([]string, len(w.calls))
	jcalls := make([]any, len(w.calls))
	for i, c := range w.calls {
		mok := c.Method == full
		rok := !c.ReqSet || string(c.Req) == string(sent)
		calls[i] = "(" + vcoq.Int(c.Client) + ", " + vcoq.Bool(mok) + ", " + vcoq.Bool(rok) + ")"
		jcalls[i] = map[string]any{"client": c.Client, "method": c.Method, "request_intact": rok}
	}
	if !proto.Equal(req, mustUnmarshal(req, sent)) {
		g.direct("request-mutated:"+full, "router modified the caller's request", jop)
	}
	jop["calls"], jop["transcript"] = jcalls, jtr
	out.calls, out.tr, out.jop = vcoq.List(calls), tr, jop
	return out
}

func isNilMsg(m proto.Message) bool { return m == nil || !m.ProtoReflect().IsValid() }

func mustUnmarshal(like proto.Message, b []byte) proto.Message {
	m := like.ProtoReflect().New().Interface()
	if err := proto.Unmarshal(b, m); err != nil {
		panic(err)
	}
	return m
}

// ---------- bare registry histories ----------

type tok struct{ id int }

func (g *c12) rawHistory(n int) {
	id := &ids{m: map[any]int{}}
	clients := map[int]any{0: nil}
	mk := func(i int) any {
		if c, ok := clients[i]; ok {
			return c
		}
		c := &tok{i}
		clients[i] = c
		id.m[c] = i
		return c
	}
	cfg := g.randCfg()
	var log []change
	nfac := 0
	rt := router.NewRouter(routerOpts(cfg, mk, &log, id, &nfac, g.r)...)
	var ops, obs []string
	var jops []any
	nextAdd := 1
	nilAdds := 0
	names := []string{"a", "b", "auto1", "fb1", "auto2", "zz"}
	for i := 0; i < n; i++ {
		name := names[g.r.Intn(len(names))]
		var o regOp
		switch g.r.Intn(7) {
		case 0, 1:
			o = regOp{"add", name, nextAdd}
			if g.r.Chance(6) {
				o.c = 0 // nil client: only the untyped Add accepts it
				nilAdds++
			} else if g.r.Chance(15) && nextAdd > 1 {
				o.c = g.r.Range(1, nextAdd-1) // re-add an earlier client, possibly under another name
			} else {
				nextAdd++
			}
			mk(o.c)
		case 2, 3:
			o = regOp{"remove", name, 0}
		case 4:
			o = regOp{"has", name, 0}
		default:
			o = regOp{"get", name, 0}
		}
		rc, rj := doReg(rt, o, clients, id)
		ops = append(ops, vcoq.App("HReg", o.coq()))
		obs = append(obs, vcoq.App("HR", rc))
		jops = append(jops, map[string]any{"op": o.kind, "name": o.name, "client": o.c, "result": rj})
	}
	coq := vcoq.App("KHist", cfg.coq(), vcoq.Int(cfg.first), vcoq.List(ops), vcoq.List(obs), coqChanges(log))
	tags := []string{"registry-history"}
	if nilAdds > 0 {
		tags = append(tags, "registry-history:nil-client")
	}
	g.o.Add(vcoq.Case{Coq: coq, JSON: map[string]any{"kind": "registry-history", "cfg": cfg.js(), "ops": jops, "log": log},
		Key: coq, NonTrivial: len(log) > 1, Tags: tags})
}

func genC12(o *vcoq.Out, r *vcoq.Rand, tier string) error {
	o.Header = "From SC Require Import Base.Prelude Router.Registry Router.Pump Router.Route Router.RouterGet Router.RouterCb Router.RegistryW Router.RouterCbW Router.RouteW Router.NameDefault Router.C12Judge."
	o.CaseType = "c12case"
	o.Judge = "judge"
	o.Shard = 60
	o.Rule = "one history per generated router per round: registry ops (Add/Remove/Has/Get, wrong-type Add) around 2-3 RPCs for every method of the service (names: registered, fallback, factory, unknown, empty; child scripts: 0-4 messages, header, optional trailer, status or EOF, open/header errors; caller failing SendHeader or the i-th Send); bare-registry histories of 6-25 ops incl. nil clients and re-added clients; forced schedules: all interleavings of 2 and 3 concurrent calls (Get/Add/Remove, up to 3 atomic steps each) in several configurations plus random 3-4 thread schedules; default-name interceptors on every request type (name empty / set) and odd shapes, and sequences of 6-16 requests of types sharing short names across packages/parents with different layouts (name at another number, absent, non-string, repeated) through one unary and one stream interceptor instance; names drawn from classes empty / plain / blank ASCII / unicode white space / padded / odd (case, NUL, quotes, non-ASCII, 300 bytes), rendered byte-exactly; explicit-presence and JSON-name-crossed name fields; FullMethod and stream kinds varied; histories on every generated router built from an option subset (typed WithXxxClientFactory or router.WithFactory) in which every lookup (Router.Get, GetXxxClient, unary and streaming methods) has its own fallback/factory outcome nil,nil / nil,err / client+err / client,nil and both results of every Get are observed; stream sessions: 2-5 request messages (same or mixed types, empty/set names, a failing RecvMsg in the middle) received on ONE wrapped ServerStream, every message checked. Non-trivial: history with at least one RPC / more than one change / schedule with at least two Gets of one name / request with a string name field. Distinct by the full input+observation term."
	// vcoq.NewRand(seed) is seed*G + c and every draw adds G: the streams of consecutive seeds are
	// one stream shifted by one draw and re-synchronise after the first variable-length choice.
	// Re-seed from a mixed draw so that different VERIF_SEEDs give unrelated runs.
	r = vcoq.NewRand(r.U64() ^ 0xC12C12C12)
	g := &c12{o: o, r: r, tier: tier}
	o.Extra["rpcs_unary"], o.Extra["rpcs_stream"] = 0, 0
	rounds, raws := 3, 400
	if tier == "thorough" {
		rounds, raws = 30, 5000
	}
	t0 := time.Now()
	for round := 0; round < rounds; round++ {
		for _, e := range routerTable {
			g.typedHistory(e, 2+(round+g.r.Intn(2))%2)
		}
	}
	for i := 0; i < raws; i++ {
		g.rawHistory(g.r.Range(6, 25))
	}
	nw := 25
	if tier == "thorough" {
		nw = 400
	}
	for i := 0; i < nw; i++ {
		for opts := 0; opts < 8; opts++ {
			g.regwHistory(opts, g.r.Range(4, 14))
		}
	}
	// generated routers built from every option subset, per-call fallback/factory outcomes incl. client+error
	nx := 2
	if tier == "thorough" {
		nx = 16
	}
	for round := 0; round < nx; round++ {
		for i, e := range routerTable {
			g.routewHistory(e, []int{1, 2, 3, 3, 5, 6, 7, 7, 7, 0}[(i+round+g.r.Intn(10))%10])
		}
	}
	g.schedules()
	g.nameDefaults()
	g.defaultSequences()
	g.streamSessions()
	g.staticChecks()
	o.Extra["coverage_extra"] = map[string]any{
		"routers": len(routerTable), "rpcs_unary": o.Extra["rpcs_unary"], "rpcs_stream": o.Extra["rpcs_stream"],
		"harness_s": time.Since(t0).Seconds(),
	}
	// outcome classes of the per-call model (RegistryW.v) and accessor use, for the evidence
	classes := map[string]any{}
	for k, v := range o.Extra {
		if strings.HasPrefix(k, "w:") || strings.HasPrefix(k, "acc:") || strings.HasPrefix(k, "x:") || strings.HasPrefix(k, "name:") {
			classes[k] = v
		}
	}
	o.Extra["coverage_extra"].(map[string]any)["model_outcome_classes"] = classes
	_ = strings.Join
	return nil
}
