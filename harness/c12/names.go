package main

import (
	"strings"
	"unicode"
	"unicode/utf8"

	"github.com/smart-core-os/sc-golang/verifharness/vcoq"
)

// Names are data: the router and the default-name interceptor must treat them as opaque strings.
// "Empty" means the empty string exactly; a name that is blank but not empty, padded, differing in
// case, or made of unicode white space is a name like any other.  The classes below are drawn
// systematically wherever a name is generated.
var nameClasses = map[string][]string{
	"blank-ascii":   {" ", "  ", "\t", "\n", "\r\n", " \t ", "\v", "\f"},
	"blank-unicode": {"\u00a0", "\u2003", "\u3000", "\u0085", "\u2028", "\u00a0 \u00a0", "\u200b", "\ufeff"},
	"padded":        {" a", "a ", " a ", "\ta", "a\n", "\u00a0a", "dev/1 ", " dev/1"},
	"odd":           {"0", "false", "nil", "null", "-", ".", "/", "a/b", "A", "\x00", "name", "\"", "\u00e9", "\u65e5\u672c", "?", strings.Repeat("n", 300)},
}
var nameClassOrder = []string{"blank-ascii", "blank-unicode", "padded", "odd"}

// nameClass classifies a name for the coverage histogram.
func nameClass(s string) string {
	switch {
	case s == "":
		return "empty"
	case strings.TrimSpace(s) == "":
		for _, r := range s {
			if r > 127 {
				return "blank-unicode"
			}
		}
		return "blank-ascii"
	case strings.TrimFunc(s, func(r rune) bool { return unicode.IsSpace(r) || r == '\u200b' || r == '\ufeff' }) == "":
		return "blank-unicode"
	case strings.TrimSpace(s) != s:
		return "padded"
	}
	for _, l := range nameClasses["odd"] {
		if s == l {
			return "odd"
		}
	}
	return "plain"
}

// oddName draws from the non-plain, non-empty classes.
func (g *c12) oddName() string {
	l := nameClasses[nameClassOrder[g.r.Intn(len(nameClassOrder))]]
	return l[g.r.Intn(len(l))]
}

// coqStrExact renders any Go string as a Coq string with the same bytes (vcoq.Str replaces
// everything outside printable ASCII by '?', which would identify "\t" with "?").
func coqStrExact(s string) string {
	plain := true
	for i := 0; i < len(s); i++ {
		if s[i] < 32 || s[i] >= 127 {
			plain = false
			break
		}
	}
	if plain {
		return vcoq.Str(s)
	}
	if !utf8.ValidString(s) {
		panic("coqStrExact: invalid UTF-8")
	}
	b := make([]string, len(s))
	for i := 0; i < len(s); i++ {
		b[i] = vcoq.Int(int(s[i]))
	}
	return "(bytes_str " + vcoq.List(b) + ")"
}
