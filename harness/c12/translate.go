package main

import (
	"bytes"
	"crypto/sha1"
	"fmt"
	"go/ast"
	"go/parser"
	"go/printer"
	"go/token"
	"os"
	"os/exec"
	"path/filepath"
	"sort"
	"strconv"
	"strings"

	"github.com/smart-core-os/sc-golang/verifharness/vcoq"
	"google.golang.org/protobuf/proto"
	"google.golang.org/protobuf/reflect/protodesc"
	"google.golang.org/protobuf/reflect/protoreflect"
	"google.golang.org/protobuf/reflect/protoregistry"
	"google.golang.org/protobuf/types/descriptorpb"
	"google.golang.org/protobuf/types/pluginpb"
)

func repoDir() string {
	if d := os.Getenv("VERIF_REPO"); d != "" {
		return d
	}
	return "/repo"
}

const traitPkgPrefix = "github.com/smart-core-os/sc-golang/pkg/trait/"

// traitFiles lists the proto files whose services must be routed: the sc-api traits and the
// protos compiled into /repo's own trait packages.
func traitFiles() []protoreflect.FileDescriptor {
	var out []protoreflect.FileDescriptor
	protoregistry.GlobalFiles.RangeFiles(func(fd protoreflect.FileDescriptor) bool {
		if fd.Services().Len() == 0 {
			return true
		}
		if strings.HasPrefix(fd.Path(), "traits/") || strings.HasPrefix(goImportPath(fd), traitPkgPrefix) {
			out = append(out, fd)
		}
		return true
	})
	sort.Slice(out, func(i, j int) bool { return out[i].Path() < out[j].Path() })
	return out
}

func goImportPath(fd protoreflect.FileDescriptor) string {
	opts, _ := fd.Options().(*descriptorpb.FileOptions)
	p := opts.GetGoPackage()
	if i := strings.Index(p, ";"); i >= 0 {
		p = p[:i]
	}
	return p
}

// ---- go/ast facts about one router file ----

type routerMethod struct {
	Name   string
	Stream bool
	Feats  []string
	Hash   string
}
type routerFacts struct {
	File       string // relative to the repo
	SvcImport  string // import path of the package holding RegisterXxxServer
	SvcGoName  string // Xxx
	Methods    []routerMethod
	ParseError string
}

func importsOf(af *ast.File) map[string]string {
	imp := map[string]string{}
	for _, i := range af.Imports {
		p, _ := strconv.Unquote(i.Path.Value)
		n := filepath.Base(p)
		if i.Name != nil {
			n = i.Name.Name
		}
		imp[n] = p
	}
	return imp
}

func isSel(e ast.Expr, x, sel string) bool {
	s, ok := e.(*ast.SelectorExpr)
	if !ok {
		return false
	}
	id, ok := s.X.(*ast.Ident)
	return ok && id.Name == x && (sel == "" || s.Sel.Name == sel)
}
func isIdent(e ast.Expr, n string) bool { id, ok := e.(*ast.Ident); return ok && id.Name == n }
func callOf(e ast.Expr, x, sel string) *ast.CallExpr {
	c, ok := e.(*ast.CallExpr)
	if ok && isSel(c.Fun, x, sel) {
		return c
	}
	return nil
}

func parseRouter(repo, rel string) routerFacts {
	rf := routerFacts{File: rel}
	fs := token.NewFileSet()
	af, err := parser.ParseFile(fs, filepath.Join(repo, rel), nil, 0)
	if err != nil {
		rf.ParseError = err.Error()
		return rf
	}
	imp := importsOf(af)
	ownPkg := "github.com/smart-core-os/sc-golang/" + filepath.ToSlash(filepath.Dir(rel))
	helper := func(n string) bool {
		return n == "Register" || n == "Add" || n == "HoldsType" ||
			((strings.HasPrefix(n, "Add") || strings.HasPrefix(n, "Remove") || strings.HasPrefix(n, "Get")) && strings.HasSuffix(n, "Client"))
	}
	for _, d := range af.Decls {
		fd, ok := d.(*ast.FuncDecl)
		if !ok || fd.Recv == nil || fd.Body == nil {
			continue
		}
		recv := "r"
		if len(fd.Recv.List) > 0 && len(fd.Recv.List[0].Names) > 0 {
			recv = fd.Recv.List[0].Names[0].Name
		}
		if fd.Name.Name == "Register" {
			ast.Inspect(fd.Body, func(n ast.Node) bool {
				c, ok := n.(*ast.CallExpr)
				if !ok {
					return true
				}
				var fn, pkg string
				switch f := c.Fun.(type) {
				case *ast.SelectorExpr:
					if id, ok := f.X.(*ast.Ident); ok {
						fn, pkg = f.Sel.Name, imp[id.Name]
					}
				case *ast.Ident:
					fn, pkg = f.Name, ownPkg
				}
				if strings.HasPrefix(fn, "Register") && strings.HasSuffix(fn, "Server") {
					rf.SvcGoName = strings.TrimSuffix(strings.TrimPrefix(fn, "Register"), "Server")
					rf.SvcImport = pkg
				}
				return true
			})
			continue
		}
		if helper(fd.Name.Name) {
			continue
		}
		m := routerMethod{Name: fd.Name.Name}
		ps := fd.Type.Params.List
		nparams := 0
		for _, p := range ps {
			nparams += max(1, len(p.Names))
		}
		nres := 0
		if fd.Type.Results != nil {
			nres = len(fd.Type.Results.List)
		}
		switch {
		case nparams == 2 && nres == 2 && isSel(ps[0].Type, "context", "Context"):
			m.Stream = false
		case nparams == 2 && nres == 1:
			m.Stream = true
		default:
			m.Feats = append(m.Feats, "odd-signature")
		}
		feat := func(f string) { m.Feats = append(m.Feats, f) }
		st := fd.Body.List
		// child, err := r.GetXxxClient(request.Name)
		if len(st) > 0 {
			if as, ok := st[0].(*ast.AssignStmt); ok && len(as.Lhs) == 2 && len(as.Rhs) == 1 && isIdent(as.Lhs[0], "child") {
				if c, ok := as.Rhs[0].(*ast.CallExpr); ok && isSel(c.Fun, recv, "") && len(c.Args) == 1 && isSel(c.Args[0], "request", "Name") {
					sel := c.Fun.(*ast.SelectorExpr).Sel.Name
					if strings.HasPrefix(sel, "Get") && strings.HasSuffix(sel, "Client") {
						feat("lookup")
					}
				}
			}
		}
		// if err != nil { return [nil,] err }
		if len(st) > 1 {
			if is, ok := st[1].(*ast.IfStmt); ok && is.Init == nil && is.Else == nil && len(is.Body.List) == 1 {
				if be, ok := is.Cond.(*ast.BinaryExpr); ok && be.Op == token.NEQ && isIdent(be.X, "err") && isIdent(be.Y, "nil") {
					if r, ok := is.Body.List[0].(*ast.ReturnStmt); ok && len(r.Results) > 0 && isIdent(r.Results[len(r.Results)-1], "err") {
						feat("lookup-error-returned")
					}
				}
			}
		}
		isForward := func(e ast.Expr) bool {
			c := callOf(e, "child", fd.Name.Name)
			return c != nil && len(c.Args) == 2 && isIdent(c.Args[1], "request")
		}
		nforward := 0
		ast.Inspect(fd.Body, func(n ast.Node) bool {
			switch x := n.(type) {
			case *ast.CallExpr:
				switch {
				case isForward(x):
					nforward++
					if isIdent(x.Args[0], "ctx") {
						feat("forward-ctx")
					}
					if isIdent(x.Args[0], "reqCtx") {
						feat("forward-reqctx")
					}
				case callOf(x, "stream", "Header") != nil:
					feat("header")
				case callOf(x, "server", "SendHeader") != nil && len(x.Args) == 1 && isIdent(x.Args[0], "header"):
					feat("sendheader")
				case callOf(x, "stream", "Recv") != nil:
					feat("recv")
				case callOf(x, "server", "Send") != nil && len(x.Args) == 1 && isIdent(x.Args[0], "msg"):
					feat("send")
				case callOf(x, "stream", "Trailer") != nil:
					feat("trailer")
				case callOf(x, "server", "SetTrailer") != nil && len(x.Args) == 1 && isIdent(x.Args[0], "trailer"):
					feat("settrailer")
				case isIdent(x.Fun, "reqDone"):
					feat("cancel")
				case callOf(x, "context", "WithCancel") != nil && len(x.Args) == 1 && callOf(x.Args[0], "server", "Context") != nil:
					feat("derived-ctx")
				}
			case *ast.BinaryExpr:
				if x.Op == token.EQL && isIdent(x.X, "err") && isSel(x.Y, "io", "EOF") {
					feat("eof")
				}
			}
			return true
		})
		if nforward == 1 {
			feat("forward-once")
		}
		if len(st) > 0 && !m.Stream {
			if r, ok := st[len(st)-1].(*ast.ReturnStmt); ok && len(r.Results) == 1 && isForward(r.Results[0]) {
				feat("return-forward")
			}
		}
		sort.Strings(m.Feats)
		// normalised body: method name and message types abstracted
		var buf bytes.Buffer
		printer.Fprint(&buf, fs, fd.Body)
		body := strings.ReplaceAll(buf.String(), "child."+fd.Name.Name+"(", "child.M(")
		lines := strings.Split(body, "\n")
		for i, l := range lines {
			if t := strings.TrimSpace(l); strings.HasPrefix(t, "var msg *") {
				lines[i] = "var msg *T"
			} else if strings.HasPrefix(t, "child, err := "+recv+".Get") {
				lines[i] = "child, err := r.GetClient(request.Name)"
			}
		}
		m.Hash = fmt.Sprintf("%x", sha1.Sum([]byte(strings.Join(lines, "\n"))))
		rf.Methods = append(rf.Methods, m)
	}
	return rf
}

type wrapFacts struct {
	File, Desc, Client, DescImport string
}

func parseWrapper(repo, rel string) wrapFacts {
	wf := wrapFacts{File: rel}
	fs := token.NewFileSet()
	af, err := parser.ParseFile(fs, filepath.Join(repo, rel), nil, 0)
	if err != nil {
		return wf
	}
	imp := importsOf(af)
	ownPkg := "github.com/smart-core-os/sc-golang/" + filepath.ToSlash(filepath.Dir(rel))
	for _, d := range af.Decls {
		fd, ok := d.(*ast.FuncDecl)
		if !ok || fd.Recv != nil || !strings.HasPrefix(fd.Name.Name, "Wrap") || fd.Body == nil {
			continue
		}
		ast.Inspect(fd.Body, func(n ast.Node) bool {
			c, ok := n.(*ast.CallExpr)
			if !ok {
				return true
			}
			if isSel(c.Fun, "wrap", "ServerToClient") && len(c.Args) == 2 {
				switch a := c.Args[0].(type) {
				case *ast.SelectorExpr:
					wf.Desc = strings.TrimSuffix(a.Sel.Name, "_ServiceDesc")
					if id, ok := a.X.(*ast.Ident); ok {
						wf.DescImport = imp[id.Name]
					}
				case *ast.Ident:
					wf.Desc = strings.TrimSuffix(a.Name, "_ServiceDesc")
					wf.DescImport = ownPkg
				}
			}
			if len(c.Args) == 1 && isIdent(c.Args[0], "conn") {
				var fn string
				switch f := c.Fun.(type) {
				case *ast.SelectorExpr:
					fn = f.Sel.Name
				case *ast.Ident:
					fn = f.Name
				}
				if strings.HasPrefix(fn, "New") && strings.HasSuffix(fn, "Client") {
					wf.Client = strings.TrimSuffix(strings.TrimPrefix(fn, "New"), "Client")
				}
			}
			return true
		})
	}
	return wf
}

func coqStrs(l []string) string {
	it := make([]string, len(l))
	for i, s := range l {
		it[i] = coqStr(s)
	}
	return vcoq.List(it)
}

// translateRouters writes Gen/Routers.v: for every trait service of the compiled descriptors its
// methods, and what go/ast finds in the checked-in router and wrapper for it.
func translateRouters(outDir string) error {
	repo := repoDir()
	rfiles, _ := filepath.Glob(filepath.Join(repo, "pkg/trait/*/*_router.pb.go"))
	wfiles, _ := filepath.Glob(filepath.Join(repo, "pkg/trait/*/*_wrap.pb.go"))
	sort.Strings(rfiles)
	sort.Strings(wfiles)
	routers := map[string]*routerFacts{} // import path + "." + service go name
	var orphans []string
	classU, classS := map[string]int{}, map[string]int{}
	var all []*routerFacts
	for _, f := range rfiles {
		rel, _ := filepath.Rel(repo, f)
		rf := parseRouter(repo, rel)
		all = append(all, &rf)
		routers[rf.SvcImport+"."+rf.SvcGoName] = &rf
	}
	wrappers := map[string]*wrapFacts{}
	for _, f := range wfiles {
		rel, _ := filepath.Rel(repo, f)
		wf := parseWrapper(repo, rel)
		wrappers[wf.DescImport+"."+wf.Desc] = &wf
	}
	class := func(m routerMethod) int {
		tbl := classU
		if m.Stream {
			tbl = classS
		}
		if _, ok := tbl[m.Hash]; !ok {
			tbl[m.Hash] = len(tbl)
		}
		return tbl[m.Hash]
	}
	var b strings.Builder
	b.WriteString("(* Generated by /verif/harness/c12 (translator \"routers\") on every run of bin/check C12 from\n" +
		"   the compiled service descriptors and go/ast over pkg/trait/*/*_router.pb.go, *_wrap.pb.go.  DO NOT EDIT. *)\n")
	b.WriteString("From SC Require Import Base.Prelude Router.Table.\n\nDefinition table : list entry := [\n")
	used := map[string]bool{}
	var entries []string
	for _, fd := range traitFiles() {
		for i := 0; i < fd.Services().Len(); i++ {
			sd := fd.Services().Get(i)
			key := goImportPath(fd) + "." + string(sd.Name())
			var dms []string
			for j := 0; j < sd.Methods().Len(); j++ {
				md := sd.Methods().Get(j)
				nf := md.Input().Fields().ByName("name")
				hasName := nf != nil && nf.Kind() == protoreflect.StringKind && !nf.IsList()
				dms = append(dms, vcoq.App("mkDM", coqStr(string(md.Name())), vcoq.Bool(md.IsStreamingServer()), vcoq.Bool(md.IsStreamingClient()), vcoq.Bool(hasName)))
			}
			rfile, rms := "None", []string{}
			if rf := routers[key]; rf != nil {
				used[rf.File] = true
				rfile = vcoq.Some(coqStr(rf.File))
				for _, m := range rf.Methods {
					rms = append(rms, vcoq.App("mkRM", coqStr(m.Name), vcoq.Bool(m.Stream), coqStrs(m.Feats), vcoq.Int(class(m))))
				}
			}
			wfile, wdesc, wcli := "None", "", ""
			if wf := wrappers[key]; wf != nil {
				wfile, wdesc, wcli = vcoq.Some(coqStr(wf.File)), wf.Desc, wf.Client
			}
			entries = append(entries, "  "+vcoq.App("mkEntry", coqStr(string(sd.FullName())), coqStr(string(sd.Name())), coqStr(fd.Path()),
				"\n     "+vcoq.List(dms), rfile, "\n     "+vcoq.List(rms), wfile, coqStr(wdesc), coqStr(wcli)))
		}
	}
	b.WriteString(strings.Join(entries, ";\n"))
	b.WriteString("\n].\n\n")
	for _, rf := range all {
		if !used[rf.File] {
			orphans = append(orphans, rf.File)
		}
	}
	b.WriteString("(* router files that serve no service of the descriptors *)\nDefinition orphan_routers : list string := " + coqStrs(orphans) + ".\n")
	return os.WriteFile(filepath.Join(outDir, "Routers.v"), []byte(b.String()), 0o644)
}

// ---- regeneration with the in-tree generators ----

func topoFiles() []*descriptorpb.FileDescriptorProto {
	var out []*descriptorpb.FileDescriptorProto
	seen := map[string]bool{}
	var visit func(fd protoreflect.FileDescriptor)
	visit = func(fd protoreflect.FileDescriptor) {
		if seen[fd.Path()] {
			return
		}
		seen[fd.Path()] = true
		imps := fd.Imports()
		for i := 0; i < imps.Len(); i++ {
			visit(imps.Get(i).FileDescriptor)
		}
		out = append(out, protodesc.ToFileDescriptorProto(fd))
	}
	var roots []protoreflect.FileDescriptor
	protoregistry.GlobalFiles.RangeFiles(func(fd protoreflect.FileDescriptor) bool { roots = append(roots, fd); return true })
	sort.Slice(roots, func(i, j int) bool { return roots[i].Path() < roots[j].Path() })
	for _, fd := range roots {
		visit(fd)
	}
	return out
}

func (g *c12) regen(plugin, suffix string) {
	repo := repoDir()
	exe, _ := os.Executable()
	work := filepath.Join(filepath.Dir(exe), "c12-regen")
	os.MkdirAll(work, 0o755)
	sum := sha1.Sum([]byte(repo))
	bin := filepath.Join(work, fmt.Sprintf("%s-%x", filepath.Base(plugin), sum[:4]))
	cmd := exec.Command("go", "build", "-o", bin, "./"+plugin)
	cmd.Dir = repo
	cmd.Env = append(os.Environ(), "GOFLAGS=-mod=mod", "GOPROXY=off", "GOSUMDB=off", "GOTOOLCHAIN=local")
	if out, err := cmd.CombinedOutput(); err != nil {
		g.direct("generator-does-not-build:"+plugin, "cannot build "+plugin+": "+string(out), plugin)
		return
	}
	var gen []string
	for _, fd := range traitFiles() {
		gen = append(gen, fd.Path())
	}
	req := &pluginpb.CodeGeneratorRequest{FileToGenerate: gen, ProtoFile: topoFiles()}
	in, err := proto.Marshal(req)
	if err != nil {
		g.direct("generator-request:"+plugin, err.Error(), plugin)
		return
	}
	run := exec.Command(bin)
	run.Stdin = bytes.NewReader(in)
	var stdout, stderr bytes.Buffer
	run.Stdout, run.Stderr = &stdout, &stderr
	if err := run.Run(); err != nil {
		g.direct("generator-failed:"+plugin, plugin+" failed: "+err.Error()+" "+stderr.String(), plugin)
		return
	}
	var resp pluginpb.CodeGeneratorResponse
	if err := proto.Unmarshal(stdout.Bytes(), &resp); err != nil {
		g.direct("generator-failed:"+plugin, "cannot decode the response: "+err.Error(), plugin)
		return
	}
	if resp.Error != nil {
		g.direct("generator-failed:"+plugin, plugin+": "+resp.GetError(), plugin)
		return
	}
	produced := map[string]bool{}
	for _, f := range resp.File {
		produced[f.GetName()] = true
		if d := os.Getenv("C12_REGEN_OUT"); d != "" { // for maintainers: keep what the generators produce
			os.MkdirAll(filepath.Join(d, filepath.Dir(f.GetName())), 0o755)
			os.WriteFile(filepath.Join(d, f.GetName()), []byte(f.GetContent()), 0o644)
		}
		have, err := os.ReadFile(filepath.Join(repo, f.GetName()))
		if err != nil {
			g.direct("regen-diff:"+f.GetName(), "the generator produces "+f.GetName()+" but it is not checked in: its service is not routed/wrapped", f.GetName())
			continue
		}
		if string(have) != f.GetContent() {
			g.direct("regen-diff:"+f.GetName(), "checked-in "+f.GetName()+" differs from what "+plugin+" generates from the current descriptors"+firstDiff(string(have), f.GetContent()), f.GetName())
		}
	}
	checked, _ := filepath.Glob(filepath.Join(repo, "pkg/trait/*/*"+suffix))
	for _, f := range checked {
		rel, _ := filepath.Rel(repo, f)
		if !produced[filepath.ToSlash(rel)] {
			g.direct("regen-diff:"+rel, "checked-in "+rel+" is not produced by "+plugin+" from the current descriptors (stale file)", rel)
		}
	}
	g.o.Extra["regen_"+filepath.Base(plugin)] = len(resp.File)
}

func firstDiff(a, b string) string {
	al, bl := strings.Split(a, "\n"), strings.Split(b, "\n")
	for i := 0; i < len(al) && i < len(bl); i++ {
		if al[i] != bl[i] {
			return fmt.Sprintf(" (line %d: checked in %q, generated %q)", i+1, al[i], bl[i])
		}
	}
	return fmt.Sprintf(" (checked in %d lines, generated %d lines)", len(al), len(bl))
}

func (g *c12) staticChecks() {
	g.regen("cmd/protoc-gen-router", "_router.pb.go")
	g.regen("cmd/protoc-gen-wrapper", "_wrap.pb.go")
	// the harness table must list exactly the router files of the tree
	files, _ := filepath.Glob(filepath.Join(repoDir(), "pkg/trait/*/*_router.pb.go"))
	have := map[string]bool{}
	for _, e := range routerTable {
		have[e.File] = true
	}
	for _, f := range files {
		rel, _ := filepath.Rel(repoDir(), f)
		if !have[filepath.ToSlash(rel)] {
			g.direct("harness-table-stale:"+rel, "router "+rel+" is not in harness/c12/table_gen.go; rerun mktable.go", rel)
		}
		delete(have, filepath.ToSlash(rel))
	}
	for f := range have {
		g.direct("harness-table-stale:"+f, "harness/c12/table_gen.go lists "+f+" which is not in the tree", f)
	}
}
