package main

import (
	"context"
	"errors"
	"fmt"
	"reflect"

	"github.com/smart-core-os/sc-golang/pkg/middleware/name"
	"github.com/smart-core-os/sc-golang/verifharness/vcoq"
	"google.golang.org/grpc"
	"google.golang.org/protobuf/proto"
	"google.golang.org/protobuf/reflect/protodesc"
	"google.golang.org/protobuf/reflect/protoreflect"
	"google.golang.org/protobuf/reflect/protoregistry"
	"google.golang.org/protobuf/types/descriptorpb"
	"google.golang.org/protobuf/types/dynamicpb"
)

// shapeOf classifies a request the way NameDefault.v does.
func shapeOf(req any) string {
	m, ok := req.(proto.Message)
	if !ok {
		return "NotMessage"
	}
	fd := m.ProtoReflect().Descriptor().Fields().ByTextName("name")
	if fd == nil {
		return "NoNameField"
	}
	if fd.Kind() != protoreflect.StringKind {
		return "NameNotString"
	}
	if fd.IsList() {
		return vcoq.App("NameRepeated", vcoq.Int(m.ProtoReflect().Get(fd).List().Len()))
	}
	return vcoq.App("NameString", coqStr(m.ProtoReflect().Get(fd).String()))
}

// restEqual: everything but a singular string name field is unchanged
func restEqual(before, after any) bool {
	bm, ok := before.(proto.Message)
	if !ok {
		return reflect.DeepEqual(before, after)
	}
	am := after.(proto.Message)
	b, a := proto.Clone(bm), proto.Clone(am)
	fd := b.ProtoReflect().Descriptor().Fields().ByTextName("name")
	if fd != nil && fd.Kind() == protoreflect.StringKind && !fd.IsList() {
		b.ProtoReflect().Clear(fd)
		a.ProtoReflect().Clear(fd)
	}
	return proto.Equal(a, b)
}

type recvStream struct {
	grpc.ServerStream
	src proto.Message
	err error
}

func (r *recvStream) RecvMsg(m any) error {
	if r.err != nil {
		return r.err
	}
	if pm, ok := m.(proto.Message); ok && r.src != nil {
		proto.Merge(pm, r.src)
	}
	return nil
}
func (r *recvStream) Context() context.Context { return context.Background() }

func (g *c12) defaultCase(req any, dflt string, what string) {
	clone := func(x any) any {
		if m, ok := x.(proto.Message); ok {
			return proto.Clone(m)
		}
		return x
	}
	js := func(x any) any {
		if m, ok := x.(proto.Message); ok {
			return map[string]any{"type": string(m.ProtoReflect().Descriptor().FullName()), "shape": shapeOf(x)}
		}
		return fmt.Sprintf("%T", x)
	}
	// unary interceptor
	{
		in := clone(req)
		before := clone(in)
		var seen any
		calls := 0
		sentinel := errors.New("handler error")
		resp, err := func() (resp any, err error) {
			defer func() {
				if p := recover(); p != nil {
					g.direct("panic:IfAbsentUnaryInterceptor:"+what, fmt.Sprintf("interceptor panicked: %v", p), js(req))
				}
			}()
			return name.IfAbsentUnaryInterceptor(dflt)(context.Background(), in, &grpc.UnaryServerInfo{FullMethod: g.fullMethod()},
				func(ctx context.Context, r any) (any, error) { calls++; seen = r; return "resp", sentinel })
		}()
		if calls != 1 || resp != "resp" || err != sentinel {
			g.direct("interceptor-not-transparent:"+what, "unary interceptor did not call the handler exactly once / changed its result", js(req))
		}
		if calls == 1 {
			if _, isMsg := in.(proto.Message); isMsg && seen != in {
				g.direct("interceptor-not-transparent:"+what, "handler saw a different request value", js(req))
			}
			p := 7
			if !restEqual(before, seen) {
				p = 8
			}
			coq := vcoq.App("KDefault", coqStr(dflt), vcoq.App("mkReq", shapeOf(before), "7"), vcoq.App("mkReq", shapeOf(seen), vcoq.Int(p)))
			g.o.Add(vcoq.Case{Coq: coq, JSON: map[string]any{"kind": "default-name-unary", "request": js(before), "default": dflt, "seen": js(seen), "rest_unchanged": p == 7},
				Key: coq, NonTrivial: shapeOf(before) != "NotMessage" && shapeOf(before) != "NoNameField" && shapeOf(before) != "NameNotString",
				Tags: []string{"default-name", "default-name:unary"}})
		}
	}
	// stream interceptor: RecvMsg succeeds / fails
	if src, ok := req.(proto.Message); ok {
		for _, recvOK := range []bool{true, false} {
			ss := &recvStream{src: src}
			if !recvOK {
				ss.err = errors.New("recv failed")
			}
			var target proto.Message = src.ProtoReflect().New().Interface()
			if !recvOK {
				// what the handler's message holds when RecvMsg fails: leave as prepared by the handler
				target = proto.Clone(src)
			}
			before := proto.Clone(src)
			var rerr error
			herr := name.IfAbsentStreamInterceptor(dflt)(nil, ss, &grpc.StreamServerInfo{FullMethod: g.fullMethod(), IsClientStream: g.r.Chance(30), IsServerStream: g.r.Chance(70)}, func(srv any, stream grpc.ServerStream) error {
				defer func() {
					if p := recover(); p != nil {
						g.direct("panic:IfAbsentStreamInterceptor:"+what, fmt.Sprintf("stream wrapper panicked: %v", p), js(req))
					}
				}()
				rerr = stream.RecvMsg(target)
				return nil
			})
			if herr != nil || (rerr != nil) == recvOK {
				g.direct("interceptor-not-transparent:"+what, "stream interceptor changed the RecvMsg/handler error", js(req))
			}
			p := 7
			if !restEqual(before, target) {
				p = 8
			}
			coq := vcoq.App("KDefaultStream", coqStr(dflt), vcoq.Bool(recvOK), vcoq.App("mkReq", shapeOf(before), "7"), vcoq.App("mkReq", shapeOf(target), vcoq.Int(p)))
			g.o.Add(vcoq.Case{Coq: coq, JSON: map[string]any{"kind": "default-name-stream", "request": js(before), "default": dflt, "recv_ok": recvOK, "seen": js(target), "rest_unchanged": p == 7},
				Key: coq, NonTrivial: recvOK, Tags: []string{"default-name", "default-name:stream"}})
		}
	}
}

// oddTypes builds message types whose "name" field is missing or not a singular string.
func oddTypes() []protoreflect.MessageDescriptor {
	str, i32, msgT := descriptorpb.FieldDescriptorProto_TYPE_STRING, descriptorpb.FieldDescriptorProto_TYPE_INT32, descriptorpb.FieldDescriptorProto_TYPE_MESSAGE
	byt := descriptorpb.FieldDescriptorProto_TYPE_BYTES
	opt, rep := descriptorpb.FieldDescriptorProto_LABEL_OPTIONAL, descriptorpb.FieldDescriptorProto_LABEL_REPEATED
	f := func(n string, num int32, t descriptorpb.FieldDescriptorProto_Type, l descriptorpb.FieldDescriptorProto_Label, tn string) *descriptorpb.FieldDescriptorProto {
		fd := &descriptorpb.FieldDescriptorProto{Name: proto.String(n), Number: proto.Int32(num), Type: t.Enum(), Label: l.Enum(), JsonName: proto.String(n)}
		if tn != "" {
			fd.TypeName = proto.String(tn)
		}
		return fd
	}
	fdp := &descriptorpb.FileDescriptorProto{
		Name: proto.String("verif/c12_odd.proto"), Package: proto.String("verif.c12"), Syntax: proto.String("proto3"),
		MessageType: []*descriptorpb.DescriptorProto{
			{Name: proto.String("NoName"), Field: []*descriptorpb.FieldDescriptorProto{f("title", 1, str, opt, ""), f("n", 2, i32, opt, "")}},
			{Name: proto.String("IntName"), Field: []*descriptorpb.FieldDescriptorProto{f("name", 1, i32, opt, ""), f("other", 2, str, opt, "")}},
			{Name: proto.String("BytesName"), Field: []*descriptorpb.FieldDescriptorProto{f("name", 1, byt, opt, "")}},
			{Name: proto.String("MsgName"), Field: []*descriptorpb.FieldDescriptorProto{f("name", 1, msgT, opt, ".verif.c12.NoName")}},
			{Name: proto.String("RepName"), Field: []*descriptorpb.FieldDescriptorProto{f("name", 1, str, rep, ""), f("other", 2, str, opt, "")}},
			{Name: proto.String("NestedName"), Field: []*descriptorpb.FieldDescriptorProto{f("name", 1, str, opt, ""), f("child", 2, msgT, opt, ".verif.c12.StrName"), f("children", 3, msgT, rep, ".verif.c12.StrName")}},
			{Name: proto.String("NestedOnly"), Field: []*descriptorpb.FieldDescriptorProto{f("child", 1, msgT, opt, ".verif.c12.StrName"), f("title", 2, str, opt, "")}},
			{Name: proto.String("StrName"), Field: []*descriptorpb.FieldDescriptorProto{f("other", 1, str, opt, ""), f("name", 7, str, opt, ""), f("names", 8, str, rep, "")}},
		},
	}
	fd, err := protodesc.NewFile(fdp, protoregistry.GlobalFiles)
	if err != nil {
		panic(err)
	}
	var out []protoreflect.MessageDescriptor
	for i := 0; i < fd.Messages().Len(); i++ {
		out = append(out, fd.Messages().Get(i))
	}
	return out
}

func (g *c12) nameDefaults() {
	// every request type of every routed service
	seen := map[protoreflect.FullName]bool{}
	var types []protoreflect.MessageDescriptor
	protoregistry.GlobalFiles.RangeFiles(func(fd protoreflect.FileDescriptor) bool {
		for i := 0; i < fd.Services().Len(); i++ {
			ms := fd.Services().Get(i).Methods()
			for j := 0; j < ms.Len(); j++ {
				in := ms.Get(j).Input()
				if !seen[in.FullName()] {
					seen[in.FullName()] = true
					types = append(types, in)
				}
			}
		}
		return true
	})
	sortDescs(types)
	stride := 1
	if g.tier != "thorough" {
		stride = 3 // a third of the request types per quick run, rotating with the seed
	}
	off := g.r.Intn(stride)
	for i, d := range types {
		if i%stride != off {
			continue
		}
		mt, err := protoregistry.GlobalTypes.FindMessageByName(d.FullName())
		if err != nil {
			continue
		}
		// the empty name, an ordinary one, and one that is blank / padded / odd but NOT empty
		for _, nm := range []string{"", g.str() + "x", g.oddName()} {
			g.o.Extra["name:default:"+nameClass(nm)] = extraInt(g.o.Extra["name:default:"+nameClass(nm)]) + 1
			m := mt.New()
			g.fill(m, 1)
			if fd := d.Fields().ByName("name"); fd != nil && fd.Kind() == protoreflect.StringKind && !fd.IsList() {
				m.Set(fd, protoreflect.ValueOfString(nm))
			}
			g.defaultCase(m.Interface(), []string{"dev/1", "srv", "", " "}[g.r.Intn(4)], string(d.FullName()))
		}
	}
	// every member of every name class, on a generated request type and on a dynamic one whose name
	// field is not field 1: only the empty string is an empty name
	if mt, err := protoregistry.GlobalTypes.FindMessageByName("smartcore.traits.GetOnOffRequest"); err == nil {
		var strName protoreflect.MessageDescriptor
		for _, d := range oddTypes() {
			if d.Name() == "StrName" {
				strName = d
			}
		}
		for _, cl := range nameClassOrder {
			for _, nm := range nameClasses[cl] {
				g.o.Extra["name:default:"+nameClass(nm)] = extraInt(g.o.Extra["name:default:"+nameClass(nm)]) + 2
				m := mt.New()
				m.Set(m.Descriptor().Fields().ByName("name"), protoreflect.ValueOfString(nm))
				g.defaultCase(m.Interface(), "dev/1", "smartcore.traits.GetOnOffRequest")
				dm := dynamicpb.NewMessage(strName)
				dm.Set(strName.Fields().ByName("name"), protoreflect.ValueOfString(nm))
				dm.Set(strName.Fields().ByName("other"), protoreflect.ValueOfString(g.oddName()))
				g.defaultCase(dm, "dflt", "verif.c12.StrName")
			}
		}
	} else {
		g.direct("harness:no-GetOnOffRequest", "smartcore.traits.GetOnOffRequest not registered", nil)
	}
	for _, d := range oddTypes() {
		for k := 0; k < 3; k++ {
			m := dynamicpb.NewMessage(d)
			if k > 0 {
				g.fill(m, 1)
			}
			if k == 2 {
				if fd := d.Fields().ByName("name"); fd != nil && fd.Kind() == protoreflect.StringKind && !fd.IsList() {
					m.Clear(fd)
				}
				// nested messages present, with their own name empty: they must stay as they are
				for i := 0; i < d.Fields().Len(); i++ {
					fd := d.Fields().Get(i)
					if fd.Message() == nil || fd.IsMap() {
						continue
					}
					var sub protoreflect.Message
					if fd.IsList() {
						l := m.Mutable(fd).List()
						e := l.NewElement()
						l.Append(e)
						sub = e.Message()
					} else {
						sub = m.Mutable(fd).Message()
					}
					if nf := sub.Descriptor().Fields().ByName("name"); nf != nil && nf.Kind() == protoreflect.StringKind && !nf.IsList() {
						sub.Clear(nf)
					}
				}
			}
			g.defaultCase(m, "dflt", string(d.FullName()))
		}
	}
	g.defaultCase("just a string", "dflt", "string")
	g.defaultCase(42, "dflt", "int")
	g.defaultCase(nil, "dflt", "nil")
}

func sortDescs(l []protoreflect.MessageDescriptor) {
	for i := 1; i < len(l); i++ {
		for j := i; j > 0 && l[j].FullName() < l[j-1].FullName(); j-- {
			l[j], l[j-1] = l[j-1], l[j]
		}
	}
}
