package main

import (
	"errors"
	"fmt"
	"reflect"
	"strings"

	"github.com/smart-core-os/sc-golang/pkg/router"
	"github.com/smart-core-os/sc-golang/verifharness/vcoq"
	"google.golang.org/grpc/codes"
	"google.golang.org/grpc/status"
)

// fout is what one call of a Factory func returns (RegistryW.v).
type fout struct {
	kind string // nil | err | both | ok
	c    int
}

// MarshalJSON: replays say what the fallback/factory returned (nil,nil / nil,err / client+err / client,nil).
func (f fout) MarshalJSON() ([]byte, error) {
	desc := map[string]string{"nil": "nil, nil", "err": "nil, error", "both": "client AND error", "ok": "client, nil"}[f.kind]
	return []byte(fmt.Sprintf(`{"returns":%q,"client":%d}`, desc, f.c)), nil
}

func (f fout) coq() string {
	switch f.kind {
	case "nil":
		return "FNil"
	case "err":
		return "FErr"
	case "both":
		return vcoq.App("FBoth", vcoq.Int(f.c))
	}
	return vcoq.App("FOk", vcoq.Int(f.c))
}

// regwHistory: a bare router built from the option subset `opts` (bit 0 WithFallback, bit 1
// WithFactory, bit 2 WithOnChange); every Get decides afresh what the fallback and the factory
// return if they are called (nil,nil / nil,err / client+err / client,nil with a fresh client, a
// client registered under another name, or the client of an earlier factory call); the number of
// fallback and factory calls each Get made is part of the observation.
func (g *c12) regwHistory(opts int, n int) {
	id := &ids{m: map[any]int{}}
	clients := map[int]any{0: nil}
	mk := func(i int) any {
		if c, ok := clients[i]; ok {
			return c
		}
		c := &tok{i}
		clients[i] = c
		id.m[c] = i
		return c
	}
	hasFb, hasFac, hasCb := opts&1 != 0, opts&2 != 0, opts&4 != 0
	var log []change
	var nextFb, nextFac fout
	fbCalls, facCalls := 0, 0
	ret := func(o fout) (any, error) {
		switch o.kind {
		case "nil":
			return nil, nil
		case "err":
			return nil, status.Error(codes.Unavailable, "cannot")
		case "both":
			return mk(o.c), errors.New("half made")
		}
		return mk(o.c), nil
	}
	var ro []router.Option
	if hasFb {
		ro = append(ro, router.WithFallback(func(string) (any, error) { fbCalls++; return ret(nextFb) }))
	}
	if hasFac {
		ro = append(ro, router.WithFactory(func(string) (any, error) { facCalls++; return ret(nextFac) }))
	}
	if hasCb {
		ro = append(ro, router.WithOnChange(func(ch router.Change) {
			log = append(log, change{ch.Name, id.of(ch.Old), id.of(ch.New), ch.Auto})
		}))
	}
	var rt router.Router
	var ops, obs []string
	var jops []any
	panicked := func() (p any) {
		defer func() { p = recover() }()
		rt = router.NewRouter(ro...)
		names := []string{"a", "b", "c", ""}
		next := 1
		used := []int{}
		pickOut := func() fout {
			switch g.r.Intn(8) {
			case 0:
				return fout{kind: "nil"}
			case 1, 2:
				return fout{kind: "err"}
			case 3:
				next++
				return fout{kind: "both", c: next - 1}
			case 4:
				if len(used) > 0 { // a client handed out or registered before
					return fout{kind: "ok", c: used[g.r.Intn(len(used))]}
				}
			}
			next++
			return fout{kind: "ok", c: next - 1}
		}
		for i := 0; i < n; i++ {
			name := names[g.r.Intn(len(names))]
			var coqOp, class string
			var res string
			var jr any
			k0, f0, l0 := fbCalls, facCalls, len(log)
			switch g.r.Intn(8) {
			case 0, 1:
				c := next
				if len(used) > 0 && g.r.Chance(20) {
					c = used[g.r.Intn(len(used))]
				} else {
					next++
				}
				used = append(used, c)
				mk(c)
				res, jr = doReg(rt, regOp{"add", name, c}, clients, id)
				coqOp, class = vcoq.App("WAdd", coqStr(name), vcoq.Int(c)), "add"
				jops = append(jops, map[string]any{"op": "add", "name": name, "client": c, "result": jr})
			case 2:
				res, jr = doReg(rt, regOp{"remove", name, 0}, clients, id)
				coqOp, class = vcoq.App("WRemove", coqStr(name)), "remove"
				jops = append(jops, map[string]any{"op": "remove", "name": name, "result": jr})
			case 3:
				res, jr = doReg(rt, regOp{"has", name, 0}, clients, id)
				coqOp, class = vcoq.App("WHas", coqStr(name)), "has"
				jops = append(jops, map[string]any{"op": "has", "name": name, "result": jr})
			default:
				nextFb, nextFac = pickOut(), pickOut()
				for _, o := range []fout{nextFb, nextFac} {
					if o.kind == "ok" {
						used = append(used, o.c)
					}
				}
				res, jr = doReg(rt, regOp{"get", name, 0}, clients, id)
				coqOp = vcoq.App("WGet", coqStr(name), nextFb.coq(), nextFac.coq())
				out := "got"
				if strings.Contains(res, "NotFound") {
					out = "notfound"
				}
				class = fmt.Sprintf("get:%s,fallback-calls=%d,factory-calls=%d,callbacks=%d", out, fbCalls-k0, facCalls-f0, len(log)-l0)
				if fbCalls > k0 {
					g.o.Extra["w:fallback-returned:"+nextFb.kind] = extraInt(g.o.Extra["w:fallback-returned:"+nextFb.kind]) + 1
				}
				if facCalls > f0 {
					g.o.Extra["w:factory-returned:"+nextFac.kind] = extraInt(g.o.Extra["w:factory-returned:"+nextFac.kind]) + 1
				}
				jops = append(jops, map[string]any{"op": "get", "name": name, "fallback_returns": nextFb, "factory_returns": nextFac,
					"result": jr, "fallback_calls": fbCalls - k0, "factory_calls": facCalls - f0})
			}
			ops = append(ops, coqOp)
			obs = append(obs, vcoq.App("WR", res, vcoq.Int(fbCalls-k0), vcoq.Int(facCalls-f0)))
			g.o.Extra["w:"+class] = extraInt(g.o.Extra["w:"+class]) + 1
		}
		return nil
	}()
	if panicked != nil {
		g.direct("panic:router-options", fmt.Sprintf("router built from option subset %03b panicked: %v", opts, panicked),
			map[string]any{"options": opts, "ops": jops})
		return
	}
	coq := vcoq.App("KRegW", vcoq.App("mkW", vcoq.Bool(hasFb), vcoq.Bool(hasFac), vcoq.Bool(hasCb)), vcoq.List(ops), vcoq.List(obs), coqChanges(log))
	g.o.Add(vcoq.Case{Coq: coq, JSON: map[string]any{"kind": "registry-options", "fallback": hasFb, "factory": hasFac, "onChange": hasCb,
		"ops": jops, "log": log}, Key: coq, NonTrivial: true, Tags: []string{"registry-options", fmt.Sprintf("registry-options:%03b", opts)}})
}

func extraInt(v any) int {
	if i, ok := v.(int); ok {
		return i
	}
	return 0
}

// typedAccessors finds the generated AddXxxClient / RemoveXxxClient / GetXxxClient methods of a router.
type typedAcc struct {
	add, remove, get reflect.Value
	ok               bool
}

func findTyped(rt any) typedAcc {
	v := reflect.ValueOf(rt)
	t := v.Type()
	var a typedAcc
	for i := 0; i < t.NumMethod(); i++ {
		n := t.Method(i).Name
		if !strings.HasSuffix(n, "Client") {
			continue
		}
		switch {
		case strings.HasPrefix(n, "Add") && n != "Add":
			a.add = v.Method(i)
		case strings.HasPrefix(n, "Remove") && n != "Remove":
			a.remove = v.Method(i)
		case strings.HasPrefix(n, "Get") && n != "Get" && t.Method(i).Type.NumIn() == 2 && t.Method(i).Type.In(1).Kind() == reflect.String:
			a.get = v.Method(i)
		}
	}
	a.ok = a.add.IsValid() && a.remove.IsValid() && a.get.IsValid()
	return a
}

func ifaceOrNil(v reflect.Value) any {
	if !v.IsValid() || (v.Kind() == reflect.Interface && v.IsNil()) {
		return nil
	}
	return v.Interface()
}

// doRegTyped performs add/remove/get through the typed accessors.
func doRegTyped(a typedAcc, o regOp, clients map[int]any, id *ids) (string, any) {
	switch o.kind {
	case "add":
		out := a.add.Call([]reflect.Value{reflect.ValueOf(o.name), reflect.ValueOf(clients[o.c])})
		old := ifaceOrNil(out[0])
		return vcoq.App("RClient", vcoq.Int(id.of(old))), id.of(old)
	case "remove":
		out := a.remove.Call([]reflect.Value{reflect.ValueOf(o.name)})
		old := ifaceOrNil(out[0])
		return vcoq.App("RClient", vcoq.Int(id.of(old))), id.of(old)
	}
	out := a.get.Call([]reflect.Value{reflect.ValueOf(o.name)})
	var err error
	if e := ifaceOrNil(out[1]); e != nil {
		err = e.(error)
	}
	return getRes(ifaceOrNil(out[0]), err, id)
}
