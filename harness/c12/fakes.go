package main

import (
	"context"
	"errors"
	"io"
	"sort"

	"github.com/smart-core-os/sc-golang/pkg/router"
	"github.com/smart-core-os/sc-golang/verifharness/vcoq"
	"google.golang.org/grpc"
	"google.golang.org/grpc/metadata"
	"google.golang.org/grpc/status"
	"google.golang.org/protobuf/proto"
	"google.golang.org/protobuf/reflect/protoreflect"
)

// typedRouter is what every generated XxxRouter offers.
type typedRouter interface {
	router.Router
	Register(server grpc.ServiceRegistrar)
}

type routerEntry struct {
	File      string
	New       func(o ...router.Option) typedRouter
	NewClient func(c grpc.ClientConnInterface) any
	// WithFactory is the generated WithXxxClientFactory applied to an untyped Factory
	WithFactory func(f router.Factory) router.Option
}

// registrar captures the service description a router registers itself under.
type registrar struct {
	desc *grpc.ServiceDesc
	impl any
}

func (r *registrar) RegisterService(desc *grpc.ServiceDesc, impl any) { r.desc, r.impl = desc, impl }

// ---- scripts ----

type st struct {
	Code int    `json:"code"`
	Msg  string `json:"msg"`
	Raw  bool   `json:"raw,omitempty"` // a plain Go error rather than a status error
}

func (s *st) err() error {
	if s == nil {
		return nil
	}
	if s.Raw {
		return errors.New(s.Msg)
	}
	return status.Error(codesOf(s.Code), s.Msg)
}

type childScript struct {
	OpenErr *st         `json:"open_err,omitempty"`
	OpenAt  string      `json:"open_at,omitempty"` // NewStream | SendMsg | CloseSend | Invoke
	HdrErr  *st         `json:"hdr_err,omitempty"`
	Hdr     metadata.MD `json:"hdr,omitempty"`
	Msgs    []proto.Message `json:"-"`
	MsgIDs  []int       `json:"msgs"`
	Fin     *st         `json:"fin,omitempty"` // nil = io.EOF
	Trl     metadata.MD `json:"trl,omitempty"`
	HasTrl  bool        `json:"has_trl"`
}

type callerScript struct {
	SendHeaderErr *st `json:"sendheader_err,omitempty"`
	SendErrAt     int `json:"send_err_at"` // -1: never
	SendErr       *st `json:"send_err,omitempty"`
}

// ---- the world shared by the fake clients of one router ----

type callRec struct {
	Client int
	Method string
	Req    []byte
	ReqSet bool
}

type world struct {
	calls  []callRec
	script *childScript
	last   *fakeClientStream
}

// fakeConn is the grpc.ClientConnInterface behind one fake client.
type fakeConn struct {
	id int
	w  *world
}

func (c *fakeConn) Invoke(ctx context.Context, method string, args any, reply any, opts ...grpc.CallOption) error {
	b, _ := proto.MarshalOptions{Deterministic: true}.Marshal(args.(proto.Message))
	c.w.calls = append(c.w.calls, callRec{Client: c.id, Method: method, Req: b, ReqSet: true})
	s := c.w.script
	if s.OpenErr != nil {
		return s.OpenErr.err()
	}
	proto.Merge(reply.(proto.Message), s.Msgs[0])
	return nil
}

func (c *fakeConn) NewStream(ctx context.Context, desc *grpc.StreamDesc, method string, opts ...grpc.CallOption) (grpc.ClientStream, error) {
	c.w.calls = append(c.w.calls, callRec{Client: c.id, Method: method})
	s := c.w.script
	if s.OpenErr != nil && s.OpenAt == "NewStream" {
		return nil, s.OpenErr.err()
	}
	cs := &fakeClientStream{ctx: ctx, s: s, rec: &c.w.calls[len(c.w.calls)-1]}
	c.w.last = cs
	return cs, nil
}

type fakeClientStream struct {
	ctx       context.Context
	s         *childScript
	rec       *callRec
	recvs     int
	closeSend int
	sendMsgs  int
	afterEnd  int // Recv calls after the stream reported its end
	trlEarly  int // Trailer() calls before Recv reported the end of the stream
}

func (f *fakeClientStream) Header() (metadata.MD, error) {
	if f.s.HdrErr != nil {
		return nil, f.s.HdrErr.err()
	}
	return f.s.Hdr, nil
}
func (f *fakeClientStream) Trailer() metadata.MD {
	// grpc.ClientStream: the trailer "must only be called after ... stream.Recv has returned a non-nil
	// error (including io.EOF)"; before that a real stream has no trailer to give
	if f.recvs <= len(f.s.Msgs) {
		f.trlEarly++
		return nil
	}
	if !f.s.HasTrl {
		return nil
	}
	if f.s.Trl == nil {
		return metadata.MD{}
	}
	return f.s.Trl
}
func (f *fakeClientStream) CloseSend() error {
	f.closeSend++
	if f.s.OpenErr != nil && f.s.OpenAt == "CloseSend" {
		return f.s.OpenErr.err()
	}
	return nil
}
func (f *fakeClientStream) Context() context.Context { return f.ctx }
func (f *fakeClientStream) SendMsg(m any) error {
	f.sendMsgs++
	b, _ := proto.MarshalOptions{Deterministic: true}.Marshal(m.(proto.Message))
	f.rec.Req, f.rec.ReqSet = b, true
	if f.s.OpenErr != nil && f.s.OpenAt == "SendMsg" {
		return f.s.OpenErr.err()
	}
	return nil
}
func (f *fakeClientStream) RecvMsg(m any) error {
	i := f.recvs
	f.recvs++
	if i < len(f.s.Msgs) {
		proto.Merge(m.(proto.Message), f.s.Msgs[i])
		return nil
	}
	if i > len(f.s.Msgs) {
		f.afterEnd++
	}
	if f.s.Fin == nil {
		return io.EOF
	}
	return f.s.Fin.err()
}

// fakeServerStream is the caller's side: the grpc.ServerStream the router method is invoked with.
type fakeServerStream struct {
	ctx        context.Context
	req        proto.Message
	k          *callerScript
	header     metadata.MD
	headerSent bool
	setHeader  int
	trailer    metadata.MD
	trailerSet bool
	sent       [][]byte
	sends      int
	problems   []string
}

func (f *fakeServerStream) SetHeader(md metadata.MD) error { f.setHeader++; return nil }
func (f *fakeServerStream) SendHeader(md metadata.MD) error {
	if f.headerSent {
		f.problems = append(f.problems, "SendHeader called twice")
	}
	if f.k.SendHeaderErr != nil {
		return f.k.SendHeaderErr.err()
	}
	f.headerSent = true
	f.header = md.Copy()
	return nil
}
func (f *fakeServerStream) SetTrailer(md metadata.MD) {
	f.trailerSet = true
	f.trailer = metadata.Join(f.trailer, md)
}
func (f *fakeServerStream) Context() context.Context { return f.ctx }
func (f *fakeServerStream) SendMsg(m any) error {
	i := f.sends
	f.sends++
	if f.k.SendErrAt == i {
		return f.k.SendErr.err()
	}
	b, _ := proto.MarshalOptions{Deterministic: true}.Marshal(m.(proto.Message))
	f.sent = append(f.sent, b)
	return nil
}
func (f *fakeServerStream) RecvMsg(m any) error {
	proto.Merge(m.(proto.Message), f.req)
	return nil
}

// ---- canonical forms ----

func coqStr(s string) string { return coqStrExact(s) }

func coqMD(md metadata.MD) string {
	keys := make([]string, 0, len(md))
	for k := range md {
		keys = append(keys, k)
	}
	sort.Strings(keys)
	items := make([]string, 0, len(keys))
	for _, k := range keys {
		vs := make([]string, len(md[k]))
		for i, v := range md[k] {
			vs[i] = coqStr(v)
		}
		items = append(items, vcoq.Pair(coqStr(k), vcoq.List(vs)))
	}
	return vcoq.List(items)
}
func coqOptMD(present bool, md metadata.MD) string {
	if !present {
		return "None"
	}
	return vcoq.Some(coqMD(md))
}
func coqSt(s *st) string {
	if s == nil {
		return "None"
	}
	code := s.Code
	if s.Raw {
		code = 2 // status.Code of a plain error is Unknown
	}
	return vcoq.Some(vcoq.Pair(vcoq.Int(code), coqStr(s.Msg)))
}
func coqErr(err error) string {
	if err == nil {
		return "None"
	}
	return vcoq.Some(vcoq.Pair(vcoq.Int(int(status.Code(err))), coqStr(status.Convert(err).Message())))
}
func jsErr(err error) any {
	if err == nil {
		return nil
	}
	return map[string]any{"code": int(status.Code(err)), "msg": status.Convert(err).Message()}
}

func coqChild(s *childScript) string {
	ids := make([]string, len(s.MsgIDs))
	for i, v := range s.MsgIDs {
		ids[i] = vcoq.Int(v)
	}
	return vcoq.App("mkChild", coqSt(s.OpenErr), coqSt(s.HdrErr), coqMD(s.Hdr), vcoq.List(ids), coqSt(s.Fin), coqOptMD(s.HasTrl, s.Trl))
}
func coqCaller(k *callerScript) string {
	at := "None"
	if k.SendErrAt >= 0 {
		at = vcoq.Some(vcoq.Pair(vcoq.Int(k.SendErrAt), vcoq.Pair(vcoq.Int(stCode(k.SendErr)), coqStr(k.SendErr.Msg))))
	}
	return vcoq.App("mkCaller", coqSt(k.SendHeaderErr), at)
}
func stCode(s *st) int {
	if s.Raw {
		return 2
	}
	return s.Code
}

func nameField(m proto.Message) protoreflect.FieldDescriptor {
	return m.ProtoReflect().Descriptor().Fields().ByName("name")
}
