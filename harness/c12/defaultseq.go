package main

import (
	"context"
	"encoding/hex"
	"errors"
	"fmt"
	"strings"

	"github.com/smart-core-os/sc-api/go/traits"
	"github.com/smart-core-os/sc-golang/pkg/middleware/name"
	"github.com/smart-core-os/sc-golang/verifharness/vcoq"
	"google.golang.org/grpc"
	"google.golang.org/protobuf/proto"
	"google.golang.org/protobuf/reflect/protodesc"
	"google.golang.org/protobuf/reflect/protoreflect"
	"google.golang.org/protobuf/reflect/protoregistry"
	"google.golang.org/protobuf/types/descriptorpb"
	"google.golang.org/protobuf/types/dynamicpb"
)

// collidingTypes builds request types in different proto packages (and nested in different
// parents) that share short message names -- with each other and with sc-api request types --
// but differ in layout: name at another field number, another string field at the colliding
// number, no name field, a non-string or repeated name.
func collidingTypes() []protoreflect.MessageDescriptor {
	str, i32 := descriptorpb.FieldDescriptorProto_TYPE_STRING, descriptorpb.FieldDescriptorProto_TYPE_INT32
	opt, rep := descriptorpb.FieldDescriptorProto_LABEL_OPTIONAL, descriptorpb.FieldDescriptorProto_LABEL_REPEATED
	f := func(n string, num int32, t descriptorpb.FieldDescriptorProto_Type, l descriptorpb.FieldDescriptorProto_Label) *descriptorpb.FieldDescriptorProto {
		return &descriptorpb.FieldDescriptorProto{Name: proto.String(n), Number: proto.Int32(num), Type: t.Enum(), Label: l.Enum(), JsonName: proto.String(n)}
	}
	type fl = []*descriptorpb.FieldDescriptorProto
	msg := func(n string, fields fl, nested ...*descriptorpb.DescriptorProto) *descriptorpb.DescriptorProto {
		return &descriptorpb.DescriptorProto{Name: proto.String(n), Field: fields, NestedType: nested}
	}
	files := []*descriptorpb.FileDescriptorProto{
		{Name: proto.String("verif/c12_a.proto"), Package: proto.String("vendor.a"), Syntax: proto.String("proto3"), MessageType: []*descriptorpb.DescriptorProto{
			msg("ListThingsRequest", fl{f("name", 1, str, opt), f("page_token", 2, str, opt), f("page_size", 3, i32, opt)}),
			msg("GetOnOffRequest", fl{f("zone", 1, str, opt), f("name", 2, str, opt)}),
			msg("Outer", nil, msg("Item", fl{f("label", 1, str, opt), f("name", 4, str, opt)})),
		}},
		{Name: proto.String("verif/c12_b.proto"), Package: proto.String("vendor.b"), Syntax: proto.String("proto3"), MessageType: []*descriptorpb.DescriptorProto{
			msg("ListThingsRequest", fl{f("page_token", 1, str, opt), f("name", 2, str, opt)}),
			msg("Outer", nil, msg("Item", fl{f("name", 1, str, opt), f("label", 4, str, opt)})),
			msg("Other", nil, msg("Item", fl{f("name", 3, str, opt), f("label", 1, str, opt)})),
		}},
		{Name: proto.String("verif/c12_c.proto"), Package: proto.String("vendor.c"), Syntax: proto.String("proto3"), MessageType: []*descriptorpb.DescriptorProto{
			msg("ListThingsRequest", fl{f("page_token", 1, str, opt), f("filter", 2, str, opt)}), // no name field
		}},
		{Name: proto.String("verif/c12_d.proto"), Package: proto.String("vendor.d"), Syntax: proto.String("proto3"), MessageType: []*descriptorpb.DescriptorProto{
			msg("ListThingsRequest", fl{f("name", 1, i32, opt), f("title", 2, str, opt)}), // name is not a string
		}},
		{Name: proto.String("verif/c12_e.proto"), Package: proto.String("vendor.e"), Syntax: proto.String("proto3"), MessageType: []*descriptorpb.DescriptorProto{
			msg("ListThingsRequest", fl{f("name", 1, str, rep), f("owner", 2, str, opt)}), // repeated name
		}},
		{Name: proto.String("verif/c12_f.proto"), Package: proto.String("vendor.f"), Syntax: proto.String("proto3"), MessageType: []*descriptorpb.DescriptorProto{
			// `optional string name`: explicit presence; present-but-empty is still the empty name
			{Name: proto.String("GetOnOffRequest"), Field: fl{optF(f("name", 1, str, opt), 0), f("zone", 2, str, opt)},
				OneofDecl: []*descriptorpb.OneofDescriptorProto{{Name: proto.String("_name")}}},
			// JSON names crossed over: the field is found by its TEXT name
			msg("JsonTrap", fl{jsonF(f("label", 1, str, opt), "name"), jsonF(f("name", 2, str, opt), "label")}),
		}},
	}
	// requests carrying sub-messages that have their own name field: only the request's own name counts
	msgT := descriptorpb.FieldDescriptorProto_TYPE_MESSAGE
	sub := func(n string, num int32, l descriptorpb.FieldDescriptorProto_Label, tn string) *descriptorpb.FieldDescriptorProto {
		fd := f(n, num, msgT, l)
		fd.TypeName = proto.String(tn)
		return fd
	}
	files = append(files, &descriptorpb.FileDescriptorProto{Name: proto.String("verif/c12_g.proto"), Package: proto.String("vendor.g"), Syntax: proto.String("proto3"),
		MessageType: []*descriptorpb.DescriptorProto{
			msg("Thing", fl{f("name", 1, str, opt), f("label", 2, str, opt)}),
			msg("UpdateThingRequest", fl{f("name", 1, str, opt), sub("thing", 2, opt, ".vendor.g.Thing"), sub("things", 3, rep, ".vendor.g.Thing")}),
			msg("CreateThingRequest", fl{sub("thing", 1, opt, ".vendor.g.Thing"), f("name", 2, str, opt)}),
		}})
	var out []protoreflect.MessageDescriptor
	var walk func(ms protoreflect.MessageDescriptors)
	walk = func(ms protoreflect.MessageDescriptors) {
		for i := 0; i < ms.Len(); i++ {
			if ms.Get(i).Fields().Len() > 0 {
				out = append(out, ms.Get(i))
			}
			walk(ms.Get(i).Messages())
		}
	}
	for _, fdp := range files {
		fd, err := protodesc.NewFile(fdp, protoregistry.GlobalFiles)
		if err != nil {
			panic(err)
		}
		walk(fd.Messages())
	}
	return out
}

func optF(fd *descriptorpb.FieldDescriptorProto, oneof int32) *descriptorpb.FieldDescriptorProto {
	fd.Proto3Optional = proto.Bool(true)
	fd.OneofIndex = proto.Int32(oneof)
	return fd
}
func jsonF(fd *descriptorpb.FieldDescriptorProto, json string) *descriptorpb.FieldDescriptorProto {
	fd.JsonName = proto.String(json)
	return fd
}

// fullMethod: the interceptors must not care which method is being served.
func (g *c12) fullMethod() string {
	l := []string{"/x/Y", "/smartcore.traits.OnOffApi/GetOnOff", "/smartcore.traits.OnOffApi/PullOnOff", "/grpc.health.v1.Health/Check",
		"/grpc.reflection.v1alpha.ServerReflection/ServerReflectionInfo", "", "/", "no-slash"}
	m := l[g.r.Intn(len(l))]
	g.o.Extra["name:method:"+m] = extraInt(g.o.Extra["name:method:"+m]) + 1
	return m
}

// setStr gives a singular string field its content for a sequence/session: cleared, set, or -- where
// the field has explicit presence -- present but empty.
func (g *c12) setStr(m protoreflect.Message, fd protoreflect.FieldDescriptor, clearPct int) {
	switch {
	case g.r.Chance(clearPct):
		m.Clear(fd)
		if fd.HasPresence() && g.r.Chance(50) {
			m.Set(fd, protoreflect.ValueOfString(""))
			g.o.Extra["name:sequence:present-but-empty"] = extraInt(g.o.Extra["name:sequence:present-but-empty"]) + 1
		}
	default:
		m.Set(fd, protoreflect.ValueOfString(g.fieldStr()))
	}
}

func coqType(d protoreflect.MessageDescriptor) string {
	var fs []string
	for i := 0; i < d.Fields().Len(); i++ {
		fd := d.Fields().Get(i)
		k := "FOther"
		if fd.Kind() == protoreflect.StringKind {
			k = "FString"
			if fd.IsList() {
				k = "FRepString"
			}
		}
		fs = append(fs, vcoq.App("mkF", vcoq.Int(int(fd.Number())), coqStr(fd.TextName()), k))
	}
	return vcoq.App("mkT", coqStr(string(d.FullName())), vcoq.List(fs))
}

// render gives, for every field of the message's type in descriptor order, its number and a
// canonical ASCII rendering of its content.
func render(m protoreflect.Message) (string, map[string]string) {
	var it []string
	js := map[string]string{}
	fds := m.Descriptor().Fields()
	for i := 0; i < fds.Len(); i++ {
		fd := fds.Get(i)
		var s string
		v := m.Get(fd)
		switch {
		case fd.IsList():
			var parts []string
			for j := 0; j < v.List().Len(); j++ {
				if fd.Message() != nil {
					b, _ := proto.MarshalOptions{Deterministic: true}.Marshal(v.List().Get(j).Message().Interface())
					parts = append(parts, "msg:"+hex.EncodeToString(b))
					continue
				}
				parts = append(parts, fmt.Sprint(v.List().Get(j).Interface()))
			}
			s = "[" + strings.Join(parts, "|") + "]"
		case fd.IsMap():
			s = fmt.Sprintf("map:%d", v.Map().Len())
		case fd.Message() != nil:
			if m.Has(fd) {
				b, _ := proto.MarshalOptions{Deterministic: true}.Marshal(v.Message().Interface())
				s = "msg:" + hex.EncodeToString(b)
			}
		case fd.Kind() == protoreflect.StringKind:
			s = v.String()
		case fd.Kind() == protoreflect.BytesKind:
			s = "hex:" + hex.EncodeToString(v.Bytes())
		default:
			s = fmt.Sprint(v.Interface())
		}
		it = append(it, vcoq.Pair(vcoq.Int(int(fd.Number())), coqStr(s)))
		js[string(fd.Name())] = s
	}
	if len(m.GetUnknown()) > 0 {
		it = append(it, vcoq.Pair("0", coqStr("unknown:"+hex.EncodeToString(m.GetUnknown()))))
	}
	return vcoq.List(it), js
}

// defaultSequences pushes requests of many types, in random order, through ONE unary interceptor
// and ONE stream interceptor: whatever either remembers between calls must not matter.
func (g *c12) defaultSequences() {
	types := collidingTypes()
	// real request types whose short names the dynamic ones reuse
	types = append(types, (&traits.GetOnOffRequest{}).ProtoReflect().Descriptor(), (&traits.ListBookingsRequest{}).ProtoReflect().Descriptor())
	newMsg := func(d protoreflect.MessageDescriptor) protoreflect.Message {
		if mt, err := protoregistry.GlobalTypes.FindMessageByName(d.FullName()); err == nil && mt.Descriptor() == d {
			return mt.New()
		}
		return dynamicpb.NewMessage(d)
	}
	nseq, minLen, maxLen := 40, 6, 16
	if g.tier == "thorough" {
		nseq = 600
	}
	for s := 0; s < nseq; s++ {
		dflt := []string{"default-device", "srv/1", "d"}[g.r.Intn(3)]
		unary := name.IfAbsentUnaryInterceptor(dflt)
		stream := name.IfAbsentStreamInterceptor(dflt)
		var steps, obs []string
		var jsteps []any
		n := g.r.Range(minLen, maxLen)
		for i := 0; i < n; i++ {
			d := types[g.r.Intn(len(types))]
			m := newMsg(d)
			g.fill(m, 1)
			// string fields: mostly empty or set at random, so that "empty" occurs at every field
			for j := 0; j < d.Fields().Len(); j++ {
				fd := d.Fields().Get(j)
				if fd.Kind() == protoreflect.StringKind && !fd.IsList() {
					g.setStr(m, fd, 55)
				}
			}
			path := g.r.Intn(3)
			before, jb := render(m)
			js := map[string]any{"type": string(d.FullName()), "path": []string{"unary", "stream", "stream-recv-fails"}[path], "before": jb}
			func() {
				defer func() {
					if p := recover(); p != nil {
						g.direct("panic:default-name-sequence", fmt.Sprintf("interceptor panicked: %v", p), js)
					}
				}()
				switch path {
				case 0:
					unary(context.Background(), m.Interface(), &grpc.UnaryServerInfo{FullMethod: g.fullMethod()},
						func(ctx context.Context, r any) (any, error) { return nil, nil })
				default:
					ss := &recvStream{}
					if path == 2 {
						ss.err = errors.New("recv failed")
					}
					stream(nil, ss, &grpc.StreamServerInfo{FullMethod: g.fullMethod(), IsClientStream: g.r.Chance(30), IsServerStream: g.r.Chance(70)}, func(srv any, st grpc.ServerStream) error {
						st.RecvMsg(m.Interface()) // the fake leaves the message as the handler prepared it
						return nil
					})
				}
			}()
			after, ja := render(m)
			js["after"] = ja
			steps = append(steps, "("+vcoq.Int(path)+", "+coqType(d)+", "+before+")")
			obs = append(obs, after)
			jsteps = append(jsteps, js)
		}
		coq := vcoq.App("KDefaultSeq", coqStr(dflt), vcoq.List(steps), vcoq.List(obs))
		g.o.Add(vcoq.Case{Coq: coq, JSON: map[string]any{"kind": "default-name-sequence", "default": dflt, "steps": jsteps},
			Key: coq, NonTrivial: true, Tags: []string{"default-name", "default-name:sequence"}})
	}
}

// fieldStr: a non-empty content for a string field; a third are blank / padded / odd names.
func (g *c12) fieldStr() string {
	v := g.str() + "v"
	if g.r.Chance(35) {
		v = g.oddName()
	}
	g.o.Extra["name:sequence:"+nameClass(v)] = extraInt(g.o.Extra["name:sequence:"+nameClass(v)]) + 1
	return v
}

// sessStream delivers a scripted series of request messages on ONE server stream.
type sessStream struct {
	grpc.ServerStream
	plan []sessMsg
	i    int
}
type sessMsg struct {
	content proto.Message // merged into the handler's message when RecvMsg succeeds
	fail    bool
}

func (s *sessStream) Context() context.Context { return context.Background() }
func (s *sessStream) RecvMsg(m any) error {
	p := s.plan[s.i]
	s.i++
	if p.fail {
		return errors.New("recv failed")
	}
	proto.Merge(m.(proto.Message), p.content)
	return nil
}

// streamSessions: client-streaming / bidi handlers call RecvMsg several times on the stream the
// interceptor wrapped; every received message, not just the first, must get the default name.
func (g *c12) streamSessions() {
	types := collidingTypes()
	types = append(types, (&traits.GetOnOffRequest{}).ProtoReflect().Descriptor(), (&traits.ListBookingsRequest{}).ProtoReflect().Descriptor())
	newMsg := func(d protoreflect.MessageDescriptor) protoreflect.Message {
		if mt, err := protoregistry.GlobalTypes.FindMessageByName(d.FullName()); err == nil && mt.Descriptor() == d {
			return mt.New()
		}
		return dynamicpb.NewMessage(d)
	}
	nsess := 80
	if g.tier == "thorough" {
		nsess = 1200
	}
	for s := 0; s < nsess; s++ {
		dflt := []string{"default-device", "srv/1", "d"}[g.r.Intn(3)]
		n := g.r.Range(2, 5)
		sameType := g.r.Chance(50) // a real client stream carries one request type; mixed types stress the wrapper further
		d0 := types[g.r.Intn(len(types))]
		var plan []sessMsg
		var descs []protoreflect.MessageDescriptor
		for i := 0; i < n; i++ {
			d := d0
			if !sameType {
				d = types[g.r.Intn(len(types))]
			}
			m := newMsg(d)
			g.fill(m, 1)
			for j := 0; j < d.Fields().Len(); j++ {
				fd := d.Fields().Get(j)
				if fd.Kind() == protoreflect.StringKind && !fd.IsList() {
					g.setStr(m, fd, 60)
				}
			}
			plan = append(plan, sessMsg{content: m.Interface(), fail: i > 0 && g.r.Chance(15)})
			descs = append(descs, d)
		}
		ss := &sessStream{plan: plan}
		var rs, obs []string
		var jmsgs []any
		herr := name.IfAbsentStreamInterceptor(dflt)(nil, ss, &grpc.StreamServerInfo{FullMethod: g.fullMethod(), IsClientStream: g.r.Chance(70), IsServerStream: g.r.Chance(50)},
			func(srv any, st grpc.ServerStream) error {
				for i, p := range plan {
					target := newMsg(descs[i])
					if p.fail {
						// what the handler's message holds is its own business when RecvMsg fails: give it the
						// planned content (possibly an empty name) to see that it is left alone
						proto.Merge(target.Interface(), p.content)
					}
					before, jb := render(p.content.ProtoReflect())
					err := func() (err error) {
						defer func() {
							if r := recover(); r != nil {
								g.direct("panic:default-name-stream-session", fmt.Sprintf("RecvMsg panicked: %v", r), jb)
								err = errors.New("panic")
							}
						}()
						return st.RecvMsg(target.Interface())
					}()
					if (err != nil) != p.fail {
						g.direct("interceptor-not-transparent:stream-session", "the wrapped stream changed the RecvMsg error", jb)
					}
					after, ja := render(target)
					rs = append(rs, "("+vcoq.Bool(!p.fail)+", "+coqType(descs[i])+", "+before+")")
					obs = append(obs, after)
					jmsgs = append(jmsgs, map[string]any{"index": i, "type": string(descs[i].FullName()), "recv_ok": !p.fail, "sent": jb, "handler_saw": ja})
				}
				return nil
			})
		if herr != nil {
			g.direct("interceptor-not-transparent:stream-session", "stream interceptor changed the handler's result", nil)
		}
		coq := vcoq.App("KStreamSession", coqStr(dflt), vcoq.List(rs), vcoq.List(obs))
		g.o.Add(vcoq.Case{Coq: coq, JSON: map[string]any{"kind": "default-name-stream-session", "default": dflt, "messages": jmsgs},
			Key: coq, NonTrivial: true, Tags: []string{"default-name", "default-name:stream-session"}})
	}
}
