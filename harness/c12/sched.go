package main

import (
	"fmt"
	"time"

	"github.com/smart-core-os/sc-golang/internal/verifhook"
	"github.com/smart-core-os/sc-golang/pkg/router"
	"github.com/smart-core-os/sc-golang/verifharness/vcoq"
)

// A thread runs one call on the router.  The controller lets exactly one thread run at a time:
// a schedule entry starts the thread or resumes it from the yield point it is parked at, and
// waits until it parks again or finishes.  So the blocks between yield points execute atomically
// and in the order of the schedule, which is what RouterGet.v's steps are.
type thread struct {
	kind string // get | add | remove
	name string
	c    int

	started, done bool
	resume        chan struct{}
	resCoq        string
	resJS         any
	points        []string
}

func (t *thread) coq() string {
	switch t.kind {
	case "add":
		return vcoq.App("TAdd", coqStr(t.name), vcoq.Int(t.c))
	case "remove":
		return vcoq.App("TRemove", coqStr(t.name))
	}
	return vcoq.App("TGet", coqStr(t.name))
}
func (t *thread) maxSteps() int {
	if t.kind == "get" {
		return 3
	}
	return 1
}

// with the onChange callback parking on entry: one more step for every call that can commit
func (t *thread) maxStepsCb() int { return t.maxSteps() + 1 }

// cbHook, when set, is called by the harness's onChange callback before it records the change
// (on the goroutine of the call that committed the change, after router.go released its lock).
var cbHook func()

type schedCase struct {
	cfg  cfgT
	pre  []regOp
	ths  []*thread
	tag  string
	stat map[string]int
	cb   bool // callbacks are steps of the schedule (RouterCb.v, case KSchedCb)
}

func (g *c12) runSchedule(sc schedCase, sched []int) error {
	id := &ids{m: map[any]int{}}
	clients := map[int]any{0: nil}
	mk := func(i int) any {
		if c, ok := clients[i]; ok {
			return c
		}
		c := &tok{i}
		clients[i] = c
		id.m[c] = i
		return c
	}
	var log []change
	nfac := 0
	rt := router.NewRouter(routerOpts(sc.cfg, mk, &log, id, &nfac, g.r)...)
	var pre []string
	for _, o := range sc.pre {
		if o.kind == "add" {
			mk(o.c)
		}
		doReg(rt, o, clients, id)
		pre = append(pre, o.coq())
	}
	ths := make([]*thread, len(sc.ths))
	for i, t := range sc.ths {
		c := *t
		c.resume = make(chan struct{})
		ths[i] = &c
		if c.kind == "add" {
			mk(c.c)
		}
	}
	events := make(chan string)
	var cur *thread
	park := func(point string) {
		t := cur
		t.points = append(t.points, point)
		events <- "parked"
		<-t.resume
	}
	verifhook.Set(park)
	defer verifhook.Set(nil)
	if sc.cb {
		cbHook = func() { park("onChange") }
		defer func() { cbHook = nil }()
	}
	step := func(i int) error {
		if i < 0 || i >= len(ths) || ths[i].done {
			return nil // stutter
		}
		t := ths[i]
		cur = t
		if !t.started {
			t.started = true
			go func() {
				switch t.kind {
				case "get":
					c, err := rt.Get(t.name)
					t.resCoq, t.resJS = getRes(c, err, id)
				case "add":
					t.resCoq, t.resJS = doReg(rt, regOp{"add", t.name, t.c}, clients, id)
				case "remove":
					t.resCoq, t.resJS = doReg(rt, regOp{"remove", t.name, 0}, clients, id)
				}
				t.done = true
				events <- "done"
			}()
		} else {
			t.resume <- struct{}{}
		}
		select {
		case <-events:
			return nil
		case <-time.After(5 * time.Second):
			return fmt.Errorf("thread %d neither parked nor finished within 5s (schedule %v)", i, sched)
		}
	}
	executed := append([]int(nil), sched...)
	for _, i := range sched {
		if err := step(i); err != nil {
			return err
		}
	}
	for {
		progressed := false
		for i, t := range ths {
			if !t.done {
				if err := step(i); err != nil {
					return err
				}
				executed = append(executed, i)
				progressed = true
			}
		}
		if !progressed {
			break
		}
	}
	verifhook.Set(nil)
	cbHook = nil
	var obs, tk []string
	var jres []any
	for _, t := range ths {
		obs = append(obs, t.resCoq)
		tk = append(tk, t.coq())
		jres = append(jres, map[string]any{"thread": t.kind, "name": t.name, "client": t.c, "result": t.resJS, "parked_at": t.points})
	}
	names := map[string]bool{}
	var final []string
	jfinal := map[string]int{}
	for _, t := range ths {
		if names[t.name] {
			continue
		}
		names[t.name] = true
		c := 0
		if rt.Has(t.name) {
			v, err := rt.Get(t.name)
			if err != nil {
				c = -2
			} else {
				c = id.of(v)
			}
		}
		final = append(final, vcoq.Pair(coqStr(t.name), vcoq.Int(c)))
		jfinal[t.name] = c
	}
	ss := make([]string, len(executed))
	for i, v := range executed {
		ss[i] = vcoq.Nat(v)
	}
	ctor, kind, tagp := "KSched", "schedule", "schedule"
	if sc.cb {
		ctor, kind, tagp = "KSchedCb", "schedule-callbacks", "schedcb"
	}
	coq := vcoq.App(ctor, sc.cfg.coq(), vcoq.Int(sc.cfg.first), vcoq.List(pre), vcoq.List(tk), vcoq.List(ss),
		vcoq.List(obs), coqChanges(log), vcoq.List(final))
	gets := map[string]int{}
	nt := false
	for _, t := range ths {
		if t.kind == "get" {
			gets[t.name]++
			if gets[t.name] > 1 {
				nt = true
			}
		}
	}
	if sc.cb {
		// model-side classification for the histogram: were two commits reported out of order?
		nt = true
	}
	g.o.Add(vcoq.Case{Coq: coq, JSON: map[string]any{"kind": kind, "cfg": sc.cfg.js(), "pre": sc.pre, "threads": jres,
		"schedule": executed, "log": log, "final": jfinal}, Key: coq, NonTrivial: nt, Tags: []string{tagp, tagp + ":" + sc.tag}})
	return nil
}

// interleavings enumerates all sequences containing thread i exactly steps[i] times.
func interleavings(steps []int, f func([]int)) {
	total := 0
	for _, s := range steps {
		total += s
	}
	left := append([]int(nil), steps...)
	cur := make([]int, 0, total)
	var rec func()
	rec = func() {
		if len(cur) == total {
			f(append([]int(nil), cur...))
			return
		}
		for i := range left {
			if left[i] > 0 {
				left[i]--
				cur = append(cur, i)
				rec()
				cur = cur[:len(cur)-1]
				left[i]++
			}
		}
	}
	rec()
}

func (g *c12) schedules() {
	base := func(facOK bool, fb bool) cfgT {
		c := cfgT{fb: map[string]int{}, first: 1000}
		if facOK {
			c.facOK = []string{"n", "m"}
		}
		if fb {
			c.fb["n"] = 101
			c.fbL = []string{"n"}
		}
		return c
	}
	get := func(n string) *thread { return &thread{kind: "get", name: n} }
	cases := []schedCase{
		{cfg: base(true, false), ths: []*thread{get("n"), get("n")}, tag: "2get-factory"},
		{cfg: base(false, false), ths: []*thread{get("n"), get("n")}, tag: "2get-nofactory"},
		{cfg: base(true, true), ths: []*thread{get("n"), get("n")}, tag: "2get-fallback"},
		{cfg: base(true, false), ths: []*thread{get("n"), get("m")}, tag: "2get-two-names"},
		{cfg: base(true, false), pre: []regOp{{"add", "n", 1}}, ths: []*thread{get("n"), get("n")}, tag: "2get-registered"},
		{cfg: base(true, false), ths: []*thread{get("n"), get("n"), {kind: "add", name: "n", c: 7}}, tag: "2get+add"},
		{cfg: base(true, false), ths: []*thread{get("n"), get("n"), {kind: "remove", name: "n"}}, tag: "2get+remove"},
		{cfg: base(true, false), pre: []regOp{{"add", "n", 1}}, ths: []*thread{get("n"), {kind: "remove", name: "n"}, get("n")}, tag: "get+remove+get-registered"},
		{cfg: base(true, false), ths: []*thread{get("n"), get("n"), get("n")}, tag: "3get-factory"},
	}
	if g.tier == "thorough" {
		cases = append(cases,
			schedCase{cfg: base(false, false), ths: []*thread{get("n"), get("n"), get("n")}, tag: "3get-nofactory"},
			schedCase{cfg: base(true, false), ths: []*thread{get("n"), get("n"), get("m")}, tag: "3get-two-names"},
			schedCase{cfg: base(true, false), ths: []*thread{get("n"), get("n"), get("n"), {kind: "remove", name: "n"}}, tag: "3get+remove"},
		)
	}
	for _, sc := range cases {
		steps := make([]int, len(sc.ths))
		for i, t := range sc.ths {
			steps[i] = t.maxSteps()
		}
		var failed error
		interleavings(steps, func(s []int) {
			if failed != nil {
				return
			}
			failed = g.runSchedule(sc, s)
		})
		if failed != nil {
			g.direct("schedule-stuck", failed.Error(), map[string]any{"case": sc.tag})
		}
	}
	g.cbSchedules()
	g.schedulesW()
	// random schedules of 3-5 threads of random kinds over two names
	n := 300
	if g.tier == "thorough" {
		n = 6000
	}
	for i := 0; i < n; i++ {
		k := g.r.Range(3, 4)
		if g.tier == "thorough" {
			k = g.r.Range(3, 5)
		}
		sc := schedCase{cfg: base(g.r.Chance(80), g.r.Chance(10)), tag: "random"}
		if g.r.Chance(30) {
			sc.pre = []regOp{{"add", "n", 1}}
		}
		var steps []int
		for j := 0; j < k; j++ {
			name := "n"
			if g.r.Chance(20) {
				name = "m"
			}
			switch g.r.Intn(5) {
			case 0:
				sc.ths = append(sc.ths, &thread{kind: "add", name: name, c: 10 + j})
			case 1:
				sc.ths = append(sc.ths, &thread{kind: "remove", name: name})
			default:
				sc.ths = append(sc.ths, get(name))
			}
			steps = append(steps, sc.ths[j].maxSteps())
		}
		// a random interleaving (possibly incomplete; the controller finishes the rest in order)
		var s []int
		left := append([]int(nil), steps...)
		for len(s) < 12 {
			j := g.r.Intn(k)
			if left[j] > 0 {
				left[j]--
				s = append(s, j)
			} else if g.r.Chance(30) {
				break
			}
		}
		if err := g.runSchedule(sc, s); err != nil {
			g.direct("schedule-stuck", err.Error(), map[string]any{"case": "random"})
			break
		}
	}
}

// cbSchedules: the onChange callback parks on entry, so a schedule also decides when each
// callback is delivered relative to other calls' blocks and callbacks (RouterCb.v).
func (g *c12) cbSchedules() {
	base := func(facOK bool) cfgT {
		c := cfgT{fb: map[string]int{}, first: 1000}
		if facOK {
			c.facOK = []string{"n", "m"}
		}
		return c
	}
	get := func(n string) *thread { return &thread{kind: "get", name: n} }
	add := func(n string, c int) *thread { return &thread{kind: "add", name: n, c: c} }
	rem := func(n string) *thread { return &thread{kind: "remove", name: n} }
	one := []regOp{{"add", "n", 1}}
	cases := []schedCase{
		{cfg: base(false), ths: []*thread{add("n", 1), add("n", 2)}, tag: "add+add"},
		{cfg: base(false), ths: []*thread{add("n", 1), add("m", 2)}, tag: "add+add-two-names"},
		{cfg: base(false), ths: []*thread{add("n", 5), add("n", 5)}, tag: "add+add-same-client"},
		{cfg: base(false), ths: []*thread{add("n", 1), rem("n")}, tag: "add+remove"},
		{cfg: base(false), pre: one, ths: []*thread{add("n", 2), rem("n")}, tag: "add+remove-registered"},
		{cfg: base(false), pre: one, ths: []*thread{rem("n"), rem("n")}, tag: "remove+remove-registered"},
		{cfg: base(true), ths: []*thread{get("n"), add("n", 7)}, tag: "get+add"},
		{cfg: base(true), ths: []*thread{get("n"), rem("n")}, tag: "get+remove"},
		{cfg: base(true), ths: []*thread{get("n"), get("n")}, tag: "2get-factory"},
		{cfg: base(false), ths: []*thread{add("n", 1), add("n", 2), add("n", 3)}, tag: "3add"},
		{cfg: base(false), ths: []*thread{add("n", 1), rem("n"), add("n", 2)}, tag: "add+remove+add"},
	}
	if g.tier == "thorough" {
		cases = append(cases,
			schedCase{cfg: base(true), ths: []*thread{get("n"), get("n"), rem("n")}, tag: "2get+remove"},
			schedCase{cfg: base(true), ths: []*thread{get("n"), add("n", 7), rem("n")}, tag: "get+add+remove"},
		)
	}
	for _, sc := range cases {
		sc.cb = true
		steps := make([]int, len(sc.ths))
		for i, t := range sc.ths {
			steps[i] = t.maxStepsCb()
		}
		var failed error
		interleavings(steps, func(s []int) {
			if failed != nil {
				return
			}
			failed = g.runSchedule(sc, s)
		})
		if failed != nil {
			g.direct("schedule-stuck", failed.Error(), map[string]any{"case": "cb:" + sc.tag})
		}
	}
	n := 200
	if g.tier == "thorough" {
		n = 4000
	}
	for i := 0; i < n; i++ {
		k := g.r.Range(2, 4)
		sc := schedCase{cfg: base(g.r.Chance(70)), tag: "random", cb: true}
		if g.r.Chance(30) {
			sc.pre = one
		}
		var steps []int
		for j := 0; j < k; j++ {
			name := "n"
			if g.r.Chance(20) {
				name = "m"
			}
			switch g.r.Intn(5) {
			case 0, 1:
				sc.ths = append(sc.ths, add(name, 10+j))
			case 2:
				sc.ths = append(sc.ths, rem(name))
			default:
				sc.ths = append(sc.ths, get(name))
			}
			steps = append(steps, sc.ths[j].maxStepsCb())
		}
		var s []int
		left := append([]int(nil), steps...)
		for len(s) < 14 {
			j := g.r.Intn(k)
			if left[j] > 0 {
				left[j]--
				s = append(s, j)
			} else if g.r.Chance(30) {
				break
			}
		}
		if err := g.runSchedule(sc, s); err != nil {
			g.direct("schedule-stuck", err.Error(), map[string]any{"case": "cb:random"})
			break
		}
	}
}
