package main

// gen_routers: generated routers (api_router.pb.go).  Clients are added, replaced, removed, looked up and
// created by factories while unary calls and Pull streams are routed through the router, reached through
// its wrapped client (router + wrap), through a nested router and (onoffpb, lightpb) through a trait group.

import (
	"errors"
	"reflect"
	"strings"

	"github.com/smart-core-os/sc-api/go/traits"
	"github.com/smart-core-os/sc-golang/pkg/group"
	"github.com/smart-core-os/sc-golang/pkg/router"
	"github.com/smart-core-os/sc-golang/pkg/trait/electricpb"
	"github.com/smart-core-os/sc-golang/pkg/trait/lightpb"
	"github.com/smart-core-os/sc-golang/pkg/trait/metadatapb"
	"github.com/smart-core-os/sc-golang/pkg/trait/onoffpb"
	"github.com/smart-core-os/sc-golang/pkg/trait/parentpb"
)

func init() {
	workloads["gen_routers"] = wGenRouters
}

type routerKit struct {
	pkg       string
	newRouter func(opts ...router.Option) (rt router.Router, wrapped any)
	newLeaf   func() (client any, model any)
	// optional
	typedFactory func(f func(name string) (any, error)) router.Option
	newGroup     func(impl any, read, write group.ExecutionStrategy, members ...string) any // the wrapped client of a group over impl
}

var routerKits = []routerKit{
	{
		pkg: "onoffpb",
		newRouter: func(opts ...router.Option) (router.Router, any) {
			r := onoffpb.NewApiRouter(opts...)
			return r, onoffpb.WrapApi(r)
		},
		newLeaf: func() (any, any) {
			m := onoffpb.NewModel()
			return onoffpb.WrapApi(onoffpb.NewModelServer(m)), m
		},
		typedFactory: func(f func(name string) (any, error)) router.Option {
			return onoffpb.WithOnOffApiClientFactory(func(name string) (traits.OnOffApiClient, error) {
				c, err := f(name)
				if err != nil || c == nil {
					return nil, err
				}
				return c.(traits.OnOffApiClient), nil
			})
		},
		newGroup: func(impl any, read, write group.ExecutionStrategy, members ...string) any {
			g := onoffpb.NewGroup(impl.(traits.OnOffApiClient), members...)
			g.ReadExecution, g.WriteExecution = read, write
			return onoffpb.WrapApi(g)
		},
	},
	{
		pkg: "lightpb",
		newRouter: func(opts ...router.Option) (router.Router, any) {
			r := lightpb.NewApiRouter(opts...)
			return r, lightpb.WrapApi(r)
		},
		newLeaf: func() (any, any) {
			m := lightpb.NewModel()
			return lightpb.WrapApi(lightpb.NewModelServer(m)), m
		},
		typedFactory: func(f func(name string) (any, error)) router.Option {
			return lightpb.WithLightApiClientFactory(func(name string) (traits.LightApiClient, error) {
				c, err := f(name)
				if err != nil || c == nil {
					return nil, err
				}
				return c.(traits.LightApiClient), nil
			})
		},
		newGroup: func(impl any, read, write group.ExecutionStrategy, members ...string) any {
			g := lightpb.NewGroup(impl.(traits.LightApiClient), members...)
			g.ReadExecution, g.WriteExecution = read, write
			return lightpb.WrapApi(g)
		},
	},
	{
		pkg: "parentpb",
		newRouter: func(opts ...router.Option) (router.Router, any) {
			r := parentpb.NewApiRouter(opts...)
			return r, parentpb.WrapApi(r)
		},
		newLeaf: func() (any, any) {
			m := parentpb.NewModel()
			return parentpb.WrapApi(parentpb.NewModelServer(m)), m
		},
	},
	{
		pkg: "metadatapb",
		newRouter: func(opts ...router.Option) (router.Router, any) {
			r := metadatapb.NewApiRouter(opts...)
			return r, metadatapb.WrapApi(r)
		},
		newLeaf: func() (any, any) {
			m := metadatapb.NewModel()
			return metadatapb.WrapApi(metadatapb.NewModelServer(m)), m
		},
	},
	{
		pkg: "electricpb",
		newRouter: func(opts ...router.Option) (router.Router, any) {
			r := electricpb.NewApiRouter(opts...)
			return r, electricpb.WrapApi(r)
		},
		newLeaf: func() (any, any) {
			m := electricpb.NewModel()
			return electricpb.WrapApi(electricpb.NewModelServer(m)), m
		},
	},
}

// readClient reads a client the router hands out or reports.
func readClient(c any) {
	if c == nil {
		return
	}
	if u, ok := c.(interface{ Unwrap() any }); ok {
		_ = u.Unwrap()
	}
}

// routerRig is what one round builds for one kit.  Immutable once the goroutines run.
type routerRig struct {
	kit    routerKit
	rt     router.Router // level 1
	rt2    router.Router // level 2, reached through rt under "n2"
	w2     any           // the wrapped client of rt2
	wg     any           // the wrapped client of the group, or nil
	leaves []any
	tg     *target
	tgG    *target // the group called through its own wrapped client, or nil
	// typed methods of the generated router, found by name
	addTyped, removeTyped, getTyped reflect.Value
}

var groupStrategies = []group.ExecutionStrategy{group.ExecutionStrategyAll, group.ExecutionStrategyAll, group.ExecutionStrategyMost,
	group.ExecutionStrategyAny, group.ExecutionStrategyOne, group.ExecutionStrategyFast, group.ExecutionStrategyRace}

var routerNames = []string{"n1", "n2", "n3", "x1", "fb", "g", "auto1", "auto2"}

func newRouterRig(rd *round, r0 *rnd, kit routerKit) *routerRig {
	rig := &routerRig{kit: kit}
	fallbackLeaf, _ := kit.newLeaf()
	mkOpts := func(level string) []router.Option {
		var opts []router.Option
		if r0.chance(75) {
			f := func(name string) (any, error) {
				if strings.HasPrefix(name, "x") {
					return nil, errors.New("no such device")
				}
				if !strings.HasPrefix(name, "auto") && !strings.HasPrefix(name, "n") {
					return nil, nil
				}
				c, _ := kit.newLeaf()
				rd.st.op("routers." + kit.pkg + ".factory" + level)
				return c, nil
			}
			if kit.typedFactory != nil && r0.chance(50) {
				opts = append(opts, kit.typedFactory(f))
			} else {
				opts = append(opts, router.WithFactory(f))
			}
		}
		if r0.chance(50) {
			opts = append(opts, router.WithFallback(func(name string) (any, error) {
				if name == "fb" {
					return fallbackLeaf, nil
				}
				return nil, nil
			}))
		}
		if r0.chance(75) {
			opts = append(opts, router.WithOnChange(func(c router.Change) {
				readClient(c.Old)
				readClient(c.New)
				if len(c.Name) > 0 && c.Auto {
					rd.st.op("routers." + kit.pkg + ".onchange.auto" + level)
				} else {
					rd.st.op("routers." + kit.pkg + ".onchange" + level)
				}
			}))
		}
		return opts
	}
	var w1 any
	rig.rt, w1 = kit.newRouter(mkOpts("")...)
	rig.rt2, rig.w2 = kit.newRouter(mkOpts(".l2")...)
	rig.tg = newTarget(kit.pkg, routerNames...)
	rig.tg.kp = "routers." + kit.pkg
	for i := 0; i < 3; i++ {
		c, m := kit.newLeaf()
		rig.leaves = append(rig.leaves, c)
		if i == 0 {
			rig.tg.addModel(m) // the model behind "n1" (until replaced) is also written to directly
		}
	}
	rig.rt.Add("n1", rig.leaves[0])
	rig.rt.Add("n3", rig.leaves[2])
	rig.rt.Add("n2", rig.w2)
	rig.rt2.Add("n2", rig.leaves[1])
	if kit.newGroup != nil {
		// the members never resolve to the group itself: "g" is not a member, and rt2 only holds leaves
		rig.wg = kit.newGroup(w1, groupStrategies[r0.intn(len(groupStrategies))], groupStrategies[r0.intn(len(groupStrategies))], "n1", "n2", "n3")
		rig.rt.Add("g", rig.wg)
		rig.tgG = newTarget(kit.pkg, "g")
		rig.tgG.kp = "routers." + kit.pkg + ".group"
		rig.tgG.addClient(rig.wg)
	}
	rig.tg.addClient(w1)
	v := reflect.ValueOf(rig.rt)
	for i := 0; i < v.NumMethod(); i++ {
		n := v.Type().Method(i).Name
		if !strings.HasSuffix(n, "Client") {
			continue
		}
		switch {
		case strings.HasPrefix(n, "Add"):
			rig.addTyped = v.Method(i)
		case strings.HasPrefix(n, "Remove"):
			rig.removeTyped = v.Method(i)
		case strings.HasPrefix(n, "Get"):
			rig.getTyped = v.Method(i)
		}
	}
	return rig
}

// clientFor picks a client that may be stored under name in the level 1 router without creating a cycle.
func (rig *routerRig) clientFor(r *rnd, name string) any {
	switch {
	case name == "g" && rig.wg != nil:
		return rig.wg
	case name == "n2" && r.chance(60):
		return rig.w2
	case r.chance(15):
		c, _ := rig.kit.newLeaf()
		return c
	}
	return rig.leaves[r.intn(len(rig.leaves))]
}

func (rig *routerRig) manage(rd *round, r *rnd) {
	defer rig.tg.recovered(rd)
	kp := "routers." + rig.kit.pkg
	name := r.pick(routerNames)
	if r.chance(20) {
		// the nested router only ever holds leaves
		switch r.intn(3) {
		case 0:
			readClient(rig.rt2.Add(name, rig.leaves[r.intn(len(rig.leaves))]))
			rd.st.op(kp + ".l2.Add")
		case 1:
			readClient(rig.rt2.Remove(name))
			rd.st.op(kp + ".l2.Remove")
		default:
			c, err := rig.rt2.Get(name)
			if err == nil {
				readClient(c)
			}
			rd.st.op(kp + ".l2.Get")
		}
		return
	}
	switch r.intn(9) {
	case 0:
		readClient(rig.rt.Add(name, rig.clientFor(r, name)))
		rd.st.op(kp + ".Add")
	case 1:
		outs := rig.addTyped.Call([]reflect.Value{reflect.ValueOf(name), reflect.ValueOf(rig.clientFor(r, name))})
		if !outs[0].IsNil() {
			readClient(outs[0].Interface())
		}
		rd.st.op(kp + ".AddTyped")
	case 2:
		readClient(rig.rt.Remove(name))
		rd.st.op(kp + ".Remove")
	case 3:
		outs := rig.removeTyped.Call([]reflect.Value{reflect.ValueOf(name)})
		if !outs[0].IsNil() {
			readClient(outs[0].Interface())
		}
		rd.st.op(kp + ".RemoveTyped")
	case 4:
		_ = rig.rt.Has(name)
		_ = rig.rt.HoldsType(rig.leaves[0])
		_ = rig.rt.HoldsType(rig)
		rd.st.op(kp + ".Has")
	case 5, 6:
		c, err := rig.rt.Get(name)
		if err == nil {
			readClient(c)
		}
		rd.st.op(kp + ".Get")
	case 7:
		outs := rig.getTyped.Call([]reflect.Value{reflect.ValueOf(name)})
		if outs[1].IsNil() && !outs[0].IsNil() {
			readClient(outs[0].Interface())
		}
		rd.st.op(kp + ".GetTyped")
	default:
		// Add panics for a client of the wrong type
		func() {
			defer func() { _ = recover() }()
			rig.rt.Add(name, rig)
		}()
		rd.st.op(kp + ".AddWrongType")
	}
}

func wGenRouters(rd *round, seed uint64, g int) {
	r0 := newRnd(seed)
	n := 2 + r0.intn(2)
	start := r0.intn(len(routerKits))
	var rigs []*routerRig
	for i := 0; i < n; i++ {
		rigs = append(rigs, newRouterRig(rd, r0, routerKits[(start+i)%len(routerKits)]))
	}
	rd.spawn(seed, g, func(gid int, r *rnd) {
		rig := rigs[r.intn(len(rigs))]
		if r.chance(25) {
			rig.manage(rd, r)
			return
		}
		tg := rig.tg
		if rig.tgG != nil && r.chance(20) {
			tg = rig.tgG // group -> wrapped router -> router -> (nested router ->) wrapped model server
			if r.chance(40) {
				tg.callStream(rd, r)
			} else {
				tg.callUnary(rd, r)
			}
			return
		}
		// mostly routed calls; the model behind "n1" is written to directly now and then
		switch k := r.intn(10); {
		case k < 2:
			tg.callModel(rd, r)
		case k < 5:
			tg.callStream(rd, r)
		default:
			tg.callUnary(rd, r)
		}
	})
}
