package main

// wrap_reuse: callers that OWN their messages and keep using them, as a retry loop or a pooled request
// does.  A message handed to a wrapped client (the request and the reply of a unary call, what SendMsg is
// given, what RecvMsg fills) belongs to the caller again as soon as the call has returned; a message a
// handler passes to Send is the handler's again when Send has returned.  The other side runs in another
// goroutine and outlives the call whenever the call's context ends first (deadline, cancel), so nothing
// but a private copy made at the hand-over keeps it away from the caller's next write.
//
// Every caller goroutine owns ONE request and ONE reply object per method shape for the whole round and
//   - writes them before each call, makes the call on a context that ends BEFORE the handler replies
//     (deadline shorter than the handler's hold, cancel from a timer goroutine, cancel before the call),
//     or lets the call complete,
//   - writes request and reply again immediately after the call returned, while the handler of the
//     abandoned call is still running (it holds until its context ends and reads its request again).
// Stream handlers reuse one response object over all their Send calls.  The program shares nothing between
// its goroutines but the wrapped client: each message here has exactly one owner.

import (
	"context"
	"io"
	"strings"
	"time"

	"github.com/smart-core-os/sc-golang/internal/testproto"
	"github.com/smart-core-os/sc-golang/pkg/wrap"
	"google.golang.org/grpc"
)

func init() {
	workloads["wrap_reuse"] = wWrapReuse
}

// flags in SimulateError:  w hold until the call's context has ended (at most 3 ms)   e return an error
type reuseServer struct {
	testproto.UnimplementedTestApiServer
}

func hold(ctx context.Context, flags string) {
	if !strings.Contains(flags, "w") {
		return
	}
	t := time.NewTimer(3 * time.Millisecond)
	defer t.Stop()
	select {
	case <-ctx.Done():
	case <-t.C:
	}
}

func (s *reuseServer) Unary(ctx context.Context, req *testproto.UnaryRequest) (*testproto.UnaryResponse, error) {
	touch(req)
	flags := req.SimulateError
	hold(ctx, flags)
	touch(req) // the handler's request is its own for as long as it runs
	if err := flagErr(flags); err != nil {
		return nil, err
	}
	return &testproto.UnaryResponse{Msg: req.Msg}, nil
}

func (s *reuseServer) ServerStream(req *testproto.ServerStreamRequest, stream grpc.ServerStreamingServer[testproto.ServerStreamResponse]) error {
	touch(req)
	flags := req.SimulateError
	resp := &testproto.ServerStreamResponse{} // one object for every Send
	for i := int32(0); i < req.NumRes; i++ {
		resp.Counter = i
		if err := stream.Send(resp); err != nil {
			resp.Counter = -1
			return err
		}
		resp.Counter = -2 // Send has returned: the message is the handler's again
	}
	hold(stream.Context(), flags)
	touch(req)
	return flagErr(flags)
}

func (s *reuseServer) ClientStream(stream grpc.ClientStreamingServer[testproto.ClientStreamRequest, testproto.ClientStreamResponse]) error {
	n, flags := 0, ""
	req := &testproto.ClientStreamRequest{} // one object for every Recv
	for {
		req.Reset()
		err := stream.RecvMsg(req)
		if err == io.EOF {
			break
		}
		if err != nil {
			return err
		}
		touch(req)
		flags = req.SimulateError
		n++
	}
	hold(stream.Context(), flags)
	if err := flagErr(flags); err != nil {
		return err
	}
	resp := &testproto.ClientStreamResponse{Msg: strings.Repeat("x", n)}
	err := stream.SendAndClose(resp)
	resp.Msg = "" // sent: the handler's again
	return err
}

func (s *reuseServer) BidiStream(stream grpc.BidiStreamingServer[testproto.BidiStreamRequest, testproto.BidiStreamResponse]) error {
	req := &testproto.BidiStreamRequest{}
	resp := &testproto.BidiStreamResponse{}
	for {
		req.Reset()
		err := stream.RecvMsg(req)
		if err == io.EOF {
			return nil
		}
		if err != nil {
			return err
		}
		touch(req)
		hold(stream.Context(), req.SimulateError)
		resp.Msg = req.Msg
		if err := stream.Send(resp); err != nil {
			resp.Msg = "failed"
			return err
		}
		resp.Msg = "sent"
	}
}

// endsEarly returns a context for one call and its cancel function.  kind:
//
//	0 a deadline shorter than the handler's hold     1 cancelled by a timer goroutine during the call
//	2 cancelled before the call starts               3 lives until the call is over
func endsEarly(rd *round, r *rnd) (ctx context.Context, cancel func(), kind int) {
	kind = r.intn(4)
	switch kind {
	case 0:
		ctx, cancel = context.WithTimeout(rd.ctx, time.Duration(20+r.intn(600))*time.Microsecond)
	case 1:
		c, cc := context.WithCancel(rd.ctx)
		t := time.AfterFunc(time.Duration(r.intn(500))*time.Microsecond, cc)
		ctx, cancel = c, func() { t.Stop(); cc() }
	case 2:
		c, cc := context.WithCancel(rd.ctx)
		cc()
		ctx, cancel = c, cc
	default:
		ctx, cancel = context.WithCancel(rd.ctx)
	}
	return
}

func reuseFlags(r *rnd, kind int) string {
	f := ""
	if kind != 3 || r.chance(30) {
		f += "w" // the handler is still busy when the context ends
	}
	if r.chance(15) {
		f += "e"
	}
	return f
}

func wWrapReuse(rd *round, seed uint64, g int) {
	conn := wrap.ServerToClient(testproto.TestApi_ServiceDesc, &reuseServer{})
	desc := &testproto.TestApi_ServiceDesc
	rd.spawn(seed, g, func(gid int, r *rnd) {
		// this goroutine's messages, reused for every call it makes in this step
		uReq, uRes := &testproto.UnaryRequest{}, &testproto.UnaryResponse{}
		sReq, sRes := &testproto.ServerStreamRequest{}, &testproto.ServerStreamResponse{}
		cReq, cRes := &testproto.ClientStreamRequest{}, &testproto.ClientStreamResponse{}
		bReq, bRes := &testproto.BidiStreamRequest{}, &testproto.BidiStreamResponse{}
		for attempt := 0; attempt < 6 && rd.ctx.Err() == nil; attempt++ {
			ctx, cancel, kind := endsEarly(rd, r)
			flags := reuseFlags(r, kind)
			switch r.intn(6) {
			case 0, 1, 2:
				// the retry loop: same request, same reply, next attempt straight after the last one returned
				uReq.Msg, uReq.SimulateError = strings.Repeat("r", 1+attempt), flags
				uRes.Msg = "stale"
				err := conn.Invoke(ctx, testproto.TestApi_Unary_FullMethodName, uReq, uRes)
				uReq.Msg, uReq.SimulateError = "next", "" // the call is over: both messages are the caller's
				uRes.Msg = ""
				if err == nil {
					rd.st.op("wrapreuse.unary.done")
				} else {
					rd.st.op("wrapreuse.unary.abandoned")
				}
			case 3:
				sReq.NumRes, sReq.SimulateError = int32(r.intn(4)), flags
				cs, err := conn.NewStream(ctx, &desc.Streams[0], testproto.TestApi_ServerStream_FullMethodName)
				if err != nil {
					break
				}
				err = cs.SendMsg(sReq)
				sReq.NumRes, sReq.SimulateError = 99, "changed" // SendMsg has returned
				if err == nil {
					_ = cs.CloseSend()
					for {
						sRes.Counter = -1
						if cs.RecvMsg(sRes) != nil {
							break
						}
						sRes.Counter++ // filled: the caller's
					}
				}
				rd.st.op("wrapreuse.server")
			case 4:
				cs, err := conn.NewStream(ctx, &desc.Streams[1], testproto.TestApi_ClientStream_FullMethodName)
				if err != nil {
					break
				}
				n := r.intn(4)
				for i := 0; i < n; i++ {
					cReq.Msg, cReq.SimulateError = "c", flags
					err := cs.SendMsg(cReq)
					cReq.Msg, cReq.SimulateError = "after", "x"
					if err != nil {
						break
					}
				}
				_ = cs.CloseSend()
				cRes.Msg = "stale"
				_ = cs.RecvMsg(cRes)
				cRes.Msg = ""
				rd.st.op("wrapreuse.client")
			default:
				cs, err := conn.NewStream(ctx, &desc.Streams[2], testproto.TestApi_BidiStream_FullMethodName)
				if err != nil {
					break
				}
				n := r.intn(4)
				for i := 0; i < n; i++ {
					bReq.Msg, bReq.SimulateError = "b", flags
					err := cs.SendMsg(bReq)
					bReq.Msg = "after"
					if err != nil {
						break
					}
					bRes.Msg = "stale"
					if cs.RecvMsg(bRes) != nil {
						break
					}
					bRes.Msg = ""
				}
				_ = cs.CloseSend()
				rd.st.op("wrapreuse.bidi")
			}
			cancel()
		}
	})
}
