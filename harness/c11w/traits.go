package main

// traits_a / traits_b: every trait package that has a model (or a memory device) is driven concurrently,
// through the model's own exported methods and through the wrapped client of its gRPC server.

import (
	"github.com/smart-core-os/sc-api/go/traits"
	"github.com/smart-core-os/sc-api/go/types"
	"github.com/smart-core-os/sc-golang/pkg/resource"
	"github.com/smart-core-os/sc-golang/pkg/trait/accesspb"
	"github.com/smart-core-os/sc-golang/pkg/trait/airqualitysensorpb"
	"github.com/smart-core-os/sc-golang/pkg/trait/airtemperaturepb"
	"github.com/smart-core-os/sc-golang/pkg/trait/bookingpb"
	"github.com/smart-core-os/sc-golang/pkg/trait/brightnesssensorpb"
	"github.com/smart-core-os/sc-golang/pkg/trait/channelpb"
	"github.com/smart-core-os/sc-golang/pkg/trait/colorpb"
	"github.com/smart-core-os/sc-golang/pkg/trait/countpb"
	"github.com/smart-core-os/sc-golang/pkg/trait/electricpb"
	"github.com/smart-core-os/sc-golang/pkg/trait/emergencypb"
	"github.com/smart-core-os/sc-golang/pkg/trait/energystoragepb"
	"github.com/smart-core-os/sc-golang/pkg/trait/enterleavesensorpb"
	"github.com/smart-core-os/sc-golang/pkg/trait/extendretractpb"
	"github.com/smart-core-os/sc-golang/pkg/trait/fanspeedpb"
	"github.com/smart-core-os/sc-golang/pkg/trait/hailpb"
	"github.com/smart-core-os/sc-golang/pkg/trait/inputselectpb"
	"github.com/smart-core-os/sc-golang/pkg/trait/lightpb"
	"github.com/smart-core-os/sc-golang/pkg/trait/lockunlockpb"
	"github.com/smart-core-os/sc-golang/pkg/trait/metadatapb"
	"github.com/smart-core-os/sc-golang/pkg/trait/meterpb"
	"github.com/smart-core-os/sc-golang/pkg/trait/microphonepb"
	"github.com/smart-core-os/sc-golang/pkg/trait/modepb"
	"github.com/smart-core-os/sc-golang/pkg/trait/motionsensorpb"
	"github.com/smart-core-os/sc-golang/pkg/trait/occupancysensorpb"
	"github.com/smart-core-os/sc-golang/pkg/trait/onoffpb"
	"github.com/smart-core-os/sc-golang/pkg/trait/openclosepb"
	"github.com/smart-core-os/sc-golang/pkg/trait/parentpb"
	"github.com/smart-core-os/sc-golang/pkg/trait/presspb"
	"github.com/smart-core-os/sc-golang/pkg/trait/ptzpb"
	"github.com/smart-core-os/sc-golang/pkg/trait/publicationpb"
	"github.com/smart-core-os/sc-golang/pkg/trait/speakerpb"
	"github.com/smart-core-os/sc-golang/pkg/trait/temperaturepb"
	"github.com/smart-core-os/sc-golang/pkg/trait/vendingpb"
	"github.com/smart-core-os/sc-golang/pkg/trait/wastepb"
)

func init() {
	workloads["traits_a"] = func(rd *round, seed uint64, g int) { wTraits(rd, seed, g, 0) }
	workloads["traits_b"] = func(rd *round, seed uint64, g int) { wTraits(rd, seed, g, 1) }
}

// traitEntry makes fresh objects of one package: the model (nil if the package only has a memory device or
// no implementation at all) and the wrapped clients of the server built from it.
type traitEntry struct {
	pkg string
	mk  func(r *rnd) (model any, clients []any)
}

var traitRegistry = [2][]traitEntry{
	{
		{"accesspb", func(r *rnd) (any, []any) {
			m := accesspb.NewModel()
			return m, []any{accesspb.WrapApi(accesspb.NewModelServer(m))}
		}},
		{"airqualitysensorpb", func(r *rnd) (any, []any) {
			m := airqualitysensorpb.NewModel()
			return m, []any{airqualitysensorpb.WrapApi(airqualitysensorpb.NewModelServer(m))}
		}},
		{"airtemperaturepb", func(r *rnd) (any, []any) {
			m := airtemperaturepb.NewModel()
			return m, []any{airtemperaturepb.WrapApi(airtemperaturepb.NewModelServer(m))}
		}},
		{"airtemperaturepb.memory", func(r *rnd) (any, []any) {
			return nil, []any{airtemperaturepb.WrapApi(airtemperaturepb.NewMemoryDevice())}
		}},
		{"bookingpb", func(r *rnd) (any, []any) {
			m := bookingpb.NewModel()
			return m, []any{bookingpb.WrapApi(bookingpb.NewModelServer(m))}
		}},
		{"countpb", func(r *rnd) (any, []any) {
			return nil, []any{countpb.WrapApi(countpb.NewMemoryDevice())}
		}},
		{"electricpb", func(r *rnd) (any, []any) {
			m := electricpb.NewModel()
			s := electricpb.NewModelServer(m)
			return m, []any{electricpb.WrapApi(s), electricpb.WrapMemorySettingsApi(s)}
		}},
		{"emergencypb", func(r *rnd) (any, []any) {
			return nil, []any{emergencypb.WrapApi(emergencypb.NewMemoryDevice())}
		}},
		{"energystoragepb", func(r *rnd) (any, []any) {
			m := energystoragepb.NewModel()
			return m, []any{energystoragepb.WrapApi(energystoragepb.NewModelServer(m))}
		}},
		{"enterleavesensorpb", func(r *rnd) (any, []any) {
			m := enterleavesensorpb.NewModel()
			return m, []any{enterleavesensorpb.WrapApi(enterleavesensorpb.NewModelServer(m))}
		}},
		{"fanspeedpb", func(r *rnd) (any, []any) {
			m := fanspeedpb.NewModel()
			return m, []any{fanspeedpb.WrapApi(fanspeedpb.NewModelServer(m))}
		}},
		{"hailpb", func(r *rnd) (any, []any) {
			m := hailpb.NewModel()
			return m, []any{hailpb.WrapApi(hailpb.NewModelServer(m))}
		}},
		// packages that only have generated wrappers: the wrapped client of an unimplemented server
		{"brightnesssensorpb", func(r *rnd) (any, []any) {
			return nil, []any{brightnesssensorpb.WrapApi(traits.UnimplementedBrightnessSensorApiServer{}), brightnesssensorpb.WrapInfo(traits.UnimplementedBrightnessSensorInfoServer{})}
		}},
		{"channelpb", func(r *rnd) (any, []any) {
			return nil, []any{channelpb.WrapApi(traits.UnimplementedChannelApiServer{}), channelpb.WrapInfo(traits.UnimplementedChannelInfoServer{})}
		}},
		{"colorpb", func(r *rnd) (any, []any) {
			return nil, []any{colorpb.WrapApi(traits.UnimplementedColorApiServer{}), colorpb.WrapInfo(traits.UnimplementedColorInfoServer{})}
		}},
		{"extendretractpb", func(r *rnd) (any, []any) {
			return nil, []any{extendretractpb.WrapApi(traits.UnimplementedExtendRetractApiServer{}), extendretractpb.WrapInfo(traits.UnimplementedExtendRetractInfoServer{})}
		}},
		{"inputselectpb", func(r *rnd) (any, []any) {
			return nil, []any{inputselectpb.WrapApi(traits.UnimplementedInputSelectApiServer{}), inputselectpb.WrapInfo(traits.UnimplementedInputSelectInfoServer{})}
		}},
	},
	{
		{"lightpb", func(r *rnd) (any, []any) {
			m := lightpb.NewModel(lightpb.WithPreset(40, &traits.LightPreset{Name: "a", Title: "A"}), lightpb.WithPreset(80, &traits.LightPreset{Name: "b"}))
			s := lightpb.NewModelServer(m)
			return m, []any{lightpb.WrapApi(s), lightpb.WrapInfo(s)}
		}},
		{"lightpb.memory", func(r *rnd) (any, []any) {
			return nil, []any{lightpb.WrapApi(lightpb.NewMemoryDevice())}
		}},
		{"metadatapb", func(r *rnd) (any, []any) {
			m := metadatapb.NewModel()
			return m, []any{metadatapb.WrapApi(metadatapb.NewModelServer(m))}
		}},
		{"metadatapb.collection", func(r *rnd) (any, []any) {
			m := metadatapb.NewCollection(
				resource.WithInitialRecord("a", &traits.Metadata{Name: "a"}),
				resource.WithInitialRecord("b", &traits.Metadata{Name: "b"}),
				resource.WithInitialRecord("dev", &traits.Metadata{Name: "dev"}),
			)
			return m, []any{metadatapb.WrapApi(metadatapb.NewCollectionServer(m))}
		}},
		{"meterpb", func(r *rnd) (any, []any) {
			m := meterpb.NewModel()
			return m, []any{meterpb.WrapApi(meterpb.NewModelServer(m))}
		}},
		{"modepb", func(r *rnd) (any, []any) {
			m := modepb.NewModel()
			return m, []any{modepb.WrapApi(modepb.NewModelServer(m))}
		}},
		{"occupancysensorpb", func(r *rnd) (any, []any) {
			m := occupancysensorpb.NewModel()
			return m, []any{occupancysensorpb.WrapApi(occupancysensorpb.NewModelServer(m))}
		}},
		{"onoffpb", func(r *rnd) (any, []any) {
			m := onoffpb.NewModel()
			return m, []any{onoffpb.WrapApi(onoffpb.NewModelServer(m))}
		}},
		{"openclosepb", func(r *rnd) (any, []any) {
			m := openclosepb.NewModel(openclosepb.WithPreset(&traits.OpenClosePositions_Preset{Name: "a"}, &traits.OpenClosePosition{OpenPercent: 50}))
			s := openclosepb.NewModelServer(m)
			return m, []any{openclosepb.WrapApi(s), openclosepb.WrapInfo(s)}
		}},
		{"parentpb", func(r *rnd) (any, []any) {
			m := parentpb.NewModel()
			return m, []any{parentpb.WrapApi(parentpb.NewModelServer(m))}
		}},
		{"presspb", func(r *rnd) (any, []any) {
			m := presspb.NewModel(traits.PressedState_Press(r.intn(3)))
			return m, []any{presspb.WrapApi(presspb.NewModelServer(m))}
		}},
		{"publicationpb", func(r *rnd) (any, []any) {
			m := publicationpb.NewModel()
			return m, []any{publicationpb.WrapApi(publicationpb.NewModelServer(m))}
		}},
		{"speakerpb", func(r *rnd) (any, []any) {
			return nil, []any{speakerpb.WrapApi(speakerpb.NewMemoryDevice(&types.AudioLevel{Gain: 10}))}
		}},
		{"vendingpb", func(r *rnd) (any, []any) {
			m := vendingpb.NewModel()
			return m, []any{vendingpb.WrapApi(vendingpb.NewModelServer(m))}
		}},
		{"wastepb", func(r *rnd) (any, []any) {
			m := wastepb.NewModel()
			return m, []any{wastepb.WrapApi(wastepb.NewModelServer(m))}
		}},
		{"lockunlockpb", func(r *rnd) (any, []any) {
			return nil, []any{lockunlockpb.WrapApi(traits.UnimplementedLockUnlockApiServer{}), lockunlockpb.WrapInfo(traits.UnimplementedLockUnlockInfoServer{})}
		}},
		{"microphonepb", func(r *rnd) (any, []any) {
			return nil, []any{microphonepb.WrapApi(traits.UnimplementedMicrophoneApiServer{}), microphonepb.WrapInfo(traits.UnimplementedMicrophoneInfoServer{})}
		}},
		{"motionsensorpb", func(r *rnd) (any, []any) {
			return nil, []any{motionsensorpb.WrapApi(traits.UnimplementedMotionSensorApiServer{}), motionsensorpb.WrapSensorInfo(traits.UnimplementedMotionSensorSensorInfoServer{})}
		}},
		{"ptzpb", func(r *rnd) (any, []any) {
			return nil, []any{ptzpb.WrapApi(traits.UnimplementedPtzApiServer{}), ptzpb.WrapInfo(traits.UnimplementedPtzInfoServer{})}
		}},
		{"temperaturepb", func(r *rnd) (any, []any) {
			return nil, []any{temperaturepb.WrapApi(traits.UnimplementedTemperatureApiServer{})}
		}},
	},
}

// the number of rounds played per half; only the main goroutine touches it (rounds run one after another)
var traitRounds [2]int

func wTraits(rd *round, seed uint64, g int, half int) {
	r0 := newRnd(seed)
	reg := traitRegistry[half]
	// a window that moves over the registry, so that every package is hit within a few rounds
	k := 5 + r0.intn(4)
	start := traitRounds[half] * 5 % len(reg)
	traitRounds[half]++
	var tgs []*target
	for i := 0; i < k; i++ {
		e := reg[(start+i)%len(reg)]
		tg := newTarget(e.pkg)
		if e.pkg == "metadatapb.collection" {
			tg.names = []string{"a", "b", "c", "dev"} // the records of the collection are keyed by device name
		}
		model, clients := e.mk(r0)
		tg.addModel(model)
		for _, c := range clients {
			tg.addClient(c)
		}
		// the unimplemented servers answer immediately, they only need a small share of the calls
		tgs = append(tgs, tg)
		if !isUnimplemented(e.pkg) {
			tgs = append(tgs, tg, tg)
		}
	}
	rd.spawn(seed, g, func(gid int, r *rnd) {
		tgs[r.intn(len(tgs))].step(rd, r)
	})
}

func isUnimplemented(pkg string) bool {
	switch pkg {
	case "brightnesssensorpb", "channelpb", "colorpb", "extendretractpb", "inputselectpb",
		"lockunlockpb", "microphonepb", "motionsensorpb", "ptzpb", "temperaturepb":
		return true
	}
	return false
}
