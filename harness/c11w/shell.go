package main

import (
	"context"
	"errors"
	"fmt"
	"io"
	"time"

	"github.com/smart-core-os/sc-api/go/traits"
	"github.com/smart-core-os/sc-golang/pkg/group"
	"github.com/smart-core-os/sc-golang/pkg/resource"
	"github.com/smart-core-os/sc-golang/pkg/trait"
	"github.com/smart-core-os/sc-golang/pkg/trait/electricpb"
	"github.com/smart-core-os/sc-golang/pkg/trait/metadatapb"
	"github.com/smart-core-os/sc-golang/pkg/trait/onoffpb"
	"github.com/smart-core-os/sc-golang/pkg/trait/parentpb"
	"github.com/smart-core-os/sc-golang/pkg/trait/wastepb"
	"google.golang.org/grpc"
	"google.golang.org/grpc/metadata"
	"google.golang.org/protobuf/proto"
	"google.golang.org/protobuf/types/known/durationpb"
	"google.golang.org/protobuf/types/known/timestamppb"
)

func init() {
	workloads["wrap"] = wWrap
	workloads["group"] = wGroup
	workloads["electric_waste"] = wElectricWaste
	workloads["parent_metadata"] = wParentMetadata
}

// ---- wrapped clients: unary and server stream, headers, trailers, cancellation ----

// onOffServer is a server that uses every metadata facility a handler has.
type onOffServer struct {
	traits.UnimplementedOnOffApiServer
	v *resource.Value
}

func (s *onOffServer) GetOnOff(ctx context.Context, req *traits.GetOnOffRequest) (*traits.OnOff, error) {
	_ = grpc.SetHeader(ctx, metadata.Pairs("h", "get"))
	if req.Name == "slow" {
		select {
		case <-ctx.Done():
		case <-time.After(200 * time.Microsecond):
		}
	}
	_ = grpc.SetTrailer(ctx, metadata.Pairs("t", "get"))
	if req.Name == "fail" {
		return nil, errors.New("fail")
	}
	return s.v.Get(resource.WithReadMask(req.ReadMask)).(*traits.OnOff), nil
}

func (s *onOffServer) UpdateOnOff(ctx context.Context, req *traits.UpdateOnOffRequest) (*traits.OnOff, error) {
	_ = grpc.SendHeader(ctx, metadata.Pairs("h", "update"))
	res, err := s.v.Set(req.OnOff, resource.WithUpdateMask(req.UpdateMask))
	_ = grpc.SetTrailer(ctx, metadata.Pairs("t", "update"))
	if err != nil {
		return nil, err
	}
	return res.(*traits.OnOff), nil
}

func (s *onOffServer) PullOnOff(req *traits.PullOnOffRequest, server traits.OnOffApi_PullOnOffServer) error {
	_ = server.SetHeader(metadata.Pairs("h", "pull"))
	if req.Name == "sendheader" {
		_ = server.SendHeader(metadata.Pairs("h2", "pull"))
	}
	n := 0
	for update := range s.v.Pull(server.Context(), resource.WithUpdatesOnly(req.UpdatesOnly)) {
		err := server.Send(&traits.PullOnOffResponse{Changes: []*traits.PullOnOffResponse_Change{{
			Name: req.Name, ChangeTime: timestamppb.New(update.ChangeTime), OnOff: update.Value.(*traits.OnOff),
		}}})
		if err != nil {
			server.SetTrailer(metadata.Pairs("t", "senderr"))
			return err
		}
		n++
		if n >= 3 {
			break
		}
	}
	// like a real grpc.ServerStream, SetTrailer may be called by helpers of the handler while it runs
	done := make(chan struct{})
	go func() {
		defer close(done)
		server.SetTrailer(metadata.Pairs("t2", "helper"))
	}()
	server.SetTrailer(metadata.Pairs("t", "pull"))
	<-done
	if req.Name == "fail" {
		return errors.New("fail")
	}
	return nil
}

func readMD(md metadata.MD) int {
	n := 0
	for k, v := range md {
		n += len(k) + len(v)
	}
	return n
}

func wWrap(rd *round, seed uint64, g int) {
	srv := &onOffServer{v: resource.NewValue(resource.WithInitialValue(&traits.OnOff{State: traits.OnOff_OFF}))}
	client := onoffpb.WrapApi(srv)
	names := []string{"n", "slow", "fail", "sendheader"}
	rd.spawn(seed, g, func(gid int, r *rnd) {
		ctx, cancel := context.WithCancel(rd.ctx)
		defer cancel()
		if r.chance(40) {
			// the caller's context ends while the call is in flight
			d := time.Duration(r.intn(300)) * time.Microsecond
			t := time.AfterFunc(d, cancel)
			defer t.Stop()
		}
		if r.chance(30) {
			ctx = metadata.AppendToOutgoingContext(ctx, "k", "v")
		}
		switch r.intn(6) {
		case 0, 1:
			var h, t metadata.MD
			res, err := client.GetOnOff(ctx, &traits.GetOnOffRequest{Name: r.pick(names)}, grpc.Header(&h), grpc.Trailer(&t))
			if err == nil {
				touch(res)
			}
			_ = readMD(h) + readMD(t)
			rd.st.op("wrap.unary.Get")
		case 2:
			var h, t metadata.MD
			st := traits.OnOff_ON
			if r.chance(50) {
				st = traits.OnOff_OFF
			}
			res, err := client.UpdateOnOff(ctx, &traits.UpdateOnOffRequest{Name: "n", OnOff: &traits.OnOff{State: st}}, grpc.Header(&h), grpc.Trailer(&t))
			if err == nil {
				touch(res)
			}
			_ = readMD(h) + readMD(t)
			rd.st.op("wrap.unary.Update")
		default:
			stream, err := client.PullOnOff(ctx, &traits.PullOnOffRequest{Name: r.pick(names), UpdatesOnly: r.chance(30)})
			if err != nil {
				return
			}
			if r.chance(60) {
				h, _ := stream.Header()
				_ = readMD(h)
			}
			n := r.intn(4)
			ended := false
			for i := 0; i < n; i++ {
				msg, err := stream.Recv()
				if err != nil {
					ended = true
					break
				}
				touch(msg)
			}
			if !ended {
				if r.chance(50) {
					cancel()
				}
				for {
					// a writer so that the stream produces something
					if r.chance(30) {
						_, _ = srv.v.Set(&traits.OnOff{State: traits.OnOff_State(1 + r.intn(2))})
					}
					_, err := stream.Recv()
					if err != nil {
						if err != io.EOF {
							_ = err.Error()
						}
						break
					}
				}
			}
			// Recv has returned a non-nil error: the gRPC contract allows Trailer (and Header) now
			_ = readMD(stream.Trailer())
			h, _ := stream.Header()
			_ = readMD(h)
			rd.st.op("wrap.stream.Pull")
		}
	})
}

// ---- group execution ----

func wGroup(rd *round, seed uint64, g int) {
	v := resource.NewValue(resource.WithInitialValue(&traits.OnOff{}))
	strategies := []group.ExecutionStrategy{group.ExecutionStrategyUnspecified, group.ExecutionStrategyAll, group.ExecutionStrategyMost,
		group.ExecutionStrategyAny, group.ExecutionStrategyOne, group.ExecutionStrategyFast, group.ExecutionStrategyRace}
	rd.spawn(seed, g, func(gid int, r *rnd) {
		n := 1 + r.intn(5)
		members := make([]group.Member, n)
		for i := range members {
			fail := r.chance(35)
			delay := time.Duration(r.intn(200)) * time.Microsecond
			write := r.chance(50)
			members[i] = func(ctx context.Context) (proto.Message, error) {
				if delay > 0 {
					select {
					case <-ctx.Done():
						return nil, ctx.Err()
					case <-time.After(delay):
					}
				}
				if fail {
					return nil, errors.New("member failed")
				}
				if write {
					return v.Set(&traits.OnOff{State: traits.OnOff_ON})
				}
				return v.Get(), nil
			}
		}
		s := strategies[r.intn(len(strategies))]
		res, err := group.Execute(rd.ctx, s, members)
		for _, m := range res {
			touch(m)
		}
		_ = err
		rd.st.op(fmt.Sprintf("group.Execute.%d", int(s)))
	})
}

// ---- electricpb.Model and wastepb.Model ----

func wElectricWaste(rd *round, seed uint64, g int) {
	em := electricpb.NewModel()
	wm := wastepb.NewModel()
	seg := func(r *rnd) []*traits.ElectricMode_Segment {
		var l []*traits.ElectricMode_Segment
		for i := 0; i < r.intn(3); i++ {
			l = append(l, &traits.ElectricMode_Segment{Magnitude: float32(r.intn(5)), Length: durationpb.New(time.Duration(1+r.intn(5)) * time.Second)})
		}
		return l
	}
	modeIDs := []string{"m1", "m2", "m3"}
	rd.spawn(seed, g, func(gid int, r *rnd) {
		switch r.intn(16) {
		case 0:
			m, err := em.CreateMode(&traits.ElectricMode{Title: "gen", Segments: seg(r), Normal: r.chance(20)})
			if err == nil {
				touch(m)
				if r.chance(70) {
					_ = em.DeleteMode(m.Id, resource.WithAllowMissing(true))
				}
			}
			rd.st.op("electric.CreateMode")
		case 1:
			_ = em.AddMode(&traits.ElectricMode{Id: r.pick(modeIDs), Segments: seg(r), Normal: r.chance(20)})
			rd.st.op("electric.AddMode")
		case 2:
			m, err := em.UpdateMode(&traits.ElectricMode{Id: r.pick(modeIDs), Title: "u", Normal: r.chance(30)})
			if err == nil {
				touch(m)
			}
			rd.st.op("electric.UpdateMode")
		case 3:
			_ = em.DeleteMode(r.pick(modeIDs), resource.WithAllowMissing(r.chance(50)))
			rd.st.op("electric.DeleteMode")
		case 4:
			m, err := em.ChangeActiveMode(r.pick(modeIDs))
			if err == nil {
				touch(m)
			}
			rd.st.op("electric.ChangeActiveMode")
		case 5:
			m, err := em.ChangeToNormalMode()
			if err == nil {
				touch(m)
			}
			rd.st.op("electric.ChangeToNormalMode")
		case 6:
			for _, m := range em.Modes() {
				touch(m)
			}
			if m, ok := em.NormalMode(); ok {
				touch(m)
			}
			if m, ok := em.FindMode(r.pick(modeIDs)); ok {
				touch(m)
			}
			touch(em.ActiveMode())
			touch(em.Demand())
			rd.st.op("electric.reads")
		case 7:
			_, _ = em.UpdateDemand(&traits.ElectricDemand{Current: float32(r.intn(9))})
			rd.st.op("electric.UpdateDemand")
		case 8:
			ctx, cancel := context.WithCancel(rd.ctx)
			ch := em.PullModes(ctx)
			ch2 := em.PullActiveMode(ctx)
			ch3 := em.PullDemand(ctx)
			tm := time.NewTimer(time.Duration(1+r.intn(10)) * time.Millisecond)
		loop:
			for i := 0; i < 6; i++ {
				select {
				case c, ok := <-ch:
					if !ok {
						break loop
					}
					if c.NewValue != nil {
						touch(c.NewValue)
					}
					if c.OldValue != nil {
						touch(c.OldValue)
					}
				case c, ok := <-ch2:
					if !ok {
						break loop
					}
					touch(c.ActiveMode)
				case c, ok := <-ch3:
					if !ok {
						break loop
					}
					touch(c.Value)
				case <-tm.C:
					break loop
				}
			}
			tm.Stop()
			cancel()
			// the model's forwarders only stop when their channels are drained
			go func() {
				for range ch {
				}
			}()
			go func() {
				for range ch2 {
				}
			}()
			for range ch3 {
			}
			rd.st.op("electric.Pull")
		case 9, 10:
			rec, err := wm.GenerateWasteRecord(timestamppb.New(time.Unix(int64(r.intn(100000)), 0)))
			if err == nil {
				touch(rec)
			}
			rd.st.op("waste.Generate")
		case 11:
			wr := &traits.WasteRecord{Id: fmt.Sprintf("w%d", r.intn(1000)), Weight: 3}
			rec, err := wm.AddWasteRecord(wr)
			if err == nil {
				touch(rec)
			}
			rd.st.op("waste.Add")
		case 12, 13:
			n := wm.GetWasteRecordCount()
			for _, rec := range wm.ListWasteRecords(n, 1+r.intn(20)) {
				touch(rec)
			}
			rd.st.op("waste.List")
		default:
			ctx, cancel := context.WithCancel(rd.ctx)
			ch := wm.PullWasteRecords(ctx, resource.WithUpdatesOnly(r.chance(50)))
			tm := time.NewTimer(time.Duration(1+r.intn(10)) * time.Millisecond)
		loopw:
			for i := 0; i < 3; i++ {
				select {
				case c, ok := <-ch:
					if !ok {
						break loopw
					}
					touch(c)
				case <-tm.C:
					break loopw
				}
			}
			tm.Stop()
			cancel()
			for range ch {
			}
			rd.st.op("waste.Pull")
		}
	})
}

// ---- parentpb.Model and metadatapb.Model ----

func wParentMetadata(rd *round, seed uint64, g int) {
	pm := parentpb.NewModel()
	mm := metadatapb.NewModel()
	children := []string{"c1", "c2", "c3"}
	tnames := []trait.Name{"a", "b", "c", "d", "e"}
	rd.spawn(seed, g, func(gid int, r *rnd) {
		// AddChildTrait/RemoveChildTrait panic on an Aborted concurrent update (not a data race; counted)
		defer func() {
			if p := recover(); p != nil {
				rd.st.op("panic.recovered")
			}
		}()
		switch r.intn(12) {
		case 0:
			name := r.pick(children)
			pm.AddChild(&traits.Child{Name: name, Traits: []*traits.Trait{{Name: "b"}, {Name: "d"}}})
			rd.st.op("parent.AddChild")
		case 1, 2:
			c, _ := pm.AddChildTrait(r.pick(children), tnames[r.intn(len(tnames))])
			touch(c)
			rd.st.op("parent.AddChildTrait")
		case 3:
			c := pm.RemoveChildTrait(r.pick(children), tnames[r.intn(len(tnames))])
			if c != nil {
				touch(c)
			}
			rd.st.op("parent.RemoveChildTrait")
		case 4:
			c, err := pm.RemoveChildByName(r.pick(children), resource.WithAllowMissing(true))
			if err == nil && c != nil {
				touch(c)
			}
			rd.st.op("parent.RemoveChildByName")
		case 5:
			for _, c := range pm.ListChildren() {
				touch(c)
			}
			rd.st.op("parent.ListChildren")
		case 6:
			ctx, cancel := context.WithCancel(rd.ctx)
			ch := pm.PullChildren(ctx)
			tm := time.NewTimer(time.Duration(1+r.intn(10)) * time.Millisecond)
		loop:
			for i := 0; i < 4; i++ {
				select {
				case c, ok := <-ch:
					if !ok {
						break loop
					}
					touch(c)
				case <-tm.C:
					break loop
				}
			}
			tm.Stop()
			cancel()
			for range ch {
			}
			rd.st.op("parent.PullChildren")
		case 7:
			m, err := mm.GetMetadata()
			if err == nil {
				touch(m)
			}
			rd.st.op("metadata.Get")
		case 8:
			_, _ = mm.UpdateMetadata(&traits.Metadata{Name: fmt.Sprintf("n%d", r.intn(3))}, resource.WithUpdatePaths("name"))
			rd.st.op("metadata.Update")
		case 9:
			m, err := mm.MergeMetadata(&traits.Metadata{
				More:   map[string]string{r.pick(children): "v"},
				Traits: []*traits.TraitMetadata{{Name: string(tnames[r.intn(len(tnames))]), More: map[string]string{"k": r.pick(children)}}},
			})
			if err == nil {
				touch(m)
			}
			rd.st.op("metadata.Merge")
		case 10:
			m, err := mm.UpdateTraitMetadata(&traits.TraitMetadata{Name: string(tnames[r.intn(len(tnames))]), More: map[string]string{"x": "y"}})
			if err == nil {
				touch(m)
			}
			rd.st.op("metadata.UpdateTrait")
		default:
			ctx, cancel := context.WithCancel(rd.ctx)
			ch := mm.PullMetadata(ctx)
			tm := time.NewTimer(time.Duration(1+r.intn(10)) * time.Millisecond)
		loopm:
			for i := 0; i < 3; i++ {
				select {
				case c, ok := <-ch:
					if !ok {
						break loopm
					}
					touch(c)
				case <-tm.C:
					break loopm
				}
			}
			tm.Stop()
			cancel()
			for range ch {
			}
			rd.st.op("metadata.Pull")
		}
	})
}
