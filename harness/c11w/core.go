package main

import (
	"context"
	"errors"
	"fmt"
	"strings"
	"time"

	"github.com/smart-core-os/sc-api/go/traits"
	"github.com/smart-core-os/sc-golang/internal/minibus"
	"github.com/smart-core-os/sc-golang/pkg/resource"
	"github.com/smart-core-os/sc-golang/pkg/router"
	"google.golang.org/protobuf/proto"
)

func init() {
	workloads["value"] = wValue
	workloads["collection"] = wCollection
	workloads["router"] = wRouter
	workloads["bus"] = wBus
}

// touch reads every field of m (a deep copy is a pure read of m).
func touch(m proto.Message) {
	if m == nil {
		return
	}
	_ = proto.Clone(m)
}

var ids = []string{"a", "b", "c", "d", "E", "F"}

// ---- resource.Value ----

func wValue(rd *round, seed uint64, g int) {
	r0 := newRnd(seed)
	opts := []resource.Option{resource.WithInitialValue(&traits.ElectricDemand{Current: 1, Rating: 13})}
	if r0.chance(40) {
		opts = append(opts, resource.WithNoDuplicates())
	}
	if r0.chance(30) {
		opts = append(opts, resource.WithWritablePaths(&traits.ElectricDemand{}, "current", "voltage", "rating"))
	}
	v := resource.NewValue(opts...)
	rd.spawn(seed, g, func(gid int, r *rnd) {
		switch r.intn(10) {
		case 0, 1, 2:
			cur := float32(r.intn(5))
			wo := []resource.WriteOption{}
			if r.chance(50) {
				wo = append(wo, resource.WithUpdatePaths("current"))
			}
			if r.chance(50) {
				wo = append(wo, resource.InterceptBefore(func(old, new proto.Message) {
					touch(old)
					touch(new)
					new.(*traits.ElectricDemand).Current += old.(*traits.ElectricDemand).Current / 2
				}))
			}
			if r.chance(50) {
				wo = append(wo, resource.InterceptAfter(func(old, new proto.Message) {
					touch(old)
					v := float32(240)
					new.(*traits.ElectricDemand).Voltage = &v
				}))
			}
			if r.chance(20) {
				wo = append(wo, resource.WithExpectedCheck(func(old proto.Message) error {
					touch(old)
					if old.(*traits.ElectricDemand).Current > 3 {
						return errors.New("too high")
					}
					return nil
				}))
			}
			if r.chance(10) {
				wo = append(wo, resource.WithWriteTime(time.Unix(int64(r.intn(1000)), 0)))
			}
			res, _ := v.Set(&traits.ElectricDemand{Current: cur}, wo...)
			touch(res) // the result is the published message: read only
			rd.st.op("value.Set")
		case 3, 4, 5:
			var ro []resource.ReadOption
			if r.chance(50) {
				ro = append(ro, resource.WithReadPaths(&traits.ElectricDemand{}, "current"))
			}
			res := v.Get(ro...)
			touch(res) // without a read mask this is the published message itself: read only
			rd.st.op("value.Get")
		case 6:
			prev := v.Get()
			_, _ = v.Set(&traits.ElectricDemand{Current: float32(r.intn(5))}, resource.WithExpectedValue(prev))
			rd.st.op("value.SetExpected")
		default:
			ctx, cancel := context.WithCancel(rd.ctx)
			ch := v.Pull(ctx, resource.WithBackpressure(r.chance(30)), resource.WithUpdatesOnly(r.chance(30)))
			n := r.intn(4)
			tm := time.NewTimer(time.Duration(1+r.intn(20)) * time.Millisecond)
		loop:
			for i := 0; i < n; i++ {
				select {
				case c, ok := <-ch:
					if !ok {
						break loop
					}
					touch(c.Value)
					_ = c.ChangeTime.UnixNano()
				case <-tm.C:
					break loop
				}
			}
			tm.Stop()
			cancel()
			if r.chance(50) {
				for c := range ch {
					touch(c.Value)
				}
			}
			_ = v.Clock()
			rd.st.op("value.Pull")
		}
	})
}

// ---- resource.Collection ----

func wCollection(rd *round, seed uint64, g int) {
	r0 := newRnd(seed)
	opts := []resource.Option{resource.WithInitialRecord("a", &traits.Child{Name: "a", Traits: []*traits.Trait{{Name: "t1"}}})}
	if r0.chance(50) {
		opts = append(opts, resource.WithIDInterceptor(strings.ToLower))
	}
	if r0.chance(30) {
		opts = append(opts, resource.WithNoDuplicates())
	}
	c := resource.NewCollection(opts...)
	child := func(r *rnd, name string) *traits.Child {
		ch := &traits.Child{Name: name}
		for i := 0; i < r.intn(3); i++ {
			ch.Traits = append(ch.Traits, &traits.Trait{Name: fmt.Sprintf("t%d", r.intn(4))})
		}
		return ch
	}
	include := func(id string, m proto.Message) bool {
		touch(m)
		return len(m.(*traits.Child).Traits)%2 == 0 || id == "a"
	}
	rd.spawn(seed, g, func(gid int, r *rnd) {
		switch r.intn(12) {
		case 0, 1:
			// generated id
			msg := child(r, "")
			got := ""
			res, err := c.Add("", msg, resource.WithGenIDIfAbsent(), resource.WithIDCallback(func(id string) {
				got = id
				msg.Name = id
			}))
			if err == nil {
				touch(res)
				if r.chance(70) {
					_, _ = c.Delete(got, resource.WithAllowMissing(true))
				}
			}
			rd.st.op("collection.AddGenID")
		case 2:
			id := r.pick(ids)
			_, _ = c.Add(id, child(r, id))
			rd.st.op("collection.Add")
		case 3, 4:
			id := r.pick(ids)
			wo := []resource.WriteOption{}
			if r.chance(60) {
				wo = append(wo, resource.WithCreateIfAbsent(), resource.WithCreatedCallback(func() {}))
			}
			if r.chance(50) {
				wo = append(wo, resource.InterceptBefore(func(old, new proto.Message) {
					touch(old)
					oc := old.(*traits.Child)
					nc := new.(*traits.Child)
					for _, t := range oc.Traits { // reads of the old value only
						if len(nc.Traits) < 3 {
							nc.Traits = append(nc.Traits, &traits.Trait{Name: t.Name})
						}
					}
				}))
			}
			if r.chance(30) {
				wo = append(wo, resource.WithUpdatePaths("traits"))
			}
			res, err := c.Update(id, child(r, id), wo...)
			if err == nil {
				touch(res)
			}
			rd.st.op("collection.Update")
		case 5:
			id := r.pick(ids)
			wo := []resource.WriteOption{resource.WithAllowMissing(r.chance(50))}
			if r.chance(40) {
				wo = append(wo, resource.WithExpectedCheck(func(old proto.Message) error {
					touch(old)
					return nil
				}))
			}
			old, _ := c.Delete(id, wo...)
			touch(old)
			rd.st.op("collection.Delete")
		case 6, 7:
			res, ok := c.Get(r.pick(ids))
			if ok {
				touch(res)
			}
			rd.st.op("collection.Get")
		case 8:
			var ro []resource.ReadOption
			if r.chance(50) {
				ro = append(ro, resource.WithInclude(include))
			}
			if r.chance(30) {
				ro = append(ro, resource.WithReadPaths(&traits.Child{}, "name"))
			}
			for _, m := range c.List(ro...) {
				touch(m)
			}
			rd.st.op("collection.List")
		case 9:
			ctx, cancel := context.WithCancel(rd.ctx)
			ch := c.PullID(ctx, r.pick(ids), resource.WithBackpressure(r.chance(30)))
			tm := time.NewTimer(time.Duration(1+r.intn(15)) * time.Millisecond)
			n := r.intn(3)
		loopID:
			for i := 0; i < n; i++ {
				select {
				case e, ok := <-ch:
					if !ok {
						break loopID
					}
					touch(e.Value)
				case <-tm.C:
					break loopID
				}
			}
			tm.Stop()
			cancel()
			rd.st.op("collection.PullID")
		default:
			ctx, cancel := context.WithCancel(rd.ctx)
			ro := []resource.ReadOption{resource.WithBackpressure(r.chance(30)), resource.WithUpdatesOnly(r.chance(30))}
			if r.chance(40) {
				ro = append(ro, resource.WithInclude(include))
			}
			ch := c.Pull(ctx, ro...)
			tm := time.NewTimer(time.Duration(1+r.intn(20)) * time.Millisecond)
			n := r.intn(6)
		loop:
			for i := 0; i < n; i++ {
				select {
				case e, ok := <-ch:
					if !ok {
						break loop
					}
					touch(e.OldValue)
					touch(e.NewValue)
					_ = e.Id + e.ChangeType.String()
				case <-tm.C:
					break loop
				}
			}
			tm.Stop()
			cancel()
			if r.chance(50) {
				for e := range ch {
					touch(e.NewValue)
				}
			}
			rd.st.op("collection.Pull")
		}
	})
}

// ---- router ----

type fakeClient struct{ name string }

func wRouter(rd *round, seed uint64, g int) {
	r0 := newRnd(seed)
	var opts []router.Option
	if r0.chance(70) {
		opts = append(opts, router.WithFactory(func(name string) (any, error) {
			if strings.HasPrefix(name, "x") {
				return nil, errors.New("no")
			}
			return &fakeClient{name: name}, nil
		}))
	}
	if r0.chance(40) {
		opts = append(opts, router.WithFallback(func(name string) (any, error) {
			if name == "fb" {
				return &fakeClient{name: "fallback"}, nil
			}
			return nil, nil
		}))
	}
	if r0.chance(70) {
		opts = append(opts, router.WithOnChange(func(c router.Change) {
			if c.New != nil {
				_ = c.New.(*fakeClient).name
			}
			if c.Old != nil {
				_ = c.Old.(*fakeClient).name
			}
			_ = c.Name
			_ = c.Auto
		}))
	}
	rt := router.NewRouter(opts...)
	names := []string{"n1", "n2", "n3", "x1", "fb"}
	rd.spawn(seed, g, func(gid int, r *rnd) {
		n := r.pick(names)
		switch r.intn(6) {
		case 0:
			old := rt.Add(n, &fakeClient{name: n})
			if old != nil {
				_ = old.(*fakeClient).name
			}
			rd.st.op("router.Add")
		case 1:
			old := rt.Remove(n)
			if old != nil {
				_ = old.(*fakeClient).name
			}
			rd.st.op("router.Remove")
		case 2:
			_ = rt.Has(n)
			_ = rt.HoldsType(nil)
			rd.st.op("router.Has")
		default:
			c, err := rt.Get(n)
			if err == nil {
				_ = c.(*fakeClient).name
			}
			rd.st.op("router.Get")
		}
	})
}

// ---- minibus ----

func wBus(rd *round, seed uint64, g int) {
	var b minibus.Bus
	rd.spawn(seed, g, func(gid int, r *rnd) {
		switch r.intn(5) {
		case 0, 1:
			ctx, cancel := context.WithTimeout(rd.ctx, time.Duration(1+r.intn(5))*time.Millisecond)
			ev := &traits.OnOff{State: traits.OnOff_ON}
			_ = b.Send(ctx, ev)
			cancel()
			rd.st.op("bus.Send")
		default:
			ctx, cancel := context.WithCancel(rd.ctx)
			ch := b.Listen(ctx)
			if r.chance(40) {
				ch = minibus.DropExcess(ch)
			}
			tm := time.NewTimer(time.Duration(1+r.intn(10)) * time.Millisecond)
			n := r.intn(5)
		loop:
			for i := 0; i < n; i++ {
				select {
				case e, ok := <-ch:
					if !ok {
						break loop
					}
					touch(e.(proto.Message))
				case <-tm.C:
					break loop
				}
			}
			tm.Stop()
			cancel()
			if r.chance(30) {
				for range ch {
				}
			}
			rd.st.op("bus.Listen")
		}
	})
}
