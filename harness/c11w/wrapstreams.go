package main

// wrap_streams: MANY concurrent calls of all four shapes (unary, server stream, client stream, bidi) on ONE
// wrapped client.  Handlers use every metadata facility (from the handler goroutine and from a helper that
// ends before the handler returns), return errors, read what they receive; clients read headers, trailers
// and messages, half-close, and have their contexts cancelled at random points.  It complements wWrap, which
// drives the OnOff wrapper with unary calls and server streams only.

import (
	"context"
	"errors"
	"io"
	"strings"
	"sync"
	"time"

	"github.com/smart-core-os/sc-golang/internal/testproto"
	"github.com/smart-core-os/sc-golang/pkg/wrap"
	"google.golang.org/grpc"
	"google.golang.org/grpc/metadata"
)

func init() {
	workloads["wrap_streams"] = wWrapStreams
}

// The behaviour of a handler is chosen by the caller with a string of flags:
//
//	h SetHeader   H SendHeader   t SetTrailer   g the same again from a helper goroutine
//	s be slow     e return an error   l set the header late (after the first message)
type testServer struct {
	testproto.UnimplementedTestApiServer
}

// mdOps is what grpc.ServerStream and the grpc.SetHeader family have in common.
type mdOps struct {
	setHeader  func(metadata.MD) error
	sendHeader func(metadata.MD) error
	setTrailer func(metadata.MD)
}

func ctxOps(ctx context.Context) mdOps {
	return mdOps{
		setHeader:  func(md metadata.MD) error { return grpc.SetHeader(ctx, md) },
		sendHeader: func(md metadata.MD) error { return grpc.SendHeader(ctx, md) },
		setTrailer: func(md metadata.MD) { _ = grpc.SetTrailer(ctx, md) },
	}
}

func streamOps(s grpc.ServerStream) mdOps {
	return mdOps{setHeader: s.SetHeader, sendHeader: s.SendHeader, setTrailer: s.SetTrailer}
}

// before runs the metadata calls a handler makes before its first message.
func (o mdOps) before(flags, who string) {
	do := func(who string) {
		if strings.Contains(flags, "h") {
			_ = o.setHeader(metadata.Pairs("h-"+who, flags, "shared", who))
		}
		if strings.Contains(flags, "t") {
			o.setTrailer(metadata.Pairs("t-"+who, "early"))
		}
		if strings.Contains(flags, "H") {
			_ = o.sendHeader(metadata.Pairs("hs-"+who, flags))
		}
	}
	if strings.Contains(flags, "g") {
		done := make(chan struct{})
		go func() {
			defer close(done)
			do(who + "-helper")
		}()
		do(who)
		<-done // the helper never outlives the handler
		return
	}
	do(who)
}

// after runs the metadata calls a handler makes just before it returns.
func (o mdOps) after(flags, who string) {
	if strings.Contains(flags, "g") {
		done := make(chan struct{})
		go func() {
			defer close(done)
			o.setTrailer(metadata.Pairs("t-"+who+"-helper", "late"))
		}()
		defer func() { <-done }()
	}
	if strings.Contains(flags, "t") {
		o.setTrailer(metadata.Pairs("t-"+who, "late", "shared", who))
	}
	if strings.Contains(flags, "l") {
		_ = o.setHeader(metadata.Pairs("h-late", who)) // usually too late: an error
	}
}

func slow(ctx context.Context, flags string) {
	if !strings.Contains(flags, "s") {
		return
	}
	select {
	case <-ctx.Done():
	case <-time.After(150 * time.Microsecond):
	}
}

func flagErr(flags string) error {
	if strings.Contains(flags, "e") {
		return errors.New("simulated: " + flags)
	}
	return nil
}

func readIncoming(ctx context.Context) {
	md, _ := metadata.FromIncomingContext(ctx)
	_ = readMD(md)
}

func (s *testServer) Unary(ctx context.Context, req *testproto.UnaryRequest) (*testproto.UnaryResponse, error) {
	touch(req)
	readIncoming(ctx)
	flags := req.SimulateError
	o := ctxOps(ctx)
	o.before(flags, "unary")
	slow(ctx, flags)
	o.after(flags, "unary")
	if err := flagErr(flags); err != nil {
		return nil, err
	}
	return &testproto.UnaryResponse{Msg: req.Msg}, nil
}

func (s *testServer) ServerStream(req *testproto.ServerStreamRequest, stream grpc.ServerStreamingServer[testproto.ServerStreamResponse]) error {
	touch(req)
	ctx := stream.Context()
	readIncoming(ctx)
	flags := req.SimulateError
	o := streamOps(stream)
	o.before(flags, "sstream")
	for i := int32(0); i < req.NumRes; i++ {
		slow(ctx, flags)
		if err := stream.Send(&testproto.ServerStreamResponse{Counter: i}); err != nil {
			stream.SetTrailer(metadata.Pairs("t-senderr", "1"))
			return err
		}
	}
	o.after(flags, "sstream")
	return flagErr(flags)
}

func (s *testServer) ClientStream(stream grpc.ClientStreamingServer[testproto.ClientStreamRequest, testproto.ClientStreamResponse]) error {
	ctx := stream.Context()
	readIncoming(ctx)
	o := streamOps(stream)
	flags, n := "", 0
	for {
		req, err := stream.Recv()
		if err == io.EOF {
			break
		}
		if err != nil {
			stream.SetTrailer(metadata.Pairs("t-recverr", "1"))
			return err
		}
		touch(req)
		if n == 0 {
			flags = req.SimulateError
			o.before(flags, "cstream")
		}
		n++
		slow(ctx, flags)
	}
	o.after(flags, "cstream")
	if err := flagErr(flags); err != nil {
		return err
	}
	return stream.SendAndClose(&testproto.ClientStreamResponse{Msg: strings.Repeat("x", n)})
}

func (s *testServer) BidiStream(stream grpc.BidiStreamingServer[testproto.BidiStreamRequest, testproto.BidiStreamResponse]) error {
	ctx := stream.Context()
	readIncoming(ctx)
	o := streamOps(stream)
	flags, n := "", 0
	for {
		req, err := stream.Recv()
		if err == io.EOF {
			break
		}
		if err != nil {
			return err
		}
		touch(req)
		if n == 0 {
			flags = req.SimulateError
			o.before(flags, "bidi")
		}
		n++
		slow(ctx, flags)
		if err := stream.Send(&testproto.BidiStreamResponse{Msg: req.Msg}); err != nil {
			stream.SetTrailer(metadata.Pairs("t-senderr", "1"))
			return err
		}
		if n >= 3 && strings.Contains(flags, "e") {
			break // the handler ends while the client may still be sending
		}
	}
	o.after(flags, "bidi")
	return flagErr(flags)
}

func randFlags(r *rnd) string {
	var b strings.Builder
	for _, f := range []struct {
		c byte
		p int
	}{{'h', 60}, {'H', 30}, {'t', 60}, {'g', 35}, {'s', 25}, {'e', 20}, {'l', 15}} {
		if r.chance(f.p) {
			b.WriteByte(f.c)
		}
	}
	return b.String()
}

// streamEnd is called once Recv (or CloseAndRecv) has returned an error: Header and Trailer may be read.
func streamEnd(cs grpc.ClientStream) {
	_ = readMD(cs.Trailer())
	h, _ := cs.Header()
	_ = readMD(h)
	_ = cs.Context().Err()
}

func wsCall(rd *round, r *rnd, client testproto.TestApiClient) {
	ctx, cancel := context.WithCancel(rd.ctx)
	defer cancel()
	if r.chance(45) {
		// the caller's context ends at a random point of the call: before the headers, between messages, ...
		t := time.AfterFunc(time.Duration(r.intn(400))*time.Microsecond, cancel)
		defer t.Stop()
	}
	if r.chance(5) {
		cancel() // before the call even starts
	}
	if r.chance(40) {
		ctx = metadata.AppendToOutgoingContext(ctx, "k", "v", "k2", "v2")
	}
	flags := randFlags(r)
	switch r.intn(8) {
	case 0, 1:
		var h, t metadata.MD
		var opts []grpc.CallOption
		if r.chance(80) {
			opts = append(opts, grpc.Header(&h))
		}
		if r.chance(80) {
			opts = append(opts, grpc.Trailer(&t))
		}
		res, err := client.Unary(ctx, &testproto.UnaryRequest{Msg: "m", SimulateError: flags}, opts...)
		if err == nil {
			touch(res)
		} else {
			_ = err.Error()
		}
		_ = readMD(h) + readMD(t)
		rd.st.op("wrapstreams.unary")
	case 2, 3:
		stream, err := client.ServerStream(ctx, &testproto.ServerStreamRequest{NumRes: int32(r.intn(6)), SimulateError: flags})
		if err != nil {
			rd.st.op("wrapstreams.server.openerr")
			return
		}
		if r.chance(50) {
			h, _ := stream.Header()
			_ = readMD(h)
		}
		n := r.intn(7)
		for i := 0; ; i++ {
			if i == n && r.chance(50) {
				cancel()
			}
			msg, err := stream.Recv()
			if err != nil {
				break
			}
			touch(msg)
			if r.chance(20) {
				h, _ := stream.Header() // headers have arrived with the first message
				_ = readMD(h)
			}
		}
		streamEnd(stream)
		rd.st.op("wrapstreams.server")
	case 4, 5:
		stream, err := client.ClientStream(ctx)
		if err != nil {
			rd.st.op("wrapstreams.client.openerr")
			return
		}
		n := r.intn(5)
		sendErr := false
		for i := 0; i < n; i++ {
			if err := stream.Send(&testproto.ClientStreamRequest{Msg: "c", SimulateError: flags}); err != nil {
				sendErr = true
				break
			}
			if r.chance(10) {
				cancel()
			}
		}
		if r.chance(40) && !sendErr && n > 0 && strings.Contains(flags, "H") {
			// the handler sends its headers when it gets the first message (Header blocks until then)
			h, _ := stream.Header()
			_ = readMD(h)
		}
		if sendErr && r.chance(50) {
			// abandon the call: the context ends, the handler sees it
			cancel()
			rd.st.op("wrapstreams.client.abandoned")
			return
		}
		res, err := stream.CloseAndRecv()
		if err == nil {
			touch(res)
		}
		cancel() // a unary response carries no end of stream of its own; nothing more is read
		streamEnd(stream)
		rd.st.op("wrapstreams.client")
	default:
		stream, err := client.BidiStream(ctx)
		if err != nil {
			rd.st.op("wrapstreams.bidi.openerr")
			return
		}
		n := r.intn(6)
		headerFromSender := n > 0 && r.chance(30) // the first echo carries the headers
		cancelMid := r.chance(15)
		// one goroutine sends and half-closes, this one receives: the split gRPC allows
		var wg sync.WaitGroup
		wg.Add(1)
		go func() {
			defer wg.Done()
			for i := 0; i < n; i++ {
				if err := stream.Send(&testproto.BidiStreamRequest{Msg: "b", SimulateError: flags}); err != nil {
					return // the stream is over; CloseSend is not needed
				}
				if cancelMid && i == n/2 {
					cancel()
				}
			}
			if headerFromSender {
				h, _ := stream.Header()
				_ = readMD(h)
			}
			_ = stream.CloseSend()
		}()
		for {
			msg, err := stream.Recv()
			if err != nil {
				break
			}
			touch(msg)
		}
		streamEnd(stream)
		cancel() // unblocks a sender whose handler has gone
		wg.Wait()
		rd.st.op("wrapstreams.bidi")
	}
}

func wWrapStreams(rd *round, seed uint64, g int) {
	client := testproto.NewTestApiClient(wrap.ServerToClient(testproto.TestApi_ServiceDesc, &testServer{}))
	rd.spawn(seed, g, func(gid int, r *rnd) {
		if !r.chance(25) {
			wsCall(rd, r, client)
			return
		}
		// a burst: several calls at once on the one client, on top of what the other goroutines do
		var wg sync.WaitGroup
		k := 2 + r.intn(5)
		wg.Add(k)
		for i := 0; i < k; i++ {
			sub := newRnd(r.u64())
			go func() {
				defer wg.Done()
				wsCall(rd, sub, client)
			}()
		}
		wg.Wait()
		rd.st.op("wrapstreams.burst")
	})
}
