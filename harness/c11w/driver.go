package main

// A generic, reflection based driver for generated gRPC clients (the wrappers returned by WrapApi and
// friends) and for trait models.  A target is one set of library objects (a model, the clients wrapped
// around its server) that all goroutines of a round hammer together.  Requests are generated with
// protoreflect, responses and events are only read.

import (
	"context"
	"reflect"
	"strings"
	"sync/atomic"
	"time"

	"github.com/smart-core-os/sc-api/go/traits"
	"github.com/smart-core-os/sc-golang/pkg/resource"
	"google.golang.org/grpc"
	"google.golang.org/grpc/metadata"
	"google.golang.org/protobuf/proto"
	"google.golang.org/protobuf/reflect/protoreflect"
	"google.golang.org/protobuf/types/known/fieldmaskpb"
)

var (
	ctxType          = reflect.TypeOf((*context.Context)(nil)).Elem()
	errType          = reflect.TypeOf((*error)(nil)).Elem()
	protoMsgType     = reflect.TypeOf((*proto.Message)(nil)).Elem()
	clientStreamType = reflect.TypeOf((*grpc.ClientStream)(nil)).Elem()
	callOptsType     = reflect.TypeOf([]grpc.CallOption(nil))
	writeOptType     = reflect.TypeOf((*resource.WriteOption)(nil)).Elem()
	readOptType      = reflect.TypeOf((*resource.ReadOption)(nil)).Elem()
	timeType         = reflect.TypeOf(time.Time{})
)

// client methods that must not be called: the handler panics on the goroutine of the wrapper, which
// nobody can recover (panics are another property's business).
// requestFixes adjust generated requests that would make a handler panic (per target name).
var requestFixes = map[string]func(proto.Message){
	// MemoryDevice.UpdateBrightness type-asserts the nil result of a failed write when a preset is given
	"lightpb.memory": func(m proto.Message) {
		if req, ok := m.(*traits.UpdateBrightnessRequest); ok && req.Brightness != nil {
			req.Brightness.Preset = nil
			// a tween starts a goroutine that panics ("programmer error") with Aborted as soon as another
			// update intervenes: a crash under concurrency, not a data race - not this property's business
			req.Brightness.BrightnessTween = nil
		}
	},
}

var deniedClientMethods = map[string]bool{
	"fanspeedpb.ReverseFanSpeedDirection": true,
}

type clientMeth struct {
	name       string
	fn         reflect.Value
	req        reflect.Type                   // the request struct type
	srvFn      reflect.Value                  // the same method of the wrapped server, if known (unary only)
	readTarget protoreflect.MessageDescriptor // the message a read_mask applies to, or nil
}

type modelMeth struct {
	name   string
	fn     reflect.Value
	t      reflect.Type
	wTgt   protoreflect.MessageDescriptor // message update paths apply to, or nil
	rTgt   protoreflect.MessageDescriptor // message read paths apply to, or nil
	isPull bool
}

// target is shared by all goroutines of a round; everything in it is immutable after setup except the
// library objects behind the reflect.Values and the atomic pool of observed ids.
type target struct {
	pkg     string
	kp      string   // prefix of the counter names
	names   []string // values for the top level "name" field of requests
	unary   []clientMeth
	streams []clientMeth
	model   []modelMeth
	pool    [8]atomic.Pointer[string]
	poolN   atomic.Uint32
}

func newTarget(pkg string, names ...string) *target {
	if len(names) == 0 {
		names = []string{"dev"}
	}
	return &target{pkg: pkg, kp: "traits." + pkg, names: names}
}

func msgDesc(t reflect.Type) protoreflect.MessageDescriptor {
	if t.Kind() != reflect.Ptr || !t.Implements(protoMsgType) {
		return nil
	}
	return reflect.New(t.Elem()).Interface().(proto.Message).ProtoReflect().Descriptor()
}

func isWKT(d protoreflect.MessageDescriptor) bool {
	return strings.HasPrefix(string(d.FullName()), "google.protobuf.")
}

// payloadOf finds the message a mask refers to inside a response or change message.
func payloadOf(d protoreflect.MessageDescriptor, depth int) protoreflect.MessageDescriptor {
	if d == nil {
		return nil
	}
	n := string(d.Name())
	if !strings.HasSuffix(n, "Response") && !strings.HasSuffix(n, "Change") {
		return d
	}
	if depth > 2 {
		return nil
	}
	fds := d.Fields()
	for i := 0; i < fds.Len(); i++ {
		fd := fds.Get(i)
		if fd.Message() != nil && !fd.IsMap() && !isWKT(fd.Message()) {
			return payloadOf(fd.Message(), depth+1)
		}
	}
	return nil
}

// addClient registers the unary and server streaming methods of a generated client.
func (tg *target) addClient(c any) {
	v := reflect.ValueOf(c)
	t := v.Type()
	var srv reflect.Value
	if u, ok := c.(interface{ Unwrap() any }); ok {
		srv = reflect.ValueOf(u.Unwrap())
	}
	for i := 0; i < t.NumMethod(); i++ {
		name := t.Method(i).Name
		if deniedClientMethods[tg.pkg+"."+name] {
			continue
		}
		fn := v.Method(i)
		ft := fn.Type()
		if ft.NumIn() != 3 || !ft.IsVariadic() || ft.In(0) != ctxType || ft.In(2) != callOptsType || ft.NumOut() != 2 || ft.Out(1) != errType {
			continue
		}
		if msgDesc(ft.In(1)) == nil {
			continue
		}
		out := ft.Out(0)
		cm := clientMeth{name: name, fn: fn, req: ft.In(1).Elem()}
		switch {
		case out.Kind() == reflect.Ptr && out.Implements(protoMsgType):
			cm.readTarget = payloadOf(msgDesc(out), 0)
			if srv.IsValid() {
				if sf := srv.MethodByName(name); sf.IsValid() && sf.Type().NumIn() == 2 && sf.Type().In(1) == ft.In(1) && sf.Type().NumOut() == 2 {
					cm.srvFn = sf
				}
			}
			tg.unary = append(tg.unary, cm)
		case out.Kind() == reflect.Interface && out.Implements(clientStreamType):
			recv, ok := out.MethodByName("Recv")
			if !ok || recv.Type.NumOut() != 2 {
				continue
			}
			cm.readTarget = payloadOf(msgDesc(recv.Type.Out(0)), 0)
			tg.streams = append(tg.streams, cm)
		}
	}
}

// addModel registers the exported methods of a model whose arguments can be generated.
func (tg *target) addModel(m any) {
	if m == nil {
		return
	}
	v := reflect.ValueOf(m)
	t := v.Type()
	for i := 0; i < t.NumMethod(); i++ {
		fn := v.Method(i)
		ft := fn.Type()
		mm := modelMeth{name: t.Method(i).Name, fn: fn, t: ft}
		ok := true
		for j := 0; j < ft.NumIn() && ok; j++ {
			in := ft.In(j)
			if ft.IsVariadic() && j == ft.NumIn()-1 {
				continue // nothing, or generated options
			}
			switch {
			case in == ctxType:
			case msgDesc(in) != nil:
				if mm.wTgt == nil {
					mm.wTgt = msgDesc(in)
				}
			default:
				switch in.Kind() {
				case reflect.String, reflect.Bool, reflect.Int, reflect.Int32, reflect.Int64, reflect.Uint32, reflect.Uint64, reflect.Float32, reflect.Float64:
				default:
					ok = false
				}
			}
		}
		if !ok {
			continue
		}
		for j := 0; j < ft.NumOut(); j++ {
			out := ft.Out(j)
			switch {
			case msgDesc(out) != nil:
				if mm.rTgt == nil {
					mm.rTgt = payloadOf(msgDesc(out), 0)
				}
			case out.Kind() == reflect.Slice && msgDesc(out.Elem()) != nil:
				if mm.rTgt == nil {
					mm.rTgt = payloadOf(msgDesc(out.Elem()), 0)
				}
			case out.Kind() == reflect.Chan:
				mm.isPull = true
				e := out.Elem()
				if d := msgDesc(e); d != nil {
					mm.rTgt = payloadOf(d, 0)
				} else if e.Kind() == reflect.Struct {
					for k := 0; k < e.NumField(); k++ {
						if d := msgDesc(e.Field(k).Type); d != nil && !isWKT(d) {
							mm.rTgt = d
							break
						}
					}
				}
			}
		}
		tg.model = append(tg.model, mm)
	}
}

// ---- ids seen in responses, so that Get/Update/Delete by id hit existing records ----

func (tg *target) remember(s string) {
	if s == "" || len(s) > 64 {
		return
	}
	i := tg.poolN.Add(1) % uint32(len(tg.pool))
	tg.pool[i].Store(&s)
}

var fixedStrings = []string{"a", "b", "c", "1", "2", "", "dev"}

func (tg *target) str(r *rnd) string {
	if r.chance(45) {
		if p := tg.pool[r.intn(len(tg.pool))].Load(); p != nil {
			return *p
		}
	}
	return r.pick(fixedStrings)
}

var idFields = []protoreflect.Name{"id", "name", "consumable"}

// observe reads a message received from the library (it is never written) and remembers its ids.
func (tg *target) observe(m proto.Message) {
	if m == nil {
		return
	}
	touch(m)
	pm := m.ProtoReflect()
	if !pm.IsValid() {
		return
	}
	tg.observeMsg(pm, 0)
}

func (tg *target) observeMsg(pm protoreflect.Message, depth int) {
	fds := pm.Descriptor().Fields()
	if depth > 0 {
		for _, n := range idFields {
			if fd := fds.ByName(n); fd != nil && fd.Kind() == protoreflect.StringKind && !fd.IsList() {
				tg.remember(pm.Get(fd).String())
			}
		}
	}
	if depth >= 2 {
		return
	}
	if depth == 0 {
		// a plain resource is its own record
		if fd := fds.ByName("id"); fd != nil && fd.Kind() == protoreflect.StringKind && !fd.IsList() {
			tg.remember(pm.Get(fd).String())
		}
	}
	for i := 0; i < fds.Len(); i++ {
		fd := fds.Get(i)
		if fd.Message() == nil || fd.IsMap() || isWKT(fd.Message()) {
			continue
		}
		if fd.IsList() {
			l := pm.Get(fd).List()
			for j := 0; j < l.Len() && j < 2; j++ {
				tg.observeMsg(l.Get(j).Message(), depth+1)
			}
		} else if pm.Has(fd) {
			tg.observeMsg(pm.Get(fd).Message(), depth+1)
		}
	}
}

// readAny reads a value received from the library: proto messages are cloned, everything else is looked at.
func (tg *target) readAny(v reflect.Value, depth int) {
	if !v.IsValid() || depth > 4 {
		return
	}
	if v.CanInterface() {
		switch x := v.Interface().(type) {
		case proto.Message:
			if v.Kind() != reflect.Ptr || !v.IsNil() {
				tg.observe(x)
			}
			return
		case time.Time:
			_ = x.UnixNano()
			return
		}
	}
	switch v.Kind() {
	case reflect.Ptr, reflect.Interface:
		if !v.IsNil() {
			tg.readAny(v.Elem(), depth+1)
		}
	case reflect.Struct:
		for i := 0; i < v.NumField(); i++ {
			if v.Type().Field(i).IsExported() {
				tg.readAny(v.Field(i), depth+1)
			}
		}
	case reflect.Slice:
		for i := 0; i < v.Len(); i++ {
			tg.readAny(v.Index(i), depth+1)
		}
	case reflect.String:
		_ = v.Len()
	case reflect.Bool:
		_ = v.Bool()
	case reflect.Int, reflect.Int32, reflect.Int64:
		_ = v.Int()
	case reflect.Float32, reflect.Float64:
		_ = v.Float()
	}
}

// ---- message generation ----

type gen struct {
	r          *rnd
	tg         *target
	readTarget protoreflect.MessageDescriptor
}

func (g *gen) scalar(fd protoreflect.FieldDescriptor) protoreflect.Value {
	r := g.r
	switch fd.Kind() {
	case protoreflect.BoolKind:
		return protoreflect.ValueOfBool(r.chance(50))
	case protoreflect.EnumKind:
		vals := fd.Enum().Values()
		return protoreflect.ValueOfEnum(vals.Get(r.intn(vals.Len())).Number())
	case protoreflect.Int32Kind, protoreflect.Sint32Kind, protoreflect.Sfixed32Kind:
		return protoreflect.ValueOfInt32(int32(r.intn(7)) - 1)
	case protoreflect.Int64Kind, protoreflect.Sint64Kind, protoreflect.Sfixed64Kind:
		return protoreflect.ValueOfInt64(int64(r.intn(7)) - 1)
	case protoreflect.Uint32Kind, protoreflect.Fixed32Kind:
		return protoreflect.ValueOfUint32(uint32(r.intn(6)))
	case protoreflect.Uint64Kind, protoreflect.Fixed64Kind:
		return protoreflect.ValueOfUint64(uint64(r.intn(6)))
	case protoreflect.FloatKind:
		return protoreflect.ValueOfFloat32(float32(r.intn(101)))
	case protoreflect.DoubleKind:
		return protoreflect.ValueOfFloat64(float64(r.intn(101)))
	case protoreflect.StringKind:
		return protoreflect.ValueOfString(g.tg.str(r))
	case protoreflect.BytesKind:
		return protoreflect.ValueOfBytes([]byte{byte(r.intn(256))})
	}
	return protoreflect.Value{}
}

func (g *gen) fill(m protoreflect.Message, depth int) {
	r := g.r
	fds := m.Descriptor().Fields()
	for i := 0; i < fds.Len(); i++ {
		fd := fds.Get(i)
		switch {
		case fd.IsMap():
			if !r.chance(30) {
				continue
			}
			mp := m.Mutable(fd).Map()
			for j := 0; j < 1+r.intn(2); j++ {
				k := g.scalar(fd.MapKey()).MapKey()
				if fd.MapValue().Message() != nil {
					if depth >= 3 {
						break
					}
					nv := mp.NewValue()
					if !isWKT(fd.MapValue().Message()) {
						g.fill(nv.Message(), depth+1)
					}
					mp.Set(k, nv)
				} else {
					mp.Set(k, g.scalar(fd.MapValue()))
				}
			}
		case fd.IsList():
			if !r.chance(35) {
				continue
			}
			l := m.Mutable(fd).List()
			for j := 0; j < 1+r.intn(2); j++ {
				if fd.Message() != nil {
					if depth >= 3 {
						break
					}
					e := l.NewElement()
					g.fillMessageField(e.Message(), depth+1)
					l.Append(e)
				} else {
					l.Append(g.scalar(fd))
				}
			}
		case fd.Message() != nil:
			if fd.Message().FullName() == "google.protobuf.FieldMask" {
				continue // see masks
			}
			if fd.ContainingOneof() != nil && !r.chance(50) {
				continue
			}
			p := 40
			if isWKT(fd.Message()) {
				p = 50
			}
			if depth == 0 {
				p = 100 // the payload of a request: handlers do not expect it to be missing
			}
			if depth < 3 && r.chance(p) {
				g.fillMessageField(m.Mutable(fd).Message(), depth+1)
			}
		default:
			if depth == 0 && fd.Name() == "name" && fd.Kind() == protoreflect.StringKind {
				m.Set(fd, protoreflect.ValueOfString(r.pick(g.tg.names)))
				continue
			}
			if fd.ContainingOneof() != nil && !r.chance(40) {
				continue
			}
			if r.chance(65) {
				m.Set(fd, g.scalar(fd))
			}
		}
	}
	if depth == 0 {
		g.masks(m)
	}
}

func (g *gen) fillMessageField(m protoreflect.Message, depth int) {
	d := m.Descriptor()
	switch d.FullName() {
	case "google.protobuf.Timestamp":
		m.Set(d.Fields().ByName("seconds"), protoreflect.ValueOfInt64(int64(g.r.intn(100000))))
	case "google.protobuf.Duration":
		// short, so that tweens and the like end within a round
		m.Set(d.Fields().ByName("nanos"), protoreflect.ValueOfInt32(int32(g.r.intn(40_000_000))))
	default:
		if isWKT(d) {
			return
		}
		g.fill(m, depth)
	}
}

func somePaths(r *rnd, d protoreflect.MessageDescriptor) []string {
	fds := d.Fields()
	if fds.Len() == 0 {
		return nil
	}
	var paths []string
	for i := 0; i < 1+r.intn(2); i++ {
		paths = append(paths, string(fds.Get(r.intn(fds.Len())).Name()))
	}
	if r.chance(4) {
		paths = append(paths, "no_such_field")
	}
	return paths
}

// masks sets the top level field masks of a request: nil, or valid top level paths of the message they refer to.
func (g *gen) masks(m protoreflect.Message) {
	fds := m.Descriptor().Fields()
	for i := 0; i < fds.Len(); i++ {
		fd := fds.Get(i)
		if fd.Message() == nil || fd.IsList() || fd.IsMap() || fd.Message().FullName() != "google.protobuf.FieldMask" {
			continue
		}
		var tgt protoreflect.MessageDescriptor
		switch fd.Name() {
		case "update_mask":
			for j := 0; j < fds.Len(); j++ {
				o := fds.Get(j)
				if o.Message() != nil && !o.IsList() && !o.IsMap() && !isWKT(o.Message()) {
					tgt = o.Message()
					break
				}
			}
		case "read_mask":
			tgt = g.readTarget
		}
		if tgt == nil || !g.r.chance(45) {
			continue
		}
		fm := m.Mutable(fd).Message()
		l := fm.Mutable(fm.Descriptor().Fields().ByName("paths")).List()
		for _, p := range somePaths(g.r, tgt) {
			l.Append(protoreflect.ValueOfString(p))
		}
	}
}

func (tg *target) newMessage(r *rnd, t reflect.Type, readTarget protoreflect.MessageDescriptor) reflect.Value {
	v := reflect.New(t)
	g := &gen{r: r, tg: tg, readTarget: readTarget}
	g.fillMessageField(v.Interface().(proto.Message).ProtoReflect(), 0)
	return v
}

// ---- calls ----

func (tg *target) recovered(rd *round) {
	if p := recover(); p != nil {
		rd.st.op("panic.recovered:" + tg.pkg)
	}
}

func (tg *target) callUnary(rd *round, r *rnd) {
	if len(tg.unary) == 0 {
		return
	}
	defer tg.recovered(rd)
	m := tg.unary[r.intn(len(tg.unary))]
	ctx, cancel := context.WithCancel(rd.ctx)
	defer cancel()
	if r.chance(15) {
		t := time.AfterFunc(time.Duration(r.intn(300))*time.Microsecond, cancel)
		defer t.Stop()
	}
	if r.chance(20) {
		ctx = metadata.AppendToOutgoingContext(ctx, "k", "v")
	}
	req := tg.newMessage(r, m.req, m.readTarget)
	if fix := requestFixes[tg.pkg]; fix != nil {
		fix(req.Interface().(proto.Message))
	}
	if m.srvFn.IsValid() {
		// A handler that panics does so on a goroutine of the wrapper where nobody can recover.  The same
		// request is first given to the server directly (servers are called like this by a grpc.Server, it
		// is one more concurrent call): if that panics the request is not sent through the wrapper.
		probe := proto.Clone(req.Interface().(proto.Message))
		outs := m.srvFn.Call([]reflect.Value{reflect.ValueOf(ctx), reflect.ValueOf(probe)})
		if outs[1].IsNil() {
			tg.observe(outs[0].Interface().(proto.Message))
		}
		rd.st.op(tg.kp + ".direct")
	}
	args := []reflect.Value{reflect.ValueOf(ctx), req}
	var h, t metadata.MD
	if r.chance(30) {
		args = append(args, reflect.ValueOf(grpc.Header(&h)), reflect.ValueOf(grpc.Trailer(&t)))
	}
	outs := m.fn.Call(args)
	_ = readMD(h) + readMD(t)
	if !outs[1].IsNil() {
		_ = outs[1].Interface().(error).Error()
		rd.st.op(tg.kp + ".unary.err")
		return
	}
	tg.observe(outs[0].Interface().(proto.Message))
	rd.st.op(tg.kp + ".unary.ok")
}

func (tg *target) callStream(rd *round, r *rnd) {
	if len(tg.streams) == 0 {
		return
	}
	defer tg.recovered(rd)
	m := tg.streams[r.intn(len(tg.streams))]
	ctx, cancel := context.WithCancel(rd.ctx)
	defer cancel()
	// the caller's context ends at a random point: before the headers, between messages, ...
	tm := time.AfterFunc(time.Duration(50+r.intn(6000))*time.Microsecond, cancel)
	defer tm.Stop()
	outs := m.fn.Call([]reflect.Value{reflect.ValueOf(ctx), tg.newMessage(r, m.req, m.readTarget)})
	if !outs[1].IsNil() {
		rd.st.op(tg.kp + ".pull.err")
		return
	}
	cs := outs[0].Interface().(grpc.ClientStream)
	recv := outs[0].Elem().MethodByName("Recv")
	_ = cs.Context().Err()
	if r.chance(40) {
		h, _ := cs.Header()
		_ = readMD(h)
	}
	n := r.intn(4)
	got := 0
	ended := false
	for i := 0; i < n && !ended; i++ {
		res := recv.Call(nil)
		if !res[1].IsNil() {
			ended = true
			break
		}
		tg.observe(res[0].Interface().(proto.Message))
		got++
	}
	if !ended && r.chance(60) {
		if r.chance(50) {
			cancel()
		}
		for !ended {
			res := recv.Call(nil)
			if !res[1].IsNil() {
				ended = true
				break
			}
			tg.observe(res[0].Interface().(proto.Message))
			got++
		}
	}
	if ended {
		// Recv has returned a non-nil error: Trailer and Header may be called now
		_ = readMD(cs.Trailer())
		h, _ := cs.Header()
		_ = readMD(h)
	}
	if got > 0 {
		rd.st.op(tg.kp + ".pull.recv")
	} else {
		rd.st.op(tg.kp + ".pull.empty")
	}
}

// mutate changes a numeric field of the message an InterceptBefore/InterceptAfter callback may modify.
func mutate(m proto.Message, n int) {
	pm := m.ProtoReflect()
	if !pm.IsValid() {
		return
	}
	fds := pm.Descriptor().Fields()
	for i := 0; i < fds.Len(); i++ {
		fd := fds.Get(i)
		if fd.IsList() || fd.IsMap() || fd.ContainingOneof() != nil {
			continue
		}
		switch fd.Kind() {
		case protoreflect.FloatKind:
			pm.Set(fd, protoreflect.ValueOfFloat32(float32(n)))
			return
		case protoreflect.Int32Kind:
			pm.Set(fd, protoreflect.ValueOfInt32(int32(n)))
			return
		case protoreflect.BoolKind:
			pm.Set(fd, protoreflect.ValueOfBool(n%2 == 0))
			return
		}
	}
}

func (tg *target) writeOpts(r *rnd, tgt protoreflect.MessageDescriptor) []reflect.Value {
	var out []reflect.Value
	for i := 0; i < r.intn(3); i++ {
		var o resource.WriteOption
		switch r.intn(10) {
		case 0, 1:
			if tgt == nil {
				continue
			}
			o = resource.WithUpdatePaths(somePaths(r, tgt)...)
		case 2:
			n, mut := r.intn(50), r.chance(50)
			o = resource.InterceptBefore(func(old, new proto.Message) {
				touch(old)
				touch(new)
				if mut {
					mutate(new, n)
				}
			})
		case 3:
			n, mut := r.intn(50), r.chance(50)
			o = resource.InterceptAfter(func(old, new proto.Message) {
				touch(old)
				touch(new)
				if mut {
					mutate(new, n)
				}
			})
		case 4:
			o = resource.WithAllowMissing(r.chance(50))
		case 5:
			o = resource.WithCreateIfAbsent()
		case 6:
			o = resource.WithExpectedCheck(func(m proto.Message) error {
				touch(m)
				return nil
			})
		case 7:
			o = resource.WithWriteTime(time.Unix(int64(r.intn(1000)), 0))
		case 8:
			o = resource.WithCreatedCallback(func() {})
		default:
			if tgt == nil {
				continue
			}
			o = resource.WithUpdateMask(&fieldmaskpb.FieldMask{Paths: somePaths(r, tgt)})
		}
		out = append(out, reflect.ValueOf(o))
	}
	return out
}

func (tg *target) readOpts(r *rnd, tgt protoreflect.MessageDescriptor, pull bool) []reflect.Value {
	var out []reflect.Value
	for i := 0; i < r.intn(3); i++ {
		var o resource.ReadOption
		switch r.intn(4) {
		case 0:
			if tgt == nil {
				continue
			}
			o = resource.WithReadMask(&fieldmaskpb.FieldMask{Paths: somePaths(r, tgt)})
		case 1:
			o = resource.WithUpdatesOnly(r.chance(50))
		case 2:
			o = resource.WithBackpressure(r.chance(50))
		default:
			keep := r.intn(3)
			o = resource.WithInclude(func(id string, m proto.Message) bool {
				touch(m)
				return keep > 0 || len(id)%2 == 0
			})
		}
		out = append(out, reflect.ValueOf(o))
	}
	return out
}

func (tg *target) callModel(rd *round, r *rnd) {
	if len(tg.model) == 0 {
		return
	}
	defer tg.recovered(rd)
	m := tg.model[r.intn(len(tg.model))]
	ft := m.t
	ctx, cancel := context.WithCancel(rd.ctx)
	defer cancel()
	var args []reflect.Value
	for j := 0; j < ft.NumIn(); j++ {
		in := ft.In(j)
		if ft.IsVariadic() && j == ft.NumIn()-1 {
			switch e := in.Elem(); {
			case e == writeOptType:
				args = append(args, tg.writeOpts(r, m.wTgt)...)
			case e == readOptType:
				args = append(args, tg.readOpts(r, m.rTgt, m.isPull)...)
			case e.Kind() == reflect.String:
				for k := 0; k < r.intn(3); k++ {
					args = append(args, reflect.ValueOf(tg.str(r)).Convert(e))
				}
			}
			continue
		}
		switch {
		case in == ctxType:
			args = append(args, reflect.ValueOf(ctx))
		case in.Kind() == reflect.Ptr:
			args = append(args, tg.newMessage(r, in.Elem(), nil))
		default:
			v := reflect.New(in).Elem()
			switch in.Kind() {
			case reflect.String:
				v.SetString(tg.str(r))
			case reflect.Bool:
				v.SetBool(r.chance(50))
			case reflect.Int, reflect.Int32, reflect.Int64:
				v.SetInt(int64(r.intn(6)))
			case reflect.Uint32, reflect.Uint64:
				v.SetUint(uint64(r.intn(6)))
			case reflect.Float32, reflect.Float64:
				v.SetFloat(float64(r.intn(101)))
			}
			args = append(args, v)
		}
	}
	outs := m.fn.Call(args)
	for _, o := range outs {
		if o.Kind() == reflect.Chan {
			tg.consume(rd, r, o, cancel)
			continue
		}
		if o.Type() == errType {
			if !o.IsNil() {
				_ = o.Interface().(error).Error()
			}
			continue
		}
		tg.readAny(o, 0)
	}
	if m.isPull {
		rd.st.op(tg.kp + ".model.pull")
	} else {
		rd.st.op(tg.kp + ".model.call")
	}
}

// consume reads a few events from a channel returned by a model, cancels the subscription and drains the
// channel until the model closes it (some forwarders only stop when their channel is drained).
func (tg *target) consume(rd *round, r *rnd, ch reflect.Value, cancel context.CancelFunc) {
	tm := time.NewTimer(time.Duration(1+r.intn(8)) * time.Millisecond)
	cases := []reflect.SelectCase{
		{Dir: reflect.SelectRecv, Chan: ch},
		{Dir: reflect.SelectRecv, Chan: reflect.ValueOf(tm.C)},
	}
	n := r.intn(4)
	closed := false
	for i := 0; i < n; i++ {
		chosen, v, ok := reflect.Select(cases)
		if chosen == 1 {
			break
		}
		if !ok {
			closed = true
			break
		}
		tg.readAny(v, 0)
	}
	tm.Stop()
	if cancel != nil {
		cancel()
	}
	if closed {
		return
	}
	safety := time.NewTimer(2 * time.Second)
	defer safety.Stop()
	cases[1].Chan = reflect.ValueOf(safety.C)
	for {
		chosen, v, ok := reflect.Select(cases)
		if chosen == 1 {
			rd.st.op(tg.kp + ".drain.timeout")
			return
		}
		if !ok {
			return
		}
		tg.readAny(v, 0)
	}
}

// step issues one random call against the target.
func (tg *target) step(rd *round, r *rnd) {
	switch k := r.intn(10); {
	case k < 4:
		tg.callUnary(rd, r)
	case k < 6:
		tg.callStream(rd, r)
	default:
		if len(tg.model) == 0 {
			tg.callUnary(rd, r)
		} else {
			tg.callModel(rd, r)
		}
	}
}
