// Command c11w is the C11 workload program.  It is built with -race by the c11 orchestrator and
// run once per workload: `c11w -workload value -seed N -dur 4s -g 0`.  Every workload creates
// fresh objects in rounds, lets 4-16 goroutines issue a random mix of public API calls on them,
// cancels everything, waits, and starts over until the duration is used up.  The program itself
// shares nothing between its goroutines except the library objects under test and atomic counters,
// and it never touches a message after handing it to the library (callbacks only read what they
// are given; results returned by the library are clones owned by the caller).
// Race reports go to the GORACE log_path; a JSON line with counters is printed on stdout.
package main

import (
	"context"
	"encoding/json"
	"flag"
	"fmt"
	"os"
	"sort"
	"sync"
	"sync/atomic"
	"time"
)

// rnd is splitmix64 (same stream construction as vcoq.Rand); one per goroutine, never shared.
type rnd struct{ s uint64 }

func newRnd(seed uint64) *rnd { return &rnd{s: seed*0x9E3779B97F4A7C15 + 0x1234567} }
func (r *rnd) u64() uint64 {
	r.s += 0x9E3779B97F4A7C15
	z := r.s
	z = (z ^ (z >> 30)) * 0xBF58476D1CE4E5B9
	z = (z ^ (z >> 27)) * 0x94D049BB133111EB
	return z ^ (z >> 31)
}
func (r *rnd) intn(n int) int {
	if n <= 0 {
		return 0
	}
	return int(r.u64() % uint64(n))
}
func (r *rnd) chance(p int) bool      { return r.intn(100) < p }
func (r *rnd) pick(l []string) string { return l[r.intn(len(l))] }

// counters, all atomic
type stats struct {
	ops     atomic.Int64
	rounds  atomic.Int64
	maxG    atomic.Int64
	byKind  sync.Map // string -> *atomic.Int64
	started time.Time
}

func (s *stats) op(kind string) {
	s.ops.Add(1)
	v, ok := s.byKind.Load(kind)
	if !ok {
		v, _ = s.byKind.LoadOrStore(kind, new(atomic.Int64))
	}
	v.(*atomic.Int64).Add(1)
}

// a round: objects are created by setup (single goroutine), g goroutines run body(gid) in a loop
// until the round context ends, then teardown.
type round struct {
	ctx context.Context
	st  *stats
}

type workload func(rd *round, seed uint64, g int)

var workloads = map[string]workload{}

// spawn runs g goroutines, each calling step repeatedly with its own PRNG until ctx is done.
func (rd *round) spawn(seed uint64, g int, step func(gid int, r *rnd)) {
	var wg sync.WaitGroup
	wg.Add(g)
	for i := 0; i < g; i++ {
		i := i
		go func() {
			defer wg.Done()
			r := newRnd(seed*1000 + uint64(i))
			for rd.ctx.Err() == nil {
				step(i, r)
			}
		}()
	}
	wg.Wait()
}

func main() {
	name := flag.String("workload", "", "workload name")
	seed := flag.Uint64("seed", 1, "seed")
	dur := flag.Duration("dur", 4*time.Second, "total duration")
	roundDur := flag.Duration("round", 250*time.Millisecond, "duration of one round")
	gflag := flag.Int("g", 0, "goroutines per round (0: 4-16 chosen per round from the seed)")
	list := flag.Bool("list", false, "list workloads")
	flag.Parse()
	if *list {
		var names []string
		for k := range workloads {
			names = append(names, k)
		}
		sort.Strings(names)
		for _, n := range names {
			fmt.Println(n)
		}
		return
	}
	w, ok := workloads[*name]
	if !ok {
		fmt.Fprintln(os.Stderr, "unknown workload", *name)
		os.Exit(2)
	}
	st := &stats{started: time.Now()}
	top := newRnd(*seed)
	deadline := time.Now().Add(*dur)
	for time.Now().Before(deadline) {
		g := *gflag
		if g == 0 {
			g = 4 + top.intn(13)
		}
		if int64(g) > st.maxG.Load() {
			st.maxG.Store(int64(g))
		}
		ctx, cancel := context.WithTimeout(context.Background(), *roundDur)
		w(&round{ctx: ctx, st: st}, top.u64(), g)
		cancel()
		st.rounds.Add(1)
	}
	kinds := map[string]int64{}
	st.byKind.Range(func(k, v any) bool { kinds[k.(string)] = v.(*atomic.Int64).Load(); return true })
	out := map[string]any{
		"workload": *name, "seed": *seed, "ops": st.ops.Load(), "rounds": st.rounds.Load(),
		"max_goroutines": st.maxG.Load(), "seconds": time.Since(st.started).Seconds(), "kinds": kinds,
	}
	b, _ := json.Marshal(out)
	fmt.Println(string(b))
}
