//go:build !c14table

// Construction-time options of the discovered servers.  table.go passes ctorOpts("<pkg>.<Ctor>")... to
// every constructor that takes ...resource.Option; the options are drawn per history (drawCtorOpts) from
// the small hand-written alphabets below, so that models are not only the default ones: initial values,
// presets that describe all / a subset / none of what the device holds.  optionFuncs (scan of the tree)
// lists every With* option function of the discovered packages; the ones no alphabet uses are reported in
// the evidence (coverage_extra.ctor_options_not_driven).
package main

import (
	"fmt"
	"go/ast"
	"go/parser"
	"go/token"
	"os"
	"path/filepath"
	"reflect"
	"sort"
	"strings"
	"time"
	"unsafe"

	"github.com/smart-core-os/sc-api/go/traits"
	"github.com/smart-core-os/sc-golang/pkg/resource"
	"github.com/smart-core-os/sc-golang/pkg/trait/airtemperaturepb"
	"github.com/smart-core-os/sc-golang/pkg/trait/lightpb"
	"github.com/smart-core-os/sc-golang/pkg/trait/onoffpb"
	"github.com/smart-core-os/sc-golang/pkg/trait/openclosepb"
	"github.com/smart-core-os/sc-golang/verifharness/vcoq"
	"github.com/smart-core-os/sc-golang/verifharness/vmsg"
)

// what the current history's server was built with
type ctorCfg struct {
	opts map[string][]resource.Option
	desc []string // for the replay
	// openclosepb: preset name -> number of positions it writes; names the generator may ask for
	ocPresets map[string]int
	// lightpb model: preset names
	lightPresets []string
}

var curCfg = &ctorCfg{}

func ctorOpts(ctor string) []resource.Option { return curCfg.opts[ctor] }

var ocDirs = []traits.OpenClosePosition_Direction{traits.OpenClosePosition_UP, traits.OpenClosePosition_DOWN, traits.OpenClosePosition_IN}

// option functions used by the alphabets below (pkg.Func)
var drivenOptions = map[string]bool{
	"openclosepb.WithPreset": true, "openclosepb.WithInitialPositions": true,
	"lightpb.WithPreset": true, "lightpb.WithInitialBrightness": true,
	"onoffpb.WithInitialOnOff": true, "airtemperaturepb.WithInitialAirTemperature": true,
}

func drawCtorOpts(r *vcoq.Rand, t Target, h int) *ctorCfg {
	c := &ctorCfg{opts: map[string][]resource.Option{}, ocPresets: map[string]int{}}
	if h%3 == 0 { // every third history: the default model
		return c
	}
	add := func(ctor string, what string, o resource.Option) {
		c.opts[ctor] = append(c.opts[ctor], o)
		c.desc = append(c.desc, what)
	}
	switch t.Server.Pkg {
	case "openclosepb":
		// what the device holds initially: a random subset of the directions
		var initial []*traits.OpenClosePosition
		for _, d := range ocDirs {
			if r.Chance(50) {
				initial = append(initial, &traits.OpenClosePosition{Direction: d, OpenPercent: float32(r.Intn(3) * 10)})
			}
		}
		// presets: describing every direction held (the current positions exactly, or other percentages),
		// a strict subset of them, or directions the device does not hold
		np := r.Range(1, 2)
		for k := 0; k < np; k++ {
			name := []string{"shade", "night"}[k]
			var ps []*traits.OpenClosePosition
			mode := r.Intn(4)
			for _, d := range ocDirs {
				var cur *traits.OpenClosePosition
				for _, p := range initial {
					if p.Direction == d {
						cur = p
					}
				}
				switch mode {
				case 0: // exactly what the device holds: the derived preset field is populated from the start
					if cur != nil {
						ps = append(ps, &traits.OpenClosePosition{Direction: d, OpenPercent: cur.OpenPercent})
					}
				case 1: // every direction held, other values
					if cur != nil {
						ps = append(ps, &traits.OpenClosePosition{Direction: d, OpenPercent: float32(10 + 20*k)})
					}
				case 2: // a subset of the directions
					if r.Chance(50) {
						ps = append(ps, &traits.OpenClosePosition{Direction: d, OpenPercent: float32(10 + 20*k)})
					}
				default: // any directions
					if r.Chance(60) {
						ps = append(ps, &traits.OpenClosePosition{Direction: d, OpenPercent: float32(r.Intn(3) * 10)})
					}
				}
			}
			if len(ps) == 0 {
				ps = append(ps, &traits.OpenClosePosition{Direction: ocDirs[r.Intn(len(ocDirs))], OpenPercent: float32(10 + 20*k)})
			}
			c.ocPresets[name] = len(ps)
			add("openclosepb.NewModel", fmt.Sprintf("WithPreset(%s: %s)", name, descPositions(ps)),
				openclosepb.WithPreset(&traits.OpenClosePositions_Preset{Name: name, Title: strings.Title(name)}, ps...))
		}
		if len(initial) > 0 {
			add("openclosepb.NewModel", "WithInitialPositions("+descPositions(initial)+")", openclosepb.WithInitialPositions(initial...))
		}
	case "lightpb":
		nl := r.Range(1, 2)
		for k := 0; k < nl; k++ {
			name := []string{"dim", "bright"}[k]
			lvl := float32([]int{20, 100}[k])
			c.lightPresets = append(c.lightPresets, name)
			add("lightpb.NewModel", fmt.Sprintf("WithPreset(%v, %s)", lvl, name), lightpb.WithPreset(lvl, &traits.LightPreset{Name: name, Title: strings.Title(name)}))
		}
		if r.Chance(50) {
			add("lightpb.NewModel", "WithInitialBrightness(level_percent: 40)", lightpb.WithInitialBrightness(&traits.Brightness{LevelPercent: 40}))
		}
	case "onoffpb":
		st := traits.OnOff_State(r.Intn(3))
		add("onoffpb.NewModel", fmt.Sprintf("WithInitialOnOff(%v)", st), onoffpb.WithInitialOnOff(&traits.OnOff{State: st}))
	case "airtemperaturepb":
		m := vmsg.RandMsg(r, &traits.AirTemperature{}, vmsg.RandCfg{FieldPct: 50, Depth: 2, MaxList: 1}).(*traits.AirTemperature)
		add("airtemperaturepb.NewModel", "WithInitialAirTemperature(random)", airtemperaturepb.WithInitialAirTemperature(m))
	}
	return c
}

func descPositions(ps []*traits.OpenClosePosition) string {
	var ss []string
	for _, p := range ps {
		ss = append(ss, fmt.Sprintf("%v=%v", p.Direction, p.OpenPercent))
	}
	return strings.Join(ss, ",")
}

// optionFuncs lists the exported With* functions returning resource.Option in the packages of the
// discovered servers that no alphabet above uses.
func optionFuncsNotDriven(targets []Target) []string {
	pkgs := map[string]bool{}
	for _, t := range targets {
		pkgs[t.Server.Pkg] = true
	}
	var out []string
	for pkg := range pkgs {
		files, _ := filepath.Glob(filepath.Join(repoDir(), "pkg/trait", pkg, "*.go"))
		for _, f := range files {
			if strings.HasSuffix(f, "_test.go") || strings.HasSuffix(f, ".pb.go") {
				continue
			}
			fset := token.NewFileSet()
			af, err := parser.ParseFile(fset, f, nil, 0)
			if err != nil {
				continue
			}
			for _, d := range af.Decls {
				fd, ok := d.(*ast.FuncDecl)
				if !ok || fd.Recv != nil || !strings.HasPrefix(fd.Name.Name, "With") || fd.Type.Results == nil || len(fd.Type.Results.List) != 1 {
					continue
				}
				if exprString(fset, fd.Type.Results.List[0].Type) != "resource.Option" {
					continue
				}
				if !drivenOptions[pkg+"."+fd.Name.Name] {
					out = append(out, pkg+"."+fd.Name.Name)
				}
			}
		}
	}
	sort.Strings(out)
	return out
}

// ---- the tick of lightpb.MemoryDevice's ramp ----
// UpdateBrightness with a brightness_tween starts a goroutine that rewrites the value on every tick of a
// time.Ticker (private field brightnessTick, 1/15 s).  The harness sets the tick so long that no tick
// falls inside a history: a tweened Update is then an ordinary write (level kept, target and tween stored,
// progress 0) whose response, next Get and stream messages are deterministic.  Fails loudly when the field moves.
func setLightTick(srv any, d time.Duration) error {
	md, ok := srv.(*lightpb.MemoryDevice)
	if !ok {
		return fmt.Errorf("not a *lightpb.MemoryDevice: %T", srv)
	}
	f := reflect.ValueOf(md).Elem().FieldByName("brightnessTick")
	if !f.IsValid() || f.Type() != reflect.TypeOf(time.Duration(0)) {
		return fmt.Errorf("lightpb.MemoryDevice has no field brightnessTick of type time.Duration any more")
	}
	*(*time.Duration)(unsafe.Pointer(f.UnsafeAddr())) = d
	return nil
}

var _ = os.Getenv
