package main

// Discovery, done on every run: which trait servers exist in the working tree (go/parser over
// pkg/trait/*/), which Get/Update/Pull triples their services have (compiled service descriptors),
// and what is needed to build the stack WrapApi(router(WrapApi(server))) around each.

import (
	"fmt"
	"go/ast"
	"go/parser"
	"go/printer"
	"go/token"
	"os"
	"path/filepath"
	"sort"
	"strconv"
	"strings"

	_ "github.com/smart-core-os/sc-api/go/traits"
	"google.golang.org/protobuf/reflect/protoreflect"
	"google.golang.org/protobuf/reflect/protoregistry"
)

func repoDir() string {
	if d := os.Getenv("VERIF_REPO"); d != "" {
		return d
	}
	return "/repo"
}

// Triple is a Get<R>/Update<R>/Pull<R>[s] triple of one service on one resource type.
type Triple struct {
	Service  protoreflect.ServiceDescriptor
	R        string
	Get      protoreflect.MethodDescriptor
	Update   protoreflect.MethodDescriptor
	Pull     protoreflect.MethodDescriptor
	Resource protoreflect.MessageDescriptor
	UpdField protoreflect.FieldDescriptor // field of the Update request holding the resource
	Changes  protoreflect.FieldDescriptor // `changes` of the Pull response
	ChgName  protoreflect.FieldDescriptor // changes[].name
	ChgValue protoreflect.FieldDescriptor // changes[].<resource>
	Key      string                       // "" or the request field that selects an item (id, consumable)
}

func (t Triple) ID() string { return string(t.Service.Name()) + "." + t.R }

func strField(md protoreflect.MessageDescriptor, name string) protoreflect.FieldDescriptor {
	fd := md.Fields().ByName(protoreflect.Name(name))
	if fd == nil || fd.Kind() != protoreflect.StringKind || fd.IsList() {
		return nil
	}
	return fd
}

func maskField(md protoreflect.MessageDescriptor, name string) protoreflect.FieldDescriptor {
	fd := md.Fields().ByName(protoreflect.Name(name))
	if fd == nil || fd.Message() == nil || fd.Message().FullName() != "google.protobuf.FieldMask" {
		return nil
	}
	return fd
}

// triplesOf finds the triples of a service by descriptor lookup; a Get/Update pair on one resource
// type without a matching Pull, or with unexpected request shapes, is reported in skipped.
func triplesOf(sd protoreflect.ServiceDescriptor) (out []Triple, skipped []string) {
	ms := map[string]protoreflect.MethodDescriptor{}
	var names []string
	for j := 0; j < sd.Methods().Len(); j++ {
		m := sd.Methods().Get(j)
		ms[string(m.Name())] = m
		names = append(names, string(m.Name()))
	}
	sort.Strings(names)
	for _, n := range names {
		if !strings.HasPrefix(n, "Get") {
			continue
		}
		r := n[3:]
		g := ms[n]
		u, ok := ms["Update"+r]
		if !ok {
			continue
		}
		p, ok := ms["Pull"+r]
		if !ok {
			p, ok = ms["Pull"+r+"s"]
		}
		if !ok {
			continue
		}
		why := func(s string) { skipped = append(skipped, fmt.Sprintf("%s.%s: %s", sd.Name(), r, s)) }
		if g.IsStreamingClient() || g.IsStreamingServer() || u.IsStreamingClient() || u.IsStreamingServer() ||
			p.IsStreamingClient() || !p.IsStreamingServer() {
			why("unexpected streaming shape")
			continue
		}
		res := g.Output()
		if u.Output().FullName() != res.FullName() {
			why("Get and Update return different types")
			continue
		}
		t := Triple{Service: sd, R: r, Get: g, Update: u, Pull: p, Resource: res}
		for k := 0; k < u.Input().Fields().Len(); k++ {
			fd := u.Input().Fields().Get(k)
			if fd.Message() != nil && !fd.IsList() && !fd.IsMap() && fd.Message().FullName() == res.FullName() {
				t.UpdField = fd
			}
		}
		t.Changes = p.Output().Fields().ByName("changes")
		if t.UpdField == nil || t.Changes == nil || !t.Changes.IsList() || t.Changes.Message() == nil {
			why("Update request has no resource field or Pull response has no changes")
			continue
		}
		t.ChgName = strField(t.Changes.Message(), "name")
		for k := 0; k < t.Changes.Message().Fields().Len(); k++ {
			fd := t.Changes.Message().Fields().Get(k)
			if fd.Message() != nil && !fd.IsList() && fd.Message().FullName() == res.FullName() {
				t.ChgValue = fd
			}
		}
		if t.ChgName == nil || t.ChgValue == nil {
			why("changes[] lacks name or the resource")
			continue
		}
		if strField(g.Input(), "name") == nil || strField(u.Input(), "name") == nil || strField(p.Input(), "name") == nil ||
			maskField(g.Input(), "read_mask") == nil || maskField(p.Input(), "read_mask") == nil ||
			maskField(u.Input(), "update_mask") == nil || p.Input().Fields().ByName("updates_only") == nil {
			why("request lacks name/read_mask/update_mask/updates_only")
			continue
		}
		// an item selector: a string field of the Get request other than name that the Pull request has too
		for k := 0; k < g.Input().Fields().Len(); k++ {
			fd := g.Input().Fields().Get(k)
			if fd.Kind() == protoreflect.StringKind && !fd.IsList() && fd.Name() != "name" &&
				strField(p.Input(), string(fd.Name())) != nil && strField(res, string(fd.Name())) != nil {
				t.Key = string(fd.Name())
			}
		}
		out = append(out, t)
	}
	return
}

// allTriples maps a service's short name (OnOffApi) to its triples, for every linked service.
func allTriples() (map[string][]Triple, []string) {
	out := map[string][]Triple{}
	var skipped []string
	protoregistry.GlobalFiles.RangeFiles(func(fd protoreflect.FileDescriptor) bool {
		for i := 0; i < fd.Services().Len(); i++ {
			sd := fd.Services().Get(i)
			ts, sk := triplesOf(sd)
			skipped = append(skipped, sk...)
			if len(ts) > 0 {
				out[string(sd.Name())] = ts
			}
		}
		return true
	})
	return out, skipped
}

// methodsOutsideTriples lists the methods of a service that belong to no triple, so that the notes show
// nothing register-like is overlooked; a Get<R>+Pull<R>[s] pair that has an Update<R> can never be in
// this list (triplesOf either returns it or reports it as skipped).
func methodsOutsideTriples(svc string, ts []Triple) string {
	var sd protoreflect.ServiceDescriptor
	protoregistry.GlobalFiles.RangeFiles(func(fd protoreflect.FileDescriptor) bool {
		for i := 0; i < fd.Services().Len(); i++ {
			if string(fd.Services().Get(i).Name()) == svc {
				sd = fd.Services().Get(i)
			}
		}
		return true
	})
	if sd == nil {
		return ""
	}
	in := map[string]bool{}
	for _, t := range ts {
		in[string(t.Get.Name())], in[string(t.Update.Name())], in[string(t.Pull.Name())] = true, true, true
	}
	var rest []string
	for j := 0; j < sd.Methods().Len(); j++ {
		if n := string(sd.Methods().Get(j).Name()); !in[n] {
			rest = append(rest, n)
		}
	}
	sort.Strings(rest)
	return strings.Join(rest, ", ")
}

// Server is a model server / memory device type found in pkg/trait/<Pkg>.
type Server struct {
	Pkg      string            // onoffpb
	Type     string            // ModelServer
	Ctor     string            // NewModelServer
	CtorSig  string            // source text of the constructor's parameter list, and of the constructors it needs
	Args     string            // Go expression list for the call, built from the signatures
	Services []string          // OnOffApi, ... (embedded traits.Unimplemented<S>Server)
	Wrap     map[string]string // service -> WrapApi / WrapInfo ...
	Router   map[string]string // service -> NewApiRouter ...
	Eq       map[string]string // resource option name (lower case) -> "exact" | "approx"
	Methods  map[string]bool   // methods declared on the type
	PullEq   map[string]bool   // Model methods Pull<R> that de-duplicate with cmp.Equal themselves
}

func (s Server) Key() string { return s.Pkg + "." + s.Type }

func exprString(fset *token.FileSet, e ast.Expr) string {
	switch x := e.(type) {
	case *ast.Ident:
		return x.Name
	case *ast.StarExpr:
		return "*" + exprString(fset, x.X)
	case *ast.SelectorExpr:
		return exprString(fset, x.X) + "." + x.Sel.Name
	case *ast.Ellipsis:
		return "..." + exprString(fset, x.Elt)
	case *ast.ArrayType:
		return "[]" + exprString(fset, x.Elt)
	}
	return fmt.Sprintf("%T", e)
}

func srcText(fset *token.FileSet, n ast.Node) string {
	var b strings.Builder
	if err := printer.Fprint(&b, fset, n); err != nil {
		return fmt.Sprintf("%T", n)
	}
	return strings.Join(strings.Fields(b.String()), " ")
}

func paramSig(fset *token.FileSet, fd *ast.FuncDecl) string {
	var ps []string
	for _, f := range fd.Type.Params.List {
		t := exprString(fset, f.Type)
		n := len(f.Names)
		if n == 0 {
			n = 1
		}
		for i := 0; i < n; i++ {
			ps = append(ps, t)
		}
	}
	return fd.Name.Name + "(" + strings.Join(ps, ", ") + ")"
}

// callArgs builds the argument list of a constructor from its parameter types: variadic
// parameters are left out, *Model is built by NewModel, a pointer to a message type by its zero
// value, a named non-pointer type by its zero value.
func callArgs(fset *token.FileSet, pkg string, funcs map[string]*ast.FuncDecl, fd *ast.FuncDecl, depth int) (string, string, error) {
	var args []string
	sig := paramSig(fset, fd)
	for _, f := range fd.Type.Params.List {
		n := len(f.Names)
		if n == 0 {
			n = 1
		}
		for i := 0; i < n; i++ {
			switch t := f.Type.(type) {
			case *ast.Ellipsis:
				// construction-time options: drawn per history by the harness (ctoropts.go); other variadics: none
				if exprString(fset, t.Elt) == "resource.Option" {
					args = append(args, fmt.Sprintf("ctorOpts(%q)...", pkg+"."+fd.Name.Name))
				}
			case *ast.StarExpr:
				switch x := t.X.(type) {
				case *ast.Ident:
					ctor, ok := funcs["New"+x.Name]
					if !ok || depth > 2 {
						return "", "", fmt.Errorf("%s.%s: no constructor New%s for parameter of type *%s", pkg, fd.Name.Name, x.Name, x.Name)
					}
					a, s, err := callArgs(fset, pkg, funcs, ctor, depth+1)
					if err != nil {
						return "", "", err
					}
					sig += "|" + s
					args = append(args, pkg+"."+ctor.Name.Name+"("+a+")")
				case *ast.SelectorExpr:
					args = append(args, "&"+exprString(fset, x)+"{}")
				default:
					return "", "", fmt.Errorf("%s.%s: unsupported parameter type %s", pkg, fd.Name.Name, exprString(fset, f.Type))
				}
			case *ast.SelectorExpr:
				args = append(args, exprString(fset, t)+"(0)")
			default:
				return "", "", fmt.Errorf("%s.%s: unsupported parameter type %s", pkg, fd.Name.Name, exprString(fset, f.Type))
			}
		}
	}
	return strings.Join(args, ", "), sig, nil
}

// eqOptions reads DefaultModelOptions: With<X>Option(resource.WithNoDuplicates()/WithMessageEquivalence(...))
func eqOptions(fset *token.FileSet, files []*ast.File) (map[string]string, error) {
	out := map[string]string{}
	var err error
	for _, f := range files {
		for _, d := range f.Decls {
			gd, ok := d.(*ast.GenDecl)
			if !ok {
				continue
			}
			for _, sp := range gd.Specs {
				vs, ok := sp.(*ast.ValueSpec)
				if !ok || len(vs.Names) != 1 || vs.Names[0].Name != "DefaultModelOptions" {
					continue
				}
				ast.Inspect(vs, func(n ast.Node) bool {
					call, ok := n.(*ast.CallExpr)
					if !ok {
						return true
					}
					id, ok := call.Fun.(*ast.Ident)
					if !ok || !strings.HasPrefix(id.Name, "With") || !strings.HasSuffix(id.Name, "Option") {
						return true
					}
					res := strings.ToLower(strings.TrimSuffix(strings.TrimPrefix(id.Name, "With"), "Option"))
					for _, a := range call.Args {
						ac, ok := a.(*ast.CallExpr)
						if !ok {
							continue
						}
						sel, ok := ac.Fun.(*ast.SelectorExpr)
						if !ok {
							continue
						}
						switch sel.Sel.Name {
						case "WithNoDuplicates":
							out[res] = "exact"
						case "WithMessageEquivalence", "WithEquivalence":
							kind := ""
							ast.Inspect(ac, func(m ast.Node) bool {
								if c2, ok := m.(*ast.CallExpr); ok {
									if s, ok := c2.Fun.(*ast.SelectorExpr); ok && s.Sel.Name == "FloatValueApprox" {
										var lits []string
										for _, la := range c2.Args {
											lits = append(lits, srcText(fset, la))
										}
										kind = "approx(" + strings.Join(lits, ",") + ")"
									}
								}
								if s, ok := m.(*ast.SelectorExpr); ok && s.Sel.Name == "Equal" && kind == "" {
									kind = "exact"
								}
								return true
							})
							if kind == "" {
								// a comparer the source reader does not understand: the real one is taken out of
								// the constructed server and evaluated (oracle table), see comparer.go
								var as []string
								for _, la := range ac.Args {
									as = append(as, srcText(fset, la))
								}
								kind = "custom:" + strings.Join(as, ",")
							}
							out[res] = kind
						}
					}
					return false
				})
			}
		}
	}
	return out, err
}

// scanServers parses every pkg/trait/*pb directory of the working tree.
func scanServers(repo string) ([]Server, []string, error) {
	dirs, err := filepath.Glob(filepath.Join(repo, "pkg", "trait", "*pb"))
	if err != nil {
		return nil, nil, err
	}
	sort.Strings(dirs)
	var out []Server
	var notes []string
	for _, dir := range dirs {
		pkg := filepath.Base(dir)
		fset := token.NewFileSet()
		pkgs, err := parser.ParseDir(fset, dir, func(fi os.FileInfo) bool { return !strings.HasSuffix(fi.Name(), "_test.go") }, 0)
		if err != nil {
			return nil, nil, fmt.Errorf("parse %s: %w", dir, err)
		}
		p, ok := pkgs[pkg]
		if !ok {
			continue
		}
		var files []*ast.File
		var fnames []string
		for n := range p.Files {
			fnames = append(fnames, n)
		}
		sort.Strings(fnames)
		for _, n := range fnames {
			files = append(files, p.Files[n])
		}
		funcs := map[string]*ast.FuncDecl{}
		pullEq := map[string]bool{}
		methods := map[string]map[string]bool{}
		embeds := map[string][]string{}
		wrap, router := map[string]string{}, map[string]string{}
		for _, f := range files {
			for _, d := range f.Decls {
				switch x := d.(type) {
				case *ast.FuncDecl:
					if x.Recv == nil {
						funcs[x.Name.Name] = x
						if strings.HasPrefix(x.Name.Name, "Wrap") && len(x.Type.Params.List) == 1 {
							t := exprString(fset, x.Type.Params.List[0].Type)
							t = t[strings.LastIndex(t, ".")+1:]
							if strings.HasSuffix(t, "Server") {
								wrap[strings.TrimSuffix(t, "Server")] = x.Name.Name
							}
						}
						continue
					}
					rt := exprString(fset, x.Recv.List[0].Type)
					rt = strings.TrimPrefix(rt, "*")
					if methods[rt] == nil {
						methods[rt] = map[string]bool{}
					}
					methods[rt][x.Name.Name] = true
					if rt == "Model" && strings.HasPrefix(x.Name.Name, "Pull") && x.Body != nil {
						ast.Inspect(x.Body, func(n ast.Node) bool {
							if sel, ok := n.(*ast.SelectorExpr); ok && sel.Sel.Name == "Equal" {
								if id, ok := sel.X.(*ast.Ident); ok && id.Name == "cmp" {
									pullEq[x.Name.Name] = true
								}
							}
							return true
						})
					}
				case *ast.GenDecl:
					for _, sp := range x.Specs {
						ts, ok := sp.(*ast.TypeSpec)
						if !ok {
							continue
						}
						st, ok := ts.Type.(*ast.StructType)
						if !ok {
							continue
						}
						for _, fl := range st.Fields.List {
							if len(fl.Names) != 0 {
								continue
							}
							t := exprString(fset, fl.Type)
							t = t[strings.LastIndex(t, ".")+1:]
							if strings.HasPrefix(t, "Unimplemented") && strings.HasSuffix(t, "Server") {
								embeds[ts.Name.Name] = append(embeds[ts.Name.Name], strings.TrimSuffix(strings.TrimPrefix(t, "Unimplemented"), "Server"))
							}
							// the router type embeds router.Router and the Unimplemented server: New<X>Router returns it
						}
					}
				}
			}
		}
		for name, fd := range funcs {
			if strings.HasPrefix(name, "New") && strings.HasSuffix(name, "Router") && fd.Type.Results != nil && len(fd.Type.Results.List) == 1 {
				rt := strings.TrimPrefix(exprString(fset, fd.Type.Results.List[0].Type), "*")
				for _, svc := range embeds[rt] {
					router[svc] = name
				}
			}
		}
		eq, err := eqOptions(fset, files)
		if err != nil {
			return nil, nil, fmt.Errorf("%s: %w", pkg, err)
		}
		var tnames []string
		for tn := range embeds {
			tnames = append(tnames, tn)
		}
		sort.Strings(tnames)
		for _, tn := range tnames {
			if strings.HasSuffix(tn, "Router") {
				continue
			}
			ctor, ok := funcs["New"+tn]
			if !ok {
				notes = append(notes, fmt.Sprintf("%s.%s embeds a service but has no constructor New%s: not a server", pkg, tn, tn))
				continue
			}
			if tn != "ModelServer" && tn != "MemoryDevice" {
				notes = append(notes, fmt.Sprintf("%s.%s is not a model server / memory device (left out)", pkg, tn))
				continue
			}
			args, sig, err := callArgs(fset, pkg, funcs, ctor, 0)
			if err != nil {
				return nil, nil, err
			}
			svcs := append([]string{}, embeds[tn]...)
			sort.Strings(svcs)
			out = append(out, Server{Pkg: pkg, Type: tn, Ctor: ctor.Name.Name, CtorSig: sig, Args: args, Services: svcs,
				Wrap: wrap, Router: router, Eq: eq, Methods: methods[tn], PullEq: pullEq})
		}
	}
	return out, notes, nil
}

// Target is one thing to drive: a server type with one triple of one of its services.
type Target struct {
	Server Server
	Triple Triple
	Eq     string    // "none" | "exact" (the model's own Pull compares with cmp.Equal) | "oracle" (the resource.Value carries a comparer)
	EqSrc  string    // what the source text says: "none" | "exact" | "approx(f,m)" | "custom:<expr>"
	Tols   []float64 // float tolerances the translator found in the source (margins and fractions of FloatValueApprox)
}

func (t Target) Key() string { return t.Server.Key() + "/" + t.Triple.ID() }

// Sig changes whenever the generated table entry for the target would.
func (t Target) Sig() string {
	return strings.Join([]string{t.Server.CtorSig, t.Server.Wrap[string(t.Triple.Service.Name())], t.Server.Router[string(t.Triple.Service.Name())],
		string(t.Triple.Get.Name()), string(t.Triple.Update.Name()), string(t.Triple.Pull.Name()),
		string(t.Triple.Get.Input().FullName()), string(t.Triple.Update.Input().FullName()), string(t.Triple.Pull.Input().FullName()),
		string(t.Triple.Resource.FullName())}, "|")
}

func discover() ([]Target, []string, error) {
	servers, notes, err := scanServers(repoDir())
	if err != nil {
		return nil, nil, err
	}
	triples, skipped := allTriples()
	for _, s := range skipped {
		notes = append(notes, "descriptor: "+s)
	}
	var out []Target
	for _, s := range servers {
		for _, svc := range s.Services {
			// a Get/Update/Pull group of a discovered server's service that does not have the shape the
			// driver knows is NOT silently left out: the run stops until the driver is taught about it
			for _, sk := range skipped {
				if strings.HasPrefix(sk, svc+".") {
					return nil, nil, fmt.Errorf("%s: service %s has a Get/Update/Pull group the C14 driver does not cover: %s (extend harness/c14/scan.go triplesOf)", s.Key(), svc, sk)
				}
			}
			if rest := methodsOutsideTriples(svc, triples[svc]); rest != "" {
				notes = append(notes, fmt.Sprintf("%s: methods of %s outside Get/Update/Pull triples (not C14's): %s", s.Key(), svc, rest))
			}
			for _, t := range triples[svc] {
				if s.Wrap[svc] == "" || s.Router[svc] == "" {
					return nil, nil, fmt.Errorf("%s: no Wrap/New...Router for service %s", s.Key(), svc)
				}
				src := "none"
				for _, cand := range []string{strings.ToLower(t.R), strings.ToLower(string(t.Resource.Name()))} {
					if k, ok := s.Eq[cand]; ok && s.Type == "ModelServer" {
						src = k
					}
				}
				eq := "none"
				if s.Type == "ModelServer" && s.PullEq[string(t.Pull.Name())] {
					eq = "exact"
				}
				tg := Target{Server: s, Triple: t, Eq: eq, EqSrc: src, Tols: tolerancesOf(src)}
				out = append(out, tg)
			}
		}
	}
	sort.Slice(out, func(i, j int) bool { return out[i].Key() < out[j].Key() })
	return out, notes, nil
}

// tolerancesOf extracts the numeric literals of an "approx(f,m)" source reading.
func tolerancesOf(src string) []float64 {
	var out []float64
	if !strings.HasPrefix(src, "approx(") {
		return nil
	}
	for _, a := range strings.Split(strings.TrimSuffix(strings.TrimPrefix(src, "approx("), ")"), ",") {
		if f, err := strconv.ParseFloat(strings.TrimSpace(a), 64); err == nil && f > 0 {
			out = append(out, f)
		}
	}
	return out
}

// goType is the Go type expression of a message of the sc-api module.
func goType(md protoreflect.MessageDescriptor) (string, error) {
	full := string(md.FullName())
	pkg := string(md.ParentFile().Package())
	rest := strings.TrimPrefix(full, pkg+".")
	var imp string
	switch pkg {
	case "smartcore.traits":
		imp = "traits"
	case "smartcore.types":
		imp = "types"
	default:
		return "", fmt.Errorf("message %s: package %s has no known Go import", full, pkg)
	}
	return imp + "." + strings.ReplaceAll(rest, ".", "_"), nil
}
