//go:build !c14table

package main

// The comparer a server's resource really carries.  The equivalence of a resource.Value is private
// configuration (resource.WithEquivalence / WithMessageEquivalence / WithNoDuplicates handed to
// resource.NewValue by the model).  Instead of guessing it from the source text, the harness walks
// the constructed server (reflection over its fields, unexported ones included), finds the
// *resource.Value holding the triple's resource type and reads its `equivalence` field.  The
// comparer found is then EVALUATED on the pairs of values a history can compare, and the verdicts
// travel to Coq as an oracle table (Servers/C14Judge.v, EqOracle).

import (
	"fmt"
	"reflect"
	"unsafe"

	"github.com/smart-core-os/sc-golang/pkg/resource"
	"google.golang.org/protobuf/reflect/protoreflect"
)

var valuePtrType = reflect.TypeOf((*resource.Value)(nil))

// readable returns v in a form whose fields can be read even when v came from an unexported field.
func readable(v reflect.Value) reflect.Value {
	if v.CanInterface() || !v.CanAddr() {
		return v
	}
	return reflect.NewAt(v.Type(), unsafe.Pointer(v.UnsafeAddr())).Elem()
}

func findValues(v reflect.Value, depth int, seen map[uintptr]bool, out *[]*resource.Value) {
	if depth > 5 || !v.IsValid() {
		return
	}
	v = readable(v)
	switch v.Kind() {
	case reflect.Interface:
		if !v.IsNil() {
			findValues(v.Elem(), depth, seen, out)
		}
	case reflect.Ptr:
		if v.IsNil() {
			return
		}
		if seen[v.Pointer()] {
			return
		}
		seen[v.Pointer()] = true
		if v.Type() == valuePtrType {
			*out = append(*out, (*resource.Value)(unsafe.Pointer(v.Pointer())))
			return
		}
		if v.Elem().Kind() == reflect.Struct {
			findValues(v.Elem(), depth+1, seen, out)
		}
	case reflect.Struct:
		t := v.Type()
		if t.PkgPath() == "sync" || t.PkgPath() == "time" {
			return
		}
		for i := 0; i < v.NumField(); i++ {
			findValues(v.Field(i), depth+1, seen, out)
		}
	}
}

// comparerOf returns the Comparer of the resource.Value inside server that holds a message of type
// res (nil when it has none), and whether such a Value was found at all.
func comparerOf(server any, res protoreflect.FullName) (cmp resource.Comparer, found bool, err error) {
	defer func() {
		if r := recover(); r != nil {
			err = fmt.Errorf("reading the equivalence of the resource.Value of %s by reflection failed (field layout of pkg/resource changed?): %v", res, r)
		}
	}()
	var vals []*resource.Value
	rv := reflect.ValueOf(server)
	if rv.Kind() == reflect.Ptr && !rv.IsNil() {
		// make the pointee addressable
		findValues(rv, 0, map[uintptr]bool{}, &vals)
	}
	for _, val := range vals {
		m := val.Get()
		if m == nil || m.ProtoReflect().Descriptor().FullName() != res {
			continue
		}
		found = true
		cfg := reflect.ValueOf(val).Elem().FieldByName("config")
		if !cfg.IsValid() {
			return nil, true, fmt.Errorf("resource.Value has no embedded config any more")
		}
		cfg = readable(cfg)
		if cfg.IsNil() {
			continue
		}
		eq := cfg.Elem().FieldByName("equivalence")
		if !eq.IsValid() {
			return nil, true, fmt.Errorf("resource config has no field `equivalence` any more")
		}
		eq = readable(eq)
		if eq.IsNil() {
			continue
		}
		c, ok := eq.Interface().(resource.Comparer)
		if !ok {
			return nil, true, fmt.Errorf("resource config field `equivalence` is not a resource.Comparer any more")
		}
		return c, true, nil
	}
	return nil, found, nil
}

// resolveComparers decides the equivalence kind of every target from the server as constructed.
func resolveComparers(targets []Target) error {
	for i := range targets {
		tg := &targets[i]
		e, ok := table[tg.Key()]
		if !ok {
			continue // checkTable reports it
		}
		srv := e.New(&panicLog{}, []string{devA, devB}).Server
		if hn, ok := hints[tg.Key()]; ok && hn.setup != nil && tg.Triple.Key == "" {
			if _, err := hn.setup(srv, 1); err != nil {
				return fmt.Errorf("%s: setup: %w", tg.Key(), err)
			}
		}
		cmp, found, err := comparerOf(srv, tg.Triple.Resource.FullName())
		if err != nil {
			return fmt.Errorf("%s: %w", tg.Key(), err)
		}
		switch {
		case cmp != nil:
			tg.Eq = "oracle"
		case tg.EqSrc != "none" && found:
			return fmt.Errorf("%s: DefaultModelOptions configures an equivalence (%s) but the resource.Value of %s inside the constructed server carries none", tg.Key(), tg.EqSrc, tg.Triple.Resource.FullName())
		case tg.EqSrc != "none" && !found && tg.Triple.Key == "":
			return fmt.Errorf("%s: DefaultModelOptions configures an equivalence (%s) and no resource.Value of %s was found inside the constructed server to take it from", tg.Key(), tg.EqSrc, tg.Triple.Resource.FullName())
		}
	}
	return nil
}
