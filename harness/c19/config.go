// Configurations: NewModel with generated option lists (Electric/Config.v).
//
// The option list is part of the case: WithInitialMode any number of times and anywhere in the list
// (also with no modes), the normal mode in any use and position or in none, modes handed in through
// WithModeOption(resource.WithInitialRecord) or a plain resource.WithInitialRecord,
// WithInitialActiveMode / WithActiveModeOption(resource.WithInitialValue) (blank, a configured mode,
// an id that is not stored), electricpb.WithClock 0-2 times among three fake clocks,
// resource.WithClock, WithRNG.  The Coq model decides the initial state and the stamping clock from
// the list; the operations that follow are replayed as for KSeq.
package main

import (
	"context"
	"fmt"
	"math/rand"
	"time"

	"github.com/smart-core-os/sc-api/go/traits"
	"github.com/smart-core-os/sc-golang/pkg/resource"
	"github.com/smart-core-os/sc-golang/pkg/trait/electricpb"
	"github.com/smart-core-os/sc-golang/verifharness/vcoq"
)

type hcopt struct {
	Kind  string  `json:"opt"` // Initial Record Active Clock ResClock ModeClock ActiveClock Rng
	Modes []hmode `json:"modes,omitempty"`
	Mode  *hmode  `json:"mode,omitempty"`
	Via   bool    `json:"via_helper,omitempty"`
	K     int     `json:"clock,omitempty"`
}

func (c hcopt) coq() string {
	switch c.Kind {
	case "Initial":
		return vcoq.App("CInitial", coqModes(c.Modes))
	case "Record":
		return vcoq.App("CRecord", vcoq.Bool(c.Via), c.Mode.coq())
	case "Active":
		return vcoq.App("CActive", vcoq.Bool(c.Via), c.Mode.coq())
	case "Clock":
		return vcoq.App("CClock", vcoq.Int(c.K))
	case "ResClock":
		return vcoq.App("CResClock", vcoq.Int(c.K))
	case "ModeClock":
		return vcoq.App("CModeClock", vcoq.Int(c.K))
	case "ActiveClock":
		return vcoq.App("CActiveClock", vcoq.Int(c.K))
	case "Rng":
		return "CRng"
	}
	panic("unknown option " + c.Kind)
}

func coqOpts(l []hcopt) string {
	it := make([]string, len(l))
	for i, c := range l {
		it[i] = c.coq()
	}
	return vcoq.List(it)
}

// cfgSut is a model built from an option list; clocks[1..3] are the fake clocks the options name.
type cfgSut struct {
	*sut
	clocks [4]*fakeClock
	// stamps taken from the real clock (no electricpb.WithClock in effect) -> the reading of "clock 0"
	real map[int64]int64
	// set when a real-clock stamp could not be attributed to one step (two steps, same nanosecond)
	ambiguous bool
}

// build evaluates NewModel(opts...); panicked reports a panic of an option constructor or NewModel.
func buildCfg(seed int64, opts []hcopt) (c *cfgSut, panicked bool) {
	defer func() {
		if r := recover(); r != nil {
			c, panicked = nil, true
		}
	}()
	c = &cfgSut{sut: &sut{clk: &fakeClock{}}, real: map[int64]int64{}}
	for k := 1; k <= 3; k++ {
		c.clocks[k] = &fakeClock{t: int64(k)}
	}
	var ros []resource.Option
	for _, o := range opts {
		switch o.Kind {
		case "Initial":
			pbs := make([]*traits.ElectricMode, len(o.Modes))
			for i, m := range o.Modes {
				pbs[i] = m.pb()
			}
			ros = append(ros, electricpb.WithInitialMode(pbs...))
		case "Record":
			if o.Via {
				ros = append(ros, electricpb.WithModeOption(resource.WithInitialRecord(o.Mode.ID, o.Mode.pb())))
			} else {
				ros = append(ros, resource.WithInitialRecord(o.Mode.ID, o.Mode.pb()))
			}
		case "Active":
			if o.Via {
				ros = append(ros, electricpb.WithInitialActiveMode(o.Mode.pb()))
			} else {
				ros = append(ros, electricpb.WithActiveModeOption(resource.WithInitialValue(o.Mode.pb())))
			}
		case "Clock":
			ros = append(ros, electricpb.WithClock(c.clocks[o.K]))
		case "ResClock":
			ros = append(ros, resource.WithClock(c.clocks[o.K]))
		case "ModeClock":
			ros = append(ros, electricpb.WithModeOption(resource.WithClock(c.clocks[o.K])))
		case "ActiveClock":
			ros = append(ros, electricpb.WithActiveModeOption(resource.WithClock(c.clocks[o.K])))
		case "Rng":
			ros = append(ros, electricpb.WithRNG(rand.New(rand.NewSource(seed))))
		}
	}
	c.model = electricpb.NewModel(ros...)
	srv := electricpb.NewModelServer(c.model)
	c.api = electricpb.WrapApi(srv)
	c.settings = electricpb.WrapMemorySettingsApi(srv)
	return c, false
}

func (c *cfgSut) setClocks(now int64) {
	for k := 1; k <= 3; k++ {
		c.clocks[k].set(4*now + int64(k))
	}
}

// normalise maps a start time taken from the real clock during the step [before, after] to clock 0's
// reading for that step, and start times already attributed to an earlier step to that step's reading.
func (c *cfgSut) normalise(m *hmode, now int64, before, after int64) {
	if m == nil || m.Start == nil {
		return
	}
	v := *m.Start
	if v < 1e15 { // a fake reading or a configured start time
		return
	}
	if r, ok := c.real[v]; ok { // a stamp first seen in an earlier step (nanosecond readings do not repeat)
		m.Start = &r
		return
	}
	if v >= before && v <= after {
		r := 4 * now
		c.real[v] = r
		m.Start = &r
	}
}

func (c *cfgSut) normaliseObs(ob *hobs, now, before, after int64) {
	c.normalise(ob.Ret, now, before, after)
	c.normalise(&ob.Active, now, before, after)
	c.normalise(ob.Normal, now, before, after)
	for i := range ob.Modes {
		c.normalise(&ob.Modes[i], now, before, after)
	}
}

// eventClocks: which clock the change time of a PullModes / PullActiveMode event shows.  After the
// history: all fake clocks are set for base time T, a sentinel mode is added and made active, one
// event of each stream (updates only, back-pressure) is read.  k = 1..3: fake clock k; 0: the real
// clock (the change time lies between two readings of it taken around the call); -1: none of them.
func (c *cfgSut) eventClocks(T int64) (mk, ak int64, ok bool) {
	ctx, cancel := context.WithCancel(context.Background())
	defer cancel()
	mch := c.model.PullModes(ctx, resource.WithBackpressure(true), resource.WithUpdatesOnly(true))
	ach := c.model.PullActiveMode(ctx, resource.WithBackpressure(true), resource.WithUpdatesOnly(true))
	c.setClocks(T)
	which := func(ct, before, after int64) int64 {
		for k := int64(1); k <= 3; k++ {
			if ct == 4*T+k {
				return k
			}
		}
		if ct >= before && ct <= after {
			return 0
		}
		return -1
	}
	before := time.Now().Add(-5 * time.Second).UnixNano()
	if err := c.model.AddMode(&traits.ElectricMode{Id: sentinel}); err != nil {
		return 0, 0, false
	}
	after := time.Now().Add(5 * time.Second).UnixNano()
	select {
	case e := <-mch:
		mk = which(e.ChangeTime.UnixNano(), before, after)
	case <-time.After(10 * time.Second):
		return 0, 0, false
	}
	before = time.Now().Add(-5 * time.Second).UnixNano()
	if _, err := c.model.ChangeActiveMode(sentinel); err != nil {
		return 0, 0, false
	}
	after = time.Now().Add(5 * time.Second).UnixNano()
	select {
	case e := <-ach:
		ak = which(e.ChangeTime.UnixNano(), before, after)
	case <-time.After(10 * time.Second):
		return 0, 0, false
	}
	return mk, ak, true
}

// runCfg builds a model from opts, runs ops and emits one KCfg case.
func (g *gen) runCfg(tag string, seed int64, opts []hcopt, ops []hop, nows []int64, cfgTags []string) {
	type result struct {
		panicked  bool
		o0        hobs
		steps     []hstep
		stray     []string
		ambiguous bool
		evclk     *[2]int64
	}
	done := make(chan result, 1)
	go func() {
		c, panicked := buildCfg(seed, opts)
		if panicked {
			done <- result{panicked: true, o0: hobs{Modes: []hmode{}}}
			return
		}
		res := result{o0: c.observe(0, nil)}
		for i, o := range ops {
			c.setClocks(nows[i])
			// the window only tells a reading of the real clock from garbage; which step a real stamp
			// belongs to is decided by when it is first seen.  Wide, so that a stepped wall clock is harmless.
			before := time.Now().Add(-5 * time.Second).UnixNano()
			code, ret, gid := c.call(o)
			after := time.Now().Add(5 * time.Second).UnixNano()
			o.Gen = gid
			ob := c.observe(code, ret)
			c.normaliseObs(&ob, nows[i], before, after)
			res.steps = append(res.steps, hstep{Now: nows[i], Op: o, Obs: ob})
		}
		res.stray = c.stray
		res.ambiguous = c.ambiguous
		last := int64(1000)
		if len(nows) > 0 {
			last = nows[len(nows)-1]
		}
		if mk, ak, ok := c.eventClocks(last + 100); ok {
			res.evclk = &[2]int64{mk, ak}
		}
		done <- res
	}()
	var res result
	select {
	case res = <-done:
	case <-time.After(20 * time.Second):
		g.o.Directs = append(g.o.Directs, vcoq.Direct{
			What:   "an operation sequence on a configured model did not complete within 20 s (an operation blocks)",
			Class:  "c19-blocked",
			Replay: map[string]any{"options": opts, "ops": ops},
		})
		return
	}
	if res.ambiguous {
		return // two steps read the same nanosecond from the real clock: not attributable, no case
	}
	if len(res.stray) > 0 {
		g.o.Directs = append(g.o.Directs, vcoq.Direct{
			What:   "a mode read back carries fields nobody wrote (description/voltage/segments): " + res.stray[0],
			Class:  "c19-stray-fields",
			Replay: map[string]any{"options": opts, "ops": ops},
		})
	}
	it := make([]string, len(res.steps))
	tags := append([]string{tag}, cfgTags...)
	if res.panicked {
		tags = append(tags, "cfg:panicked")
	}
	nontrivial := false
	for i, st := range res.steps {
		it[i] = "(" + vcoq.Z(st.Now) + ", " + coqOp(st.Op) + ", " + st.Obs.coq() + ")"
		tags = append(tags, "op:"+st.Op.Kind, fmt.Sprintf("code:%d", st.Obs.Code), fmt.Sprintf("br:%s:%d", st.Op.Kind, st.Obs.Code))
		if st.Obs.Code == 0 {
			nontrivial = true
		}
	}
	ev := "None"
	if res.evclk != nil {
		ev = vcoq.Some("(" + vcoq.Z(res.evclk[0]) + ", " + vcoq.Z(res.evclk[1]) + ")")
		tags = append(tags, fmt.Sprintf("cfg:event-clocks:%d/%d", res.evclk[0], res.evclk[1]))
	}
	coq := vcoq.App("KCfg", coqOpts(opts), vcoq.Bool(res.panicked), res.o0.coq(), vcoq.List(it), ev)
	g.o.Add(vcoq.Case{
		Coq:        coq,
		JSON:       map[string]any{"kind": "config", "rng_seed": seed, "options": opts, "new_model_panicked": res.panicked, "observed_initially": res.o0, "steps": res.steps, "event_clocks_modes_active": res.evclk, "clock_reading": "clock k shows 4*now+k during a step; 0 = the real clock (stamps mapped to 4*now)"},
		Key:        coq,
		NonTrivial: nontrivial || res.panicked || len(res.o0.Modes) > 0,
		Tags:       tags,
	})
}

// ---- generated configurations ----

func cfgTagsOf(opts []hcopt) []string {
	uses, records, clocks, actives := 0, 0, 0, 0
	normalAt := "none"
	lastUse := -1
	for i, o := range opts {
		if o.Kind == "Initial" {
			lastUse = i
		}
	}
	for i, o := range opts {
		switch o.Kind {
		case "Initial":
			uses++
			for _, m := range o.Modes {
				if m.Normal {
					if i == lastUse {
						normalAt = "last-use"
					} else {
						normalAt = "earlier-use"
					}
				}
			}
		case "Record":
			records++
			if o.Mode.Normal {
				normalAt = "record"
			}
		case "Clock":
			clocks++
		case "Active":
			actives++
		}
	}
	return []string{
		fmt.Sprintf("cfg:initial-uses:%d", uses), fmt.Sprintf("cfg:records:%d", records),
		fmt.Sprintf("cfg:withclock:%d", clocks), fmt.Sprintf("cfg:active-opts:%d", actives),
		"cfg:normal:" + normalAt,
	}
}

func shuffleOpts(r *vcoq.Rand, l []hcopt) {
	for i := range l {
		j := i + r.Intn(len(l)-i)
		l[i], l[j] = l[j], l[i]
	}
}

// randomCfg: 0-4 modes over {a,b,c,d} in random order, at most one normal (any position), spread
// over 0-3 uses of WithInitialMode (some empty) and record options; clocks, active value, rng
// anywhere.  Rarely an id twice or an empty id (NewModel panics).
func (g *gen) randomCfg() []hcopt {
	r := g.r
	perm := []string{"a", "b", "c", "d"}
	for i := range perm {
		j := i + r.Intn(len(perm)-i)
		perm[i], perm[j] = perm[j], perm[i]
	}
	n := r.Intn(5)
	normalAt := -1
	if n > 0 && r.Chance(65) {
		normalAt = r.Intn(n)
	}
	modes := make([]hmode, n)
	for i := range modes {
		m := *g.modeBody(perm[i])
		m.Normal = i == normalAt
		modes[i] = m
	}
	nUses := r.Intn(4)
	uses := make([][]hmode, nUses)
	var opts []hcopt
	for _, m := range modes {
		if nUses == 0 || r.Chance(20) {
			m := m
			opts = append(opts, hcopt{Kind: "Record", Via: r.Bool(), Mode: &m})
			continue
		}
		k := r.Intn(nUses)
		uses[k] = append(uses[k], m)
	}
	for _, u := range uses {
		if u == nil {
			u = []hmode{}
		}
		opts = append(opts, hcopt{Kind: "Initial", Modes: u})
	}
	for i, nc := 0, r.Intn(3); i < nc; i++ {
		opts = append(opts, hcopt{Kind: "Clock", K: r.Range(1, 3)})
	}
	if r.Chance(30) {
		opts = append(opts, hcopt{Kind: "ResClock", K: r.Range(1, 3)})
	}
	if r.Chance(20) {
		opts = append(opts, hcopt{Kind: "ModeClock", K: r.Range(1, 3)})
	}
	if r.Chance(20) {
		opts = append(opts, hcopt{Kind: "ActiveClock", K: r.Range(1, 3)})
	}
	if r.Chance(80) {
		opts = append(opts, hcopt{Kind: "Rng"})
	}
	for i, na := 0, []int{0, 0, 0, 1, 1, 2}[r.Intn(6)]; i < na; i++ {
		var m hmode
		switch x := r.Intn(4); {
		case x == 0:
			m = hmode{} // the blank mode again
		case x == 1:
			m = hmode{ID: "zz", Title: "t1"} // names no mode
		case n > 0:
			m = modes[r.Intn(n)] // a configured mode
			if r.Bool() {
				v := int64(r.Range(1, 9))
				m.Start = &v
			}
		default:
			m = hmode{ID: "a", Title: "t2"}
		}
		opts = append(opts, hcopt{Kind: "Active", Via: r.Bool(), Mode: &m})
	}
	shuffleOpts(r, opts)
	switch x := r.Intn(40); {
	case x == 0 && n > 0: // an id twice: NewCollection panics
		d := modes[r.Intn(n)]
		d.Normal = false
		if r.Bool() {
			opts = append(opts, hcopt{Kind: "Initial", Modes: []hmode{d}})
		} else {
			opts = append(opts, hcopt{Kind: "Record", Via: r.Bool(), Mode: &d})
		}
		shuffleOpts(r, opts)
	case x == 1: // WithInitialMode panics on an empty id
		opts = append(opts, hcopt{Kind: "Initial", Modes: []hmode{{ID: "", Title: "t1"}}})
		shuffleOpts(r, opts)
	}
	return opts
}

// cfgProbes: short operation sequences through every door to the normal flag and to the active mode
func cfgProbes() [][]hop {
	return [][]hop{
		{{Kind: "Add", Mode: &hmode{ID: "d", Normal: true}}},
		{{Kind: "SCreate", Mode: &hmode{Title: "t1", Normal: true}}},
		{{Kind: "Update", Mode: &hmode{ID: "b", Title: "t2", Normal: true}, NoMsk: true}},
		{{Kind: "SUpdate", Mode: &hmode{ID: "c", Normal: true}, Mask: []string{"normal"}}},
		{{Kind: "SClear"}},
		{{Kind: "Change", ID: "b"}, {Kind: "Clear"}},
		{{Kind: "Delete", ID: "a"}, {Kind: "Add", Mode: &hmode{ID: "d", Normal: true}}},
		{{Kind: "Update", Mode: &hmode{ID: "a", Title: "t1"}, NoMsk: true}, {Kind: "SUpdate", Mode: &hmode{ID: "b", Normal: true}, Mask: []string{"normal"}}},
	}
}

// exhaustiveCfg: modes a, b, c in every order, the normal flag on none or on each, split into every
// composition of consecutive uses of WithInitialMode (1-3 uses), followed by every probe.
func (g *gen) exhaustiveCfg() {
	perms := [][]string{{"a", "b", "c"}, {"a", "c", "b"}, {"b", "a", "c"}, {"b", "c", "a"}, {"c", "a", "b"}, {"c", "b", "a"}}
	comps := [][]int{{3}, {1, 2}, {2, 1}, {1, 1, 1}}
	probes := cfgProbes()
	for _, perm := range perms {
		for normal := -1; normal < 3; normal++ {
			for _, comp := range comps {
				var opts []hcopt
				opts = append(opts, hcopt{Kind: "Clock", K: 1})
				at := 0
				for _, sz := range comp {
					var u []hmode
					for i := 0; i < sz; i++ {
						u = append(u, hmode{ID: perm[at], Title: "t1", Normal: at == normal})
						at++
					}
					opts = append(opts, hcopt{Kind: "Initial", Modes: u})
				}
				opts = append(opts, hcopt{Kind: "Rng"})
				tags := cfgTagsOf(opts)
				for _, p := range probes {
					nows := make([]int64, len(p))
					for i := range nows {
						nows[i] = 1000 + int64(10*(i+1))
					}
					g.runCfg("config-exhaustive", 1, opts, p, nows, tags)
				}
			}
		}
	}
}

func (g *gen) randomCfgs(n, maxLen int) {
	for i := 0; i < n; i++ {
		opts := g.randomCfg()
		k := g.r.Range(1, maxLen)
		ops := make([]hop, k)
		server := g.r.Intn(3)
		for j := range ops {
			ops[j] = g.randomOp(server == 1 || (server == 2 && g.r.Bool()))
		}
		g.runCfg("config-random", int64(g.r.Intn(1<<30)), opts, ops, g.nows(k), cfgTagsOf(opts))
	}
}
