// Write options of Model.UpdateMode that decide which body is stored under which key
// (Electric/UpdateOpts.v): update mask, WithCreateIfAbsent, WithResetPaths.  One case = one
// UpdateMode call on a store observed key by key (FindMode over the key pool) before and after.
package main

import (
	"fmt"

	"github.com/smart-core-os/sc-api/go/traits"
	"github.com/smart-core-os/sc-golang/pkg/resource"
	"github.com/smart-core-os/sc-golang/pkg/trait/electricpb"
	"github.com/smart-core-os/sc-golang/verifharness/vcoq"
	"google.golang.org/grpc/status"
	"google.golang.org/protobuf/types/known/fieldmaskpb"
)

type hentry struct {
	Key  string `json:"key"`
	Body hmode  `json:"body"`
}

var keyPool = []string{"", "a", "b", "c", "d", "x"} // in byte order, like the listing

func observeKeyed(m *electricpb.Model, stray *[]string) []hentry {
	out := []hentry{}
	for _, k := range keyPool {
		if b, ok := m.FindMode(k); ok {
			out = append(out, hentry{Key: k, Body: fromPB(b, stray)})
		}
	}
	return out
}

func coqKstore(l []hentry) string {
	it := make([]string, len(l))
	for i, e := range l {
		it[i] = "(" + vcoq.Str(e.Key) + ", " + e.Body.coq() + ")"
	}
	return vcoq.List(it)
}

func coqOptPaths(nilp bool, ps []string) string {
	if nilp {
		return "None"
	}
	it := make([]string, len(ps))
	for i, p := range ps {
		it[i] = vcoq.Str(p)
	}
	return vcoq.Some(vcoq.List(it))
}

func (g *gen) paths(pool []string) []string {
	n := g.r.Intn(4)
	seen := map[string]bool{}
	out := []string{}
	for i := 0; i < n; i++ {
		p := pool[g.r.Intn(len(pool))]
		if g.r.Chance(3) {
			p = "bogus"
		}
		if !seen[p] {
			seen[p] = true
			out = append(out, p)
		}
	}
	return out
}

func (g *gen) updateOptCases(n int) {
	pool := []string{"title", "normal", "start_time", "id", "description"}
	for i := 0; i < n; i++ {
		initial := g.initial()
		if len(initial) == 0 && g.r.Chance(70) { // mostly a non-empty store
			initial = []hmode{{ID: "a", Title: "t1", Normal: g.r.Bool()}, {ID: "c", Title: "t2"}}
			if g.r.Bool() {
				initial = append(initial, hmode{ID: "d", Start: func() *int64 { v := int64(3); return &v }()})
			}
		}
		pbs := make([]*traits.ElectricMode, len(initial))
		for j, m := range initial {
			pbs[j] = m.pb()
		}
		model := electricpb.NewModel(electricpb.WithInitialMode(pbs...))
		var stray []string
		before := observeKeyed(model, &stray)
		ids := []string{"a", "b", "c", "d", "x", "x"}
		body := g.modeBody(ids[g.r.Intn(len(ids))])
		if len(initial) > 0 && g.r.Chance(55) { // address a stored mode
			body.ID = initial[g.r.Intn(len(initial))].ID
		}
		if g.r.Chance(2) {
			body.ID = ""
		}
		nilMask := g.r.Chance(35)
		var mask []string
		if !nilMask {
			mask = g.paths(pool)
		}
		create := g.r.Bool()
		nilReset := g.r.Bool()
		var reset []string
		if !nilReset {
			reset = g.paths(pool)
		}
		var wo []resource.WriteOption
		if !nilMask {
			wo = append(wo, resource.WithUpdateMask(&fieldmaskpb.FieldMask{Paths: append([]string{}, mask...)}))
		}
		if create {
			wo = append(wo, resource.WithCreateIfAbsent())
		}
		if !nilReset {
			wo = append(wo, resource.WithResetPaths(append([]string{}, reset...)...))
		}
		// the options in any order
		for a := range wo {
			b := a + g.r.Intn(len(wo)-a)
			wo[a], wo[b] = wo[b], wo[a]
		}
		ret, err := model.UpdateMode(body.pb(), wo...)
		code := 0
		var hret *hmode
		if err != nil {
			code = int(status.Code(err))
		} else {
			m := fromPB(ret, &stray)
			hret = &m
		}
		after := observeKeyed(model, &stray)
		if len(model.Modes()) != len(after) {
			g.o.Directs = append(g.o.Directs, vcoq.Direct{
				What:   fmt.Sprintf("UpdateMode stored a mode under a key outside the ids used: %d modes listed, %d found by key", len(model.Modes()), len(after)),
				Class:  "c19-option-invariant",
				Replay: map[string]any{"initial": initial, "mode": body, "mask": mask, "nil_mask": nilMask, "create_if_absent": create, "reset": reset, "nil_reset": nilReset},
			})
			continue
		}
		w := vcoq.App("mkW", coqOptPaths(nilMask, mask), vcoq.Bool(create), coqOptPaths(nilReset, reset))
		coq := vcoq.App("KOpt", coqKstore(before), body.coq(), w, vcoq.Int(code), coqOptMode(hret), coqKstore(after))
		tags := []string{"update-options", fmt.Sprintf("uo:code:%d", code), fmt.Sprintf("uo:create:%v", create), fmt.Sprintf("uo:mask-nil:%v", nilMask), fmt.Sprintf("uo:reset-nil:%v", nilReset)}
		for _, p := range reset {
			if p == "id" {
				tags = append(tags, "uo:reset-id")
			}
		}
		present := false
		for _, e := range before {
			present = present || e.Key == body.ID
		}
		tags = append(tags, fmt.Sprintf("uo:present:%v", present))
		g.o.Add(vcoq.Case{
			Coq:        coq,
			JSON:       map[string]any{"kind": "update-options", "store_before": before, "mode": body, "mask": mask, "nil_mask": nilMask, "create_if_absent": create, "reset_paths": reset, "nil_reset": nilReset, "code": code, "returned": hret, "store_after": after},
			Key:        coq,
			NonTrivial: code == 0,
			Tags:       tags,
		})
	}
}
