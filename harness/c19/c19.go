// Correspondence generator for C19 (electric model mode invariants).
//
// Runs operation sequences (and concurrent mixes) on a real electricpb.Model, through the Model API
// and through the ElectricApi / MemorySettingsApi servers (ModelServer behind the in-process
// wrappers), with a fake clock and a seeded id generator.  After every operation it records
// Modes(), ActiveMode(), NormalMode(), the error code and the returned mode; the Coq side replays
// the history on the model and evaluates the property clauses on the observed states.
package main

import (
	"context"
	"fmt"
	"math/rand"
	"sort"
	"sync"
	"sync/atomic"
	"time"

	"github.com/smart-core-os/sc-api/go/traits"
	"github.com/smart-core-os/sc-golang/pkg/resource"
	"github.com/smart-core-os/sc-golang/pkg/time/clock"
	"github.com/smart-core-os/sc-golang/pkg/trait/electricpb"
	"github.com/smart-core-os/sc-golang/verifharness/vcoq"
	"github.com/smart-core-os/sc-golang/verifharness/vh"
	"google.golang.org/grpc/status"
	"google.golang.org/protobuf/types/known/fieldmaskpb"
	"google.golang.org/protobuf/types/known/timestamppb"
)

func init() { vh.Register("C19", genC19) }

func main() { vh.Main() }

// ---- fake clock ----

type fakeClock struct {
	mu sync.Mutex
	t  int64 // unix nanoseconds
}

func (c *fakeClock) Now() time.Time {
	c.mu.Lock()
	defer c.mu.Unlock()
	return time.Unix(0, c.t)
}
func (c *fakeClock) set(t int64) {
	c.mu.Lock()
	c.t = t
	c.mu.Unlock()
}
func (c *fakeClock) At(time.Time) <-chan time.Time        { return make(chan time.Time, 1) }
func (c *fakeClock) After(time.Duration) <-chan time.Time { return make(chan time.Time, 1) }
func (c *fakeClock) Every(time.Duration) clock.Ticker     { return fakeTicker{make(chan time.Time)} }

type fakeTicker struct{ c chan time.Time }

func (t fakeTicker) C() <-chan time.Time { return t.c }
func (t fakeTicker) Stop()               {}

// ---- canonical modes ----

type hmode struct {
	ID     string `json:"id"`
	Title  string `json:"title"`
	Normal bool   `json:"normal"`
	Start  *int64 `json:"start"` // unix nanos
}

func (m hmode) pb() *traits.ElectricMode {
	p := &traits.ElectricMode{Id: m.ID, Title: m.Title, Normal: m.Normal}
	if m.Start != nil {
		p.StartTime = timestamppb.New(time.Unix(0, *m.Start))
	}
	return p
}

// fromPB canonicalises a mode; fields the model does not carry must be at their zero value
func fromPB(p *traits.ElectricMode, stray *[]string) hmode {
	m := hmode{ID: p.GetId(), Title: p.GetTitle(), Normal: p.GetNormal()}
	if p.GetStartTime() != nil {
		v := p.GetStartTime().AsTime().UnixNano()
		m.Start = &v
	}
	if p.GetDescription() != "" || p.GetVoltage() != 0 || len(p.GetSegments()) != 0 {
		*stray = append(*stray, p.String())
	}
	return m
}
func (m hmode) coq() string {
	return vcoq.App("mkM", vcoq.Str(m.ID), vcoq.Str(m.Title), vcoq.Bool(m.Normal), vcoq.OptZ(m.Start))
}
func coqOptMode(m *hmode) string {
	if m == nil {
		return "None"
	}
	return vcoq.Some(m.coq())
}
func coqModes(l []hmode) string {
	it := make([]string, len(l))
	for i, m := range l {
		it[i] = m.coq()
	}
	return vcoq.List(it)
}

// ---- operations ----

type hop struct {
	Kind  string   `json:"op"` // Create Add Update Delete SetActive Change Clear ; prefix S = through the servers
	Mode  *hmode   `json:"mode,omitempty"`
	ID    string   `json:"id,omitempty"`
	Allow bool     `json:"allow_missing,omitempty"`
	Mask  []string `json:"mask,omitempty"`
	NoMsk bool     `json:"nil_mask,omitempty"`
	Gen   string   `json:"generated_id,omitempty"`
}

func coqMask(o hop) string {
	if o.NoMsk {
		return "None"
	}
	it := make([]string, len(o.Mask))
	for i, p := range o.Mask {
		it[i] = vcoq.Str(p)
	}
	return vcoq.Some(vcoq.List(it))
}
func coqOp(o hop) string {
	k := o.Kind
	switch k {
	case "Create", "SCreate":
		c := "OCreate"
		if k[0] == 'S' {
			c = "SCreate"
		}
		return vcoq.App(c, o.Mode.coq(), vcoq.Str(o.Gen))
	case "Add":
		return vcoq.App("OAdd", o.Mode.coq())
	case "Update", "SUpdate":
		c := "OUpdate"
		if k[0] == 'S' {
			c = "SUpdate"
		}
		return vcoq.App(c, o.Mode.coq(), coqMask(o))
	case "Delete", "SDelete":
		c := "ODelete"
		if k[0] == 'S' {
			c = "SDelete"
		}
		return vcoq.App(c, vcoq.Str(o.ID), vcoq.Bool(o.Allow))
	case "SetActive":
		return vcoq.App("OSetActive", o.Mode.coq())
	case "Change":
		return vcoq.App("OChange", vcoq.Str(o.ID))
	case "SChange":
		return vcoq.App("SChange", vcoq.Str(o.ID))
	case "Clear":
		return "OClear"
	case "SClear":
		return "SClear"
	}
	panic("unknown op " + k)
}

type hobs struct {
	Code   int     `json:"code"`
	Ret    *hmode  `json:"ret"`
	Modes  []hmode `json:"modes"`
	Active hmode   `json:"active"`
	Normal *hmode  `json:"normal"`
}

func (o hobs) coq() string {
	return vcoq.App("mkObs", vcoq.Int(o.Code), coqOptMode(o.Ret), coqModes(o.Modes), o.Active.coq(), coqOptMode(o.Normal))
}

// ---- the system under test ----

type sut struct {
	clk      *fakeClock
	model    *electricpb.Model
	api      traits.ElectricApiClient
	settings electricpb.MemorySettingsApiClient
	stray    []string
	// how the initial modes were handed to NewModel: the option list in order ("WithInitialMode(b,a)", ...)
	built []string
}

func newSut(seed int64, initial []hmode) *sut {
	s := &sut{clk: &fakeClock{t: 1000}}
	opts := []resource.Option{electricpb.WithClock(s.clk), electricpb.WithRNG(rand.New(rand.NewSource(seed)))}
	if len(initial) > 0 {
		// The initial modes are handed over in a seed-dependent order, split over 1-3 uses of
		// WithInitialMode placed before/after the other options: by C19_config_initial_mode_additive and
		// C19_config_state the constructed state is init_state (initial in id order) for all of them.
		pr := rand.New(rand.NewSource(seed ^ 0x5eed))
		pbs := make([]*traits.ElectricMode, len(initial))
		for i, j := range pr.Perm(len(initial)) {
			pbs[i] = initial[j].pb()
		}
		s.built = []string{"WithClock", "WithRNG"}
		for len(pbs) > 0 {
			n := 1 + pr.Intn(len(pbs))
			use := electricpb.WithInitialMode(pbs[:n]...)
			d := "WithInitialMode("
			for i, p := range pbs[:n] {
				if i > 0 {
					d += ","
				}
				d += p.Id
				if p.Normal {
					d += ":normal"
				}
			}
			d += ")"
			if pr.Intn(2) == 0 {
				opts = append(opts, use)
				s.built = append(s.built, d)
			} else {
				opts = append([]resource.Option{use}, opts...)
				s.built = append([]string{d}, s.built...)
			}
			pbs = pbs[n:]
		}
	}
	s.model = electricpb.NewModel(opts...)
	srv := electricpb.NewModelServer(s.model)
	s.api = electricpb.WrapApi(srv)
	s.settings = electricpb.WrapMemorySettingsApi(srv)
	return s
}

func (s *sut) mask(o hop) *fieldmaskpb.FieldMask {
	if o.NoMsk {
		return nil
	}
	return &fieldmaskpb.FieldMask{Paths: append([]string{}, o.Mask...)}
}

// call runs one operation; returns the gRPC code of the error (100 = panic), the returned mode when
// the error is nil, and the id a successful create generated.
func (s *sut) call(o hop) (code int, ret *hmode, gen string) {
	defer func() {
		if r := recover(); r != nil {
			code, ret, gen = 100, nil, ""
		}
	}()
	ctx := context.Background()
	var pm *traits.ElectricMode
	var err error
	switch o.Kind {
	case "Create":
		pm, err = s.model.CreateMode(o.Mode.pb())
	case "SCreate":
		pm, err = s.settings.CreateMode(ctx, &electricpb.CreateModeRequest{Name: "dev", Mode: o.Mode.pb()})
	case "Add":
		err = s.model.AddMode(o.Mode.pb())
	case "Update":
		pm, err = s.model.UpdateMode(o.Mode.pb(), resource.WithUpdateMask(s.mask(o)))
	case "SUpdate":
		pm, err = s.settings.UpdateMode(ctx, &electricpb.UpdateModeRequest{Name: "dev", Mode: o.Mode.pb(), UpdateMask: s.mask(o)})
	case "Delete":
		err = s.model.DeleteMode(o.ID, resource.WithAllowMissing(o.Allow))
	case "SDelete":
		_, err = s.settings.DeleteMode(ctx, &electricpb.DeleteModeRequest{Name: "dev", Id: o.ID, AllowMissing: o.Allow})
	case "SetActive":
		err = s.model.SetActiveMode(o.Mode.pb())
	case "Change":
		pm, err = s.model.ChangeActiveMode(o.ID)
	case "SChange":
		pm, err = s.api.UpdateActiveMode(ctx, &traits.UpdateActiveModeRequest{Name: "dev", ActiveMode: &traits.ElectricMode{Id: o.ID}})
	case "Clear":
		pm, err = s.model.ChangeToNormalMode()
	case "SClear":
		pm, err = s.api.ClearActiveMode(ctx, &traits.ClearActiveModeRequest{Name: "dev"})
	default:
		panic("unknown op")
	}
	if err != nil {
		return int(status.Code(err)), nil, ""
	}
	if pm != nil {
		m := fromPB(pm, &s.stray)
		ret = &m
		if o.Kind == "Create" || o.Kind == "SCreate" {
			gen = m.ID
		}
	}
	return 0, ret, gen
}

func (s *sut) observe(code int, ret *hmode) hobs {
	ob := hobs{Code: code, Ret: ret, Modes: []hmode{}}
	for _, p := range s.model.Modes() {
		ob.Modes = append(ob.Modes, fromPB(p, &s.stray))
	}
	ob.Active = fromPB(s.model.ActiveMode(), &s.stray)
	if n, ok := s.model.NormalMode(); ok {
		m := fromPB(n, &s.stray)
		ob.Normal = &m
	}
	return ob
}

// ---- generators ----

type gen struct {
	o *vcoq.Out
	r *vcoq.Rand
}

var idPool = []string{"a", "b", "c", "d"}
var titles = []string{"", "t1", "t2"}
var maskPaths = []string{"title", "normal", "start_time", "id", "description"}

func (g *gen) id() string {
	switch x := g.r.Intn(40); {
	case x == 0:
		return ""
	case x == 1:
		return "zz" // never added
	default:
		return idPool[g.r.Intn(len(idPool))]
	}
}
func (g *gen) modeBody(id string) *hmode {
	m := &hmode{ID: id, Title: titles[g.r.Intn(len(titles))], Normal: g.r.Chance(40)}
	if g.r.Chance(25) {
		v := int64(g.r.Range(1, 9))
		m.Start = &v
	}
	return m
}
func (g *gen) maskFor(o *hop) {
	switch x := g.r.Intn(10); {
	case x < 4:
		o.NoMsk = true
	case x == 4:
		o.Mask = []string{} // non-nil, empty: no change
	default:
		n := g.r.Range(1, 3)
		seen := map[string]bool{}
		for i := 0; i < n; i++ {
			p := maskPaths[g.r.Intn(len(maskPaths))]
			if g.r.Chance(3) {
				p = "bogus"
			}
			if !seen[p] {
				seen[p] = true
				o.Mask = append(o.Mask, p)
			}
		}
	}
}

// known: ids currently (believed) present, to bias towards meaningful operations
func (g *gen) randomOp(server bool) hop {
	s := ""
	if server {
		s = "S"
	}
	switch x := g.r.Intn(100); {
	case x < 10:
		id := ""
		if g.r.Chance(4) {
			id = g.id() // Create with an id: panic (Model) / InvalidArgument (server)
		}
		return hop{Kind: s + "Create", Mode: g.modeBody(id)}
	case x < 28:
		return hop{Kind: "Add", Mode: g.modeBody(g.id())}
	case x < 46:
		o := hop{Kind: s + "Update", Mode: g.modeBody(g.id())}
		g.maskFor(&o)
		return o
	case x < 62:
		return hop{Kind: s + "Delete", ID: g.id(), Allow: g.r.Chance(40)}
	case x < 70:
		return hop{Kind: "SetActive", Mode: g.modeBody(g.id())}
	case x < 88:
		return hop{Kind: s + "Change", ID: g.id()}
	default:
		return hop{Kind: s + "Clear"}
	}
}

func (g *gen) initial() []hmode {
	var l []hmode
	n := 0
	if g.r.Chance(35) {
		n = g.r.Range(1, 3)
	}
	perm := []string{"a", "b", "c", "d"}
	for i := range perm {
		j := i + g.r.Intn(len(perm)-i)
		perm[i], perm[j] = perm[j], perm[i]
	}
	normalUsed := false
	for i := 0; i < n; i++ {
		m := *g.modeBody(perm[i])
		if m.Normal && normalUsed {
			m.Normal = false
		}
		normalUsed = normalUsed || m.Normal
		l = append(l, m)
	}
	sort.Slice(l, func(i, j int) bool { return l[i].ID < l[j].ID })
	return l
}

type hstep struct {
	Now int64 `json:"now"`
	Op  hop   `json:"op"`
	Obs hobs  `json:"obs"`
}

// runSeq executes ops on a fresh model and emits one KSeq case.
func (g *gen) runSeq(tag string, seed int64, initial []hmode, ops []hop, nows []int64) {
	type result struct {
		o0    hobs
		steps []hstep
		stray []string
		built []string
	}
	done := make(chan result, 1)
	go func() {
		s := newSut(seed, initial)
		res := result{o0: s.observe(0, nil)}
		for i, o := range ops {
			s.clk.set(nows[i])
			code, ret, gid := s.call(o)
			o.Gen = gid
			res.steps = append(res.steps, hstep{Now: nows[i], Op: o, Obs: s.observe(code, ret)})
		}
		res.stray = s.stray
		res.built = s.built
		done <- res
	}()
	var res result
	select {
	case res = <-done:
	case <-time.After(20 * time.Second):
		g.o.Directs = append(g.o.Directs, vcoq.Direct{
			What:   "an operation sequence did not complete within 20 s (an operation blocks)",
			Class:  "c19-blocked",
			Replay: map[string]any{"initial": initial, "ops": ops},
		})
		return
	}
	if len(res.stray) > 0 {
		g.o.Directs = append(g.o.Directs, vcoq.Direct{
			What:   "a mode read back carries fields nobody wrote (description/voltage/segments): " + res.stray[0],
			Class:  "c19-stray-fields",
			Replay: map[string]any{"initial": initial, "ops": ops},
		})
	}
	it := make([]string, len(res.steps))
	tags := []string{tag}
	nontrivial := false
	for i, st := range res.steps {
		it[i] = "(" + vcoq.Z(st.Now) + ", " + coqOp(st.Op) + ", " + st.Obs.coq() + ")"
		// outcome class of the model branch taken: operation x result code
		tags = append(tags, "op:"+st.Op.Kind, fmt.Sprintf("code:%d", st.Obs.Code), fmt.Sprintf("br:%s:%d", st.Op.Kind, st.Obs.Code))
		if st.Obs.Code == 0 {
			nontrivial = true
		}
	}
	coq := vcoq.App("KSeq", coqModes(initial), res.o0.coq(), vcoq.List(it))
	g.o.Add(vcoq.Case{
		Coq:        coq,
		JSON:       map[string]any{"kind": "seq", "rng_seed": seed, "initial": initial, "new_model_options": res.built, "observed_initially": res.o0, "steps": res.steps},
		Key:        coq,
		NonTrivial: nontrivial,
		Tags:       tags,
	})
}

// ---- streams ----

type hmev struct {
	Type string `json:"type"`
	Old  *hmode `json:"old"`
	New  *hmode `json:"new"`
}

func (e hmev) coq() string {
	switch e.Type {
	case "ADD":
		return vcoq.App("MAdd", e.New.coq())
	case "UPDATE":
		return vcoq.App("MUpdate", e.Old.coq(), e.New.coq())
	case "REMOVE":
		return vcoq.App("MRemove", e.Old.coq())
	}
	return "(MBAD)" // does not type-check: reported as a case file that does not evaluate
}

const sentinel = "~end"

// runStream executes ops on a fresh model with PullModes and PullActiveMode subscribed (with
// back-pressure) before the first operation and emits one KStream case.  The end of the streams is
// found with a sentinel mode that is added and made active after the last operation.
func (g *gen) runStream(seed int64, initial []hmode, ops []hop, nows []int64) {
	s := newSut(seed, initial)
	ctx, cancel := context.WithCancel(context.Background())
	defer cancel()
	var stray []string
	mch := s.model.PullModes(ctx, resource.WithBackpressure(true))
	ach := s.model.PullActiveMode(ctx, resource.WithBackpressure(true))
	mdone := make(chan []hmev, 1)
	adone := make(chan []hmode, 1)
	go func() {
		var evs []hmev
		for c := range mch {
			e := hmev{Type: c.Type.String()}
			if c.OldValue != nil {
				m := fromPB(c.OldValue, &stray)
				e.Old = &m
			}
			if c.NewValue != nil {
				m := fromPB(c.NewValue, &stray)
				e.New = &m
			}
			if e.New != nil && e.New.ID == sentinel {
				break
			}
			evs = append(evs, e)
		}
		mdone <- evs
	}()
	go func() {
		var evs []hmode
		var sink []string
		for c := range ach {
			m := fromPB(c.ActiveMode, &sink)
			if m.ID == sentinel {
				break
			}
			evs = append(evs, m)
		}
		adone <- evs
	}()
	steps := make([]string, len(ops))
	jsteps := make([]any, len(ops))
	tags := []string{"stream"}
	go func() {
		for i, o := range ops {
			s.clk.set(nows[i])
			_, _, gid := s.call(o)
			o.Gen = gid
			steps[i] = "(" + vcoq.Z(nows[i]) + ", " + coqOp(o) + ")"
			jsteps[i] = map[string]any{"now": nows[i], "op": o}
		}
		s.call(hop{Kind: "Add", Mode: &hmode{ID: sentinel}})
		s.call(hop{Kind: "Change", ID: sentinel})
	}()
	var mev []hmev
	var aev []hmode
	for got := 0; got < 2; {
		select {
		case mev = <-mdone:
			got++
		case aev = <-adone:
			got++
		case <-time.After(20 * time.Second):
			g.o.Directs = append(g.o.Directs, vcoq.Direct{
				What:   "PullModes/PullActiveMode did not deliver the events of a sequence within 20 s",
				Class:  "c19-blocked",
				Replay: map[string]any{"initial": initial, "ops": ops},
			})
			return
		}
	}
	ms := make([]string, len(mev))
	for i, e := range mev {
		ms[i] = e.coq()
		tags = append(tags, "mev:"+e.Type)
	}
	coq := vcoq.App("KStream", coqModes(initial), vcoq.List(steps), vcoq.List(ms), coqModes(aev))
	g.o.Add(vcoq.Case{
		Coq:        coq,
		JSON:       map[string]any{"kind": "stream", "rng_seed": seed, "initial": initial, "new_model_options": s.built, "steps": jsteps, "modes_events": mev, "active_events": aev},
		Key:        coq,
		NonTrivial: len(mev) > len(initial) || len(aev) > 1,
		Tags:       tags,
	})
}

func (g *gen) nows(n int) []int64 {
	out := make([]int64, n)
	t := int64(1000)
	for i := range out {
		if g.r.Chance(80) {
			t += int64(g.r.Range(1, 50))
		}
		out[i] = t
	}
	return out
}

// exhaustive alphabet over two ids: every door to each invariant
func alphabet() []hop {
	one := int64(7)
	a := func(n bool) *hmode { return &hmode{ID: "a", Title: "t1", Normal: n} }
	b := func(n bool) *hmode { return &hmode{ID: "b", Title: "t2", Normal: n} }
	return []hop{
		{Kind: "Add", Mode: a(true)},
		{Kind: "Add", Mode: b(true)},
		{Kind: "Add", Mode: b(false)},
		{Kind: "SCreate", Mode: &hmode{Title: "t1", Normal: true}},
		{Kind: "Update", Mode: b(true), NoMsk: true},
		{Kind: "SUpdate", Mode: a(true), Mask: []string{"normal"}},
		{Kind: "SUpdate", Mode: a(false), Mask: []string{"title"}},
		{Kind: "Update", Mode: &hmode{ID: "b", Normal: true, Start: &one}, Mask: []string{"start_time"}},
		{Kind: "Delete", ID: "a"},
		{Kind: "SDelete", ID: "b", Allow: true},
		{Kind: "Delete", ID: "zz", Allow: true},
		{Kind: "SDelete", ID: "zz"},
		{Kind: "SetActive", Mode: &hmode{ID: "a", Title: "other", Start: &one}},
		{Kind: "Change", ID: "a"},
		{Kind: "SChange", ID: "b"},
		{Kind: "SClear"},
	}
}

func (g *gen) exhaustive(maxLen int) {
	alpha := alphabet()
	var rec func(prefix []int)
	rec = func(prefix []int) {
		if len(prefix) > 0 {
			ops := make([]hop, len(prefix))
			nows := make([]int64, len(prefix))
			for i, k := range prefix {
				ops[i] = alpha[k]
				nows[i] = 1000 + int64(10*(i+1))
			}
			// only maximal sequences are emitted (their prefixes are checked step by step inside them)
			if len(prefix) == maxLen {
				g.runSeq("exhaustive", 1, nil, ops, nows)
			}
		}
		if len(prefix) == maxLen {
			return
		}
		for k := range alpha {
			rec(append(append([]int{}, prefix...), k))
		}
	}
	rec(nil)
}

// ---- concurrent mixes ----

type hcop struct {
	Op   hop    `json:"op"`
	Inv  int64  `json:"inv"`
	Resp int64  `json:"resp"`
	Code int    `json:"code"`
	Ret  *hmode `json:"ret"`
}

func (g *gen) concOp() hop {
	ids := []string{"a", "b", "c"}
	id := ids[g.r.Intn(len(ids))]
	server := g.r.Bool()
	s := ""
	if server {
		s = "S"
	}
	body := func() *hmode { return &hmode{ID: id, Title: titles[g.r.Intn(len(titles))], Normal: g.r.Chance(50)} }
	switch x := g.r.Intn(100); {
	case x < 8:
		return hop{Kind: s + "Create", Mode: &hmode{Title: "t1", Normal: g.r.Chance(50)}}
	case x < 22:
		return hop{Kind: "Add", Mode: body()}
	case x < 40:
		o := hop{Kind: s + "Update", Mode: body(), NoMsk: true}
		if g.r.Chance(40) {
			o.NoMsk = false
			o.Mask = []string{"normal"}
		}
		return o
	case x < 62:
		return hop{Kind: s + "Delete", ID: id, Allow: g.r.Chance(40)}
	case x < 70:
		return hop{Kind: "SetActive", Mode: body()}
	case x < 90:
		return hop{Kind: s + "Change", ID: id}
	default:
		return hop{Kind: s + "Clear"}
	}
}

func (g *gen) runConc(seed int64, nthreads, perThread int) {
	initial := []hmode{{ID: "a", Title: "t1", Normal: g.r.Bool()}, {ID: "b", Title: "t2"}}
	if g.r.Chance(30) {
		initial = initial[:1]
	}
	plans := make([][]hop, nthreads)
	for t := range plans {
		for i := 0; i < perThread; i++ {
			plans[t] = append(plans[t], g.concOp())
		}
	}
	s := newSut(seed, initial)
	s.clk.set(2000)
	results := make([][]hcop, nthreads)
	var ctr atomic.Int64
	start := make(chan struct{})
	var wg sync.WaitGroup
	strays := make([][]string, nthreads)
	for t := 0; t < nthreads; t++ {
		wg.Add(1)
		go func(t int) {
			defer wg.Done()
			// each goroutine gets its own view struct so that stray-field notes do not race
			local := &sut{clk: s.clk, model: s.model, api: s.api, settings: s.settings}
			<-start
			for _, o := range plans[t] {
				inv := ctr.Add(1)
				code, ret, gid := local.call(o)
				resp := ctr.Add(1)
				o.Gen = gid
				results[t] = append(results[t], hcop{Op: o, Inv: inv, Resp: resp, Code: code, Ret: ret})
			}
			strays[t] = local.stray
		}(t)
	}
	finished := make(chan struct{})
	go func() { wg.Wait(); close(finished) }()
	close(start)
	select {
	case <-finished:
	case <-time.After(20 * time.Second):
		g.o.Directs = append(g.o.Directs, vcoq.Direct{
			What:   "concurrent operations did not complete within 20 s (deadlock)",
			Class:  "c19-blocked",
			Replay: map[string]any{"initial": initial, "threads": plans},
		})
		return
	}
	fin := s.observe(0, nil)
	th := make([]string, nthreads)
	tags := []string{fmt.Sprintf("concurrent:%d", nthreads)}
	for t := range results {
		it := make([]string, len(results[t]))
		for i, c := range results[t] {
			it[i] = vcoq.App("mkCop", coqOp(c.Op), vcoq.Z(c.Inv), vcoq.Z(c.Resp), vcoq.Int(c.Code), coqOptMode(c.Ret))
			tags = append(tags, "cop:"+c.Op.Kind, fmt.Sprintf("ccode:%d", c.Code))
		}
		th[t] = vcoq.List(it)
	}
	coq := vcoq.App("KConc", coqModes(initial), vcoq.Z(2000), vcoq.List(th), fin.coq())
	g.o.Add(vcoq.Case{
		Coq:        coq,
		JSON:       map[string]any{"kind": "concurrent", "rng_seed": seed, "initial": initial, "new_model_options": s.built, "now": 2000, "threads": results, "final": fin},
		Key:        coq,
		NonTrivial: true,
		Tags:       tags,
	})
}

// ---- races: two or three calls started together, many times ----
//
// Each scenario pits calls against each other whose bodies must not interleave (check-then-act on
// the active mode / on the normal mode).  Runs that end the same way (same results, same real-time
// order, same final state) are emitted once.
type scenario struct {
	name    string
	initial []hmode
	active  string // made active before the race
	calls   []hop
}

func scenarios() []scenario {
	a := hmode{ID: "a", Title: "t1", Normal: true}
	b := hmode{ID: "b", Title: "t2"}
	c := hmode{ID: "c"}
	return []scenario{
		{"change-vs-delete", []hmode{a, b}, "a", []hop{{Kind: "Change", ID: "b"}, {Kind: "Delete", ID: "b"}}},
		{"setactive-vs-delete", []hmode{a, b}, "a", []hop{{Kind: "SetActive", Mode: &hmode{ID: "b"}}, {Kind: "SDelete", ID: "b"}}},
		{"clear-vs-delete", []hmode{a, b}, "b", []hop{{Kind: "SClear"}, {Kind: "Delete", ID: "a"}}},
		{"add-vs-add-normal", []hmode{b}, "", []hop{{Kind: "Add", Mode: &hmode{ID: "c", Normal: true}}, {Kind: "Add", Mode: &hmode{ID: "d", Normal: true}}}},
		{"update-vs-add-normal", []hmode{b}, "", []hop{{Kind: "SUpdate", Mode: &hmode{ID: "b", Normal: true}, Mask: []string{"normal"}}, {Kind: "SCreate", Mode: &hmode{Normal: true}}}},
		{"update-vs-update-normal", []hmode{b, c}, "", []hop{{Kind: "Update", Mode: &hmode{ID: "b", Normal: true}, NoMsk: true}, {Kind: "Update", Mode: &hmode{ID: "c", Normal: true}, NoMsk: true}}},
		{"change-vs-delete-vs-change", []hmode{a, b, c}, "a", []hop{{Kind: "SChange", ID: "b"}, {Kind: "Delete", ID: "b"}, {Kind: "Change", ID: "c"}}},
	}
}

func (g *gen) races(iter int) {
	for _, sc := range scenarios() {
		seen := map[string]int{}
		order := []string{}
		cases := map[string]vcoq.Case{}
		for it := 0; it < iter; it++ {
			s := newSut(7, sc.initial)
			s.clk.set(1500)
			pre := []hcop{}
			if sc.active != "" {
				code, ret, _ := s.call(hop{Kind: "Change", ID: sc.active})
				pre = append(pre, hcop{Op: hop{Kind: "Change", ID: sc.active}, Inv: 0, Resp: 1, Code: code, Ret: ret})
			}
			n := len(sc.calls)
			res := make([]hcop, n)
			var ctr atomic.Int64
			ctr.Store(1)
			var ready atomic.Int32
			var wg sync.WaitGroup
			for t := 0; t < n; t++ {
				wg.Add(1)
				go func(t int) {
					defer wg.Done()
					local := &sut{clk: s.clk, model: s.model, api: s.api, settings: s.settings}
					o := sc.calls[t]
					ready.Add(1)
					for ready.Load() < int32(n) { // spin: start as close together as possible
					}
					inv := ctr.Add(1)
					code, ret, gid := local.call(o)
					resp := ctr.Add(1)
					o.Gen = gid
					res[t] = hcop{Op: o, Inv: inv, Resp: resp, Code: code, Ret: ret}
				}(t)
			}
			fin := make(chan struct{})
			go func() { wg.Wait(); close(fin) }()
			select {
			case <-fin:
			case <-time.After(20 * time.Second):
				g.o.Directs = append(g.o.Directs, vcoq.Direct{What: "racing calls did not complete within 20 s (deadlock): " + sc.name, Class: "c19-blocked", Replay: sc})
				return
			}
			final := s.observe(0, nil)
			th := []string{}
			all := [][]hcop{}
			if len(pre) > 0 {
				all = append(all, pre)
			}
			for t := range res {
				all = append(all, []hcop{res[t]})
			}
			for _, t := range all {
				it := make([]string, len(t))
				for i, c := range t {
					it[i] = vcoq.App("mkCop", coqOp(c.Op), vcoq.Z(c.Inv), vcoq.Z(c.Resp), vcoq.Int(c.Code), coqOptMode(c.Ret))
				}
				th = append(th, vcoq.List(it))
			}
			coq := vcoq.App("KConc", coqModes(sc.initial), vcoq.Z(1500), vcoq.List(th), final.coq())
			if seen[coq] == 0 {
				order = append(order, coq)
				cases[coq] = vcoq.Case{Coq: coq, Key: coq, NonTrivial: true, Tags: []string{"race:" + sc.name},
					JSON: map[string]any{"kind": "race", "scenario": sc.name, "initial": sc.initial, "now": 1500, "threads": all, "final": final}}
			}
			seen[coq]++
		}
		for _, k := range order {
			c := cases[k]
			c.JSON.(map[string]any)["times_seen"] = seen[k]
			g.o.Add(c)
		}
	}
}

func genC19(o *vcoq.Out, r *vcoq.Rand, tier string) error {
	g := &gen{o: o, r: r}
	o.Header = "From SC Require Import Base.Prelude Electric.Model Electric.Config Electric.UpdateOpts Electric.C19Judge."
	o.CaseType = "c19case"
	o.Judge = "judge"
	o.Shard = 200
	nRandom, maxLen, exLen, nConc, nStream, nRace, nCfg, nOpt := 1500, 14, 3, 150, 500, 2500, 500, 600
	if tier == "thorough" {
		nRandom, maxLen, exLen, nConc, nStream, nRace, nCfg, nOpt = 20000, 24, 4, 2500, 8000, 40000, 10000, 10000
	}
	g.exhaustive(exLen)
	g.exhaustiveCfg()
	g.randomCfgs(nCfg, maxLen)
	g.updateOptCases(nOpt)
	for i := 0; i < nRandom; i++ {
		n := r.Range(1, maxLen)
		ops := make([]hop, n)
		server := r.Intn(3) // 0: Model API only, 1: servers only (plus Add/SetActive), 2: mixed
		for k := range ops {
			ops[k] = g.randomOp(server == 1 || (server == 2 && r.Bool()))
		}
		g.runSeq("random", int64(r.Intn(1<<30)), g.initial(), ops, g.nows(n))
	}
	for i := 0; i < nStream; i++ {
		n := r.Range(1, maxLen)
		ops := make([]hop, n)
		for k := range ops {
			ops[k] = g.randomOp(r.Bool())
		}
		g.runStream(int64(r.Intn(1<<30)), g.initial(), ops, g.nows(n))
	}
	g.races(nRace)
	g.forced()
	g.optionProbes()
	g.clockProbes()
	for i := 0; i < nConc; i++ {
		nt := r.Range(2, 4)
		per := 3
		if nt == 2 {
			per = r.Range(3, 5)
		}
		g.runConc(int64(r.Intn(1<<30)), nt, per)
	}
	o.Rule = fmt.Sprintf("update options: %d single Model.UpdateMode calls (KOpt) on 0-3 initial modes with a random body over ids {a,b,c,d,x,\"\"}, update mask nil/empty/1-3 paths, WithCreateIfAbsent or not, WithResetPaths none/0-3 paths (incl. id), options in random order, store observed key by key before and after; configurations: NewModel option lists as part of the case (KCfg) - modes a,b,c in all 6 orders x normal flag on none/each x all 4 splits into consecutive WithInitialMode uses x 8 probes through every door to the normal flag / ClearActiveMode (768), and %d random option lists (0-4 modes in random order spread over 0-3 WithInitialMode uses incl. empty ones, WithModeOption(WithInitialRecord) and plain resource.WithInitialRecord; at most one normal mode anywhere; electricpb.WithClock 0-2 times among three fake clocks with distinct readings, resource.WithClock, WithRNG, 0-2 initial active values (blank / configured mode / unknown id) via both constructors; all shuffled; 1 in 20 with a repeated or empty id = NewModel panics) followed by 1-%d random operations; the other kinds hand their initial modes over in a seed-dependent order split over 1-3 WithInitialMode uses; bounded-exhaustive: all %d-operation sequences over a 16-operation alphabet on ids {a,b} (add/create/update with and without masks/delete with and without allow-missing/set-active/change/clear, Model API and servers) from an empty model; random: %d sequences of 1-%d operations over ids {a,b,c,d,zz,\"\"} with 0-3 initial modes, random masks, fake clock advancing 0-50 ns per step, one third Model API only, one third through the servers, one third mixed; streams: %d random sequences with PullModes/PullActiveMode (back-pressure) subscribed first, all events compared; concurrent: %d mixes of 2-4 goroutines x 3-5 operations and 7 race scenarios (check-then-act pairs started together) x %d runs each (distinct outcomes emitted once), %d forced schedules (one call parked at a yield point inside its body, the other started meanwhile and observed to block or to run), results + quiescent state checked for linearizability (program order + real-time order) against the model. Non-trivial: at least one operation succeeded. Distinct by the full history term.", nOpt, nCfg, maxLen, exLen, nRandom, maxLen, nStream, nConc, nRace, len(forcedScenarios()))
	return nil
}
