package main

// Forced schedules, option probes and clock plumbing for C19.
//
// Forced schedules: call A is parked at a yield point of pkg/resource (verif hooks "gau.read" - inside
// Value.set / Collection.Update after the old value was read -, "del.read" - inside Collection.Delete
// after the entry was read -, "value.publish", "coll.publish" - after the write, before the event is
// sent), i.e. in the middle of a Model method's body; call B is started while A is parked and the
// harness waits until B has either returned or is blocked on a lock (wait state read from a
// runtime.Stack dump, no sleeping); then A is released.  With Model.mu held over the whole body B
// blocks and the history is the sequential one; with a narrowed lock B runs inside A's body.  The
// history (with invocation/response stamps) is emitted as a KConc case: the linearizability search
// and the invariants at quiescence decide.

import (
	"bytes"
	"context"
	"fmt"
	"runtime"
	"strconv"
	"strings"
	"sync/atomic"
	"time"

	"github.com/smart-core-os/sc-api/go/traits"
	"github.com/smart-core-os/sc-golang/internal/verifhook"
	"github.com/smart-core-os/sc-golang/pkg/resource"
	"github.com/smart-core-os/sc-golang/pkg/trait/electricpb"
	"github.com/smart-core-os/sc-golang/verifharness/vcoq"
	"google.golang.org/protobuf/types/known/fieldmaskpb"
)

func curGID() int64 {
	var buf [64]byte
	n := runtime.Stack(buf[:], false)
	s := string(buf[len("goroutine "):n])
	if sp := strings.IndexByte(s, ' '); sp >= 0 {
		s = s[:sp]
	}
	id, _ := strconv.ParseInt(s, 10, 64)
	return id
}

var dumpBuf = make([]byte, 1<<20)


// modelLockBlocked reports whether some goroutine inside a method of electricpb.Model is blocked on a
// lock (call A, parked in the hook, is in a channel receive)
func modelLockBlocked() bool {
	var n int
	for {
		n = runtime.Stack(dumpBuf, true)
		if n < len(dumpBuf) {
			break
		}
		dumpBuf = make([]byte, 2*len(dumpBuf))
	}
	for _, b := range bytes.Split(dumpBuf[:n], []byte("\n\n")) {
		if !bytes.Contains(b, []byte("electricpb.(*Model).")) {
			continue
		}
		lb, rb := bytes.IndexByte(b, '['), bytes.IndexByte(b, ']')
		if lb < 0 || rb < lb {
			continue
		}
		if lockBlocked(string(b[lb+1 : rb])) {
			return true
		}
	}
	return false
}

func lockBlocked(st string) bool {
	return strings.HasPrefix(st, "sync.") || strings.HasPrefix(st, "semacquire")
}

type forcedSc struct {
	name    string
	initial []hmode
	active  string
	a       hop
	point   string
	b       hop
}

func forcedScenarios() []forcedSc {
	a := hmode{ID: "a", Title: "t1", Normal: true}
	b := hmode{ID: "b", Title: "t2"}
	c := hmode{ID: "c"}
	ab := []hmode{a, b}
	var out []forcedSc
	add := func(name string, initial []hmode, active string, x hop, points []string, y hop) {
		for _, p := range points {
			out = append(out, forcedSc{name + "@" + p, initial, active, x, p, y})
		}
	}
	set := []string{"gau.read", "value.publish"}
	col := []string{"gau.read", "coll.publish"}
	del := []string{"del.read"}
	// a switch in progress vs a delete of its target (check-then-act on the active id)
	add("change-b/delete-b", ab, "a", hop{Kind: "Change", ID: "b"}, set, hop{Kind: "Delete", ID: "b"})
	add("schange-b/sdelete-b", ab, "a", hop{Kind: "SChange", ID: "b"}, set, hop{Kind: "SDelete", ID: "b", Allow: true})
	add("clear/delete-a", ab, "b", hop{Kind: "SClear"}, set, hop{Kind: "Delete", ID: "a"})
	add("setactive-b/delete-b", ab, "a", hop{Kind: "SetActive", Mode: &hmode{ID: "b"}}, set, hop{Kind: "Delete", ID: "b"})
	// a delete in progress vs a switch to its target
	add("delete-b/change-b", ab, "a", hop{Kind: "Delete", ID: "b"}, del, hop{Kind: "Change", ID: "b"})
	add("sdelete-b/setactive-b", ab, "a", hop{Kind: "SDelete", ID: "b"}, del, hop{Kind: "SetActive", Mode: &hmode{ID: "b"}})
	add("delete-a/clear", ab, "b", hop{Kind: "Delete", ID: "a"}, del, hop{Kind: "SClear"})
	add("delete-b/delete-b", ab, "a", hop{Kind: "Delete", ID: "b"}, del, hop{Kind: "SDelete", ID: "b", Allow: true})
	// two writers of the normal flag
	add("add-c-normal/add-d-normal", []hmode{b}, "", hop{Kind: "Add", Mode: &hmode{ID: "c", Normal: true}}, col, hop{Kind: "Add", Mode: &hmode{ID: "d", Normal: true}})
	add("update-b-normal/create-normal", []hmode{b}, "", hop{Kind: "SUpdate", Mode: &hmode{ID: "b", Normal: true}, Mask: []string{"normal"}}, col, hop{Kind: "SCreate", Mode: &hmode{Normal: true}})
	add("update-b-normal/update-c-normal", []hmode{b, c}, "", hop{Kind: "Update", Mode: &hmode{ID: "b", Normal: true}, NoMsk: true}, col, hop{Kind: "Update", Mode: &hmode{ID: "c", Normal: true}, NoMsk: true})
	add("create-normal/update-b-normal", []hmode{b}, "", hop{Kind: "Create", Mode: &hmode{Normal: true}}, col, hop{Kind: "Update", Mode: &hmode{ID: "b", Normal: true}, NoMsk: true})
	// a demotion in progress vs a clear (which mode is normal)
	add("update-a-demote/clear", ab, "b", hop{Kind: "Update", Mode: &hmode{ID: "a", Normal: false}, NoMsk: true}, col, hop{Kind: "Clear"})
	// a switch in progress vs an update of its target, and vs another switch
	add("change-b/update-b", ab, "a", hop{Kind: "Change", ID: "b"}, set, hop{Kind: "Update", Mode: &hmode{ID: "b", Title: "new"}, NoMsk: true})
	add("change-b/change-a", ab, "a", hop{Kind: "Change", ID: "b"}, set, hop{Kind: "SChange", ID: "a"})
	return out
}

func (g *gen) forced() {
	for _, sc := range forcedScenarios() {
		g.runForced(sc)
	}
}

func (g *gen) runForced(sc forcedSc) {
	s := newSut(7, sc.initial)
	s.clk.set(1500)
	var pre []hcop
	if sc.active != "" {
		code, ret, _ := s.call(hop{Kind: "Change", ID: sc.active})
		pre = append(pre, hcop{Op: hop{Kind: "Change", ID: sc.active}, Inv: 0, Resp: 1, Code: code, Ret: ret})
	}
	var ctr atomic.Int64
	ctr.Store(1)
	var bGid atomic.Int64
	var parkedOnce atomic.Bool
	parked := make(chan struct{})
	resume := make(chan struct{})
	verifhook.Set(func(point string) {
		// only call A is running while the hook is armed (B is started after A has parked or returned);
		// through the in-process client the server method runs on a goroutine of its own
		if point == sc.point && parkedOnce.CompareAndSwap(false, true) {
			close(parked)
			<-resume
		}
	})
	defer verifhook.Set(nil)
	var ra, rb hcop
	aDone := make(chan struct{})
	bDone := make(chan struct{})
	go func() {
		defer close(aDone)
		local := &sut{clk: s.clk, model: s.model, api: s.api, settings: s.settings}
		o := sc.a
		inv := ctr.Add(1)
		code, ret, gid := local.call(o)
		resp := ctr.Add(1)
		o.Gen = gid
		ra = hcop{Op: o, Inv: inv, Resp: resp, Code: code, Ret: ret}
	}()
	wasParked := false
	select {
	case <-parked:
		wasParked = true
	case <-aDone:
	case <-time.After(20 * time.Second):
		g.o.Directs = append(g.o.Directs, vcoq.Direct{What: "a call neither reached its yield point nor returned within 20 s: " + sc.name, Class: "c19-blocked", Replay: sc.name})
		close(resume)
		return
	}
	go func() {
		defer close(bDone)
		local := &sut{clk: s.clk, model: s.model, api: s.api, settings: s.settings}
		bGid.Store(curGID())
		o := sc.b
		inv := ctr.Add(1)
		code, ret, gid := local.call(o)
		resp := ctr.Add(1)
		o.Gen = gid
		rb = hcop{Op: o, Inv: inv, Resp: resp, Code: code, Ret: ret}
	}()
	how := "sequential"
	if wasParked {
		// wait until B has returned or is blocked on a lock
		deadline := time.Now().Add(20 * time.Second)
		how = "undecided"
	wait:
		for i := 0; time.Now().Before(deadline); i++ {
			select {
			case <-bDone:
				how = "ran-inside"
				break wait
			default:
			}
			if bGid.Load() != 0 && modelLockBlocked() {
				// look twice: a goroutine can be in a short critical section of another lock
				runtime.Gosched()
				if modelLockBlocked() {
					how = "blocked"
					break wait
				}
			}
			if i < 100 {
				runtime.Gosched()
			} else {
				time.Sleep(100 * time.Microsecond)
			}
		}
		close(resume)
	}
	for _, ch := range []chan struct{}{aDone, bDone} {
		select {
		case <-ch:
		case <-time.After(20 * time.Second):
			g.o.Directs = append(g.o.Directs, vcoq.Direct{What: "forced schedule did not complete within 20 s (deadlock): " + sc.name, Class: "c19-blocked", Replay: sc.name})
			return
		}
	}
	verifhook.Set(nil)
	final := s.observe(0, nil)
	all := [][]hcop{}
	if len(pre) > 0 {
		all = append(all, pre)
	}
	all = append(all, []hcop{ra}, []hcop{rb})
	th := []string{}
	for _, t := range all {
		it := make([]string, len(t))
		for i, c := range t {
			it[i] = vcoq.App("mkCop", coqOp(c.Op), vcoq.Z(c.Inv), vcoq.Z(c.Resp), vcoq.Int(c.Code), coqOptMode(c.Ret))
		}
		th = append(th, vcoq.List(it))
	}
	coq := vcoq.App("KConc", coqModes(sc.initial), vcoq.Z(1500), vcoq.List(th), final.coq())
	g.o.Add(vcoq.Case{Coq: coq, Key: "forced:" + sc.name + ":" + coq, NonTrivial: true,
		Tags: []string{"forced", "forced-b:" + how, fmt.Sprintf("forced-parked:%v", wasParked)},
		JSON: map[string]any{"kind": "forced", "scenario": sc.name, "parked_at": sc.point, "second_call": how,
			"initial": sc.initial, "now": 1500, "threads": all, "final": final}})
}

// ---- write options passed through Model.UpdateMode / DeleteMode that the model does not carry ----
//
// Directed sequences; the three documented invariants are evaluated on the observation itself.
type optStep struct {
	what string
	run  func(m *electricpb.Model) error
}

func invariantBreach(m *electricpb.Model, changed bool) string {
	normals := 0
	for _, x := range m.Modes() {
		if x.Normal {
			normals++
		}
	}
	if normals > 1 {
		return fmt.Sprintf("%d modes are marked normal", normals)
	}
	if changed {
		if _, ok := m.FindMode(m.ActiveMode().Id); !ok {
			return fmt.Sprintf("the active mode (id %q) is not a mode that exists", m.ActiveMode().Id)
		}
	}
	return ""
}

func (g *gen) optionProbes() {
	md := func(id, title string, normal bool) *traits.ElectricMode {
		return &traits.ElectricMode{Id: id, Title: title, Normal: normal}
	}
	upd := func(m *traits.ElectricMode, opts ...resource.WriteOption) func(*electricpb.Model) error {
		return func(mm *electricpb.Model) error { _, err := mm.UpdateMode(m, opts...); return err }
	}
	change := func(id string) func(*electricpb.Model) error {
		return func(mm *electricpb.Model) error { _, err := mm.ChangeActiveMode(id); return err }
	}
	del := func(id string, opts ...resource.WriteOption) func(*electricpb.Model) error {
		return func(mm *electricpb.Model) error { return mm.DeleteMode(id, opts...) }
	}
	type probe struct {
		name  string
		class string // the class of a breach in this probe
		steps []optStep
	}
	probes := []probe{
		{"create-if-absent with a mask that leaves out id", "c19-update-stores-blank-id", []optStep{
			{"UpdateMode(x, WithCreateIfAbsent, mask [title])", upd(md("x", "T", false), resource.WithCreateIfAbsent(), resource.WithUpdatePaths("title"))},
			{"ChangeActiveMode(x)", change("x")},
			{"DeleteMode(x)", del("x")},
		}},
		{"reset mask naming id", "c19-update-stores-blank-id", []optStep{
			{"UpdateMode(b, WithResetPaths(id))", upd(md("b", "z", false), resource.WithResetPaths("id"))},
			{"ChangeActiveMode(b)", change("b")},
			{"DeleteMode(b)", del("b")},
		}},
		{"create-if-absent, nil mask", "c19-option-invariant", []optStep{
			{"UpdateMode(c normal, WithCreateIfAbsent)", upd(md("c", "", true), resource.WithCreateIfAbsent())},
			{"UpdateMode(c, WithCreateIfAbsent)", upd(md("c", "", false), resource.WithCreateIfAbsent())},
			{"ChangeActiveMode(c)", change("c")},
			{"UpdateMode(c normal, WithCreateIfAbsent)", upd(md("c", "", true), resource.WithCreateIfAbsent())},
			{"DeleteMode(c)", del("c")},
		}},
		{"mask extended with normal", "c19-option-invariant", []optStep{
			{"UpdateMode(b normal, mask [title] + more [normal])", upd(md("b", "q", true), resource.WithUpdatePaths("title"), resource.WithMoreUpdatePaths("normal"))},
			{"UpdateMode(b normal, mask [title], more mask on nil)", upd(md("b", "q", true), resource.WithMoreUpdatePaths("title"))},
			{"ChangeActiveMode(b)", change("b")},
		}},
		{"reset mask naming normal, expected value", "c19-option-invariant", []optStep{
			{"UpdateMode(b normal, reset [normal])", upd(md("b", "q", true), resource.WithResetPaths("normal"))},
			{"UpdateMode(b normal, expected value that differs)", upd(md("b", "q", true), resource.WithExpectedValue(md("b", "nope", false)))},
			{"UpdateMode(b, mask [normal] as fieldmask)", upd(md("b", "", true), resource.WithUpdateMask(&fieldmaskpb.FieldMask{Paths: []string{"normal", "normal"}}))},
			{"ChangeActiveMode(b)", change("b")},
			{"DeleteMode(b, expected value that differs)", del("b", resource.WithExpectedValue(md("b", "nope", false)))},
			{"DeleteMode(a, allow missing + expected check failing)", del("a", resource.WithAllowMissing(true), resource.WithExpectedValue(md("a", "nope", false)))},
		}},
	}
	for _, p := range probes {
		m := electricpb.NewModel(electricpb.WithInitialMode(md("a", "", true), md("b", "", false)))
		changed := false
		var trace []string
		for _, st := range p.steps {
			err := st.run(m)
			trace = append(trace, fmt.Sprintf("%s -> %v", st.what, err))
			if strings.HasPrefix(st.what, "ChangeActiveMode") && err == nil {
				changed = true
			}
			if why := invariantBreach(m, changed); why != "" {
				g.o.Directs = append(g.o.Directs, vcoq.Direct{
					What:   "write option through Model.UpdateMode breaks a documented invariant (" + p.name + "): " + why,
					Class:  p.class,
					Replay: map[string]any{"initial": []string{"a (normal)", "b"}, "steps": trace},
				})
				break
			}
		}
		g.o.Extra["option_probe:"+p.name] = trace
	}
}

// ---- clock plumbing: which clock stamps StartTime, which one the change times ----
func (g *gen) clockProbes() {
	mk := func(t int64) *fakeClock { return &fakeClock{t: t} }
	type cfg struct {
		name                 string
		opts                 func() []resource.Option
		stamp, atime, mtime int64 // expected readings; 0 = the real clock
	}
	c1, c2, c3 := mk(1111), mk(2222), mk(3333)
	cfgs := []cfg{
		{"WithClock(c1)", func() []resource.Option { return []resource.Option{electricpb.WithClock(c1)} }, 1111, 1111, 1111},
		{"WithClock(c1), WithClock(c2)", func() []resource.Option {
			return []resource.Option{electricpb.WithClock(c1), electricpb.WithClock(c2)}
		}, 2222, 2222, 2222},
		{"resource.WithClock(c3)", func() []resource.Option { return []resource.Option{resource.WithClock(c3)} }, 0, 3333, 3333},
		{"WithClock(c1), resource.WithClock(c3)", func() []resource.Option {
			return []resource.Option{electricpb.WithClock(c1), resource.WithClock(c3)}
		}, 1111, 3333, 3333},
		{"resource.WithClock(c3), WithClock(c1)", func() []resource.Option {
			return []resource.Option{resource.WithClock(c3), electricpb.WithClock(c1)}
		}, 1111, 1111, 1111},
		{"WithClock(c1), WithModeOption(resource.WithClock(c2)), WithActiveModeOption(resource.WithClock(c3))", func() []resource.Option {
			return []resource.Option{electricpb.WithClock(c1), electricpb.WithModeOption(resource.WithClock(c2)), electricpb.WithActiveModeOption(resource.WithClock(c3))}
		}, 1111, 3333, 2222},
		{"no clock option", func() []resource.Option { return nil }, 0, 0, 0},
	}
	for _, c := range cfgs {
		t0 := time.Now().Add(-time.Second).UnixNano()
		opts := append(c.opts(), electricpb.WithInitialMode(&traits.ElectricMode{Id: "a"}))
		m := electricpb.NewModel(opts...)
		ctx, cancel := context.WithCancel(context.Background())
		ach := m.PullActiveMode(ctx, resource.WithBackpressure(true), resource.WithUpdatesOnly(true))
		mch := m.PullModes(ctx, resource.WithBackpressure(true), resource.WithUpdatesOnly(true))
		type got struct{ a, mt int64 }
		res := make(chan got, 1)
		go func() {
			var x got
			select {
			case e := <-ach:
				x.a = e.ChangeTime.UnixNano()
			case <-time.After(10 * time.Second):
			}
			select {
			case e := <-mch:
				x.mt = e.ChangeTime.UnixNano()
			case <-time.After(10 * time.Second):
			}
			res <- x
		}()
		sw, err := m.ChangeActiveMode("a")
		_ = m.AddMode(&traits.ElectricMode{Id: "b"})
		x := <-res
		cancel()
		t1 := time.Now().Add(time.Second).UnixNano()
		check := func(what string, want, have int64) {
			ok := have == want
			if want == 0 {
				ok = have >= t0 && have <= t1
			}
			if !ok {
				g.o.Directs = append(g.o.Directs, vcoq.Direct{
					What:   fmt.Sprintf("clock plumbing (%s): %s is %d, expected the reading of %s", c.name, what, have, map[bool]string{true: "the real clock", false: fmt.Sprint(want)}[want == 0]),
					Class:  "c19-clock-plumbing",
					Replay: map[string]any{"options": c.name, "what": what, "have": have, "want": want},
				})
			}
		}
		if err != nil || sw.GetStartTime() == nil {
			g.o.Directs = append(g.o.Directs, vcoq.Direct{What: "clock plumbing (" + c.name + "): switching did not stamp a start time", Class: "c19-clock-plumbing", Replay: c.name})
			continue
		}
		check("the start time stamped by ChangeActiveMode", c.stamp, sw.GetStartTime().AsTime().UnixNano())
		check("the change time of the PullActiveMode event", c.atime, x.a)
		check("the change time of the PullModes event", c.mtime, x.mt)
	}
	g.o.Extra["clock_probes"] = len(cfgs)
}
