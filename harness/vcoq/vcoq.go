// Package vcoq holds what every correspondence generator shares: the PRNG all random choices
// derive from, Coq literal printing, and the writer for run/<id>/cases_*.v, cases_*.json, meta.json.
package vcoq

import (
	"encoding/json"
	"fmt"
	"os"
	"path/filepath"
	"sort"
	"strconv"
	"strings"
)

// Rand is splitmix64; every random choice of a run derives from one state seeded by VERIF_SEED.
type Rand struct{ s uint64 }

// NewRand mixes the seed first: the state advances by a constant per draw, so without mixing the
// stream of seed k+1 would be the stream of seed k shifted by one draw.
func NewRand(seed uint64) *Rand {
	z := seed*0x9E3779B97F4A7C15 + 0x1234567
	z = (z ^ (z >> 30)) * 0xBF58476D1CE4E5B9
	z = (z ^ (z >> 27)) * 0x94D049BB133111EB
	return &Rand{s: z ^ (z >> 31)}
}

func (r *Rand) U64() uint64 {
	r.s += 0x9E3779B97F4A7C15
	z := r.s
	z = (z ^ (z >> 30)) * 0xBF58476D1CE4E5B9
	z = (z ^ (z >> 27)) * 0x94D049BB133111EB
	return z ^ (z >> 31)
}
func (r *Rand) Intn(n int) int {
	if n <= 0 {
		return 0
	}
	return int(r.U64() % uint64(n))
}
func (r *Rand) Bool() bool        { return r.U64()&1 == 1 }
func (r *Rand) Chance(p int) bool { return r.Intn(100) < p } // p percent
func (r *Rand) Range(lo, hi int) int {
	if hi <= lo {
		return lo
	}
	return lo + r.Intn(hi-lo+1)
}
func (r *Rand) I64() int64 { return int64(r.U64()) }

// ---- Coq literals ----

func Z(v int64) string {
	if v < 0 {
		return "(" + strconv.FormatInt(v, 10) + ")"
	}
	return strconv.FormatInt(v, 10)
}
func Int(v int) string { return Z(int64(v)) }
func Nat(v int) string { return strconv.Itoa(v) + "%nat" }
func Bool(b bool) string {
	if b {
		return "true"
	}
	return "false"
}

// Str prints a Coq string literal. Only printable ASCII is passed through; other bytes
// must not occur (generators use ASCII alphabets); they are replaced by '?' and reported.
func Str(s string) string {
	var b strings.Builder
	b.WriteString("\"")
	for i := 0; i < len(s); i++ {
		c := s[i]
		switch {
		case c == '"':
			b.WriteString("\"\"")
		case c >= 32 && c < 127:
			b.WriteByte(c)
		default:
			b.WriteByte('?')
		}
	}
	b.WriteString("\"%string")
	return b.String()
}
func Some(s string) string { return "(Some " + s + ")" }
func None() string         { return "None" }
func OptZ(p *int64) string {
	if p == nil {
		return None()
	}
	return Some(Z(*p))
}
func List(items []string) string { return "[" + strings.Join(items, "; ") + "]" }
func ListZ(v []int64) string {
	it := make([]string, len(v))
	for i, x := range v {
		it[i] = Z(x)
	}
	return List(it)
}
func Pair(a, b string) string { return "(" + a + ", " + b + ")" }
func App(f string, args ...string) string {
	return "(" + f + " " + strings.Join(args, " ") + ")"
}

// ---- case files ----

// Case is one correspondence case: its Coq term (input and observation) and a JSON description
// (used for replay files and evidence samples), with a key for the distinct/non-trivial count.
type Case struct {
	Coq        string
	JSON       any
	Key        string // canonical text of the case; distinct cases have distinct keys
	NonTrivial bool
	Tags       []string // histogram tags (operation kinds, error kinds, ...)
}

// Direct is a violation the harness sees without the model (a recovered panic, a mutated
// argument, a goroutine left behind, a race report ...).
type Direct struct {
	What   string `json:"what"`
	Class  string `json:"class"` // classification used for known-finding matching
	Replay any    `json:"replay"`
}

type Out struct {
	Dir      string
	Prop     string
	Header   string // Coq header: imports
	CaseType string // Coq type of a case
	Judge    string // Coq function : CaseType -> Z
	Shard    int    // cases per file
	Cases    []Case
	Directs  []Direct
	Rule     string
	Extra    map[string]any
	Seed     uint64
	Tier     string
}

func (o *Out) Add(c Case) { o.Cases = append(o.Cases, c) }

func (o *Out) Flush() error {
	if err := os.MkdirAll(o.Dir, 0o755); err != nil {
		return err
	}
	old, _ := filepath.Glob(filepath.Join(o.Dir, "cases_*"))
	for _, f := range old {
		os.Remove(f)
	}
	if o.Shard <= 0 {
		o.Shard = 250
	}
	nshard := 0
	for start := 0; start < len(o.Cases); start += o.Shard {
		end := start + o.Shard
		if end > len(o.Cases) {
			end = len(o.Cases)
		}
		var b strings.Builder
		b.WriteString(o.Header)
		b.WriteString("\nOpen Scope Z_scope.\n")
		fmt.Fprintf(&b, "Definition cases : list %s := [\n", o.CaseType)
		js := make([]any, 0, end-start)
		for i := start; i < end; i++ {
			b.WriteString("  ")
			b.WriteString(o.Cases[i].Coq)
			if i+1 < end {
				b.WriteString(";")
			}
			b.WriteString("\n")
			js = append(js, o.Cases[i].JSON)
		}
		b.WriteString("].\n")
		fmt.Fprintf(&b, "Definition M := Eval vm_compute in (failures %s cases).\nPrint M.\n", o.Judge)
		name := fmt.Sprintf("cases_%03d", nshard)
		if err := os.WriteFile(filepath.Join(o.Dir, name+".v"), []byte(b.String()), 0o644); err != nil {
			return err
		}
		jb, _ := json.Marshal(js)
		if err := os.WriteFile(filepath.Join(o.Dir, name+".json"), jb, 0o644); err != nil {
			return err
		}
		nshard++
	}
	seen := map[string]bool{}
	distinct := 0
	hist := map[string]int{}
	for _, c := range o.Cases {
		for _, t := range c.Tags {
			hist[t]++
		}
		if c.NonTrivial && !seen[c.Key] {
			seen[c.Key] = true
			distinct++
		}
	}
	var samples []any
	step := len(o.Cases)/5 + 1
	for i := 0; i < len(o.Cases); i += step {
		samples = append(samples, o.Cases[i].JSON)
	}
	keys := make([]string, 0, len(hist))
	for k := range hist {
		keys = append(keys, k)
	}
	sort.Strings(keys)
	meta := map[string]any{
		"property":            o.Prop,
		"evaluations":         len(o.Cases),
		"distinct_nontrivial": distinct,
		"rule":                o.Rule,
		"histogram":           hist,
		"samples":             samples,
		"shards":              nshard,
		"shard_size":          o.Shard,
		"directs":             o.Directs,
		"seed":                o.Seed,
		"tier":                o.Tier,
	}
	for k, v := range o.Extra {
		meta[k] = v
	}
	mb, _ := json.MarshalIndent(meta, "", " ")
	return os.WriteFile(filepath.Join(o.Dir, "meta.json"), mb, 0o644)
}
