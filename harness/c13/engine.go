package main

// Lock-step execution of one call scenario against a grpc.ClientConnInterface whose server side is a
// scripted TestApi server.  The same engine drives wrap.ServerToClient and a real grpc.Server behind a
// bufconn listener; the only difference between the two runs is the connection handed in.
//
// A scenario is a single global sequence of steps.  A step is either a joint action (client Send
// meets server Recv, server Send meets client Recv) or a local action of one side; the driver
// starts the actions of a step, waits for those that must have completed, and only then goes on.
// Nothing in a scenario depends on transport buffering.

import (
	"context"
	"errors"
	"fmt"
	"io"
	"runtime"
	"strconv"
	"strings"
	"sync"
	"sync/atomic"
	"time"

	"github.com/smart-core-os/sc-golang/internal/testproto"
	"google.golang.org/grpc"
	"google.golang.org/grpc/codes"
	"google.golang.org/grpc/metadata"
	"google.golang.org/grpc/status"
	"google.golang.org/protobuf/proto"
)

// ---- scenarios ----

type Step struct {
	K     string   `json:"k"`            // C2S S2C SetH SendH SetT CloseSend RecvEOF CHeader Ret Cancel CtxEnd
	// CtxEnd: as Cancel, but the handler then goes on with the steps that follow (SetH SendH SetT, S2C = a
	// SendMsg, RecvEOF = a RecvMsg; what SetHeader returns to the handler is not recorded) up to its Ret
	M     int      `json:"m,omitempty"`  // message payload (C2S, S2C), response payload (Ret ok of unary shapes)
	MD    [][2]int `json:"md,omitempty"` // metadata pairs (key index, value)
	Ok    bool     `json:"ok,omitempty"` // Ret: handler returns nil
	Plain bool     `json:"plain,omitempty"`
	Code  int      `json:"code,omitempty"`
	Msg   int      `json:"msg,omitempty"`
	// metadata steps: after the call returned the handler modifies the map it passed in place (Mut: 1
	// write into a value slice, 2 add or replace a key, 3 append to a value, 4 all three); Reuse: the
	// handler passes the very map object of its previous metadata step again (MD = its contents now)
	Mut   int  `json:"mut,omitempty"`
	Reuse bool `json:"reuse,omitempty"`
	// Cancel: the context ends because its deadline expires (DeadlineExceeded) instead of a cancel
	DL bool `json:"dl,omitempty"`
	// CHeader directly after the SendH that sends the headers: the client is already blocked in Header()
	// when the handler calls SendHeader (the step is where Header() returns)
	Early bool `json:"early,omitempty"`
}

type Scenario struct {
	Shape     string `json:"shape"` // unary unaryAsStream serverStream clientStream bidi
	Req       int    `json:"req"`
	PreCancel bool   `json:"precancel,omitempty"`
	// PreDL (with PreCancel): the context the call is made on is past its deadline rather than cancelled
	PreDL bool `json:"predl,omitempty"`
	// OMD: user metadata the client attaches to its context (request metadata)
	OMD [][2]int `json:"omd,omitempty"`
	// the client modifies, in place, the maps Header()/Trailer() gave it and the outgoing metadata it
	// attached to its context once the call has started
	CMut  bool   `json:"cmut,omitempty"`
	Steps []Step `json:"steps"`
}

func serverStreams(shape string) bool { return shape == "serverStream" || shape == "bidi" }
func clientStreams(shape string) bool { return shape == "clientStream" || shape == "bidi" }
func autoRecv(shape string) bool      { return !clientStreams(shape) } // generated handler reads the request itself
func srvHasStream(shape string) bool  { return shape != "unary" && shape != "unaryAsStream" }

// ---- observations ----

// outcome classes
const (
	clsOK        = 0
	clsErr       = 1
	clsCancelled = 2
	clsDeadline  = 3
	clsEOFNoMsg  = 4 // a non-server-streaming RecvMsg ended with io.EOF
	clsStuck     = 9
)

type Outcome struct {
	Class int    `json:"class"`
	Code  int    `json:"code,omitempty"`
	Msg   int    `json:"msg,omitempty"`
	Raw   string `json:"raw,omitempty"`
}

type Obs struct {
	K   string   `json:"k"` // client: send got end hdr trl ; server: entered got eof recverr sent seth sendh done
	M   int      `json:"m,omitempty"`
	Ok  bool     `json:"ok,omitempty"`
	MD  [][2]int `json:"md,omitempty"`
	Out *Outcome `json:"out,omitempty"`
}

type Transcript struct {
	Client []Obs    `json:"client"`
	Server []Obs    `json:"server"`
	Notes  []string `json:"notes,omitempty"` // direct observations: aliasing, stuck, panic
}

func msgText(k int) string { return "msg" + strconv.Itoa(k) }
func parseMsg(s string) int {
	if strings.HasPrefix(s, "msg") {
		if k, err := strconv.Atoi(s[3:]); err == nil {
			return k
		}
	}
	return -1
}

func canon(err error, streamRecv, ss bool) Outcome {
	if err == nil {
		return Outcome{Class: clsOK}
	}
	if err == io.EOF && streamRecv {
		if ss {
			return Outcome{Class: clsOK}
		}
		return Outcome{Class: clsEOFNoMsg}
	}
	if errors.Is(err, context.Canceled) {
		return Outcome{Class: clsCancelled}
	}
	if errors.Is(err, context.DeadlineExceeded) {
		return Outcome{Class: clsDeadline}
	}
	st := status.Convert(err)
	switch st.Code() {
	case codes.Canceled:
		return Outcome{Class: clsCancelled}
	case codes.DeadlineExceeded:
		return Outcome{Class: clsDeadline}
	}
	o := Outcome{Class: clsErr, Code: int(st.Code()), Msg: parseMsg(st.Message())}
	if o.Msg < 0 {
		o.Raw = st.Message()
	}
	return o
}

const nKeys = 3

func keyName(k int) string { return "hk" + strconv.Itoa(k) }
// mutateMD modifies a metadata map in place the way a caller that keeps using "its" map would
func mutateMD(md metadata.MD, kind int) {
	if md == nil || kind == 0 {
		return
	}
	present, absent := "", ""
	for k := nKeys - 1; k >= 0; k-- {
		if len(md[keyName(k)]) > 0 {
			present = keyName(k)
		} else {
			absent = keyName(k)
		}
	}
	add := func() {
		if absent != "" {
			md[absent] = []string{"91"}
		} else {
			md[keyName(0)] = []string{"91"}
		}
	}
	switch kind {
	case 1:
		if present != "" {
			md[present][0] = "90"
		} else {
			add()
		}
	case 2:
		add()
	case 3:
		if present != "" {
			md[present] = append(md[present], "92")
		} else {
			add()
		}
	default:
		if present != "" {
			md[present][0] = "90"
			md[present] = append(md[present], "92")
		}
		add()
	}
}

func sameMD(a, b [][2]int) bool {
	if len(a) != len(b) {
		return false
	}
	for i := range a {
		if a[i] != b[i] {
			return false
		}
	}
	return true
}

func mkMD(p [][2]int) metadata.MD {
	md := metadata.MD{}
	for _, kv := range p {
		md.Append(keyName(kv[0]), strconv.Itoa(kv[1]))
	}
	return md
}

// user keys only, in key order, values in order
func userMD(md metadata.MD) [][2]int {
	out := [][2]int{}
	for k := 0; k < nKeys; k++ {
		for _, v := range md.Get(keyName(k)) {
			n, err := strconv.Atoi(v)
			if err != nil {
				n = -1
			}
			out = append(out, [2]int{k, n})
		}
	}
	return out
}

// ---- a context whose deadline expires when the driver says so ----

// fakeDeadlineCtx has a deadline (far away, or already past) and ends with context.DeadlineExceeded at
// the moment expire is called: deadline expiry at a chosen point of a call, without a timer.
type fakeDeadlineCtx struct {
	context.Context // values (outgoing metadata)
	deadline        time.Time
	done            chan struct{}
	mu              sync.Mutex
	err             error
}

func newFakeDeadlineCtx(parent context.Context, expired bool) *fakeDeadlineCtx {
	c := &fakeDeadlineCtx{Context: parent, deadline: time.Now().Add(time.Hour), done: make(chan struct{})}
	if expired {
		c.deadline = time.Now().Add(-time.Second)
		c.expire()
	}
	return c
}
func (c *fakeDeadlineCtx) Deadline() (time.Time, bool) { return c.deadline, true }
func (c *fakeDeadlineCtx) Done() <-chan struct{}       { return c.done }
func (c *fakeDeadlineCtx) Err() error {
	c.mu.Lock()
	defer c.mu.Unlock()
	return c.err
}
func (c *fakeDeadlineCtx) expire() {
	c.mu.Lock()
	if c.err == nil {
		c.err = context.DeadlineExceeded
		close(c.done)
	}
	c.mu.Unlock()
}

// ---- messages ----

func mkReq(shape string, m int) proto.Message {
	switch shape {
	case "serverStream":
		return &testproto.ServerStreamRequest{NumRes: int32(m)}
	case "clientStream":
		return &testproto.ClientStreamRequest{Msg: strconv.Itoa(m)}
	case "bidi":
		return &testproto.BidiStreamRequest{Msg: strconv.Itoa(m)}
	}
	return &testproto.UnaryRequest{Msg: strconv.Itoa(m)}
}
func newResp(shape string) proto.Message {
	switch shape {
	case "serverStream":
		return &testproto.ServerStreamResponse{}
	case "clientStream":
		return &testproto.ClientStreamResponse{}
	case "bidi":
		return &testproto.BidiStreamResponse{}
	}
	return &testproto.UnaryResponse{}
}
func atoi(s string) int {
	n, err := strconv.Atoi(s)
	if err != nil {
		return -1
	}
	return n
}
func val(m proto.Message) int {
	switch x := m.(type) {
	case *testproto.UnaryRequest:
		return atoi(x.GetMsg())
	case *testproto.UnaryResponse:
		return atoi(x.GetMsg())
	case *testproto.ServerStreamRequest:
		return int(x.GetNumRes())
	case *testproto.ServerStreamResponse:
		return int(x.GetCounter())
	case *testproto.ClientStreamRequest:
		return atoi(x.GetMsg())
	case *testproto.ClientStreamResponse:
		return atoi(x.GetMsg())
	case *testproto.BidiStreamRequest:
		return atoi(x.GetMsg())
	case *testproto.BidiStreamResponse:
		return atoi(x.GetMsg())
	}
	return -2
}

// scribble over a message in place (every field), to detect sharing across the boundary
func scribble(m proto.Message, v int) {
	sv := strconv.Itoa(v)
	_ = sv
	switch x := m.(type) {
	case *testproto.UnaryRequest:
		x.Msg, x.SimulateError = sv, "x"
	case *testproto.UnaryResponse:
		x.Msg = sv
	case *testproto.ServerStreamRequest:
		x.NumRes, x.SimulateError = int32(v), "x"
	case *testproto.ServerStreamResponse:
		x.Counter = int32(v)
	case *testproto.ClientStreamRequest:
		x.Msg, x.SimulateError = sv, "x"
	case *testproto.ClientStreamResponse:
		x.Msg = sv
	case *testproto.BidiStreamRequest:
		x.Msg, x.SimulateError = sv, "x"
	case *testproto.BidiStreamResponse:
		x.Msg = sv
	}
}

type held struct {
	m proto.Message
	v int
}

// ---- scripted server ----

type srvCmd struct {
	k    string // recv send seth sendh sett waitdone ret
	m    int
	md   metadata.MD
	step Step
	// the client's context has ended and the handler has seen its own context end: a SendMsg / SendHeader must
	// fail.  On a real server (settle) the call is repeated for a short while if it succeeds: the transport
	// cancels the handler's context an instant before it marks the stream as done.
	settle bool
}

// how often a SendMsg / SendHeader of a handler that had seen its context end still succeeded on the real
// server and was repeated (evidence)
var settleRetries int64

type callCtl struct {
	shape   string
	cmd     chan srvCmd
	res     chan Obs
	entered chan Obs
	exited  chan struct{}
	auto    bool // no script: return the context's error on entry

	lastMD metadata.MD // the map object of the handler's latest metadata step

	mu            sync.Mutex
	harnessBug    string
	incoming      []string // request metadata under outKey as the handler sees it when it returns
	incomingUser  [][2]int // user request metadata as the handler sees it when it returns
	incomingExtra bool
	incomingSeen  bool
	received      []held // messages the server received, with the value seen on receipt
	sent     []proto.Message // messages the server sent (scribbled over at the end)
}

type scriptSrv struct {
	testproto.UnimplementedTestApiServer
	settle bool // a real server: see srvCmd.settle
	mu     sync.Mutex
	calls map[string]*callCtl
	stray []string
}

const callIDKey = "c13-call-id"
const outKey = "c13-out"       // a request metadata key whose value the client overwrites after the call started
const outKeyLate = "c13-late"  // a key the client adds after the call started

func (s *scriptSrv) set(id string, c *callCtl) {
	s.mu.Lock()
	if s.calls == nil {
		s.calls = map[string]*callCtl{}
	}
	s.calls[id] = c
	s.mu.Unlock()
}
func (s *scriptSrv) drop(id string) { s.mu.Lock(); delete(s.calls, id); s.mu.Unlock() }

// the call's controller is found through the request metadata the client attached to its context
func (s *scriptSrv) get(ctx context.Context) *callCtl {
	md, _ := metadata.FromIncomingContext(ctx)
	ids := md.Get(callIDKey)
	s.mu.Lock()
	defer s.mu.Unlock()
	if len(ids) == 1 {
		if c := s.calls[ids[0]]; c != nil {
			return c
		}
	}
	if len(ids) != 1 {
		// the client's outgoing metadata did not arrive as the handler's incoming metadata
		s.stray = append(s.stray, fmt.Sprint(ids))
	}
	// otherwise: a handler entered after its (cancelled) call was already over
	// a controller nobody listens to: the handler returns at once
	c := &callCtl{cmd: make(chan srvCmd), res: make(chan Obs, 4), entered: make(chan Obs, 1), exited: make(chan struct{}), auto: true}
	return c
}

func incomingUser(ctx context.Context) [][2]int {
	md, _ := metadata.FromIncomingContext(ctx)
	return userMD(md)
}

type sops struct {
	ctx   context.Context
	recv  func() (proto.Message, error)
	send  func(m int) (proto.Message, error)
	setH  func(metadata.MD) error
	sendH func(metadata.MD) error
	setT  func(metadata.MD)
}

func (c *callCtl) hold(m proto.Message) {
	c.mu.Lock()
	c.received = append(c.received, held{m, val(m)})
	c.mu.Unlock()
}

// interp runs server commands until a ret command; it returns the ret step.
func (c *callCtl) interp(o sops) Step {
	for cmd := range c.cmd {
		switch cmd.k {
		case "recv":
			m, err := o.recv()
			switch {
			case err == nil:
				c.hold(m)
				c.res <- Obs{K: "got", M: val(m)}
			case err == io.EOF:
				c.res <- Obs{K: "eof"}
			default:
				c.res <- Obs{K: "recverr"}
			}
		case "send":
			m, err := o.send(cmd.m)
			c.mu.Lock()
			c.sent = append(c.sent, m)
			c.mu.Unlock()
			for t0 := time.Now(); cmd.settle && err == nil && time.Since(t0) < stepTimeout/2; {
				atomic.AddInt64(&settleRetries, 1)
				time.Sleep(time.Millisecond)
				m, err = o.send(cmd.m)
				c.mu.Lock()
				c.sent = append(c.sent, m)
				c.mu.Unlock()
			}
			c.res <- Obs{K: "sent", Ok: err == nil}
		case "seth", "sendh", "sett":
			md := cmd.md
			if cmd.step.Reuse && c.lastMD != nil {
				md = c.lastMD
				if !sameMD(userMD(md), userMD(cmd.md)) {
					c.mu.Lock()
					c.harnessBug = fmt.Sprintf("reused map holds %v, scenario says %v", userMD(md), userMD(cmd.md))
					c.mu.Unlock()
				}
			}
			ok := true
			switch cmd.k {
			case "seth":
				ok = o.setH(md) == nil
			case "sendh":
				ok = o.sendH(md) == nil
				for t0 := time.Now(); cmd.settle && ok && time.Since(t0) < stepTimeout/2; {
					atomic.AddInt64(&settleRetries, 1)
					time.Sleep(time.Millisecond)
					ok = o.sendH(md) == nil
				}
			default:
				o.setT(md)
			}
			c.lastMD = md
			mutateMD(md, cmd.step.Mut)
			c.res <- Obs{K: cmd.k, Ok: ok}
		case "waitdone":
			select {
			case <-o.ctx.Done():
				c.res <- Obs{K: "done", Ok: true}
			case <-time.After(stepTimeout):
				c.res <- Obs{K: "done", Ok: false}
			}
		case "ret":
			in, _ := metadata.FromIncomingContext(o.ctx)
			c.mu.Lock()
			c.incoming = append([]string{}, in.Get(outKey)...)
			c.incomingUser = userMD(in)
			c.incomingExtra = len(in.Get(outKeyLate)) > 0
			c.incomingSeen = true
			c.mu.Unlock()
			return cmd.step
		}
	}
	return Step{K: "Ret", Ok: true}
}

func retErr(st Step) error {
	if st.Ok {
		return nil
	}
	if st.Plain {
		return errors.New(msgText(st.Msg))
	}
	return status.Error(codes.Code(st.Code), msgText(st.Msg))
}

func (s *scriptSrv) Unary(ctx context.Context, req *testproto.UnaryRequest) (*testproto.UnaryResponse, error) {
	c := s.get(ctx)
	defer close(c.exited)
	c.hold(req)
	if c.auto {
		c.entered <- Obs{K: "entered", M: val(req), MD: incomingUser(ctx)}
		return nil, ctx.Err()
	}
	c.entered <- Obs{K: "entered", M: val(req), MD: incomingUser(ctx)}
	st := c.interp(sops{
		ctx:   ctx,
		setH:  func(md metadata.MD) error { return grpc.SetHeader(ctx, md) },
		sendH: func(md metadata.MD) error { return grpc.SendHeader(ctx, md) },
		setT:  func(md metadata.MD) { _ = grpc.SetTrailer(ctx, md) },
	})
	if err := retErr(st); err != nil {
		return nil, err
	}
	res := &testproto.UnaryResponse{Msg: strconv.Itoa(st.M)}
	c.mu.Lock()
	c.sent = append(c.sent, res)
	c.mu.Unlock()
	return res, nil
}

func streamOps[Req, Res any](shape string, stream grpc.ServerStream, mk func(int) *Res) sops {
	return sops{
		ctx: stream.Context(),
		recv: func() (proto.Message, error) {
			m := new(Req)
			err := stream.RecvMsg(m)
			return any(m).(proto.Message), err
		},
		send: func(v int) (proto.Message, error) {
			m := any(mk(v)).(proto.Message)
			err := stream.SendMsg(m)
			// SendMsg has returned: the message is the handler's again (a handler that fills one
			// message over and over); what the client receives must be what was sent
			scribble(m, 555)
			return m, err
		},
		setH:  stream.SetHeader,
		sendH: stream.SendHeader,
		setT:  stream.SetTrailer,
	}
}

func (s *scriptSrv) ServerStream(req *testproto.ServerStreamRequest, stream grpc.ServerStreamingServer[testproto.ServerStreamResponse]) error {
	c := s.get(stream.Context())
	defer close(c.exited)
	c.hold(req)
	c.entered <- Obs{K: "entered", M: val(req), MD: incomingUser(stream.Context())}
	if c.auto {
		return stream.Context().Err()
	}
	st := c.interp(streamOps[testproto.ServerStreamRequest, testproto.ServerStreamResponse]("serverStream", stream,
		func(v int) *testproto.ServerStreamResponse { return &testproto.ServerStreamResponse{Counter: int32(v)} }))
	return retErr(st)
}

func (s *scriptSrv) ClientStream(stream grpc.ClientStreamingServer[testproto.ClientStreamRequest, testproto.ClientStreamResponse]) error {
	c := s.get(stream.Context())
	defer close(c.exited)
	c.entered <- Obs{K: "entered", M: -1, MD: incomingUser(stream.Context())}
	if c.auto {
		return stream.Context().Err()
	}
	st := c.interp(streamOps[testproto.ClientStreamRequest, testproto.ClientStreamResponse]("clientStream", stream,
		func(v int) *testproto.ClientStreamResponse {
			return &testproto.ClientStreamResponse{Msg: strconv.Itoa(v)}
		}))
	return retErr(st)
}

func (s *scriptSrv) BidiStream(stream grpc.BidiStreamingServer[testproto.BidiStreamRequest, testproto.BidiStreamResponse]) error {
	c := s.get(stream.Context())
	defer close(c.exited)
	c.entered <- Obs{K: "entered", M: -1, MD: incomingUser(stream.Context())}
	if c.auto {
		return stream.Context().Err()
	}
	st := c.interp(streamOps[testproto.BidiStreamRequest, testproto.BidiStreamResponse]("bidi", stream,
		func(v int) *testproto.BidiStreamResponse { return &testproto.BidiStreamResponse{Msg: strconv.Itoa(v)} }))
	return retErr(st)
}

// ---- client side ----

type cliCmd struct {
	k string // invoke new send recv closesend header trailer
	m int
}

type client struct {
	shape    string
	cc       grpc.ClientConnInterface
	ctx      context.Context
	cmd      chan cliCmd
	res      chan Obs
	stream   grpc.ClientStream
	received []held
	sent     []proto.Message
	mu       sync.Mutex
	cmut     bool
}

func methodOf(shape string) (string, *grpc.StreamDesc) {
	switch shape {
	case "serverStream":
		return testproto.TestApi_ServerStream_FullMethodName, &testproto.TestApi_ServiceDesc.Streams[0]
	case "clientStream":
		return testproto.TestApi_ClientStream_FullMethodName, &testproto.TestApi_ServiceDesc.Streams[1]
	case "bidi":
		return testproto.TestApi_BidiStream_FullMethodName, &testproto.TestApi_ServiceDesc.Streams[2]
	}
	return testproto.TestApi_Unary_FullMethodName, &grpc.StreamDesc{}
}

func (c *client) loop() {
	ss := serverStreams(c.shape)
	for cmd := range c.cmd {
		switch cmd.k {
		case "invoke":
			var h, t metadata.MD
			req := mkReq(c.shape, cmd.m)
			c.mu.Lock()
			c.sent = append(c.sent, req)
			c.mu.Unlock()
			res := new(testproto.UnaryResponse)
			err := c.cc.Invoke(c.ctx, testproto.TestApi_Unary_FullMethodName, req, res, grpc.Header(&h), grpc.Trailer(&t))
			if err == nil {
				c.mu.Lock()
				c.received = append(c.received, held{res, val(res)})
				c.mu.Unlock()
				c.res <- Obs{K: "got", M: val(res)}
			} else {
				o := canon(err, false, false)
				c.res <- Obs{K: "end", Out: &o}
			}
			c.res <- Obs{K: "hdr", MD: userMD(h)}
			c.res <- Obs{K: "trl", MD: userMD(t)}
		case "new":
			method, desc := methodOf(c.shape)
			s, err := c.cc.NewStream(c.ctx, desc, method)
			c.stream = s
			if err != nil {
				o := canon(err, false, false)
				c.res <- Obs{K: "end", Out: &o}
			} else {
				c.res <- Obs{K: "new", Ok: true}
			}
		case "send":
			req := mkReq(c.shape, cmd.m)
			c.mu.Lock()
			c.sent = append(c.sent, req)
			c.mu.Unlock()
			err := c.stream.SendMsg(req)
			scribble(req, 555) // the request is the client's again as soon as SendMsg has returned
			c.res <- Obs{K: "send", Ok: err == nil}
		case "closesend":
			err := c.stream.CloseSend()
			c.res <- Obs{K: "closesend", Ok: err == nil}
		case "recv":
			m := newResp(c.shape)
			err := c.stream.RecvMsg(m)
			if err == nil {
				c.mu.Lock()
				c.received = append(c.received, held{m, val(m)})
				c.mu.Unlock()
				c.res <- Obs{K: "got", M: val(m)}
			} else {
				o := canon(err, true, ss)
				c.res <- Obs{K: "end", Out: &o}
			}
		case "header":
			md, _ := c.stream.Header()
			c.res <- Obs{K: "hdr", MD: userMD(md)}
			if c.cmut {
				mutateMD(md, 4)
			}
		case "trailer":
			md := c.stream.Trailer()
			c.res <- Obs{K: "trl", MD: userMD(md)}
			if c.cmut {
				mutateMD(md, 4)
			}
		}
	}
}

// ---- driver ----

var stepTimeout = 3 * time.Second

type driver struct {
	sc       Scenario
	srv      *scriptSrv
	ctl      *callCtl
	cl       *client
	cancel   context.CancelFunc
	tr       Transcript
	stuck    bool
	cPending int // client results not yet collected
	returned bool
	gone     bool // the client's context has ended (CtxEnd): handler-side results are no longer recorded
}

func (d *driver) note(f string, a ...any) { d.tr.Notes = append(d.tr.Notes, fmt.Sprintf(f, a...)) }

func (d *driver) startC(k string, m int) { d.cl.cmd <- cliCmd{k, m}; d.cPending++ }
func (d *driver) waitC() (Obs, bool) {
	select {
	case o := <-d.cl.res:
		d.cPending--
		d.tr.Client = append(d.tr.Client, o)
		return o, true
	case <-time.After(stepTimeout):
		d.stuck = true
		d.note("client action did not complete")
		return Obs{}, false
	}
}
func (d *driver) startS(c srvCmd) bool {
	select {
	case d.ctl.cmd <- c:
		return true
	case <-d.ctl.exited:
		d.note("server handler already exited (command %s)", c.k)
		d.stuck = true
		return false
	case <-time.After(stepTimeout):
		d.stuck = true
		d.note("server not accepting command %s", c.k)
		return false
	}
}
func (d *driver) waitS() (Obs, bool) {
	select {
	case o := <-d.ctl.res:
		// after the client's context has ended the results of RecvMsg, SendMsg and SendHeader are recorded (they
		// fail on both transports; on the real server as soon as the transport has marked the stream done, see
		// srvCmd.settle), the result of SetHeader is not (the wrapper accepts metadata nobody will see, a real
		// server refuses it)
		if o.K != "sett" && (!d.gone || o.K != "seth") {
			d.tr.Server = append(d.tr.Server, o)
		}
		return o, true
	case <-time.After(stepTimeout):
		d.stuck = true
		d.note("server action did not complete")
		return Obs{}, false
	}
}
func (d *driver) waitEntered() bool {
	select {
	case o := <-d.ctl.entered:
		d.tr.Server = append(d.tr.Server, o)
		return true
	case <-time.After(stepTimeout):
		d.stuck = true
		d.note("server handler was not entered")
		return false
	}
}
func (d *driver) waitExited() bool {
	select {
	case <-d.ctl.exited:
		return true
	case <-time.After(stepTimeout):
		d.stuck = true
		d.note("server handler did not exit")
		return false
	}
}

// run executes the scenario; cc is the connection under test.
var callSeq int64

func runScenario(sc Scenario, srv *scriptSrv, cc grpc.ClientConnInterface) (tr Transcript) {
	callSeq++
	id := strconv.FormatInt(callSeq, 10)
	outMD := metadata.Pairs(callIDKey, id, outKey, "5")
	for _, kv := range sc.OMD {
		outMD.Append(keyName(kv[0]), strconv.Itoa(kv[1]))
	}
	usesDeadline := sc.PreDL
	for _, st := range sc.Steps {
		usesDeadline = usesDeadline || ((st.K == "Cancel" || st.K == "CtxEnd") && st.DL)
	}
	var ctx context.Context
	var cancel context.CancelFunc
	if usesDeadline {
		// the end of this context is a deadline expiry, at the moment the driver chooses
		f := newFakeDeadlineCtx(metadata.NewOutgoingContext(context.Background(), outMD), sc.PreCancel && sc.PreDL)
		ctx, cancel = f, f.expire
	} else {
		ctx, cancel = context.WithCancel(metadata.NewOutgoingContext(context.Background(), outMD))
	}
	defer cancel()
	defer srv.drop(id)
	ctl := &callCtl{shape: sc.Shape, cmd: make(chan srvCmd), res: make(chan Obs, 4), entered: make(chan Obs, 1),
		exited: make(chan struct{}), auto: sc.PreCancel}
	srv.set(id, ctl)
	cl := &client{shape: sc.Shape, cc: cc, ctx: ctx, cmd: make(chan cliCmd, 8), res: make(chan Obs, 8), cmut: sc.CMut}
	go cl.loop()
	d := &driver{sc: sc, srv: srv, ctl: ctl, cl: cl, cancel: cancel}
	defer func() {
		close(cl.cmd)
		tr = d.tr
	}()
	ss := serverStreams(sc.Shape)
	unary := sc.Shape == "unary"
	pendingRecv := false // a client RecvMsg (or the whole Invoke) is in flight
	halfClosed := autoRecv(sc.Shape)

	if sc.PreCancel {
		cancel()
	}
	// ---- start ----
	if unary {
		d.startC("invoke", sc.Req)
		d.cPending += 2 // hdr, trl follow
		pendingRecv = true
		if sc.PreCancel {
			d.finishClient()
			d.checkIsolation()
			return
		}
		if !d.waitEntered() {
			return
		}
	} else {
		d.startC("new", 0)
		o, ok := d.waitC()
		if !ok {
			return
		}
		d.tr.Client = d.tr.Client[:len(d.tr.Client)-1] // "new" itself is not an observation
		if o.K == "end" {
			// no stream: there are no headers or trailers to look at
			d.tr.Client = append(d.tr.Client, o, Obs{K: "hdr", MD: [][2]int{}}, Obs{K: "trl", MD: [][2]int{}})
			return
		}
		if sc.PreCancel {
			// the only thing a client can still do is learn the outcome
			d.startC("recv", 0)
			d.waitC()
			d.epilogue()
			return
		}
		if autoRecv(sc.Shape) {
			d.startC("send", sc.Req)
			if !d.waitEntered() {
				return
			}
			if _, ok := d.waitC(); !ok {
				return
			}
			d.startC("closesend", 0)
			if _, ok := d.waitC(); !ok {
				return
			}
		} else if !d.waitEntered() {
			return
		}
	}

	if sc.CMut {
		// the call has started: the client goes on using "its" metadata map
		outMD[outKey][0] = "66"
		outMD[outKeyLate] = []string{"1"}
		for k := 0; k < nKeys; k++ {
			if v := outMD[keyName(k)]; len(v) > 0 {
				v[0] = "67"
			}
			outMD[keyName(k)] = append(outMD[keyName(k)], "68")
		}
	}

	// ---- steps ----
	for i, st := range sc.Steps {
		if d.stuck {
			break
		}
		if st.K == "SendH" && i+1 < len(sc.Steps) && sc.Steps[i+1].K == "CHeader" && sc.Steps[i+1].Early && !d.gone {
			d.startC("header", 0) // blocks until the headers are there
			time.Sleep(300 * time.Microsecond)
		}
		switch st.K {
		case "C2S":
			d.startC("send", st.M)
			if d.startS(srvCmd{k: "recv"}) {
				d.waitS()
			}
			d.waitC()
		case "CtxEnd":
			if !pendingRecv {
				d.startC("recv", 0)
				pendingRecv = true
				time.Sleep(200 * time.Microsecond)
			}
			cancel()
			if unary {
				d.finishClient()
			} else {
				d.waitC()
			}
			pendingRecv = false
			if d.startS(srvCmd{k: "waitdone"}) {
				d.waitS()
			}
			d.gone = true
		case "S2C":
			if d.gone { // nobody receives any more: the handler's SendMsg returns an error (or not: a real server may not know yet)
				if d.startS(srvCmd{k: "send", m: st.M, settle: d.srv.settle}) {
					d.waitS()
				}
				continue
			}
			d.startC("recv", 0)
			pendingRecv = true
			if d.startS(srvCmd{k: "send", m: st.M}) {
				d.waitS()
			}
			if ss {
				d.waitC()
				pendingRecv = false
			}
		case "SetH":
			if d.startS(srvCmd{k: "seth", md: mkMD(st.MD), step: st}) {
				d.waitS()
			}
		case "SendH":
			if d.startS(srvCmd{k: "sendh", md: mkMD(st.MD), step: st, settle: d.gone && d.srv.settle}) {
				d.waitS()
			}
		case "SetT":
			if d.startS(srvCmd{k: "sett", md: mkMD(st.MD), step: st}) {
				d.waitS()
			}
		case "CloseSend":
			d.startC("closesend", 0)
			d.waitC()
			halfClosed = true
		case "RecvEOF":
			if d.startS(srvCmd{k: "recv"}) {
				d.waitS()
			}
		case "CHeader":
			if !st.Early {
				d.startC("header", 0)
			}
			d.waitC()
		case "Ret":
			if d.gone {
				if d.startS(srvCmd{k: "ret", step: st}) {
					d.waitExited()
					d.returned = true
				}
				continue
			}
			if !pendingRecv {
				d.startC("recv", 0)
				pendingRecv = true
			}
			if d.startS(srvCmd{k: "ret", step: st}) {
				d.waitExited()
				d.returned = true
			}
			if unary {
				d.finishClient()
			} else {
				d.waitC()
			}
			pendingRecv = false
		case "Cancel":
			if !pendingRecv {
				d.startC("recv", 0)
				pendingRecv = true
				// let the receive block first, as it would in a client that is waiting for the next message
				time.Sleep(200 * time.Microsecond)
			}
			cancel()
			if unary {
				d.finishClient()
			} else {
				d.waitC()
			}
			pendingRecv = false
			// what the handler can still see: its context ends, a receive fails
			if d.startS(srvCmd{k: "waitdone"}) {
				d.waitS()
			}
			if srvHasStream(sc.Shape) && !halfClosed {
				if d.startS(srvCmd{k: "recv"}) {
					d.waitS()
				}
			}
			if d.startS(srvCmd{k: "ret", step: Step{K: "Ret", Ok: true}}) {
				d.waitExited()
				d.returned = true
			}
		}
	}
	// ---- wind down ----
	if !d.returned {
		select {
		case <-ctl.exited:
		default:
			if !d.stuck {
				d.note("scenario ended with the handler still running")
			}
			cancel()
			select {
			case ctl.cmd <- srvCmd{k: "ret", step: Step{K: "Ret", Ok: true}}:
			case <-ctl.exited:
			case <-time.After(stepTimeout):
			}
			d.waitExited()
		}
	}
	if d.stuck {
		cancel()
		// drain whatever the client still produces so that its goroutine can end
		go func() {
			for range cl.res {
			}
		}()
		return
	}
	if !unary {
		d.epilogue()
		if sc.CMut {
			d.rereadMetadata()
		}
	}
	d.checkIsolation()
	d.checkIncoming()
	return
}

func (d *driver) finishClient() {
	for d.cPending > 0 {
		if _, ok := d.waitC(); !ok {
			return
		}
	}
}

// the maps handed out by Header() and Trailer() were modified by the client (cmut): reading again
// must give what was read before
func (d *driver) rereadMetadata() {
	n := len(d.tr.Client)
	if n < 2 {
		return
	}
	h0, t0 := d.tr.Client[n-2].MD, d.tr.Client[n-1].MD
	d.epilogue()
	if len(d.tr.Client) != n+2 {
		return
	}
	h1, t1 := d.tr.Client[n].MD, d.tr.Client[n+1].MD
	d.tr.Client = d.tr.Client[:n]
	if !sameMD(h0, h1) {
		d.note("aliasing: Header() gave %v, and %v after the client modified the map it had been given", h0, h1)
	}
	if !sameMD(t0, t1) {
		d.note("aliasing: Trailer() gave %v, and %v after the client modified the map it had been given", t0, t1)
	}
}

// the request metadata the handler sees must be what the client attached when the call started
func (d *driver) checkIncoming() {
	d.ctl.mu.Lock()
	defer d.ctl.mu.Unlock()
	if d.ctl.harnessBug != "" {
		d.note("harness: %s", d.ctl.harnessBug)
	}
	if !d.ctl.incomingSeen {
		return
	}
	want := userMD(mkMD(d.sc.OMD))
	if !sameMD(d.ctl.incomingUser, want) {
		d.note("aliasing: the handler's incoming metadata shows %v when it returns, after the client modified its outgoing metadata map; sent was %v", d.ctl.incomingUser, want)
	}
	if len(d.ctl.incoming) != 1 || d.ctl.incoming[0] != "5" || d.ctl.incomingExtra {
		d.note("aliasing: the handler's incoming metadata shows %v (late key: %v) after the client modified its outgoing metadata map; sent was [5]", d.ctl.incoming, d.ctl.incomingExtra)
	}
}

func (d *driver) epilogue() {
	d.startC("header", 0)
	d.waitC()
	d.startC("trailer", 0)
	d.waitC()
}

// scribble over everything each side sent, then look again at what the other side received; then
// scribble over what was received and look again at the senders' objects
func (d *driver) checkIsolation() {
	d.cl.mu.Lock()
	d.ctl.mu.Lock()
	defer d.cl.mu.Unlock()
	defer d.ctl.mu.Unlock()
	for _, m := range d.cl.sent {
		scribble(m, 777)
	}
	for _, m := range d.ctl.sent {
		scribble(m, 777)
	}
	for _, h := range d.ctl.received {
		if val(h.m) != h.v {
			d.note("aliasing: a message received by the server changed from %d to %d when the client modified what it had sent", h.v, val(h.m))
		}
	}
	for _, h := range d.cl.received {
		if val(h.m) != h.v {
			d.note("aliasing: a message received by the client changed from %d to %d when the server modified what it had sent", h.v, val(h.m))
		}
	}
	for _, h := range d.ctl.received {
		scribble(h.m, 888)
	}
	for _, h := range d.cl.received {
		scribble(h.m, 888)
	}
	for _, m := range d.cl.sent {
		if val(m) != 777 {
			d.note("aliasing: a message sent by the client changed to %d when the server modified what it had received", val(m))
		}
	}
	for _, m := range d.ctl.sent {
		if val(m) != 777 {
			d.note("aliasing: a message sent by the server changed to %d when the client modified what it had received", val(m))
		}
	}
}

// goroutines currently executing (or parked in) pkg/wrap code
func wrapGoroutines() (int, string) {
	buf := make([]byte, 1<<20)
	n := runtime.Stack(buf, true)
	cnt := 0
	first := ""
	for _, g := range strings.Split(string(buf[:n]), "\n\n") {
		if strings.Contains(g, "sc-golang/pkg/wrap.") {
			cnt++
			if first == "" {
				first = g
			}
		}
	}
	return cnt, first
}

func settleWrapGoroutines() (int, string) {
	var n int
	var g string
	for i := 0; i < 200; i++ {
		n, g = wrapGoroutines()
		if n == 0 {
			return 0, ""
		}
		time.Sleep(time.Duration(i+1) * 50 * time.Microsecond)
	}
	return n, g
}
