package main

// The behaviours of a real gRPC connection that the reference model Wrap/GrpcSpec.v assumes, as named
// facts.  Each fact has at least one directed scenario with the transcript a real connection must give,
// written down by hand from grpc-go's documented behaviour (not computed by the model).  On every run
//  - the translator "grpcfacts" writes the table to coq/theories/Gen/GrpcFacts.v, and Wrap/GrpcFactsProofs.v
//    re-proves over the whole table that GrpcSpec gives exactly the expected transcript for every entry and
//    that every name in GrpcFacts.grpc_assumed has an entry;
//  - every entry is executed against a grpc.Server behind bufconn (case KFact: the observed transcript must
//    be the expected one -- no model involved -- and must be what GrpcSpec computes).
// The general (all states, all metadata) form of each fact is a lemma of the same name in GrpcFactsProofs.v.

import (
	"fmt"
	"os"
	"path/filepath"
	"strings"

	"github.com/smart-core-os/sc-golang/verifharness/vcoq"
	"github.com/smart-core-os/sc-golang/verifharness/vh"
)

func init() { vh.RegisterTranslator("grpcfacts", translateGrpcFacts) }

type gfact struct {
	Name   string
	Says   string
	Sc     Scenario
	Expect string // Coq literal of type transcript
}

func md(p ...int) [][2]int {
	out := [][2]int{}
	for i := 0; i+1 < len(p); i += 2 {
		out = append(out, [2]int{p[i], p[i+1]})
	}
	return out
}
func retOk(m int) Step         { return Step{K: "Ret", Ok: true, M: m} }
func retSt(code, msg int) Step { return Step{K: "Ret", Code: code, Msg: msg} }

var grpcFacts = []gfact{
	{"header_block_leaves_with_first_message",
		"the first message carries the header block, with everything set before; the client's Header() shows it",
		Scenario{Shape: "serverStream", Req: 3, Steps: []Step{{K: "SetH", MD: md(0, 1)}, {K: "SetH", MD: md(1, 2)}, {K: "S2C", M: 5}, {K: "CHeader"}, retOk(0)}},
		`([CSent true; CClosed; CGot 5; CHdr [(0, 1); (1, 2)]; CEnd OOk; CHdr [(0, 1); (1, 2)]; CTrl []],
		  [SEntered 3; SIncoming []; SSetH true; SSetH true; SSent true])`},
	{"setheader_after_block_fails_and_is_dropped",
		"once the header block has left, SetHeader with metadata fails and the client never sees it",
		Scenario{Shape: "serverStream", Req: 3, Steps: []Step{{K: "S2C", M: 5}, {K: "SetH", MD: md(0, 1)}, {K: "CHeader"}, retOk(0)}},
		`([CSent true; CClosed; CGot 5; CHdr []; CEnd OOk; CHdr []; CTrl []],
		  [SEntered 3; SIncoming []; SSent true; SSetH false])`},
	{"sendheader_sends_once",
		"SendHeader sends the block at once (with what was set before); a second SendHeader fails and adds nothing",
		Scenario{Shape: "bidi", Steps: []Step{{K: "SetH", MD: md(2, 9)}, {K: "SendH", MD: md(0, 1)}, {K: "SendH", MD: md(1, 2)}, {K: "CHeader"}, retOk(0)}},
		`([CHdr [(0, 1); (2, 9)]; CEnd OOk; CHdr [(0, 1); (2, 9)]; CTrl []],
		  [SEntered (-1); SIncoming []; SSetH true; SSendH true; SSendH false])`},
	{"empty_setheader_always_succeeds",
		"SetHeader with no metadata succeeds even after the header block has left",
		Scenario{Shape: "serverStream", Req: 3, Steps: []Step{{K: "S2C", M: 5}, {K: "SetH", MD: md()}, retOk(0)}},
		`([CSent true; CClosed; CGot 5; CEnd OOk; CHdr []; CTrl []],
		  [SEntered 3; SIncoming []; SSent true; SSetH true])`},
	{"pending_headers_leave_with_the_status",
		"header metadata that was set but not sent reaches the client together with the final status, error or not",
		Scenario{Shape: "unary", Req: 5, Steps: []Step{{K: "SetH", MD: md(0, 1)}, retSt(5, 3)}},
		`([CEnd (OErr 5 3); CHdr [(0, 1)]; CTrl []],
		  [SEntered 5; SIncoming []; SSetH true])`},
	{"trailers_accumulate_and_arrive_with_the_status",
		"SetTrailer calls accumulate; the client sees the trailer once the status has arrived",
		Scenario{Shape: "serverStream", Req: 3, Steps: []Step{{K: "SetT", MD: md(1, 2)}, {K: "S2C", M: 5}, {K: "SetT", MD: md(1, 3, 0, 4)}, retSt(9, 1)}},
		`([CSent true; CClosed; CGot 5; CEnd (OErr 9 1); CHdr []; CTrl [(0, 4); (1, 2); (1, 3)]],
		  [SEntered 3; SIncoming []; SSent true])`},
	{"plain_error_travels_as_unknown_with_its_text",
		"a handler error that is not a status reaches the client as Unknown with the error text",
		Scenario{Shape: "unary", Req: 5, Steps: []Step{{K: "Ret", Plain: true, Msg: 7}}},
		`([CEnd (OErr 2 7); CHdr []; CTrl []],
		  [SEntered 5; SIncoming []])`},
	{"single_response_is_held_until_the_status",
		"the one response of a call that is not server-streaming is handed out when the OK status arrives",
		Scenario{Shape: "clientStream", Steps: []Step{{K: "C2S", M: 1}, {K: "S2C", M: 3}, retOk(0)}},
		`([CSent true; CGot 3; CHdr []; CTrl []],
		  [SEntered (-1); SIncoming []; SGot 1; SSent true])`},
	{"error_status_is_preferred_over_the_response",
		"a call that is not server-streaming reports a non-OK status instead of the response sent before it",
		Scenario{Shape: "clientStream", Steps: []Step{{K: "C2S", M: 1}, {K: "S2C", M: 3}, retSt(9, 1)}},
		`([CSent true; CEnd (OErr 9 1); CHdr []; CTrl []],
		  [SEntered (-1); SIncoming []; SGot 1; SSent true])`},
	{"ok_without_a_response_is_an_end_without_message",
		"a client-streaming handler that returns nil without a response: the client's RecvMsg ends with io.EOF",
		Scenario{Shape: "clientStream", Steps: []Step{{K: "CloseSend"}, {K: "RecvEOF"}, retOk(0)}},
		`([CClosed; CEnd OEofNoMsg; CHdr []; CTrl []],
		  [SEntered (-1); SIncoming []; SEof])`},
	{"half_close_gives_the_handler_eof_and_messages_keep_their_order",
		"messages arrive in the order sent, in both directions; after CloseSend the handler's RecvMsg gives io.EOF",
		Scenario{Shape: "bidi", Steps: []Step{{K: "C2S", M: 1}, {K: "C2S", M: 2}, {K: "S2C", M: 3}, {K: "CloseSend"}, {K: "RecvEOF"}, {K: "S2C", M: 4}, retOk(0)}},
		`([CSent true; CSent true; CGot 3; CClosed; CGot 4; CEnd OOk; CHdr []; CTrl []],
		  [SEntered (-1); SIncoming []; SGot 1; SGot 2; SSent true; SEof; SSent true])`},
	{"nothing_arrives_after_a_client_cancel",
		"after the client cancels: Canceled, no trailers (though set), headers only if they had left; the handler's context ends and its RecvMsg fails",
		Scenario{Shape: "bidi", Steps: []Step{{K: "C2S", M: 1}, {K: "SetH", MD: md(0, 1)}, {K: "SetT", MD: md(0, 4)}, {K: "Cancel"}}},
		`([CSent true; CEnd OCancelled; CHdr []; CTrl []],
		  [SEntered (-1); SIncoming []; SGot 1; SSetH true; SDone true; SRecvErr])`},
	{"deadline_expiry_is_deadline_exceeded",
		"a context that ends by its deadline gives DeadlineExceeded; headers received before stay visible",
		Scenario{Shape: "serverStream", Req: 3, Steps: []Step{{K: "SetH", MD: md(0, 1)}, {K: "S2C", M: 8}, {K: "Cancel", DL: true}}},
		`([CSent true; CClosed; CGot 8; CEnd ODeadline; CHdr [(0, 1)]; CTrl []],
		  [SEntered 3; SIncoming []; SSetH true; SSent true; SDone true])`},
	{"handler_actions_after_the_end_reach_nobody",
		"whatever the handler sets, sends or returns after the client's context has ended, the client sees none of it; its SendHeader, SendMsg and RecvMsg fail",
		Scenario{Shape: "bidi", Steps: []Step{{K: "CtxEnd"}, {K: "SendH", MD: md(0, 7)}, {K: "SetT", MD: md(1, 1)}, {K: "S2C", M: 4}, {K: "RecvEOF"}, retSt(5, 1)}},
		`([CEnd OCancelled; CHdr []; CTrl []],
		  [SEntered (-1); SIncoming []; SDone true; SSendH false; SSent false; SRecvErr])`},
	{"headers_received_before_the_end_stay_visible",
		"a header block the client has seen stays what Header() returns after the context has ended",
		Scenario{Shape: "bidi", Steps: []Step{{K: "SendH", MD: md(0, 1)}, {K: "CHeader"}, {K: "CtxEnd", DL: true}, {K: "SetH", MD: md(1, 1)}, retOk(0)}},
		`([CHdr [(0, 1)]; CEnd ODeadline; CHdr [(0, 1)]; CTrl []],
		  [SEntered (-1); SIncoming []; SSendH true; SDone true])`},
	{"call_on_a_cancelled_context_is_cancelled",
		"a call made on a context that is already cancelled ends with Canceled, without headers or trailers",
		Scenario{Shape: "unary", Req: 5, PreCancel: true, Steps: []Step{}},
		`([CEnd OCancelled; CHdr []; CTrl []], [])`},
	{"call_on_an_expired_context_is_deadline_exceeded",
		"a call made on a context whose deadline has passed ends with DeadlineExceeded",
		Scenario{Shape: "serverStream", Req: 5, PreCancel: true, PreDL: true, Steps: []Step{}},
		`([CEnd ODeadline; CHdr []; CTrl []], [])`},
	{"request_metadata_reaches_the_handler",
		"the metadata the client attached to its context is the handler's incoming metadata, values of a key in order",
		Scenario{Shape: "unary", Req: 5, OMD: md(1, 7, 0, 2, 1, 8), Steps: []Step{retOk(6)}},
		`([CGot 6; CHdr []; CTrl []],
		  [SEntered 5; SIncoming [(0, 2); (1, 7); (1, 8)]])`},
}

// facts of GrpcSpec that are constants, exercised on bufconn by the KUnknown / KMisuse cases of every run
var grpcConstFacts = []string{
	"unknown_method_is_unimplemented (KUnknown cases: grpc_unknown_method_code)",
	"sendmsg_after_closesend_is_internal, second_closesend_is_nil (KMisuse cases: g_misuse)",
}

func translateGrpcFacts(outDir string) error {
	var b strings.Builder
	b.WriteString("(* GENERATED by harness/c13 (translator \"grpcfacts\") from the table of directed scenarios in harness/c13/facts.go. Do not edit. *)\n")
	b.WriteString("From SC Require Import Base.Prelude Wrap.Stream Wrap.GrpcFacts.\n\n")
	b.WriteString("Definition grpc_fact_table : list gfact := [\n")
	for i, f := range grpcFacts {
		sep := ";"
		if i == len(grpcFacts)-1 {
			sep = ""
		}
		fmt.Fprintf(&b, "  (* %s *)\n  mkGFact %d %s%%string\n    %s\n    %s%s\n", strings.ReplaceAll(f.Says, "*)", "* )"), i+1, coqStr(f.Name), coqScenario(f.Sc),
			strings.Join(strings.Fields(f.Expect), " "), sep)
	}
	b.WriteString("].\n")
	return os.WriteFile(filepath.Join(outDir, "GrpcFacts.v"), []byte(b.String()), 0o644)
}

// every directed scenario against the real server: the observed transcript is a case of its own
func factCases(o *vcoq.Out, g *transport) map[string]any {
	names := []string{}
	for i, f := range grpcFacts {
		tg := runScenario(f.Sc, g.srv, g.cc)
		stuck := len(tg.Notes) > 0
		o.Add(vcoq.Case{
			Coq:        vcoq.App("KFact", vcoq.Int(i+1), coqScenario(f.Sc), "("+strings.Join(strings.Fields(f.Expect), " ")+")", coqTranscript(tg, stuck)),
			JSON:       map[string]any{"kind": "grpc-fact", "fact": f.Name, "says": f.Says, "scenario": f.Sc, "expected": f.Expect, "grpc": tg},
			Key:        fmt.Sprint("fact", i+1, coqTranscript(tg, stuck)),
			NonTrivial: true,
			Tags:       []string{"grpcfact:" + f.Name},
		})
		names = append(names, f.Name)
	}
	return map[string]any{"assumed_behaviours_of_grpc_named": len(grpcFacts), "each_run_on_bufconn_this_run": names, "constants_exercised_by_other_cases": grpcConstFacts}
}
