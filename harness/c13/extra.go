package main

// Cases beside the call scenarios: client misuse after CloseSend (both transports), wrap.UnwrapFully,
// the "sender reuses its message as soon as SendMsg has returned" probe on a raw stream, and the
// classes of model branches a scenario goes through (for the evidence histogram).

import (
	"context"
	"fmt"
	"runtime"
	"sort"
	"sync/atomic"
	"time"

	"github.com/smart-core-os/sc-golang/internal/testproto"
	"github.com/smart-core-os/sc-golang/pkg/wrap"
	"github.com/smart-core-os/sc-golang/verifharness/vcoq"
	"google.golang.org/grpc/metadata"
	"google.golang.org/grpc/status"
	"google.golang.org/protobuf/proto"
)

// ---- client misuse ----

func mres(err error, panicked bool) (string, string) {
	switch {
	case panicked:
		return "MPanic", "panic"
	case err == nil:
		return "MNil", "nil"
	}
	return vcoq.App("MErr", vcoq.Int(int(status.Code(err)))), "error " + status.Code(err).String()
}

// on a fresh bidi stream whose handler is running: CloseSend, then the offending call
func misuseOn(t *transport, kind string) (coq, text string, problem string) {
	callSeq++
	id := fmt.Sprint(callSeq)
	ctx, cancel := context.WithCancel(metadata.AppendToOutgoingContext(context.Background(), callIDKey, id))
	defer cancel()
	ctl := &callCtl{shape: "bidi", cmd: make(chan srvCmd), res: make(chan Obs, 4), entered: make(chan Obs, 1), exited: make(chan struct{})}
	t.srv.set(id, ctl)
	defer t.srv.drop(id)
	method, desc := methodOf("bidi")
	st, err := t.cc.NewStream(ctx, desc, method)
	if err != nil {
		return "MNil", "", "NewStream failed: " + err.Error()
	}
	select {
	case <-ctl.entered:
	case <-time.After(stepTimeout):
		return "MNil", "", "handler was not entered"
	}
	if err := st.CloseSend(); err != nil {
		return "MNil", "", "first CloseSend failed: " + err.Error()
	}
	var callErr error
	panicked := false
	func() {
		defer func() {
			if recover() != nil {
				panicked = true
			}
		}()
		if kind == "SendAfterCloseSend" {
			callErr = st.SendMsg(mkReq("bidi", 1))
		} else {
			callErr = st.CloseSend()
		}
	}()
	coq, text = mres(callErr, panicked)
	cancel()
	select {
	case ctl.cmd <- srvCmd{k: "ret", step: Step{K: "Ret", Ok: true}}:
	case <-ctl.exited:
	case <-time.After(stepTimeout):
		problem = "handler did not take its return command"
	}
	select {
	case <-ctl.exited:
	case <-time.After(stepTimeout):
		problem = "handler did not exit"
	}
	return coq, text, problem
}

func misuseCases(o *vcoq.Out, w, g *transport) {
	for _, kind := range []string{"SendAfterCloseSend", "CloseSendTwice"} {
		cw, tw, pw := misuseOn(w, kind)
		n, gr := settleWrapGoroutines()
		cg, tg, pg := misuseOn(g, kind)
		for _, p := range []string{pw, pg} {
			if p != "" {
				o.Directs = append(o.Directs, vcoq.Direct{What: "client misuse case " + kind + ": " + p, Class: "blocked", Replay: map[string]any{"misuse": kind}})
			}
		}
		if n != 0 {
			o.Directs = append(o.Directs, vcoq.Direct{What: fmt.Sprintf("wrap: after %s and a client cancel, %d goroutine(s) still inside pkg/wrap: %s", kind, n, firstLines(gr, 6)),
				Class: "goroutine-left", Replay: map[string]any{"misuse": kind}})
		}
		o.Add(vcoq.Case{
			Coq:        vcoq.App("KMisuse", kind, cw, cg),
			JSON:       map[string]any{"kind": "client-misuse", "misuse": kind, "wrap": tw, "grpc": tg},
			Key:        fmt.Sprint("misuse", kind, cw, cg),
			NonTrivial: true,
			Tags:       []string{"misuse:" + kind},
		})
	}
}

// ---- UnwrapFully ----

type uwLeaf struct{ id int }
type uwWrapper struct {
	id    int
	inner any
}

func (u *uwWrapper) Unwrap() any { return u.inner }

// a value type implementing Unwrapper too (method on the value)
type uwValWrapper struct {
	id    int
	inner any
}

func (u uwValWrapper) Unwrap() any { return u.inner }

func unwrapCases(o *vcoq.Out, r *vcoq.Rand) {
	for depth := 0; depth <= 6; depth++ {
		for rep := 0; rep < 2; rep++ {
			leaf := r.Range(1, 99)
			var obj any = &uwLeaf{leaf}
			if depth == 0 && rep == 1 {
				leaf, obj = 0, nil // UnwrapFully(nil) is nil
			}
			ids := make([]int, depth)
			for i := depth - 1; i >= 0; i-- {
				ids[i] = r.Range(100, 199)
				if r.Bool() {
					obj = &uwWrapper{ids[i], obj}
				} else {
					obj = uwValWrapper{ids[i], obj}
				}
			}
			got := -1
			switch x := wrap.UnwrapFully(obj).(type) {
			case nil:
				got = 0
			case *uwLeaf:
				got = x.id
			case *uwWrapper:
				got = x.id
			case uwValWrapper:
				got = x.id
			}
			cids := make([]string, len(ids))
			for i, v := range ids {
				cids[i] = vcoq.Int(v)
			}
			o.Add(vcoq.Case{
				Coq:        vcoq.App("KUnwrap", vcoq.List(cids), vcoq.Int(leaf), vcoq.Int(got)),
				JSON:       map[string]any{"kind": "unwrap-fully", "wrappers": ids, "leaf": leaf, "got": got},
				Key:        fmt.Sprint("unwrap", ids, leaf, got),
				NonTrivial: depth > 0,
				Tags:       []string{fmt.Sprintf("unwrap:depth%d", depth)},
			})
		}
	}
}

// ---- the sender reuses its message as soon as SendMsg has returned ----

// With one P and the receiver already parked in RecvMsg, the sender runs on after the channel
// operation and modifies its message before the receiver gets to copy anything: if the sender's own
// object crossed the channel, the receiver sees the modification, every time.  With the copy made in
// SendMsg the receiver's message is what was sent, whatever the schedule (no false alarm possible).
func sendThenModifyCases(o *vcoq.Out, r *vcoq.Rand, n int) {
	old := runtime.GOMAXPROCS(1)
	defer runtime.GOMAXPROCS(old)
	for i := 0; i < n; i++ {
		for _, dir := range []string{"server to client", "client to server"} {
			ctx, cancel := context.WithCancel(context.Background())
			s := wrap.NewClientServerStream(ctx)
			var src, dst proto.Message = richMsg(r), &testproto.TestAllTypes{}
			modify := func() { deface(src.(*testproto.TestAllTypes)) }
			if i%2 == 1 {
				// different descriptors with the same field layout: marshal + unmarshal path
				u := &testproto.UnaryRequest{Msg: fmt.Sprint(r.Intn(1000)), SimulateError: "e"}
				src, dst = u, &testproto.ClientStreamRequest{}
				modify = func() { u.Msg, u.SimulateError = "defaced", "defaced" }
			}
			want := proto.Clone(src)
			var parked atomic.Bool
			done := make(chan error, 1)
			go func() {
				parked.Store(true)
				if dir == "server to client" {
					done <- s.Client().RecvMsg(dst)
				} else {
					done <- s.Server().RecvMsg(dst)
				}
			}()
			for !parked.Load() {
				runtime.Gosched()
			}
			for k := 0; k < 3; k++ {
				runtime.Gosched() // the receiver runs until it blocks in its select
			}
			var err error
			if dir == "server to client" {
				err = s.Server().SendMsg(src)
			} else {
				err = s.Client().SendMsg(src)
			}
			modify() // SendMsg has returned
			var rerr error
			select {
			case rerr = <-done:
			case <-time.After(stepTimeout):
				rerr = fmt.Errorf("RecvMsg did not return")
			}
			cancel()
			if err != nil || rerr != nil {
				o.Directs = append(o.Directs, vcoq.Direct{What: fmt.Sprintf("wrap: raw stream transfer (%s) failed: send %v, receive %v", dir, err, rerr),
					Class: "blocked", Replay: map[string]any{"direction": dir}})
				continue
			}
			wantB, _ := proto.MarshalOptions{Deterministic: true}.Marshal(want)
			gotB, _ := proto.MarshalOptions{Deterministic: true}.Marshal(dst)
			if string(wantB) != string(gotB) {
				o.Directs = append(o.Directs, vcoq.Direct{
					What:   fmt.Sprintf("aliasing: the receiver's message shows what the sender wrote into its own message AFTER SendMsg had returned (%s): the message is copied too late", dir),
					Class:  "aliasing",
					Replay: map[string]any{"direction": dir, "sent": fmt.Sprint(want), "received": fmt.Sprint(dst), "sender_then_wrote": "deface(every field)"},
				})
				return
			}
		}
	}
}

// ---- which branches of the model a scenario goes through ----

func branchTags(sc Scenario, tw Transcript) []string {
	set := map[string]bool{}
	add := func(f string, a ...any) { set["br:"+fmt.Sprintf(f, a...)] = true }
	kind := "stream"
	if sc.Shape == "unary" {
		kind = "invoke"
	} else if sc.Shape == "unaryAsStream" {
		kind = "unary-as-stream"
	}
	if sc.PreCancel {
		if sc.PreDL {
			add("pre-expired:%s", kind)
		} else {
			add("pre-cancelled:%s", kind)
		}
	}
	sent, pending, trl, half := false, false, false, autoRecv(sc.Shape)
	hdrState := func() string {
		switch {
		case sent:
			return "headers-latched-before"
		case pending:
			return "latches-pending-headers"
		}
		return "latches-empty-headers"
	}
	gone := false
	for _, st := range sc.Steps {
		if gone {
			switch st.K {
			case "SetH":
				add("after-ctx-end:SetHeader:latched-%v:empty-%v", sent, len(st.MD) == 0)
				pending = pending || len(st.MD) > 0
			case "SendH":
				add("after-ctx-end:SendHeader:latched-before-%v:pending-%v", sent, pending)
				sent = true
			case "SetT":
				add("after-ctx-end:SetTrailer:empty-%v", len(st.MD) == 0)
			case "S2C":
				add("after-ctx-end:SendMsg")
			case "RecvEOF":
				add("after-ctx-end:RecvMsg")
			case "Ret":
				add("after-ctx-end:Close:%s:nil-%v", kind, st.Ok)
			}
			continue
		}
		switch st.K {
		case "CtxEnd":
			what := "cancel"
			if st.DL {
				what = "deadline"
			}
			add("ctx-end-handler-goes-on:%s:%s:headers-%v:halfclosed-%v:trailer-%v", what, kind, sent, half, trl)
			gone = true
		case "SetH":
			switch {
			case len(st.MD) == 0:
				add("SetHeader:empty-md")
			case sent:
				add("SetHeader:after-latch-fails")
			default:
				add("SetHeader:joined")
				pending = true
			}
		case "SendH":
			if sent {
				add("SendHeader:again-fails")
			} else {
				add("SendHeader:%s", hdrState())
				sent = true
			}
		case "SetT":
			if trl {
				add("SetTrailer:joined-to-earlier")
			} else if len(st.MD) == 0 {
				add("SetTrailer:empty-md")
			} else {
				add("SetTrailer:first")
			}
			trl = trl || len(st.MD) > 0
		case "S2C":
			if serverStreams(sc.Shape) {
				add("SendMsg:%s", hdrState())
			} else {
				add("SendMsg:single-response:%s", hdrState())
			}
			sent = true
		case "C2S":
			add("client-SendMsg")
		case "CloseSend":
			half = true
			add("CloseSend")
		case "RecvEOF":
			add("server-RecvMsg:eof")
		case "CHeader":
			add("Header():latched")
		case "Ret":
			r := "nil"
			if !st.Ok {
				r = "status"
				if st.Plain {
					r = "plain-error"
				}
			}
			if !srvHasStream(sc.Shape) && st.Ok {
				add("Close:%s:unary-response:%s", kind, hdrState())
			} else {
				add("Close:%s:%s:%s", kind, r, hdrState())
			}
			if !st.Ok && !st.Plain && (st.Code == 1 || st.Code == 4) {
				add("Close:handler-returns-Canceled-or-DeadlineExceeded-status")
			}
		case "Cancel":
			what := "cancel"
			if st.DL {
				what = "deadline"
			}
			add("ctx-end:%s:%s:headers-%v:halfclosed-%v:trailer-%v", what, kind, sent, half, trl)
		}
	}
	for _, ob := range tw.Client {
		if ob.K == "end" && ob.Out != nil {
			add("client-outcome:class%d", ob.Out.Class)
		}
	}
	out := make([]string, 0, len(set))
	for k := range set {
		out = append(out, k)
	}
	sort.Strings(out)
	return out
}

// ---- the guard of the theorems (C13Judge.wf), replicated to report how many generated scenarios it admits ----

func retWF(st Step) bool { return st.Ok || st.Plain || (st.Code >= 1 && st.Code <= 16) }

func inFragment(sc Scenario) bool {
	if sc.PreCancel {
		return len(sc.Steps) == 0
	}
	half, sent, infl := autoRecv(sc.Shape), false, false
	ss, cs, hasStream := serverStreams(sc.Shape), clientStreams(sc.Shape), srvHasStream(sc.Shape)
	for i, st := range sc.Steps {
		rest := sc.Steps[i+1:]
		switch st.K {
		case "C2S":
			if !cs || half {
				return false
			}
		case "S2C":
			if ss {
				sent, infl = true, false
			} else {
				return hasStream && len(rest) == 1 && rest[0].K == "Ret" && retWF(rest[0])
			}
		case "SetH", "SetT":
		case "SendH":
			infl = infl || !sent
			sent = true
		case "CloseSend":
			if !cs || half {
				return false
			}
			half = true
		case "RecvEOF":
			if !hasStream || !half {
				return false
			}
		case "CHeader":
			if sc.Shape == "unary" || !sent {
				return false
			}
			infl = false
		case "Ret":
			return retWF(st) && len(rest) == 0
		case "Cancel":
			return !infl && len(rest) == 0
		case "CtxEnd":
			if infl || len(rest) == 0 {
				return false
			}
			for j, p := range rest {
				switch p.K {
				case "SetH", "SendH", "SetT":
				case "S2C":
					if !hasStream {
						return false
					}
				case "RecvEOF":
					if !hasStream || half {
						return false
					}
				case "Ret":
					return retWF(p) && j == len(rest)-1
				default:
					return false
				}
			}
			return false
		default:
			return false
		}
	}
	return false
}

// ---- a caller that is itself a handler: its own incoming metadata must not reach the wrapped server ----

type mdProbeSrv struct {
	testproto.UnimplementedTestApiServer
	seen chan metadata.MD
}

func (s *mdProbeSrv) Unary(ctx context.Context, _ *testproto.UnaryRequest) (*testproto.UnaryResponse, error) {
	md, _ := metadata.FromIncomingContext(ctx)
	s.seen <- md.Copy()
	return &testproto.UnaryResponse{}, nil
}

// the calling context carries incoming metadata (the caller is serving a request of its own) and
// either no outgoing metadata at all or some: the handler sees exactly the outgoing metadata
func callerIncomingCases(o *vcoq.Out) {
	srv := &mdProbeSrv{seen: make(chan metadata.MD, 1)}
	cc := wrap.ServerToClient(testproto.TestApi_ServiceDesc, srv)
	for _, out := range [][][2]int{nil, {{0, 3}}, {{1, 4}, {1, 5}}} {
		ctx := metadata.NewIncomingContext(context.Background(), metadata.Pairs(keyName(1), "99", keyName(2), "98"))
		if out != nil {
			ctx = metadata.NewOutgoingContext(ctx, mkMD(out))
		}
		ctx, cancel := context.WithTimeout(ctx, stepTimeout)
		err := cc.Invoke(ctx, testproto.TestApi_Unary_FullMethodName, &testproto.UnaryRequest{}, &testproto.UnaryResponse{})
		cancel()
		if err != nil {
			o.Directs = append(o.Directs, vcoq.Direct{What: "wrap: unary call from a context with incoming metadata failed: " + err.Error(), Class: "blocked", Replay: map[string]any{"outgoing": out}})
			continue
		}
		got := userMD(<-srv.seen)
		if want := userMD(mkMD(out)); !sameMD(got, want) {
			o.Directs = append(o.Directs, vcoq.Direct{
				What:   fmt.Sprintf("wrap: the handler's incoming metadata is %v, the client attached %v (the calling context's own incoming metadata was hk1=99 hk2=98): request metadata is not what was sent", got, want),
				Class:  "metadata-lost",
				Replay: map[string]any{"outgoing": out, "caller_incoming": "hk1=99 hk2=98", "handler_saw": got},
			})
		}
	}
}
