package main

// Translator "wrapsites": regenerates coq/theories/Gen/WrapSites.v from the working tree on every run.
//  - wrap_sites: every place in pkg/wrap/stream.go where something crosses the boundary or is stored /
//    handed out (channel sends, assignments to the header / trailer fields, what Header() / Trailer()
//    return, what RecvMsg returns after a channel receive), with the syntactic fact "goes through the
//    copying function" (snapshot, metadata.Join, .Copy(), permissiveProtoMerge);
//  - wrap_methods: the method table of testproto.TestApi_ServiceDesc as ServerToClient indexes it.
// Wrap/SitesProofs.v re-proves over the whole table that every site copies, and that the model's
// method_table is this table.

import (
	"fmt"
	"go/ast"
	"go/parser"
	"go/token"
	"os"
	"path/filepath"
	"sort"
	"strings"

	"github.com/smart-core-os/sc-golang/internal/testproto"
	"github.com/smart-core-os/sc-golang/verifharness/vh"
)

func init() { vh.RegisterTranslator("wrapsites", translateWrapSites) }

func repoDir() string {
	if d := os.Getenv("VERIF_REPO"); d != "" {
		return d
	}
	return "/repo"
}

type wsite struct {
	kind, where, what string
	copies            bool
}

func exprString(e ast.Expr) string {
	switch x := e.(type) {
	case *ast.Ident:
		return x.Name
	case *ast.SelectorExpr:
		return exprString(x.X) + "." + x.Sel.Name
	case *ast.CallExpr:
		args := make([]string, len(x.Args))
		for i, a := range x.Args {
			args[i] = exprString(a)
		}
		return exprString(x.Fun) + "(" + strings.Join(args, ", ") + ")"
	case *ast.StarExpr:
		return "*" + exprString(x.X)
	case *ast.TypeAssertExpr:
		return exprString(x.X) + ".(" + exprString(x.Type) + ")"
	case *ast.ParenExpr:
		return "(" + exprString(x.X) + ")"
	case *ast.UnaryExpr:
		return x.Op.String() + exprString(x.X)
	case *ast.CompositeLit:
		return exprString(x.Type) + "{...}"
	}
	return fmt.Sprintf("<%T>", e)
}

func selName(e ast.Expr) string {
	if s, ok := e.(*ast.SelectorExpr); ok {
		return s.Sel.Name
	}
	return ""
}

func callTo(e ast.Expr) string { // name of the called function / method, "" if not a call
	c, ok := e.(*ast.CallExpr)
	if !ok {
		return ""
	}
	switch f := c.Fun.(type) {
	case *ast.Ident:
		return f.Name
	case *ast.SelectorExpr:
		return exprString(f)
	}
	return ""
}

func mentionsField(e ast.Expr, field string) bool {
	found := false
	ast.Inspect(e, func(n ast.Node) bool {
		if s, ok := n.(*ast.SelectorExpr); ok && s.Sel.Name == field {
			found = true
		}
		return true
	})
	return found
}

func recvName(fd *ast.FuncDecl) string {
	if fd.Recv == nil || len(fd.Recv.List) == 0 {
		return fd.Name.Name
	}
	t := fd.Recv.List[0].Type
	if s, ok := t.(*ast.StarExpr); ok {
		t = s.X
	}
	return exprString(t) + "." + fd.Name.Name
}

func wrapSites() ([]wsite, error) {
	path := filepath.Join(repoDir(), "pkg/wrap/stream.go")
	fset := token.NewFileSet()
	f, err := parser.ParseFile(fset, path, nil, 0)
	if err != nil {
		return nil, err
	}
	var out []wsite
	for _, d := range f.Decls {
		fd, ok := d.(*ast.FuncDecl)
		if !ok || fd.Body == nil {
			continue
		}
		fn := recvName(fd)
		pos := func(n ast.Node) string {
			return fmt.Sprintf("pkg/wrap/stream.go:%s:%d", fn, fset.Position(n.Pos()).Line)
		}
		afterChanRecv := false // inside RecvMsg: a value taken from a channel is in scope
		ast.Inspect(fd.Body, func(n ast.Node) bool {
			switch x := n.(type) {
			case *ast.SendStmt:
				out = append(out, wsite{"KChanSend", pos(x), exprString(x.Chan) + " <- " + exprString(x.Value), callTo(x.Value) == "snapshot"})
			case *ast.AssignStmt:
				for i, l := range x.Lhs {
					if fld := selName(l); (fld == "header" || fld == "trailer") && i < len(x.Rhs) {
						out = append(out, wsite{"KMdStore", pos(x), exprString(l) + " = " + exprString(x.Rhs[i]), callTo(x.Rhs[i]) == "metadata.Join"})
					}
				}
			case *ast.CommClause:
				if fd.Name.Name == "RecvMsg" && x.Comm != nil {
					if as, ok := x.Comm.(*ast.AssignStmt); ok && len(as.Lhs) > 0 {
						if id, ok := as.Lhs[0].(*ast.Ident); ok && id.Name != "_" {
							afterChanRecv = true
							for _, st := range x.Body {
								ast.Inspect(st, func(m ast.Node) bool {
									if r, ok := m.(*ast.ReturnStmt); ok && len(r.Results) == 1 {
										if _, isCall := r.Results[0].(*ast.CallExpr); isCall && callTo(r.Results[0]) != "c.closeErrLocked" && callTo(r.Results[0]) != "s.closeErrLocked" {
											out = append(out, wsite{"KRecvCopy", pos(r), "return " + exprString(r.Results[0]), callTo(r.Results[0]) == "permissiveProtoMerge"})
										} else if id2, ok := r.Results[0].(*ast.Ident); ok && id2.Name == "nil" {
											// returning nil after taking a value without copying it
											out = append(out, wsite{"KRecvCopy", pos(r), "return nil after a channel receive", false})
										}
									}
									return true
								})
							}
						}
					}
				}
			case *ast.ReturnStmt:
				if fd.Name.Name == "Header" || fd.Name.Name == "Trailer" {
					for _, r := range x.Results {
						for _, fld := range []string{"header", "trailer"} {
							if mentionsField(r, fld) {
								c, isCall := r.(*ast.CallExpr)
								ok := false
								if isCall {
									if s, isSel := c.Fun.(*ast.SelectorExpr); isSel && s.Sel.Name == "Copy" && selName(s.X) == fld {
										ok = true
									}
								}
								out = append(out, wsite{"KMdHandout", pos(x), "return " + exprString(r), ok})
							}
						}
					}
				}
			}
			return true
		})
		_ = afterChanRecv
	}
	sort.SliceStable(out, func(i, j int) bool { return out[i].kind < out[j].kind })
	return out, nil
}

// ---- the four repairs of stream.go as syntactic facts (order of checks) ----

func findFunc(f *ast.File, name string) *ast.FuncDecl {
	for _, d := range f.Decls {
		if fd, ok := d.(*ast.FuncDecl); ok && fd.Body != nil && recvName(fd) == name {
			return fd
		}
	}
	return nil
}

func mentions(n ast.Node, what string) bool {
	found := false
	ast.Inspect(n, func(m ast.Node) bool {
		if e, ok := m.(ast.Expr); ok && strings.Contains(exprString(e), what) {
			found = true
		}
		return !found
	})
	return found
}

// position (statement index in the function body, top level) of the first statement satisfying p, or -1
func firstStmt(fd *ast.FuncDecl, p func(ast.Stmt) bool) int {
	for i, st := range fd.Body.List {
		if p(st) {
			return i
		}
	}
	return -1
}

func hasReturn(n ast.Node) bool {
	found := false
	ast.Inspect(n, func(m ast.Node) bool {
		if _, ok := m.(*ast.ReturnStmt); ok {
			found = true
		}
		return !found
	})
	return found
}

type orderFacts struct {
	hdrOnClose, lateSetH, ctxErr, sendDone, closeErrFirst bool
	sendhDone, misuse                                     bool
	problems                                              []string
}

func wrapOrderFacts() (orderFacts, error) {
	var of orderFacts
	closeLatches, sendLatches := false, false // Close / server SendMsg call sendHeaderIfNeeded at all
	fset := token.NewFileSet()
	f, err := parser.ParseFile(fset, filepath.Join(repoDir(), "pkg/wrap/stream.go"), nil, 0)
	if err != nil {
		return of, err
	}
	need := func(name string) *ast.FuncDecl {
		fd := findFunc(f, name)
		if fd == nil {
			of.problems = append(of.problems, "function not found: "+name)
		}
		return fd
	}
	if fd := need("ClientServerStream.Close"); fd != nil {
		// fx_hdr_on_close: an if on the context's error whose body latches the headers
		of.hdrOnClose = firstStmt(fd, func(st ast.Stmt) bool {
			is, ok := st.(*ast.IfStmt)
			return ok && mentions(is.Cond, "ctx.Err()") && mentions(is.Body, "sendHeaderIfNeeded")
		}) >= 0
		closeLatches = mentions(fd.Body, "sendHeaderIfNeeded")
		// closeErr is assigned before anything is closed
		iErr := firstStmt(fd, func(st ast.Stmt) bool {
			as, ok := st.(*ast.AssignStmt)
			return ok && len(as.Lhs) == 1 && selName(as.Lhs[0]) == "closeErr"
		})
		iClose := firstStmt(fd, func(st ast.Stmt) bool {
			es, ok := st.(*ast.ExprStmt)
			return ok && (callTo(es.X) == "close" || strings.HasSuffix(callTo(es.X), ".closed"))
		})
		of.closeErrFirst = iErr >= 0 && iClose > iErr
	}
	if fd := need("serverStream.SetHeader"); fd != nil {
		// fx_late_seth: a select on headerC returning an error comes before the Join
		iSel := firstStmt(fd, func(st ast.Stmt) bool {
			ss, ok := st.(*ast.SelectStmt)
			return ok && mentions(ss, "headerC") && mentions(ss, "errors.New")
		})
		iJoin := firstStmt(fd, func(st ast.Stmt) bool { return mentions(st, "metadata.Join") })
		of.lateSetH = iSel >= 0 && iJoin > iSel
	}
	if fd := need("ClientServerStream.doneErr"); fd != nil {
		// fx_ctx_err: doneErr can return the context's error
		of.ctxErr = mentions(fd.Body, "ctx.Err()")
	}
	if fd := need("serverStream.SendMsg"); fd != nil {
		// fx_send_done: the context is looked at (and the call left) before the headers are latched
		iChk := firstStmt(fd, func(st ast.Stmt) bool {
			is, ok := st.(*ast.IfStmt)
			return ok && mentions(is.Cond, "ctx.Err()") && hasReturn(is.Body)
		})
		iLatch := firstStmt(fd, func(st ast.Stmt) bool { return mentions(st, "sendHeaderIfNeeded") })
		of.sendDone = iChk >= 0 && iLatch > iChk
		sendLatches = iLatch >= 0
	}
	if fd := need("serverStream.SendHeader"); fd != nil {
		// fx_sendh_done: the context is looked at (and the call left) before the latch is touched
		iChk := firstStmt(fd, func(st ast.Stmt) bool {
			is, ok := st.(*ast.IfStmt)
			return ok && mentions(is.Cond, "ctx.Err()") && hasReturn(is.Body)
		})
		iLatch := firstStmt(fd, func(st ast.Stmt) bool { return mentions(st, "headerC") || mentions(st, "metadata.Join") })
		of.sendhDone = iChk >= 0 && iLatch > iChk
	}
	// fx_misuse: CloseSend closes clientSend only inside an if (on a flag), and the client's SendMsg tests the
	// same flag and leaves before it touches the channel
	flagOf := func(is *ast.IfStmt) string {
		flag := ""
		ast.Inspect(is.Cond, func(m ast.Node) bool {
			if s, ok := m.(*ast.SelectorExpr); ok && flag == "" {
				if x, ok := s.X.(*ast.Ident); ok && x.Name == "c" {
					flag = s.Sel.Name
				}
			}
			return true
		})
		return flag
	}
	closeFlag, sendFlag := "", ""
	if fd := need("clientStream.CloseSend"); fd != nil {
		bare := firstStmt(fd, func(st ast.Stmt) bool {
			es, ok := st.(*ast.ExprStmt)
			return ok && callTo(es.X) == "close"
		})
		for _, st := range fd.Body.List {
			if is, ok := st.(*ast.IfStmt); ok && mentions(is.Body, "close(c.clientSend)") && bare < 0 {
				closeFlag = flagOf(is)
			}
		}
	}
	if fd := need("clientStream.SendMsg"); fd != nil {
		iChan := firstStmt(fd, func(st ast.Stmt) bool { return mentions(st, "clientSend") })
		for i, st := range fd.Body.List {
			if is, ok := st.(*ast.IfStmt); ok && hasReturn(is.Body) && (iChan < 0 || i < iChan) && sendFlag == "" {
				sendFlag = flagOf(is)
			}
		}
	}
	of.misuse = closeFlag != "" && closeFlag == sendFlag
	// SendHeader itself refusing to publish on a finished call makes the outer tests of the context in Close and
	// in the server's SendMsg redundant (StreamProofs.sendh_done_subsumes): a tree without them behaves the same
	if of.sendhDone {
		of.hdrOnClose = of.hdrOnClose || closeLatches
		of.sendDone = of.sendDone || sendLatches
	}
	return of, nil
}

func coqStr(s string) string { return `"` + strings.ReplaceAll(s, `"`, `""`) + `"` }

func translateWrapSites(outDir string) error {
	sites, err := wrapSites()
	if err != nil {
		return err
	}
	var b strings.Builder
	b.WriteString("(* GENERATED by harness/c13 (translator \"wrapsites\") from the source tree under check. Do not edit. *)\n")
	b.WriteString("From SC Require Import Base.Prelude Wrap.Stream Wrap.Sites.\nLocal Open Scope string_scope.\n\n")
	b.WriteString("Definition wrap_sites : list wsite := [\n")
	for i, s := range sites {
		sep := ";"
		if i == len(sites)-1 {
			sep = ""
		}
		cp := "false"
		if s.copies {
			cp = "true"
		}
		fmt.Fprintf(&b, "  mkWSite %s %s %s %s%s\n", s.kind, coqStr(s.where), coqStr(s.what), cp, sep)
	}
	b.WriteString("].\n\n")
	// the method table as ServerToClient builds it from the service description
	idx := map[string]int{"Unary": 0, "ServerStream": 1, "ClientStream": 2, "BidiStream": 3}
	type row struct {
		i int
		k string
	}
	var rows []row
	next := 10
	get := func(name string) int {
		if i, ok := idx[name]; ok {
			return i
		}
		next++
		return next
	}
	for _, m := range testproto.TestApi_ServiceDesc.Methods {
		rows = append(rows, row{get(m.MethodName), "MUnary"})
	}
	for _, s := range testproto.TestApi_ServiceDesc.Streams {
		rows = append(rows, row{get(s.StreamName), fmt.Sprintf("(MStream %v %v)", s.ServerStreams, s.ClientStreams)})
	}
	sort.Slice(rows, func(i, j int) bool { return rows[i].i < rows[j].i })
	b.WriteString("Local Close Scope string_scope.\nDefinition wrap_methods : list (Z * mkind) := [")
	for i, r := range rows {
		if i > 0 {
			b.WriteString("; ")
		}
		fmt.Fprintf(&b, "(%d, %s)", r.i, r.k)
	}
	b.WriteString("].\n")
	of, err := wrapOrderFacts()
	if err != nil {
		return err
	}
	b.WriteString("\n(* the repairs of stream.go as facts read off the source: Close latches pending headers under a test of\n")
	b.WriteString("   the context; SetHeader tests the latch before it joins; doneErr can return ctx.Err(); server SendMsg\n")
	b.WriteString("   leaves on a finished context before it latches the headers; so does SendHeader; the client's CloseSend\n")
	b.WriteString("   closes clientSend under a flag that its SendMsg tests before touching the channel *)\n")
	fmt.Fprintf(&b, "Definition wrap_fixes : fixes := mkFx %v %v %v %v %v %v.\n", of.hdrOnClose, of.lateSetH, of.ctxErr, of.sendDone, of.sendhDone, of.misuse)
	fmt.Fprintf(&b, "(* Close assigns closeErr before it closes closedC / serverSend / the context *)\nDefinition wrap_close_err_first : bool := %v.\n", of.closeErrFirst)
	fmt.Fprintf(&b, "Definition wrap_order_problems : list string := [%s]%%string.\n", func() string {
		q := make([]string, len(of.problems))
		for i, p := range of.problems {
			q[i] = coqStr(p)
		}
		return strings.Join(q, "; ")
	}())
	return os.WriteFile(filepath.Join(outDir, "WrapSites.v"), []byte(b.String()), 0o644)
}
