package main

import (
	"context"
	"encoding/json"
	"fmt"
	"net"
	"os"
	"sync/atomic"
	"time"

	"github.com/smart-core-os/sc-golang/internal/testproto"
	"github.com/smart-core-os/sc-golang/pkg/wrap"
	"github.com/smart-core-os/sc-golang/verifharness/vcoq"
	"github.com/smart-core-os/sc-golang/verifharness/vh"
	"google.golang.org/grpc"
	"google.golang.org/grpc/credentials/insecure"
	"google.golang.org/grpc/metadata"
	"google.golang.org/grpc/status"
	"google.golang.org/grpc/test/bufconn"
)

func init() { vh.Register("C13", genC13) }

func main() {
	if len(os.Args) > 1 && os.Args[1] == "probe" {
		probe()
		return
	}
	if len(os.Args) > 1 && os.Args[1] == "racerun" {
		raceRun()
		return
	}
	vh.Main()
}

// ---- the two transports ----

type transport struct {
	name  string
	srv   *scriptSrv
	cc    grpc.ClientConnInterface
	close func()
}

func newWrapTransport() *transport {
	srv := &scriptSrv{}
	return &transport{name: "wrap", srv: srv, cc: wrap.ServerToClient(testproto.TestApi_ServiceDesc, srv), close: func() {}}
}

func newGrpcTransport() (*transport, error) {
	// settle: on a real server a handler that has just seen ctx.Done() may be ahead of the transport by a
	// few instructions (closeStream cancels the context before it marks the stream done)
	srv := &scriptSrv{settle: true}
	lis := bufconn.Listen(1 << 20)
	gs := grpc.NewServer()
	testproto.RegisterTestApiServer(gs, srv)
	go gs.Serve(lis)
	cc, err := grpc.NewClient("passthrough:///bufnet",
		grpc.WithContextDialer(func(ctx context.Context, _ string) (net.Conn, error) { return lis.DialContext(ctx) }),
		grpc.WithTransportCredentials(insecure.NewCredentials()))
	if err != nil {
		return nil, err
	}
	return &transport{name: "grpc", srv: srv, cc: cc, close: func() { cc.Close(); gs.Stop() }}, nil
}

func probe() {
	w := newWrapTransport()
	g, err := newGrpcTransport()
	if err != nil {
		panic(err)
	}
	defer g.close()
	var scs []Scenario
	if len(os.Args) > 2 {
		b, err := os.ReadFile(os.Args[2])
		if err != nil {
			panic(err)
		}
		if err := json.Unmarshal(b, &scs); err != nil {
			panic(err)
		}
	}
	for _, sc := range scs {
		a := runScenario(sc, w.srv, w.cc)
		n, gr := settleWrapGoroutines()
		b := runScenario(sc, g.srv, g.cc)
		ja, _ := json.Marshal(a)
		jb, _ := json.Marshal(b)
		js, _ := json.Marshal(sc)
		same := "SAME"
		if string(ja) != string(jb) {
			same = "DIFF"
		}
		fmt.Printf("%s %s\n  wrap: %s\n  grpc: %s\n", same, js, ja, jb)
		if n != 0 {
			fmt.Printf("  LEAK %d: %s\n", n, gr)
		}
	}
}

// ---- Coq literals ----

func coqShape(s string) string {
	switch s {
	case "unary":
		return "Unary"
	case "unaryAsStream":
		return "UnaryAsStream"
	case "serverStream":
		return "ServerStream"
	case "clientStream":
		return "ClientStream"
	}
	return "Bidi"
}
func coqMD(p [][2]int) string {
	it := make([]string, len(p))
	for i, kv := range p {
		it[i] = vcoq.Pair(vcoq.Int(kv[0]), vcoq.Int(kv[1]))
	}
	return vcoq.List(it)
}
func coqStep(st Step) string {
	switch st.K {
	case "C2S", "S2C":
		return vcoq.App(st.K, vcoq.Int(st.M))
	case "SetH", "SendH", "SetT":
		return vcoq.App(st.K, coqMD(st.MD))
	case "Ret":
		switch {
		case st.Ok:
			return vcoq.App("Ret", vcoq.App("RetOk", vcoq.Int(st.M)))
		case st.Plain:
			return vcoq.App("Ret", vcoq.App("RetPlain", vcoq.Int(st.Msg)))
		}
		return vcoq.App("Ret", vcoq.App("RetStatus", vcoq.Int(st.Code), vcoq.Int(st.Msg)))
	case "Cancel", "CtxEnd":
		return vcoq.App(st.K, vcoq.Bool(st.DL))
	}
	return st.K // CloseSend RecvEOF CHeader
}
func coqScenario(sc Scenario) string {
	it := make([]string, len(sc.Steps))
	for i, st := range sc.Steps {
		it[i] = coqStep(st)
	}
	pre := "CtxLive"
	if sc.PreCancel {
		pre = "CtxCanceled"
		if sc.PreDL {
			pre = "CtxExpired"
		}
	}
	return vcoq.App("mkScn", coqShape(sc.Shape), vcoq.Int(sc.Req), coqMD(sc.OMD), pre, vcoq.List(it))
}
func coqOutcome(o *Outcome) string {
	switch o.Class {
	case clsOK:
		return "OOk"
	case clsErr:
		return vcoq.App("OErr", vcoq.Int(o.Code), vcoq.Int(o.Msg))
	case clsCancelled:
		return "OCancelled"
	case clsDeadline:
		return "ODeadline"
	case clsEOFNoMsg:
		return "OEofNoMsg"
	}
	return "OStuck"
}
func coqTranscript(t Transcript, stuck bool) string {
	var c, s []string
	for _, o := range t.Client {
		switch o.K {
		case "send":
			c = append(c, vcoq.App("CSent", vcoq.Bool(o.Ok)))
		case "closesend":
			c = append(c, "CClosed")
		case "got":
			c = append(c, vcoq.App("CGot", vcoq.Int(o.M)))
		case "end":
			c = append(c, vcoq.App("CEnd", coqOutcome(o.Out)))
		case "hdr":
			c = append(c, vcoq.App("CHdr", coqMD(o.MD)))
		case "trl":
			c = append(c, vcoq.App("CTrl", coqMD(o.MD)))
		}
	}
	if stuck {
		c = append(c, "(CEnd OStuck)")
	}
	for _, o := range t.Server {
		switch o.K {
		case "entered":
			s = append(s, vcoq.App("SEntered", vcoq.Int(o.M)), vcoq.App("SIncoming", coqMD(o.MD)))
		case "got":
			s = append(s, vcoq.App("SGot", vcoq.Int(o.M)))
		case "eof":
			s = append(s, "SEof")
		case "recverr":
			s = append(s, "SRecvErr")
		case "sent":
			s = append(s, vcoq.App("SSent", vcoq.Bool(o.Ok)))
		case "seth":
			s = append(s, vcoq.App("SSetH", vcoq.Bool(o.Ok)))
		case "sendh":
			s = append(s, vcoq.App("SSendH", vcoq.Bool(o.Ok)))
		case "done":
			s = append(s, vcoq.App("SDone", vcoq.Bool(o.Ok)))
		}
	}
	return vcoq.Pair(vcoq.List(c), vcoq.List(s))
}

// ---- scenario generation (always inside the rendezvous fragment) ----

var shapes = []string{"unary", "unaryAsStream", "serverStream", "clientStream", "bidi"}

func genMD(r *vcoq.Rand) [][2]int {
	n := r.Range(0, 2)
	if r.Chance(70) {
		n = 1
	}
	md := [][2]int{}
	for i := 0; i < n; i++ {
		md = append(md, [2]int{r.Intn(nKeys), r.Range(1, 9)})
	}
	return md
}

func genRet(r *vcoq.Rand, okPct int) Step {
	switch {
	case r.Chance(okPct):
		return Step{K: "Ret", Ok: true, M: r.Range(1, 99)}
	case r.Chance(15):
		return Step{K: "Ret", Plain: true, Msg: r.Range(0, 9)}
	}
	return Step{K: "Ret", Code: r.Range(1, 16), Msg: r.Range(0, 9)}
}

// request metadata: mostly none or one pair; sometimes several values under one key, every key
func genOMD(r *vcoq.Rand) [][2]int {
	switch r.Intn(10) {
	case 0, 1, 2, 3:
		return nil
	case 4, 5, 6:
		return [][2]int{{r.Intn(nKeys), r.Range(1, 9)}}
	case 7:
		k := r.Intn(nKeys)
		return [][2]int{{k, r.Range(1, 9)}, {k, r.Range(1, 9)}}
	case 8:
		return [][2]int{{2, r.Range(1, 9)}, {0, r.Range(1, 9)}, {1, r.Range(1, 9)}}
	}
	md := [][2]int{}
	for i, n := 0, r.Range(2, 4); i < n; i++ {
		md = append(md, [2]int{r.Intn(nKeys), r.Range(0, 9)})
	}
	return md
}

type genState struct {
	shape      string
	half, sent bool
	infl       bool // header block sent, client has not yet seen a message or Header() after it
	nc, ns, ne int
}

// one random local or joint step that is allowed in the current state; ok=false if the choice is not allowed
func (g *genState) pick(r *vcoq.Rand) (Step, bool) {
	switch r.Intn(10) {
	case 0, 1:
		if clientStreams(g.shape) && !g.half && g.nc < 5 {
			g.nc++
			return Step{K: "C2S", M: r.Range(1, 99)}, true
		}
	case 2, 3:
		if serverStreams(g.shape) && g.ns < 5 {
			g.ns++
			g.sent, g.infl = true, false
			return Step{K: "S2C", M: r.Range(1, 99)}, true
		}
	case 4:
		return Step{K: "SetH", MD: genMD(r)}, true
	case 5:
		if r.Chance(60) {
			if !g.sent {
				g.infl = true
			}
			g.sent = true
			return Step{K: "SendH", MD: genMD(r)}, true
		}
	case 6:
		return Step{K: "SetT", MD: genMD(r)}, true
	case 7:
		if clientStreams(g.shape) && !g.half {
			g.half = true
			return Step{K: "CloseSend"}, true
		}
	case 8:
		if srvHasStream(g.shape) && g.half && g.ne < 2 {
			g.ne++
			return Step{K: "RecvEOF"}, true
		}
	case 9:
		if g.shape != "unary" && g.sent {
			g.infl = false
			return Step{K: "CHeader"}, true
		}
	}
	return Step{}, false
}

// what a handler may still do once the client's context has ended, up to its return
func (g *genState) afterEnd(r *vcoq.Rand, dl bool) []Step {
	out := []Step{{K: "CtxEnd", DL: dl}}
	for i, n := 0, r.Range(0, 3); i < n; i++ {
		switch r.Intn(6) {
		case 0:
			out = append(out, Step{K: "SetH", MD: genMD(r)})
		case 1:
			if g.sent || r.Chance(35) { // unsent headers sent now: recorded class 4
				out = append(out, Step{K: "SendH", MD: genMD(r)})
				g.sent = true
			}
		case 2:
			md := [][2]int{}
			if r.Chance(25) { // recorded class 1
				md = genMD(r)
			}
			out = append(out, Step{K: "SetT", MD: md})
		case 3, 4:
			if srvHasStream(g.shape) {
				out = append(out, Step{K: "S2C", M: r.Range(1, 99)})
			}
		case 5:
			if srvHasStream(g.shape) && !g.half {
				out = append(out, Step{K: "RecvEOF"})
			}
		}
	}
	return append(out, genRet(r, 50))
}

func (g *genState) ending(r *vcoq.Rand) []Step {
	if r.Chance(12) && !g.infl {
		return g.afterEnd(r, r.Chance(40))
	}
	if r.Chance(22) && !g.infl {
		return []Step{{K: "Cancel", DL: r.Chance(40)}}
	}
	if g.shape == "clientStream" && r.Chance(75) {
		return []Step{{K: "S2C", M: r.Range(1, 99)}, genRet(r, 85)}
	}
	return []Step{genRet(r, 55)}
}

func genRandom(r *vcoq.Rand, shape string) Scenario {
	sc := Scenario{Shape: shape, Req: r.Range(1, 99)}
	if clientStreams(shape) {
		sc.Req = 0
	}
	sc.OMD = genOMD(r)
	if r.Chance(3) {
		sc.PreCancel = true
		sc.PreDL = r.Chance(50)
		sc.Steps = []Step{}
		return sc
	}
	g := &genState{shape: shape, half: autoRecv(shape)}
	n := r.Range(0, 9)
	for i := 0; i < n; i++ {
		if st, ok := g.pick(r); ok {
			sc.Steps = append(sc.Steps, st)
		}
	}
	sc.Steps = append(sc.Steps, g.ending(r)...)
	return sc
}

// systematic: n messages, one event at each position
func genSystematic(r *vcoq.Rand) []Scenario {
	var out []Scenario
	events := []string{"SetH", "SendH", "SetT", "RetErr", "Cancel", "Deadline", "CloseSend", "SetH+SetH", "SendH+SetH", "CHeader", "CtxEnd", "SendH+CHeader"}
	for _, shape := range shapes {
		maxN := 5
		if !srvHasStream(shape) {
			maxN = 0
		}
		for n := 0; n <= maxN; n++ {
			for pos := 0; pos <= n; pos++ {
				for _, ev := range events {
					g := &genState{shape: shape, half: autoRecv(shape)}
					sc := Scenario{Shape: shape, Req: r.Range(1, 99), Steps: []Step{}}
					if r.Chance(35) {
						sc.OMD = genOMD(r)
					}
					if clientStreams(shape) {
						sc.Req = 0
					}
					msg := func() {
						dir := "S2C"
						if shape == "clientStream" || (shape == "bidi" && !g.half && r.Bool()) {
							dir = "C2S"
						}
						if dir == "C2S" && g.half {
							return // a client does not send after CloseSend
						}
						if dir == "S2C" {
							g.sent, g.infl = true, false
						}
						sc.Steps = append(sc.Steps, Step{K: dir, M: r.Range(1, 99)})
					}
					for i := 0; i < pos; i++ {
						msg()
					}
					terminal := false
					switch ev {
					case "SetH", "SetT":
						sc.Steps = append(sc.Steps, Step{K: ev, MD: [][2]int{{r.Intn(nKeys), r.Range(1, 9)}}})
					case "SendH":
						g.infl = g.infl || !g.sent
						g.sent = true
						sc.Steps = append(sc.Steps, Step{K: ev, MD: genMD(r)})
					case "SetH+SetH":
						sc.Steps = append(sc.Steps, Step{K: "SetH", MD: [][2]int{{0, r.Range(1, 9)}}}, Step{K: "SetH", MD: [][2]int{{r.Intn(2), r.Range(1, 9)}}})
					case "SendH+CHeader":
						if shape == "unary" {
							continue
						}
						g.sent, g.infl = true, false
						sc.Steps = append(sc.Steps, Step{K: "SendH", MD: genMD(r)}, Step{K: "CHeader"})
					case "SendH+SetH":
						g.infl = g.infl || !g.sent
						g.sent = true
						sc.Steps = append(sc.Steps, Step{K: "SendH", MD: genMD(r)}, Step{K: "SetH", MD: [][2]int{{r.Intn(nKeys), r.Range(1, 9)}}})
					case "RetErr":
						sc.Steps = append(sc.Steps, genRet(r, 0))
						terminal = true
					case "Cancel", "Deadline":
						if g.infl {
							continue
						}
						if r.Chance(40) { // after the handler set something that must then not show
							sc.Steps = append(sc.Steps, Step{K: "SetH", MD: [][2]int{{r.Intn(nKeys), r.Range(1, 9)}}})
						}
						sc.Steps = append(sc.Steps, Step{K: "Cancel", DL: ev == "Deadline"})
						terminal = true
					case "CtxEnd":
						if g.infl {
							continue
						}
						if r.Chance(40) { // headers pending at the end: they must never show
							sc.Steps = append(sc.Steps, Step{K: "SetH", MD: [][2]int{{r.Intn(nKeys), r.Range(1, 9)}}})
						}
						sc.Steps = append(sc.Steps, g.afterEnd(r, r.Bool())...)
						terminal = true
					case "CloseSend":
						if !clientStreams(shape) {
							continue
						}
						g.half = true
						sc.Steps = append(sc.Steps, Step{K: "CloseSend"}, Step{K: "RecvEOF"})
					case "CHeader":
						if shape == "unary" || !g.sent {
							continue
						}
						g.infl = false
						sc.Steps = append(sc.Steps, Step{K: "CHeader"})
					}
					if !terminal {
						for i := pos; i < n; i++ {
							msg()
						}
						if r.Chance(30) {
							sc.Steps = append(sc.Steps, Step{K: "SetT", MD: genMD(r)})
						}
						if shape == "clientStream" && r.Chance(80) {
							sc.Steps = append(sc.Steps, Step{K: "S2C", M: r.Range(1, 99)}, genRet(r, 90))
						} else {
							sc.Steps = append(sc.Steps, genRet(r, 60))
						}
					}
					out = append(out, sc)
				}
			}
		}
	}
	return out
}

// after the client's context has ended: every ordered pair of handler actions (headers set, headers sent for the
// first time or again, a trailer with or without metadata, a send, a receive), for every shape, with nothing /
// pending header metadata / a header block the client has already seen before the end.  Run once per run in both
// tiers: the random endings meet a given pair only about once in 300 scenarios (e.g. SendHeader-for-the-first-time
// together with a non-empty SetTrailer: the recorded class 1 next to the repaired class 4).
func genAfterEndPairs(r *vcoq.Rand) []Scenario {
	acts := []string{"SetH", "SendH", "SetT", "SetT0", "S2C", "RecvEOF"}
	mk := func(shape, a string) (Step, bool) {
		switch a {
		case "SetH", "SendH", "SetT":
			return Step{K: a, MD: [][2]int{{r.Intn(nKeys), r.Range(1, 9)}}}, true
		case "SetT0":
			return Step{K: "SetT", MD: [][2]int{}}, true
		case "S2C":
			return Step{K: "S2C", M: r.Range(1, 99)}, srvHasStream(shape)
		}
		return Step{K: "RecvEOF"}, srvHasStream(shape) // the client has not half-closed in these scenarios
	}
	var out []Scenario
	for _, shape := range shapes {
		for _, before := range []string{"nothing", "pending", "seen"} {
			if before == "seen" && shape == "unary" {
				continue // Invoke has no Header() call that could take the block in before the end
			}
			for _, a := range acts {
				for _, b := range acts {
					sa, oka := mk(shape, a)
					sb, okb := mk(shape, b)
					if !oka || !okb {
						continue
					}
					if !clientStreams(shape) && (a == "RecvEOF" || b == "RecvEOF") {
						continue // the generated stub has half-closed
					}
					sc := Scenario{Shape: shape, Req: r.Range(1, 99), Steps: []Step{}}
					if clientStreams(shape) {
						sc.Req = 0
					}
					switch before {
					case "pending":
						sc.Steps = append(sc.Steps, Step{K: "SetH", MD: [][2]int{{r.Intn(nKeys), r.Range(1, 9)}}})
					case "seen":
						sc.Steps = append(sc.Steps, Step{K: "SendH", MD: genMD(r)}, Step{K: "CHeader"})
					}
					sc.Steps = append(sc.Steps, Step{K: "CtxEnd", DL: r.Chance(40)}, sa, sb, genRet(r, 50))
					out = append(out, sc)
				}
			}
		}
	}
	return out
}

// decorate adds the in-place modifications of metadata maps (which must be invisible) and the
// re-submission of an already used map (whose contents at that moment are what the step says)
func decorate(r *vcoq.Rand, sc *Scenario) {
	sc.CMut = r.Chance(50)
	var last [][2]int
	has := false
	latched := false
	for i := range sc.Steps {
		st := &sc.Steps[i]
		switch st.K {
		case "S2C":
			latched = true
		case "CtxEnd", "Cancel":
			latched = true // nothing is "early" any more
		case "SendH":
			if !latched && i+1 < len(sc.Steps) && sc.Steps[i+1].K == "CHeader" && r.Chance(70) {
				sc.Steps[i+1].Early = true // the client waits in Header() for these headers
			}
			latched = true
		}
		if st.K != "SetH" && st.K != "SendH" && st.K != "SetT" {
			continue
		}
		if has && r.Chance(30) {
			st.Reuse = true
			st.MD = last
		}
		if r.Chance(50) {
			st.Mut = r.Range(1, 4)
		}
		m := mkMD(st.MD)
		mutateMD(m, st.Mut)
		last, has = userMD(m), true
	}
}

func tagsOf(sc Scenario) []string {
	tags := []string{"shape:" + sc.Shape}
	if sc.CMut {
		tags = append(tags, "client-mutates-metadata")
	}
	for _, st := range sc.Steps {
		if st.Mut != 0 {
			tags = append(tags, "handler-mutates-metadata")
			break
		}
	}
	for _, st := range sc.Steps {
		if st.Reuse {
			tags = append(tags, "handler-reuses-map")
			break
		}
	}
	for _, st := range sc.Steps {
		if st.Early {
			tags = append(tags, "client-blocked-in-Header()")
			break
		}
	}
	tags = append(tags, fmt.Sprintf("request-metadata:%d", len(sc.OMD)))
	if sc.PreCancel {
		if sc.PreDL {
			return append(tags, "pre-expired-deadline")
		}
		return append(tags, "precancel")
	}
	nm := 0
	seen := map[string]bool{}
	for _, st := range sc.Steps {
		if st.K == "C2S" || st.K == "S2C" {
			nm++
		}
		k := st.K
		if st.K == "Cancel" && st.DL {
			k = "Deadline"
		}
		if st.K == "CtxEnd" && st.DL {
			k = "CtxEnd-deadline"
		}
		if st.K == "Ret" {
			switch {
			case st.Ok:
				k = "Ret:ok"
			case st.Plain:
				k = "Ret:plain"
			default:
				k = "Ret:status"
			}
		}
		if !seen[k] {
			seen[k] = true
			tags = append(tags, "has:"+k)
		}
	}
	return append(tags, fmt.Sprintf("msgs:%d", nm))
}

func genC13(o *vcoq.Out, r *vcoq.Rand, tier string) error {
	o.Header = "From SC Require Import Base.Prelude Wrap.Stream Wrap.GrpcSpec Wrap.C13Judge."
	o.CaseType = "c13case"
	o.Judge = "judge"
	o.Shard = 60
	o.Rule = "distinct (scenario, wrapper transcript, gRPC transcript) triples with at least two steps, a message or metadata"

	w := newWrapTransport()
	g, err := newGrpcTransport()
	if err != nil {
		return err
	}
	defer g.close()

	var scs []Scenario
	nRandom, rounds := 1500, 3
	if tier == "thorough" {
		nRandom, rounds = 30000, 30
	}
	// the systematic family (payloads, metadata and endings are drawn afresh in every round)
	for i := 0; i < rounds; i++ {
		scs = append(scs, genSystematic(r)...)
	}
	for i := 0; i < nRandom; i++ {
		scs = append(scs, genRandom(r, shapes[i%len(shapes)]))
	}
	nPairs := 0
	for i := 0; i < rounds/3; i++ {
		ps := genAfterEndPairs(r)
		nPairs += len(ps)
		scs = append(scs, ps...)
	}
	// a call on a context that has already ended, both ways of ending, every shape
	for _, shape := range shapes {
		for _, dl := range []bool{false, true} {
			sc := Scenario{Shape: shape, Req: r.Range(1, 99), PreCancel: true, PreDL: dl, Steps: []Step{}, OMD: genOMD(r)}
			if clientStreams(shape) {
				sc.Req = 0
			}
			scs = append(scs, sc)
		}
	}

	for i := range scs {
		if i%4 != 0 { // a quarter of the scenarios stays plain
			decorate(r, &scs[i])
		}
	}
	leaks, nStuck := 0, 0
	branchesHit := map[string]int{}
	nGuard := 0
	for _, sc := range scs {
		if inFragment(sc) {
			nGuard++
		}
	}
	for _, sc := range scs {
		if nStuck >= 5 {
			o.Directs = append(o.Directs, vcoq.Direct{What: "calls keep getting stuck (a step did not complete within its time limit); the run was cut short",
				Class: "blocked", Replay: map[string]any{"scenario": sc}})
			break
		}
		tw := runScenario(sc, w.srv, w.cc)
		if n, gr := settleWrapGoroutines(); n != 0 && leaks < 3 {
			leaks++
			o.Directs = append(o.Directs, vcoq.Direct{
				What:   fmt.Sprintf("%d goroutine(s) still inside pkg/wrap after the call finished: %s", n, firstLines(gr, 6)),
				Class:  "goroutine-left",
				Replay: map[string]any{"scenario": sc, "transport": "wrap"},
			})
		}
		tg := runScenario(sc, g.srv, g.cc)
		stuckW, stuckG := false, false
		for _, n := range tw.Notes {
			if len(n) >= 8 && n[:8] == "aliasing" {
				o.Directs = append(o.Directs, vcoq.Direct{What: "wrap: " + n, Class: "aliasing", Replay: map[string]any{"scenario": sc, "transport": "wrap"}})
			} else {
				stuckW = true
			}
		}
		for range tg.Notes {
			stuckG = true
		}
		if stuckW || stuckG {
			nStuck++
		}
		key, _ := json.Marshal([]any{sc, tw.Client, tw.Server, tg.Client, tg.Server})
		o.Add(vcoq.Case{
			Coq:        vcoq.App("KCall", coqScenario(sc), coqTranscript(tw, stuckW), coqTranscript(tg, stuckG)),
			JSON:       map[string]any{"kind": "call", "scenario": sc, "wrap": tw, "grpc": tg},
			Key:        string(key),
			NonTrivial: len(sc.Steps) >= 2,
			Tags:       append(tagsOf(sc), branchTags(sc, tw)...),
		})
		for _, b := range branchTags(sc, tw) {
			branchesHit[b]++
		}
	}
	if len(w.srv.stray)+len(g.srv.stray) > 0 {
		o.Directs = append(o.Directs, vcoq.Direct{What: "a handler was entered without the call id the client attached to its outgoing metadata",
			Class: "metadata-lost", Replay: map[string]any{"wrap": w.srv.stray, "grpc": g.srv.stray}})
	}
	lookupCases(o, w, g)
	misuseCases(o, w, g)
	factsEvidence := factCases(o, g)
	callerIncomingCases(o)
	unwrapCases(o, r)
	sendThenModifyCases(o, r, nIsoSend(tier))
	o.Extra["model_branch_classes_hit"] = len(branchesHit)
	nIso := 200
	if tier == "thorough" {
		nIso = 4000
	}
	isolationCases(o, r, nIso)
	abandonCases(o)
	o.Extra["coverage_extra"] = map[string]any{"transports": []string{"wrap.ServerToClient", "grpc.Server over bufconn"}, "goroutine_checks": len(scs), "deep_isolation_checks": nIso,
		"send_then_modify_checks": 4 * nIsoSend(tier), "model_branch_classes_hit": len(branchesHit), "client_misuse_cases": 2, "unwrap_cases": 14, "grpc_reference_facts": factsEvidence, "after_end_pair_scenarios": nPairs,
		"handler_calls_after_context_end": fmt.Sprintf("RecvMsg / SendMsg / SendHeader of a handler that has seen its context end fail on both transports (in both transcripts); on the real server a call that still succeeded was repeated until the transport had marked the stream done: %d repetition(s) this run", atomic.LoadInt64(&settleRetries)),
		"guard_pass_rate":                 fmt.Sprintf("%d of %d call scenarios satisfy the theorems' guard wf (Go replica of C13Judge.wf; the generator stays inside the fragment by construction)", nGuard, len(scs))}
	return nil
}

func firstLines(s string, n int) string {
	out := ""
	for i, l := 0, 0; i < len(s) && l < n; i++ {
		out += string(s[i])
		if s[i] == '\n' {
			l++
		}
	}
	return out
}

var methodNames = map[int]string{
	0: testproto.TestApi_Unary_FullMethodName,
	1: testproto.TestApi_ServerStream_FullMethodName,
	2: testproto.TestApi_ClientStream_FullMethodName,
	3: testproto.TestApi_BidiStream_FullMethodName,
	5: "/sc.go.test.TestApi/Nope",
	6: "/sc.go.test.Other/Unary",
	7: "Unary",
}

func errCode(err error) int {
	if err == nil {
		return -1
	}
	return int(status.Code(err))
}

// unknown methods on both transports; stream shape check of the wrapper
func lookupCases(o *vcoq.Out, w, g *transport) {
	for _, m := range []int{5, 6, 7} {
		for _, via := range []bool{false, true} {
			code := func(cc grpc.ClientConnInterface) int {
				ctx, cancel := context.WithTimeout(context.Background(), stepTimeout)
				defer cancel()
				if !via {
					return errCode(cc.Invoke(ctx, methodNames[m], &testproto.UnaryRequest{}, &testproto.UnaryResponse{}))
				}
				st, err := cc.NewStream(ctx, &grpc.StreamDesc{}, methodNames[m])
				if err != nil {
					return errCode(err)
				}
				_ = st.SendMsg(&testproto.UnaryRequest{})
				_ = st.CloseSend()
				return errCode(st.RecvMsg(&testproto.UnaryResponse{}))
			}
			cw, cg := code(w.cc), code(g.cc)
			o.Add(vcoq.Case{
				Coq:        vcoq.App("KUnknown", vcoq.Int(m), vcoq.Bool(via), vcoq.Int(cw), vcoq.Int(cg)),
				JSON:       map[string]any{"kind": "unknown-method", "method": methodNames[m], "via_stream": via, "wrap_code": cw, "grpc_code": cg},
				Key:        fmt.Sprint("unknown", m, via, cw, cg),
				NonTrivial: true,
				Tags:       []string{"lookup:unknown"},
			})
		}
	}
	for _, m := range []int{0, 1, 2, 3, 5} {
		for _, a := range []bool{false, true} {
			for _, b := range []bool{false, true} {
				ctx, cancel := context.WithCancel(context.Background())
				_, err := w.cc.NewStream(ctx, &grpc.StreamDesc{ServerStreams: a, ClientStreams: b}, methodNames[m])
				cancel()
				cw := errCode(err)
				o.Add(vcoq.Case{
					Coq:        vcoq.App("KShape", vcoq.Int(m), vcoq.Bool(a), vcoq.Bool(b), vcoq.Int(cw)),
					JSON:       map[string]any{"kind": "stream-shape", "method": methodNames[m], "server_streams": a, "client_streams": b, "wrap_code": cw},
					Key:        fmt.Sprint("shape", m, a, b, cw),
					NonTrivial: true,
					Tags:       []string{"lookup:shape"},
				})
			}
		}
	}
	if n, gr := settleWrapGoroutines(); n != 0 {
		o.Directs = append(o.Directs, vcoq.Direct{What: fmt.Sprintf("%d goroutine(s) still inside pkg/wrap after cancelled NewStream calls: %s", n, firstLines(gr, 6)),
			Class: "goroutine-left", Replay: map[string]any{"scenario": "NewStream then cancel, every method and stream description"}})
	}
}

// Wrapper only: one side is blocked in a channel operation nobody will ever meet when the client
// cancels.  Outside the rendezvous fragment nothing is compared with gRPC, but the blocked operation
// must return and no goroutine may stay behind.
func abandonCases(o *vcoq.Out) {
	type variant struct {
		name  string
		shape string
		run   func(ctx context.Context, cancel func(), cc grpc.ClientConnInterface, ctl *callCtl) string
	}
	wait := func(ch <-chan Obs, what string) string {
		select {
		case <-ch:
			return ""
		case <-time.After(stepTimeout):
			return what + " did not return after the client cancelled"
		}
	}
	variants := []variant{
		{"handler blocked in SendMsg, nobody receiving", "serverStream", func(ctx context.Context, cancel func(), cc grpc.ClientConnInterface, ctl *callCtl) string {
			ctl.cmd <- srvCmd{k: "send", m: 1}
			time.Sleep(300 * time.Microsecond)
			cancel()
			return wait(ctl.res, "server SendMsg")
		}},
		{"handler blocked in SendMsg, nobody receiving", "bidi", func(ctx context.Context, cancel func(), cc grpc.ClientConnInterface, ctl *callCtl) string {
			ctl.cmd <- srvCmd{k: "send", m: 1}
			time.Sleep(300 * time.Microsecond)
			cancel()
			return wait(ctl.res, "server SendMsg")
		}},
		{"handler blocked in RecvMsg, nobody sending", "bidi", func(ctx context.Context, cancel func(), cc grpc.ClientConnInterface, ctl *callCtl) string {
			ctl.cmd <- srvCmd{k: "recv"}
			time.Sleep(300 * time.Microsecond)
			cancel()
			return wait(ctl.res, "server RecvMsg")
		}},
	}
	// outside the premise (the second send has no receiver): a client-streaming handler sends a second
	// response; the client's single RecvMsg has returned; the handler must come back when the client cancels
	variants = append(variants, variant{"second response on a client-streaming method, nobody receiving", "clientStream",
		func(ctx context.Context, cancel func(), cc grpc.ClientConnInterface, ctl *callCtl) string {
			ctl.cmd <- srvCmd{k: "send", m: 1}
			select {
			case <-ctl.res:
			case <-time.After(stepTimeout):
				return "the first response was not taken"
			}
			ctl.cmd <- srvCmd{k: "send", m: 2}
			time.Sleep(300 * time.Microsecond)
			cancel()
			return wait(ctl.res, "server SendMsg (second response)")
		}})
	for _, v := range variants {
		w := newWrapTransport()
		callSeq++
		id := fmt.Sprint(callSeq)
		ctx, cancel := context.WithCancel(metadata.AppendToOutgoingContext(context.Background(), callIDKey, id))
		ctl := &callCtl{shape: v.shape, cmd: make(chan srvCmd), res: make(chan Obs, 4), entered: make(chan Obs, 1), exited: make(chan struct{})}
		w.srv.set(id, ctl)
		method, desc := methodOf(v.shape)
		st, err := w.cc.NewStream(ctx, desc, method)
		problem := ""
		if err != nil {
			problem = "NewStream failed: " + err.Error()
		} else {
			if autoRecv(v.shape) {
				go func() { _ = st.SendMsg(mkReq(v.shape, 1)); _ = st.CloseSend() }()
			}
			if v.shape == "clientStream" {
				go func() { _ = st.RecvMsg(newResp(v.shape)) }() // the client's single receive
			}
			select {
			case <-ctl.entered:
				problem = v.run(ctx, cancel, w.cc, ctl)
			case <-time.After(stepTimeout):
				problem = "handler was not entered"
			}
		}
		cancel()
		select {
		case ctl.cmd <- srvCmd{k: "ret", step: Step{K: "Ret", Ok: true}}:
		case <-time.After(stepTimeout):
		}
		n, gr := settleWrapGoroutines()
		if problem != "" {
			o.Directs = append(o.Directs, vcoq.Direct{What: "wrap: " + v.name + ": " + problem, Class: "blocked",
				Replay: map[string]any{"variant": v.name, "shape": v.shape}})
		}
		if n != 0 {
			o.Directs = append(o.Directs, vcoq.Direct{What: fmt.Sprintf("wrap: %s, then client cancel: %d goroutine(s) still inside pkg/wrap: %s", v.name, n, firstLines(gr, 6)),
				Class: "goroutine-left", Replay: map[string]any{"variant": v.name, "shape": v.shape}})
		}
	}
}

func nIsoSend(tier string) int {
	if tier == "thorough" {
		return 400
	}
	return 40
}

// raceRun (binary built with -race): generated scenarios through the wrapper only, plus raw-stream
// transfers whose sender reuses its message at once; the race detector reports on stderr.
func raceRun() {
	seed := uint64(1)
	if len(os.Args) > 2 {
		fmt.Sscan(os.Args[2], &seed)
	}
	r := vcoq.NewRand(seed)
	w := newWrapTransport()
	scs := genSystematic(r)
	for i := 0; i < 300; i++ {
		scs = append(scs, genRandom(r, shapes[i%len(shapes)]))
	}
	for i := range scs {
		if i%4 != 0 {
			decorate(r, &scs[i])
		}
	}
	stuck := 0
	for _, sc := range scs {
		tr := runScenario(sc, w.srv, w.cc)
		for _, n := range tr.Notes {
			if len(n) < 8 || n[:8] != "aliasing" {
				stuck++
			}
		}
		if stuck > 3 {
			break
		}
	}
	o := &vcoq.Out{Extra: map[string]any{}}
	sendThenModifyCases(o, r, 20)
	fmt.Println("racerun scenarios", len(scs))
}
