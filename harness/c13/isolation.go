package main

// Deep isolation check on the stream itself: rich messages (bytes, nested, repeated, maps) cross a
// raw wrap.ClientServerStream in both directions, through the same-descriptor path (proto.Merge)
// and the different-descriptor path (marshal + unmarshal); afterwards each side's object is modified
// in place, in depth, and the other side's object must not change.

import (
	"context"
	"fmt"

	"github.com/smart-core-os/sc-golang/internal/testproto"
	"github.com/smart-core-os/sc-golang/pkg/wrap"
	"github.com/smart-core-os/sc-golang/verifharness/vcoq"
	"google.golang.org/protobuf/proto"
)

func richMsg(r *vcoq.Rand) *testproto.TestAllTypes {
	nested := func() *testproto.TestAllTypes_NestedMessage {
		return &testproto.TestAllTypes_NestedMessage{A: int32(r.Range(1, 99)),
			Corecursive: &testproto.TestAllTypes{DefaultBytes: []byte{byte(r.Intn(200)), 2}}}
	}
	m := &testproto.TestAllTypes{
		DefaultInt32:           int32(r.Range(1, 99)),
		DefaultString:          fmt.Sprint("s", r.Intn(100)),
		DefaultBytes:           []byte{byte(r.Intn(200)), 1, 2},
		DefaultNestedMessage:   nested(),
		DefaultForeignMessage:  &testproto.ForeignMessage{C: int32(r.Range(1, 9)), D: 2},
		RepeatedInt32:          []int32{1, int32(r.Range(1, 9))},
		RepeatedBytes:          [][]byte{{byte(r.Intn(200))}, {3, 4}},
		RepeatedNestedMessage:  []*testproto.TestAllTypes_NestedMessage{nested(), nested()},
		MapStringBytes:         map[string][]byte{"k": {byte(r.Intn(200)), 9}},
		MapStringNestedMessage: map[string]*testproto.TestAllTypes_NestedMessage{"n": nested()},
	}
	return m
}

// modify every reachable mutable part of the message in place
func deface(m *testproto.TestAllTypes) {
	m.DefaultInt32 = -1
	m.DefaultString = "defaced"
	for i := range m.DefaultBytes {
		m.DefaultBytes[i] ^= 0xff
	}
	if m.DefaultNestedMessage != nil {
		m.DefaultNestedMessage.A = -1
		if c := m.DefaultNestedMessage.Corecursive; c != nil {
			for i := range c.DefaultBytes {
				c.DefaultBytes[i] ^= 0xff
			}
		}
	}
	if m.DefaultForeignMessage != nil {
		m.DefaultForeignMessage.C = -1
	}
	for i := range m.RepeatedInt32 {
		m.RepeatedInt32[i] = -1
	}
	for _, b := range m.RepeatedBytes {
		for i := range b {
			b[i] ^= 0xff
		}
	}
	for _, n := range m.RepeatedNestedMessage {
		n.A = -1
	}
	for _, b := range m.MapStringBytes {
		for i := range b {
			b[i] ^= 0xff
		}
	}
	for _, n := range m.MapStringNestedMessage {
		n.A = -1
	}
	m.MapStringBytes["extra"] = []byte{1}
}

func isolationCases(o *vcoq.Out, r *vcoq.Rand, n int) int {
	bad := 0
	report := func(what string, replay any) {
		if bad < 3 {
			o.Directs = append(o.Directs, vcoq.Direct{What: what, Class: "aliasing", Replay: replay})
		}
		bad++
	}
	for i := 0; i < n; i++ {
		ctx, cancel := context.WithCancel(context.Background())
		s := wrap.NewClientServerStream(ctx)
		cs, ss := s.Client(), s.Server()
		toServer := i%2 == 0
		src := richMsg(r)
		want := proto.Clone(src)
		dst := &testproto.TestAllTypes{}
		errc := make(chan error, 1)
		if toServer {
			go func() { errc <- cs.SendMsg(src) }()
			if err := ss.RecvMsg(dst); err != nil {
				report("RecvMsg failed on a raw stream: "+err.Error(), nil)
			}
		} else {
			go func() { errc <- ss.SendMsg(src) }()
			if err := cs.RecvMsg(dst); err != nil {
				report("RecvMsg failed on a raw stream: "+err.Error(), nil)
			}
		}
		<-errc
		dir := map[bool]string{true: "client to server", false: "server to client"}[toServer]
		if !proto.Equal(dst, want) {
			report("message changed while crossing the boundary ("+dir+")", map[string]any{"sent": want.(*testproto.TestAllTypes).String(), "received": dst.String()})
		}
		deface(src)
		if !proto.Equal(dst, want) {
			report("aliasing: the receiver's message changed when the sender modified its own in place ("+dir+", same descriptor)", map[string]any{"sent": want.(*testproto.TestAllTypes).String()})
		}
		srcAfter := proto.Clone(src)
		deface(dst)
		if !proto.Equal(src, srcAfter) {
			report("aliasing: the sender's message changed when the receiver modified its copy in place ("+dir+", same descriptor)", map[string]any{"sent": want.(*testproto.TestAllTypes).String()})
		}

		// different descriptors with the same field layout: UnaryRequest -> ClientStreamRequest
		u := &testproto.UnaryRequest{Msg: fmt.Sprint(r.Intn(1000)), SimulateError: "e"}
		got := &testproto.ClientStreamRequest{}
		if toServer {
			go func() { errc <- cs.SendMsg(u) }()
			_ = ss.RecvMsg(got)
		} else {
			go func() { errc <- ss.SendMsg(u) }()
			_ = cs.RecvMsg(got)
		}
		<-errc
		if got.Msg != u.Msg || got.SimulateError != u.SimulateError {
			report("message changed while crossing the boundary between different descriptors ("+dir+")", map[string]any{"sent": u.String(), "received": got.String()})
		}
		cancel()
	}
	o.Extra["isolation_checks"] = n
	return bad
}
