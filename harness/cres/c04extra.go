package main

// C04, directed families on top of the random histories of cres.go (all emit ordinary CaseCPull /
// CaseVPull cases, judged by the same model and the same oracle):
//
//   masked-out   a resource with an equivalence, a subscriber with a read mask, and writes that change
//                only fields OUTSIDE that mask (update mask on such a field, reset mask, interceptor),
//                mixed with writes inside the mask, deletes and re-adds: the equivalence must see what
//                the subscriber is sent, not what is stored;
//   times        explicit write times at the boundaries — the zero time.Time, the Unix epoch, one
//                nanosecond before it, a time before the previous change, year 9999, the largest
//                int64 nanosecond — on Set / Add / Update / Delete, with a second subscription opened
//                afterwards whose seed must carry the stored time;
//   two-masks    two (or three) simultaneous Value subscriptions with different read masks on one
//                Value: every subscriber gets its own projection of every update.
//
// Times are carried as exact integers (nanoseconds since the Unix epoch as a decimal string): the
// zero time.Time does not fit into an int64 of nanoseconds.

import (
	"context"
	"fmt"
	"math/big"
	"strings"
	"sync"
	"time"

	"github.com/smart-core-os/sc-golang/pkg/resource"
	"github.com/smart-core-os/sc-golang/verifharness/vcoq"
	"google.golang.org/protobuf/proto"
)

// exactNanos: t as nanoseconds since the Unix epoch, exactly
func exactNanos(t time.Time) string {
	n := new(big.Int).Mul(big.NewInt(t.Unix()), big.NewInt(1000000000))
	n.Add(n, big.NewInt(int64(t.Nanosecond())))
	return n.String()
}
func coqBigZ(s string) string {
	if strings.HasPrefix(s, "-") {
		return "(" + s + ")"
	}
	return s
}
func (o *fwo) coqTime() string {
	if o.xtime != nil {
		return vcoq.Some(coqBigZ(exactNanos(*o.xtime)))
	}
	return vcoq.OptZ(o.time)
}
func (c ochange) coqTime() string {
	if c.tx != "" {
		return coqBigZ(c.tx)
	}
	return vcoq.Z(c.t)
}
func (c ochange) jsTime() any {
	if c.tx != "" {
		return c.tx
	}
	return c.t
}

var boundaryTimes = []struct {
	name string
	t    time.Time
}{
	{"zero", time.Time{}},
	{"epoch", time.Unix(0, 0)},
	{"epoch-1ns", time.Unix(0, -1)},
	{"before-previous", time.Unix(0, 3)},
	{"clock-like", time.Unix(0, 1000)},
	{"year-9999", time.Date(9999, 12, 31, 23, 59, 59, 999999999, time.UTC)},
	{"max-int64-ns", time.Unix(0, 1<<63-1)},
	{"local-zone", time.Date(2024, 2, 29, 12, 0, 0, 5, time.FixedZone("x", 3*3600))},
}

// ---------- collections ----------

// collectionScript runs [before] without the subscriber under test, subscribes with backpressure,
// runs [after], lists, then two barrier writes and a cancel: when the second barrier write has
// returned every earlier event has been handed to the consumer (or dropped by the library), and once
// the consumer goroutine has ended its log is complete.  A witness subscriber opened at creation
// records the time every event carried (for the seed-time clause).
func (g *gen) collectionScript(o *vcoq.Out, equiv *eqv, before, after []*fop, ro fro, tags []string, scenario string) {
	w := g.newWorld(equiv)
	ctx, cancel := context.WithCancel(context.Background())
	defer cancel()
	type wev struct{ id, t string }
	var wmu sync.Mutex
	var wgot []wev
	wdone := make(chan struct{})
	wch := w.coll.Pull(ctx, resource.WithBackpressure(true))
	go func() {
		defer close(wdone)
		for c := range wch {
			wmu.Lock()
			wgot = append(wgot, wev{c.Id, exactNanos(c.ChangeTime)})
			wmu.Unlock()
		}
	}()
	effective := 0
	for _, op := range before {
		ob := w.exec(op)
		m := ob.js.(map[string]any)
		if m["code"].(int64) == 0 && !(op.kind == 4 && m["result"] == nil) {
			effective++
		}
	}
	ch := w.coll.Pull(ctx, ro.opts(true)...)
	var got []ochange
	done := make(chan struct{})
	go func() {
		defer close(done)
		for c := range ch {
			got = append(got, ochange{id: c.Id, tx: exactNanos(c.ChangeTime), kind: kindCode(c.ChangeType), old: fromProto(c.OldValue), new_: fromProto(c.NewValue), seed: c.SeedValue, last: c.LastSeedValue})
		}
	}()
	var codes []int64
	for _, op := range after {
		ob := w.exec(op)
		c := ob.js.(map[string]any)["code"].(int64)
		if op.kind == 4 && c == 0 && ob.js.(map[string]any)["result"] == nil {
			c = -1
		}
		codes = append(codes, c)
	}
	final := w.list(ro)
	w.coll.Update(barrierID, toProto(fmsg{1000, 1000, 1000}), resource.WithCreateIfAbsent(), resource.WithAllFieldsWritable())
	w.coll.Update(barrierID, toProto(fmsg{1001, 1001, 1001}), resource.WithCreateIfAbsent(), resource.WithAllFieldsWritable())
	cancel()
	<-done
	<-wdone
	bkey := w.storedKey(barrierID)
	var stream []ochange
	for _, c := range got {
		if c.id == bkey {
			break
		}
		stream = append(stream, c)
	}
	var witness []string
	if equiv == nil {
		last := map[string]string{}
		var order []string
		for i := 0; i < effective && i < len(wgot); i++ {
			if _, ok := last[wgot[i].id]; !ok {
				order = append(order, wgot[i].id)
			}
			last[wgot[i].id] = wgot[i].t
		}
		for _, id := range order {
			witness = append(witness, vcoq.Pair(vcoq.Str(id), coqBigZ(last[id])))
		}
	}
	it := make([]string, len(stream))
	js := []any{}
	for i, c := range stream {
		it[i] = coqOChange(c)
		js = append(js, jsOChange(c))
	}
	coq := vcoq.App("CaseCPull", optFldsW(g), g.idf.coq(), equiv.coq(), coqOps(before), ro.coq(), coqOps(after), vcoq.ListZ(codes), vcoq.List(witness), vcoq.List(it), coqKVs(final))
	tags = append(tags, "collection", "settled:barrier+close", fmt.Sprintf("events=%d", min(len(stream), 6)))
	o.Add(vcoq.Case{Coq: coq, Key: coq, NonTrivial: len(stream) >= 2, Tags: tags,
		JSON: map[string]any{"kind": "collection-pull", "scenario": scenario, "writable": jsFlds(g.writable, g.hasW), "id_interceptor": g.idf.coq(), "equivalence": equiv.coq(),
			"before": jsOps(before), "read": ro.js(), "after": jsOps(after), "after_codes": codes, "stream": js, "final_list": jsKVs(final)}})
}

// ---------- values ----------

// valueScript: like collectionScript for a Value, with one case per subscriber of [ros] (all opened
// at the same point of the history and listening at the same time).
func (g *gen) valueScript(o *vcoq.Out, initial *fmsg, equiv *eqv, before, after []*vop, ros []fro, tags []string, scenario string) {
	w := g.newValue(initial, equiv)
	ctx, cancel := context.WithCancel(context.Background())
	defer cancel()
	var wtimes []string
	wdone := make(chan struct{})
	wch := w.val.Pull(ctx, resource.WithBackpressure(true), resource.WithUpdatesOnly(true))
	go func() {
		defer close(wdone)
		for c := range wch {
			wtimes = append(wtimes, exactNanos(c.ChangeTime))
		}
	}()
	effective := 0
	for _, op := range before {
		ob := w.exec(op)
		if op.set && ob.js.(map[string]any)["code"].(int64) == 0 {
			effective++
		}
	}
	type xv struct {
		v          fmsg
		t          string
		seed, last bool
	}
	type sub struct {
		got  []xv
		done chan struct{}
	}
	subs := make([]*sub, len(ros))
	for k := range ros {
		s := &sub{done: make(chan struct{})}
		subs[k] = s
		ch := w.val.Pull(ctx, ros[k].opts(true)...)
		go func() {
			defer close(s.done)
			for c := range ch {
				s.got = append(s.got, xv{*fromProto(c.Value), exactNanos(c.ChangeTime), c.SeedValue, c.LastSeedValue})
			}
		}()
	}
	var codes []int64
	var results []*fmsg
	for _, op := range after {
		ob := w.exec(op)
		c := int64(0)
		var res *fmsg
		if op.set {
			c = ob.js.(map[string]any)["code"].(int64)
			if c == 0 {
				if r, ok := ob.js.(map[string]any)["result"].([]int64); ok {
					res = &fmsg{r[0], r[1], r[2]}
				}
			}
		}
		codes = append(codes, c)
		results = append(results, res)
	}
	finals := make([]*fmsg, len(ros))
	for k := range ros {
		finals[k] = fromProto(w.val.Get(ros[k].opts(false)...))
	}
	// barrier values no real write uses; a subscriber whose mask hides them simply never shows them
	w.val.Set(toProto(fmsg{-1, -1, 4000000001}), resource.WithAllFieldsWritable())
	w.val.Set(toProto(fmsg{-2, -2, 4000000002}), resource.WithAllFieldsWritable())
	cancel()
	for _, s := range subs {
		<-s.done
	}
	<-wdone
	witness := "None"
	if equiv == nil && effective > 0 && len(wtimes) >= effective {
		witness = vcoq.Some(coqBigZ(wtimes[effective-1]))
	}
	resIt := make([]string, len(results))
	for i, r := range results {
		resIt[i] = coqOptMsg(r)
	}
	jb, ja := []any{}, []any{}
	for _, op := range before {
		jb = append(jb, op.js())
	}
	for _, op := range after {
		ja = append(ja, op.js())
	}
	for k, s := range subs {
		var stream []xv
		for _, c := range s.got {
			if c.v.c >= 4000000001 || c.v.a < 0 || c.v.b < 0 {
				break
			}
			stream = append(stream, c)
		}
		// with a mask and an equivalence the barrier may have been suppressed as a duplicate of the
		// last real value (all its visible fields equal): then nothing follows it anyway
		it := make([]string, len(stream))
		js := []any{}
		for i, c := range stream {
			it[i] = vcoq.App("mkOV", coqMsg(c.v), coqBigZ(c.t), vcoq.Bool(c.seed), vcoq.Bool(c.last))
			js = append(js, map[string]any{"value": jsMsg(&c.v), "time": c.t, "seed": c.seed, "last_seed": c.last})
		}
		coq := vcoq.App("CaseVPull", optFldsW(g), coqOptMsg(initial), equiv.coq(), coqVOps(before), ros[k].coq(), coqVOps(after), vcoq.ListZ(codes), witness, vcoq.List(resIt), vcoq.List(it), coqOptMsg(finals[k]))
		t := append(append([]string{}, tags...), "value", "settled:barrier+close")
		if len(ros) > 1 {
			t = append(t, fmt.Sprintf("subscriber-%d-of-%d", k+1, len(ros)))
		}
		var others []any
		for j := range ros {
			if j != k {
				others = append(others, ros[j].js())
			}
		}
		o.Add(vcoq.Case{Coq: coq, Key: coq, NonTrivial: len(stream) >= 2, Tags: t,
			JSON: map[string]any{"kind": "value-pull", "scenario": scenario, "writable": jsFlds(g.writable, g.hasW), "initial": jsMsg(initial), "equivalence": equiv.coq(),
				"before": jb, "read": ros[k].js(), "other_subscribers_listening": others, "after": ja, "after_codes": codes, "stream": js, "final_get": jsMsg(finals[k])}})
	}
}

// ---------- script generators ----------

func (g *gen) properMask() (in []fld, out []fld) {
	all := []fld{fa, fb, fc}
	k := g.r.Intn(3)
	if g.r.Bool() { // one field visible
		in = []fld{all[k]}
		out = []fld{all[(k+1)%3], all[(k+2)%3]}
	} else { // two fields visible
		out = []fld{all[k]}
		in = []fld{all[(k+1)%3], all[(k+2)%3]}
	}
	return
}

func (g *gen) counterMsg(n *int64) fmsg {
	*n++
	return fmsg{*n, *n + 100, *n + 200} // every field differs from every earlier value
}

// outsideWrite: a write to id that changes only fields outside the subscriber's mask
func (g *gen) outsideWrite(id string, out []fld, n *int64) *fop {
	r := g.r
	f := out[r.Intn(len(out))]
	wo := &fwo{}
	msg := g.counterMsg(n)
	switch r.Intn(4) {
	case 0, 1: // update mask naming only the outside field
		wo.hasUpdate, wo.update = true, []fld{f}
	case 2: // written and cleared again by the reset mask: the outside field becomes 0
		wo.hasUpdate, wo.update = true, []fld{f}
		wo.hasReset, wo.reset = true, []fld{f}
	default: // an interceptor that rewrites the outside field after a no-op merge
		wo.hasUpdate, wo.update = true, []fld{}
		wo.after = &icpt{kind: 1, f: f, k: msg.a}
	}
	if r.Chance(20) {
		t := int64(r.Range(1, 9)) * 7
		wo.time = &t
	}
	return &fop{kind: 2, id: id, msg: msg, o: wo, cands: g.cands(false)}
}

func (g *gen) maskedOutCollection(o *vcoq.Out) {
	r := g.r
	g.config()
	g.hasW = false // writes must succeed for the scenario to bite; writable fields are covered by the random histories
	in, out := g.properMask()
	eq := &eqv{all: true}
	if r.Chance(35) {
		eq = &eqv{f: in[r.Intn(len(in))]}
	}
	if r.Chance(10) {
		eq = &eqv{f: out[0]} // an equivalence on a field the subscriber does not see
	}
	ro := fro{hasMask: true, mask: in, updatesOnly: r.Chance(20)}
	var n int64
	ids := []string{"a", "b", "c"}
	var before, after []*fop
	stored := ids[:r.Range(1, 3)]
	for _, id := range stored {
		before = append(before, &fop{kind: 2, id: id, msg: g.counterMsg(&n), o: &fwo{create: true}, cands: g.cands(false)})
	}
	for i := r.Range(3, 10); i > 0; i-- {
		id := stored[r.Intn(len(stored))]
		if r.Chance(12) {
			id = ids[r.Intn(len(ids))]
		}
		switch k := r.Intn(10); {
		case k < 5:
			after = append(after, g.outsideWrite(id, out, &n))
		case k < 7: // inside the mask
			wo := &fwo{hasUpdate: true, update: []fld{in[r.Intn(len(in))]}, create: r.Chance(50)}
			after = append(after, &fop{kind: 2, id: id, msg: g.counterMsg(&n), o: wo, cands: g.cands(false)})
		case k < 8: // the same value again (equivalent under every equivalence)
			after = append(after, &fop{kind: 2, id: id, msg: fmsg{}, o: &fwo{hasUpdate: true, update: []fld{}}, cands: g.cands(false)})
		case k < 9:
			after = append(after, &fop{kind: 4, id: id, o: &fwo{allowMissing: r.Bool()}})
		default:
			after = append(after, &fop{kind: 3, id: id, msg: g.counterMsg(&n), o: &fwo{}, cands: g.cands(false)})
		}
	}
	g.collectionScript(o, eq, before, after, ro, []string{"directed:masked-out-write", "equivalence", "read-mask"},
		"collection with an equivalence, subscriber with a read mask, writes that change only fields outside the mask")
}

func (g *gen) maskedOutValue(o *vcoq.Out) {
	r := g.r
	g.config()
	g.hasW = false
	in, out := g.properMask()
	eq := &eqv{all: true}
	if r.Chance(35) {
		eq = &eqv{f: in[r.Intn(len(in))]}
	}
	ro := fro{hasMask: true, mask: in, updatesOnly: r.Chance(20)}
	var n int64
	var initial *fmsg
	if r.Chance(70) {
		m := g.counterMsg(&n)
		initial = &m
	}
	var before, after []*vop
	if r.Chance(40) {
		before = append(before, &vop{set: true, msg: g.counterMsg(&n), o: &fwo{}})
	}
	for i := r.Range(3, 10); i > 0; i-- {
		switch k := r.Intn(10); {
		case k < 5:
			op := g.outsideWrite("", out, &n)
			after = append(after, &vop{set: true, msg: op.msg, o: op.o})
		case k < 8:
			after = append(after, &vop{set: true, msg: g.counterMsg(&n), o: &fwo{hasUpdate: true, update: []fld{in[r.Intn(len(in))]}}})
		default:
			after = append(after, &vop{set: true, msg: fmsg{}, o: &fwo{hasUpdate: true, update: []fld{}}})
		}
	}
	g.valueScript(o, initial, eq, before, after, []fro{ro}, []string{"directed:masked-out-write", "equivalence", "read-mask"},
		"value with an equivalence, subscriber with a read mask, writes that change only fields outside the mask")
}

func (g *gen) boundaryTime() (*time.Time, string) {
	b := boundaryTimes[g.r.Intn(len(boundaryTimes))]
	t := b.t
	return &t, b.name
}

func (g *gen) timesCollection(o *vcoq.Out) {
	r := g.r
	g.config()
	g.hasW = false
	ro := fro{updatesOnly: r.Chance(15)}
	var n int64
	ids := []string{"a", "b"}
	tags := []string{"directed:boundary-write-time"}
	mk := func(list *[]*fop, cnt int) {
		for i := 0; i < cnt; i++ {
			id := ids[r.Intn(len(ids))]
			var op *fop
			switch k := r.Intn(10); {
			case k < 5:
				op = &fop{kind: 2, id: id, msg: g.counterMsg(&n), o: &fwo{create: true}, cands: g.cands(false)}
			case k < 7:
				op = &fop{kind: 3, id: id, msg: g.counterMsg(&n), o: &fwo{}, cands: g.cands(false)}
			default:
				op = &fop{kind: 4, id: id, o: &fwo{allowMissing: r.Chance(30)}}
			}
			if r.Chance(75) {
				var name string
				op.o.xtime, name = g.boundaryTime()
				tags = append(tags, "write-time:"+name)
			}
			*list = append(*list, op)
		}
	}
	var before, after []*fop
	mk(&before, r.Range(0, 5))
	mk(&after, r.Range(2, 9))
	g.collectionScript(o, nil, before, after, ro, tags,
		"explicit write times at the boundaries (zero time.Time, epoch, before the previous change, far future) on Add / Update / Delete; the seed of the subscription carries the stored times of the writes made before it")
}

func (g *gen) timesValue(o *vcoq.Out) {
	r := g.r
	g.config()
	g.hasW = false
	ro := fro{updatesOnly: r.Chance(15)}
	var n int64
	tags := []string{"directed:boundary-write-time"}
	mk := func(list *[]*vop, cnt int) {
		for i := 0; i < cnt; i++ {
			op := &vop{set: true, msg: g.counterMsg(&n), o: &fwo{}}
			if r.Chance(75) {
				var name string
				op.o.xtime, name = g.boundaryTime()
				tags = append(tags, "write-time:"+name)
			}
			*list = append(*list, op)
		}
	}
	var before, after []*vop
	mk(&before, r.Range(0, 3))
	mk(&after, r.Range(2, 8))
	var initial *fmsg
	if r.Chance(50) {
		m := g.counterMsg(&n)
		initial = &m
	}
	g.valueScript(o, initial, nil, before, after, []fro{ro}, tags,
		"explicit write times at the boundaries on Value.Set; the seed carries the stored time of the last Set made before subscribing")
}

func (g *gen) twoMasksValue(o *vcoq.Out) {
	r := g.r
	g.config()
	g.hasW = false
	var n int64
	all := []fld{fa, fb, fc}
	k := r.Intn(3)
	ros := []fro{
		{hasMask: true, mask: []fld{all[k]}},
		{hasMask: true, mask: []fld{all[(k+1)%3]}},
	}
	switch r.Intn(3) {
	case 0:
		ros = append(ros, fro{}) // and one without a mask
	case 1:
		ros = append(ros, fro{hasMask: true, mask: []fld{all[(k+2)%3], all[k]}})
	}
	for i := range ros {
		ros[i].updatesOnly = r.Chance(25)
	}
	var initial *fmsg
	if r.Chance(70) {
		m := g.counterMsg(&n)
		initial = &m
	}
	var after []*vop
	for i := r.Range(2, 7); i > 0; i-- {
		op := &vop{set: true, msg: g.counterMsg(&n), o: &fwo{}}
		if r.Chance(30) {
			op.o.hasUpdate, op.o.update = true, []fld{all[r.Intn(3)]}
		}
		after = append(after, op)
	}
	g.valueScript(o, initial, nil, nil, after, ros, []string{"directed:subscribers-with-different-masks", "read-mask"},
		"several simultaneous Value subscriptions with different read masks")
}

// cancelDuringDelivery: 3-5 backpressured subscribers on one collection; while the bus is part-way
// through delivering a write (held up by a subscriber whose consumer is not receiving) a subscriber
// registered after that one cancels; then the stalled consumer resumes.  Every surviving subscriber
// must still receive exactly one event per successful write, in write order (one CaseCPull per
// surviving subscriber).  The only timed element is a pause that lets the cancellation be processed
// before the stalled consumer resumes: it decides which interleaving is exercised, never the verdict.
func (g *gen) cancelDuringDelivery(o *vcoq.Out) {
	r := g.r
	g.config()
	g.hasW = false
	w := g.newWorld(nil)
	ctx, cancel := context.WithCancel(context.Background())
	defer cancel()
	nsub := r.Range(3, 5)
	stall := r.Intn(nsub - 2)                // the consumer that stops receiving
	quit := stall + 1 + r.Intn(nsub-stall-2) // cancels during the delivery; registered after [stall], not the last one
	ro := fro{updatesOnly: true}
	type sub struct {
		mu     sync.Mutex
		got    []ochange
		done   chan struct{}
		gate   chan struct{} // closed = receive freely
		cancel context.CancelFunc
	}
	subs := make([]*sub, nsub)
	for k := 0; k < nsub; k++ {
		sctx, scancel := context.WithCancel(ctx)
		sb := &sub{done: make(chan struct{}), gate: make(chan struct{}), cancel: scancel}
		subs[k] = sb
		ch := w.coll.Pull(sctx, ro.opts(true)...)
		if k != stall {
			close(sb.gate)
		}
		go func() {
			defer close(sb.done)
			<-sb.gate
			for c := range ch {
				sb.mu.Lock()
				sb.got = append(sb.got, ochange{id: c.Id, tx: exactNanos(c.ChangeTime), kind: kindCode(c.ChangeType), old: fromProto(c.OldValue), new_: fromProto(c.NewValue), seed: c.SeedValue, last: c.LastSeedValue})
				sb.mu.Unlock()
			}
		}()
	}
	var n int64
	ids := []string{"a", "b"}
	var after []*fop
	var codes []int64
	write := func() {
		op := &fop{kind: 2, id: ids[r.Intn(len(ids))], msg: g.counterMsg(&n), o: &fwo{create: true}, cands: g.cands(false)}
		ob := w.exec(op)
		after = append(after, op)
		codes = append(codes, ob.js.(map[string]any)["code"].(int64))
	}
	// the first write is taken by every Pull goroutine; the stalled one then sits on it
	write()
	// the second write is held up at the stalled subscriber
	wrote := make(chan struct{})
	go func() { defer close(wrote); write() }()
	// wait until the delivery has passed the subscribers before the stalled one (or is at the stalled one right away)
	deadline := time.Now().Add(2 * time.Second)
	for stall > 0 && time.Now().Before(deadline) {
		subs[0].mu.Lock()
		k := len(subs[0].got)
		subs[0].mu.Unlock()
		if k >= 2 {
			break
		}
		time.Sleep(200 * time.Microsecond)
	}
	subs[quit].cancel()
	<-subs[quit].done
	time.Sleep(3 * time.Millisecond)
	close(subs[stall].gate)
	<-wrote
	for i := r.Range(1, 3); i > 0; i-- {
		write()
	}
	final := w.list(ro)
	w.coll.Update(barrierID, toProto(fmsg{1000, 1000, 1000}), resource.WithCreateIfAbsent(), resource.WithAllFieldsWritable())
	w.coll.Update(barrierID, toProto(fmsg{1001, 1001, 1001}), resource.WithCreateIfAbsent(), resource.WithAllFieldsWritable())
	cancel()
	bkey := w.storedKey(barrierID)
	for k, sb := range subs {
		<-sb.done
		if k == quit {
			continue
		}
		var stream []ochange
		for _, c := range sb.got {
			if c.id == bkey {
				break
			}
			stream = append(stream, c)
		}
		it := make([]string, len(stream))
		js := []any{}
		for i, c := range stream {
			it[i] = coqOChange(c)
			js = append(js, jsOChange(c))
		}
		coq := vcoq.App("CaseCPull", optFldsW(g), g.idf.coq(), "None", coqOps(nil), ro.coq(), coqOps(after), vcoq.ListZ(codes), vcoq.List(nil), vcoq.List(it), coqKVs(final))
		o.Add(vcoq.Case{Coq: coq, Key: coq, NonTrivial: len(stream) >= 2,
			Tags: []string{"directed:cancel-during-delivery", "collection", fmt.Sprintf("subscribers=%d", nsub), fmt.Sprintf("subscriber-%d-of-%d", k+1, nsub)},
			JSON: map[string]any{"kind": "collection-pull", "scenario": fmt.Sprintf("%d backpressured updates-only subscribers; consumer %d stops receiving, subscriber %d cancels while the second write is being delivered, then consumer %d resumes; this is subscriber %d", nsub, stall+1, quit+1, stall+1, k+1),
				"writable": jsFlds(g.writable, g.hasW), "id_interceptor": g.idf.coq(), "equivalence": "None", "before": []any{}, "read": ro.js(), "after": jsOps(after), "after_codes": codes, "stream": js, "final_list": jsKVs(final)}})
	}
}

// directedC04 appends the directed families to a C04 run.
func (g *gen) directedC04(o *vcoq.Out, tier string) {
	n := 60
	if tier == "thorough" {
		n = 600
	}
	for i := 0; i < n; i++ {
		g.maskedOutCollection(o)
		g.timesCollection(o)
		if i%2 == 0 {
			g.maskedOutValue(o)
			g.timesValue(o)
		}
		if i%2 == 1 {
			g.twoMasksValue(o)
		}
		if i%3 == 0 {
			g.cancelDuringDelivery(o)
		}
	}
}

var _ = proto.Equal
