package main

// C01, option SUBSETS: the property quantifies over "any combination of write options".  The random
// generator of cres.go draws every option independently with a small probability, so a given PAIR
// of options with a given satisfied/violated status of each was rare (expected value AND expected
// check on one write, the value matching and the check rejecting: about 1 write in 500).  This file
// adds a covering design: for every operation kind (Update, Add, Delete, Value.Set) and every pair
// of the write options below, four writes — each of the two options independently in its
// "satisfied / takes effect" and its "violated / has no effect" form, decided against the CURRENT
// contents — plus random subsets of size 3 and 4.  The cases are ordinary CaseC / CaseV cases.

import (
	"fmt"
	"sort"

	"github.com/smart-core-os/sc-golang/verifharness/vcoq"
	"google.golang.org/grpc/codes"
)

var optNames = []string{
	"update-mask", "reset-mask", "expected-value", "expected-check", "expect-absent", "create-if-absent",
	"allow-missing", "gen-id", "id-callback", "before", "after", "write-time", "more-writable",
	"more-update-mask", "created-callback", "all-writable",
}

const (
	oUpdateMask = iota
	oResetMask
	oExpected
	oCheck
	oExpectAbsent
	oCreate
	oAllowMissing
	oGenID
	oIDCb
	oBefore
	oAfter
	oTime
	oMoreWritable
	oMoreUpdate
	oCreatedCb
	oAllWritable
	nOpts
)

// goodFlds: a non-empty list of real fields; every one inside the resource's writable fields when
// the resource restricts writes and [insideWritable] is asked for
func (g *gen) goodFlds(insideWritable bool) []fld {
	pool := []fld{fa, fb, fc}
	if insideWritable && g.hasW {
		pool = nil
		for _, f := range g.writable {
			if f != fbad {
				pool = append(pool, f)
			}
		}
		if len(pool) == 0 {
			return []fld{} // nothing is writable: only the empty update mask validates
		}
	}
	n := g.r.Range(1, 2)
	var l []fld
	for i := 0; i < n; i++ {
		l = append(l, pool[g.r.Intn(len(pool))])
	}
	return l
}

// subsetOpts builds the option record for one write carrying exactly the options of [subset];
// sat[k] says whether subset[k] should be in its satisfied form.  cur is the value the precondition
// will see (the stored body, the empty message for an item about to be created, nil when nothing).
func (g *gen) subsetOpts(subset []int, sat []bool, cur *fmsg) *fwo {
	r := g.r
	o := &fwo{viaPaths: g.r.Chance(35)}
	for k, opt := range subset {
		ok := sat[k]
		switch opt {
		case oUpdateMask:
			o.hasUpdate = true
			if ok {
				o.update = g.goodFlds(true)
			} else if r.Chance(50) || !g.hasW {
				o.update = append(g.goodFlds(false), fbad) // names no field: InvalidArgument
			} else {
				// a real field outside the writable fields, if there is one
				o.update = g.goodFlds(false)
				for _, f := range []fld{fa, fb, fc} {
					in := false
					for _, w := range g.writable {
						in = in || w == f
					}
					if !in {
						o.update = []fld{f}
					}
				}
			}
		case oResetMask:
			o.hasReset = true
			if ok {
				o.reset = g.goodFlds(false)
			} else {
				o.reset = append(g.goodFlds(false), fbad)
			}
		case oExpected:
			base := fmsg{}
			if cur != nil {
				base = *cur
			}
			if !ok {
				switch r.Intn(3) {
				case 0:
					base.a++
				case 1:
					base.b += 2
				default:
					base.c = 4 - base.c
					if base == (fmsg{}) || (cur != nil && base == *cur) {
						base.a += 3
					}
				}
			}
			o.expected = &base
		case oCheck:
			cs := []codes.Code{codes.FailedPrecondition, codes.Aborted, codes.PermissionDenied}
			c := &chk{kind: 0, f: fld(r.Intn(3)), code: cs[r.Intn(3)]}
			var m fmsg
			if cur != nil {
				m = *cur
			}
			c.k = []int64{m.a, m.b, m.c}[c.f]
			if ok {
				if cur != nil && r.Chance(30) {
					c.kind = 2 // CPresent
				}
			} else {
				switch r.Intn(3) {
				case 0:
					c.kind = 1 // CFail
				default:
					c.k += int64(r.Range(1, 3))
				}
			}
			o.check = c
		case oExpectAbsent:
			o.expectAbsent = true
		case oCreate:
			o.create = true
		case oAllowMissing:
			o.allowMissing = true
		case oGenID:
			o.genID = true
		case oIDCb:
			o.idCb = true
		case oBefore:
			o.before = &icpt{kind: r.Intn(3), f: fld(r.Intn(3)), k: int64(r.Range(0, 5))}
		case oAfter:
			o.after = &icpt{kind: r.Intn(3), f: fld(r.Intn(3)), k: int64(r.Range(0, 5))}
		case oTime:
			t := int64(r.Range(1, 9)) * 7
			o.time = &t
		case oMoreWritable:
			o.hasMore, o.more = true, g.goodFlds(false)
		case oMoreUpdate:
			o.hasMoreUpdate, o.moreUpdate = true, g.goodFlds(ok)
		case oCreatedCb:
			o.createdCb = true
		case oAllWritable:
			o.allWritable = true
		}
	}
	return o
}

// wantAbsent: should the write address an id that is not stored?  Decided by the first option of
// the subset that cares about existence; nil = no preference.
func wantAbsent(kind int, subset []int, sat []bool) *bool {
	t, f := true, false
	for k, opt := range subset {
		switch opt {
		case oExpectAbsent, oCreate, oAllowMissing, oCreatedCb:
			if sat[k] {
				return &t
			}
			return &f
		case oExpected, oCheck:
			if kind == 4 || sat[k] {
				return &f // a value precondition is interesting on a stored item
			}
		}
	}
	return nil
}

var subsetIDs = []string{"a", "b", "A", "ab", "c", "d", "B", "e"}

func pairName(a, b int) string {
	if a > b {
		a, b = b, a
	}
	return "pair:" + optNames[a] + "+" + optNames[b]
}

type pairCover struct {
	seen map[string]map[string]int // op kind -> pair -> writes
}

func (p *pairCover) add(kind string, subset []int) {
	if p.seen == nil {
		p.seen = map[string]map[string]int{}
	}
	if p.seen[kind] == nil {
		p.seen[kind] = map[string]int{}
	}
	for i := range subset {
		for j := i + 1; j < len(subset); j++ {
			p.seen[kind][pairName(subset[i], subset[j])]++
		}
	}
}

// one planned write: kind 2 Update, 3 Add, 4 Delete, 5 Value.Set
type plan struct {
	kind   int
	subset []int
	sat    []bool
}

func (g *gen) subsetPlans(tier string) []plan {
	var plans []plan
	for _, kind := range []int{2, 3, 4, 5} {
		for a := 0; a < nOpts; a++ {
			for b := a + 1; b < nOpts; b++ {
				for v := 0; v < 4; v++ {
					plans = append(plans, plan{kind, []int{a, b}, []bool{v&1 == 0, v&2 == 0}})
				}
			}
		}
	}
	extra := 400
	if tier == "thorough" {
		extra = 8000
	}
	for i := 0; i < extra; i++ {
		n := g.r.Range(3, 4)
		perm := g.r.Intn(nOpts)
		var subset []int
		var sat []bool
		for len(subset) < n {
			dup := false
			for _, x := range subset {
				dup = dup || x == perm
			}
			if !dup {
				subset = append(subset, perm)
				sat = append(sat, g.r.Chance(60))
			}
			perm = g.r.Intn(nOpts)
		}
		plans = append(plans, plan{[]int{2, 3, 4, 5}[g.r.Intn(4)], subset, sat})
	}
	// shuffle, so that every sequence mixes kinds and pairs
	for i := len(plans) - 1; i > 0; i-- {
		j := g.r.Intn(i + 1)
		plans[i], plans[j] = plans[j], plans[i]
	}
	return plans
}

// optionSubsetCases appends the covering-design cases to a C01 run and reports the pair coverage.
func (g *gen) optionSubsetCases(o *vcoq.Out, tier string) {
	plans := g.subsetPlans(tier)
	var cplans, vplans []plan
	for _, p := range plans {
		if p.kind == 5 {
			vplans = append(vplans, p)
		} else {
			cplans = append(cplans, p)
		}
	}
	cover := &pairCover{}
	kindName := map[int]string{2: "Update", 3: "Add", 4: "Delete", 5: "Set"}
	const perSeq = 24

	// ---- collections ----
	for start := 0; start < len(cplans); start += perSeq {
		end := min(start+perSeq, len(cplans))
		g.config()
		w := g.newWorld(nil)
		var steps []step
		full := &fop{kind: 1}
		steps = append(steps, step{full, w.exec(full)})
		// some contents to begin with
		for _, id := range []string{"a", "b"} {
			op := &fop{kind: 2, id: id, msg: g.msg(), o: &fwo{create: true, allWritable: true}, cands: g.cands(false)}
			steps = append(steps, step{op, w.exec(op)})
		}
		okW, failW := false, false
		tags := []string{"collection", "option-subsets"}
		for _, p := range cplans[start:end] {
			// choose the target id against the current contents
			var present, absent []string
			for _, id := range subsetIDs {
				if _, ok := w.coll.Get(id); ok {
					present = append(present, id)
				} else {
					absent = append(absent, id)
				}
			}
			want := wantAbsent(p.kind, p.subset, p.sat)
			if want == nil && g.r.Chance(80) {
				// no option of the subset cares: mostly address what lets the call get past the
				// existence tests (Add: an unused id; Update / Delete: a stored item)
				b := p.kind == 3
				want = &b
			}
			pool := subsetIDs
			if want != nil && *want && len(absent) > 0 {
				pool = absent
			} else if want != nil && !*want && len(present) > 0 {
				pool = present
			}
			id := pool[g.r.Intn(len(pool))]
			// gen-id in its effective form needs the empty id
			for k, opt := range p.subset {
				if opt == oGenID && p.sat[k] && p.kind != 4 {
					id = ""
				}
			}
			var cur *fmsg
			if m, ok := w.coll.Get(id); ok && id != "" {
				cur = fromProto(m)
			} else if p.kind != 4 {
				cur = &fmsg{} // the provisional created message
			}
			wo := g.subsetOpts(p.subset, p.sat, cur)
			op := &fop{kind: p.kind, id: id, msg: g.msg(), o: wo, cands: g.cands(false)}
			if p.kind == 3 {
				// Add prepends expect-absent and create-if-absent itself; passing them again is harmless
				// but the model's as_add sets both, so the record keeps whatever the subset asked for
			}
			ob := w.exec(op)
			steps = append(steps, step{op, ob})
			c := ob.js.(map[string]any)["code"].(int64)
			if c == 0 {
				okW = true
			} else {
				failW = true
			}
			cover.add(kindName[p.kind], p.subset)
			if len(p.subset) == 2 {
				tags = append(tags, pairName(p.subset[0], p.subset[1]))
			} else {
				tags = append(tags, fmt.Sprintf("subset-size=%d", len(p.subset)))
			}
			tags = append(tags, fmt.Sprintf("%s:code=%d", kindName[p.kind], c))
			if ids, ok := ob.js.(map[string]any)["id_callback"].([]string); ok && len(ids) == 1 {
				get := &fop{kind: 0, id: ids[0]}
				steps = append(steps, step{get, w.exec(get)})
			}
			f := &fop{kind: 1}
			steps = append(steps, step{f, w.exec(f)})
		}
		if g.idf != nil {
			tags = append(tags, "id-interceptor")
		}
		if g.hasW {
			tags = append(tags, "writable-fields")
		}
		coq := vcoq.App("CaseC", optFldsW(g), g.idf.coq(), coqSteps(steps))
		o.Add(vcoq.Case{Coq: coq, Key: coq, NonTrivial: okW && failW, Tags: tags,
			JSON: map[string]any{"kind": "collection", "scenario": "covering design over pairs of write options, each option satisfied / violated against the current contents",
				"writable": jsFlds(g.writable, g.hasW), "id_interceptor": g.idf.coq(), "steps": jsSteps(steps)}})
	}

	// ---- values ----
	for start := 0; start < len(vplans); start += perSeq {
		end := min(start+perSeq, len(vplans))
		g.config()
		var initial *fmsg
		if g.r.Chance(70) {
			m := g.msg()
			initial = &m
		}
		w := g.newValue(initial, nil)
		var steps []vstep
		var js []any
		okW, failW := false, false
		tags := []string{"value", "option-subsets"}
		for _, p := range vplans[start:end] {
			cur := fromProto(w.val.Get())
			wo := g.subsetOpts(p.subset, p.sat, cur)
			op := &vop{set: true, msg: g.msg(), o: wo}
			ob := w.exec(op)
			steps = append(steps, vstep{op, ob})
			m := op.js()
			m["observed"] = ob.js
			js = append(js, m)
			c := ob.js.(map[string]any)["code"].(int64)
			if c == 0 {
				okW = true
			} else {
				failW = true
			}
			cover.add("Set", p.subset)
			if len(p.subset) == 2 {
				tags = append(tags, pairName(p.subset[0], p.subset[1]))
			} else {
				tags = append(tags, fmt.Sprintf("subset-size=%d", len(p.subset)))
			}
			tags = append(tags, fmt.Sprintf("Set:code=%d", c))
			g2 := &vop{}
			steps = append(steps, vstep{g2, w.exec(g2)})
		}
		coq := vcoq.App("CaseV", optFldsW(g), coqOptMsg(initial), coqVSteps(steps))
		o.Add(vcoq.Case{Coq: coq, Key: coq, NonTrivial: okW && failW, Tags: tags,
			JSON: map[string]any{"kind": "value", "scenario": "covering design over pairs of write options", "writable": jsFlds(g.writable, g.hasW), "initial": jsMsg(initial), "steps": js}})
	}

	// ---- coverage report ----
	total := nOpts * (nOpts - 1) / 2
	rep := map[string]any{"write_options": optNames, "pairs_total_per_operation": total}
	kinds := make([]string, 0, len(cover.seen))
	for k := range cover.seen {
		kinds = append(kinds, k)
	}
	sort.Strings(kinds)
	for _, k := range kinds {
		minW := -1
		for _, n := range cover.seen[k] {
			if minW < 0 || n < minW {
				minW = n
			}
		}
		rep[k] = map[string]any{"pairs_covered": len(cover.seen[k]), "min_writes_per_pair": minW}
	}
	if o.Extra == nil {
		o.Extra = map[string]any{}
	}
	o.Extra["coverage_extra"] = map[string]any{"write_option_pair_coverage": rep}
}
