package main

// C08, second generator ("C08x") and the translator of the include decision table.
//
//   - Gen/IncludeTable.v: the real (*CollectionChange).include run on every change kind
//     (unspecified, ADD, UPDATE, REMOVE, REPLACE, one out-of-range number) x old/new nil-ness x the
//     predicate's answers on the old value / the new value / nil x seed flags.  Regenerated from
//     the working tree on every run; Resource/IncludeTableProofs.v holds the obligations over the
//     whole table (table = model, every legal row obeys the fold law).
//   - the same rows as correspondence cases, so that a changed table also yields a failing input;
//   - Collection.Pull without backpressure + include through the public API: 1-2 subscribers that
//     stall while a scripted history (delete / re-add of matching <-> non-matching versions,
//     add+remove, update runs) is written and then drain, in several phases; the expected stream is
//     computed in Coq from C09's merge model composed with include;
//   - the booking server: ListBookings / PullBookings with booking_intersects over the grid of
//     period shapes (absent, unbounded, half-bounded, empty, inverted, proper) against
//     PeriodsIntersect's model and its arithmetic reference.

import (
	"context"
	"fmt"
	"os"
	"path/filepath"
	"sort"
	"strconv"
	"strings"
	"sync"
	"time"

	"github.com/smart-core-os/sc-api/go/traits"
	"github.com/smart-core-os/sc-api/go/types"
	typestime "github.com/smart-core-os/sc-api/go/types/time"
	"github.com/smart-core-os/sc-golang/pkg/resource"
	"github.com/smart-core-os/sc-golang/pkg/trait/bookingpb"
	"github.com/smart-core-os/sc-golang/verifharness/vcoq"
	"github.com/smart-core-os/sc-golang/verifharness/vh"
	"google.golang.org/protobuf/proto"
	"google.golang.org/protobuf/types/known/timestamppb"
	"google.golang.org/protobuf/types/known/wrapperspb"
)

func init() {
	vh.RegisterTranslator("includetable", genIncludeTable)
	vh.Register("C08x", genC08x)
}

const headerX = "From SC Require Import Base.Prelude Resource.Impl Resource.Spec Resource.Pull Resource.Flat Resource.Judge Excess.Change Excess.MergeExcess Resource.Include Timeline.Timestamp Resource.C08Judge."

// ---------- the decision table ----------

type incRow struct {
	kind           int64
	hasOld, hasNew bool
	pin, pn, pnil  bool
	seed, last     bool
	out            string // Coq term of type option change
	mutated        bool
	js             map[string]any
}

func (r incRow) inCoq() string {
	old, nw := "None", "None"
	if r.hasOld {
		old = "(Some 1)"
	}
	if r.hasNew {
		nw = "(Some 2)"
	}
	return vcoq.App("mkChange", "7", vcoq.Z(r.kind), old, nw, "9", vcoq.Bool(r.seed), vcoq.Bool(r.last))
}

func includeRows() []incRow {
	oldV, newV := proto.Message(wrapperspb.Int64(1)), proto.Message(wrapperspb.Int64(2))
	t9 := time.Unix(0, 9)
	tokOf := func(m proto.Message) string {
		switch {
		case m == nil:
			return "None"
		case m == oldV:
			return "(Some 1)"
		case m == newV:
			return "(Some 2)"
		}
		return "(Some 99)"
	}
	bools := []bool{false, true}
	var rows []incRow
	for kind := int64(0); kind <= 5; kind++ {
		for _, hasOld := range bools {
			for _, hasNew := range bools {
				for _, pin := range bools {
					for _, pn := range bools {
						for _, pnil := range bools {
							for _, seed := range bools {
								for _, last := range bools {
									r := incRow{kind: kind, hasOld: hasOld, hasNew: hasNew, pin: pin, pn: pn, pnil: pnil, seed: seed, last: last}
									c := &resource.CollectionChange{Id: "k7", ChangeTime: t9, ChangeType: types.ChangeType(kind), SeedValue: seed, LastSeedValue: last}
									if hasOld {
										c.OldValue = oldV
									}
									if hasNew {
										c.NewValue = newV
									}
									before := *c
									f := func(id string, m proto.Message) bool {
										switch {
										case m == nil:
											return pnil
										case m == oldV:
											return pin
										case m == newV:
											return pn
										}
										return false
									}
									out, ok := resource.VerifInclude(c, f)
									r.mutated = *c != before
									switch {
									case !ok:
										r.out = "None"
									case out == nil:
										r.out = "(Some (mkChange (-1) 0 None None 0 false false))"
									default:
										id, tm := int64(99), int64(99)
										if out.Id == "k7" {
											id = 7
										}
										if out.ChangeTime.Equal(t9) {
											tm = 9
										}
										r.out = vcoq.Some(vcoq.App("mkChange", vcoq.Z(id), vcoq.Z(int64(out.ChangeType)), tokOf(out.OldValue), tokOf(out.NewValue), vcoq.Z(tm), vcoq.Bool(out.SeedValue), vcoq.Bool(out.LastSeedValue)))
									}
									r.js = map[string]any{"kind": "include decision table row: (*CollectionChange).include called directly",
										"change_type": types.ChangeType(kind).String(), "old_value_present": hasOld, "new_value_present": hasNew,
										"predicate_on_old": pin, "predicate_on_new": pn, "predicate_on_nil": pnil, "seed_value": seed, "last_seed_value": last,
										"returned": r.out, "input_mutated": r.mutated}
									rows = append(rows, r)
								}
							}
						}
					}
				}
			}
		}
	}
	return rows
}

func genIncludeTable(outDir string) error {
	rows := includeRows()
	var b strings.Builder
	b.WriteString("(* GENERATED by harness/cres (translator includetable) from the working tree: the real\n")
	b.WriteString("   CollectionChange.include on every change kind x nil-ness x predicate answers x seed flags.\n")
	b.WriteString("   A row: the change handed in (id 7, time 9, old value token 1, new value token 2), the predicate's\n")
	b.WriteString("   answers (on the old value, on the new value, on nil), what include returned (None = ok false). *)\n")
	b.WriteString("From SC Require Import Base.Prelude Excess.Change.\nOpen Scope Z_scope.\n")
	b.WriteString("Definition include_rows : list (change * (bool * bool * bool) * option change) := [\n")
	var mut []string
	for i, r := range rows {
		sep := ";"
		if i+1 == len(rows) {
			sep = ""
		}
		fmt.Fprintf(&b, "  (%s, (%s, %s, %s), %s)%s\n", r.inCoq(), vcoq.Bool(r.pin), vcoq.Bool(r.pn), vcoq.Bool(r.pnil), r.out, sep)
		if r.mutated {
			mut = append(mut, vcoq.Int(i))
		}
	}
	b.WriteString("].\n")
	b.WriteString("(* rows on which include changed the change it was called on (the bus hands the same change to every subscriber) *)\n")
	fmt.Fprintf(&b, "Definition include_rows_mutated : list Z := %s.\n", vcoq.List(mut))
	return os.WriteFile(filepath.Join(outDir, "IncludeTable.v"), []byte(b.String()), 0o644)
}

// ---------- the generator ----------

func genC08x(o *vcoq.Out, r *vcoq.Rand, tier string) error {
	o.Header, o.CaseType, o.Judge, o.Shard = headerX, "icase", "judge08x", 60
	o.Rule = "(1) every row of the include decision table (6 change kinds incl. REPLACE, unspecified and an out-of-range number x old/new nil-ness x predicate answers on old/new/nil x seed flags: 768 rows) as a case; (2) Collection.Pull WITHOUT backpressure + include (+ read mask) through the public API, 1-2 subscribers stalled while a scripted history over 3 ids is written (delete / re-add of matching <-> non-matching versions, add+remove, update runs; values around the predicate's threshold) then draining, 2-3 phases: every field of every received event compared with C09's merge model composed with include, fold compared with List(include); (3) the booking server: ListBookings{booking_intersects} over a store with one booking per period shape (absent, unbounded, half-bounded, empty, inverted, proper: 26 shapes) for each of 27 request shapes, and PullBookings with bookings moving between shapes, against PeriodsIntersect's model and its arithmetic reference. Non-trivial: a legal table row / a stream with a merged or re-labelled event / a request that excludes something. Distinct by full term."
	g := &gen{r: r}
	for _, row := range includeRows() {
		coq := vcoq.App("CaseRow", row.inCoq(), vcoq.Bool(row.pin), vcoq.Bool(row.pn), vcoq.Bool(row.pnil), row.out)
		legal := (row.kind == 1 && !row.hasOld && row.hasNew) || ((row.kind == 2 || row.kind == 4) && row.hasOld && row.hasNew) || (row.kind == 3 && row.hasOld && !row.hasNew)
		o.Add(vcoq.Case{Coq: coq, Key: coq, NonTrivial: legal, Tags: []string{"table-row", "table-kind:" + types.ChangeType(row.kind).String()}, JSON: row.js})
		if row.mutated {
			o.Directs = append(o.Directs, vcoq.Direct{What: "include modified the change it was called on (other subscribers receive the same change)", Class: "include-mutates-input", Replay: row.js})
		}
	}
	n := 90
	if tier == "thorough" {
		n = 1500
	}
	for i := 0; i < n; i++ {
		g.lossyScriptCase(o, 1+i%2)
	}
	g.bookingGrid(o)
	nb := 40
	if tier == "thorough" {
		nb = 600
	}
	for i := 0; i < nb; i++ {
		g.bookingPullCase(o)
	}
	return nil
}

// ---------- lossy + include through the public API ----------

const plugID, barrierIDx = "pp", "zz"

var scriptIDs = []string{"a", "b", "c"}

// matching returns up to n distinct messages that p accepts for id
func matching(p *pred, id string, n int, r *vcoq.Rand) []fmsg {
	var all []fmsg
	for a := int64(0); a <= 4; a++ {
		for b := int64(0); b <= 4; b++ {
			for c := int64(0); c <= 4; c++ {
				m := fmsg{a, b, c}
				if p == nil || p.eval(id, toProto(m)) {
					all = append(all, m)
				}
			}
		}
	}
	for i := len(all) - 1; i > 0; i-- {
		j := r.Intn(i + 1)
		all[i], all[j] = all[j], all[i]
	}
	if len(all) > n {
		all = all[:n]
	}
	return all
}

// scriptPred draws an include predicate; id sets always contain the plug and barrier ids
func (g *gen) scriptPred() *pred {
	r := g.r
	var p *pred
	switch r.Intn(5) {
	case 0:
		ids := []string{plugID, barrierIDx}
		for _, s := range scriptIDs {
			if r.Chance(50) {
				ids = append(ids, s)
			}
		}
		p = &pred{kind: 1, ids: ids}
	default:
		p = &pred{kind: 2, f: fld(r.Intn(3)), k: int64(r.Range(1, 4))}
	}
	if p.kind == 2 && r.Chance(20) {
		p = &pred{kind: 3, sub: p}
	}
	if r.Chance(20) {
		p = &pred{kind: 4, sub: p}
	}
	return p
}

type lossySub struct {
	ro     fro
	ch     <-chan *resource.CollectionChange
	got    []ochange
	merged bool
	late   bool
}

func rawChange(c *resource.CollectionChange) ochange {
	return ochange{id: c.Id, t: c.ChangeTime.UnixNano(), kind: int64(c.ChangeType), old: fromProto(c.OldValue), new_: fromProto(c.NewValue), seed: c.SeedValue, last: c.LastSeedValue}
}

// recv takes one event, giving up after a long while (a stream that stops is then reported by the comparison)
func (s *lossySub) recv() (ochange, bool) {
	select {
	case c, ok := <-s.ch:
		if !ok {
			return ochange{}, false
		}
		oc := rawChange(c)
		s.got = append(s.got, oc)
		return oc, true
	case <-time.After(20 * time.Second):
		s.late = true
		return ochange{}, false
	}
}

func (g *gen) lossyScriptCase(o *vcoq.Out, nsubs int) {
	r := g.r
	g.idf, g.hasW, g.writable = nil, false, nil
	nphases := r.Range(2, 3)
	// predicates, with enough accepted plug / barrier versions for every phase
	var subs []*lossySub
	var plugs, bars []fmsg
	for try := 0; ; try++ {
		subs = nil
		for k := 0; k < nsubs; k++ {
			ro := fro{include: g.scriptPred()}
			if try > 30 {
				ro.include = &pred{kind: 2, f: fld(k), k: 2}
			}
			if r.Chance(15) {
				ro.hasMask, ro.mask = true, g.flds(false)
			}
			subs = append(subs, &lossySub{ro: ro})
		}
		accept := func(id string, m fmsg) bool {
			for _, s := range subs {
				if !s.ro.include.eval(id, toProto(m)) {
					return false
				}
			}
			return true
		}
		plugs, bars = nil, nil
		for _, m := range matching(nil, "", 125, r) {
			if len(plugs) < nphases && accept(plugID, m) {
				plugs = append(plugs, m)
			} else if len(bars) < nphases && accept(barrierIDx, m) {
				bars = append(bars, m)
			}
		}
		if len(plugs) == nphases && len(bars) == nphases {
			break
		}
	}
	w := g.newWorld(nil)
	present := map[string]fmsg{}
	val := func() fmsg {
		v := func() int64 { return int64(r.Range(0, 4)) }
		return fmsg{v(), v(), v()}
	}
	upd := func(id string, m fmsg) *fop {
		op := &fop{kind: 2, id: id, msg: m, o: &fwo{create: true}}
		op.cands = g.cands(false)
		present[id] = m
		return op
	}
	add := func(id string, m fmsg) *fop {
		op := &fop{kind: 3, id: id, msg: m, o: &fwo{}}
		op.cands = g.cands(false)
		present[id] = m
		return op
	}
	del := func(id string) *fop {
		delete(present, id)
		return &fop{kind: 4, id: id, o: &fwo{}}
	}
	script := func(n int) []*fop {
		var ops []*fop
		for len(ops) < n {
			id := scriptIDs[r.Intn(len(scriptIDs))]
			_, here := present[id]
			switch {
			case here && r.Chance(40): // delete and re-create: a REPLACE for a reader that is behind
				ops = append(ops, del(id), add(id, val()))
			case here && r.Chance(35):
				ops = append(ops, del(id))
			case !here && r.Chance(40):
				ops = append(ops, add(id, val()))
			default:
				ops = append(ops, upd(id, val()))
			}
		}
		return ops
	}
	var before []*fop
	for _, op := range script(r.Range(0, 4)) {
		w.exec(op)
		before = append(before, op)
	}
	ctx, cancel := context.WithCancel(context.Background())
	defer cancel()
	for _, s := range subs {
		nseed := len(w.list(s.ro))
		s.ch = w.coll.Pull(ctx, append(s.ro.opts(false), resource.WithBackpressure(false))...)
		for i := 0; i < nseed; i++ {
			if _, ok := s.recv(); !ok {
				break
			}
		}
	}
	var phases [][]*fop
	for p := 0; p < nphases; p++ {
		ph := []*fop{upd(plugID, plugs[p])}
		ph = append(ph, script(r.Range(2, 8))...)
		ph = append(ph, upd(barrierIDx, bars[p]))
		for _, op := range ph {
			w.exec(op)
		}
		phases = append(phases, ph)
		// drain: everything up to this phase's barrier
		for _, s := range subs {
			for {
				oc, ok := s.recv()
				if !ok {
					break
				}
				if oc.id == barrierIDx {
					break
				}
			}
		}
	}
	cancel()
	for k, s := range subs {
		final := w.list(s.ro)
		it := make([]string, len(s.got))
		sj := []any{}
		interesting := false
		for i, c := range s.got {
			it[i] = coqOChange(c)
			sj = append(sj, jsOChange(c))
			if c.kind == 4 || (!c.seed && c.id != plugID && c.id != barrierIDx && c.kind != 2) {
				interesting = true
			}
		}
		ph := make([]string, len(phases))
		pj := []any{}
		for i, p := range phases {
			ph[i] = coqOps(p)
			pj = append(pj, jsOps(p))
		}
		what := fmt.Sprintf("subscriber %d of %d", k+1, len(subs))
		coq := vcoq.App("CaseLossy", vcoq.Str(what), coqOps(before), s.ro.coq(), vcoq.List(ph), vcoq.List(it), coqKVs(final))
		tags := []string{"lossy-script", fmt.Sprintf("lossy-subs=%d", len(subs)), "lossy-pred:" + strings.SplitN(strings.Trim(s.ro.include.coq(), "()"), " ", 2)[0]}
		for _, c := range s.got {
			if c.kind == 4 {
				tags = append(tags, "lossy-replace-delivered")
				break
			}
		}
		if s.late {
			tags = append(tags, "lossy-gave-up-waiting")
		}
		o.Add(vcoq.Case{Coq: coq, Key: coq, NonTrivial: interesting, Tags: tags,
			JSON: map[string]any{"kind": "Collection.Pull WithBackpressure(false) + WithInclude, reader stalled during each phase then drained up to the barrier write",
				"this_subscriber": what, "read": s.ro.js(), "writes_before_subscribing": jsOps(before),
				"phases (plug write, scripted writes, barrier write)": pj, "stream (change_type as number: 1 ADD 2 UPDATE 3 REMOVE 4 REPLACE)": sj, "final_list": jsKVs(final)}})
	}
}

// ---------- the booking server's predicate over the grid of period shapes ----------

type pshape struct {
	absent     bool
	start, end *int64
}

func (p pshape) period() *typestime.Period {
	if p.absent {
		return nil
	}
	out := &typestime.Period{}
	if p.start != nil {
		out.StartTime = &timestamppb.Timestamp{Seconds: *p.start}
	}
	if p.end != nil {
		out.EndTime = &timestamppb.Timestamp{Seconds: *p.end}
	}
	return out
}
func (p pshape) coq() string {
	if p.absent {
		return "None"
	}
	ts := func(v *int64) string {
		if v == nil {
			return "None"
		}
		return vcoq.Some(vcoq.App("mkTs", vcoq.Z(*v), "0"))
	}
	return vcoq.Some(vcoq.App("mkPeriod", ts(p.start), ts(p.end)))
}
func (p pshape) js() any {
	if p.absent {
		return nil
	}
	m := map[string]any{}
	if p.start != nil {
		m["start"] = *p.start
	}
	if p.end != nil {
		m["end"] = *p.end
	}
	return m
}

// periodGrid: absent + {no start, 2, 4, 6, 8} x {no end, 2, 4, 6, 8}: unbounded, half-bounded,
// empty (start = end), inverted (end < start) and proper periods
func periodGrid() []pshape {
	pts := []int64{2, 4, 6, 8}
	out := []pshape{{absent: true}}
	for si := -1; si < len(pts); si++ {
		for ei := -1; ei < len(pts); ei++ {
			var p pshape
			if si >= 0 {
				v := pts[si]
				p.start = &v
			}
			if ei >= 0 {
				v := pts[ei]
				p.end = &v
			}
			out = append(out, p)
		}
	}
	return out
}

func (g *gen) bookingGrid(o *vcoq.Out) {
	grid := periodGrid()
	srv := bookingpb.NewModelServer(bookingpb.NewModel())
	store := make([]string, len(grid))
	for k, p := range grid {
		id := fmt.Sprintf("k%02d", k)
		if _, err := srv.CreateBooking(context.Background(), &traits.CreateBookingRequest{Name: "n", Booking: &traits.Booking{Id: id, Title: strconv.Itoa(k), Booked: p.period()}}); err != nil {
			o.Directs = append(o.Directs, vcoq.Direct{What: "CreateBooking with an explicit id failed: " + err.Error(), Class: "booking-create", Replay: map[string]any{"id": id}})
		}
		store[k] = vcoq.Pair(vcoq.Int(k), p.coq())
	}
	reqs := append([]pshape{}, grid...)
	// also the request shape used by timepb.AllTime-like callers: present but without bounds is grid[1]
	for qi, q := range reqs {
		res, err := srv.ListBookings(context.Background(), &traits.ListBookingsRequest{Name: "n", BookingIntersects: q.period()})
		var listed []int64
		if err != nil {
			listed = []int64{-1}
		} else {
			for _, b := range res.Bookings {
				v, _ := strconv.ParseInt(b.Title, 10, 64)
				listed = append(listed, v)
			}
		}
		sort.Slice(listed, func(i, j int) bool { return listed[i] < listed[j] })
		coq := vcoq.App("CaseBookList", q.coq(), vcoq.List(store), vcoq.ListZ(listed))
		var sj []any
		for k, p := range grid {
			sj = append(sj, map[string]any{"booking": k, "booked": p.js()})
		}
		o.Add(vcoq.Case{Coq: coq, Key: coq, NonTrivial: len(listed) < len(grid), Tags: []string{"booking-grid"},
			JSON: map[string]any{"kind": "ListBookings over one booking per period shape", "request_index": qi, "booking_intersects": q.js(), "store": sj, "listed_bookings": listed}})
	}
}

// bookingPullCase: PullBookings with a booking_intersects request while bookings are created and moved
// between period shapes; the fold of the stream and ListBookings against the expected filtered contents
func (g *gen) bookingPullCase(o *vcoq.Out) {
	r := g.r
	grid := periodGrid()
	shape := func() pshape {
		if r.Chance(30) {
			return grid[r.Intn(2)] // absent or unbounded
		}
		return grid[r.Intn(len(grid))]
	}
	srv := bookingpb.NewModelServer(bookingpb.NewModel())
	type rec struct {
		v int64
		p pshape
	}
	contents := map[string]rec{}
	var ids []string
	version := int64(0)
	var log []any
	write := func() {
		version++
		p := shape()
		if len(ids) < 4 && (len(ids) == 0 || r.Chance(35)) {
			id := fmt.Sprintf("b%d", len(ids))
			if _, err := srv.CreateBooking(context.Background(), &traits.CreateBookingRequest{Name: "n", Booking: &traits.Booking{Id: id, Title: strconv.FormatInt(version, 10), Booked: p.period()}}); err == nil {
				ids = append(ids, id)
				contents[id] = rec{version, p}
				log = append(log, map[string]any{"create": id, "version": version, "booked": p.js()})
			}
			return
		}
		id := ids[r.Intn(len(ids))]
		if _, err := srv.UpdateBooking(context.Background(), &traits.UpdateBookingRequest{Name: "n", Booking: &traits.Booking{Id: id, Title: strconv.FormatInt(version, 10), Booked: p.period()}}); err == nil {
			contents[id] = rec{version, p}
			log = append(log, map[string]any{"update": id, "version": version, "booked": p.js()})
		}
	}
	for i := r.Range(0, 3); i > 0; i-- {
		write()
	}
	q := shape()
	if r.Chance(40) {
		q = grid[1] // present, no start, no end
	}
	req := &traits.ListBookingsRequest{Name: "n", BookingIntersects: q.period()}
	ctx, cancel := context.WithCancel(context.Background())
	defer cancel()
	var mu sync.Mutex
	var got []ochange
	done := make(chan struct{})
	go func() {
		defer close(done)
		srv.PullBookings(req, &fakePullBookings{ctx: ctx, mu: &mu, got: &got})
	}()
	for i := r.Range(1, 8); i > 0; i-- {
		write()
	}
	list := func() []kv {
		res, err := srv.ListBookings(context.Background(), req)
		if err != nil {
			return []kv{{"?list-error", fmsg{}}}
		}
		var out []kv
		for _, b := range res.Bookings {
			out = append(out, kv{b.Id, *bookingVal(b)})
		}
		return out
	}
	stream, final := settle(&mu, &got, list)
	cancel()
	<-done
	sort.Strings(ids)
	var cs []string
	var cj []any
	for _, id := range ids {
		c := contents[id]
		m := *bookingVal(&traits.Booking{Title: strconv.FormatInt(c.v, 10), Booked: c.p.period()})
		cs = append(cs, vcoq.Pair(vcoq.Pair(vcoq.Str(id), coqMsg(m)), c.p.coq()))
		cj = append(cj, map[string]any{"id": id, "version": c.v, "booked": c.p.js()})
	}
	it := make([]string, len(stream))
	sj := []any{}
	for i, c := range stream {
		it[i] = coqOChange(c)
		sj = append(sj, jsOChange(c))
	}
	coq := vcoq.App("CaseBookPull", q.coq(), vcoq.List(cs), vcoq.List(it), coqKVs(final))
	o.Add(vcoq.Case{Coq: coq, Key: coq, NonTrivial: len(stream) >= 2, Tags: []string{"booking-pull"},
		JSON: map[string]any{"kind": "PullBookings / ListBookings with booking_intersects while bookings move between period shapes",
			"booking_intersects": q.js(), "writes": log, "final_contents": cj, "stream": sj, "final_list": jsKVs(final)}})
}
