package main

// Generator C04T: the stream property C04 over FULL messages — testproto.TestAllTypes and trait
// messages (Brightness, AirTemperature, ElectricMode, OnOff ...) — with nested read masks, nested
// update / reset / writable masks, equivalences (WithNoDuplicates, WithMessageEquivalence(cmp.Equal()),
// WithEquivalence(projection onto paths)), initial contents given to the constructor
// (WithInitialRecord / WithInitialValue) and explicit write times incl. boundary times.  Compared in
// Coq with Pull.v instantiated with the message-tree algebra (Resource/TreeJudge04.v).

import (
	"context"
	"fmt"
	"sort"
	"time"

	"github.com/smart-core-os/sc-api/go/traits"
	"github.com/smart-core-os/sc-golang/internal/testproto"
	"github.com/smart-core-os/sc-golang/pkg/cmp"
	"github.com/smart-core-os/sc-golang/pkg/masks"
	"github.com/smart-core-os/sc-golang/pkg/resource"
	"github.com/smart-core-os/sc-golang/verifharness/vcoq"
	"github.com/smart-core-os/sc-golang/verifharness/vh"
	"github.com/smart-core-os/sc-golang/verifharness/vmsg"
	"google.golang.org/protobuf/proto"
	"google.golang.org/protobuf/types/known/fieldmaskpb"
)

func init() { vh.Register("C04T", genC04T) }

const tree04Header = "From SC Require Import Base.Prelude Msg.Msg Msg.Schema Msg.Path Masks.Get Masks.Update Resource.Impl Resource.Spec Resource.Pull Resource.Flat Resource.Tree Resource.TreeJudge Resource.TreeJudge04.\nOpen Scope string_scope."

func (g *tgen) proto() proto.Message {
	if g.pt != nil {
		return g.pt
	}
	return tat
}

func (g *tgen) anyMsg() proto.Message {
	if g.pt == nil {
		return g.msg()
	}
	cfg := vmsg.DefaultCfg
	cfg.FieldPct = 45 // trait messages have few fields
	return vmsg.RandMsg(g.r, g.pt, cfg)
}

// options for a write of a message of the generator's type
func (g *tgen) wopts4(forDelete bool, cur proto.Message) *two {
	if g.pt == nil {
		c, _ := cur.(*testproto.TestAllTypes)
		return g.wopts(forDelete, c)
	}
	o := &two{}
	r := g.r
	o.viaPaths = r.Chance(30)
	if r.Chance(20) {
		t := int64(r.Range(1, 9)) * 7
		o.time = &t
	}
	if !forDelete {
		if r.Chance(50) {
			o.update = g.mask(true)
		}
		if r.Chance(15) {
			o.reset = g.mask(true)
		}
		if r.Chance(12) {
			o.more = g.mask(false)
		}
		if r.Chance(8) {
			o.allWritable = true
		}
		if r.Chance(45) {
			o.create = true
		}
		if r.Chance(8) {
			o.expectAbsent = true
		}
	} else if r.Chance(40) {
		o.allowMissing = true
	}
	if r.Chance(15) {
		if cur != nil && r.Chance(65) {
			o.expected = proto.Clone(cur)
		} else {
			o.expected = g.anyMsg()
		}
	}
	return o
}

// ---------- equivalences ----------

type teqv struct {
	all    bool
	viaMsg bool // WithMessageEquivalence(cmp.Equal()) instead of WithNoDuplicates()
	paths  []string
}

func (e *teqv) coq() string {
	if e == nil {
		return "None"
	}
	if e.all {
		return "(Some TEqAll)"
	}
	return vcoq.Some(vcoq.App("TEqPaths", vmsg.Paths(e.paths)))
}
func (e *teqv) js() any {
	if e == nil {
		return nil
	}
	if e.all {
		if e.viaMsg {
			return "WithMessageEquivalence(cmp.Equal())"
		}
		return "WithNoDuplicates()"
	}
	return map[string]any{"WithEquivalence: equal after projecting onto": e.paths}
}
func (e *teqv) option() resource.Option {
	if e.all {
		if e.viaMsg {
			return resource.WithMessageEquivalence(cmp.Equal())
		}
		return resource.WithNoDuplicates()
	}
	f := masks.NewResponseFilter(masks.WithFieldMask(&fieldmaskpb.FieldMask{Paths: append([]string{}, e.paths...)}))
	return resource.WithEquivalence(resource.ComparerFunc(func(x, y proto.Message) bool {
		if x == nil || y == nil {
			return x == nil && y == nil
		}
		return proto.Equal(f.FilterClone(x), f.FilterClone(y))
	}))
}

func (g *tgen) validPaths(n int) []string {
	md := g.proto().ProtoReflect().Descriptor()
	var out []string
	for i := 0; i < n; i++ {
		out = append(out, vmsg.ValidPath(g.r, md, 35, 2))
	}
	return out
}

func (g *tgen) equiv() *teqv {
	switch g.r.Intn(6) {
	case 0:
		return &teqv{all: true}
	case 1:
		return &teqv{all: true, viaMsg: true}
	case 2:
		return &teqv{paths: g.validPaths(g.r.Range(1, 2))}
	}
	return nil
}

// ---------- read options ----------

type tro struct {
	mask        *fieldmaskpb.FieldMask
	viaPaths    bool // WithReadPaths instead of WithReadMask
	updatesOnly bool
}

func (r *tro) coq() string { return vcoq.App("mkTRO", maskOptPaths(r.mask), vcoq.Bool(r.updatesOnly)) }
func (r *tro) js() any {
	return map[string]any{"read_mask": vmsg.MaskJSON(r.mask), "updates_only": r.updatesOnly}
}
func (r *tro) opts(pt proto.Message, pull bool) []resource.ReadOption {
	var out []resource.ReadOption
	if r.mask != nil {
		if r.viaPaths {
			out = append(out, resource.WithReadPaths(pt, r.mask.Paths...))
		} else {
			out = append(out, resource.WithReadMask(proto.Clone(r.mask).(*fieldmaskpb.FieldMask)))
		}
	}
	if pull {
		out = append(out, resource.WithBackpressure(true), resource.WithUpdatesOnly(r.updatesOnly))
	}
	return out
}

func (g *tgen) readOpts() tro {
	ro := tro{updatesOnly: g.r.Chance(20)}
	if g.r.Chance(65) {
		ro.mask = &fieldmaskpb.FieldMask{Paths: g.validPaths(g.r.Range(1, 3))}
		if g.r.Chance(10) {
			ro.mask.Paths = []string{} // the empty mask: everything is projected away
		}
		// WithReadPaths validates against the message type (and panics otherwise): the paths are valid
		ro.viaPaths = g.r.Chance(30)
	}
	return ro
}

// ---------- operations ----------

type t4op struct {
	kind int // 0 Update 1 Add 2 Delete
	id   string
	msg  proto.Message
	o    *two
}

func (op *t4op) coq() string {
	switch op.kind {
	case 0:
		return vcoq.App("TUpdate", vcoq.Str(op.id), vmsg.Value(op.msg), op.o.coq())
	case 1:
		return vcoq.App("TAdd", vcoq.Str(op.id), vmsg.Value(op.msg), op.o.coq())
	}
	return vcoq.App("TDelete", vcoq.Str(op.id), op.o.coq())
}
func (op *t4op) js() any {
	m := map[string]any{"op": []string{"Update", "Add", "Delete"}[op.kind], "id": op.id, "opts": op.o.js()}
	if op.kind != 2 {
		m["msg"] = vmsg.JSON(op.msg)
	}
	return m
}
func coqT4Ops(l []*t4op) string {
	it := make([]string, len(l))
	for i, op := range l {
		it[i] = op.coq()
	}
	return vcoq.List(it)
}
func jsT4Ops(l []*t4op) any {
	out := []any{}
	for _, op := range l {
		out = append(out, op.js())
	}
	return out
}

var t4ids = []string{"a", "b", "c"}

const barrierNanos = 999999937 // the write time of the Value barrier writes: no other write uses it

// unrelated: p is neither a prefix of nor below any path of the mask
func unrelated(p string, fm *fieldmaskpb.FieldMask) bool {
	for _, q := range fm.GetPaths() {
		if rel := vmsg.PathRelation(p, q); rel != "siblings" && rel != "disjoint" {
			return false
		}
	}
	return true
}

// maskedOutWrite: options that make the write change only what lies outside the read mask
func (g *tgen) maskedOutWrite(ro tro) *two {
	for try := 0; try < 20; try++ {
		p := g.validPaths(1)[0]
		if ro.mask != nil && len(ro.mask.Paths) > 0 && unrelated(p, ro.mask) {
			return &two{update: &fieldmaskpb.FieldMask{Paths: []string{p}}, create: g.r.Chance(30)}
		}
	}
	return nil
}

func (g *tgen) boundaryTime() *time.Time {
	t := boundaryTimes[g.r.Intn(len(boundaryTimes))].t
	return &t
}

// ---------- collection ----------

func (g *tgen) t4Collection(o *vcoq.Out) {
	r := g.r
	clock := &fakeClock{frozen: true}
	opts := g.resOpts(clock)
	eq := g.equiv()
	if eq != nil {
		opts = append(opts, eq.option())
	}
	ro := g.readOpts()
	tags := []string{"tree-collection", "type:" + string(g.proto().ProtoReflect().Descriptor().Name())}
	// initial records given to the constructor (ids are fixed points of the id interceptor family)
	var recCoq []string
	recJS := []any{}
	known := map[string]bool{}
	if r.Chance(50) {
		for _, id := range t4ids[:r.Range(1, 3)] {
			m := g.anyMsg()
			opts = append(opts, resource.WithInitialRecord(id, proto.Clone(m)))
			recCoq = append(recCoq, vcoq.Pair(vcoq.Str(id), vmsg.Value(m)))
			recJS = append(recJS, []any{id, vmsg.JSON(m)})
			known[id] = true
		}
		tags = append(tags, "initial-records")
	}
	coll := resource.NewCollection(opts...)
	clock.frozen = false
	stored := func(id string) string {
		if g.idf != nil {
			return g.idf.fn()(id)
		}
		return id
	}
	ids := append([]string{}, t4ids...)
	if g.idf != nil {
		ids = append(ids, "A")
	}
	exec := func(op *t4op) (int64, proto.Message) {
		created := 0
		var res proto.Message
		var err error
		switch op.kind {
		case 0:
			res, err = coll.Update(op.id, proto.Clone(op.msg), op.o.opts(&created)...)
		case 1:
			res, err = coll.Add(op.id, proto.Clone(op.msg), op.o.opts(&created)...)
		default:
			res, err = coll.Delete(op.id, op.o.opts(&created)...)
			if err == nil && res == nil {
				return -1, nil // allow-missing on an absent item: succeeds, changes nothing
			}
			return code(err), nil
		}
		if err == nil {
			known[stored(op.id)] = true
			return 0, res
		}
		return code(err), nil
	}
	next := func(subscribed bool) *t4op {
		id := ids[r.Intn(len(ids))]
		var cur proto.Message
		if m, ok := coll.Get(id); ok {
			cur = m
		}
		var op *t4op
		switch k := r.Intn(10); {
		case k < 5:
			op = &t4op{kind: 0, id: id, msg: g.anyMsg(), o: g.wopts4(false, cur)}
			if subscribed && r.Chance(35) {
				if wo := g.maskedOutWrite(ro); wo != nil {
					op.o = wo
					tags = append(tags, "masked-out-write")
				}
			}
		case k < 7:
			op = &t4op{kind: 1, id: id, msg: g.anyMsg(), o: g.wopts4(false, cur)}
			op.o.create, op.o.expectAbsent = false, false
		default:
			op = &t4op{kind: 2, id: id, o: g.wopts4(true, cur)}
		}
		if r.Chance(12) {
			op.o.xtime = g.boundaryTime()
			tags = append(tags, "boundary-write-time")
		}
		return op
	}
	var before, after []*t4op
	for i := []int{0, 1, 3, 6}[r.Intn(4)]; i > 0; i-- {
		op := next(false)
		exec(op)
		before = append(before, op)
	}
	ctx, cancel := context.WithCancel(context.Background())
	defer cancel()
	ch := coll.Pull(ctx, ro.opts(g.proto(), true)...)
	type ev struct {
		id         string
		t          string
		kind       int64
		old, new_  proto.Message
		seed, last bool
	}
	var got []ev
	done := make(chan struct{})
	go func() {
		defer close(done)
		for c := range ch {
			got = append(got, ev{c.Id, exactNanos(c.ChangeTime), kindCode(c.ChangeType), c.OldValue, c.NewValue, c.SeedValue, c.LastSeedValue})
		}
	}()
	var codes []int64
	var resCoq []string
	okW := 0
	for i := r.Range(1, 9); i > 0; i-- {
		op := next(true)
		c, res := exec(op)
		codes = append(codes, c)
		rc, _ := optVal(res, res != nil)
		resCoq = append(resCoq, rc)
		after = append(after, op)
		if c == 0 {
			okW++
		}
	}
	// final listing with the subscription's read mask; ids recovered by probing Get over the known keys
	msgs := coll.List(ro.opts(g.proto(), false)...)
	var keys []string
	for k := range known {
		if _, ok := coll.Get(k); ok {
			keys = append(keys, k)
		}
	}
	sort.Strings(keys)
	var finCoq []string
	finJS := []any{}
	for i, m := range msgs {
		id := "?unknown"
		if i < len(keys) {
			id = keys[i]
		}
		finCoq = append(finCoq, vcoq.Pair(vcoq.Str(id), vmsg.Value(m)))
		finJS = append(finJS, []any{id, vmsg.JSON(m)})
	}
	if len(keys) != len(msgs) {
		finCoq = append(finCoq, vcoq.Pair(vcoq.Str("?count-mismatch"), "(VM [])"))
	}
	// barrier: two writes of an id no operation uses, then close
	bm := g.proto().ProtoReflect().New().Interface()
	coll.Update(barrierID, bm, resource.WithCreateIfAbsent(), resource.WithAllFieldsWritable())
	coll.Update(barrierID, bm, resource.WithCreateIfAbsent(), resource.WithAllFieldsWritable())
	cancel()
	<-done
	var evCoq []string
	evJS := []any{}
	for _, c := range got {
		if c.id == stored(barrierID) {
			break
		}
		oc, oj := optVal(c.old, c.old != nil)
		nc, nj := optVal(c.new_, c.new_ != nil)
		evCoq = append(evCoq, vcoq.App("mkTOC", vcoq.Str(c.id), coqBigZ(c.t), vcoq.Z(c.kind), oc, nc, vcoq.Bool(c.seed), vcoq.Bool(c.last)))
		evJS = append(evJS, map[string]any{"id": c.id, "time": c.t, "kind": c.kind, "old": oj, "new": nj, "seed": c.seed, "last_seed": c.last})
	}
	if eq != nil {
		tags = append(tags, "equivalence")
	}
	if ro.mask != nil {
		tags = append(tags, "read-mask")
	}
	if ro.updatesOnly {
		tags = append(tags, "updates-only")
	}
	coq := vcoq.App("T4C", vmsg.TypeName(g.proto()), vmsg.Mask(g.resw), g.idf.coq(), eq.coq(), vcoq.List(recCoq),
		coqT4Ops(before), ro.coq(), coqT4Ops(after), vcoq.ListZ(codes), vcoq.List(resCoq), vcoq.List(evCoq), vcoq.List(finCoq))
	tags = append(tags, fmt.Sprintf("events=%d", min(len(evCoq), 6)))
	o.Add(vcoq.Case{Coq: coq, Key: coq, NonTrivial: len(evCoq) >= 2, Tags: tags,
		JSON: map[string]any{"kind": "tree-collection-pull", "type": string(g.proto().ProtoReflect().Descriptor().FullName()), "writable": vmsg.MaskJSON(g.resw),
			"id_interceptor": g.idf.coq(), "equivalence": eq.js(), "initial_records": recJS, "before": jsT4Ops(before), "read": ro.js(),
			"after": jsT4Ops(after), "after_codes": codes, "stream": evJS, "final_list": finJS}})
}

// ---------- value ----------

func (g *tgen) t4Value(o *vcoq.Out) {
	r := g.r
	clock := &fakeClock{}
	opts := g.resOpts(clock)
	eq := g.equiv()
	if eq != nil {
		opts = append(opts, eq.option())
	}
	ro := g.readOpts()
	tags := []string{"tree-value", "type:" + string(g.proto().ProtoReflect().Descriptor().Name())}
	var initial proto.Message
	if r.Chance(60) {
		initial = g.anyMsg()
		opts = append(opts, resource.WithInitialValue(proto.Clone(initial)))
	}
	val := resource.NewValue(opts...)
	type vop4 struct {
		msg proto.Message
		o   *two
	}
	opCoq := func(l []vop4) string {
		it := make([]string, len(l))
		for i, op := range l {
			it[i] = vcoq.App("TVSet", vmsg.Value(op.msg), op.o.coq())
		}
		return vcoq.List(it)
	}
	opJS := func(l []vop4) any {
		out := []any{}
		for _, op := range l {
			out = append(out, map[string]any{"op": "Set", "msg": vmsg.JSON(op.msg), "opts": op.o.js()})
		}
		return out
	}
	next := func(subscribed bool) vop4 {
		cur := val.Get()
		if cur != nil && !cur.ProtoReflect().IsValid() {
			cur = nil
		}
		wo := g.wopts4(false, cur)
		wo.create, wo.createdCb, wo.expectAbsent = false, false, false
		if subscribed && r.Chance(35) {
			if m := g.maskedOutWrite(ro); m != nil {
				m.create = false
				wo = m
				tags = append(tags, "masked-out-write")
			}
		}
		if r.Chance(12) {
			wo.xtime = g.boundaryTime()
			tags = append(tags, "boundary-write-time")
		}
		return vop4{g.anyMsg(), wo}
	}
	exec := func(op vop4) (int64, proto.Message) {
		created := 0
		res, err := val.Set(proto.Clone(op.msg), op.o.opts(&created)...)
		if err != nil {
			return code(err), nil
		}
		return 0, res
	}
	var before, after []vop4
	for i := []int{0, 1, 3}[r.Intn(3)]; i > 0; i-- {
		op := next(false)
		exec(op)
		before = append(before, op)
	}
	ctx, cancel := context.WithCancel(context.Background())
	defer cancel()
	ch := val.Pull(ctx, ro.opts(g.proto(), true)...)
	type ev struct {
		v          proto.Message
		t          string
		seed, last bool
	}
	var got []ev
	done := make(chan struct{})
	go func() {
		defer close(done)
		for c := range ch {
			got = append(got, ev{c.Value, exactNanos(c.ChangeTime), c.SeedValue, c.LastSeedValue})
		}
	}()
	var codes []int64
	var resCoq []string
	for i := r.Range(1, 8); i > 0; i-- {
		op := next(true)
		c, res := exec(op)
		codes = append(codes, c)
		rc, _ := optVal(res, res != nil)
		resCoq = append(resCoq, rc)
		after = append(after, op)
	}
	fin := val.Get(ro.opts(g.proto(), false)...)
	finCoq, finJS := optVal(fin, fin != nil && fin.ProtoReflect().IsValid())
	// barrier: two writes stamped with a write time no other write uses, then close
	bt := time.Unix(0, barrierNanos)
	val.Set(g.anyMsg(), resource.WithAllFieldsWritable(), resource.WithWriteTime(bt))
	val.Set(g.anyMsg(), resource.WithAllFieldsWritable(), resource.WithWriteTime(bt))
	cancel()
	<-done
	var evCoq []string
	evJS := []any{}
	for _, c := range got {
		if c.t == fmt.Sprint(barrierNanos) {
			break
		}
		evCoq = append(evCoq, vcoq.App("mkTOV", vmsg.Value(c.v), coqBigZ(c.t), vcoq.Bool(c.seed), vcoq.Bool(c.last)))
		evJS = append(evJS, map[string]any{"value": vmsg.JSON(c.v), "time": c.t, "seed": c.seed, "last_seed": c.last})
	}
	if eq != nil {
		tags = append(tags, "equivalence")
	}
	if ro.mask != nil {
		tags = append(tags, "read-mask")
	}
	if ro.updatesOnly {
		tags = append(tags, "updates-only")
	}
	ini, _ := optVal(initial, initial != nil)
	coq := vcoq.App("T4V", vmsg.TypeName(g.proto()), vmsg.Mask(g.resw), ini, eq.coq(), opCoq(before), ro.coq(), opCoq(after),
		vcoq.ListZ(codes), vcoq.List(resCoq), vcoq.List(evCoq), finCoq)
	o.Add(vcoq.Case{Coq: coq, Key: coq, NonTrivial: len(evCoq) >= 2, Tags: tags,
		JSON: map[string]any{"kind": "tree-value-pull", "type": string(g.proto().ProtoReflect().Descriptor().FullName()), "writable": vmsg.MaskJSON(g.resw),
			"initial": vmsg.JSON(initial), "equivalence": eq.js(), "before": opJS(before), "read": ro.js(), "after": opJS(after),
			"after_codes": codes, "stream": evJS, "final_get": finJS}})
}

var t4types = []proto.Message{nil, nil, nil, &traits.Brightness{}, &traits.AirTemperature{}, &traits.ElectricMode{}, &traits.OnOff{}, &traits.EnergyLevel{}}

func genC04T(o *vcoq.Out, r *vcoq.Rand, tier string) error {
	o.Header, o.CaseType, o.Judge, o.Shard = tree04Header, "t4case", "judge04t", 10
	o.Rule = "backpressured Pull of a Value / Collection holding FULL messages (TestAllTypes: nested messages, oneofs, optional scalars, lists, maps; trait messages Brightness, AirTemperature, ElectricMode, OnOff, EnergyLevel) x nested read masks (WithReadMask / WithReadPaths, incl. the empty mask) x updates-only x equivalence (none, WithNoDuplicates, WithMessageEquivalence(cmp.Equal()), WithEquivalence(projection onto paths)) x initial contents (WithInitialRecord / WithInitialValue, writes before subscribing) x resource writable fields x id interceptor; writes with nested update / reset / extra-writable masks, expected values, checks, interceptors, explicit write times incl. zero time / epoch / far future, and writes that change only what lies outside the read mask; every field of every event, the final List / Get. Non-trivial: at least 2 events. Distinct by full term."
	g := &tgen{r: r}
	n := 240
	if tier == "thorough" {
		n = 2500
	}
	for i := 0; i < n; i++ {
		g.resw, g.idf = nil, nil
		g.pt = t4types[r.Intn(len(t4types))]
		if r.Chance(20) {
			g.resw = g.mask(false)
		}
		if r.Chance(20) {
			g.idf = &idf{lower: true}
		}
		if i%3 == 0 {
			g.t4Value(o)
		} else {
			g.t4Collection(o)
		}
	}
	return nil
}
