package main

// C04 / C08 with an EQUIVALENCE configured on the collection (Collection.Pull's held map, /repo
// 3a50d70) — generators C04H and C08H, judge Resource/HeldJudge.v.
//
//   equivalence {none, no-duplicates, one field} x include predicate {none, field >= k, its negation,
//   id in set, true-on-absent} x read mask x {seeded, updates-only} x {backpressure, lossy}, over
//   1-3 ids and scripted per-id histories built from the steps
//       delete, re-add EQUIVALENT to what the item was, re-add different,
//       leave the include filter, re-enter with a value EQUIVALENT to the one last sent, re-enter different,
//       update equivalent / different / identical.
//
// With backpressure the delivery is settled after EVERY scripted write (a write to the id "~" made
// from a goroutine while this goroutine receives: when that second call has returned, the Pull
// goroutine has finished with the first) and List with the subscription's own options is taken: the
// judge folds the stream prefix and compares it with that listing up to the equivalence, id by id
// — "an item present in List is present in the fold" at every point of the history, not only at
// its end.  Every field of every event is compared with the model (pull_collection_held).
// Without backpressure the reader stalls during bursts, a final ADD of the fresh id "~" ends the
// drain, and the oracle alone judges (fold = List up to the equivalence, nothing delivered that is
// equivalent to what the subscriber holds).

import (
	"context"
	"fmt"
	"time"

	"github.com/smart-core-os/sc-golang/pkg/resource"
	"github.com/smart-core-os/sc-golang/verifharness/vcoq"
	"github.com/smart-core-os/sc-golang/verifharness/vh"
	"google.golang.org/protobuf/proto"
)

const heldHeader = "From SC Require Import Base.Prelude Resource.Impl Resource.Spec Resource.Pull Resource.Flat Resource.Judge Resource.HeldJudge."
const settleID = "~"

func init() {
	vh.Register("C04H", func(o *vcoq.Out, r *vcoq.Rand, tier string) error { return genHeld(o, r, tier, "judge04h") })
	vh.Register("C08H", func(o *vcoq.Out, r *vcoq.Rand, tier string) error { return genHeld(o, r, tier, "judge08h") })
}

func (e *eqv) same(x, y fmsg) bool {
	if e == nil || e.all {
		return x == y
	}
	return getF(toProto(x), e.f) == getF(toProto(y), e.f)
}

type heldMark struct {
	n    int
	list []kv
}

type heldStep struct {
	op   *fop
	code int64
	mark *heldMark
	what string
}

// heldScenario: the configuration and the scripted history
type heldScenario struct {
	eq     *eqv
	ro     fro
	lossy  bool
	before []*fop
	script []heldStep
}

func (g *gen) smallMsg() fmsg {
	return fmsg{int64(g.r.Intn(4)), int64(g.r.Intn(4)), int64(g.r.Intn(4))}
}

func (g *gen) heldPred(forInclude bool) *pred {
	r := g.r
	var p *pred
	switch k := r.Intn(10); {
	case k < 6:
		p = &pred{kind: 2, f: fld(r.Intn(3)), k: int64(r.Range(1, 3))}
	case k < 8:
		p = &pred{kind: 3, sub: &pred{kind: 2, f: fld(r.Intn(3)), k: int64(r.Range(1, 3))}}
	case k < 9:
		ids := []string{settleID}
		for _, id := range []string{"a", "b", "c"} {
			if r.Chance(60) {
				ids = append(ids, id)
			}
		}
		p = &pred{kind: 1, ids: ids}
	default:
		p = &pred{kind: 0}
	}
	if r.Chance(12) {
		p = &pred{kind: 4, sub: p}
	}
	return p
}

// variant: a value equivalent to v under eq (identical for no-duplicates / no equivalence; for a
// one-field equivalence the other fields are redrawn), accepted by the predicate when acc is true
// and rejected when it is false, if such a value is found in a few draws
func (g *gen) variant(eq *eqv, v fmsg, id string, inc *pred, acc bool) (fmsg, bool) {
	for try := 0; try < 12; try++ {
		c := v
		if eq != nil && !eq.all && try < 11 {
			c = g.smallMsg()
			switch eq.f {
			case fa:
				c.a = v.a
			case fb:
				c.b = v.b
			default:
				c.c = v.c
			}
		}
		if inc == nil || inc.eval(id, toProto(c)) == acc {
			return c, true
		}
	}
	return v, false
}

func (g *gen) drawWith(id string, inc *pred, acc bool) (fmsg, bool) {
	for try := 0; try < 16; try++ {
		c := g.smallMsg()
		if inc == nil || inc.eval(id, toProto(c)) == acc {
			return c, true
		}
	}
	return fmsg{}, false
}

func (g *gen) heldScenario(alwaysInclude bool) *heldScenario {
	r := g.r
	g.hasW, g.writable, g.idf, g.lastGen = false, nil, nil, nil
	sc := &heldScenario{}
	switch k := r.Intn(10); {
	case k < 1:
		sc.eq = nil
	case k < 6:
		sc.eq = &eqv{all: true}
	default:
		sc.eq = &eqv{f: fld(r.Intn(3))}
	}
	if alwaysInclude || r.Chance(55) {
		sc.ro.include = g.heldPred(true)
	}
	if r.Chance(35) {
		all := []fld{fa, fb, fc}
		k := r.Intn(3)
		if r.Bool() {
			sc.ro.hasMask, sc.ro.mask = true, []fld{all[k]}
		} else {
			sc.ro.hasMask, sc.ro.mask = true, []fld{all[(k+1)%3], all[(k+2)%3]}
		}
		if sc.eq != nil && !sc.eq.all && r.Chance(70) { // mostly keep the compared field visible
			seen := false
			for _, f := range sc.ro.mask {
				seen = seen || f == sc.eq.f
			}
			if !seen {
				sc.ro.mask = append(sc.ro.mask, sc.eq.f)
			}
		}
	}
	sc.ro.updatesOnly = r.Chance(10)
	sc.lossy = r.Chance(30)
	inc := sc.ro.include

	ids := []string{"a", "b", "c"}[:r.Range(1, 3)]
	cur := map[string]*fmsg{}    // stored value
	was := map[string]fmsg{}     // the value the id last had (survives a delete)
	lastIn := map[string]fmsg{}  // the value last visible through the filter
	hasIn := map[string]bool{}
	put := func(list *[]heldStep, id string, v fmsg, add bool, what string) {
		k := 2
		if add {
			k = 3
		}
		*list = append(*list, heldStep{op: &fop{kind: k, id: id, msg: v, o: &fwo{create: !add}, cands: nil}, what: what})
		c := v
		cur[id], was[id] = &c, v
		if inc == nil || inc.eval(id, toProto(v)) {
			lastIn[id], hasIn[id] = v, true
		}
	}
	// initial contents
	var pre []heldStep
	for _, id := range ids {
		if r.Chance(65) {
			v, ok := g.drawWith(id, inc, r.Chance(75))
			if !ok {
				v = g.smallMsg()
			}
			put(&pre, id, v, false, "init")
		}
	}
	for _, s := range pre {
		sc.before = append(sc.before, s.op)
	}
	n := r.Range(3, 9)
	for i := 0; i < n; i++ {
		id := ids[r.Intn(len(ids))]
		c := cur[id]
		in := c != nil && (inc == nil || inc.eval(id, toProto(*c)))
		switch {
		case c == nil: // absent: re-add
			_, known := was[id]
			if known && r.Chance(55) {
				base := was[id]
				if hasIn[id] && r.Bool() {
					base = lastIn[id]
				}
				v, _ := g.variant(sc.eq, base, id, inc, true)
				put(&sc.script, id, v, r.Bool(), "re-add-equivalent")
			} else {
				put(&sc.script, id, g.smallMsg(), r.Bool(), "add-different")
			}
		case !in: // stored but outside the filter
			switch k := r.Intn(10); {
			case k < 5 && hasIn[id]:
				v, ok := g.variant(sc.eq, lastIn[id], id, inc, true)
				if ok {
					put(&sc.script, id, v, false, "re-enter-equivalent")
				} else {
					put(&sc.script, id, g.smallMsg(), false, "update-outside")
				}
			case k < 8:
				v, ok := g.drawWith(id, inc, true)
				if !ok {
					v = g.smallMsg()
				}
				put(&sc.script, id, v, false, "re-enter-different")
			case k < 9:
				v, _ := g.drawWith(id, inc, false)
				put(&sc.script, id, v, false, "update-outside")
			default:
				sc.script = append(sc.script, heldStep{op: &fop{kind: 4, id: id, o: &fwo{}}, what: "delete-outside"})
				cur[id] = nil
			}
		default: // visible
			switch k := r.Intn(12); {
			case k < 3:
				sc.script = append(sc.script, heldStep{op: &fop{kind: 4, id: id, o: &fwo{}}, what: "delete"})
				cur[id] = nil
			case k < 6 && inc != nil:
				v, ok := g.drawWith(id, inc, false)
				if ok {
					put(&sc.script, id, v, false, "leave-filter")
				} else {
					put(&sc.script, id, g.smallMsg(), false, "update-different")
				}
			case k < 8:
				v, _ := g.variant(sc.eq, *c, id, inc, true)
				put(&sc.script, id, v, false, "update-equivalent")
			case k < 9:
				put(&sc.script, id, *c, false, "update-identical")
			default:
				put(&sc.script, id, g.smallMsg(), false, "update-different")
			}
		}
	}
	return sc
}

func toOChange(c *resource.CollectionChange) ochange {
	return ochange{id: c.Id, tx: exactNanos(c.ChangeTime), kind: kindCode(c.ChangeType), old: fromProto(c.OldValue), new_: fromProto(c.NewValue), seed: c.SeedValue, last: c.LastSeedValue}
}

func execCode(w *world, op *fop) int64 {
	ob := w.exec(op)
	m := ob.js.(map[string]any)
	c := m["code"].(int64)
	if op.kind == 4 && c == 0 && m["result"] == nil {
		c = -1
	}
	return c
}

// runHeld executes the scenario and emits the case
func (g *gen) runHeld(o *vcoq.Out, sc *heldScenario) {
	w := g.newWorld(sc.eq)
	ctx, cancel := context.WithCancel(context.Background())
	defer cancel()
	for _, op := range sc.before {
		w.exec(op)
	}
	inc := sc.ro.include
	var after []heldStep
	var got []ochange
	var final []kv
	nset := int64(10)
	settleOp := func() *fop {
		nset++
		return &fop{kind: 2, id: settleID, msg: fmsg{nset, nset, nset}, o: &fwo{create: true}, cands: nil}
	}
	gaveUp := ""
	if !sc.lossy {
		ch := w.coll.Pull(ctx, sc.ro.opts(true)...)
		// perform f in a goroutine while receiving; false if the channel closed or nothing moved for 20 s
		during := func(f func()) bool {
			done := make(chan struct{})
			go func() { defer close(done); f() }()
			timer := time.NewTimer(20 * time.Second)
			defer timer.Stop()
			for {
				select {
				case c, ok := <-ch:
					if !ok {
						<-done
						return false
					}
					got = append(got, toOChange(c))
				case <-done:
					return true
				case <-timer.C:
					return false
				}
			}
		}
		for _, st := range sc.script {
			st := st
			so := settleOp()
			var c1, c2 int64
			if !during(func() { c1 = execCode(w, st.op); c2 = execCode(w, so) }) {
				gaveUp = "a write did not return within 20 s while the subscriber was receiving"
				break
			}
			st.code = c1
			after = append(after, st)
			after = append(after, heldStep{op: so, code: c2, what: "settle", mark: &heldMark{n: len(got), list: w.list(sc.ro)}})
		}
		final = w.list(sc.ro)
		if gaveUp == "" {
			// flush: after the second barrier write has returned the Pull goroutine is done with everything before the first
			during(func() {
				w.coll.Update(barrierID, toProto(fmsg{1000, 1000, 1000}), resource.WithCreateIfAbsent())
				w.coll.Update(barrierID, toProto(fmsg{1001, 1001, 1001}), resource.WithCreateIfAbsent())
			})
		}
		cancel()
		for c := range ch {
			got = append(got, toOChange(c))
		}
		var stream []ochange
		for _, c := range got {
			if c.id == barrierID {
				break
			}
			stream = append(stream, c)
		}
		got = stream
	} else {
		opts := sc.ro.opts(false)
		opts = append(opts, resource.WithBackpressure(false), resource.WithUpdatesOnly(sc.ro.updatesOnly))
		ch := w.coll.Pull(ctx, opts...)
		// the seed is sent before anything else: take it in (the writes below must come after the subscription's seed)
		recvUntilQuiet := func(d time.Duration) {
			for {
				select {
				case c, ok := <-ch:
					if !ok {
						return
					}
					got = append(got, toOChange(c))
				case <-time.After(d):
					return
				}
			}
		}
		i := 0
		for i < len(sc.script) {
			burst := 1
			if g.r.Chance(50) {
				burst = g.r.Range(2, 4)
			}
			for k := 0; k < burst && i < len(sc.script); k++ {
				st := sc.script[i]
				st.code = execCode(w, st.op)
				after = append(after, st)
				i++
			}
			if g.r.Chance(60) {
				recvUntilQuiet(2 * time.Millisecond)
			}
		}
		// a fresh id, accepted by the predicate: its ADD cannot be suppressed or merged away and ends the drain
		var bv *fmsg
		for _, c := range []fmsg{{50, 50, 50}, {0, 0, 0}, {50, 0, 0}, {0, 50, 0}, {0, 0, 50}, {0, 50, 50}, {50, 0, 50}, {50, 50, 0}} {
			if inc == nil || inc.eval(settleID, toProto(c)) {
				c := c
				bv = &c
				break
			}
		}
		if bv == nil {
			return // no value of the fresh id passes this predicate: scenario not executable without backpressure
		}
		bop := &fop{kind: 3, id: settleID, msg: *bv, o: &fwo{}, cands: nil}
		after = append(after, heldStep{op: bop, code: execCode(w, bop), what: "final-add"})
		final = w.list(sc.ro)
		deadline := time.After(20 * time.Second)
		seen := false
		for !seen {
			select {
			case c, ok := <-ch:
				if !ok {
					seen = true
					gaveUp = "the subscription channel closed before the final ADD arrived"
					break
				}
				oc := toOChange(c)
				got = append(got, oc)
				if oc.id == settleID {
					seen = true
				}
			case <-deadline:
				seen = true
				gaveUp = "the ADD of a fresh id accepted by the include predicate was not delivered within 20 s of the last write (no backpressure)"
			}
		}
		cancel()
		for range ch {
		}
	}
	mode := "backpressure"
	if sc.lossy {
		mode = "lossy"
	}
	jsAfter := []any{}
	items := make([]string, len(after))
	whats := map[string]bool{}
	for i, st := range after {
		mark := "None"
		j := st.op.js()
		j["code"] = st.code
		j["step"] = st.what
		if st.mark != nil {
			mark = vcoq.Some(vcoq.Pair(vcoq.Int(st.mark.n), coqKVs(st.mark.list)))
			j["received_so_far"] = st.mark.n
			j["list_now"] = jsKVs(st.mark.list)
		}
		items[i] = vcoq.Pair(vcoq.Pair(st.op.coq(), vcoq.Z(st.code)), mark)
		jsAfter = append(jsAfter, j)
		whats[st.what] = true
	}
	it := make([]string, len(got))
	js := []any{}
	for i, c := range got {
		it[i] = coqOChange(c)
		js = append(js, jsOChange(c))
	}
	replay := map[string]any{"kind": "collection-pull-held", "delivery": mode, "equivalence": sc.eq.coq(), "before": jsOps(sc.before), "read": sc.ro.js(),
		"after": jsAfter, "stream": js, "final_list": jsKVs(final)}
	if gaveUp != "" {
		o.Directs = append(o.Directs, vcoq.Direct{What: "Collection.Pull with an equivalence: " + gaveUp, Class: "held-delivery-stuck", Replay: replay})
		return
	}
	coq := vcoq.App("CaseH", sc.eq.coq(), coqOps(sc.before), sc.ro.coq(), vcoq.Bool(sc.lossy), vcoq.List(items), vcoq.List(it), coqKVs(final))
	tags := []string{"delivery:" + mode, fmt.Sprintf("events=%d", min(len(got), 6))}
	if sc.eq == nil {
		tags = append(tags, "equivalence:none")
	} else if sc.eq.all {
		tags = append(tags, "equivalence:no-duplicates")
	} else {
		tags = append(tags, "equivalence:field")
	}
	if inc != nil {
		tags = append(tags, "include")
	}
	if sc.ro.hasMask {
		tags = append(tags, "read-mask")
	}
	if sc.ro.updatesOnly {
		tags = append(tags, "updates-only")
	}
	for k := range whats {
		if k != "settle" && k != "final-add" {
			tags = append(tags, "step:"+k)
		}
	}
	o.Add(vcoq.Case{Coq: coq, Key: coq, NonTrivial: len(got) >= 2, Tags: tags, JSON: replay})
}

func genHeld(o *vcoq.Out, r *vcoq.Rand, tier string, judge string) error {
	o.Header, o.CaseType, o.Judge, o.Shard = heldHeader, "hcase", judge, 25
	o.Rule = "Collection.Pull on a collection WITH an equivalence (none / WithNoDuplicates / equality of one field) x include predicate (none, field >= k, its negation, id in set, true-on-absent) x read mask x seeded / updates-only x backpressure / no backpressure, over 1-3 ids with scripted per-id histories made of: delete, re-add equivalent to what the item was, re-add different, leave the include filter, re-enter with a value equivalent to the one last sent, re-enter different, update equivalent / identical / different. With backpressure delivery is settled after EVERY write and List with the same options taken: every field of every event is compared with the held-map model and the fold of the stream received so far with that List up to the equivalence, id by id; without backpressure the reader stalls during bursts and the final fold is compared. Non-trivial: at least 2 events. Distinct by full term."
	g := &gen{r: r}
	n := 260
	if tier == "thorough" {
		n = 4000
	}
	for i := 0; i < n; i++ {
		sc := g.heldScenario(judge == "judge08h")
		g.runHeld(o, sc)
	}
	return nil
}

var _ = proto.Equal
