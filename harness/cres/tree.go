package main

// Generator C01T: the same sequential store properties as C01, but with FULL messages
// (testproto.TestAllTypes with nested messages, oneofs, lists, maps) and nested update / reset /
// writable / read masks, compared in Coq with the resource models instantiated with the message
// algebra of Msg/ and Masks/ (Resource/Tree.v).

import (
	"fmt"
	"math"
	"sort"
	"time"

	"github.com/smart-core-os/sc-api/go/types"
	"google.golang.org/protobuf/types/known/durationpb"

	"github.com/smart-core-os/sc-golang/internal/testproto"
	"github.com/smart-core-os/sc-golang/pkg/resource"
	"github.com/smart-core-os/sc-golang/verifharness/vcoq"
	"github.com/smart-core-os/sc-golang/verifharness/vh"
	"github.com/smart-core-os/sc-golang/verifharness/vmsg"
	"google.golang.org/grpc/codes"
	"google.golang.org/grpc/status"
	"google.golang.org/protobuf/proto"
	"google.golang.org/protobuf/types/known/fieldmaskpb"
)

func init() { vh.Register("C01T", genC01T) }

const treeHeader = "From SC Require Import Base.Prelude Msg.Msg Msg.Schema Msg.Path Masks.Get Masks.Update Resource.Impl Resource.Spec Resource.Flat Resource.Tree Resource.Tween Resource.TreeJudge.\nOpen Scope string_scope."

var tat = &testproto.TestAllTypes{}

type tgen struct {
	r    *vcoq.Rand
	resw *fieldmaskpb.FieldMask
	idf  *idf
	pt   proto.Message // message type of the resource (nil: TestAllTypes); used by the stream cases of tree04.go
}

func (g *tgen) msg() *testproto.TestAllTypes {
	cfg := vmsg.DefaultCfg
	cfg.FieldPct = 12
	return vmsg.RandMsg(g.r, tat, cfg).(*testproto.TestAllTypes)
}

// mask: mostly valid nested paths, sometimes parent+child, duplicates, or a corrupted path
func (g *tgen) mask(allowBad bool) *fieldmaskpb.FieldMask {
	md := g.proto().ProtoReflect().Descriptor()
	n := g.r.Range(0, 3)
	fm := &fieldmaskpb.FieldMask{Paths: []string{}}
	for i := 0; i < n; i++ {
		p := vmsg.ValidPath(g.r, md, 35, 2)
		if allowBad && g.r.Chance(6) {
			kinds := []vmsg.PathKind{vmsg.PathUnknown, vmsg.PathThroughScalar, vmsg.PathThroughMap, vmsg.PathThroughRepScalar}
			if q, ok := vmsg.CorruptPath(g.r, md, kinds[g.r.Intn(len(kinds))]); ok {
				p = q
			}
		}
		fm.Paths = append(fm.Paths, p)
	}
	// a handful of paths used often, so that masks relate to each other (parent / child / equal)
	common := []string{"default_int32", "default_string", "default_foreign_message", "default_foreign_message.c", "default_nested_message", "repeated_int32", "map_string_string", "oneof_default_int32", "optional_int32"}
	if g.pt != nil {
		common = nil
		fds := md.Fields()
		for i := 0; i < fds.Len(); i++ {
			common = append(common, string(fds.Get(i).Name()))
		}
	}
	if g.r.Chance(60) {
		fm.Paths = append(fm.Paths, common[g.r.Intn(len(common))])
	}
	if g.r.Chance(10) && len(fm.Paths) > 0 {
		fm.Paths = append(fm.Paths, fm.Paths[0])
	}
	return fm
}

type two struct {
	xtime               *time.Time // exact explicit write time (boundary times), overrides time
	time                *int64
	update, reset, more *fieldmaskpb.FieldMask
	allWritable         bool
	expected            proto.Message
	expectAbsent        bool
	check               *tchk
	allowMissing        bool
	before, after       *ticpt
	create, createdCb   bool
	viaPaths            bool // WithUpdatePaths / WithResetPaths / WithMoreWritablePaths instead of the mask variants
}
type ticpt struct {
	add bool
	k   int64
}
type tchk struct {
	k    int64
	code codes.Code
}

func (i *ticpt) coq() string {
	if i.add {
		return "(TAddOld \"default_int32\"%string)"
	}
	return vcoq.App("TSet", "\"default_int32\"%string", vcoq.Z(i.k))
}
func di32(m proto.Message) int64 {
	if t, ok := m.(*testproto.TestAllTypes); ok && t != nil {
		return int64(t.DefaultInt32)
	}
	return 0
}
func (i *ticpt) fn() resource.UpdateInterceptor {
	return func(old, target proto.Message) {
		t := target.(*testproto.TestAllTypes)
		if i.add {
			t.DefaultInt32 = int32(int64(t.DefaultInt32) + di32(old))
		} else {
			t.DefaultInt32 = int32(i.k)
		}
	}
}
func optCoq(present bool, s func() string) string {
	if !present {
		return "None"
	}
	return vcoq.Some(s())
}
func (o *two) coq() string {
	exp := "None"
	if o.expected != nil {
		exp = vcoq.Some(vmsg.Value(o.expected))
	}
	tm := vcoq.OptZ(o.time)
	if o.xtime != nil {
		tm = vcoq.Some(coqBigZ(exactNanos(*o.xtime)))
	}
	return vcoq.App("mkTWO", tm, vmsg.Mask(o.update), vmsg.Mask(o.reset), vmsg.Mask(o.more), vcoq.Bool(o.allWritable),
		exp, vcoq.Bool(o.expectAbsent),
		optCoq(o.check != nil, func() string {
			return vcoq.App("TCEq", "\"default_int32\"%string", vcoq.Z(o.check.k), vcoq.Z(int64(o.check.code)))
		}),
		vcoq.Bool(o.allowMissing),
		optCoq(o.before != nil, func() string { return o.before.coq() }), optCoq(o.after != nil, func() string { return o.after.coq() }),
		vcoq.Bool(o.create), vcoq.Bool(o.createdCb))
}
func (o *two) js() any {
	m := map[string]any{}
	if o.xtime != nil {
		m["write_time"] = exactNanos(*o.xtime) + " ns since the Unix epoch (" + o.xtime.UTC().Format(time.RFC3339Nano) + ")"
	} else if o.time != nil {
		m["write_time"] = *o.time
	}
	if o.update != nil {
		m["update_mask"] = vmsg.MaskJSON(o.update)
	}
	if o.reset != nil {
		m["reset_mask"] = vmsg.MaskJSON(o.reset)
	}
	if o.more != nil {
		m["more_writable"] = vmsg.MaskJSON(o.more)
	}
	if o.allWritable {
		m["all_writable"] = true
	}
	if o.expected != nil {
		m["expected"] = vmsg.JSON(o.expected)
	}
	if o.expectAbsent {
		m["expect_absent"] = true
	}
	if o.check != nil {
		m["check"] = fmt.Sprintf("default_int32 == %d else code %d", o.check.k, o.check.code)
	}
	if o.allowMissing {
		m["allow_missing"] = true
	}
	if o.before != nil {
		m["before"] = o.before.coq()
	}
	if o.after != nil {
		m["after"] = o.after.coq()
	}
	if o.create {
		m["create_if_absent"] = true
	}
	if o.createdCb {
		m["created_cb"] = true
	}
	return m
}
func (o *two) opts(created *int) []resource.WriteOption {
	var out []resource.WriteOption
	if o.xtime != nil {
		out = append(out, resource.WithWriteTime(*o.xtime))
	} else if o.time != nil {
		out = append(out, resource.WithWriteTime(time.Unix(0, *o.time)))
	}
	if o.viaPaths {
		if o.update != nil {
			out = append(out, resource.WithUpdatePaths(append([]string{}, o.update.Paths...)...))
		}
		if o.reset != nil {
			out = append(out, resource.WithResetPaths(append([]string{}, o.reset.Paths...)...))
		}
		if o.more != nil {
			out = append(out, resource.WithMoreWritablePaths(append([]string{}, o.more.Paths...)...))
		}
	} else {
		if o.update != nil {
			out = append(out, resource.WithUpdateMask(proto.Clone(o.update).(*fieldmaskpb.FieldMask)))
		}
		if o.reset != nil {
			out = append(out, resource.WithResetMask(proto.Clone(o.reset).(*fieldmaskpb.FieldMask)))
		}
		if o.more != nil {
			out = append(out, resource.WithMoreWritableFields(proto.Clone(o.more).(*fieldmaskpb.FieldMask)))
		}
	}
	if o.allWritable {
		out = append(out, resource.WithAllFieldsWritable())
	}
	if o.expected != nil {
		out = append(out, resource.WithExpectedValue(proto.Clone(o.expected)))
	}
	if o.expectAbsent {
		out = append(out, resource.WithExpectAbsent())
	}
	if o.check != nil {
		c := o.check
		out = append(out, resource.WithExpectedCheck(func(old proto.Message) error {
			if di32(old) != c.k {
				return status.Error(c.code, "check")
			}
			return nil
		}))
	}
	if o.allowMissing {
		out = append(out, resource.WithAllowMissing(true))
	}
	if o.before != nil {
		out = append(out, resource.InterceptBefore(o.before.fn()))
	}
	if o.after != nil {
		out = append(out, resource.InterceptAfter(o.after.fn()))
	}
	if o.create {
		out = append(out, resource.WithCreateIfAbsent())
	}
	if o.createdCb {
		out = append(out, resource.WithCreatedCallback(func() { *created++ }))
	}
	return out
}

func (g *tgen) wopts(forDelete bool, current *testproto.TestAllTypes) *two {
	o := &two{}
	r := g.r
	o.viaPaths = r.Chance(30)
	if r.Chance(20) {
		t := int64(r.Range(1, 9)) * 7
		o.time = &t
	}
	if !forDelete {
		if r.Chance(55) {
			o.update = g.mask(true)
		}
		if r.Chance(15) {
			o.reset = g.mask(true)
		}
		if r.Chance(15) {
			o.more = g.mask(false)
		}
		if r.Chance(8) {
			o.allWritable = true
		}
		if r.Chance(12) {
			o.before = &ticpt{add: r.Bool(), k: int64(r.Range(0, 5))}
		}
		if r.Chance(12) {
			o.after = &ticpt{add: r.Bool(), k: int64(r.Range(0, 5))}
		}
		if r.Chance(45) {
			o.create = true
		}
		if r.Chance(20) {
			o.createdCb = true
		}
		if r.Chance(8) {
			o.expectAbsent = true
		}
	} else if r.Chance(40) {
		o.allowMissing = true
	}
	if r.Chance(18) {
		if current != nil && r.Chance(60) {
			o.expected = proto.Clone(current).(*testproto.TestAllTypes)
		} else {
			o.expected = g.msg()
		}
	}
	if r.Chance(12) {
		k := int64(r.Range(0, 2))
		if current != nil && r.Chance(50) {
			k = int64(current.DefaultInt32)
		}
		o.check = &tchk{k: k, code: []codes.Code{codes.FailedPrecondition, codes.Aborted}[r.Intn(2)]}
	}
	return o
}

func optVal(m proto.Message, ok bool) (string, any) {
	if !ok || m == nil {
		return "None", nil
	}
	return vcoq.Some(vmsg.Value(m)), vmsg.JSON(m)
}
func maskOptPaths(fm *fieldmaskpb.FieldMask) string {
	if fm == nil {
		return "None"
	}
	return vcoq.Some(vmsg.Paths(fm.Paths))
}

func genC01T(o *vcoq.Out, r *vcoq.Rand, tier string) error {
	o.Header, o.CaseType, o.Judge, o.Shard = treeHeader, "tcase", "judge01t", 12
	o.Rule = "Value and Collection call sequences over full TestAllTypes messages (nested messages, oneofs, optional scalars, lists, maps) with nested update / reset / extra-writable / resource-writable / read masks (valid, parent+child, duplicate, unknown, through scalar/map/repeated), expected values, checks, delta interceptors, create-if-absent, id interceptor; every result, the following Get / List compared in Coq with the resource models instantiated with the message algebra of Msg/ and Masks/. Non-trivial: at least one successful and one failed write. Distinct by full term."
	g := &tgen{r: r}
	n := 180
	if tier == "thorough" {
		n = 2000
	}
	for i := 0; i < n; i++ {
		g.resw, g.idf = nil, nil
		if r.Chance(30) {
			g.resw = g.mask(false)
		}
		if r.Chance(20) {
			g.idf = &idf{lower: true}
		}
		if i%3 == 0 {
			g.valueCase(o)
		} else {
			g.collCase(o)
		}
	}
	g.tweenCases(o)
	return nil
}

// tweenCases: resource.ValidateTweenOnUpdate on tweens with boundary progress values (+0, -0, NaN,
// tiny, 1) and total durations around zero and around the int64-nanosecond overflow of AsDuration
func (g *tgen) tweenCases(o *vcoq.Out) {
	progress := []float32{0, float32(math.Copysign(0, -1)), float32(math.NaN()), 1e-45, 1, -1, 50}
	secs := []int64{0, 1, -1, 2, 9223372035, 9223372036, 9223372037, -9223372036, -9223372037, 315576000000, -315576000000, math.MaxInt64, math.MinInt64}
	nanos := []int32{0, 1, -1, 999999999, -999999999, 500, math.MaxInt32, math.MinInt32}
	add := func(t *types.Tween, desc string) {
		err := resource.ValidateTweenOnUpdate("brightness", t)
		coq := "None"
		if t != nil {
			d := "None"
			if t.TotalDuration != nil {
				d = vcoq.Some(vcoq.Pair(vcoq.Z(t.TotalDuration.Seconds), vcoq.Z(int64(t.TotalDuration.Nanos))))
			}
			coq = vcoq.Some(vcoq.App("mkTween", vcoq.Z(int64(math.Float32bits(t.Progress))), d))
		}
		c := vcoq.App("TCaseTween", coq, vcoq.Z(code(err)))
		o.Add(vcoq.Case{Coq: c, Key: c, NonTrivial: t != nil, Tags: []string{"tween-validation", fmt.Sprintf("tween:code=%d", code(err))},
			JSON: map[string]any{"kind": "ValidateTweenOnUpdate", "tween": desc, "code": code(err)}})
	}
	add(nil, "nil")
	for i := 0; i < 90; i++ {
		t := &types.Tween{Progress: progress[g.r.Intn(len(progress))]}
		if g.r.Chance(60) {
			t.Progress = 0
		}
		if g.r.Chance(85) {
			t.TotalDuration = &durationpb.Duration{Seconds: secs[g.r.Intn(len(secs))], Nanos: nanos[g.r.Intn(len(nanos))]}
		}
		add(t, fmt.Sprintf("progress bits %d, total_duration %v", math.Float32bits(t.Progress), t.TotalDuration))
	}
}

func (g *tgen) resOpts(clock *fakeClock) []resource.Option {
	opts := []resource.Option{resource.WithClock(clock)}
	if g.resw != nil {
		opts = append(opts, g.writableOpt())
	}
	if g.idf != nil {
		opts = append(opts, resource.WithIDInterceptor(g.idf.fn()))
	}
	return opts
}

// writableOpt: WithWritableFields, or WithWritablePaths (which validates the paths against the message
// type with fieldmaskpb.New and panics otherwise) when the paths are valid for it
func (g *tgen) writableOpt() resource.Option {
	if g.r.Chance(40) {
		if _, err := fieldmaskpb.New(g.proto(), g.resw.Paths...); err == nil {
			return resource.WithWritablePaths(g.proto(), append([]string{}, g.resw.Paths...)...)
		}
	}
	return resource.WithWritableFields(proto.Clone(g.resw).(*fieldmaskpb.FieldMask))
}

func (g *tgen) valueCase(o *vcoq.Out) {
	r := g.r
	var initial *testproto.TestAllTypes
	opts := g.resOpts(&fakeClock{})
	if r.Chance(60) {
		initial = g.msg()
		opts = append(opts, resource.WithInitialValue(proto.Clone(initial)))
	}
	val := resource.NewValue(opts...)
	var steps []string
	var js []any
	okW, failW := false, false
	tags := []string{"tree-value"}
	get := func(fm *fieldmaskpb.FieldMask) {
		var ro []resource.ReadOption
		if fm != nil {
			ro = append(ro, resource.WithReadMask(proto.Clone(fm).(*fieldmaskpb.FieldMask)))
		}
		res := val.Get(ro...)
		c, j := optVal(res, res != nil && res.ProtoReflect().IsValid())
		steps = append(steps, vcoq.Pair(vcoq.App("TVGet", maskOptPaths(fm)), vcoq.App("UVGet", c)))
		js = append(js, map[string]any{"op": "Get", "read_mask": vmsg.MaskJSON(fm), "got": j})
	}
	for i := r.Range(2, 8); i > 0; i-- {
		cur, _ := val.Get().(*testproto.TestAllTypes)
		msg := g.msg()
		wo := g.wopts(false, cur)
		wo.create, wo.createdCb, wo.expectAbsent = false, false, false
		created := 0
		res, err := val.Set(proto.Clone(msg), wo.opts(&created)...)
		c, j := optVal(res, err == nil)
		steps = append(steps, vcoq.Pair(vcoq.App("TVSet", vmsg.Value(msg), wo.coq()), vcoq.App("UVSet", c, vcoq.Z(code(err)))))
		js = append(js, map[string]any{"op": "Set", "msg": vmsg.JSON(msg), "opts": wo.js(), "code": code(err), "result": j})
		tags = append(tags, fmt.Sprintf("Set:code=%d", code(err)))
		if err == nil {
			okW = true
		} else {
			failW = true
		}
		get(nil)
		if r.Chance(35) {
			get(g.mask(true))
		}
	}
	ini, _ := optVal(initial, initial != nil)
	coq := vcoq.App("TCaseV", vmsg.TypeName(tat), vmsg.Mask(g.resw), ini, vcoq.List(steps))
	o.Add(vcoq.Case{Coq: coq, Key: coq, NonTrivial: okW && failW, Tags: tags,
		JSON: map[string]any{"kind": "tree-value", "writable": vmsg.MaskJSON(g.resw), "initial": vmsg.JSON(initial), "steps": js}})
}

func (g *tgen) collCase(o *vcoq.Out) {
	r := g.r
	clock := &fakeClock{frozen: true}
	copts := g.resOpts(clock)
	known := map[string]bool{}
	var recCoq []string
	recJS := []any{}
	if r.Chance(40) {
		// initial records given to the constructor; ids that the id interceptor family leaves alone
		for _, id := range []string{"b", "a", "c"}[:r.Range(1, 3)] {
			m := g.msg()
			copts = append(copts, resource.WithInitialRecord(id, proto.Clone(m)))
			recCoq = append(recCoq, vcoq.Pair(vcoq.Str(id), vmsg.Value(m)))
			recJS = append(recJS, []any{id, vmsg.JSON(m)})
			known[id] = true
		}
	}
	coll := resource.NewCollection(copts...)
	clock.frozen = false
	var steps []string
	var js []any
	okW, failW := false, false
	tags := []string{"tree-collection"}
	stored := func(id string) string {
		if g.idf != nil {
			return g.idf.fn()(id)
		}
		return id
	}
	list := func(fm *fieldmaskpb.FieldMask) {
		var ro []resource.ReadOption
		if fm != nil {
			ro = append(ro, resource.WithReadMask(proto.Clone(fm).(*fieldmaskpb.FieldMask)))
		}
		msgs := coll.List(ro...)
		var keys []string
		for k := range known {
			if _, ok := coll.Get(k); ok {
				keys = append(keys, k)
			}
		}
		sort.Strings(keys)
		it := []string{}
		jl := []any{}
		for i, m := range msgs {
			id := "?unknown"
			if i < len(keys) {
				id = keys[i]
			}
			it = append(it, vcoq.Pair(vcoq.Str(id), vmsg.Value(m)))
			jl = append(jl, []any{id, vmsg.JSON(m)})
		}
		if len(keys) != len(msgs) {
			it = append(it, vcoq.Pair(vcoq.Str("?count-mismatch"), "(VM [])"))
		}
		steps = append(steps, vcoq.Pair(vcoq.App("TList", maskOptPaths(fm)), vcoq.App("UList", vcoq.List(it))))
		js = append(js, map[string]any{"op": "List", "read_mask": vmsg.MaskJSON(fm), "list": jl})
	}
	ids := []string{"a", "b", "A"}
	list(nil)
	for i := r.Range(3, 9); i > 0; i-- {
		id := ids[r.Intn(len(ids))]
		var cur *testproto.TestAllTypes
		if m, ok := coll.Get(id); ok {
			cur, _ = m.(*testproto.TestAllTypes)
		}
		switch k := r.Intn(10); {
		case k < 7:
			msg := g.msg()
			wo := g.wopts(false, cur)
			created := 0
			add := k >= 5
			var res proto.Message
			var err error
			name := "TUpdate"
			if add {
				name = "TAdd"
				wo.create, wo.expectAbsent = false, false
				res, err = coll.Add(id, proto.Clone(msg), wo.opts(&created)...)
			} else {
				res, err = coll.Update(id, proto.Clone(msg), wo.opts(&created)...)
			}
			c, j := optVal(res, err == nil)
			steps = append(steps, vcoq.Pair(vcoq.App(name, vcoq.Str(id), vmsg.Value(msg), wo.coq()), vcoq.App("UWrite", c, vcoq.Z(code(err)), vcoq.Int(created))))
			js = append(js, map[string]any{"op": name[1:], "id": id, "msg": vmsg.JSON(msg), "opts": wo.js(), "code": code(err), "result": j, "created_callback": created})
			tags = append(tags, fmt.Sprintf("%s:code=%d", name[1:], code(err)))
			if err == nil {
				okW = true
				known[stored(id)] = true
			} else {
				failW = true
			}
		case k < 9:
			wo := g.wopts(true, cur)
			created := 0
			res, err := coll.Delete(id, wo.opts(&created)...)
			c, j := optVal(res, res != nil)
			steps = append(steps, vcoq.Pair(vcoq.App("TDelete", vcoq.Str(id), wo.coq()), vcoq.App("UDelete", c, vcoq.Z(code(err)))))
			js = append(js, map[string]any{"op": "Delete", "id": id, "opts": wo.js(), "code": code(err), "result": j})
			tags = append(tags, fmt.Sprintf("Delete:code=%d", code(err)))
			if err == nil {
				okW = true
			} else {
				failW = true
			}
		default:
			fm := g.mask(true)
			if r.Bool() {
				fm = nil
			}
			var ro []resource.ReadOption
			if fm != nil {
				ro = append(ro, resource.WithReadMask(proto.Clone(fm).(*fieldmaskpb.FieldMask)))
			}
			res, ok := coll.Get(id, ro...)
			c, j := optVal(res, ok)
			steps = append(steps, vcoq.Pair(vcoq.App("TGet", vcoq.Str(id), maskOptPaths(fm)), vcoq.App("UGet", c)))
			js = append(js, map[string]any{"op": "Get", "id": id, "read_mask": vmsg.MaskJSON(fm), "got": j})
			continue
		}
		list(nil)
	}
	if r.Chance(50) {
		list(g.mask(true))
	}
	coq := vcoq.App("TCaseC", vmsg.TypeName(tat), vmsg.Mask(g.resw), g.idf.coq(), vcoq.List(steps))
	if len(recCoq) > 0 {
		coq = vcoq.App("TCaseCR", vmsg.TypeName(tat), vmsg.Mask(g.resw), g.idf.coq(), vcoq.List(recCoq), vcoq.List(steps))
		tags = append(tags, "initial-records")
	}
	o.Add(vcoq.Case{Coq: coq, Key: coq, NonTrivial: okW && failW, Tags: tags,
		JSON: map[string]any{"kind": "tree-collection", "writable": vmsg.MaskJSON(g.resw), "id_interceptor": g.idf.coq(), "initial_records": recJS, "steps": js}})
}
