package main

import (
	"context"
	"strconv"
	"sync"

	"github.com/smart-core-os/sc-api/go/traits"
	typestime "github.com/smart-core-os/sc-api/go/types/time"
	"github.com/smart-core-os/sc-golang/pkg/trait/bookingpb"
	"github.com/smart-core-os/sc-golang/verifharness/vcoq"
	"google.golang.org/grpc"
	"google.golang.org/protobuf/types/known/timestamppb"
)

// fakePullBookings is the server side of a PullBookings stream that collects what is sent
type fakePullBookings struct {
	grpc.ServerStream
	ctx context.Context
	mu  *sync.Mutex
	got *[]ochange
}

func (f *fakePullBookings) Context() context.Context { return f.ctx }
func (f *fakePullBookings) Send(r *traits.PullBookingsResponse) error {
	f.mu.Lock()
	defer f.mu.Unlock()
	for _, c := range r.Changes {
		oc := ochange{t: 0, kind: kindCode(c.Type)}
		if c.OldValue != nil {
			oc.id = c.OldValue.Id
			oc.old = bookingVal(c.OldValue)
		}
		if c.NewValue != nil {
			oc.id = c.NewValue.Id
			oc.new_ = bookingVal(c.NewValue)
		}
		*f.got = append(*f.got, oc)
	}
	return nil
}

// a booking is observed as (version carried in its title, booked start seconds or -1, booked end seconds or -1)
func bookingVal(b *traits.Booking) *fmsg {
	v, _ := strconv.ParseInt(b.Title, 10, 64)
	m := &fmsg{a: v, b: -1, c: -1}
	if b.Booked != nil {
		if b.Booked.StartTime != nil {
			m.b = b.Booked.StartTime.Seconds
		}
		if b.Booked.EndTime != nil {
			m.c = b.Booked.EndTime.Seconds
		}
		if b.Booked.StartTime == nil && b.Booked.EndTime == nil {
			m.b, m.c = -2, -2 // an unbounded period, as opposed to no period
		}
	}
	return m
}

func (g *gen) period() *typestime.Period {
	r := g.r
	switch r.Intn(6) {
	case 0:
		return nil
	case 1:
		return &typestime.Period{}
	}
	p := &typestime.Period{}
	s := int64(r.Range(0, 8))
	e := s + int64(r.Range(0, 4)) // may be empty
	if r.Chance(85) {
		p.StartTime = &timestamppb.Timestamp{Seconds: s}
	}
	if r.Chance(85) {
		p.EndTime = &timestamppb.Timestamp{Seconds: e}
	}
	return p
}

// bookingCase: ListBookings and PullBookings of the booking model server with the same request
func (g *gen) bookingCase(o *vcoq.Out) {
	r := g.r
	model := bookingpb.NewModel()
	srv := bookingpb.NewModelServer(model)
	version := int64(0)
	var ids []string
	create := func() {
		version++
		b := &traits.Booking{Title: strconv.FormatInt(version, 10), Booked: g.period()}
		res, err := srv.CreateBooking(context.Background(), &traits.CreateBookingRequest{Name: "n", Booking: b})
		if err == nil {
			ids = append(ids, res.BookingId)
		}
	}
	update := func() {
		if len(ids) == 0 {
			return
		}
		version++
		b := &traits.Booking{Id: ids[r.Intn(len(ids))], Title: strconv.FormatInt(version, 10), Booked: g.period()}
		srv.UpdateBooking(context.Background(), &traits.UpdateBookingRequest{Name: "n", Booking: b})
	}
	for i := r.Range(0, 4); i > 0; i-- {
		create()
	}
	req := &traits.ListBookingsRequest{Name: "n", BookingIntersects: g.period()}
	ctx, cancel := context.WithCancel(context.Background())
	defer cancel()
	var mu sync.Mutex
	var got []ochange
	done := make(chan struct{})
	go func() {
		defer close(done)
		srv.PullBookings(req, &fakePullBookings{ctx: ctx, mu: &mu, got: &got})
	}()
	for i := r.Range(0, 10); i > 0; i-- {
		if r.Chance(35) {
			create()
		} else {
			update()
		}
	}
	list := func() []kv {
		res, err := srv.ListBookings(context.Background(), req)
		var out []kv
		if err != nil {
			return []kv{{"?list-error", fmsg{}}}
		}
		for _, b := range res.Bookings {
			out = append(out, kv{b.Id, *bookingVal(b)})
		}
		return out
	}
	stream, final := settle(&mu, &got, list)
	cancel()
	<-done
	it := make([]string, len(stream))
	sj := []any{}
	for i, c := range stream {
		it[i] = coqOChange(c)
		sj = append(sj, jsOChange(c))
	}
	coq := vcoq.App("CaseFold", vcoq.Str("booking"), vcoq.List(it), coqKVs(final))
	o.Add(vcoq.Case{Coq: coq, Key: coq, NonTrivial: len(stream) >= 2, Tags: []string{"booking-server"},
		JSON: map[string]any{"kind": "booking ListBookings vs folded PullBookings", "booking_intersects": jsPeriodB(req.BookingIntersects), "stream": sj, "final_list": jsKVs(final)}})
}

func jsPeriodB(p *typestime.Period) any {
	if p == nil {
		return nil
	}
	m := map[string]any{}
	if p.StartTime != nil {
		m["start"] = p.StartTime.Seconds
	}
	if p.EndTime != nil {
		m["end"] = p.EndTime.Seconds
	}
	return m
}
