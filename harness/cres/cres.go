// Command cres is the correspondence harness of the sequential store properties C01, C04, C08
// (and the resource-level clause of C16): it drives resource.Value / resource.Collection through
// generated call sequences over a three-field message and writes what it observed for the Coq side.
package main

import (
	"context"
	"encoding/base64"
	"fmt"
	"sort"
	"strings"
	"sync"
	"time"

	"github.com/smart-core-os/sc-api/go/types"
	"github.com/smart-core-os/sc-golang/internal/testproto"
	"github.com/smart-core-os/sc-golang/pkg/resource"
	"github.com/smart-core-os/sc-golang/verifharness/vcoq"
	"github.com/smart-core-os/sc-golang/verifharness/vh"
	"google.golang.org/grpc/codes"
	"google.golang.org/grpc/status"
	"google.golang.org/protobuf/proto"
	"google.golang.org/protobuf/types/known/fieldmaskpb"
)

func main() { vh.Main() }

func init() {
	vh.Register("C01", genC01)
	vh.Register("C04", genC04)
	vh.Register("C08", genC08)
}

const header = "From SC Require Import Base.Prelude Resource.Impl Resource.Spec Resource.Pull Resource.Flat Resource.Judge."

// ---------- the flat message ----------

type fmsg struct{ a, b, c int64 }

type fld int

const (
	fa fld = iota
	fb
	fc
	fbad
)

var fldCoq = []string{"Fa", "Fb", "Fc", "Fbad"}
var fldPath = []string{"default_int32", "default_int64", "default_uint32", "nope"}

func toProto(m fmsg) *testproto.TestAllTypes {
	return &testproto.TestAllTypes{DefaultInt32: int32(m.a), DefaultInt64: m.b, DefaultUint32: uint32(m.c)}
}
func fromProto(p proto.Message) *fmsg {
	if p == nil {
		return nil
	}
	t, ok := p.(*testproto.TestAllTypes)
	if !ok || t == nil {
		return nil
	}
	// any other populated field would be outside the flat algebra: report loudly
	chk := &testproto.TestAllTypes{DefaultInt32: t.DefaultInt32, DefaultInt64: t.DefaultInt64, DefaultUint32: t.DefaultUint32}
	if !proto.Equal(chk, t) {
		panic(fmt.Sprintf("message outside the flat algebra: %v", t))
	}
	return &fmsg{int64(t.DefaultInt32), t.DefaultInt64, int64(t.DefaultUint32)}
}
func getF(p proto.Message, f fld) int64 {
	m := fromProto(p)
	if m == nil {
		return 0
	}
	switch f {
	case fa:
		return m.a
	case fb:
		return m.b
	case fc:
		return m.c
	}
	return 0
}
func setF(p proto.Message, f fld, v int64) {
	t := p.(*testproto.TestAllTypes)
	switch f {
	case fa:
		t.DefaultInt32 = int32(v)
	case fb:
		t.DefaultInt64 = v
	case fc:
		t.DefaultUint32 = uint32(v)
	}
}
func coqMsg(m fmsg) string { return vcoq.App("mkF", vcoq.Z(m.a), vcoq.Z(m.b), vcoq.Z(m.c)) }
func coqOptMsg(m *fmsg) string {
	if m == nil {
		return "None"
	}
	return vcoq.Some(coqMsg(*m))
}
func jsMsg(m *fmsg) any {
	if m == nil {
		return nil
	}
	return []int64{m.a, m.b, m.c}
}
func coqFlds(l []fld) string {
	it := make([]string, len(l))
	for i, f := range l {
		it[i] = fldCoq[f]
	}
	return vcoq.List(it)
}
func coqOptFlds(l []fld, present bool) string {
	if !present {
		return "None"
	}
	return vcoq.Some(coqFlds(l))
}
func maskOf(l []fld) *fieldmaskpb.FieldMask {
	fm := &fieldmaskpb.FieldMask{Paths: []string{}}
	for _, f := range l {
		fm.Paths = append(fm.Paths, fldPath[f])
	}
	return fm
}
func jsFlds(l []fld, present bool) any {
	if !present {
		return nil
	}
	out := []string{}
	for _, f := range l {
		out = append(out, fldPath[f])
	}
	return out
}

// ---------- fake clock and rng ----------

type fakeClock struct {
	mu     sync.Mutex
	n      int64
	frozen bool // while set, readings repeat and are not counted (construction with initial records)
}

func (c *fakeClock) Now() time.Time {
	c.mu.Lock()
	defer c.mu.Unlock()
	t := time.Unix(0, 1000+10*c.n)
	if !c.frozen {
		c.n++
	}
	return t
}

// fakeRNG serves, for the current call, the prepared candidate byte strings in order
type fakeRNG struct {
	bufs [][]byte
	k    int
}

func (r *fakeRNG) Read(p []byte) (int, error) {
	if r.k < len(r.bufs) && len(r.bufs[r.k]) == len(p) {
		copy(p, r.bufs[r.k])
	} else {
		for i := range p {
			p[i] = byte(0x55 + r.k)
		}
	}
	r.k++
	return len(p), nil
}

// ---------- callback families ----------

type icpt struct {
	kind int // 0 IAddOld, 1 ISetField, 2 ICopyOld
	f    fld
	k    int64
}

func (i *icpt) coq() string {
	switch i.kind {
	case 0:
		return vcoq.App("IAddOld", fldCoq[i.f])
	case 1:
		return vcoq.App("ISetField", fldCoq[i.f], vcoq.Z(i.k))
	}
	return vcoq.App("ICopyOld", fldCoq[i.f])
}
func (i *icpt) fn() resource.UpdateInterceptor {
	return func(old, target proto.Message) {
		switch i.kind {
		case 0:
			setF(target, i.f, getF(target, i.f)+getF(old, i.f))
		case 1:
			setF(target, i.f, i.k)
		case 2:
			setF(target, i.f, getF(old, i.f))
		}
	}
}

type chk struct {
	kind int // 0 CEq, 1 CFail, 2 CPresent
	f    fld
	k    int64
	code codes.Code
}

func (c *chk) coq() string {
	switch c.kind {
	case 0:
		return vcoq.App("CEq", fldCoq[c.f], vcoq.Z(c.k), vcoq.Z(int64(c.code)))
	case 1:
		return vcoq.App("CFail", vcoq.Z(int64(c.code)))
	}
	return vcoq.App("CPresent", vcoq.Z(int64(c.code)))
}
func (c *chk) fn() func(proto.Message) error {
	return func(old proto.Message) error {
		switch c.kind {
		case 0:
			if getF(old, c.f) != c.k {
				return status.Error(c.code, "check")
			}
		case 1:
			return status.Error(c.code, "check")
		case 2:
			if fromProto(old) == nil {
				return status.Error(c.code, "check")
			}
		}
		return nil
	}
}

type idf struct {
	lower  bool
	prefix string
}

func (i *idf) coq() string {
	if i == nil {
		return "None"
	}
	if i.lower {
		return "(Some IdLower)"
	}
	return vcoq.Some(vcoq.App("IdPrefix", vcoq.Str(i.prefix)))
}
func (i *idf) fn() resource.IDInterceptor {
	return func(s string) string {
		if i.lower {
			return asciiLower(s)
		}
		return i.prefix + s
	}
}
func asciiLower(s string) string {
	b := []byte(s)
	for k, c := range b {
		if c >= 'A' && c <= 'Z' {
			b[k] = c + 32
		}
	}
	return string(b)
}

type pred struct {
	kind int // 0 PTrue 1 PIdIn 2 PFieldGe 3 PNot 4 PAbsentTrue
	ids  []string
	f    fld
	k    int64
	sub  *pred
}

func (p *pred) coq() string {
	switch p.kind {
	case 0:
		return "PTrue"
	case 1:
		it := make([]string, len(p.ids))
		for i, s := range p.ids {
			it[i] = vcoq.Str(s)
		}
		return vcoq.App("PIdIn", vcoq.List(it))
	case 2:
		return vcoq.App("PFieldGe", fldCoq[p.f], vcoq.Z(p.k))
	case 3:
		return vcoq.App("PNot", p.sub.coq())
	}
	return vcoq.App("PAbsentTrue", p.sub.coq())
}
func (p *pred) eval(id string, m proto.Message) bool {
	v := fromProto(m)
	switch p.kind {
	case 0:
		return true
	case 1:
		for _, s := range p.ids {
			if s == id {
				return true
			}
		}
		return false
	case 2:
		if v == nil {
			return false
		}
		return p.k <= getF(m, p.f)
	case 3:
		return !p.sub.eval(id, m)
	}
	if v == nil {
		return true
	}
	return p.sub.eval(id, m)
}

type eqv struct {
	all bool
	f   fld
}

func (e *eqv) coq() string {
	if e == nil {
		return "None"
	}
	if e.all {
		return "(Some EqAll)"
	}
	return vcoq.Some(vcoq.App("EqField", fldCoq[e.f]))
}
func (e *eqv) option() resource.Option {
	if e.all {
		return resource.WithNoDuplicates()
	}
	return resource.WithEquivalence(resource.ComparerFunc(func(x, y proto.Message) bool {
		mx, my := fromProto(x), fromProto(y)
		if mx == nil || my == nil {
			return mx == nil && my == nil
		}
		return getF(x, e.f) == getF(y, e.f)
	}))
}

// ---------- write options ----------

type fwo struct {
	time                           *int64
	update, reset, more            []fld
	hasUpdate, hasReset, hasMore   bool
	allWritable                    bool
	expected                       *fmsg
	expectAbsent                   bool
	check                          *chk
	allowMissing                   bool
	before, after                  *icpt
	create, createdCb, genID, idCb bool
	moreUpdate                     []fld
	hasMoreUpdate                  bool
	xtime                          *time.Time // an explicit write time given exactly (boundary times: c04extra.go); overrides time
	viaPaths                       bool       // pass the masks through the ...Paths variants of the options (same meaning)
}

func (o *fwo) coq() string {
	opt := func(present bool, s func() string) string {
		if !present {
			return "None"
		}
		return vcoq.Some(s())
	}
	return vcoq.App("mkFWO'",
		o.coqTime(),
		coqOptFlds(o.update, o.hasUpdate), coqOptFlds(o.reset, o.hasReset), coqOptFlds(o.more, o.hasMore),
		vcoq.Bool(o.allWritable), coqOptMsg(o.expected), vcoq.Bool(o.expectAbsent),
		opt(o.check != nil, func() string { return o.check.coq() }), vcoq.Bool(o.allowMissing),
		opt(o.before != nil, func() string { return o.before.coq() }),
		opt(o.after != nil, func() string { return o.after.coq() }),
		vcoq.Bool(o.create), vcoq.Bool(o.createdCb), vcoq.Bool(o.genID), vcoq.Bool(o.idCb), coqOptFlds(o.moreUpdate, o.hasMoreUpdate))
}
func (o *fwo) js() any {
	m := map[string]any{}
	if o.xtime != nil {
		m["write_time"] = exactNanos(*o.xtime) + " ns since the Unix epoch (" + o.xtime.UTC().Format(time.RFC3339Nano) + ")"
	} else if o.time != nil {
		m["write_time"] = *o.time
	}
	if o.hasUpdate {
		m["update_mask"] = jsFlds(o.update, true)
	}
	if o.hasReset {
		m["reset_mask"] = jsFlds(o.reset, true)
	}
	if o.hasMoreUpdate {
		m["more_update_mask"] = jsFlds(o.moreUpdate, true)
	}
	if o.hasMore {
		m["more_writable"] = jsFlds(o.more, true)
	}
	if o.allWritable {
		m["all_writable"] = true
	}
	if o.expected != nil {
		m["expected"] = jsMsg(o.expected)
	}
	if o.expectAbsent {
		m["expect_absent"] = true
	}
	if o.check != nil {
		m["check"] = o.check.coq()
	}
	if o.allowMissing {
		m["allow_missing"] = true
	}
	if o.before != nil {
		m["before"] = o.before.coq()
	}
	if o.after != nil {
		m["after"] = o.after.coq()
	}
	if o.create {
		m["create_if_absent"] = true
	}
	if o.createdCb {
		m["created_cb"] = true
	}
	if o.genID {
		m["gen_id"] = true
	}
	if o.idCb {
		m["id_cb"] = true
	}
	if o.viaPaths {
		m["masks_given_as"] = "With...Paths options"
	}
	return m
}

type cbLog struct {
	ids     []string
	created int
}

func (o *fwo) opts(cb *cbLog) []resource.WriteOption {
	var out []resource.WriteOption
	if o.xtime != nil {
		out = append(out, resource.WithWriteTime(*o.xtime))
	} else if o.time != nil {
		out = append(out, resource.WithWriteTime(time.Unix(0, *o.time)))
	}
	if o.viaPaths {
		// WithUpdatePaths / WithMoreUpdatePaths / WithResetPaths / WithMoreWritablePaths build the same masks
		if o.hasUpdate {
			out = append(out, resource.WithUpdatePaths(maskOf(o.update).Paths...))
		}
		if o.hasMoreUpdate {
			out = append(out, resource.WithMoreUpdatePaths(maskOf(o.moreUpdate).Paths...))
		}
		if o.hasReset {
			out = append(out, resource.WithResetPaths(maskOf(o.reset).Paths...))
		}
		if o.hasMore {
			out = append(out, resource.WithMoreWritablePaths(maskOf(o.more).Paths...))
		}
	} else {
		if o.hasUpdate {
			out = append(out, resource.WithUpdateMask(maskOf(o.update)))
		}
		if o.hasMoreUpdate {
			out = append(out, resource.WithMoreUpdateMask(maskOf(o.moreUpdate)))
		}
		if o.hasReset {
			out = append(out, resource.WithResetMask(maskOf(o.reset)))
		}
		if o.hasMore {
			out = append(out, resource.WithMoreWritableFields(maskOf(o.more)))
		}
	}
	if o.allWritable {
		out = append(out, resource.WithAllFieldsWritable())
	}
	if o.expected != nil {
		out = append(out, resource.WithExpectedValue(toProto(*o.expected)))
	}
	if o.expectAbsent {
		out = append(out, resource.WithExpectAbsent())
	}
	if o.check != nil {
		out = append(out, resource.WithExpectedCheck(o.check.fn()))
	}
	if o.allowMissing {
		out = append(out, resource.WithAllowMissing(true))
	}
	if o.before != nil {
		out = append(out, resource.InterceptBefore(o.before.fn()))
	}
	if o.after != nil {
		out = append(out, resource.InterceptAfter(o.after.fn()))
	}
	if o.create {
		out = append(out, resource.WithCreateIfAbsent())
	}
	if o.createdCb {
		out = append(out, resource.WithCreatedCallback(func() { cb.created++ }))
	}
	if o.genID {
		out = append(out, resource.WithGenIDIfAbsent())
	}
	if o.idCb {
		out = append(out, resource.WithIDCallback(func(id string) { cb.ids = append(cb.ids, id) }))
	}
	return out
}

// ---------- read options ----------

type fro struct {
	mask        []fld
	hasMask     bool
	updatesOnly bool
	include     *pred
}

func (r *fro) coq() string {
	inc := "None"
	if r.include != nil {
		inc = vcoq.Some(r.include.coq())
	}
	return vcoq.App("mkFRO", coqOptFlds(r.mask, r.hasMask), vcoq.Bool(r.updatesOnly), inc)
}
func (r *fro) opts(pull bool) []resource.ReadOption {
	var out []resource.ReadOption
	if r.hasMask {
		out = append(out, resource.WithReadMask(maskOf(r.mask)))
	}
	if r.include != nil {
		p := r.include
		out = append(out, resource.WithInclude(func(id string, m proto.Message) bool { return p.eval(id, m) }))
	}
	if pull {
		out = append(out, resource.WithBackpressure(true), resource.WithUpdatesOnly(r.updatesOnly))
	}
	return out
}
func (r *fro) js() any {
	m := map[string]any{"updates_only": r.updatesOnly}
	if r.hasMask {
		m["read_mask"] = jsFlds(r.mask, true)
	}
	if r.include != nil {
		m["include"] = r.include.coq()
	}
	return m
}

// ---------- operations ----------

type fop struct {
	kind  int // 0 Get 1 List 2 Update 3 Add 4 Delete
	id    string
	msg   fmsg
	o     *fwo
	cands [][]byte
	ro    fro // for Get / List
}

func candStrings(c [][]byte) []string {
	out := make([]string, len(c))
	for i, b := range c {
		out[i] = base64.RawURLEncoding.EncodeToString(b)
	}
	return out
}
func coqStrs(l []string) string {
	it := make([]string, len(l))
	for i, s := range l {
		it[i] = vcoq.Str(s)
	}
	return vcoq.List(it)
}
func (op *fop) coq() string {
	switch op.kind {
	case 0:
		return vcoq.App("FGet", vcoq.Str(op.id), coqOptFlds(op.ro.mask, op.ro.hasMask))
	case 1:
		inc := "None"
		if op.ro.include != nil {
			inc = vcoq.Some(op.ro.include.coq())
		}
		return vcoq.App("FList", coqOptFlds(op.ro.mask, op.ro.hasMask), inc)
	case 2:
		return vcoq.App("FUpdate", vcoq.Str(op.id), coqMsg(op.msg), op.o.coq(), coqStrs(candStrings(op.cands)))
	case 3:
		return vcoq.App("FAdd", vcoq.Str(op.id), coqMsg(op.msg), op.o.coq(), coqStrs(candStrings(op.cands)))
	}
	return vcoq.App("FDelete", vcoq.Str(op.id), op.o.coq())
}
func (op *fop) js() map[string]any {
	names := []string{"Get", "List", "Update", "Add", "Delete"}
	m := map[string]any{"op": names[op.kind]}
	switch op.kind {
	case 0:
		m["id"] = op.id
		m["read"] = op.ro.js()
	case 1:
		m["read"] = op.ro.js()
	case 2, 3:
		m["id"] = op.id
		m["msg"] = jsMsg(&op.msg)
		m["opts"] = op.o.js()
		if op.o.genID {
			m["rng_candidates"] = candStrings(op.cands)
		}
	case 4:
		m["id"] = op.id
		m["opts"] = op.o.js()
	}
	return m
}

func code(err error) int64 {
	if err == nil {
		return 0
	}
	return int64(status.Code(err))
}

type kv struct {
	id string
	m  fmsg
}

func coqKVs(l []kv) string {
	it := make([]string, len(l))
	for i, e := range l {
		it[i] = vcoq.Pair(vcoq.Str(e.id), coqMsg(e.m))
	}
	return vcoq.List(it)
}
func jsKVs(l []kv) any {
	out := []any{}
	for _, e := range l {
		out = append(out, []any{e.id, jsMsg(&e.m)})
	}
	return out
}

// the collection's List does not return ids; the harness recovers them by listing with the
// message's string field carrying nothing, so ids come from Get on every known id instead:
// List order is checked through a parallel list of ids obtained from a Pull seed? No: simpler and
// independent — every written message stores nothing about its id, so List is observed as the
// sequence of messages and ids are attached by matching Get(id) results over the ids ever used.
// To keep ids observable the harness stores each item's id in the message's default_string.
// (default_string is outside the flat algebra; it is written by an InterceptAfter-free path: the
// harness sets it on the message it writes and strips it when reading.)

type world struct {
	coll  *resource.Collection
	val   *resource.Value
	clock *fakeClock
	rng   *fakeRNG
	ids   map[string]bool // every id that may be a key (as stored)
	idf   *idf
}

// listObserved lists the collection and recovers the id of every entry by probing Get over the
// known key universe (keys as stored, i.e. after the id interceptor); entries are matched in
// List order, which is what is being checked.
func (w *world) list(ro fro) []kv {
	msgs := w.coll.List(ro.opts(false)...)
	// List is sorted by id; recover ids: take known stored keys sorted, filter by presence and by include
	keys := make([]string, 0, len(w.ids))
	for k := range w.ids {
		keys = append(keys, k)
	}
	sort.Strings(keys)
	var present []string
	for _, k := range keys {
		if m, ok := w.rawGet(k); ok {
			if ro.include == nil || ro.include.eval(k, m) {
				present = append(present, k)
			}
		}
	}
	out := make([]kv, 0, len(msgs))
	for i, m := range msgs {
		id := "?unknown"
		if i < len(present) {
			id = present[i]
		}
		out = append(out, kv{id, *fromProto(m)})
	}
	if len(present) != len(msgs) {
		out = append(out, kv{"?count-mismatch", fmsg{int64(len(present)), int64(len(msgs)), 0}})
	}
	return out
}

// rawGet reads a stored key without going through the id interceptor twice: the interceptors of
// the family are idempotent on stored keys only for IdLower; for IdPrefix the stored key is
// prefix+id, so the harness strips the prefix before calling Get.
func (w *world) rawGet(stored string) (proto.Message, bool) {
	q := stored
	if w.idf != nil && !w.idf.lower {
		if !strings.HasPrefix(stored, w.idf.prefix) {
			return nil, false
		}
		q = strings.TrimPrefix(stored, w.idf.prefix)
	}
	return w.coll.Get(q)
}

func (w *world) storedKey(id string) string {
	if w.idf == nil {
		return id
	}
	return w.idf.fn()(id)
}

type obs struct {
	coq string
	js  any
}

func (w *world) exec(op *fop) obs {
	switch op.kind {
	case 0:
		m, ok := w.coll.Get(op.id, op.ro.opts(false)...)
		var r *fmsg
		if ok {
			r = fromProto(m)
		}
		return obs{vcoq.App("BGet", coqOptMsg(r)), map[string]any{"got": jsMsg(r)}}
	case 1:
		l := w.list(op.ro)
		return obs{vcoq.App("BList", coqKVs(l)), map[string]any{"list": jsKVs(l)}}
	case 2, 3:
		cb := &cbLog{}
		w.rng.bufs, w.rng.k = op.cands, 0
		var res proto.Message
		var err error
		if op.kind == 2 {
			res, err = w.coll.Update(op.id, toProto(op.msg), op.o.opts(cb)...)
		} else {
			res, err = w.coll.Add(op.id, toProto(op.msg), op.o.opts(cb)...)
		}
		var r *fmsg
		if err == nil {
			r = fromProto(res)
			key := w.storedKey(op.id)
			if key == "" && op.o.genID {
				// the stored key of a generated id: the reported candidate seen through the interceptor;
				// add every candidate both raw and mapped so that List can attribute it either way
				for _, c := range candStrings(op.cands) {
					w.ids[w.storedKey(c)] = true
				}
			} else {
				w.ids[key] = true
			}
		}
		return obs{vcoq.App("BWrite", coqOptMsg(r), vcoq.Z(code(err)), coqStrs(cb.ids), vcoq.Int(cb.created)),
			map[string]any{"result": jsMsg(r), "code": code(err), "id_callback": cb.ids, "created_callback": cb.created}}
	}
	cb := &cbLog{}
	res, err := w.coll.Delete(op.id, op.o.opts(cb)...)
	r := fromProto(res)
	return obs{vcoq.App("BDelete", coqOptMsg(r), vcoq.Z(code(err))), map[string]any{"result": jsMsg(r), "code": code(err)}}
}

// ---------- generators ----------

type gen struct {
	r        *vcoq.Rand
	writable []fld
	hasW     bool
	idf      *idf
	lastGen  [][]byte // candidate bytes of previous successful generations (to force collisions)
}

var idAlphabet = []string{"a", "b", "A", "ab", "c"}

func (g *gen) msg() fmsg {
	v := func() int64 {
		if g.r.Chance(30) {
			return 0
		}
		return int64(g.r.Range(1, 4))
	}
	return fmsg{v(), v(), v()}
}
func (g *gen) flds(allowBad bool) []fld {
	n := g.r.Range(0, 3)
	var l []fld
	for i := 0; i < n; i++ {
		f := fld(g.r.Intn(3))
		if allowBad && g.r.Chance(6) {
			f = fbad
		}
		l = append(l, f)
	}
	if g.r.Chance(8) && len(l) > 0 {
		l = append(l, l[0]) // duplicate path
	}
	return l
}
func (g *gen) id() string {
	if g.r.Chance(8) {
		return ""
	}
	return idAlphabet[g.r.Intn(len(idAlphabet))]
}
func (g *gen) wopts(forDelete bool) *fwo {
	o := &fwo{}
	r := g.r
	if r.Chance(25) {
		t := int64(r.Range(1, 9)) * 7
		o.time = &t
	}
	if !forDelete {
		if r.Chance(35) {
			o.hasUpdate, o.update = true, g.flds(true)
		}
		if r.Chance(12) {
			o.hasReset, o.reset = true, g.flds(true)
		}
		if r.Chance(15) {
			o.hasMoreUpdate, o.moreUpdate = true, g.flds(false)
		}
		if r.Chance(15) {
			o.hasMore, o.more = true, g.flds(false)
		}
		if r.Chance(8) {
			o.allWritable = true
		}
		if r.Chance(15) {
			o.before = &icpt{kind: r.Intn(3), f: fld(r.Intn(3)), k: int64(r.Range(0, 5))}
		}
		if r.Chance(15) {
			o.after = &icpt{kind: r.Intn(3), f: fld(r.Intn(3)), k: int64(r.Range(0, 5))}
		}
		if r.Chance(40) {
			o.create = true
		}
		if r.Chance(25) {
			o.createdCb = true
		}
		if r.Chance(12) {
			o.expectAbsent = true
		}
	} else if r.Chance(40) {
		o.allowMissing = true
	}
	if r.Chance(18) {
		m := g.msg()
		o.expected = &m
	}
	if r.Chance(15) {
		cs := []codes.Code{codes.FailedPrecondition, codes.Aborted, codes.PermissionDenied}
		o.check = &chk{kind: r.Intn(3), f: fld(r.Intn(3)), k: int64(r.Range(0, 3)), code: cs[r.Intn(3)]}
		if o.check.kind == 1 && r.Chance(60) {
			o.check.kind = 0
		}
	}
	o.viaPaths = r.Chance(25)
	return o
}
func (g *gen) cands(force bool) [][]byte {
	out := make([][]byte, 10)
	for i := range out {
		b := make([]byte, 6+i)
		for k := range b {
			b[k] = byte(g.r.U64())
		}
		out[i] = b
	}
	// force collisions with earlier generated ids: candidate i must have 6+i bytes, so an earlier
	// id of that length is replayed at position i for as long as there is one
	if force {
		for i := range out {
			var same [][]byte
			for _, b := range g.lastGen {
				if len(b) == 6+i {
					same = append(same, b)
				}
			}
			if len(same) == 0 {
				break
			}
			out[i] = append([]byte(nil), same[g.r.Intn(len(same))]...)
		}
	}
	return out
}

// writeOp makes Update / Add / Delete with options; a share of them target generated ids
func (g *gen) writeOp() *fop {
	r := g.r
	k := r.Intn(10)
	switch {
	case k < 4:
		op := &fop{kind: 2, id: g.id(), msg: g.msg(), o: g.wopts(false)}
		op.cands = g.cands(false)
		return op
	case k < 7:
		op := &fop{kind: 3, id: g.id(), msg: g.msg(), o: g.wopts(false)}
		op.o.expectAbsent, op.o.create = false, false // Add prepends both itself
		op.cands = g.cands(false)
		return op
	case k < 8:
		// generated id
		op := &fop{kind: 3, id: "", msg: g.msg(), o: g.wopts(false)}
		op.o.expectAbsent, op.o.create = false, false
		op.o.genID, op.o.idCb = true, r.Chance(85)
		op.o.expected, op.o.check = nil, nil
		op.o.hasUpdate = false
		op.cands = g.cands(r.Chance(50))
		return op
	default:
		return &fop{kind: 4, id: g.id(), o: g.wopts(true)}
	}
}

func (g *gen) newWorld(equiv *eqv) *world {
	w := &world{clock: &fakeClock{}, rng: &fakeRNG{}, ids: map[string]bool{}, idf: g.idf}
	opts := []resource.Option{resource.WithClock(w.clock), resource.WithRNG(w.rng)}
	if g.hasW {
		opts = append(opts, resource.WithWritableFields(maskOf(g.writable)))
	}
	if g.idf != nil {
		opts = append(opts, resource.WithIDInterceptor(g.idf.fn()))
	}
	if equiv != nil {
		opts = append(opts, equiv.option())
	}
	w.coll = resource.NewCollection(opts...)
	return w
}

func (g *gen) config() {
	r := g.r
	g.hasW, g.writable, g.idf, g.lastGen = false, nil, nil, nil
	if r.Chance(30) {
		g.hasW = true
		g.writable = g.flds(false)
		if len(g.writable) == 0 && r.Chance(70) {
			g.writable = []fld{fa, fb}
		}
	}
	switch r.Intn(5) {
	case 0:
		g.idf = &idf{lower: true}
	case 1:
		g.idf = &idf{prefix: "p/"}
	}
}

type step struct {
	op  *fop
	obs obs
}

func coqSteps(steps []step) string {
	it := make([]string, len(steps))
	for i, s := range steps {
		it[i] = vcoq.Pair(s.op.coq(), s.obs.coq)
	}
	return vcoq.List(it)
}
func jsSteps(steps []step) any {
	out := []any{}
	for _, s := range steps {
		m := s.op.js()
		m["observed"] = s.obs.js
		out = append(out, m)
	}
	return out
}

// runSeq executes ops on w; after every write a full List, after a generated id a Get of it
func (g *gen) runSeq(w *world, n int) []step {
	var steps []step
	full := &fop{kind: 1}
	steps = append(steps, step{full, w.exec(full)})
	for i := 0; i < n; i++ {
		if g.r.Chance(12) {
			rd := &fop{kind: g.r.Intn(2), id: g.id()}
			if g.r.Chance(40) {
				rd.ro.hasMask, rd.ro.mask = true, g.flds(true)
			}
			if rd.kind == 1 && g.r.Chance(40) {
				rd.ro.include = g.pred()
			}
			steps = append(steps, step{rd, w.exec(rd)})
			continue
		}
		op := g.writeOp()
		cb := w.exec(op)
		steps = append(steps, step{op, cb})
		if op.o != nil && op.o.genID && op.id == "" {
			// harvest the reported id for collision forcing and probe it
			if m, ok := cb.js.(map[string]any); ok {
				if ids, ok := m["id_callback"].([]string); ok && len(ids) == 1 {
					for _, c := range op.cands {
						if base64.RawURLEncoding.EncodeToString(c) == ids[0] {
							g.lastGen = append(g.lastGen, c)
						}
					}
					get := &fop{kind: 0, id: ids[0]}
					steps = append(steps, step{get, w.exec(get)})
				}
			}
		}
		f := &fop{kind: 1}
		steps = append(steps, step{f, w.exec(f)})
	}
	return steps
}

func (g *gen) pred() *pred {
	r := g.r
	var p *pred
	switch r.Intn(4) {
	case 0:
		p = &pred{kind: 0}
	case 1:
		n := r.Range(0, 3)
		ids := []string{}
		for i := 0; i < n; i++ {
			ids = append(ids, idAlphabet[r.Intn(len(idAlphabet))])
		}
		p = &pred{kind: 1, ids: ids}
	default:
		p = &pred{kind: 2, f: fld(r.Intn(3)), k: int64(r.Range(1, 3))}
	}
	if r.Chance(20) {
		p = &pred{kind: 3, sub: p}
	}
	if r.Chance(20) {
		p = &pred{kind: 4, sub: p}
	}
	return p
}

func optFldsW(g *gen) string { return coqOptFlds(g.writable, g.hasW) }

// ---------- C01 ----------

func genC01(o *vcoq.Out, r *vcoq.Rand, tier string) error {
	o.Header, o.CaseType, o.Judge, o.Shard = header, "rcase", "judge01", 40
	o.Rule = "collection and value call sequences (Get, List, Set, Add, Update, Delete) over ids {\"\",a,b,A,ab,c}+generated ids and 3-field messages with values 0-4, each write with a random subset of write options (write time, update/reset/extra-writable masks incl. unknown and duplicate paths, all-writable, expected value, expect-absent, expected check, allow-missing, before/after interceptors, create-if-absent, created/id callbacks, generated ids with forced rng collisions), resource-level writable fields and id interceptor (lower-case / prefix) per sequence; a full List after every write, a Get after every generated id. Non-trivial: at least one successful and one failed write. Distinct by full term."
	g := &gen{r: r}
	nseq := 260
	if tier == "thorough" {
		nseq = 4000
	}
	for i := 0; i < nseq; i++ {
		g.config()
		w := g.newWorld(nil)
		n := r.Range(3, 14)
		if i%10 == 0 {
			n = r.Range(30, 80)
		}
		steps := g.runSeq(w, n)
		okW, failW := false, false
		tags := []string{"collection"}
		for _, s := range steps {
			if s.op.kind >= 2 {
				m := s.obs.js.(map[string]any)
				c := m["code"].(int64)
				if c == 0 {
					okW = true
				} else {
					failW = true
				}
				tags = append(tags, fmt.Sprintf("%s:code=%d", []string{"Get", "List", "Update", "Add", "Delete"}[s.op.kind], c))
			}
		}
		if g.idf != nil {
			tags = append(tags, "id-interceptor")
		}
		if g.hasW {
			tags = append(tags, "writable-fields")
		}
		coq := vcoq.App("CaseC", optFldsW(g), g.idf.coq(), coqSteps(steps))
		o.Add(vcoq.Case{Coq: coq, Key: coq, NonTrivial: okW && failW, Tags: tags,
			JSON: map[string]any{"kind": "collection", "writable": jsFlds(g.writable, g.hasW), "id_interceptor": g.idf.coq(), "steps": jsSteps(steps)}})
	}
	// a stuck rng: every call sees the same ten candidates (lengths 6..15), so the k-th generated
	// id collides with the k-1 earlier ones and the 11th call has no candidate left (Aborted)
	for i := 0; i < 4; i++ {
		g.config()
		g.hasW = false
		if i%2 == 1 {
			g.idf = &idf{lower: true}
		} else {
			g.idf = nil
		}
		w := g.newWorld(nil)
		stuck := make([][]byte, 10)
		for k := range stuck {
			b := make([]byte, 6+k)
			for j := range b {
				b[j] = byte(0x10*i + 7*k + 3)
			}
			stuck[k] = b
		}
		var steps []step
		full := &fop{kind: 1}
		steps = append(steps, step{full, w.exec(full)})
		for k := 0; k < 12; k++ {
			op := &fop{kind: 3, id: "", msg: g.msg(), o: &fwo{genID: true, idCb: true}, cands: stuck}
			if k%5 == 4 {
				op = &fop{kind: 2, id: "", msg: g.msg(), o: &fwo{genID: true, idCb: true, create: true}, cands: stuck}
			}
			ob := w.exec(op)
			steps = append(steps, step{op, ob})
			if ids, ok := ob.js.(map[string]any)["id_callback"].([]string); ok && len(ids) == 1 {
				get := &fop{kind: 0, id: ids[0]}
				steps = append(steps, step{get, w.exec(get)})
			}
			f := &fop{kind: 1}
			steps = append(steps, step{f, w.exec(f)})
		}
		coq := vcoq.App("CaseC", optFldsW(g), g.idf.coq(), coqSteps(steps))
		o.Add(vcoq.Case{Coq: coq, Key: coq, NonTrivial: true, Tags: []string{"collection", "rng-exhaustion"},
			JSON: map[string]any{"kind": "collection", "scenario": "stuck rng: 12 generated-id writes with the same ten candidates", "id_interceptor": g.idf.coq(), "steps": jsSteps(steps)}})
	}
	// values
	nv := 140
	if tier == "thorough" {
		nv = 2000
	}
	for i := 0; i < nv; i++ {
		g.config()
		coq, js, nt, tags := g.valueSeq(r.Range(3, 16))
		o.Add(vcoq.Case{Coq: coq, Key: coq, NonTrivial: nt, Tags: tags, JSON: js})
	}
	// covering design over pairs (and random triples / quadruples) of write options: c01extra.go
	g.optionSubsetCases(o, tier)
	return nil
}

type vworld struct {
	val   *resource.Value
	clock *fakeClock
}

func (g *gen) newValue(initial *fmsg, equiv *eqv) *vworld {
	w := &vworld{clock: &fakeClock{}}
	opts := []resource.Option{resource.WithClock(w.clock)}
	if g.hasW {
		opts = append(opts, resource.WithWritableFields(maskOf(g.writable)))
	}
	if initial != nil {
		opts = append(opts, resource.WithInitialValue(toProto(*initial)))
	}
	if equiv != nil {
		opts = append(opts, equiv.option())
	}
	w.val = resource.NewValue(opts...)
	return w
}

type vop struct {
	set bool
	msg fmsg
	o   *fwo
	ro  fro
}

func (op *vop) coq() string {
	if !op.set {
		return vcoq.App("FVGet", coqOptFlds(op.ro.mask, op.ro.hasMask))
	}
	return vcoq.App("FVSet", coqMsg(op.msg), op.o.coq())
}
func (op *vop) js() map[string]any {
	if !op.set {
		return map[string]any{"op": "Get", "read": op.ro.js()}
	}
	return map[string]any{"op": "Set", "msg": jsMsg(&op.msg), "opts": op.o.js()}
}
func (w *vworld) exec(op *vop) obs {
	if !op.set {
		r := fromProto(w.val.Get(op.ro.opts(false)...))
		return obs{vcoq.App("BVGet", coqOptMsg(r)), map[string]any{"got": jsMsg(r)}}
	}
	cb := &cbLog{}
	res, err := w.val.Set(toProto(op.msg), op.o.opts(cb)...)
	var r *fmsg
	if err == nil {
		r = fromProto(res)
	}
	return obs{vcoq.App("BVSet", coqOptMsg(r), vcoq.Z(code(err))), map[string]any{"result": jsMsg(r), "code": code(err)}}
}
func (g *gen) vop() *vop {
	if g.r.Chance(25) {
		op := &vop{}
		if g.r.Chance(50) {
			op.ro.hasMask, op.ro.mask = true, g.flds(true)
		}
		return op
	}
	o := g.wopts(false)
	o.create, o.createdCb, o.expectAbsent, o.genID, o.idCb = false, false, false, false, false
	return &vop{set: true, msg: g.msg(), o: o}
}

type vstep struct {
	op  *vop
	obs obs
}

func coqVSteps(s []vstep) string {
	it := make([]string, len(s))
	for i, x := range s {
		it[i] = vcoq.Pair(x.op.coq(), x.obs.coq)
	}
	return vcoq.List(it)
}
func coqVOps(s []*vop) string {
	it := make([]string, len(s))
	for i, x := range s {
		it[i] = x.coq()
	}
	return vcoq.List(it)
}
func (g *gen) valueSeq(n int) (string, any, bool, []string) {
	var initial *fmsg
	if g.r.Chance(60) {
		m := g.msg()
		initial = &m
	}
	w := g.newValue(initial, nil)
	var steps []vstep
	var js []any
	okW, failW := false, false
	tags := []string{"value"}
	for i := 0; i < n; i++ {
		op := g.vop()
		ob := w.exec(op)
		steps = append(steps, vstep{op, ob})
		m := op.js()
		m["observed"] = ob.js
		js = append(js, m)
		if op.set {
			c := ob.js.(map[string]any)["code"].(int64)
			if c == 0 {
				okW = true
			} else {
				failW = true
			}
			tags = append(tags, fmt.Sprintf("Set:code=%d", c))
			g2 := &vop{}
			ob2 := w.exec(g2)
			steps = append(steps, vstep{g2, ob2})
		}
	}
	coq := vcoq.App("CaseV", optFldsW(g), coqOptMsg(initial), coqVSteps(steps))
	return coq, map[string]any{"kind": "value", "writable": jsFlds(g.writable, g.hasW), "initial": jsMsg(initial), "steps": js}, okW && failW, tags
}

// ---------- streams (C04, C08) ----------

type ochange struct {
	id         string
	t          int64
	kind       int64
	old, new_  *fmsg
	seed, last bool
	tx         string // the change time as exact nanoseconds since the epoch (decimal), when t cannot hold it
}

func coqOChange(c ochange) string {
	return vcoq.App("mkOC", vcoq.Str(c.id), c.coqTime(), vcoq.Z(c.kind), coqOptMsg(c.old), coqOptMsg(c.new_), vcoq.Bool(c.seed), vcoq.Bool(c.last))
}
func jsOChange(c ochange) any {
	return map[string]any{"id": c.id, "time": c.jsTime(), "kind": c.kind, "old": jsMsg(c.old), "new": jsMsg(c.new_), "seed": c.seed, "last_seed": c.last}
}
func kindCode(t types.ChangeType) int64 {
	switch t {
	case types.ChangeType_ADD:
		return 1
	case types.ChangeType_UPDATE:
		return 2
	case types.ChangeType_REMOVE:
		return 3
	}
	return 10 + int64(t)
}

const barrierID = "zz"

// collectionStream runs `before` without a subscriber, subscribes with backpressure, runs `after`,
// takes the final List, then two barrier writes (see DESIGN: when the second returns, everything up
// to the first has been handed to the consumer) and returns what the subscriber received before the barrier.
func (g *gen) collectionStream(equiv *eqv, nBefore, nAfter int, ro fro) (before, after []*fop, codes []int64, witness []kvTime, stream []ochange, final []kv, settled string) {
	w := g.newWorld(equiv)
	ctx, cancel := context.WithCancel(context.Background())
	defer cancel()
	// witness: a backpressured subscriber opened before any write; the first K events it receives are
	// those of the K effective writes made before the subscription under test is opened
	var wmu sync.Mutex
	var wgot []kvTime
	wch := w.coll.Pull(ctx, resource.WithBackpressure(true))
	go func() {
		for c := range wch {
			wmu.Lock()
			wgot = append(wgot, kvTime{c.Id, c.ChangeTime.UnixNano()})
			wmu.Unlock()
		}
	}()
	effective := 0
	for i := 0; i < nBefore; i++ {
		op := g.writeOp()
		ob := w.exec(op)
		m := ob.js.(map[string]any)
		if m["code"].(int64) == 0 && !(op.kind == 4 && m["result"] == nil) {
			effective++
		}
		before = append(before, op)
	}
	ch := w.coll.Pull(ctx, ro.opts(true)...)
	var mu sync.Mutex
	var got []ochange
	done := make(chan struct{})
	go func() {
		defer close(done)
		for c := range ch {
			oc := ochange{id: c.Id, t: c.ChangeTime.UnixNano(), kind: kindCode(c.ChangeType), old: fromProto(c.OldValue), new_: fromProto(c.NewValue), seed: c.SeedValue, last: c.LastSeedValue}
			mu.Lock()
			got = append(got, oc)
			mu.Unlock()
		}
	}()
	for i := 0; i < nAfter; i++ {
		op := g.writeOp()
		ob := w.exec(op)
		c := ob.js.(map[string]any)["code"].(int64)
		if op.kind == 4 && c == 0 && ob.js.(map[string]any)["result"] == nil {
			c = -1 // Delete of an absent item with allow-missing: succeeds, changes nothing, emits nothing
		}
		codes = append(codes, c)
		after = append(after, op)
	}
	final = w.list(ro)
	// barrier
	bval := toProto(fmsg{1000, 1000, 1000})
	emits := ro.include == nil || ro.include.eval(w.storedKey(barrierID), bval)
	if ro.hasMask && equiv != nil {
		emits = false // a masked barrier may be equivalent to nothing-changed; fall back to settling
	}
	w.coll.Update(barrierID, bval, resource.WithCreateIfAbsent(), resource.WithAllFieldsWritable())
	w.coll.Update(barrierID, toProto(fmsg{1001, 1001, 1001}), resource.WithCreateIfAbsent(), resource.WithAllFieldsWritable())
	settled = "barrier"
	if !emits {
		settled = "sleep"
		time.Sleep(25 * time.Millisecond)
	}
	mu.Lock()
	bkey := w.storedKey(barrierID)
	for _, c := range got {
		if c.id == bkey {
			break
		}
		stream = append(stream, c)
	}
	mu.Unlock()
	// last event time per id among the writes made before subscribing (only meaningful without an
	// equivalence, which may hide events from the witness too)
	if equiv == nil {
		for i := 0; i < 200; i++ { // the witness has certainly been handed them once the barrier passed; allow its append
			wmu.Lock()
			n := len(wgot)
			wmu.Unlock()
			if n >= effective {
				break
			}
			time.Sleep(time.Millisecond)
		}
		wmu.Lock()
		last := map[string]int64{}
		var order []string
		for i := 0; i < effective && i < len(wgot); i++ {
			if _, ok := last[wgot[i].id]; !ok {
				order = append(order, wgot[i].id)
			}
			last[wgot[i].id] = wgot[i].t
		}
		wmu.Unlock()
		for _, id := range order {
			witness = append(witness, kvTime{id, last[id]})
		}
	}
	cancel()
	<-done
	return
}

type kvTime struct {
	id string
	t  int64
}

func coqKVTimes(l []kvTime) string {
	it := make([]string, len(l))
	for i, e := range l {
		it[i] = vcoq.Pair(vcoq.Str(e.id), vcoq.Z(e.t))
	}
	return vcoq.List(it)
}

func coqOps(l []*fop) string {
	it := make([]string, len(l))
	for i, op := range l {
		it[i] = op.coq()
	}
	return vcoq.List(it)
}
func jsOps(l []*fop) any {
	out := []any{}
	for _, op := range l {
		out = append(out, op.js())
	}
	return out
}

func (g *gen) streamCase(o *vcoq.Out, equiv *eqv, ro fro, nBefore, nAfter int, tags []string) {
	before, after, codes, witness, stream, final, settled := g.collectionStream(equiv, nBefore, nAfter, ro)
	it := make([]string, len(stream))
	js := []any{}
	for i, c := range stream {
		it[i] = coqOChange(c)
		js = append(js, jsOChange(c))
	}
	coq := vcoq.App("CaseCPull", optFldsW(g), g.idf.coq(), equiv.coq(), coqOps(before), ro.coq(), coqOps(after), vcoq.ListZ(codes), coqKVTimes(witness), vcoq.List(it), coqKVs(final))
	tags = append(tags, "settled:"+settled, fmt.Sprintf("events=%d", min(len(stream), 6)))
	o.Add(vcoq.Case{Coq: coq, Key: coq, NonTrivial: len(stream) >= 2, Tags: tags,
		JSON: map[string]any{"kind": "collection-pull", "writable": jsFlds(g.writable, g.hasW), "id_interceptor": g.idf.coq(), "equivalence": equiv.coq(),
			"before": jsOps(before), "read": ro.js(), "after": jsOps(after), "after_codes": codes, "stream": js, "final_list": jsKVs(final)}})
}

type ovchange struct {
	v          fmsg
	t          int64
	seed, last bool
}

func (g *gen) valueStreamCase(o *vcoq.Out, equiv *eqv, ro fro, nBefore, nAfter int, tags []string) {
	var initial *fmsg
	if g.r.Chance(60) {
		m := g.msg()
		initial = &m
	}
	w := g.newValue(initial, equiv)
	var before, after []*vop
	ctx, cancel := context.WithCancel(context.Background())
	defer cancel()
	var wmu sync.Mutex
	var wtimes []int64
	wch := w.val.Pull(ctx, resource.WithBackpressure(true), resource.WithUpdatesOnly(true))
	go func() {
		for c := range wch {
			wmu.Lock()
			wtimes = append(wtimes, c.ChangeTime.UnixNano())
			wmu.Unlock()
		}
	}()
	effective := 0
	for i := 0; i < nBefore; i++ {
		op := g.vop()
		ob := w.exec(op)
		if op.set && ob.js.(map[string]any)["code"].(int64) == 0 {
			effective++
		}
		before = append(before, op)
	}
	ch := w.val.Pull(ctx, ro.opts(true)...)
	var mu sync.Mutex
	var got []ovchange
	done := make(chan struct{})
	go func() {
		defer close(done)
		for c := range ch {
			m := fromProto(c.Value)
			mu.Lock()
			got = append(got, ovchange{*m, c.ChangeTime.UnixNano(), c.SeedValue, c.LastSeedValue})
			mu.Unlock()
		}
	}()
	var codes []int64
	var results []*fmsg
	for i := 0; i < nAfter; i++ {
		op := g.vop()
		ob := w.exec(op)
		c := int64(0)
		var res *fmsg
		if op.set {
			c = ob.js.(map[string]any)["code"].(int64)
			if c == 0 {
				if r, ok := ob.js.(map[string]any)["result"].([]int64); ok {
					res = &fmsg{r[0], r[1], r[2]}
				}
			}
		}
		codes = append(codes, c)
		results = append(results, res)
		after = append(after, op)
	}
	final := fromProto(w.val.Get(ro.opts(false)...))
	// barrier: two writes with values no real write uses; without a mask and equivalence the first is always delivered
	settled := "barrier"
	w.val.Set(toProto(fmsg{-1, -1, 4000000001}), resource.WithAllFieldsWritable())
	w.val.Set(toProto(fmsg{-2, -2, 4000000002}), resource.WithAllFieldsWritable())
	if equiv != nil && ro.hasMask {
		settled = "sleep"
		time.Sleep(25 * time.Millisecond)
	}
	mu.Lock()
	var stream []ovchange
	for _, c := range got {
		if c.v.c >= 4000000001 || c.v.a < 0 || c.v.b < 0 {
			break
		}
		stream = append(stream, c)
	}
	mu.Unlock()
	witness := "None"
	if equiv == nil && effective > 0 {
		for i := 0; i < 200; i++ {
			wmu.Lock()
			n := len(wtimes)
			wmu.Unlock()
			if n >= effective {
				break
			}
			time.Sleep(time.Millisecond)
		}
		wmu.Lock()
		if len(wtimes) >= effective {
			witness = vcoq.Some(vcoq.Z(wtimes[effective-1]))
		}
		wmu.Unlock()
	}
	cancel()
	<-done
	resIt := make([]string, len(results))
	for i, r := range results {
		resIt[i] = coqOptMsg(r)
	}
	it := make([]string, len(stream))
	js := []any{}
	for i, c := range stream {
		it[i] = vcoq.App("mkOV", coqMsg(c.v), vcoq.Z(c.t), vcoq.Bool(c.seed), vcoq.Bool(c.last))
		js = append(js, map[string]any{"value": jsMsg(&c.v), "time": c.t, "seed": c.seed, "last_seed": c.last})
	}
	jb, ja := []any{}, []any{}
	for _, op := range before {
		jb = append(jb, op.js())
	}
	for _, op := range after {
		ja = append(ja, op.js())
	}
	coq := vcoq.App("CaseVPull", optFldsW(g), coqOptMsg(initial), equiv.coq(), coqVOps(before), ro.coq(), coqVOps(after), vcoq.ListZ(codes), witness, vcoq.List(resIt), vcoq.List(it), coqOptMsg(final))
	tags = append(tags, "settled:"+settled)
	o.Add(vcoq.Case{Coq: coq, Key: coq, NonTrivial: len(stream) >= 2, Tags: tags,
		JSON: map[string]any{"kind": "value-pull", "writable": jsFlds(g.writable, g.hasW), "initial": jsMsg(initial), "equivalence": equiv.coq(),
			"before": jb, "read": ro.js(), "after": ja, "after_codes": codes, "stream": js, "final_get": jsMsg(final)}})
}

// pullIDCase: PullID(id) with backpressure; the stream ends when the item is removed
func (g *gen) pullIDCase(o *vcoq.Out, equiv *eqv, ro fro, nBefore, nAfter int, tags []string) {
	w := g.newWorld(equiv)
	var before, after []*fop
	for i := 0; i < nBefore; i++ {
		op := g.writeOp()
		w.exec(op)
		before = append(before, op)
	}
	id := idAlphabet[g.r.Intn(3)]
	ctx, cancel := context.WithCancel(context.Background())
	defer cancel()
	ch := w.coll.PullID(ctx, id, ro.opts(true)...)
	var mu sync.Mutex
	var got []ovchange
	closed := false
	done := make(chan struct{})
	go func() {
		defer close(done)
		for c := range ch {
			m := fromProto(c.Value)
			mu.Lock()
			got = append(got, ovchange{*m, c.ChangeTime.UnixNano(), c.SeedValue, c.LastSeedValue})
			mu.Unlock()
		}
		mu.Lock()
		closed = ctx.Err() == nil // closed by the library (item removed), not by our cancel
		mu.Unlock()
	}()
	for i := 0; i < nAfter; i++ {
		op := g.writeOp()
		if op.id != "" && g.r.Chance(50) {
			op.id = id // concentrate on the subscribed item
		}
		w.exec(op)
		after = append(after, op)
	}
	// barrier on another id (part of the modelled history: the subscription may even open after it),
	// then wait until the consumer's log is stable
	for _, v := range []int64{1000, 1001} {
		op := &fop{kind: 2, id: barrierID, msg: fmsg{v, v, v}, o: &fwo{create: true, allWritable: true}}
		op.cands = g.cands(false)
		w.exec(op)
		after = append(after, op)
	}
	last, quiet := -1, 0
	for quiet < 4 {
		time.Sleep(time.Millisecond)
		mu.Lock()
		n := len(got)
		mu.Unlock()
		if n == last {
			quiet++
		} else {
			last, quiet = n, 0
		}
	}
	mu.Lock()
	stream := append([]ovchange(nil), got...)
	cl := closed
	mu.Unlock()
	cancel()
	<-done
	it := make([]string, len(stream))
	js := []any{}
	for i, c := range stream {
		it[i] = vcoq.App("mkOV", coqMsg(c.v), vcoq.Z(c.t), vcoq.Bool(c.seed), vcoq.Bool(c.last))
		js = append(js, map[string]any{"value": jsMsg(&c.v), "time": c.t, "seed": c.seed, "last_seed": c.last})
	}
	coq := vcoq.App("CaseCPullID", optFldsW(g), g.idf.coq(), equiv.coq(), coqOps(before), ro.coq(), vcoq.Str(id), coqOps(after), vcoq.List(it), vcoq.Bool(cl))
	tags = append(tags, "pull-id", fmt.Sprintf("closed=%v", cl))
	o.Add(vcoq.Case{Coq: coq, Key: coq, NonTrivial: len(stream) >= 2 || cl, Tags: tags,
		JSON: map[string]any{"kind": "collection-pull-id", "id": id, "writable": jsFlds(g.writable, g.hasW), "id_interceptor": g.idf.coq(), "equivalence": equiv.coq(),
			"before": jsOps(before), "read": ro.js(), "after": jsOps(after), "stream": js, "closed_by_removal": cl}})
}

func (g *gen) equiv() *eqv {
	switch g.r.Intn(6) {
	case 0:
		return &eqv{all: true}
	case 1:
		return &eqv{f: fld(g.r.Intn(3))}
	}
	return nil
}

func genC04(o *vcoq.Out, r *vcoq.Rand, tier string) error {
	o.Header, o.CaseType, o.Judge, o.Shard = header, "rcase", "judge04", 40
	o.Rule = "write histories (successful and failing Add/Update/Delete/Set with and without write time) before and after a backpressured subscription, x {updates-only, read mask, equivalence none/all/one field, include predicate} x initial contents (0, 1, many writes before subscribing); every field of every received event recorded; final List/Get with the same read options. Non-trivial: at least 2 events received. Distinct by full term."
	g := &gen{r: r}
	n := 320
	if tier == "thorough" {
		n = 5000
	}
	for i := 0; i < n; i++ {
		g.config()
		ro := fro{updatesOnly: r.Chance(25)}
		if r.Chance(30) {
			ro.hasMask, ro.mask = true, g.flds(false)
			if len(ro.mask) == 0 {
				ro.hasMask = false // an empty read mask makes the value barrier invisible
			}
		}
		tags := []string{}
		if ro.updatesOnly {
			tags = append(tags, "updates-only")
		}
		if ro.hasMask {
			tags = append(tags, "read-mask")
		}
		eq := g.equiv()
		if eq != nil {
			tags = append(tags, "equivalence")
		}
		nb := []int{0, 1, 2, 6}[r.Intn(4)]
		if i%3 == 2 {
			tags = append(tags, "value")
			g.valueStreamCase(o, eq, ro, nb, r.Range(0, 9), tags)
			continue
		}
		if r.Chance(25) {
			ro.include = g.pred()
			tags = append(tags, "include")
		}
		tags = append(tags, "collection")
		if i%6 == 1 {
			g.pullIDCase(o, eq, ro, nb, r.Range(0, 10), tags)
			continue
		}
		g.streamCase(o, eq, ro, nb, r.Range(0, 10), tags)
	}
	// directed families (equivalence x read mask x masked-out writes, boundary write times, several
	// subscribers with different masks): c04extra.go
	g.directedC04(o, tier)
	return nil
}

func genC08(o *vcoq.Out, r *vcoq.Rand, tier string) error {
	o.Header, o.CaseType, o.Judge, o.Shard = header, "rcase", "judge08", 40
	o.Rule = "three kinds of case. (1) write histories over small id/value alphabets x include predicates from the family {true, id in set, field >= k, negation, true-on-absent} x suffix lengths 0-10 (so the fold is compared with List(include) after every number of writes) with a backpressured subscriber; the received stream folded into a map and compared with List with the same predicate; (2) the same without backpressure and a consumer that receives only now and then while the writes happen, then drains (merged ADD/UPDATE/REMOVE/REPLACE events pass through include); (3) the booking model server: ListBookings vs the fold of PullBookings for the same request (period predicate incl. nil / unbounded / empty periods). Non-trivial: at least 2 events received. Distinct by full term."
	g := &gen{r: r}
	n := 400
	if tier == "thorough" {
		n = 6000
	}
	for i := 0; i < n; i++ {
		g.config()
		ro := fro{include: g.pred()}
		if r.Chance(15) {
			ro.hasMask, ro.mask = true, g.flds(false)
		}
		tags := []string{"pred:" + strings.SplitN(strings.Trim(ro.include.coq(), "()"), " ", 2)[0]}
		nb := []int{0, 1, 3, 6}[r.Intn(4)]
		switch i % 10 {
		case 3, 8:
			g.lossyCase(o, ro, nb, r.Range(1, 12)) // without backpressure, slow consumer
		case 4:
			g.bookingCase(o) // the booking server's period predicate, ListBookings vs PullBookings
		case 9, 2, 7:
			// predicates on two different fields, so that one write can flip inclusion for both
			f1 := fld(r.Intn(3))
			f2 := fld((int(f1) + 1 + r.Intn(2)) % 3)
			g.twoSubscribersCase(o, fro{include: &pred{kind: 2, f: f1, k: int64(r.Range(1, 3))}},
				fro{include: &pred{kind: 2, f: f2, k: int64(r.Range(1, 3))}}, nb, r.Range(3, 12))
		case 5:
			g.writeDuringSeedCase(o, nb+1)
		default:
			// one in three with an equivalence on the collection (the held map of Collection.Pull):
			// C08_ok then compares the fold with List(include) up to that equivalence
			eq := g.equiv()
			if eq != nil {
				tags = append(tags, "equivalence")
			}
			g.streamCase(o, eq, ro, nb, r.Range(0, 10), tags)
		}
	}
	return nil
}

// ---------- C08 without backpressure and through the booking server (judged by the oracle only) ----------

// goFold folds a received stream the way a subscriber would (used only to decide when delivery has settled)
func goFold(stream []ochange) map[string]fmsg {
	v := map[string]fmsg{}
	for _, c := range stream {
		if c.kind == 3 {
			delete(v, c.id)
		} else if c.new_ != nil {
			v[c.id] = *c.new_
		}
	}
	return v
}
func sameView(v map[string]fmsg, l []kv) bool {
	if len(v) != len(l) {
		return false
	}
	for _, e := range l {
		if x, ok := v[e.id]; !ok || x != e.m {
			return false
		}
	}
	return true
}

// settle waits until the stream has been silent for 30 ms; if the folded view then differs from the
// listing it keeps draining for up to 2 s more, so that only a persistent difference is reported.
func settle(mu *sync.Mutex, got *[]ochange, list func() []kv) ([]ochange, []kv) {
	deadline := time.Now().Add(2500 * time.Millisecond)
	lastLen, quiet := -1, 0
	for {
		time.Sleep(10 * time.Millisecond)
		mu.Lock()
		n := len(*got)
		snap := append([]ochange(nil), (*got)...)
		mu.Unlock()
		if n == lastLen {
			quiet++
		} else {
			quiet, lastLen = 0, n
		}
		if quiet >= 3 {
			l := list()
			if sameView(goFold(snap), l) || time.Now().After(deadline) {
				return snap, l
			}
		}
	}
}

func (g *gen) lossyCase(o *vcoq.Out, ro fro, nBefore, nAfter int) {
	w := g.newWorld(nil)
	for i := 0; i < nBefore; i++ {
		w.exec(g.writeOp())
	}
	ctx, cancel := context.WithCancel(context.Background())
	defer cancel()
	opts := ro.opts(false)
	opts = append(opts, resource.WithBackpressure(false))
	ch := w.coll.Pull(ctx, opts...)
	var mu sync.Mutex
	var got []ochange
	gate := make(chan struct{}, 64) // the consumer receives one event per token, then freely once closed
	go func() {
		free := false
		for {
			if !free {
				if _, ok := <-gate; !ok {
					free = true
				}
			}
			c, ok := <-ch
			if !ok {
				return
			}
			mu.Lock()
			got = append(got, ochange{id: c.Id, t: c.ChangeTime.UnixNano(), kind: kindCode(c.ChangeType), old: fromProto(c.OldValue), new_: fromProto(c.NewValue), seed: c.SeedValue, last: c.LastSeedValue})
			mu.Unlock()
		}
	}()
	var js []any
	for i := 0; i < nAfter; i++ {
		op := g.writeOp()
		w.exec(op)
		js = append(js, op.js())
		if g.r.Chance(25) {
			select {
			case gate <- struct{}{}: // let the slow consumer take one
			default:
			}
		}
	}
	close(gate)
	stream, final := settle(&mu, &got, func() []kv { return w.list(ro) })
	it := make([]string, len(stream))
	sj := []any{}
	for i, c := range stream {
		it[i] = coqOChange(c)
		sj = append(sj, jsOChange(c))
	}
	coq := vcoq.App("CaseFold", vcoq.Str("lossy"), vcoq.List(it), coqKVs(final))
	o.Add(vcoq.Case{Coq: coq, Key: coq, NonTrivial: len(stream) >= 2, Tags: []string{"lossy", "pred:" + strings.SplitN(strings.Trim(ro.include.coq(), "()"), " ", 2)[0]},
		JSON: map[string]any{"kind": "collection-pull-lossy", "read": ro.js(), "writes_while_subscribed": js, "stream": sj, "final_list": jsKVs(final),
			"id_interceptor": g.idf.coq(), "writable": jsFlds(g.writable, g.hasW)}})
}

// twoSubscribersCase: two backpressured subscriptions with different predicates on one collection
// (the bus hands the same change to both); each one's fold must equal List with its own predicate.
func (g *gen) twoSubscribersCase(o *vcoq.Out, ro1, ro2 fro, nBefore, nAfter int) {
	w := g.newWorld(nil)
	for i := 0; i < nBefore; i++ {
		w.exec(g.writeOp())
	}
	ctx, cancel := context.WithCancel(context.Background())
	defer cancel()
	type sub struct {
		mu  sync.Mutex
		got []ochange
		ro  fro
	}
	subs := []*sub{{ro: ro1}, {ro: ro2}}
	for k, s := range subs {
		s, k := s, k
		ch := w.coll.Pull(ctx, s.ro.opts(true)...)
		go func() {
			for c := range ch {
				if k == 1 {
					time.Sleep(100 * time.Microsecond) // the later subscriber lags a little behind the first
				}
				oc := ochange{id: c.Id, t: c.ChangeTime.UnixNano(), kind: kindCode(c.ChangeType), old: fromProto(c.OldValue), new_: fromProto(c.NewValue), seed: c.SeedValue, last: c.LastSeedValue}
				s.mu.Lock()
				s.got = append(s.got, oc)
				s.mu.Unlock()
			}
		}()
	}
	var js []any
	for i := 0; i < nAfter; i++ {
		op := g.writeOp()
		if g.r.Chance(70) {
			op = &fop{kind: 2, id: idAlphabet[g.r.Intn(2)], msg: fmsg{int64(g.r.Range(0, 4)), int64(g.r.Range(0, 4)), int64(g.r.Range(0, 4))}, o: &fwo{create: true}}
			op.cands = g.cands(false)
		}
		w.exec(op)
		js = append(js, op.js())
	}
	for k, s := range subs {
		stream, final := settle(&s.mu, &s.got, func() []kv { return w.list(s.ro) })
		it := make([]string, len(stream))
		sj := []any{}
		for i, c := range stream {
			it[i] = coqOChange(c)
			sj = append(sj, jsOChange(c))
		}
		coq := vcoq.App("CaseFold", vcoq.Str(fmt.Sprintf("subscriber %d of 2", k+1)), vcoq.List(it), coqKVs(final))
		o.Add(vcoq.Case{Coq: coq, Key: coq, NonTrivial: len(stream) >= 2, Tags: []string{"two-subscribers"},
			JSON: map[string]any{"kind": "two backpressured subscribers with different predicates", "this_subscriber": s.ro.js(), "other_subscriber": subs[1-k].ro.js(),
				"writes_while_subscribed": js, "stream": sj, "final_list": jsKVs(final)}})
	}
}

// writeDuringSeedCase: the include predicate, on its first evaluation, lets another goroutine write an
// item that starts matching and gives it 30 ms to finish.  The seed is taken under the collection's
// read lock, so the write cannot land in between: it is either in the seed or delivered as an event.
func (g *gen) writeDuringSeedCase(o *vcoq.Out, nBefore int) {
	g.idf, g.hasW = nil, false
	w := g.newWorld(nil)
	for i := 0; i < nBefore; i++ {
		op := &fop{kind: 2, id: idAlphabet[g.r.Intn(3)], msg: fmsg{int64(g.r.Range(0, 4)), 0, 0}, o: &fwo{create: true}}
		op.cands = g.cands(false)
		w.exec(op)
	}
	pure := &pred{kind: 2, f: fa, k: 2}
	ro := fro{include: pure}
	trigger := make(chan struct{})
	written := make(chan struct{})
	var once sync.Once
	go func() {
		<-trigger
		w.coll.Update("ab", toProto(fmsg{4, 1, 1}), resource.WithCreateIfAbsent())
		w.ids["ab"] = true
		close(written)
	}()
	ctx, cancel := context.WithCancel(context.Background())
	defer cancel()
	ch := w.coll.Pull(ctx, resource.WithBackpressure(true), resource.WithInclude(func(id string, m proto.Message) bool {
		once.Do(func() {
			close(trigger)
			select {
			case <-written:
			case <-time.After(30 * time.Millisecond):
			}
		})
		return pure.eval(id, m)
	}))
	var mu sync.Mutex
	var got []ochange
	go func() {
		for c := range ch {
			oc := ochange{id: c.Id, t: c.ChangeTime.UnixNano(), kind: kindCode(c.ChangeType), old: fromProto(c.OldValue), new_: fromProto(c.NewValue), seed: c.SeedValue, last: c.LastSeedValue}
			mu.Lock()
			got = append(got, oc)
			mu.Unlock()
		}
	}()
	once.Do(func() { close(trigger) }) // an empty collection never evaluates the predicate while seeding
	select {
	case <-written:
	case <-time.After(5 * time.Second):
	}
	stream, final := settle(&mu, &got, func() []kv { return w.list(ro) })
	it := make([]string, len(stream))
	sj := []any{}
	for i, c := range stream {
		it[i] = coqOChange(c)
		sj = append(sj, jsOChange(c))
	}
	coq := vcoq.App("CaseFold", vcoq.Str("write during seed"), vcoq.List(it), coqKVs(final))
	o.Add(vcoq.Case{Coq: coq, Key: coq, NonTrivial: len(stream) >= 1, Tags: []string{"write-during-seed"},
		JSON: map[string]any{"kind": "a write released while the include predicate filters the seed", "read": ro.js(), "stream": sj, "final_list": jsKVs(final)}})
}
