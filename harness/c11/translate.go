package main

// Translator "locks": reads the source of the packages below from the tree under check and emits
// coq/theories/Gen/Locks.v - for every field of the listed structs (and the locals shared with the
// goroutines of pkg/group) each access site with the locks held there and the channel-close facts
// that order it.  The analysis is deliberately simple and conservative:
//
//   - a walk of each function body tracking X.mu.Lock()/RLock()/Unlock()/RUnlock()/defer X.mu.Unlock();
//     after if/switch/select the locks held are those held on every branch that falls through;
//   - locks are named by struct field ("resource.Value.mu"): one instance of each struct is assumed;
//   - calls to functions of the same package are inlined (depth 6) with the caller's context, so a
//     helper's sites appear once per calling context; function literals passed as call arguments run
//     in the caller's context, the ones started with `go`, deferred, returned or stored run with no lock;
//   - the three function arguments of resource.GetAndUpdate(&X.mu, get, change, save) run under
//     {mu: read}, {}, {mu: exclusive} (get is called under both locks: the weaker one is recorded);
//   - statements in `case <-X.c:` (c a `chan struct{}` field) and in `if !ok {...}` after
//     `v, ok := <-X.c` run after a receive that observed c closed;
//   - statements of a function body that precede its top-level `close(X.c)` are BPO c; statements after
//     `select { case <-X.c: return ...; default: }` executed while holding lock l exclusively are BGuard c l;
//   - construction phase: composite literals, locals of functions named New*/computeConfig, and the
//     parameter of the function literal of an option constructor (With*);
//   - a method call on / passing of a field whose type is io.Reader or *rand.Rand is a WRITE of the
//     object it points to ("<field>.*"); a parameter bound to such a field keeps the binding in the callee.
//
// Types are resolved with go/types and an importer that returns empty packages: only selections on
// the package's own structs are needed, everything about foreign types is read from the syntax.

import (
	"fmt"
	"go/ast"
	"go/parser"
	"go/token"
	"go/types"
	"os"
	"path/filepath"
	"sort"
	"strings"
)

func repoDir() string {
	if d := os.Getenv("VERIF_REPO"); d != "" {
		return d
	}
	return "/repo"
}

type lockMode struct {
	Lock string `json:"lock"`
	Mode string `json:"mode"` // "R" | "X"
}
type beforeTag struct {
	Kind string `json:"kind"` // "PO" | "Guard"
	Chan string `json:"chan"`
	Lock string `json:"lock,omitempty"`
}
type siteRow struct {
	Loc    string      `json:"loc"`
	Kind   string      `json:"kind"` // "R" | "W"
	Locks  []lockMode  `json:"locks"`
	Before []beforeTag `json:"before"`
	After  []string    `json:"after"`
	Init   bool        `json:"init"`
	Fn     string      `json:"fn"`
	Pos    string      `json:"pos"`
}
type closerRow struct {
	Chan  string     `json:"chan"`
	Locks []lockMode `json:"locks"`
	Fn    string     `json:"fn"`
	Pos   string     `json:"pos"`
}
type lockTable struct {
	Sites   []siteRow
	Closers []closerRow
}

// packages and the structs whose fields are locations
// (structs == nil: every struct type declared in the package)
type target struct {
	dir     string
	short   string
	structs []string
}

var targets = []target{
	{"pkg/resource", "resource", nil},
	{"internal/minibus", "minibus", nil},
	{"pkg/router", "router", nil},
	{"pkg/wrap", "wrap", nil},
	{"pkg/group", "group", nil},
}

type fakeImporter struct{ pkgs map[string]*types.Package }

func (f *fakeImporter) Import(path string) (*types.Package, error) {
	if p, ok := f.pkgs[path]; ok {
		return p, nil
	}
	name := path[strings.LastIndex(path, "/")+1:]
	p := types.NewPackage(path, name)
	p.MarkComplete()
	f.pkgs[path] = p
	return p, nil
}

type fieldInfo struct {
	key       string // "resource.Value.value"
	skip      bool   // sync.* or embedded-by-value table struct: not a location
	mutex     bool
	pointee   bool // io.Reader, *rand.Rand
	closeOnly bool // chan struct{}
	container bool // slice or map: the elements are the location key+"[]"
	cond      bool // *sync.Cond
}

type pkgAn struct {
	short  string
	dir    string
	fset   *token.FileSet
	files  []*ast.File
	info   *types.Info
	fields map[*types.Var]*fieldInfo
	funcs  map[*types.Func]*ast.FuncDecl
	repo   string
	out    *lockTable
	seen   map[string]bool
	seenC  map[string]bool
	// condLock: *sync.Cond field -> the mutex field given to sync.NewCond when it is assigned
	condLock map[string]string
	fresh    map[*ast.FuncDecl]map[types.Object]token.Pos
}

func typeString(e ast.Expr) string {
	switch t := e.(type) {
	case *ast.Ident:
		return t.Name
	case *ast.SelectorExpr:
		return typeString(t.X) + "." + t.Sel.Name
	case *ast.StarExpr:
		return "*" + typeString(t.X)
	case *ast.ChanType:
		return "chan " + typeString(t.Value)
	case *ast.StructType:
		return "struct{}"
	case *ast.ArrayType:
		return "[]" + typeString(t.Elt)
	case *ast.MapType:
		return "map"
	case *ast.FuncType:
		return "func"
	case *ast.InterfaceType:
		return "interface"
	}
	return "?"
}

// allTargets: the fixed packages plus every package directory under pkg/trait (all their structs).
func allTargets(repo string) []target {
	ts := append([]target{}, targets...)
	have := map[string]bool{}
	for _, t := range ts {
		have[t.dir] = true
	}
	ents, _ := os.ReadDir(filepath.Join(repo, "pkg/trait"))
	for _, e := range ents {
		if !e.IsDir() {
			continue
		}
		dir := "pkg/trait/" + e.Name()
		if have[dir] {
			continue
		}
		if m, _ := filepath.Glob(filepath.Join(repo, dir, "*.go")); len(m) == 0 {
			continue
		}
		ts = append(ts, target{dir, e.Name(), nil})
	}
	sort.SliceStable(ts[len(targets):], func(i, j int) bool { return ts[len(targets)+i].dir < ts[len(targets)+j].dir })
	return ts
}

func analyse(repo string) (*lockTable, error) {
	out := &lockTable{}
	for _, tg := range allTargets(repo) {
		if err := analysePkg(repo, tg.dir, tg.short, tg.structs, out); err != nil {
			return nil, err
		}
	}
	sort.SliceStable(out.Sites, func(i, j int) bool {
		a, b := out.Sites[i], out.Sites[j]
		if a.Loc != b.Loc {
			return a.Loc < b.Loc
		}
		if a.Pos != b.Pos {
			return a.Pos < b.Pos
		}
		return fmt.Sprint(a) < fmt.Sprint(b)
	})
	sort.SliceStable(out.Closers, func(i, j int) bool { return fmt.Sprint(out.Closers[i]) < fmt.Sprint(out.Closers[j]) })
	return out, nil
}

func analysePkg(repo, dir, short string, structs []string, out *lockTable) error {
	fset := token.NewFileSet()
	pkgs, err := parser.ParseDir(fset, filepath.Join(repo, dir), func(fi os.FileInfo) bool {
		return !strings.HasSuffix(fi.Name(), "_test.go")
	}, parser.ParseComments)
	if err != nil {
		return err
	}
	var files []*ast.File
	for name, p := range pkgs {
		if strings.HasSuffix(name, "_test") {
			continue
		}
		var names []string
		for fn := range p.Files {
			names = append(names, fn)
		}
		sort.Strings(names)
		for _, fn := range names {
			files = append(files, p.Files[fn])
		}
	}
	info := &types.Info{
		Uses: map[*ast.Ident]types.Object{}, Defs: map[*ast.Ident]types.Object{},
		Selections: map[*ast.SelectorExpr]*types.Selection{}, Types: map[ast.Expr]types.TypeAndValue{},
	}
	conf := types.Config{Importer: &fakeImporter{pkgs: map[string]*types.Package{}}, Error: func(error) {}, FakeImportC: true}
	tpkg, _ := conf.Check("github.com/smart-core-os/sc-golang/"+dir, fset, files, info)
	if tpkg == nil {
		return fmt.Errorf("cannot type-check %s", dir)
	}
	pa := &pkgAn{short: short, dir: dir, fset: fset, files: files, info: info, fields: map[*types.Var]*fieldInfo{},
		funcs: map[*types.Func]*ast.FuncDecl{}, repo: repo, out: out, seen: map[string]bool{}, seenC: map[string]bool{}, condLock: map[string]string{}}
	want := map[string]bool{}
	for _, s := range structs {
		want[s] = true
	}
	// struct fields, from the syntax (types of foreign packages are not resolved)
	for _, f := range files {
		for _, d := range f.Decls {
			gd, ok := d.(*ast.GenDecl)
			if !ok {
				continue
			}
			for _, sp := range gd.Specs {
				ts, ok := sp.(*ast.TypeSpec)
				if !ok || (structs != nil && !want[ts.Name.Name]) {
					continue
				}
				st, ok := ts.Type.(*ast.StructType)
				if !ok {
					continue
				}
				isMsg := false
				for _, fl := range st.Fields.List {
					if typeString(fl.Type) == "protoimpl.MessageState" {
						isMsg = true // a generated protobuf message: its contents are C07's subject, not a table location
					}
				}
				if isMsg {
					continue
				}
				for _, fl := range st.Fields.List {
					tstr := typeString(fl.Type)
					mk := func(id *ast.Ident) {
						v, _ := info.Defs[id].(*types.Var)
						if v == nil {
							return
						}
						fi := &fieldInfo{key: short + "." + ts.Name.Name + "." + v.Name()}
						switch {
						case strings.HasPrefix(tstr, "sync."):
							fi.skip, fi.mutex = true, tstr == "sync.Mutex" || tstr == "sync.RWMutex"
						case tstr == "minibus.Bus":
							fi.skip = true
						case tstr == "io.Reader" || tstr == "*rand.Rand":
							fi.pointee = true
						case tstr == "chan struct{}":
							fi.closeOnly = true
						case tstr == "*sync.Cond":
							fi.cond = true
						}
						if _, ok := v.Type().Underlying().(*types.Struct); ok {
							// a struct held by value: selecting it computes an address, the locations are its own fields
							fi.skip = true
						}
						switch v.Type().Underlying().(type) {
						case *types.Slice, *types.Map:
							fi.container = true
						}
						switch ft := fl.Type.(type) {
						case *ast.ArrayType:
							fi.container = fi.container || ft.Len == nil
						case *ast.MapType:
							fi.container = true
						}
						pa.fields[v] = fi
					}
					if len(fl.Names) == 0 {
						// embedded field: its object is found through the struct type
						continue
					}
					for _, id := range fl.Names {
						mk(id)
					}
				}
				// embedded fields
				if obj, ok := info.Defs[ts.Name].(*types.TypeName); ok {
					if stt, ok := obj.Type().Underlying().(*types.Struct); ok {
						for i := 0; i < stt.NumFields(); i++ {
							v := stt.Field(i)
							if v.Embedded() {
								if _, ok := pa.fields[v]; !ok {
									fi := &fieldInfo{key: short + "." + ts.Name.Name + "." + v.Name()}
									if _, ok := v.Type().Underlying().(*types.Struct); ok {
										fi.skip = true
									}
									pa.fields[v] = fi
								}
							}
						}
					}
				}
			}
		}
	}
	for _, f := range files {
		for _, d := range f.Decls {
			if fd, ok := d.(*ast.FuncDecl); ok && fd.Body != nil {
				if fn, ok := info.Defs[fd.Name].(*types.Func); ok {
					pa.funcs[fn] = fd
				}
			}
		}
	}
	// a send on a chan struct{} field would make "receive observed it closed" wrong
	for _, f := range files {
		ast.Inspect(f, func(n ast.Node) bool {
			if s, ok := n.(*ast.SendStmt); ok {
				if fi := pa.fieldOf(s.Chan); fi != nil {
					fi.closeOnly = false
				}
			}
			// X.cond = sync.NewCond(&Y.mu): Wait on X.cond releases and re-acquires Y.mu
			if as, ok := n.(*ast.AssignStmt); ok && len(as.Lhs) == 1 && len(as.Rhs) == 1 {
				if fi := pa.fieldOf(as.Lhs[0]); fi != nil && fi.cond {
					lk := "?"
					if call, ok := as.Rhs[0].(*ast.CallExpr); ok && calleeName(call) == "NewCond" && len(call.Args) == 1 {
						if u, ok := call.Args[0].(*ast.UnaryExpr); ok && u.Op == token.AND {
							if mf := pa.fieldOf(u.X); mf != nil && mf.mutex {
								lk = mf.key
							}
						}
					}
					if old, seen := pa.condLock[fi.key]; seen && old != lk {
						lk = "?"
					}
					pa.condLock[fi.key] = lk
				}
			}
			return true
		})
	}
	// resource.GetAndUpdate first: the lock mode each of its callbacks runs under
	if fd := pa.funcByName("GetAndUpdate"); fd != nil {
		gauModes = map[string]string{}
		fn := pa.info.Defs[fd.Name].(*types.Func)
		w := &walker{pa: pa, decl: fd, stack: []*types.Func{fn}}
		w.walkFunc(fd, newCtx())
	}
	// entry points: every function, with an empty context (callers add their contexts by inlining)
	var fds []*ast.FuncDecl
	for _, fd := range pa.funcs {
		fds = append(fds, fd)
	}
	sort.Slice(fds, func(i, j int) bool { return fds[i].Pos() < fds[j].Pos() })
	called := pa.calledFuncs()
	for _, fd := range fds {
		fn := pa.info.Defs[fd.Name].(*types.Func)
		if called[fn] && !fd.Name.IsExported() {
			continue // unexported and only reached through its callers
		}
		w := &walker{pa: pa, decl: fd, stack: []*types.Func{fn}}
		w.walkFunc(fd, newCtx())
	}
	pa.sharedLocals()
	pa.handovers()
	return nil
}

func (pa *pkgAn) funcByName(name string) *ast.FuncDecl {
	for _, fd := range pa.funcs {
		if fd.Recv == nil && fd.Name.Name == name {
			return fd
		}
	}
	return nil
}

func (pa *pkgAn) calledFuncs() map[*types.Func]bool {
	out := map[*types.Func]bool{}
	for _, f := range pa.files {
		ast.Inspect(f, func(n ast.Node) bool {
			if c, ok := n.(*ast.CallExpr); ok {
				if fn := pa.callee(c); fn != nil {
					out[fn] = true
				}
			}
			return true
		})
	}
	return out
}

func (pa *pkgAn) callee(c *ast.CallExpr) *types.Func {
	var id *ast.Ident
	switch f := c.Fun.(type) {
	case *ast.Ident:
		id = f
	case *ast.SelectorExpr:
		id = f.Sel
	}
	if id == nil {
		return nil
	}
	fn, _ := pa.info.Uses[id].(*types.Func)
	if fn == nil {
		return nil
	}
	if _, ok := pa.funcs[fn]; !ok {
		return nil
	}
	return fn
}

// fieldOf returns the table field selected by e (X.f), if any.
func (pa *pkgAn) fieldOf(e ast.Expr) *fieldInfo {
	se, ok := e.(*ast.SelectorExpr)
	if !ok {
		return nil
	}
	if sel := pa.info.Selections[se]; sel != nil && sel.Kind() == types.FieldVal {
		if v, ok := sel.Obj().(*types.Var); ok {
			return pa.fields[v]
		}
	}
	return nil
}

func (pa *pkgAn) rel(p token.Pos) (file string, line int) {
	pos := pa.fset.Position(p)
	r, err := filepath.Rel(pa.repo, pos.Filename)
	if err != nil {
		r = pos.Filename
	}
	return r, pos.Line
}

func fnName(fd *ast.FuncDecl) string {
	if fd.Recv != nil && len(fd.Recv.List) > 0 {
		t := typeString(fd.Recv.List[0].Type)
		return strings.TrimPrefix(t, "*") + "." + fd.Name.Name
	}
	return fd.Name.Name
}

// ---- context ----

type ctx struct {
	locks map[string]string // lock -> "R" | "X"
	after map[string]bool
	guard map[string]map[string]bool // chan -> locks held exclusively when checked open
	po    map[string]bool            // channels closed later in this function body (top level)
	init  bool
	bind  map[types.Object]string // parameter -> pointee location it is bound to
	okvar map[types.Object]string // ok variable of `v, ok := <-X.c` -> channel
	// alias: local variable -> the contents location ("<field>[]") of the slice/map field whose header it copied
	alias map[types.Object]string
	// forked: the code runs in a goroutine started by a go statement (never part of the construction phase)
	forked bool
	// fresh: parameter (or receiver) bound to an object that is still under construction / private to the caller
	fresh map[types.Object]bool
}

func newCtx() *ctx {
	return &ctx{locks: map[string]string{}, after: map[string]bool{}, guard: map[string]map[string]bool{}, po: map[string]bool{},
		bind: map[types.Object]string{}, okvar: map[types.Object]string{}, alias: map[types.Object]string{}, fresh: map[types.Object]bool{}}
}
func (c *ctx) clone() *ctx {
	n := newCtx()
	for k, v := range c.locks {
		n.locks[k] = v
	}
	for k, v := range c.after {
		n.after[k] = v
	}
	for k, v := range c.guard {
		m := map[string]bool{}
		for l := range v {
			m[l] = true
		}
		n.guard[k] = m
	}
	for k, v := range c.po {
		n.po[k] = v
	}
	for k, v := range c.bind {
		n.bind[k] = v
	}
	for k, v := range c.okvar {
		n.okvar[k] = v
	}
	for k, v := range c.alias {
		n.alias[k] = v
	}
	for k, v := range c.fresh {
		n.fresh[k] = v
	}
	n.init = c.init
	n.forked = c.forked
	return n
}

// detached: the context of code that runs later or elsewhere (go, defer, stored closures)
func (c *ctx) detached() *ctx {
	n := newCtx()
	for k, v := range c.bind {
		n.bind[k] = v
	}
	for k, v := range c.alias {
		n.alias[k] = v
	}
	n.forked = c.forked
	return n
}

// meet keeps what holds on both paths
func meet(a, b *ctx) *ctx {
	n := a.clone()
	for l, m := range a.locks {
		m2, ok := b.locks[l]
		if !ok {
			delete(n.locks, l)
		} else if m == "X" && m2 == "R" {
			n.locks[l] = "R"
		}
	}
	for c := range a.after {
		if !b.after[c] {
			delete(n.after, c)
		}
	}
	for c, ls := range a.guard {
		for l := range ls {
			if b.guard[c] == nil || !b.guard[c][l] {
				delete(n.guard[c], l)
			}
		}
	}
	for k, v := range b.alias { // an alias made on either path may be live afterwards
		if _, ok := n.alias[k]; !ok {
			n.alias[k] = v
		}
	}
	return n
}

type walker struct {
	pa    *pkgAn
	decl  *ast.FuncDecl // function whose text is being walked (names the site)
	stack []*types.Func
	ctor  *ast.FuncDecl // enclosing declaration when it is a constructor / option constructor
}

func isCtorName(n string) bool {
	return strings.HasPrefix(n, "New") || n == "computeConfig" || n == "calcModelArgs"
}

func (w *walker) walkFunc(fd *ast.FuncDecl, c *ctx) {
	old := w.decl
	w.decl = fd
	c = c.clone()
	c.okvar = map[types.Object]string{}
	w.walkBody(fd.Body, c, true)
	w.decl = old
}

// walkBody walks a function body; when top is set, statements before a top-level close(X.c) are BPO c.
func (w *walker) walkBody(b *ast.BlockStmt, c *ctx, top bool) {
	if top {
		for _, s := range b.List {
			if es, ok := s.(*ast.ExprStmt); ok {
				if call, ok := es.X.(*ast.CallExpr); ok {
					if id, ok := call.Fun.(*ast.Ident); ok && id.Name == "close" && len(call.Args) == 1 {
						if fi := w.pa.fieldOf(call.Args[0]); fi != nil {
							c.po[fi.key] = true
						}
					}
				}
			}
		}
	}
	w.block(b.List, c, top)
}

// block walks statements in order, returns the context after them and whether control cannot fall through.
func (w *walker) block(list []ast.Stmt, c *ctx, top bool) (*ctx, bool) {
	for _, s := range list {
		var term bool
		c, term = w.stmt(s, c, top)
		if term {
			return c, true
		}
	}
	return c, false
}

func (w *walker) lockOp(call *ast.CallExpr) (lock, op string) {
	se, ok := call.Fun.(*ast.SelectorExpr)
	if !ok {
		return "", ""
	}
	switch se.Sel.Name {
	case "Lock", "Unlock", "RLock", "RUnlock":
	default:
		return "", ""
	}
	if id, ok := se.X.(*ast.Ident); ok && w.decl != nil && w.decl.Name.Name == "GetAndUpdate" {
		// the mutex parameter of GetAndUpdate
		if v, ok := w.obj(id).(*types.Var); ok && !v.IsField() {
			return "param:" + id.Name, se.Sel.Name
		}
	}
	fi := w.pa.fieldOf(se.X)
	if fi == nil || !fi.mutex {
		return "", ""
	}
	return fi.key, se.Sel.Name
}

// gauModes: for each function parameter of resource.GetAndUpdate the lock mode ("R", "X" or "") the
// mutex parameter is held in at every call of it, read from GetAndUpdate's own body.
var gauModes map[string]string

func (w *walker) noteParamCall(call *ast.CallExpr, c *ctx) {
	if w.decl == nil || w.decl.Name.Name != "GetAndUpdate" || w.decl.Recv != nil {
		return
	}
	id, ok := call.Fun.(*ast.Ident)
	if !ok {
		return
	}
	v, ok := w.obj(id).(*types.Var)
	if !ok || v.IsField() {
		return
	}
	mode := ""
	for l, m := range c.locks {
		if strings.HasPrefix(l, "param:") {
			mode = m
		}
	}
	if old, seen := gauModes[id.Name]; seen {
		if old == "" || mode == "" {
			mode = ""
		} else if old == "R" || mode == "R" {
			mode = "R"
		}
	}
	gauModes[id.Name] = mode
}

func (w *walker) stmt(s ast.Stmt, c *ctx, top bool) (*ctx, bool) {
	switch st := s.(type) {
	case nil:
		return c, false
	case *ast.ExprStmt:
		if call, ok := st.X.(*ast.CallExpr); ok {
			if lock, op := w.lockOp(call); lock != "" {
				c = c.clone()
				switch op {
				case "Lock":
					c.locks[lock] = "X"
				case "RLock":
					if c.locks[lock] != "X" {
						c.locks[lock] = "R"
					}
				default:
					delete(c.locks, lock)
					for ch := range c.guard {
						delete(c.guard[ch], lock)
					}
				}
				return c, false
			}
			if id, ok := call.Fun.(*ast.Ident); ok && id.Name == "close" && len(call.Args) == 1 {
				if fi := w.pa.fieldOf(call.Args[0]); fi != nil {
					w.expr(call.Args[0], c, false)
					w.closer(fi.key, call.Pos(), c)
					// from here on the channel IS closed: nothing below is known to precede its close
					c = c.clone()
					delete(c.guard, fi.key)
					if top {
						delete(c.po, fi.key)
					}
					return c, false
				}
			}
			if id, ok := call.Fun.(*ast.Ident); ok && id.Name == "panic" {
				w.expr(st.X, c, false)
				return c, true
			}
			// X.cond.Wait(): releases the cond's mutex and re-acquires it before returning; what was
			// checked under the lock before the wait (a channel still open) is not known afterwards
			if se, ok := call.Fun.(*ast.SelectorExpr); ok && se.Sel.Name == "Wait" {
				if fi := w.pa.fieldOf(se.X); fi != nil && fi.cond {
					w.expr(se.X, c, false)
					lk := w.pa.condLock[fi.key]
					if lk == "" || lk == "?" || c.locks[lk] != "X" {
						// waiting without holding the cond's mutex (or on a cond whose mutex is unknown)
						w.site(fi.key+"!wait-without-its-mutex", "W", se.Sel.Pos(), newCtx(), false)
					}
					c = c.clone()
					for ch := range c.guard {
						delete(c.guard[ch], lk)
					}
					return c, false
				}
			}
		}
		w.expr(st.X, c, false)
		return c, false
	case *ast.DeferStmt:
		if lock, _ := w.lockOp(st.Call); lock != "" {
			return c, false // released when the function returns
		}
		w.callDetached(st.Call, c, false)
		return c, false
	case *ast.GoStmt:
		w.callDetached(st.Call, c, true)
		return c, false
	case *ast.AssignStmt:
		for _, r := range st.Rhs {
			w.expr(r, c, false)
		}
		for _, l := range st.Lhs {
			w.expr(l, c, true)
		}
		if len(st.Lhs) == len(st.Rhs) {
			for i := range st.Lhs {
				c = w.setAlias(st.Lhs[i], st.Rhs[i], c)
			}
		} else {
			for i := range st.Lhs {
				c = w.setAlias(st.Lhs[i], nil, c)
			}
		}
		// v, ok := <-X.c
		if len(st.Lhs) == 2 && len(st.Rhs) == 1 {
			if ch := w.recvChan(st.Rhs[0]); ch != "" {
				if id, ok := st.Lhs[1].(*ast.Ident); ok {
					if obj := w.obj(id); obj != nil {
						c = c.clone()
						c.okvar[obj] = ch
					}
				}
			}
		}
		return c, false
	case *ast.IncDecStmt:
		w.expr(st.X, c, true)
		return c, false
	case *ast.SendStmt:
		w.expr(st.Chan, c, false)
		w.expr(st.Value, c, false)
		return c, false
	case *ast.DeclStmt:
		if gd, ok := st.Decl.(*ast.GenDecl); ok {
			for _, sp := range gd.Specs {
				if vs, ok := sp.(*ast.ValueSpec); ok {
					for _, v := range vs.Values {
						w.expr(v, c, false)
					}
					if len(vs.Names) == len(vs.Values) {
						for i := range vs.Names {
							c = w.setAlias(vs.Names[i], vs.Values[i], c)
						}
					}
				}
			}
		}
		return c, false
	case *ast.ReturnStmt:
		for _, r := range st.Results {
			if fl, ok := r.(*ast.FuncLit); ok {
				w.funcLit(fl, c.detached())
				continue
			}
			w.expr(r, c, false)
		}
		return c, true
	case *ast.BranchStmt:
		return c, true
	case *ast.BlockStmt:
		return w.block(st.List, c, false)
	case *ast.LabeledStmt:
		return w.stmt(st.Stmt, c, false)
	case *ast.IfStmt:
		c, _ = w.stmt(st.Init, c, false)
		w.expr(st.Cond, c, false)
		thenC := c.clone()
		if ch := w.notOK(st.Cond, c); ch != "" {
			thenC.after[ch] = true
		}
		a, at := w.block(st.Body.List, thenC, false)
		var b *ctx
		bt := false
		if st.Else != nil {
			b, bt = w.stmt(st.Else, c.clone(), false)
		} else {
			b = c
		}
		switch {
		case at && bt:
			return c, true
		case at:
			return b, false
		case bt:
			return a, false
		}
		return meet(a, b), false
	case *ast.ForStmt:
		c, _ = w.stmt(st.Init, c, false)
		w.expr(st.Cond, c, false)
		return w.loop(st.Body, st.Post, c), false
	case *ast.RangeStmt:
		w.expr(st.X, c, false)
		// the elements are read at the start of every iteration: on entry and in whatever context the body leaves
		w.elems(st.X, c, false)
		end := w.loop(st.Body, nil, c)
		w.elems(st.X, end, false)
		return end, false
	case *ast.SwitchStmt:
		c, _ = w.stmt(st.Init, c, false)
		w.expr(st.Tag, c, false)
		return w.clauses(st.Body.List, c, false)
	case *ast.TypeSwitchStmt:
		c, _ = w.stmt(st.Init, c, false)
		c, _ = w.stmt(st.Assign, c, false)
		return w.clauses(st.Body.List, c, false)
	case *ast.SelectStmt:
		// `select { case <-X.c: return; default: }` while holding l exclusively: c is open and stays open under l
		if ch := w.guardSelect(st); ch != "" {
			w.clauses(st.Body.List, c, true)
			n := c.clone()
			if n.guard[ch] == nil {
				n.guard[ch] = map[string]bool{}
			}
			for l, m := range n.locks {
				if m == "X" {
					n.guard[ch][l] = true
				}
			}
			return n, false
		}
		return w.clauses(st.Body.List, c, true)
	}
	return c, false
}

func (w *walker) loop(body *ast.BlockStmt, post ast.Stmt, c *ctx) *ctx {
	entry := c
	for i := 0; i < 3; i++ {
		end, _ := w.block(body.List, entry.clone(), false)
		end, _ = w.stmt(post, end, false)
		m := meet(entry, end)
		if len(m.locks) == len(entry.locks) && len(m.after) == len(entry.after) {
			same := true
			for l, mo := range entry.locks {
				if m.locks[l] != mo {
					same = false
				}
			}
			if same {
				return m
			}
		}
		entry = m
	}
	return entry
}

func (w *walker) clauses(list []ast.Stmt, c *ctx, isSelect bool) (*ctx, bool) {
	var res *ctx
	hasDefault := false
	for _, cl := range list {
		cc := c.clone()
		var body []ast.Stmt
		switch k := cl.(type) {
		case *ast.CaseClause:
			if k.List == nil {
				hasDefault = true
			}
			for _, e := range k.List {
				w.expr(e, cc, false)
			}
			body = k.Body
		case *ast.CommClause:
			if k.Comm == nil {
				hasDefault = true
			}
			switch cm := k.Comm.(type) {
			case *ast.ExprStmt:
				w.expr(cm.X, cc, false)
				if ch := w.recvClosedOnly(cm.X); ch != "" {
					cc.after[ch] = true
				}
			case *ast.AssignStmt:
				cc, _ = w.stmt(cm, cc, false)
			case *ast.SendStmt:
				cc, _ = w.stmt(cm, cc, false)
			}
			body = k.Body
		}
		end, term := w.block(body, cc, false)
		if term {
			continue
		}
		if res == nil {
			res = end
		} else {
			res = meet(res, end)
		}
	}
	if !hasDefault && !isSelect {
		if res == nil {
			res = c
		} else {
			res = meet(res, c)
		}
	}
	if res == nil {
		return c, true
	}
	return res, false
}

// recvChan: e is `<-X.c` with c a table field
func (w *walker) recvChan(e ast.Expr) string {
	if u, ok := e.(*ast.UnaryExpr); ok && u.Op == token.ARROW {
		if fi := w.pa.fieldOf(u.X); fi != nil {
			return fi.key
		}
	}
	return ""
}

// recvClosedOnly: a receive on a chan struct{} field that is only ever closed
func (w *walker) recvClosedOnly(e ast.Expr) string {
	if u, ok := e.(*ast.UnaryExpr); ok && u.Op == token.ARROW {
		if fi := w.pa.fieldOf(u.X); fi != nil && fi.closeOnly {
			return fi.key
		}
	}
	return ""
}

func (w *walker) obj(id *ast.Ident) types.Object {
	if o := w.pa.info.Defs[id]; o != nil {
		return o
	}
	return w.pa.info.Uses[id]
}

// notOK: cond is `!ok` with ok from `v, ok := <-X.c`
func (w *walker) notOK(cond ast.Expr, c *ctx) string {
	if u, ok := cond.(*ast.UnaryExpr); ok && u.Op == token.NOT {
		if id, ok := u.X.(*ast.Ident); ok {
			if o := w.obj(id); o != nil {
				return c.okvar[o]
			}
		}
	}
	return ""
}

func (w *walker) guardSelect(st *ast.SelectStmt) string {
	if len(st.Body.List) != 2 {
		return ""
	}
	ch := ""
	def := false
	for _, cl := range st.Body.List {
		k := cl.(*ast.CommClause)
		if k.Comm == nil {
			def = len(k.Body) == 0
			continue
		}
		es, ok := k.Comm.(*ast.ExprStmt)
		if !ok {
			return ""
		}
		c := w.recvClosedOnly(es.X)
		if c == "" || len(k.Body) == 0 {
			return ""
		}
		if _, ok := k.Body[len(k.Body)-1].(*ast.ReturnStmt); !ok {
			return ""
		}
		ch = c
	}
	if !def {
		return ""
	}
	return ch
}

// ---- expressions ----

func (w *walker) rootIdent(e ast.Expr) *ast.Ident {
	for {
		switch x := e.(type) {
		case *ast.Ident:
			return x
		case *ast.SelectorExpr:
			e = x.X
		case *ast.IndexExpr:
			e = x.X
		case *ast.StarExpr:
			e = x.X
		case *ast.ParenExpr:
			e = x.X
		default:
			return nil
		}
	}
}

// isInit: the access is made on an object that is still under construction, or on memory private to
// the executing function (a struct held by value in a local/parameter, a local object built from a
// composite literal that has not been handed to anybody yet)
func (w *walker) isInit(e ast.Expr, c *ctx) bool {
	if w.privateRoot(e) {
		return true
	}
	if c.forked {
		return false
	}
	if c.init {
		return true
	}
	id := w.rootIdent(e)
	if id == nil {
		return false
	}
	o := w.obj(id)
	v, ok := o.(*types.Var)
	if !ok || v.IsField() {
		return false
	}
	if c.fresh[o] {
		return true
	}
	fd := w.decl
	if fd == nil || !(v.Pos() >= fd.Pos() && v.Pos() <= fd.End()) {
		return false
	}
	if isCtorName(fd.Name.Name) && fd.Recv == nil {
		// a local (not a parameter) of a constructor
		return v.Pos() >= fd.Body.Pos()
	}
	if isOptionCtor(fd) {
		// the parameter of the option's function literal
		inLit := false
		ast.Inspect(fd.Body, func(n ast.Node) bool {
			if fl, ok := n.(*ast.FuncLit); ok {
				for _, p := range fl.Type.Params.List {
					for _, nm := range p.Names {
						if w.pa.info.Defs[nm] == o {
							inLit = true
						}
					}
				}
			}
			return true
		})
		return inLit
	}
	return false
}

// isOptionCtor: a function without receiver named With... or whose result type is an ...Option type:
// the function literal it returns is applied to the object under construction (config, request, server)
func isOptionCtor(fd *ast.FuncDecl) bool {
	if fd.Recv != nil {
		return false
	}
	if strings.HasPrefix(fd.Name.Name, "With") {
		return true
	}
	if fd.Type.Results != nil && len(fd.Type.Results.List) == 1 {
		return strings.HasSuffix(typeString(fd.Type.Results.List[0].Type), "Option")
	}
	return false
}

// privateRoot: e selects, without following a pointer, a field of a struct held BY VALUE in a local
// variable or parameter of the function being walked (a private copy); or e goes through a local that
// was defined from a composite literal / new(T) in this function and has not yet been used on its own
// (handed to a call, sent, stored, returned, captured): nobody else can reach that object yet.
func (w *walker) privateRoot(e ast.Expr) bool {
	id := w.rootIdent(e)
	if id == nil || w.decl == nil {
		return false
	}
	o := w.obj(id)
	v, ok := o.(*types.Var)
	if !ok || v.IsField() || !within(v.Pos(), w.decl) {
		return false
	}
	// by value all the way
	byValue := true
	for x := e; byValue; {
		switch y := x.(type) {
		case *ast.SelectorExpr:
			tv, ok := w.pa.info.Types[y.X]
			if !ok || tv.Type == nil {
				byValue = false
				break
			}
			if _, isStruct := tv.Type.Underlying().(*types.Struct); !isStruct {
				byValue = false
			}
			x = y.X
			continue
		case *ast.ParenExpr:
			x = y.X
			continue
		case *ast.Ident:
		default:
			byValue = false
		}
		break
	}
	if byValue {
		if _, isSel := e.(*ast.SelectorExpr); isSel {
			return true
		}
	}
	esc, ok := w.freshLocals()[o]
	return ok && e.Pos() < esc
}

// freshLocals: for the function being walked, the locals defined from &T{...} / T{...} / new(T), with
// the position of their first use on their own (NoPos+max when there is none)
func (w *walker) freshLocals() map[types.Object]token.Pos {
	if w.pa.fresh == nil {
		w.pa.fresh = map[*ast.FuncDecl]map[types.Object]token.Pos{}
	}
	if m, ok := w.pa.fresh[w.decl]; ok {
		return m
	}
	m := map[types.Object]token.Pos{}
	w.pa.fresh[w.decl] = m
	isFreshExpr := func(r ast.Expr) bool {
		switch x := r.(type) {
		case *ast.UnaryExpr:
			if x.Op == token.AND {
				_, ok := x.X.(*ast.CompositeLit)
				return ok
			}
		case *ast.CompositeLit:
			return true
		case *ast.CallExpr:
			if f, ok := x.Fun.(*ast.Ident); ok && f.Name == "new" {
				return true
			}
		}
		return false
	}
	const never = token.Pos(1 << 40)
	ast.Inspect(w.decl, func(n ast.Node) bool {
		switch s := n.(type) {
		case *ast.AssignStmt:
			if s.Tok == token.DEFINE && len(s.Lhs) == len(s.Rhs) {
				for i, l := range s.Lhs {
					if id, ok := l.(*ast.Ident); ok && isFreshExpr(s.Rhs[i]) {
						if o := w.pa.info.Defs[id]; o != nil {
							m[o] = never
						}
					}
				}
			}
		case *ast.ValueSpec:
			if len(s.Names) == len(s.Values) {
				for i, id := range s.Names {
					if isFreshExpr(s.Values[i]) {
						if o := w.pa.info.Defs[id]; o != nil {
							m[o] = never
						}
					}
				}
			}
		}
		return true
	})
	if len(m) == 0 {
		return m
	}
	// uses that are not the root of a selection / index / dereference are uses of the object on its own
	rooted := map[token.Pos]bool{}
	ast.Inspect(w.decl, func(n ast.Node) bool {
		switch x := n.(type) {
		case *ast.SelectorExpr:
			if id, ok := x.X.(*ast.Ident); ok {
				rooted[id.Pos()] = true
			}
		case *ast.IndexExpr:
			if id, ok := x.X.(*ast.Ident); ok {
				rooted[id.Pos()] = true
			}
		case *ast.StarExpr:
			if id, ok := x.X.(*ast.Ident); ok {
				rooted[id.Pos()] = true
			}
		case *ast.CallExpr:
			// putting the object into a context value does not hand it to anybody yet
			name := calleeName(x)
			if strings.HasPrefix(name, "NewContext") || name == "WithValue" {
				for _, a := range x.Args {
					if id, ok := a.(*ast.Ident); ok {
						rooted[id.Pos()] = true
					}
				}
			}
		}
		return true
	})
	ast.Inspect(w.decl, func(n ast.Node) bool {
		if id, ok := n.(*ast.Ident); ok && !rooted[id.Pos()] {
			if o := w.pa.info.Uses[id]; o != nil {
				if esc, ok := m[o]; ok && id.Pos() < esc {
					m[o] = id.Pos()
				}
			}
		}
		return true
	})
	return m
}

func (w *walker) site(loc, kind string, pos token.Pos, c *ctx, init bool) {
	file, line := w.pa.rel(pos)
	row := siteRow{Loc: loc, Kind: kind, Init: init, Fn: file + ":" + fnName(w.decl), Pos: fmt.Sprintf("%s:%d", file, line)}
	if !init {
		for l, m := range c.locks {
			row.Locks = append(row.Locks, lockMode{l, m})
		}
		sort.Slice(row.Locks, func(i, j int) bool { return row.Locks[i].Lock < row.Locks[j].Lock })
		for ch := range c.after {
			row.After = append(row.After, ch)
		}
		sort.Strings(row.After)
		for ch := range c.po {
			row.Before = append(row.Before, beforeTag{Kind: "PO", Chan: ch})
		}
		for ch, ls := range c.guard {
			for l := range ls {
				if c.locks[l] == "X" {
					row.Before = append(row.Before, beforeTag{Kind: "Guard", Chan: ch, Lock: l})
				}
			}
		}
		sort.Slice(row.Before, func(i, j int) bool { return fmt.Sprint(row.Before[i]) < fmt.Sprint(row.Before[j]) })
	}
	k := fmt.Sprint(row)
	if w.pa.seen[k] {
		return
	}
	w.pa.seen[k] = true
	w.pa.out.Sites = append(w.pa.out.Sites, row)
}

func (w *walker) closer(ch string, pos token.Pos, c *ctx) {
	file, line := w.pa.rel(pos)
	row := closerRow{Chan: ch, Fn: file + ":" + fnName(w.decl), Pos: fmt.Sprintf("%s:%d", file, line)}
	for l, m := range c.locks {
		row.Locks = append(row.Locks, lockMode{l, m})
	}
	sort.Slice(row.Locks, func(i, j int) bool { return row.Locks[i].Lock < row.Locks[j].Lock })
	k := fmt.Sprint(row)
	if w.pa.seenC[k] {
		return
	}
	w.pa.seenC[k] = true
	w.pa.out.Closers = append(w.pa.out.Closers, row)
}

// pointeeOf: e denotes an object that is not safe for concurrent use (a field of pointee type, or a
// parameter bound to one)
func (w *walker) pointeeOf(e ast.Expr, c *ctx) string {
	if fi := w.pa.fieldOf(e); fi != nil && fi.pointee {
		return fi.key + ".*"
	}
	if id, ok := e.(*ast.Ident); ok {
		if o := w.obj(id); o != nil {
			return c.bind[o]
		}
	}
	return ""
}

// contentsOf: e is a view of the elements of a slice/map field (the field itself, a slice of it, a local
// that copied its header, or append(<such a view>, ...) whose result may share the backing array)
func (w *walker) contentsOf(e ast.Expr, c *ctx) string {
	switch x := e.(type) {
	case *ast.ParenExpr:
		return w.contentsOf(x.X, c)
	case *ast.SelectorExpr:
		if fi := w.pa.fieldOf(x); fi != nil && fi.container {
			return fi.key + "[]"
		}
	case *ast.SliceExpr:
		return w.contentsOf(x.X, c)
	case *ast.Ident:
		if o := w.obj(x); o != nil {
			return c.alias[o]
		}
	case *ast.CallExpr:
		if id, ok := x.Fun.(*ast.Ident); ok && id.Name == "append" && len(x.Args) > 0 {
			return w.contentsOf(x.Args[0], c)
		}
	}
	return ""
}

// elems records an access to the elements behind e, if e is a view of a slice/map field
func (w *walker) elems(e ast.Expr, c *ctx, write bool) {
	if loc := w.contentsOf(e, c); loc != "" {
		k := "R"
		if write {
			k = "W"
		}
		w.site(loc, k, e.Pos(), c, w.isInit(e, c))
	}
}

// setAlias: after `lhs = rhs` the local lhs is (or stops being) a view of a field's elements
func (w *walker) setAlias(lhs, rhs ast.Expr, c *ctx) *ctx {
	id, ok := lhs.(*ast.Ident)
	if !ok || id.Name == "_" {
		return c
	}
	o := w.obj(id)
	if o == nil {
		return c
	}
	if v, ok := o.(*types.Var); !ok || v.IsField() {
		return c
	}
	loc := ""
	if rhs != nil {
		loc = w.contentsOf(rhs, c)
	}
	if loc == c.alias[o] {
		return c
	}
	c = c.clone()
	if loc == "" {
		delete(c.alias, o)
	} else {
		c.alias[o] = loc
	}
	return c
}

func (w *walker) expr(e ast.Expr, c *ctx, write bool) {
	switch x := e.(type) {
	case nil:
	case *ast.Ident:
	case *ast.BasicLit:
	case *ast.SelectorExpr:
		w.expr(x.X, c, false)
		if sel := w.pa.info.Selections[x]; sel != nil && sel.Kind() == types.FieldVal {
			// promoted fields: the embedded fields on the way are read
			if idx := sel.Index(); len(idx) > 1 {
				t := sel.Recv()
				for _, i := range idx[:len(idx)-1] {
					st := derefStruct(t)
					if st == nil {
						break
					}
					f := st.Field(i)
					if fi := w.pa.fields[f]; fi != nil && !fi.skip {
						w.site(fi.key, "R", x.Pos(), c, w.isInit(x, c))
					}
					t = f.Type()
				}
			}
			if fi := w.pa.fieldOf(x); fi != nil && !fi.skip {
				k := "R"
				if write {
					k = "W"
				}
				w.site(fi.key, k, x.Sel.Pos(), c, w.isInit(x, c))
			}
		}
	case *ast.CallExpr:
		w.call(x, c, false)
	case *ast.IndexExpr:
		w.expr(x.X, c, write) // m[k] = v writes m
		w.expr(x.Index, c, false)
		w.elems(x.X, c, write)
	case *ast.SliceExpr:
		w.expr(x.X, c, false)
		w.expr(x.Low, c, false)
		w.expr(x.High, c, false)
		w.expr(x.Max, c, false)
	case *ast.StarExpr:
		w.expr(x.X, c, write)
	case *ast.ParenExpr:
		w.expr(x.X, c, write)
	case *ast.UnaryExpr:
		if x.Op == token.AND {
			if fi := w.pa.fieldOf(x.X); fi != nil && !fi.skip {
				w.expr(x.X, c, true) // the address escapes
				return
			}
		}
		w.expr(x.X, c, false)
	case *ast.BinaryExpr:
		w.expr(x.X, c, false)
		w.expr(x.Y, c, false)
	case *ast.KeyValueExpr:
		w.expr(x.Value, c, false)
	case *ast.TypeAssertExpr:
		w.expr(x.X, c, false)
	case *ast.CompositeLit:
		w.composite(x, c)
	case *ast.FuncLit:
		w.funcLit(x, c.detached())
	}
}

func derefStruct(t types.Type) *types.Struct {
	if p, ok := t.Underlying().(*types.Pointer); ok {
		t = p.Elem()
	}
	st, _ := t.Underlying().(*types.Struct)
	return st
}

func (w *walker) composite(x *ast.CompositeLit, c *ctx) {
	var st *types.Struct
	if tv, ok := w.pa.info.Types[x]; ok && tv.Type != nil {
		st = derefStruct(tv.Type)
	}
	for _, el := range x.Elts {
		if kv, ok := el.(*ast.KeyValueExpr); ok {
			if id, ok := kv.Key.(*ast.Ident); ok && st != nil {
				for i := 0; i < st.NumFields(); i++ {
					if st.Field(i).Name() == id.Name {
						if fi := w.pa.fields[st.Field(i)]; fi != nil && !fi.skip {
							w.site(fi.key, "W", id.Pos(), c, true)
						}
					}
				}
			}
			w.expr(kv.Value, c, false)
			continue
		}
		w.expr(el, c, false)
	}
}

func (w *walker) funcLit(fl *ast.FuncLit, c *ctx) {
	c = c.clone()
	c.po = map[string]bool{}
	w.block(fl.Body.List, c, false)
}

// callDetached: `go f(args)` / `defer f(args)`: the operands are evaluated here, the body runs
// later or elsewhere, with none of the locks held now.
func (w *walker) callDetached(call *ast.CallExpr, c *ctx, isGo bool) {
	for _, a := range call.Args {
		if _, ok := a.(*ast.FuncLit); !ok {
			w.expr(a, c, false)
		}
	}
	if fl, ok := call.Fun.(*ast.FuncLit); ok {
		d := c.detached()
		d.forked = d.forked || isGo
		w.funcLit(fl, d)
		return
	}
	if se, ok := call.Fun.(*ast.SelectorExpr); ok {
		w.expr(se.X, c, false)
	}
	d := c.detached()
	d.forked = d.forked || isGo
	if id, ok := call.Fun.(*ast.Ident); ok && id.Name == "close" && len(call.Args) == 1 {
		if fi := w.pa.fieldOf(call.Args[0]); fi != nil {
			w.closer(fi.key, call.Pos(), d)
			return
		}
	}
	if fn := w.pa.callee(call); fn != nil {
		w.inline(fn, call, d, c)
	}
}

// call handles a call expression evaluated in place
func (w *walker) call(call *ast.CallExpr, c *ctx, _ bool) {
	// builtins
	if id, ok := call.Fun.(*ast.Ident); ok {
		switch id.Name {
		case "delete":
			if len(call.Args) == 2 {
				w.expr(call.Args[0], c, true)
				w.expr(call.Args[1], c, false)
				w.elems(call.Args[0], c, true)
				return
			}
		case "append":
			if _, isBuiltin := w.obj(id).(*types.Builtin); isBuiltin || w.obj(id) == nil {
				for _, a := range call.Args {
					w.expr(a, c, false)
				}
				if len(call.Args) > 0 {
					w.elems(call.Args[0], c, true) // may write in place, beyond len
					for _, a := range call.Args[1:] {
						w.elems(a, c, false)
					}
				}
				return
			}
		case "copy":
			if len(call.Args) == 2 {
				w.expr(call.Args[0], c, false)
				w.expr(call.Args[1], c, false)
				w.elems(call.Args[0], c, true)
				w.elems(call.Args[1], c, false)
				return
			}
		case "len", "cap":
			for _, a := range call.Args {
				w.expr(a, c, false)
			}
			return
		case "close":
			if len(call.Args) == 1 {
				if fi := w.pa.fieldOf(call.Args[0]); fi != nil {
					w.expr(call.Args[0], c, false)
					w.closer(fi.key, call.Pos(), c)
					return
				}
			}
		}
	}
	// a function literal called in place (go func(){...}(), defer func(){...}())
	if fl, ok := call.Fun.(*ast.FuncLit); ok {
		for _, a := range call.Args {
			w.expr(a, c, false)
		}
		w.funcLit(fl, c)
		return
	}
	// resource.GetAndUpdate(&X.mu, get, change, save)
	if name := calleeName(call); name == "GetAndUpdate" && len(call.Args) == 4 {
		mu := ""
		if u, ok := call.Args[0].(*ast.UnaryExpr); ok && u.Op == token.AND {
			if fi := w.pa.fieldOf(u.X); fi != nil && fi.mutex {
				mu = fi.key
			}
		}
		if mu != "" {
			modes := []string{"", "", ""}
			if fd := w.pa.funcByName("GetAndUpdate"); fd != nil {
				i := 0
				for _, p := range fd.Type.Params.List {
					for _, nm := range p.Names {
						if i >= 1 && i <= 3 {
							modes[i-1] = gauModes[nm.Name]
						}
						i++
					}
				}
			}
			for i, a := range call.Args[1:] {
				cc := c.clone()
				if modes[i] != "" {
					if !(modes[i] == "R" && cc.locks[mu] == "X") {
						cc.locks[mu] = modes[i]
					}
				}
				if fl, ok := a.(*ast.FuncLit); ok {
					w.funcLit(fl, cc)
				} else {
					w.expr(a, c, false)
				}
			}
			return
		}
	}
	w.noteParamCall(call, c)
	// receiver and arguments
	if se, ok := call.Fun.(*ast.SelectorExpr); ok {
		if sel := w.pa.info.Selections[se]; sel != nil && sel.Kind() == types.FieldVal {
			w.expr(se, c, false) // a field of function type is read, then called
		} else {
			w.expr(se.X, c, false)
		}
		if p := w.pointeeOf(se.X, c); p != "" {
			w.site(p, "W", se.Sel.Pos(), c, false) // a method of a non-thread-safe object
		}
	}
	fn := w.pa.callee(call)
	for _, a := range call.Args {
		if fl, ok := a.(*ast.FuncLit); ok {
			w.funcLit(fl, c.clone()) // a callback run by the callee, in the caller's context
			continue
		}
		w.expr(a, c, false)
		if p := w.pointeeOf(a, c); p != "" && fn == nil {
			w.site(p, "W", a.Pos(), c, false) // handed to code outside the package
		}
		if fn == nil {
			// elements handed to code outside the package: read there (sorted in place by sort.* / slices.Sort*)
			name := calleeName(call)
			w.elems(a, c, strings.HasPrefix(name, "Sort") || name == "Slice" || name == "SliceStable" || name == "Stable" || name == "Reverse")
		}
	}
	if fn == nil {
		return
	}
	w.inline(fn, call, c, c)
}

// inline walks the body of a function of the same package in context c; argCtx is where the
// arguments were evaluated (for parameter bindings).
func (w *walker) inline(fn *types.Func, call *ast.CallExpr, c, argCtx *ctx) {
	for _, f := range w.stack {
		if f == fn {
			return
		}
	}
	if len(w.stack) > 6 {
		return
	}
	fd := w.pa.funcs[fn]
	cc := c.clone()
	cc.init = false
	i := 0
	for _, p := range fd.Type.Params.List {
		for _, nm := range p.Names {
			if i < len(call.Args) {
				if pt := w.pointeeOf(call.Args[i], argCtx); pt != "" {
					if o := w.pa.info.Defs[nm]; o != nil {
						cc.bind[o] = pt
					}
				}
				if loc := w.contentsOf(call.Args[i], argCtx); loc != "" {
					if o := w.pa.info.Defs[nm]; o != nil {
						cc.alias[o] = loc
					}
				}
				if w.freshArg(call.Args[i], argCtx) {
					if o := w.pa.info.Defs[nm]; o != nil {
						cc.fresh[o] = true
					}
				}
			}
			i++
		}
	}
	if se, ok := call.Fun.(*ast.SelectorExpr); ok && fd.Recv != nil && len(fd.Recv.List) == 1 && len(fd.Recv.List[0].Names) == 1 {
		if w.freshArg(se.X, argCtx) {
			if o := w.pa.info.Defs[fd.Recv.List[0].Names[0]]; o != nil {
				cc.fresh[o] = true
			}
		}
	}
	w.stack = append(w.stack, fn)
	w.walkFunc(fd, cc)
	w.stack = w.stack[:len(w.stack)-1]
}

// freshArg: the argument is (the address of) an object under construction in / private to the caller
func (w *walker) freshArg(a ast.Expr, c *ctx) bool {
	addr := false
	if u, ok := a.(*ast.UnaryExpr); ok && u.Op == token.AND {
		a, addr = u.X, true
	}
	if p, ok := a.(*ast.ParenExpr); ok {
		a = p.X
	}
	id, ok := a.(*ast.Ident)
	if !ok {
		return false
	}
	o := w.obj(id)
	if v, ok := o.(*types.Var); !ok || v.IsField() {
		return false
	}
	sel := &ast.SelectorExpr{X: id, Sel: ast.NewIdent("_")}
	if addr {
		return w.isInit(sel, c) // the address of a private struct / of a constructor's local
	}
	if c.fresh[o] {
		return true
	}
	if _, byValue := o.Type().Underlying().(*types.Struct); byValue {
		return false // a copy is passed
	}
	if w.decl != nil && within(o.Pos(), w.decl) {
		if esc, ok := w.freshLocals()[o]; ok && id.Pos() <= esc {
			return true
		}
	}
	if c.forked {
		return false
	}
	return w.isInit(sel, c)
}

func calleeName(call *ast.CallExpr) string {
	switch f := call.Fun.(type) {
	case *ast.Ident:
		return f.Name
	case *ast.SelectorExpr:
		return f.Sel.Name
	}
	return ""
}

// ---- locals shared with the goroutines a function starts (every package) ----
//
// For every function that starts goroutines with `go func(){...}()`, each local variable that such a
// literal captures is a location "<pkg>.<Func>.<var>" (and "<...>.chan" for the channel object it holds:
// close is a write of it, a send a read - the race detector's view).  A site is placed in its thread
// (the innermost go literal around it, or the function's own thread) and gets the happens-before facts
// the model knows, each as a virtual channel:
//   go:G   closed by the go statement that starts literal G; sites of the parent thread before that go
//          statement are BPO go:G (unless a loop around both would let a later iteration's site follow an
//          earlier iteration's fork of a variable declared outside the loop), sites inside G are after go:G;
//   end:G / ret:F   closed when the goroutine / the function's own thread ends: all sites of one thread are
//          BPO of it (same thread); a literal started in a loop, for a variable declared outside that loop
//          (several instances of the literal share it), is represented by two instances G#1 and G#2 with
//          their own go:/end:/wg: channels, so that a row of one instance meets the same row of the other;
//   wg:W@G closed by W.Done() in G (W a sync.WaitGroup local with W.Add(...) before the go statement):
//          sites of G before its Done (all of them when it is deferred) are BPO wg:W@G, sites that follow a
//          top-level W.Wait() in another thread are after wg:W@G.

type goLit struct {
	fl     *ast.FuncLit
	goPos  token.Pos
	parent *goLit
	name   string
}

func (pa *pkgAn) sharedLocals() {
	var fds []*ast.FuncDecl
	for _, fd := range pa.funcs {
		fds = append(fds, fd)
	}
	sort.Slice(fds, func(i, j int) bool { return fds[i].Pos() < fds[j].Pos() })
	for _, fd := range fds {
		pa.sharedLocalsOf(fd)
	}
}

func within(p token.Pos, n ast.Node) bool { return p >= n.Pos() && p <= n.End() }

func (pa *pkgAn) sharedLocalsOf(fd *ast.FuncDecl) {
	file, _ := pa.rel(fd.Pos())
	fname := file + ":" + fnName(fd)
	var lits []*goLit
	var loops []ast.Node
	ast.Inspect(fd.Body, func(n ast.Node) bool {
		switch x := n.(type) {
		case *ast.GoStmt:
			if fl, ok := x.Call.Fun.(*ast.FuncLit); ok {
				_, line := pa.rel(x.Pos())
				lits = append(lits, &goLit{fl: fl, goPos: x.Pos(), name: fmt.Sprintf("%s.%s@%d", pa.short, fnName(fd), line)})
			}
		case *ast.ForStmt, *ast.RangeStmt:
			loops = append(loops, n)
		}
		return true
	})
	if len(lits) == 0 {
		return
	}
	threadOf := func(p token.Pos) *goLit {
		var best *goLit
		for _, g := range lits {
			if within(p, g.fl) && (best == nil || g.fl.Pos() > best.fl.Pos()) {
				best = g
			}
		}
		return best
	}
	for _, g := range lits {
		// the thread that executes the go statement
		var best *goLit
		for _, h := range lits {
			if h != g && within(g.goPos, h.fl) && (best == nil || h.fl.Pos() > best.fl.Pos()) {
				best = h
			}
		}
		g.parent = best
	}
	// a loop around both p and q that does not contain the declaration of v
	loopAround := func(v types.Object, p, q token.Pos) bool {
		for _, l := range loops {
			if within(p, l) && within(q, l) && !within(v.Pos(), l) {
				return true
			}
		}
		return false
	}
	// several instances of g (or of a thread it descends from) may share v
	multi := func(g *goLit, v types.Object) bool {
		for h := g; h != nil; h = h.parent {
			if within(v.Pos(), h.fl) {
				return false
			}
			if loopAround(v, h.goPos, h.goPos) {
				return true
			}
		}
		return false
	}
	// captured variables: used in a goroutine that did not declare them
	captured := map[types.Object]bool{}
	uses := map[types.Object][]*ast.Ident{}
	ast.Inspect(fd, func(n ast.Node) bool {
		id, ok := n.(*ast.Ident)
		if !ok {
			return true
		}
		v, ok := pa.info.Uses[id].(*types.Var)
		if !ok || v.IsField() || v.Pkg() == nil || v.Parent() == v.Pkg().Scope() {
			return true
		}
		if !within(v.Pos(), fd) {
			return true
		}
		uses[v] = append(uses[v], id)
		if g := threadOf(id.Pos()); g != nil && g != threadOf(v.Pos()) {
			captured[v] = true
		}
		return true
	})
	if len(captured) == 0 {
		return
	}
	w := &walker{pa: pa, decl: fd}
	writes := map[token.Pos]bool{}
	ast.Inspect(fd, func(n ast.Node) bool {
		switch s := n.(type) {
		case *ast.AssignStmt:
			if s.Tok != token.DEFINE {
				for _, l := range s.Lhs {
					if id := w.rootIdent(l); id != nil {
						if _, direct := l.(*ast.Ident); direct {
							writes[id.Pos()] = true
						} else if _, sel := l.(*ast.SelectorExpr); sel {
							// v.f = x on a struct held by value writes v; through a pointer it does not
							if o := pa.info.Uses[id]; o != nil {
								if _, isPtr := o.Type().Underlying().(*types.Pointer); !isPtr {
									writes[id.Pos()] = true
								}
							}
						}
					}
				}
			}
		case *ast.IncDecStmt:
			if id, ok := s.X.(*ast.Ident); ok {
				writes[id.Pos()] = true
			}
		case *ast.UnaryExpr:
			if s.Op == token.AND {
				if id, ok := s.X.(*ast.Ident); ok {
					writes[id.Pos()] = true
				}
			}
		}
		return true
	})
	// WaitGroups: Done per literal, Add before the go statement, top-level Wait statements per thread
	isWG := func(v types.Object) bool {
		ok := false
		ast.Inspect(fd, func(n ast.Node) bool {
			if vs, is := n.(*ast.ValueSpec); is && vs.Type != nil && typeString(vs.Type) == "sync.WaitGroup" {
				for _, nm := range vs.Names {
					if pa.info.Defs[nm] == v {
						ok = true
					}
				}
			}
			return true
		})
		return ok
	}
	wgCall := func(s ast.Stmt, method string) (types.Object, token.Pos) {
		var call *ast.CallExpr
		switch x := s.(type) {
		case *ast.ExprStmt:
			call, _ = x.X.(*ast.CallExpr)
		case *ast.DeferStmt:
			call = x.Call
		}
		if call == nil {
			return nil, 0
		}
		se, ok := call.Fun.(*ast.SelectorExpr)
		if !ok || se.Sel.Name != method {
			return nil, 0
		}
		id, ok := se.X.(*ast.Ident)
		if !ok {
			return nil, 0
		}
		v := pa.info.Uses[id]
		if v == nil || !isWG(v) {
			return nil, 0
		}
		return v, call.Pos()
	}
	type doneInfo struct {
		pos      token.Pos // sites before pos precede the Done
		deferred bool      // all sites of the literal do
	}
	done := map[*goLit]map[types.Object]doneInfo{}
	bodyOf := func(g *goLit) []ast.Stmt {
		if g == nil {
			return fd.Body.List
		}
		return g.fl.Body.List
	}
	for _, g := range lits {
		for _, s := range bodyOf(g) {
			if v, p := wgCall(s, "Done"); v != nil {
				_, deferred := s.(*ast.DeferStmt)
				// the WaitGroup must have been Added to, in the thread that starts g, before the go statement
				added := false
				ast.Inspect(fd, func(n ast.Node) bool {
					if es, ok := n.(*ast.ExprStmt); ok {
						if v2, p2 := wgCall(es, "Add"); v2 == v && p2 < g.goPos && threadOf(p2) == g.parent {
							added = true
						}
					}
					return true
				})
				if !added {
					continue
				}
				if done[g] == nil {
					done[g] = map[types.Object]doneInfo{}
				}
				done[g][v] = doneInfo{pos: p, deferred: deferred}
			}
		}
	}
	type waitInfo struct {
		v   types.Object
		end token.Pos
	}
	waits := map[*goLit][]waitInfo{} // nil key: the function's own thread
	for _, th := range append([]*goLit{nil}, lits...) {
		for _, s := range bodyOf(th) {
			if v, _ := wgCall(s, "Wait"); v != nil {
				if _, isDefer := s.(*ast.DeferStmt); !isDefer {
					waits[th] = append(waits[th], waitInfo{v, s.End()})
				}
			}
		}
	}
	inLoop := func(g *goLit) bool {
		for _, l := range loops {
			if within(g.goPos, l) {
				return true
			}
		}
		return false
	}
	for _, g := range lits {
		_, line := pa.rel(g.goPos)
		_, eline := pa.rel(g.fl.End())
		insts := []string{g.name}
		if inLoop(g) {
			insts = append(insts, g.name+"#1", g.name+"#2")
		}
		for _, n := range insts {
			pa.addCloser(closerRow{Chan: "go:" + n, Fn: fname, Pos: fmt.Sprintf("%s:%d", file, line)})
			pa.addCloser(closerRow{Chan: "end:" + n, Fn: fname, Pos: fmt.Sprintf("%s:%d", file, eline)})
			for wv, di := range done[g] {
				_, dline := pa.rel(di.pos)
				pa.addCloser(closerRow{Chan: "wg:" + wv.Name() + "@" + n, Fn: fname, Pos: fmt.Sprintf("%s:%d", file, dline)})
			}
		}
	}
	_, rline := pa.rel(fd.End())
	retName := "ret:" + pa.short + "." + fnName(fd)
	pa.addCloser(closerRow{Chan: retName, Fn: fname, Pos: fmt.Sprintf("%s:%d", file, rline)})

	usesVar := func(g *goLit, v types.Object) bool {
		for _, id := range uses[v] {
			if within(id.Pos(), g.fl) {
				return true
			}
		}
		return false
	}
	// names: a literal of which several instances share v is represented by TWO instances (#1, #2): a row
	// of one against the same row of the other is then a pair of different threads
	names := func(g *goLit, v types.Object) []string {
		if multi(g, v) {
			return []string{g.name + "#1", g.name + "#2"}
		}
		return []string{g.name}
	}
	emit := func(v types.Object, loc string, pos token.Pos, kind string) {
		th := threadOf(pos)
		_, line := pa.rel(pos)
		insts := []string{""}
		if th != nil {
			insts = names(th, v)
		}
		for _, inst := range insts {
			row := siteRow{Loc: loc, Kind: kind, Fn: fname, Pos: fmt.Sprintf("%s:%d", file, line)}
			// started by: every go statement on the way from the thread that declares v
			for h := th; h != nil && !within(v.Pos(), h.fl); h = h.parent {
				if h == th {
					row.After = append(row.After, "go:"+inst)
				} else {
					row.After = append(row.After, "go:"+names(h, v)[0])
				}
			}
			// same thread
			if th == nil {
				row.Before = append(row.Before, beforeTag{Kind: "PO", Chan: retName})
			} else {
				row.Before = append(row.Before, beforeTag{Kind: "PO", Chan: "end:" + inst})
			}
			// before the go statements of this thread that come later
			for _, g := range lits {
				if g.parent == th && g.goPos > pos && usesVar(g, v) && !loopAround(v, pos, g.goPos) {
					for _, n := range names(g, v) {
						row.Before = append(row.Before, beforeTag{Kind: "PO", Chan: "go:" + n})
					}
				}
			}
			// before this goroutine's Done
			if th != nil {
				for wv, di := range done[th] {
					if di.deferred || pos < di.pos {
						row.Before = append(row.Before, beforeTag{Kind: "PO", Chan: "wg:" + wv.Name() + "@" + inst})
					}
				}
			}
			// after a Wait of this thread: every goroutine that calls Done on it has done so
			for _, wi := range waits[th] {
				if pos > wi.end {
					for _, g := range lits {
						if _, ok := done[g][wi.v]; ok && g != th {
							for _, n := range names(g, v) {
								row.After = append(row.After, "wg:"+wi.v.Name()+"@"+n)
							}
						}
					}
				}
			}
			sort.Strings(row.After)
			sort.Slice(row.Before, func(i, j int) bool { return fmt.Sprint(row.Before[i]) < fmt.Sprint(row.Before[j]) })
			k := fmt.Sprint(row)
			if pa.seen[k] {
				continue
			}
			pa.seen[k] = true
			pa.out.Sites = append(pa.out.Sites, row)
		}
	}
	var vars []types.Object
	for v := range captured {
		vars = append(vars, v)
	}
	sort.Slice(vars, func(i, j int) bool { return vars[i].Pos() < vars[j].Pos() })
	locOf := func(v types.Object) string { return pa.short + "." + fnName(fd) + "." + v.Name() }
	for _, v := range vars {
		emit(v, locOf(v), v.Pos(), "W") // the declaration
		for _, id := range uses[v] {
			kind := "R"
			if writes[id.Pos()] {
				kind = "W"
			}
			emit(v, locOf(v), id.Pos(), kind)
		}
	}
	// borrowed objects: a PARAMETER that refers to a message (any / proto.Message / *pkg.Msg) belongs to the
	// caller, who may write the object again as soon as the function has returned.  When a goroutine started
	// here captures the parameter, every use inside that goroutine is an access of the object ("<var>.*",
	// taken as a write: what the goroutine does with it is not followed), and the function's return is the
	// owner's next write: ordered only if the function waits for the goroutine (WaitGroup) before it returns.
	params := map[types.Object]string{}
	if fd.Type.Params != nil {
		for _, f := range fd.Type.Params.List {
			for _, nm := range f.Names {
				if o := pa.info.Defs[nm]; o != nil {
					params[o] = typeString(f.Type)
				}
			}
		}
	}
	for _, v := range vars {
		ts, isParam := params[v]
		if !isParam || !borrowedMessageType(ts) {
			continue
		}
		n := 0
		for _, id := range uses[v] {
			if threadOf(id.Pos()) != nil {
				emit(v, locOf(v)+".*", id.Pos(), "W")
				n++
			}
		}
		if n > 0 {
			emit(v, locOf(v)+".*", fd.Body.Rbrace, "W") // the owner, after the return
		}
	}
	// the channel objects held by captured variables: close writes, send reads
	ast.Inspect(fd, func(n ast.Node) bool {
		switch x := n.(type) {
		case *ast.SendStmt:
			if id, ok := x.Chan.(*ast.Ident); ok {
				if v := pa.info.Uses[id]; v != nil && captured[v] {
					emit(v, locOf(v)+".chan", id.Pos(), "R")
				}
			}
		case *ast.CallExpr:
			if f, ok := x.Fun.(*ast.Ident); ok && f.Name == "close" && len(x.Args) == 1 {
				if id, ok := x.Args[0].(*ast.Ident); ok {
					if v := pa.info.Uses[id]; v != nil && captured[v] {
						emit(v, locOf(v)+".chan", id.Pos(), "W")
					}
				}
			}
		}
		return true
	})
}

// ---- message objects handed over on channel fields ----
//
// A value sent on a channel FIELD of a table struct whose element type can hold a reference is an object
// that crosses to another goroutine: location "<field>.msg".  The rule of the table is "a pointer sent on a
// channel is either a fresh copy or never touched again by the sender":
//   send of a FRESH value (proto.Clone(..), a composite literal / new / make, a call of a same-package copier -
//     every return gives a fresh value, `return m` only after the failed assertion that m is a message -, a
//     local defined from such a value and not mentioned after the send)
//        -> row W, construction phase: the copy is made before the send publishes it (virtual channel pub);
//   send of anything else (a parameter, a field, a received value, an unknown call result): the sender's side
//     keeps a reference, its owner may write the object at any later time
//        -> row W, not construction, BPO "ret:owner(<loc>)" (all the keepers' accesses are the one owner's);
//   every use of a variable bound to a value RECEIVED from the field (v := <-X.c / v, ok := <-X.c /
//     for v := range X.c, also as select cases) and every `<-X.c` used as an operand
//        -> row R, not construction (first use of the published object).
// A copy row and a receive row are ordered by publication; a keeper row and a receive row by nothing.
func (pa *pkgAn) handovers() {
	var fds []*ast.FuncDecl
	for _, fd := range pa.funcs {
		fds = append(fds, fd)
	}
	sort.Slice(fds, func(i, j int) bool { return fds[i].Pos() < fds[j].Pos() })
	for _, fd := range fds {
		pa.handoversOf(fd)
	}
}

func ownerChan(loc string) string { return "ret:owner(" + loc + ")" }

// carriesRef: values of the channel's element type can hold a reference to memory the sender can still reach
func (pa *pkgAn) carriesRef(ch ast.Expr) bool {
	tv, ok := pa.info.Types[ch]
	if !ok || tv.Type == nil {
		return true
	}
	c, ok := tv.Type.Underlying().(*types.Chan)
	if !ok {
		return true
	}
	switch t := c.Elem().Underlying().(type) {
	case *types.Basic:
		return t.Kind() == types.Invalid || t.Kind() == types.UnsafePointer
	case *types.Struct:
		return t.NumFields() > 0
	}
	return true
}

func (pa *pkgAn) handoversOf(fd *ast.FuncDecl) {
	file, _ := pa.rel(fd.Pos())
	fn := file + ":" + fnName(fd)
	emit := func(loc, kind string, pos token.Pos, init bool, before []beforeTag) {
		f, line := pa.rel(pos)
		row := siteRow{Loc: loc, Kind: kind, Init: init, Before: before, Fn: fn, Pos: fmt.Sprintf("%s:%d", f, line)}
		k := fmt.Sprint(row)
		if pa.seen[k] {
			return
		}
		pa.seen[k] = true
		pa.out.Sites = append(pa.out.Sites, row)
	}
	// loops around each node (for the "not mentioned after the send" rule)
	var loops []ast.Node
	var stack []ast.Node
	loopOf := map[ast.Node]ast.Node{}
	ast.Inspect(fd.Body, func(n ast.Node) bool {
		if n == nil {
			top := stack[len(stack)-1]
			stack = stack[:len(stack)-1]
			if len(loops) > 0 && loops[len(loops)-1] == top {
				loops = loops[:len(loops)-1]
			}
			return true
		}
		stack = append(stack, n)
		if _, ok := n.(*ast.SendStmt); ok && len(loops) > 0 {
			loopOf[n] = loops[0] // the outermost loop
		}
		switch n.(type) {
		case *ast.ForStmt, *ast.RangeStmt:
			loops = append(loops, n)
		}
		return true
	})
	bound := map[types.Object]string{} // variable bound to a received value -> location
	bind := func(lhs ast.Expr, loc string) {
		if id, ok := lhs.(*ast.Ident); ok && id.Name != "_" {
			if o := pa.info.Defs[id]; o != nil {
				bound[o] = loc
			} else if o := pa.info.Uses[id]; o != nil {
				bound[o] = loc
			}
		}
	}
	recvLoc := func(e ast.Expr) string {
		if u, ok := e.(*ast.UnaryExpr); ok && u.Op == token.ARROW {
			if fi := pa.fieldOf(u.X); fi != nil && !fi.closeOnly && pa.carriesRef(u.X) {
				return fi.key + ".msg"
			}
		}
		return ""
	}
	direct := map[ast.Expr]bool{} // receive expressions whose value is bound or dropped
	ast.Inspect(fd.Body, func(n ast.Node) bool {
		switch x := n.(type) {
		case *ast.SendStmt:
			fi := pa.fieldOf(x.Chan)
			if fi == nil || !pa.carriesRef(x.Chan) {
				return true
			}
			loc := fi.key + ".msg"
			if pa.freshValue(fd, x.Value, x, loopOf[x]) {
				emit(loc, "W", x.Arrow, true, nil)
			} else {
				emit(loc, "W", x.Arrow, false, []beforeTag{{Kind: "PO", Chan: ownerChan(loc)}})
				f, line := pa.rel(x.Arrow)
				pa.addCloser(closerRow{Chan: ownerChan(loc), Fn: fn, Pos: fmt.Sprintf("%s:%d", f, line)})
			}
		case *ast.AssignStmt:
			if len(x.Rhs) == 1 {
				if loc := recvLoc(x.Rhs[0]); loc != "" {
					direct[x.Rhs[0]] = true
					bind(x.Lhs[0], loc)
				}
			}
		case *ast.ExprStmt:
			if recvLoc(x.X) != "" {
				direct[x.X] = true
			}
		case *ast.RangeStmt:
			if fi := pa.fieldOf(x.X); fi != nil && !fi.closeOnly && x.Key != nil {
				if _, isChan := pa.info.Types[x.X].Type.Underlying().(*types.Chan); isChan && pa.carriesRef(x.X) {
					bind(x.Key, fi.key+".msg")
				}
			}
		}
		return true
	})
	ast.Inspect(fd.Body, func(n ast.Node) bool {
		switch x := n.(type) {
		case *ast.Ident:
			if o := pa.info.Uses[x]; o != nil {
				if loc, ok := bound[o]; ok {
					emit(loc, "R", x.Pos(), false, nil)
				}
			}
		case *ast.UnaryExpr:
			if loc := recvLoc(x); loc != "" && !direct[x] {
				emit(loc, "R", x.Pos(), false, nil)
			}
		}
		return true
	})
}

// freshValue: the value sent by st is an object nobody but the receiver will reach once it is sent
func (pa *pkgAn) freshValue(fd *ast.FuncDecl, e ast.Expr, st *ast.SendStmt, loop ast.Node) bool {
	if pa.freshExpr(e, 0) {
		return true
	}
	id, ok := e.(*ast.Ident)
	if !ok {
		return false
	}
	v, _ := pa.info.Uses[id].(*types.Var)
	if v == nil || v.IsField() || !within(v.Pos(), fd.Body) {
		return false // a parameter, a package variable
	}
	if loop != nil && !within(v.Pos(), loop) {
		return false // declared outside a loop around the send: a later iteration sends it again
	}
	defs, freshDefs, later := 0, 0, false
	ast.Inspect(fd.Body, func(n ast.Node) bool {
		switch x := n.(type) {
		case *ast.AssignStmt:
			for i, l := range x.Lhs {
				if li, ok := l.(*ast.Ident); ok && (pa.info.Defs[li] == v || pa.info.Uses[li] == v) {
					defs++
					if len(x.Lhs) == len(x.Rhs) && pa.freshExpr(x.Rhs[i], 0) {
						freshDefs++
					}
				}
			}
		case *ast.ValueSpec:
			for i, li := range x.Names {
				if pa.info.Defs[li] == v {
					defs++
					if len(x.Names) == len(x.Values) && pa.freshExpr(x.Values[i], 0) {
						freshDefs++
					}
				}
			}
		case *ast.Ident:
			if pa.info.Uses[x] == v && x.Pos() > st.End() {
				later = true
			}
		}
		return true
	})
	return defs > 0 && defs == freshDefs && !later
}

func (pa *pkgAn) freshExpr(e ast.Expr, depth int) bool {
	switch x := e.(type) {
	case *ast.ParenExpr:
		return pa.freshExpr(x.X, depth)
	case *ast.BasicLit:
		return true
	case *ast.Ident:
		return x.Name == "nil" || x.Name == "true" || x.Name == "false"
	case *ast.CompositeLit:
		return true
	case *ast.UnaryExpr:
		if x.Op == token.AND {
			_, ok := x.X.(*ast.CompositeLit)
			return ok
		}
	case *ast.CallExpr:
		if id, ok := x.Fun.(*ast.Ident); ok && (id.Name == "new" || id.Name == "make") && pa.info.Uses[id] != nil && pa.info.Uses[id].Pkg() == nil {
			return true
		}
		if se, ok := x.Fun.(*ast.SelectorExpr); ok {
			if p, ok := se.X.(*ast.Ident); ok {
				if _, isPkg := pa.info.Uses[p].(*types.PkgName); isPkg && p.Name == "proto" && se.Sel.Name == "Clone" {
					return true
				}
			}
		}
		if fn := pa.callee(x); fn != nil && depth < 3 {
			return pa.copier(pa.funcs[fn], depth+1)
		}
	}
	return false
}

// copier: every return of fd gives a fresh value; `return p` (a parameter) is accepted only as the last
// statement, after an `if q, ok := p.(proto.Message); ok { return <fresh> }` - what is not a message is
// returned as it is (the streams of pkg/wrap carry messages only)
func (pa *pkgAn) copier(fd *ast.FuncDecl, depth int) bool {
	if fd == nil || fd.Body == nil || fd.Type.Results == nil || len(fd.Type.Results.List) != 1 {
		return false
	}
	params := map[types.Object]bool{}
	for _, f := range fd.Type.Params.List {
		for _, id := range f.Names {
			params[pa.info.Defs[id]] = true
		}
	}
	asserted := map[types.Object]bool{} // parameters whose being a message has been tested, with a fresh return on success
	ok := true
	nret := 0
	last := fd.Body.List[len(fd.Body.List)-1]
	for _, s := range fd.Body.List {
		ifs, isIf := s.(*ast.IfStmt)
		if !isIf || ifs.Else != nil {
			continue
		}
		as, isAs := ifs.Init.(*ast.AssignStmt)
		if !isAs || len(as.Lhs) != 2 || len(as.Rhs) != 1 {
			continue
		}
		ta, isTA := as.Rhs[0].(*ast.TypeAssertExpr)
		okID, isID := ifs.Cond.(*ast.Ident)
		if !isTA || !isID || typeString(ta.Type) != "proto.Message" {
			continue
		}
		if l1, isL := as.Lhs[1].(*ast.Ident); !isL || pa.info.Defs[l1] == nil || pa.info.Uses[okID] != pa.info.Defs[l1] {
			continue
		}
		pid, isP := ta.X.(*ast.Ident)
		if !isP || !params[pa.info.Uses[pid]] || len(ifs.Body.List) == 0 {
			continue
		}
		if r, isR := ifs.Body.List[len(ifs.Body.List)-1].(*ast.ReturnStmt); isR && len(r.Results) == 1 && pa.freshExpr(r.Results[0], depth) {
			asserted[pa.info.Uses[pid]] = true
		}
	}
	ast.Inspect(fd.Body, func(n ast.Node) bool {
		if _, isLit := n.(*ast.FuncLit); isLit {
			return false
		}
		r, isR := n.(*ast.ReturnStmt)
		if !isR {
			return true
		}
		nret++
		if len(r.Results) != 1 {
			ok = false
			return true
		}
		if pa.freshExpr(r.Results[0], depth) {
			return true
		}
		if id, isID := r.Results[0].(*ast.Ident); isID && ast.Stmt(r) == last && asserted[pa.info.Uses[id]] {
			return true
		}
		ok = false
		return true
	})
	return ok && nret > 0
}

// borrowedMessageType: the (syntactic) type of a parameter through which the caller lends a message
func borrowedMessageType(ts string) bool {
	switch ts {
	case "any", "interface", "proto.Message", "protoreflect.ProtoMessage":
		return true
	}
	// a pointer to a type of another package, unless that package's objects are made for concurrent use
	if strings.HasPrefix(ts, "*") && strings.Contains(ts, ".") {
		switch strings.TrimPrefix(ts[:strings.Index(ts, ".")], "*") {
		case "sync", "atomic", "context", "grpc", "zap", "log", "slog", "time", "testing":
			return false
		}
		return true
	}
	return false
}

func (pa *pkgAn) addCloser(row closerRow) {
	k := fmt.Sprint(row)
	if pa.seenC[k] {
		return
	}
	pa.seenC[k] = true
	pa.out.Closers = append(pa.out.Closers, row)
}

// ---- Coq output ----

func coqStr(s string) string { return "\"" + strings.ReplaceAll(s, "\"", "\"\"") + "\"" }

func coqLocks(ls []lockMode) string {
	it := make([]string, len(ls))
	for i, l := range ls {
		m := "MR"
		if l.Mode == "X" {
			m = "MX"
		}
		it[i] = "(" + coqStr(l.Lock) + ", " + m + ")"
	}
	return "[" + strings.Join(it, "; ") + "]"
}

func (s siteRow) coq() string {
	k := "KR"
	if s.Kind == "W" {
		k = "KW"
	}
	bf := make([]string, len(s.Before))
	for i, b := range s.Before {
		if b.Kind == "PO" {
			bf[i] = "BPO " + coqStr(b.Chan)
		} else {
			bf[i] = "BGuard " + coqStr(b.Chan) + " " + coqStr(b.Lock)
		}
	}
	af := make([]string, len(s.After))
	for i, a := range s.After {
		af[i] = coqStr(a)
	}
	init := "false"
	if s.Init {
		init = "true"
	}
	return fmt.Sprintf("mkSite %s %s %s [%s] [%s] %s %s %s", coqStr(s.Loc), k, coqLocks(s.Locks),
		strings.Join(bf, "; "), strings.Join(af, "; "), init, coqStr(s.Fn), coqStr(s.Pos))
}

func (t *lockTable) coq() string {
	var b strings.Builder
	b.WriteString("(* GENERATED by harness/c11 (translator \"locks\") from the source tree under check. Do not edit. *)\n")
	b.WriteString("From SC Require Import Base.Prelude Race.Lockset.\nLocal Open Scope string_scope.\n\n")
	b.WriteString("Definition sites : list site := [\n")
	for i, s := range t.Sites {
		b.WriteString("  " + s.coq())
		if i+1 < len(t.Sites) {
			b.WriteString(";")
		}
		b.WriteString("\n")
	}
	b.WriteString("].\n\nDefinition closers : list closer := [\n")
	for i, c := range t.Closers {
		b.WriteString(fmt.Sprintf("  mkCloser %s %s %s %s", coqStr(c.Chan), coqLocks(c.Locks), coqStr(c.Fn), coqStr(c.Pos)))
		if i+1 < len(t.Closers) {
			b.WriteString(";")
		}
		b.WriteString("\n")
	}
	b.WriteString("].\n\nDefinition lock_table : table := mkTable sites closers.\n")
	return b.String()
}

func translateLocks(outDir string) error {
	t, err := analyse(repoDir())
	if err != nil {
		return err
	}
	return os.WriteFile(filepath.Join(outDir, "Locks.v"), []byte(t.coq()), 0o644)
}
