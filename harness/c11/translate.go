package main

// Translator "locks": reads the source of the packages below from the tree under check and emits
// coq/theories/Gen/Locks.v - for every field of the listed structs (and the locals shared with the
// goroutines of pkg/group) each access site with the locks held there and the channel-close facts
// that order it.  The analysis is deliberately simple and conservative:
//
//   - a walk of each function body tracking X.mu.Lock()/RLock()/Unlock()/RUnlock()/defer X.mu.Unlock();
//     after if/switch/select the locks held are those held on every branch that falls through;
//   - locks are named by struct field ("resource.Value.mu"): one instance of each struct is assumed;
//   - calls to functions of the same package are inlined (depth 6) with the caller's context, so a
//     helper's sites appear once per calling context; function literals passed as call arguments run
//     in the caller's context, the ones started with `go`, deferred, returned or stored run with no lock;
//   - the three function arguments of resource.GetAndUpdate(&X.mu, get, change, save) run under
//     {mu: read}, {}, {mu: exclusive} (get is called under both locks: the weaker one is recorded);
//   - statements in `case <-X.c:` (c a `chan struct{}` field) and in `if !ok {...}` after
//     `v, ok := <-X.c` run after a receive that observed c closed;
//   - statements of a function body that precede its top-level `close(X.c)` are BPO c; statements after
//     `select { case <-X.c: return ...; default: }` executed while holding lock l exclusively are BGuard c l;
//   - construction phase: composite literals, locals of functions named New*/computeConfig, and the
//     parameter of the function literal of an option constructor (With*);
//   - a method call on / passing of a field whose type is io.Reader or *rand.Rand is a WRITE of the
//     object it points to ("<field>.*"); a parameter bound to such a field keeps the binding in the callee.
//
// Types are resolved with go/types and an importer that returns empty packages: only selections on
// the package's own structs are needed, everything about foreign types is read from the syntax.

import (
	"fmt"
	"go/ast"
	"go/parser"
	"go/token"
	"go/types"
	"os"
	"path/filepath"
	"sort"
	"strings"
)

func repoDir() string {
	if d := os.Getenv("VERIF_REPO"); d != "" {
		return d
	}
	return "/repo"
}

type lockMode struct {
	Lock string `json:"lock"`
	Mode string `json:"mode"` // "R" | "X"
}
type beforeTag struct {
	Kind string `json:"kind"` // "PO" | "Guard"
	Chan string `json:"chan"`
	Lock string `json:"lock,omitempty"`
}
type siteRow struct {
	Loc    string      `json:"loc"`
	Kind   string      `json:"kind"` // "R" | "W"
	Locks  []lockMode  `json:"locks"`
	Before []beforeTag `json:"before"`
	After  []string    `json:"after"`
	Init   bool        `json:"init"`
	Fn     string      `json:"fn"`
	Pos    string      `json:"pos"`
}
type closerRow struct {
	Chan  string     `json:"chan"`
	Locks []lockMode `json:"locks"`
	Fn    string     `json:"fn"`
	Pos   string     `json:"pos"`
}
type lockTable struct {
	Sites   []siteRow
	Closers []closerRow
}

// packages and the structs whose fields are locations
var targets = []struct {
	dir     string
	short   string
	structs []string
}{
	{"pkg/resource", "resource", []string{"Value", "Collection", "config"}},
	{"internal/minibus", "minibus", []string{"Bus", "listener"}},
	{"pkg/router", "router", []string{"router"}},
	{"pkg/wrap", "wrap", []string{"ClientServerStream"}},
	{"pkg/group", "group", nil},
	{"pkg/trait/electricpb", "electricpb", []string{"Model"}},
	{"pkg/trait/wastepb", "wastepb", []string{"Model"}},
	{"pkg/trait/parentpb", "parentpb", []string{"Model"}},
	{"pkg/trait/metadatapb", "metadatapb", []string{"Model"}},
}

type fakeImporter struct{ pkgs map[string]*types.Package }

func (f *fakeImporter) Import(path string) (*types.Package, error) {
	if p, ok := f.pkgs[path]; ok {
		return p, nil
	}
	name := path[strings.LastIndex(path, "/")+1:]
	p := types.NewPackage(path, name)
	p.MarkComplete()
	f.pkgs[path] = p
	return p, nil
}

type fieldInfo struct {
	key       string // "resource.Value.value"
	skip      bool   // sync.* or embedded-by-value table struct: not a location
	mutex     bool
	pointee   bool // io.Reader, *rand.Rand
	closeOnly bool // chan struct{}
}

type pkgAn struct {
	short  string
	dir    string
	fset   *token.FileSet
	files  []*ast.File
	info   *types.Info
	fields map[*types.Var]*fieldInfo
	funcs  map[*types.Func]*ast.FuncDecl
	repo   string
	out    *lockTable
	seen   map[string]bool
	seenC  map[string]bool
}

func typeString(e ast.Expr) string {
	switch t := e.(type) {
	case *ast.Ident:
		return t.Name
	case *ast.SelectorExpr:
		return typeString(t.X) + "." + t.Sel.Name
	case *ast.StarExpr:
		return "*" + typeString(t.X)
	case *ast.ChanType:
		return "chan " + typeString(t.Value)
	case *ast.StructType:
		return "struct{}"
	case *ast.ArrayType:
		return "[]" + typeString(t.Elt)
	case *ast.MapType:
		return "map"
	case *ast.FuncType:
		return "func"
	case *ast.InterfaceType:
		return "interface"
	}
	return "?"
}

func analyse(repo string) (*lockTable, error) {
	out := &lockTable{}
	for _, tg := range targets {
		if err := analysePkg(repo, tg.dir, tg.short, tg.structs, out); err != nil {
			return nil, err
		}
	}
	sort.SliceStable(out.Sites, func(i, j int) bool {
		a, b := out.Sites[i], out.Sites[j]
		if a.Loc != b.Loc {
			return a.Loc < b.Loc
		}
		if a.Pos != b.Pos {
			return a.Pos < b.Pos
		}
		return fmt.Sprint(a) < fmt.Sprint(b)
	})
	sort.SliceStable(out.Closers, func(i, j int) bool { return fmt.Sprint(out.Closers[i]) < fmt.Sprint(out.Closers[j]) })
	return out, nil
}

func analysePkg(repo, dir, short string, structs []string, out *lockTable) error {
	fset := token.NewFileSet()
	pkgs, err := parser.ParseDir(fset, filepath.Join(repo, dir), func(fi os.FileInfo) bool {
		return !strings.HasSuffix(fi.Name(), "_test.go")
	}, parser.ParseComments)
	if err != nil {
		return err
	}
	var files []*ast.File
	for name, p := range pkgs {
		if strings.HasSuffix(name, "_test") {
			continue
		}
		var names []string
		for fn := range p.Files {
			names = append(names, fn)
		}
		sort.Strings(names)
		for _, fn := range names {
			files = append(files, p.Files[fn])
		}
	}
	info := &types.Info{
		Uses: map[*ast.Ident]types.Object{}, Defs: map[*ast.Ident]types.Object{},
		Selections: map[*ast.SelectorExpr]*types.Selection{}, Types: map[ast.Expr]types.TypeAndValue{},
	}
	conf := types.Config{Importer: &fakeImporter{pkgs: map[string]*types.Package{}}, Error: func(error) {}, FakeImportC: true}
	tpkg, _ := conf.Check("github.com/smart-core-os/sc-golang/"+dir, fset, files, info)
	if tpkg == nil {
		return fmt.Errorf("cannot type-check %s", dir)
	}
	pa := &pkgAn{short: short, dir: dir, fset: fset, files: files, info: info, fields: map[*types.Var]*fieldInfo{},
		funcs: map[*types.Func]*ast.FuncDecl{}, repo: repo, out: out, seen: map[string]bool{}, seenC: map[string]bool{}}
	want := map[string]bool{}
	for _, s := range structs {
		want[s] = true
	}
	// struct fields, from the syntax (types of foreign packages are not resolved)
	for _, f := range files {
		for _, d := range f.Decls {
			gd, ok := d.(*ast.GenDecl)
			if !ok {
				continue
			}
			for _, sp := range gd.Specs {
				ts, ok := sp.(*ast.TypeSpec)
				if !ok || !want[ts.Name.Name] {
					continue
				}
				st, ok := ts.Type.(*ast.StructType)
				if !ok {
					continue
				}
				for _, fl := range st.Fields.List {
					tstr := typeString(fl.Type)
					mk := func(id *ast.Ident) {
						v, _ := info.Defs[id].(*types.Var)
						if v == nil {
							return
						}
						fi := &fieldInfo{key: short + "." + ts.Name.Name + "." + v.Name()}
						switch {
						case strings.HasPrefix(tstr, "sync."):
							fi.skip, fi.mutex = true, tstr == "sync.Mutex" || tstr == "sync.RWMutex"
						case tstr == "minibus.Bus":
							fi.skip = true
						case tstr == "io.Reader" || tstr == "*rand.Rand":
							fi.pointee = true
						case tstr == "chan struct{}":
							fi.closeOnly = true
						}
						pa.fields[v] = fi
					}
					if len(fl.Names) == 0 {
						// embedded field: its object is found through the struct type
						continue
					}
					for _, id := range fl.Names {
						mk(id)
					}
				}
				// embedded fields
				if obj, ok := info.Defs[ts.Name].(*types.TypeName); ok {
					if stt, ok := obj.Type().Underlying().(*types.Struct); ok {
						for i := 0; i < stt.NumFields(); i++ {
							v := stt.Field(i)
							if v.Embedded() {
								if _, ok := pa.fields[v]; !ok {
									pa.fields[v] = &fieldInfo{key: short + "." + ts.Name.Name + "." + v.Name()}
								}
							}
						}
					}
				}
			}
		}
	}
	for _, f := range files {
		for _, d := range f.Decls {
			if fd, ok := d.(*ast.FuncDecl); ok && fd.Body != nil {
				if fn, ok := info.Defs[fd.Name].(*types.Func); ok {
					pa.funcs[fn] = fd
				}
			}
		}
	}
	// a send on a chan struct{} field would make "receive observed it closed" wrong
	for _, f := range files {
		ast.Inspect(f, func(n ast.Node) bool {
			if s, ok := n.(*ast.SendStmt); ok {
				if fi := pa.fieldOf(s.Chan); fi != nil {
					fi.closeOnly = false
				}
			}
			return true
		})
	}
	// resource.GetAndUpdate first: the lock mode each of its callbacks runs under
	if fd := pa.funcByName("GetAndUpdate"); fd != nil {
		gauModes = map[string]string{}
		fn := pa.info.Defs[fd.Name].(*types.Func)
		w := &walker{pa: pa, decl: fd, stack: []*types.Func{fn}}
		w.walkFunc(fd, newCtx())
	}
	// entry points: every function, with an empty context (callers add their contexts by inlining)
	var fds []*ast.FuncDecl
	for _, fd := range pa.funcs {
		fds = append(fds, fd)
	}
	sort.Slice(fds, func(i, j int) bool { return fds[i].Pos() < fds[j].Pos() })
	called := pa.calledFuncs()
	for _, fd := range fds {
		fn := pa.info.Defs[fd.Name].(*types.Func)
		if called[fn] && !fd.Name.IsExported() {
			continue // unexported and only reached through its callers
		}
		w := &walker{pa: pa, decl: fd, stack: []*types.Func{fn}}
		w.walkFunc(fd, newCtx())
	}
	if short == "group" {
		pa.groupLocals()
	}
	return nil
}

func (pa *pkgAn) funcByName(name string) *ast.FuncDecl {
	for _, fd := range pa.funcs {
		if fd.Recv == nil && fd.Name.Name == name {
			return fd
		}
	}
	return nil
}

func (pa *pkgAn) calledFuncs() map[*types.Func]bool {
	out := map[*types.Func]bool{}
	for _, f := range pa.files {
		ast.Inspect(f, func(n ast.Node) bool {
			if c, ok := n.(*ast.CallExpr); ok {
				if fn := pa.callee(c); fn != nil {
					out[fn] = true
				}
			}
			return true
		})
	}
	return out
}

func (pa *pkgAn) callee(c *ast.CallExpr) *types.Func {
	var id *ast.Ident
	switch f := c.Fun.(type) {
	case *ast.Ident:
		id = f
	case *ast.SelectorExpr:
		id = f.Sel
	}
	if id == nil {
		return nil
	}
	fn, _ := pa.info.Uses[id].(*types.Func)
	if fn == nil {
		return nil
	}
	if _, ok := pa.funcs[fn]; !ok {
		return nil
	}
	return fn
}

// fieldOf returns the table field selected by e (X.f), if any.
func (pa *pkgAn) fieldOf(e ast.Expr) *fieldInfo {
	se, ok := e.(*ast.SelectorExpr)
	if !ok {
		return nil
	}
	if sel := pa.info.Selections[se]; sel != nil && sel.Kind() == types.FieldVal {
		if v, ok := sel.Obj().(*types.Var); ok {
			return pa.fields[v]
		}
	}
	return nil
}

func (pa *pkgAn) rel(p token.Pos) (file string, line int) {
	pos := pa.fset.Position(p)
	r, err := filepath.Rel(pa.repo, pos.Filename)
	if err != nil {
		r = pos.Filename
	}
	return r, pos.Line
}

func fnName(fd *ast.FuncDecl) string {
	if fd.Recv != nil && len(fd.Recv.List) > 0 {
		t := typeString(fd.Recv.List[0].Type)
		return strings.TrimPrefix(t, "*") + "." + fd.Name.Name
	}
	return fd.Name.Name
}

// ---- context ----

type ctx struct {
	locks map[string]string // lock -> "R" | "X"
	after map[string]bool
	guard map[string]map[string]bool // chan -> locks held exclusively when checked open
	po    map[string]bool            // channels closed later in this function body (top level)
	init  bool
	bind  map[types.Object]string // parameter -> pointee location it is bound to
	okvar map[types.Object]string // ok variable of `v, ok := <-X.c` -> channel
}

func newCtx() *ctx {
	return &ctx{locks: map[string]string{}, after: map[string]bool{}, guard: map[string]map[string]bool{}, po: map[string]bool{},
		bind: map[types.Object]string{}, okvar: map[types.Object]string{}}
}
func (c *ctx) clone() *ctx {
	n := newCtx()
	for k, v := range c.locks {
		n.locks[k] = v
	}
	for k, v := range c.after {
		n.after[k] = v
	}
	for k, v := range c.guard {
		m := map[string]bool{}
		for l := range v {
			m[l] = true
		}
		n.guard[k] = m
	}
	for k, v := range c.po {
		n.po[k] = v
	}
	for k, v := range c.bind {
		n.bind[k] = v
	}
	for k, v := range c.okvar {
		n.okvar[k] = v
	}
	n.init = c.init
	return n
}

// detached: the context of code that runs later or elsewhere (go, defer, stored closures)
func (c *ctx) detached() *ctx {
	n := newCtx()
	for k, v := range c.bind {
		n.bind[k] = v
	}
	return n
}

// meet keeps what holds on both paths
func meet(a, b *ctx) *ctx {
	n := a.clone()
	for l, m := range a.locks {
		m2, ok := b.locks[l]
		if !ok {
			delete(n.locks, l)
		} else if m == "X" && m2 == "R" {
			n.locks[l] = "R"
		}
	}
	for c := range a.after {
		if !b.after[c] {
			delete(n.after, c)
		}
	}
	for c, ls := range a.guard {
		for l := range ls {
			if b.guard[c] == nil || !b.guard[c][l] {
				delete(n.guard[c], l)
			}
		}
	}
	return n
}

type walker struct {
	pa    *pkgAn
	decl  *ast.FuncDecl // function whose text is being walked (names the site)
	stack []*types.Func
	ctor  *ast.FuncDecl // enclosing declaration when it is a constructor / option constructor
}

func isCtorName(n string) bool {
	return strings.HasPrefix(n, "New") || n == "computeConfig" || n == "calcModelArgs"
}

func (w *walker) walkFunc(fd *ast.FuncDecl, c *ctx) {
	old := w.decl
	w.decl = fd
	c = c.clone()
	c.okvar = map[types.Object]string{}
	w.walkBody(fd.Body, c, true)
	w.decl = old
}

// walkBody walks a function body; when top is set, statements before a top-level close(X.c) are BPO c.
func (w *walker) walkBody(b *ast.BlockStmt, c *ctx, top bool) {
	if top {
		for _, s := range b.List {
			if es, ok := s.(*ast.ExprStmt); ok {
				if call, ok := es.X.(*ast.CallExpr); ok {
					if id, ok := call.Fun.(*ast.Ident); ok && id.Name == "close" && len(call.Args) == 1 {
						if fi := w.pa.fieldOf(call.Args[0]); fi != nil {
							c.po[fi.key] = true
						}
					}
				}
			}
		}
	}
	w.block(b.List, c, top)
}

// block walks statements in order, returns the context after them and whether control cannot fall through.
func (w *walker) block(list []ast.Stmt, c *ctx, top bool) (*ctx, bool) {
	for _, s := range list {
		var term bool
		c, term = w.stmt(s, c, top)
		if term {
			return c, true
		}
	}
	return c, false
}

func (w *walker) lockOp(call *ast.CallExpr) (lock, op string) {
	se, ok := call.Fun.(*ast.SelectorExpr)
	if !ok {
		return "", ""
	}
	switch se.Sel.Name {
	case "Lock", "Unlock", "RLock", "RUnlock":
	default:
		return "", ""
	}
	if id, ok := se.X.(*ast.Ident); ok && w.decl != nil && w.decl.Name.Name == "GetAndUpdate" {
		// the mutex parameter of GetAndUpdate
		if v, ok := w.obj(id).(*types.Var); ok && !v.IsField() {
			return "param:" + id.Name, se.Sel.Name
		}
	}
	fi := w.pa.fieldOf(se.X)
	if fi == nil || !fi.mutex {
		return "", ""
	}
	return fi.key, se.Sel.Name
}

// gauModes: for each function parameter of resource.GetAndUpdate the lock mode ("R", "X" or "") the
// mutex parameter is held in at every call of it, read from GetAndUpdate's own body.
var gauModes map[string]string

func (w *walker) noteParamCall(call *ast.CallExpr, c *ctx) {
	if w.decl == nil || w.decl.Name.Name != "GetAndUpdate" || w.decl.Recv != nil {
		return
	}
	id, ok := call.Fun.(*ast.Ident)
	if !ok {
		return
	}
	v, ok := w.obj(id).(*types.Var)
	if !ok || v.IsField() {
		return
	}
	mode := ""
	for l, m := range c.locks {
		if strings.HasPrefix(l, "param:") {
			mode = m
		}
	}
	if old, seen := gauModes[id.Name]; seen {
		if old == "" || mode == "" {
			mode = ""
		} else if old == "R" || mode == "R" {
			mode = "R"
		}
	}
	gauModes[id.Name] = mode
}

func (w *walker) stmt(s ast.Stmt, c *ctx, top bool) (*ctx, bool) {
	switch st := s.(type) {
	case nil:
		return c, false
	case *ast.ExprStmt:
		if call, ok := st.X.(*ast.CallExpr); ok {
			if lock, op := w.lockOp(call); lock != "" {
				c = c.clone()
				switch op {
				case "Lock":
					c.locks[lock] = "X"
				case "RLock":
					if c.locks[lock] != "X" {
						c.locks[lock] = "R"
					}
				default:
					delete(c.locks, lock)
					for ch := range c.guard {
						delete(c.guard[ch], lock)
					}
				}
				return c, false
			}
			if id, ok := call.Fun.(*ast.Ident); ok && id.Name == "close" && len(call.Args) == 1 {
				if fi := w.pa.fieldOf(call.Args[0]); fi != nil {
					w.expr(call.Args[0], c, false)
					w.closer(fi.key, call.Pos(), c)
					if top {
						c = c.clone()
						delete(c.po, fi.key)
					}
					return c, false
				}
			}
			if id, ok := call.Fun.(*ast.Ident); ok && id.Name == "panic" {
				w.expr(st.X, c, false)
				return c, true
			}
		}
		w.expr(st.X, c, false)
		return c, false
	case *ast.DeferStmt:
		if lock, _ := w.lockOp(st.Call); lock != "" {
			return c, false // released when the function returns
		}
		w.callDetached(st.Call, c)
		return c, false
	case *ast.GoStmt:
		w.callDetached(st.Call, c)
		return c, false
	case *ast.AssignStmt:
		for _, r := range st.Rhs {
			w.expr(r, c, false)
		}
		for _, l := range st.Lhs {
			w.expr(l, c, true)
		}
		// v, ok := <-X.c
		if len(st.Lhs) == 2 && len(st.Rhs) == 1 {
			if ch := w.recvChan(st.Rhs[0]); ch != "" {
				if id, ok := st.Lhs[1].(*ast.Ident); ok {
					if obj := w.obj(id); obj != nil {
						c = c.clone()
						c.okvar[obj] = ch
					}
				}
			}
		}
		return c, false
	case *ast.IncDecStmt:
		w.expr(st.X, c, true)
		return c, false
	case *ast.SendStmt:
		w.expr(st.Chan, c, false)
		w.expr(st.Value, c, false)
		return c, false
	case *ast.DeclStmt:
		if gd, ok := st.Decl.(*ast.GenDecl); ok {
			for _, sp := range gd.Specs {
				if vs, ok := sp.(*ast.ValueSpec); ok {
					for _, v := range vs.Values {
						w.expr(v, c, false)
					}
				}
			}
		}
		return c, false
	case *ast.ReturnStmt:
		for _, r := range st.Results {
			if fl, ok := r.(*ast.FuncLit); ok {
				w.funcLit(fl, c.detached())
				continue
			}
			w.expr(r, c, false)
		}
		return c, true
	case *ast.BranchStmt:
		return c, true
	case *ast.BlockStmt:
		return w.block(st.List, c, false)
	case *ast.LabeledStmt:
		return w.stmt(st.Stmt, c, false)
	case *ast.IfStmt:
		c, _ = w.stmt(st.Init, c, false)
		w.expr(st.Cond, c, false)
		thenC := c.clone()
		if ch := w.notOK(st.Cond, c); ch != "" {
			thenC.after[ch] = true
		}
		a, at := w.block(st.Body.List, thenC, false)
		var b *ctx
		bt := false
		if st.Else != nil {
			b, bt = w.stmt(st.Else, c.clone(), false)
		} else {
			b = c
		}
		switch {
		case at && bt:
			return c, true
		case at:
			return b, false
		case bt:
			return a, false
		}
		return meet(a, b), false
	case *ast.ForStmt:
		c, _ = w.stmt(st.Init, c, false)
		w.expr(st.Cond, c, false)
		return w.loop(st.Body, st.Post, c), false
	case *ast.RangeStmt:
		w.expr(st.X, c, false)
		return w.loop(st.Body, nil, c), false
	case *ast.SwitchStmt:
		c, _ = w.stmt(st.Init, c, false)
		w.expr(st.Tag, c, false)
		return w.clauses(st.Body.List, c, false)
	case *ast.TypeSwitchStmt:
		c, _ = w.stmt(st.Init, c, false)
		c, _ = w.stmt(st.Assign, c, false)
		return w.clauses(st.Body.List, c, false)
	case *ast.SelectStmt:
		// `select { case <-X.c: return; default: }` while holding l exclusively: c is open and stays open under l
		if ch := w.guardSelect(st); ch != "" {
			w.clauses(st.Body.List, c, true)
			n := c.clone()
			if n.guard[ch] == nil {
				n.guard[ch] = map[string]bool{}
			}
			for l, m := range n.locks {
				if m == "X" {
					n.guard[ch][l] = true
				}
			}
			return n, false
		}
		return w.clauses(st.Body.List, c, true)
	}
	return c, false
}

func (w *walker) loop(body *ast.BlockStmt, post ast.Stmt, c *ctx) *ctx {
	entry := c
	for i := 0; i < 3; i++ {
		end, _ := w.block(body.List, entry.clone(), false)
		end, _ = w.stmt(post, end, false)
		m := meet(entry, end)
		if len(m.locks) == len(entry.locks) && len(m.after) == len(entry.after) {
			same := true
			for l, mo := range entry.locks {
				if m.locks[l] != mo {
					same = false
				}
			}
			if same {
				return m
			}
		}
		entry = m
	}
	return entry
}

func (w *walker) clauses(list []ast.Stmt, c *ctx, isSelect bool) (*ctx, bool) {
	var res *ctx
	hasDefault := false
	for _, cl := range list {
		cc := c.clone()
		var body []ast.Stmt
		switch k := cl.(type) {
		case *ast.CaseClause:
			if k.List == nil {
				hasDefault = true
			}
			for _, e := range k.List {
				w.expr(e, cc, false)
			}
			body = k.Body
		case *ast.CommClause:
			if k.Comm == nil {
				hasDefault = true
			}
			switch cm := k.Comm.(type) {
			case *ast.ExprStmt:
				w.expr(cm.X, cc, false)
				if ch := w.recvClosedOnly(cm.X); ch != "" {
					cc.after[ch] = true
				}
			case *ast.AssignStmt:
				cc, _ = w.stmt(cm, cc, false)
			case *ast.SendStmt:
				cc, _ = w.stmt(cm, cc, false)
			}
			body = k.Body
		}
		end, term := w.block(body, cc, false)
		if term {
			continue
		}
		if res == nil {
			res = end
		} else {
			res = meet(res, end)
		}
	}
	if !hasDefault && !isSelect {
		if res == nil {
			res = c
		} else {
			res = meet(res, c)
		}
	}
	if res == nil {
		return c, true
	}
	return res, false
}

// recvChan: e is `<-X.c` with c a table field
func (w *walker) recvChan(e ast.Expr) string {
	if u, ok := e.(*ast.UnaryExpr); ok && u.Op == token.ARROW {
		if fi := w.pa.fieldOf(u.X); fi != nil {
			return fi.key
		}
	}
	return ""
}

// recvClosedOnly: a receive on a chan struct{} field that is only ever closed
func (w *walker) recvClosedOnly(e ast.Expr) string {
	if u, ok := e.(*ast.UnaryExpr); ok && u.Op == token.ARROW {
		if fi := w.pa.fieldOf(u.X); fi != nil && fi.closeOnly {
			return fi.key
		}
	}
	return ""
}

func (w *walker) obj(id *ast.Ident) types.Object {
	if o := w.pa.info.Defs[id]; o != nil {
		return o
	}
	return w.pa.info.Uses[id]
}

// notOK: cond is `!ok` with ok from `v, ok := <-X.c`
func (w *walker) notOK(cond ast.Expr, c *ctx) string {
	if u, ok := cond.(*ast.UnaryExpr); ok && u.Op == token.NOT {
		if id, ok := u.X.(*ast.Ident); ok {
			if o := w.obj(id); o != nil {
				return c.okvar[o]
			}
		}
	}
	return ""
}

func (w *walker) guardSelect(st *ast.SelectStmt) string {
	if len(st.Body.List) != 2 {
		return ""
	}
	ch := ""
	def := false
	for _, cl := range st.Body.List {
		k := cl.(*ast.CommClause)
		if k.Comm == nil {
			def = len(k.Body) == 0
			continue
		}
		es, ok := k.Comm.(*ast.ExprStmt)
		if !ok {
			return ""
		}
		c := w.recvClosedOnly(es.X)
		if c == "" || len(k.Body) == 0 {
			return ""
		}
		if _, ok := k.Body[len(k.Body)-1].(*ast.ReturnStmt); !ok {
			return ""
		}
		ch = c
	}
	if !def {
		return ""
	}
	return ch
}

// ---- expressions ----

func (w *walker) rootIdent(e ast.Expr) *ast.Ident {
	for {
		switch x := e.(type) {
		case *ast.Ident:
			return x
		case *ast.SelectorExpr:
			e = x.X
		case *ast.IndexExpr:
			e = x.X
		case *ast.StarExpr:
			e = x.X
		case *ast.ParenExpr:
			e = x.X
		default:
			return nil
		}
	}
}

// isInit: the access is made on an object that is still under construction
func (w *walker) isInit(e ast.Expr, c *ctx) bool {
	if c.init {
		return true
	}
	id := w.rootIdent(e)
	if id == nil {
		return false
	}
	o := w.obj(id)
	v, ok := o.(*types.Var)
	if !ok || v.IsField() {
		return false
	}
	fd := w.decl
	if fd == nil || !(v.Pos() >= fd.Pos() && v.Pos() <= fd.End()) {
		return false
	}
	if isCtorName(fd.Name.Name) && fd.Recv == nil {
		// a local (not a parameter) of a constructor
		return v.Pos() >= fd.Body.Pos()
	}
	if strings.HasPrefix(fd.Name.Name, "With") && fd.Recv == nil {
		// the parameter of the option's function literal
		inLit := false
		ast.Inspect(fd.Body, func(n ast.Node) bool {
			if fl, ok := n.(*ast.FuncLit); ok {
				for _, p := range fl.Type.Params.List {
					for _, nm := range p.Names {
						if w.pa.info.Defs[nm] == o {
							inLit = true
						}
					}
				}
			}
			return true
		})
		return inLit
	}
	return false
}

func (w *walker) site(loc, kind string, pos token.Pos, c *ctx, init bool) {
	file, line := w.pa.rel(pos)
	row := siteRow{Loc: loc, Kind: kind, Init: init, Fn: file + ":" + fnName(w.decl), Pos: fmt.Sprintf("%s:%d", file, line)}
	if !init {
		for l, m := range c.locks {
			row.Locks = append(row.Locks, lockMode{l, m})
		}
		sort.Slice(row.Locks, func(i, j int) bool { return row.Locks[i].Lock < row.Locks[j].Lock })
		for ch := range c.after {
			row.After = append(row.After, ch)
		}
		sort.Strings(row.After)
		for ch := range c.po {
			row.Before = append(row.Before, beforeTag{Kind: "PO", Chan: ch})
		}
		for ch, ls := range c.guard {
			for l := range ls {
				if c.locks[l] == "X" {
					row.Before = append(row.Before, beforeTag{Kind: "Guard", Chan: ch, Lock: l})
				}
			}
		}
		sort.Slice(row.Before, func(i, j int) bool { return fmt.Sprint(row.Before[i]) < fmt.Sprint(row.Before[j]) })
	}
	k := fmt.Sprint(row)
	if w.pa.seen[k] {
		return
	}
	w.pa.seen[k] = true
	w.pa.out.Sites = append(w.pa.out.Sites, row)
}

func (w *walker) closer(ch string, pos token.Pos, c *ctx) {
	file, line := w.pa.rel(pos)
	row := closerRow{Chan: ch, Fn: file + ":" + fnName(w.decl), Pos: fmt.Sprintf("%s:%d", file, line)}
	for l, m := range c.locks {
		row.Locks = append(row.Locks, lockMode{l, m})
	}
	sort.Slice(row.Locks, func(i, j int) bool { return row.Locks[i].Lock < row.Locks[j].Lock })
	k := fmt.Sprint(row)
	if w.pa.seenC[k] {
		return
	}
	w.pa.seenC[k] = true
	w.pa.out.Closers = append(w.pa.out.Closers, row)
}

// pointeeOf: e denotes an object that is not safe for concurrent use (a field of pointee type, or a
// parameter bound to one)
func (w *walker) pointeeOf(e ast.Expr, c *ctx) string {
	if fi := w.pa.fieldOf(e); fi != nil && fi.pointee {
		return fi.key + ".*"
	}
	if id, ok := e.(*ast.Ident); ok {
		if o := w.obj(id); o != nil {
			return c.bind[o]
		}
	}
	return ""
}

func (w *walker) expr(e ast.Expr, c *ctx, write bool) {
	switch x := e.(type) {
	case nil:
	case *ast.Ident:
	case *ast.BasicLit:
	case *ast.SelectorExpr:
		w.expr(x.X, c, false)
		if sel := w.pa.info.Selections[x]; sel != nil && sel.Kind() == types.FieldVal {
			// promoted fields: the embedded fields on the way are read
			if idx := sel.Index(); len(idx) > 1 {
				t := sel.Recv()
				for _, i := range idx[:len(idx)-1] {
					st := derefStruct(t)
					if st == nil {
						break
					}
					f := st.Field(i)
					if fi := w.pa.fields[f]; fi != nil && !fi.skip {
						w.site(fi.key, "R", x.Pos(), c, w.isInit(x, c))
					}
					t = f.Type()
				}
			}
			if fi := w.pa.fieldOf(x); fi != nil && !fi.skip {
				k := "R"
				if write {
					k = "W"
				}
				w.site(fi.key, k, x.Sel.Pos(), c, w.isInit(x, c))
			}
		}
	case *ast.CallExpr:
		w.call(x, c, false)
	case *ast.IndexExpr:
		w.expr(x.X, c, write) // m[k] = v writes m
		w.expr(x.Index, c, false)
	case *ast.SliceExpr:
		w.expr(x.X, c, false)
		w.expr(x.Low, c, false)
		w.expr(x.High, c, false)
		w.expr(x.Max, c, false)
	case *ast.StarExpr:
		w.expr(x.X, c, write)
	case *ast.ParenExpr:
		w.expr(x.X, c, write)
	case *ast.UnaryExpr:
		if x.Op == token.AND {
			if fi := w.pa.fieldOf(x.X); fi != nil && !fi.skip {
				w.expr(x.X, c, true) // the address escapes
				return
			}
		}
		w.expr(x.X, c, false)
	case *ast.BinaryExpr:
		w.expr(x.X, c, false)
		w.expr(x.Y, c, false)
	case *ast.KeyValueExpr:
		w.expr(x.Value, c, false)
	case *ast.TypeAssertExpr:
		w.expr(x.X, c, false)
	case *ast.CompositeLit:
		w.composite(x, c)
	case *ast.FuncLit:
		w.funcLit(x, c.detached())
	}
}

func derefStruct(t types.Type) *types.Struct {
	if p, ok := t.Underlying().(*types.Pointer); ok {
		t = p.Elem()
	}
	st, _ := t.Underlying().(*types.Struct)
	return st
}

func (w *walker) composite(x *ast.CompositeLit, c *ctx) {
	var st *types.Struct
	if tv, ok := w.pa.info.Types[x]; ok && tv.Type != nil {
		st = derefStruct(tv.Type)
	}
	for _, el := range x.Elts {
		if kv, ok := el.(*ast.KeyValueExpr); ok {
			if id, ok := kv.Key.(*ast.Ident); ok && st != nil {
				for i := 0; i < st.NumFields(); i++ {
					if st.Field(i).Name() == id.Name {
						if fi := w.pa.fields[st.Field(i)]; fi != nil && !fi.skip {
							w.site(fi.key, "W", id.Pos(), c, true)
						}
					}
				}
			}
			w.expr(kv.Value, c, false)
			continue
		}
		w.expr(el, c, false)
	}
}

func (w *walker) funcLit(fl *ast.FuncLit, c *ctx) {
	c = c.clone()
	c.po = map[string]bool{}
	w.block(fl.Body.List, c, false)
}

// callDetached: `go f(args)` / `defer f(args)`: the operands are evaluated here, the body runs
// later or elsewhere, with none of the locks held now.
func (w *walker) callDetached(call *ast.CallExpr, c *ctx) {
	for _, a := range call.Args {
		if _, ok := a.(*ast.FuncLit); !ok {
			w.expr(a, c, false)
		}
	}
	if fl, ok := call.Fun.(*ast.FuncLit); ok {
		w.funcLit(fl, c.detached())
		return
	}
	if se, ok := call.Fun.(*ast.SelectorExpr); ok {
		w.expr(se.X, c, false)
	}
	d := c.detached()
	if id, ok := call.Fun.(*ast.Ident); ok && id.Name == "close" && len(call.Args) == 1 {
		if fi := w.pa.fieldOf(call.Args[0]); fi != nil {
			w.closer(fi.key, call.Pos(), d)
			return
		}
	}
	if fn := w.pa.callee(call); fn != nil {
		w.inline(fn, call, d, c)
	}
}

// call handles a call expression evaluated in place
func (w *walker) call(call *ast.CallExpr, c *ctx, _ bool) {
	// builtins
	if id, ok := call.Fun.(*ast.Ident); ok {
		switch id.Name {
		case "delete":
			if len(call.Args) == 2 {
				w.expr(call.Args[0], c, true)
				w.expr(call.Args[1], c, false)
				return
			}
		case "close":
			if len(call.Args) == 1 {
				if fi := w.pa.fieldOf(call.Args[0]); fi != nil {
					w.expr(call.Args[0], c, false)
					w.closer(fi.key, call.Pos(), c)
					return
				}
			}
		}
	}
	// a function literal called in place (go func(){...}(), defer func(){...}())
	if fl, ok := call.Fun.(*ast.FuncLit); ok {
		for _, a := range call.Args {
			w.expr(a, c, false)
		}
		w.funcLit(fl, c)
		return
	}
	// resource.GetAndUpdate(&X.mu, get, change, save)
	if name := calleeName(call); name == "GetAndUpdate" && len(call.Args) == 4 {
		mu := ""
		if u, ok := call.Args[0].(*ast.UnaryExpr); ok && u.Op == token.AND {
			if fi := w.pa.fieldOf(u.X); fi != nil && fi.mutex {
				mu = fi.key
			}
		}
		if mu != "" {
			modes := []string{"", "", ""}
			if fd := w.pa.funcByName("GetAndUpdate"); fd != nil {
				i := 0
				for _, p := range fd.Type.Params.List {
					for _, nm := range p.Names {
						if i >= 1 && i <= 3 {
							modes[i-1] = gauModes[nm.Name]
						}
						i++
					}
				}
			}
			for i, a := range call.Args[1:] {
				cc := c.clone()
				if modes[i] != "" {
					if !(modes[i] == "R" && cc.locks[mu] == "X") {
						cc.locks[mu] = modes[i]
					}
				}
				if fl, ok := a.(*ast.FuncLit); ok {
					w.funcLit(fl, cc)
				} else {
					w.expr(a, c, false)
				}
			}
			return
		}
	}
	w.noteParamCall(call, c)
	// receiver and arguments
	if se, ok := call.Fun.(*ast.SelectorExpr); ok {
		if sel := w.pa.info.Selections[se]; sel != nil && sel.Kind() == types.FieldVal {
			w.expr(se, c, false) // a field of function type is read, then called
		} else {
			w.expr(se.X, c, false)
		}
		if p := w.pointeeOf(se.X, c); p != "" {
			w.site(p, "W", se.Sel.Pos(), c, false) // a method of a non-thread-safe object
		}
	}
	fn := w.pa.callee(call)
	for _, a := range call.Args {
		if fl, ok := a.(*ast.FuncLit); ok {
			w.funcLit(fl, c.clone()) // a callback run by the callee, in the caller's context
			continue
		}
		w.expr(a, c, false)
		if p := w.pointeeOf(a, c); p != "" && fn == nil {
			w.site(p, "W", a.Pos(), c, false) // handed to code outside the package
		}
	}
	if fn == nil {
		return
	}
	w.inline(fn, call, c, c)
}

// inline walks the body of a function of the same package in context c; argCtx is where the
// arguments were evaluated (for parameter bindings).
func (w *walker) inline(fn *types.Func, call *ast.CallExpr, c, argCtx *ctx) {
	for _, f := range w.stack {
		if f == fn {
			return
		}
	}
	if len(w.stack) > 6 {
		return
	}
	fd := w.pa.funcs[fn]
	cc := c.clone()
	cc.init = false
	i := 0
	for _, p := range fd.Type.Params.List {
		for _, nm := range p.Names {
			if i < len(call.Args) {
				if pt := w.pointeeOf(call.Args[i], argCtx); pt != "" {
					if o := w.pa.info.Defs[nm]; o != nil {
						cc.bind[o] = pt
					}
				}
			}
			i++
		}
	}
	w.stack = append(w.stack, fn)
	w.walkFunc(fd, cc)
	w.stack = w.stack[:len(w.stack)-1]
}

func calleeName(call *ast.CallExpr) string {
	switch f := call.Fun.(type) {
	case *ast.Ident:
		return f.Name
	case *ast.SelectorExpr:
		return f.Sel.Name
	}
	return ""
}

// ---- pkg/group: locals shared with the goroutines a function starts ----

func (pa *pkgAn) groupLocals() {
	var fds []*ast.FuncDecl
	for _, fd := range pa.funcs {
		fds = append(fds, fd)
	}
	sort.Slice(fds, func(i, j int) bool { return fds[i].Pos() < fds[j].Pos() })
	for _, fd := range fds {
		var lits []*ast.FuncLit
		ast.Inspect(fd.Body, func(n ast.Node) bool {
			if g, ok := n.(*ast.GoStmt); ok {
				if fl, ok := g.Call.Fun.(*ast.FuncLit); ok {
					lits = append(lits, fl)
				}
			}
			return true
		})
		if len(lits) == 0 {
			continue
		}
		inLit := func(p token.Pos) *ast.FuncLit {
			for _, fl := range lits {
				if p >= fl.Pos() && p <= fl.End() {
					return fl
				}
			}
			return nil
		}
		// captured variables and the first goroutine that captures each
		firstFork := map[types.Object]token.Pos{}
		ast.Inspect(fd, func(n ast.Node) bool {
			id, ok := n.(*ast.Ident)
			if !ok {
				return true
			}
			v, ok := pa.info.Uses[id].(*types.Var)
			if !ok || v.IsField() || v.Pkg() == nil || v.Parent() == v.Pkg().Scope() {
				return true
			}
			fl := inLit(id.Pos())
			if fl == nil || (v.Pos() >= fl.Pos() && v.Pos() <= fl.End()) {
				return true
			}
			if !(v.Pos() >= fd.Pos() && v.Pos() <= fd.End()) {
				return true
			}
			if p, ok := firstFork[v]; !ok || fl.Pos() < p {
				firstFork[v] = fl.Pos()
			}
			return true
		})
		if len(firstFork) == 0 {
			continue
		}
		w := &walker{pa: pa, decl: fd}
		writes := map[token.Pos]bool{}
		ast.Inspect(fd, func(n ast.Node) bool {
			switch s := n.(type) {
			case *ast.AssignStmt:
				if s.Tok != token.DEFINE {
					for _, l := range s.Lhs {
						if id := w.rootIdent(l); id != nil {
							writes[id.Pos()] = true
						}
					}
				}
			case *ast.IncDecStmt:
				if id := w.rootIdent(s.X); id != nil {
					writes[id.Pos()] = true
				}
			case *ast.UnaryExpr:
				if s.Op == token.AND {
					if id, ok := s.X.(*ast.Ident); ok {
						writes[id.Pos()] = true
					}
				}
			}
			return true
		})
		emit := func(v types.Object, pos token.Pos, kind string, init bool) {
			w.site("group."+fnName(fd)+"."+v.Name(), kind, pos, newCtx(), init)
		}
		for v, fork := range firstFork {
			emit(v, v.Pos(), "W", v.Pos() < fork) // the declaration
		}
		ast.Inspect(fd, func(n ast.Node) bool {
			id, ok := n.(*ast.Ident)
			if !ok {
				return true
			}
			v := pa.info.Uses[id]
			fork, ok := firstFork[v]
			if !ok {
				return true
			}
			kind := "R"
			if writes[id.Pos()] {
				kind = "W"
			}
			emit(v, id.Pos(), kind, inLit(id.Pos()) == nil && id.Pos() < fork)
			return true
		})
	}
}

// ---- Coq output ----

func coqStr(s string) string { return "\"" + strings.ReplaceAll(s, "\"", "\"\"") + "\"" }

func coqLocks(ls []lockMode) string {
	it := make([]string, len(ls))
	for i, l := range ls {
		m := "MR"
		if l.Mode == "X" {
			m = "MX"
		}
		it[i] = "(" + coqStr(l.Lock) + ", " + m + ")"
	}
	return "[" + strings.Join(it, "; ") + "]"
}

func (s siteRow) coq() string {
	k := "KR"
	if s.Kind == "W" {
		k = "KW"
	}
	bf := make([]string, len(s.Before))
	for i, b := range s.Before {
		if b.Kind == "PO" {
			bf[i] = "BPO " + coqStr(b.Chan)
		} else {
			bf[i] = "BGuard " + coqStr(b.Chan) + " " + coqStr(b.Lock)
		}
	}
	af := make([]string, len(s.After))
	for i, a := range s.After {
		af[i] = coqStr(a)
	}
	init := "false"
	if s.Init {
		init = "true"
	}
	return fmt.Sprintf("mkSite %s %s %s [%s] [%s] %s %s %s", coqStr(s.Loc), k, coqLocks(s.Locks),
		strings.Join(bf, "; "), strings.Join(af, "; "), init, coqStr(s.Fn), coqStr(s.Pos))
}

func (t *lockTable) coq() string {
	var b strings.Builder
	b.WriteString("(* GENERATED by harness/c11 (translator \"locks\") from the source tree under check. Do not edit. *)\n")
	b.WriteString("From SC Require Import Base.Prelude Race.Lockset.\nLocal Open Scope string_scope.\n\n")
	b.WriteString("Definition sites : list site := [\n")
	for i, s := range t.Sites {
		b.WriteString("  " + s.coq())
		if i+1 < len(t.Sites) {
			b.WriteString(";")
		}
		b.WriteString("\n")
	}
	b.WriteString("].\n\nDefinition closers : list closer := [\n")
	for i, c := range t.Closers {
		b.WriteString(fmt.Sprintf("  mkCloser %s %s %s %s", coqStr(c.Chan), coqLocks(c.Locks), coqStr(c.Fn), coqStr(c.Pos)))
		if i+1 < len(t.Closers) {
			b.WriteString(";")
		}
		b.WriteString("\n")
	}
	b.WriteString("].\n\nDefinition lock_table : table := mkTable sites closers.\n")
	return b.String()
}

func translateLocks(outDir string) error {
	t, err := analyse(repoDir())
	if err != nil {
		return err
	}
	return os.WriteFile(filepath.Join(outDir, "Locks.v"), []byte(t.coq()), 0o644)
}
