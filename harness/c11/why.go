package main

// Mirror, over the rows the translator produced, of Race/Lockset.v's [why]: the branch of [compatible]
// that accepts a pair of sites.  The counts computed here go into the evidence AND into the Coq cases
// KReasons / KMutable, where they are compared with the model's own computation on Gen/Locks.v.

import (
	"sort"
	"strings"
)

const pubChan = "pub"

func effBefore(s siteRow) []beforeTag {
	if s.Init {
		return append([]beforeTag{{Kind: "PO", Chan: pubChan}}, s.Before...)
	}
	return s.Before
}

func effAfter(s siteRow) []string {
	if s.Init {
		return s.After
	}
	return append([]string{pubChan}, s.After...)
}

func hasLock(ls []lockMode, l, m string) bool {
	for _, x := range ls {
		if x.Lock == l && x.Mode == m {
			return true
		}
	}
	return false
}

func lockCovers(b siteRow, p lockMode) bool {
	if p.Mode == "X" {
		return hasLock(b.Locks, p.Lock, "X") || hasLock(b.Locks, p.Lock, "R")
	}
	return hasLock(b.Locks, p.Lock, "X")
}

func beforeValid(tb *lockTable, s siteRow, x beforeTag) bool {
	if x.Kind == "PO" {
		if x.Chan == pubChan {
			return true
		}
		for _, cl := range tb.Closers {
			if cl.Chan == x.Chan && cl.Fn != s.Fn {
				return false
			}
		}
		return true
	}
	if x.Chan == pubChan || !hasLock(s.Locks, x.Lock, "X") {
		return false
	}
	for _, cl := range tb.Closers {
		if cl.Chan == x.Chan && !hasLock(cl.Locks, x.Lock, "X") {
			return false
		}
	}
	return true
}

func ordersBy(tb *lockTable, a, b siteRow) (string, bool) {
	for _, x := range effBefore(a) {
		if !beforeValid(tb, a, x) {
			continue
		}
		for _, c := range effAfter(b) {
			if c == x.Chan {
				return x.Chan, true
			}
		}
	}
	return "", false
}

func chanReason(c string) string {
	switch {
	case c == pubChan:
		return "publication"
	case strings.HasPrefix(c, "go:"):
		return "go-statement"
	case strings.HasPrefix(c, "wg:"):
		return "waitgroup"
	}
	return "channel-close"
}

func poReason(c string) string {
	switch {
	case c == pubChan:
		return "construction"
	case strings.HasPrefix(c, "end:"), strings.HasPrefix(c, "ret:"):
		return "same-thread"
	}
	return "closing-thread"
}

// whyTag mirrors reason_tag (why tb a b)
func whyTag(tb *lockTable, a, b siteRow) string {
	for _, p := range a.Locks {
		if lockCovers(b, p) {
			return "lock"
		}
	}
	if c, ok := ordersBy(tb, a, b); ok {
		return chanReason(c)
	}
	if c, ok := ordersBy(tb, b, a); ok {
		return chanReason(c)
	}
	for _, x := range effBefore(a) {
		if x.Kind != "PO" {
			continue
		}
		for _, y := range effBefore(b) {
			if y.Kind == "PO" && y.Chan == x.Chan {
				return poReason(x.Chan)
			}
		}
	}
	return "none"
}

func conflictRows(a, b siteRow) bool { return a.Loc == b.Loc && (a.Kind == "W" || b.Kind == "W") }

type mutableField struct {
	Loc        string   `json:"loc"`
	LateWrites int      `json:"late_writes"`
	Reasons    []string `json:"reasons"`
	Writers    []string `json:"writers"`
}

// reasonStats: histogram of the accepting branch over all ordered conflicting pairs, and per location
// written after construction the reasons that order those writes
func reasonStats(tb *lockTable) (map[string]int, []mutableField) {
	byLoc := map[string][]siteRow{}
	for _, s := range tb.Sites {
		byLoc[s.Loc] = append(byLoc[s.Loc], s)
	}
	hist := map[string]int{}
	var muts []mutableField
	for loc, ss := range byLoc {
		late := 0
		tags := map[string]bool{}
		writers := map[string]bool{}
		for _, a := range ss {
			isLate := a.Kind == "W" && !a.Init
			if isLate {
				late++
				writers[a.Pos] = true
			}
			for _, b := range ss {
				if !conflictRows(a, b) {
					continue
				}
				t := whyTag(tb, a, b)
				hist[t]++
				if isLate {
					tags[t] = true
				}
			}
		}
		if late > 0 {
			m := mutableField{Loc: loc, LateWrites: late}
			for t := range tags {
				m.Reasons = append(m.Reasons, t)
			}
			sort.Strings(m.Reasons)
			for p := range writers {
				m.Writers = append(m.Writers, p)
			}
			sort.Strings(m.Writers)
			muts = append(muts, m)
		}
	}
	sort.Slice(muts, func(i, j int) bool { return muts[i].Loc < muts[j].Loc })
	return hist, muts
}
