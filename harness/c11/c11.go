// Command c11 is the C11 harness: translator "locks" (Gen/Locks.v) and the orchestrator that builds
// the workload program harness/c11w with -race against the tree under check, runs every workload,
// parses the race reports and emits (a) every distinct race as a Direct and (b) one case per pair of
// functions with conflicting access sites in the lock table, saying whether the detector saw them race.
package main

import (
	"bytes"
	"crypto/sha1"
	"encoding/hex"
	"encoding/json"
	"fmt"
	"os"
	"os/exec"
	"path/filepath"
	"regexp"
	"sort"
	"strings"
	"sync"
	"time"

	"github.com/smart-core-os/sc-golang/verifharness/vcoq"
	"github.com/smart-core-os/sc-golang/verifharness/vh"
)

func init() {
	vh.Register("C11", genC11)
	vh.RegisterTranslator("locks", translateLocks)
}

func main() { vh.Main() }

const modPrefix = "github.com/smart-core-os/sc-golang/"

var workloadNames = []string{"value", "collection", "router", "bus", "wrap", "group", "electric_waste", "parent_metadata",
	"traits_a", "traits_b", "gen_routers", "wrap_streams", "wrap_reuse"}

func verifRoot() string {
	if d := os.Getenv("VERIF_ROOT"); d != "" {
		return d
	}
	if exe, err := os.Executable(); err == nil {
		if d := filepath.Dir(filepath.Dir(exe)); fileExists(filepath.Join(d, "harness", "go.mod")) {
			return d
		}
	}
	return "/verif"
}

func fileExists(p string) bool { _, err := os.Stat(p); return err == nil }

func goEnv() []string {
	env := os.Environ()
	return append(env, "GOFLAGS=-mod=mod", "GOPROXY=off", "GOSUMDB=off", "GOTOOLCHAIN=local", "CGO_ENABLED=1")
}

// buildWorkload builds harness/c11w with the race detector against the tree under check
// (same -modfile arrangement as bin/check's build_harness).
func buildWorkload(root, repo string) (string, error) {
	h := filepath.Join(root, "harness")
	build := filepath.Join(root, ".build")
	out := filepath.Join(build, "c11w-race")
	args := []string{"build", "-race", "-tags", "verif"}
	if repo != "/repo" {
		sum := sha1.Sum([]byte(repo))
		alt := filepath.Join(build, "alt-"+hex.EncodeToString(sum[:])[:8]+".mod")
		mod, err := os.ReadFile(filepath.Join(h, "go.mod"))
		if err != nil {
			return "", err
		}
		if err := os.WriteFile(alt, bytes.ReplaceAll(mod, []byte("=> /repo"), []byte("=> "+repo)), 0o644); err != nil {
			return "", err
		}
		if s, err := os.ReadFile(filepath.Join(repo, "go.sum")); err == nil {
			_ = os.WriteFile(strings.TrimSuffix(alt, ".mod")+".sum", s, 0o644)
		}
		args = append(args, "-modfile="+alt)
		out += "-alt"
	}
	args = append(args, "-o", out, "./c11w")
	cmd := exec.Command("go", args...)
	cmd.Dir = h
	cmd.Env = goEnv()
	if b, err := cmd.CombinedOutput(); err != nil {
		return "", fmt.Errorf("go %s: %v\n%s", strings.Join(args, " "), err, b)
	}
	return out, nil
}

// ---- race reports ----

type access struct {
	Header string   `json:"header"`
	Write  bool     `json:"write"`
	Frames []string `json:"frames"`        // "func file:line"
	Top    string   `json:"top"`           // "pkg/x/file.go:Recv.Func" of the innermost sc-golang frame, "" if none
	Pkg    string   `json:"pkg,omitempty"` // package directory of Top
	Sites  []string `json:"-"`             // every sc-golang frame, as "pkg/x/file.go:Recv.Func"
}
type race struct {
	Workload string   `json:"workload"`
	A, B     access   `json:"-"`
	Accesses []access `json:"accesses"`
	Class    string   `json:"class"`
	Count    int      `json:"count"`
}

var closureSuffix = regexp.MustCompile(`(\.func\d+|\.gowrap\d+|\.\d+|-fm)+$`)

// normFrame turns "github.com/smart-core-os/sc-golang/pkg/resource.(*Collection).genID()" + "/repo/pkg/resource/collection.go:360"
// into "pkg/resource/collection.go:Collection.genID" (closures named after the enclosing function).
func normFrame(fn, loc, repo string) (site, pkg string, ok bool) {
	if !strings.HasPrefix(fn, modPrefix) || strings.HasPrefix(fn, modPrefix+"verifharness") {
		return "", "", false
	}
	fn = strings.TrimSuffix(fn, "()")
	rest := fn[len(modPrefix):]
	slash := strings.LastIndex(rest, "/")
	dot := strings.Index(rest[slash+1:], ".")
	if dot < 0 {
		return "", "", false
	}
	pkgDir := rest[:slash+1+dot]
	name := rest[slash+1+dot+1:]
	// generic instantiation / closure decorations
	name = strings.ReplaceAll(name, "(*", "")
	name = strings.ReplaceAll(name, ")", "")
	name = strings.ReplaceAll(name, "(", "")
	// "Collection.Update.func1" / "Value.set.WriteRequest.changeFn.func3": keep the enclosing declaration
	name = closureSuffix.ReplaceAllString(name, "")
	parts := strings.Split(name, ".")
	if len(parts) > 2 {
		// inlined closure chains "A.f.B.g": the innermost declaration is the last (Type.)func pair
		parts = parts[len(parts)-2:]
		if parts[0] != "" && strings.ToUpper(parts[0][:1]) != parts[0][:1] && !isTypeName(parts[0]) {
			parts = parts[1:]
		}
	}
	name = strings.Join(parts, ".")
	file := loc
	if i := strings.LastIndex(file, ":"); i >= 0 {
		file = file[:i]
	}
	file = strings.TrimPrefix(file, repo+"/")
	if strings.HasPrefix(file, "/") { // another checkout path: keep the part from the package directory
		if i := strings.Index(file, "/"+pkgDir+"/"); i >= 0 {
			file = file[i+1:]
		}
	}
	return file + ":" + name, pkgDir, true
}

// lower-case receiver type names of the packages under study
func isTypeName(s string) bool {
	switch s {
	case "router", "listener", "config", "clientStream", "serverStream", "wrapper", "serverTransportStream", "item":
		return true
	}
	return false
}

func parseRaces(log, workload, repo string) []race {
	var out []race
	for _, blk := range strings.Split(log, "==================") {
		if !strings.Contains(blk, "WARNING: DATA RACE") {
			continue
		}
		var accs []access
		for _, sec := range strings.Split(strings.TrimSpace(blk), "\n\n") {
			lines := strings.Split(strings.TrimSpace(sec), "\n")
			hdr := ""
			for _, l := range lines {
				if !strings.HasPrefix(l, "  ") && !strings.Contains(l, "WARNING") {
					hdr = strings.TrimSpace(l)
					break
				}
			}
			lh := strings.ToLower(hdr)
			if !(strings.HasPrefix(lh, "read at") || strings.HasPrefix(lh, "write at") || strings.HasPrefix(lh, "previous read at") ||
				strings.HasPrefix(lh, "previous write at") || strings.HasPrefix(lh, "atomic") || strings.HasPrefix(lh, "previous atomic")) {
				continue
			}
			a := access{Header: regexp.MustCompile(`0x[0-9a-f]+`).ReplaceAllString(hdr, "0x.."), Write: strings.Contains(lh, "write")}
			a.Header = regexp.MustCompile(`goroutine \d+`).ReplaceAllString(a.Header, "goroutine N")
			var body []string
			for _, l := range lines {
				if strings.HasPrefix(l, "  ") {
					body = append(body, strings.TrimSpace(l))
				}
			}
			for j := 0; j+1 < len(body); j += 2 {
				loc := strings.Fields(body[j+1])[0]
				a.Frames = append(a.Frames, body[j]+" "+loc)
				if s, p, ok := normFrame(body[j], loc, repo); ok {
					a.Sites = append(a.Sites, s)
					if a.Top == "" {
						a.Top, a.Pkg = s, p
					}
				}
			}
			if len(a.Frames) > 14 {
				a.Frames = a.Frames[:14]
			}
			accs = append(accs, a)
		}
		if len(accs) < 2 {
			continue
		}
		r := race{Workload: workload, A: accs[0], B: accs[1], Accesses: accs[:2], Count: 1}
		r.Class = raceClass(r.A, r.B)
		out = append(out, r)
	}
	return out
}

// raceClass names a race by its two innermost sc-golang frames.  When a write races with a read made
// in another package (or by the caller's own code) the reader is not part of the identity: the writer
// modifies memory that has been handed out, and any reader will do.
func raceClass(a, b access) string {
	name := func(x access) string {
		if x.Top == "" {
			return "<caller>"
		}
		return x.Top
	}
	switch {
	case a.Write && b.Write, !a.Write && !b.Write:
		n := []string{name(a), name(b)}
		sort.Strings(n)
		return "race:" + n[0] + "|" + n[1]
	case b.Write:
		a, b = b, a
	}
	// a writes, b reads
	if a.Top == "" {
		return "race:<caller>|" + name(b)
	}
	if b.Top != "" && b.Pkg == a.Pkg {
		return "race:" + a.Top + "|" + b.Top
	}
	return "race:" + a.Top + "|<reader>"
}

// ---- orchestration ----

type wlResult struct {
	Name   string
	Stats  map[string]any
	Races  []race
	Err    string
	Stderr string
}

func runWorkloads(bin, repo string, seed uint64, dur time.Duration, logDir string) []wlResult {
	res := make([]wlResult, len(workloadNames))
	var wg sync.WaitGroup
	for i, name := range workloadNames {
		i, name := i, name
		wg.Add(1)
		go func() {
			defer wg.Done()
			r := wlResult{Name: name}
			logPath := filepath.Join(logDir, name)
			cmd := exec.Command(bin, "-workload", name, "-seed", fmt.Sprint(seed), "-dur", dur.String())
			cmd.Env = append(os.Environ(), "GORACE=halt_on_error=0 history_size=2 log_path="+logPath)
			var so, se bytes.Buffer
			cmd.Stdout, cmd.Stderr = &so, &se
			done := make(chan error, 1)
			if err := cmd.Start(); err != nil {
				r.Err = err.Error()
				res[i] = r
				return
			}
			go func() { done <- cmd.Wait() }()
			select {
			case err := <-done:
				if err != nil {
					if ee, ok := err.(*exec.ExitError); !ok || ee.ExitCode() != 66 { // 66: races were reported
						r.Err = err.Error()
					}
				}
			case <-time.After(dur + 90*time.Second):
				_ = cmd.Process.Kill()
				r.Err = "workload did not finish (deadlock?)"
			}
			r.Stderr = se.String()
			if len(r.Stderr) > 3000 {
				r.Stderr = r.Stderr[:3000]
			}
			_ = json.Unmarshal(bytes.TrimSpace(so.Bytes()), &r.Stats)
			logs, _ := filepath.Glob(logPath + ".*")
			for _, lf := range logs {
				if b, err := os.ReadFile(lf); err == nil {
					r.Races = append(r.Races, parseRaces(string(b), name, repo)...)
				}
			}
			res[i] = r
		}()
	}
	wg.Wait()
	return res
}

type fnPair struct{ loc, a, b string }

func genC11(o *vcoq.Out, r *vcoq.Rand, tier string) error {
	o.Header = "From SC Require Import Base.Prelude Race.Lockset Race.Known Race.C11Judge Gen.Locks."
	o.CaseType = "c11case"
	o.Judge = "judge"
	o.Shard = 200
	o.Rule = "KPair: one case per (location, function, function) with conflicting access sites in the generated lock table (" +
		"does the race detector report a race whose two innermost sc-golang frames are these functions?). " +
		"KReasons: the harness's count, per accepting branch of the model's compatibility check (lock / publication / go statement / WaitGroup / channel close / construction / same thread / closing thread / none), of all ordered conflicting site pairs, compared with the model's own count on Gen/Locks.v; no pair may be 'none'. " +
		"KMutable: one case per location written after construction, with the reasons that order those writes against every conflicting site (recomputed by the model); none may be missing. " +
		"Table: every struct field of pkg/resource, internal/minibus, pkg/router, pkg/wrap, pkg/group and every package under pkg/trait (protobuf messages excluded), the elements of slice/map fields incl. local aliases of them, and the locals captured by goroutines. " +
		"Workloads: 13 programs (value, collection, router, bus, wrap, group, electric+waste, parent+metadata, all 34 trait packages through model + server + wrapped client in traits_a/traits_b, generated routers with concurrent Add/Get/Remove and routed streams, many concurrent streams on one wrapped client, callers and handlers that reuse their request/reply/stream messages around calls whose context ends before the handler replies), rounds of 250 ms on fresh objects, 4-16 goroutines per round chosen from the seed, " +
		"random mixes of reads/writes/subscribes/cancels incl. generated ids, interceptors and consumers that read what they are given. Every distinct race (pair of innermost sc-golang frames) is reported as a direct violation."
	repo := repoDir()
	root := verifRoot()
	t0 := time.Now()

	tb, err := analyse(repo)
	if err != nil {
		return fmt.Errorf("lock table: %w", err)
	}

	bin, err := buildWorkload(root, repo)
	if err != nil {
		o.Directs = append(o.Directs, vcoq.Direct{What: "the race-detector workload no longer builds against the tree", Class: "c11w-build", Replay: err.Error()})
		return nil
	}
	buildS := time.Since(t0).Seconds()

	dur := 8 * time.Second
	if tier == "thorough" {
		dur = 60 * time.Second
	}
	if d := os.Getenv("C11_DUR"); d != "" {
		if dd, err := time.ParseDuration(d); err == nil {
			dur = dd
		}
	}
	logDir := filepath.Join(o.Dir, "racelogs")
	_ = os.RemoveAll(logDir)
	if err := os.MkdirAll(logDir, 0o755); err != nil {
		return err
	}
	results := runWorkloads(bin, repo, o.Seed, dur, logDir)

	// distinct races
	distinct := map[string]*race{}
	var order []string
	totalReports := 0
	wlStats := map[string]any{}
	var totalOps, maxG float64
	var seconds float64
	for _, wr := range results {
		if wr.Err != "" {
			o.Directs = append(o.Directs, vcoq.Direct{What: "workload " + wr.Name + " failed: " + wr.Err, Class: "workload-failed:" + wr.Name,
				Replay: map[string]any{"workload": wr.Name, "seed": o.Seed, "stderr": wr.Stderr}})
		}
		wlStats[wr.Name] = wr.Stats
		if wr.Stats != nil {
			if v, ok := wr.Stats["ops"].(float64); ok {
				totalOps += v
			}
			if v, ok := wr.Stats["max_goroutines"].(float64); ok && v > maxG {
				maxG = v
			}
			if v, ok := wr.Stats["seconds"].(float64); ok {
				seconds += v
			}
		}
		for _, rc := range wr.Races {
			totalReports++
			rc := rc
			if d, ok := distinct[rc.Class]; ok {
				d.Count++
				continue
			}
			distinct[rc.Class] = &rc
			order = append(order, rc.Class)
		}
	}
	sort.Strings(order)
	for _, cls := range order {
		rc := distinct[cls]
		o.Directs = append(o.Directs, vcoq.Direct{
			What:  "data race reported by the Go race detector: " + strings.TrimPrefix(cls, "race:"),
			Class: cls,
			Replay: map[string]any{"workload": rc.Workload, "seed": o.Seed, "duration": dur.String(), "reports_in_class": rc.Count,
				"accesses": rc.Accesses, "how": "cd harness && go build -race -tags verif -o ../.build/c11w-race ./c11w && GORACE=halt_on_error=0 ../.build/c11w-race -workload " + rc.Workload + " -seed " + fmt.Sprint(o.Seed) + " -dur " + dur.String()},
		})
	}

	// cases: function pairs with conflicting sites
	type key struct{ loc, fn string }
	byLoc := map[string][]siteRow{}
	for _, s := range tb.Sites {
		byLoc[s.Loc] = append(byLoc[s.Loc], s)
	}
	var locs []string
	for l := range byLoc {
		locs = append(locs, l)
	}
	sort.Strings(locs)
	tableFns := map[string]bool{}
	for _, s := range tb.Sites {
		tableFns[s.Fn] = true
	}
	raced := func(fa, fb string) (bool, string) {
		for _, cls := range order {
			rc := distinct[cls]
			if (rc.A.Top == fa && rc.B.Top == fb) || (rc.A.Top == fb && rc.B.Top == fa) {
				return true, cls
			}
		}
		return false, ""
	}
	npairs := 0
	for _, loc := range locs {
		ss := byLoc[loc]
		fnW := map[string]bool{}
		fnAny := map[string]bool{}
		for _, s := range ss {
			fnAny[s.Fn] = true
			if s.Kind == "W" {
				fnW[s.Fn] = true
			}
		}
		var fns []string
		for f := range fnAny {
			fns = append(fns, f)
		}
		sort.Strings(fns)
		for i, fa := range fns {
			for _, fb := range fns[i:] {
				if !fnW[fa] && !fnW[fb] {
					continue
				}
				rcd, cls := raced(fa, fb)
				tags := []string{"pair"}
				if rcd {
					tags = append(tags, "raced")
				}
				js := map[string]any{"loc": loc, "fn_a": fa, "fn_b": fb, "raced": rcd}
				if rcd {
					js["race_class"] = cls
					js["report"] = distinct[cls].Accesses
					js["workload"] = distinct[cls].Workload
				}
				coq := vcoq.App("KPair", vcoq.Str(loc), vcoq.Str(fa), vcoq.Str(fb), vcoq.Bool(rcd))
				o.Add(vcoq.Case{Coq: coq, JSON: js, Key: coq, NonTrivial: true, Tags: tags})
				npairs++
			}
		}
	}

	// the accepting branch of every conflicting pair (mirror of Lockset.why), checked against the model
	hist, muts := reasonStats(tb)
	// witness: a race report of this run one of whose stacks passes through a function that has a row of loc
	// (the failing input that goes with a location whose writes the table cannot order)
	witness := func(loc string) map[string]any {
		fns := map[string]bool{}
		for _, s := range byLoc[loc] {
			fns[s.Fn] = true
		}
		for _, cls := range order {
			rc := distinct[cls]
			for _, a := range []access{rc.A, rc.B} {
				for _, st := range a.Sites {
					if fns[st] {
						return map[string]any{"race_class": cls, "workload": rc.Workload, "seed": o.Seed, "duration": dur.String(), "report": rc.Accesses,
							"how": "cd harness && go build -race -tags verif -o ../.build/c11w-race ./c11w && GORACE=halt_on_error=0 ../.build/c11w-race -workload " + rc.Workload + " -seed " + fmt.Sprint(o.Seed) + " -dur " + dur.String()}
					}
				}
			}
		}
		return nil
	}
	var noneWitness map[string]any
	for _, m := range muts {
		for _, r := range m.Reasons {
			if r == "none" && noneWitness == nil {
				noneWitness = witness(m.Loc)
			}
		}
	}
	{
		var keys []string
		for k := range hist {
			keys = append(keys, k)
		}
		sort.Strings(keys)
		items := make([]string, len(keys))
		js := map[string]any{}
		for i, k := range keys {
			items[i] = "(" + vcoq.Str(k) + ", " + vcoq.Int(hist[k]) + ")"
			js[k] = hist[k]
		}
		coq := vcoq.App("KReasons", "["+strings.Join(items, "; ")+"]")
		tags := []string{"reasons"}
		for _, k := range keys {
			tags = append(tags, "reason:"+k)
		}
		cjs := map[string]any{"reason_histogram": js}
		if noneWitness != nil {
			cjs["failing_input"] = noneWitness
		}
		o.Add(vcoq.Case{Coq: coq, JSON: cjs, Key: coq, NonTrivial: true, Tags: tags})
	}
	for _, m := range muts {
		items := make([]string, len(m.Reasons))
		tags := []string{"mutable"}
		for i, r := range m.Reasons {
			items[i] = vcoq.Str(r)
			tags = append(tags, "late-write-ordered-by:"+r)
		}
		coq := vcoq.App("KMutable", vcoq.Str(m.Loc), vcoq.Int(m.LateWrites), "["+strings.Join(items, "; ")+"]")
		mjs := map[string]any{"loc": m.Loc, "late_writes": m.LateWrites, "reasons": m.Reasons, "writers": m.Writers}
		for _, r := range m.Reasons {
			if r == "none" {
				if wt := witness(m.Loc); wt != nil {
					mjs["failing_input"] = wt
				}
			}
		}
		o.Add(vcoq.Case{Coq: coq, JSON: mjs, Key: coq, NonTrivial: true, Tags: tags})
	}

	// evidence
	nW := 0
	for _, s := range tb.Sites {
		if s.Kind == "W" {
			nW++
		}
	}
	classes := make([]map[string]any, 0, len(order))
	for _, cls := range order {
		classes = append(classes, map[string]any{"class": cls, "reports": distinct[cls].Count, "workload": distinct[cls].Workload})
	}
	o.Extra["coverage_extra"] = map[string]any{
		"lock_table": map[string]any{"access_sites": len(tb.Sites), "write_sites": nW, "locations": len(locs), "closers": len(tb.Closers),
			"function_pairs_with_conflicts": npairs, "site_pairs_checked_by_vm_compute": len(tb.Sites) * len(tb.Sites),
			"packages": tablePackages(tb), "reason_histogram_of_conflicting_pairs": hist,
			"locations_written_after_construction": len(muts), "written_after_construction": muts},
		"race_detector": map[string]any{"workloads": len(workloadNames), "seconds_per_workload": dur.Seconds(), "total_workload_seconds": seconds,
			"operations": totalOps, "max_goroutines": maxG, "race_reports": totalReports, "distinct_races": len(order), "classes": classes,
			"per_workload": wlStats, "build_s": buildS},
	}
	return nil
}

// tablePackages: number of locations per package in the table
func tablePackages(tb *lockTable) map[string]int {
	seen := map[string]bool{}
	out := map[string]int{}
	for _, s := range tb.Sites {
		if seen[s.Loc] {
			continue
		}
		seen[s.Loc] = true
		if i := strings.Index(s.Loc, "."); i > 0 {
			out[s.Loc[:i]]++
		}
	}
	return out
}
