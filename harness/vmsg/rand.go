package vmsg

import (
	"strings"

	"github.com/smart-core-os/sc-golang/verifharness/vcoq"
	"google.golang.org/protobuf/proto"
	"google.golang.org/protobuf/reflect/protoreflect"
)

// RandCfg controls RandMsg. Values come from tiny alphabets so that equal values, zero values of
// explicit-presence fields and empty sub-messages are all common.
type RandCfg struct {
	FieldPct int // chance that a field is populated (percent)
	Depth    int // message nesting depth below the root
	MaxList  int // maximum repeated / map length
}

var DefaultCfg = RandCfg{FieldPct: 25, Depth: 2, MaxList: 3}

var (
	ints    = []int64{0, 1, 2, 7, -1, 100}
	uints   = []uint64{0, 1, 2, 7, 100}
	strs    = []string{"", "a", "b", "xy"}
	floats  = []float64{0, 1, 2.5, -3}
	mapStrs = []string{"a", "b", "c"}
)

func randScalar(r *vcoq.Rand, fd protoreflect.FieldDescriptor, key bool) protoreflect.Value {
	switch fd.Kind() {
	case protoreflect.BoolKind:
		return protoreflect.ValueOfBool(r.Bool())
	case protoreflect.Int32Kind, protoreflect.Sint32Kind, protoreflect.Sfixed32Kind:
		return protoreflect.ValueOfInt32(int32(ints[r.Intn(len(ints))]))
	case protoreflect.Int64Kind, protoreflect.Sint64Kind, protoreflect.Sfixed64Kind:
		return protoreflect.ValueOfInt64(ints[r.Intn(len(ints))])
	case protoreflect.Uint32Kind, protoreflect.Fixed32Kind:
		return protoreflect.ValueOfUint32(uint32(uints[r.Intn(len(uints))]))
	case protoreflect.Uint64Kind, protoreflect.Fixed64Kind:
		return protoreflect.ValueOfUint64(uints[r.Intn(len(uints))])
	case protoreflect.FloatKind:
		return protoreflect.ValueOfFloat32(float32(floats[r.Intn(len(floats))]))
	case protoreflect.DoubleKind:
		return protoreflect.ValueOfFloat64(floats[r.Intn(len(floats))])
	case protoreflect.StringKind:
		if key {
			return protoreflect.ValueOfString(mapStrs[r.Intn(len(mapStrs))])
		}
		return protoreflect.ValueOfString(strs[r.Intn(len(strs))])
	case protoreflect.BytesKind:
		return protoreflect.ValueOfBytes([]byte(strs[r.Intn(len(strs))]))
	case protoreflect.EnumKind:
		vs := fd.Enum().Values()
		return protoreflect.ValueOfEnum(vs.Get(r.Intn(vs.Len())).Number())
	}
	panic("vmsg: unsupported kind " + fd.Kind().String())
}

func fill(r *vcoq.Rand, m protoreflect.Message, cfg RandCfg, depth int) {
	fds := m.Descriptor().Fields()
	for i := 0; i < fds.Len(); i++ {
		fd := fds.Get(i)
		if !r.Chance(cfg.FieldPct) {
			continue
		}
		isMsg := fd.Message() != nil && !fd.IsMap()
		if (isMsg || (fd.IsMap() && fd.MapValue().Message() != nil)) && depth <= 0 {
			continue
		}
		switch {
		case fd.IsList():
			l := m.Mutable(fd).List()
			n := r.Range(1, cfg.MaxList)
			for j := 0; j < n; j++ {
				if isMsg {
					e := l.NewElement()
					fill(r, e.Message(), cfg, depth-1)
					l.Append(e)
				} else {
					l.Append(randScalar(r, fd, false))
				}
			}
		case fd.IsMap():
			mp := m.Mutable(fd).Map()
			n := r.Range(1, cfg.MaxList)
			for j := 0; j < n; j++ {
				k := randScalar(r, fd.MapKey(), true).MapKey()
				if fd.MapValue().Message() != nil {
					e := mp.NewValue()
					fill(r, e.Message(), cfg, depth-1)
					mp.Set(k, e)
				} else {
					mp.Set(k, randScalar(r, fd.MapValue(), false))
				}
			}
		case isMsg:
			fill(r, m.Mutable(fd).Message(), cfg, depth-1) // Mutable makes it present, possibly empty
		default:
			m.Set(fd, randScalar(r, fd, false))
		}
	}
}

// RandMsg returns a new random message of the same type as proto (which is not modified).
func RandMsg(r *vcoq.Rand, proto proto.Message, cfg RandCfg) proto.Message {
	m := proto.ProtoReflect().New()
	fill(r, m, cfg, cfg.Depth)
	return m.Interface()
}

// PathKind says how a generated path relates to fieldmaskpb validity.
type PathKind int

const (
	PathValid            PathKind = iota // valid for fieldmaskpb: singular messages, then any field
	PathThroughRepMsg                    // continues through a repeated MESSAGE field (fmutils filters every element; fieldmaskpb: invalid)
	PathUnknown                          // some segment names no field
	PathThroughScalar                    // continues below a singular scalar
	PathThroughMap                       // continues below a map field
	PathThroughRepScalar                 // continues below a repeated scalar
	PathEmptySegment                     // "", "a..b", ".a", "a."
)

func (k PathKind) String() string {
	return [...]string{"valid", "through-repeated-message", "unknown-segment", "through-scalar", "through-map",
		"through-repeated-scalar", "empty-segment"}[k]
}

func pick(r *vcoq.Rand, md protoreflect.MessageDescriptor, ok func(protoreflect.FieldDescriptor) bool) protoreflect.FieldDescriptor {
	var c []protoreflect.FieldDescriptor
	for i := 0; i < md.Fields().Len(); i++ {
		if fd := md.Fields().Get(i); ok(fd) {
			c = append(c, fd)
		}
	}
	if len(c) == 0 {
		return nil
	}
	return c[r.Intn(len(c))]
}

func singularMsg(fd protoreflect.FieldDescriptor) bool {
	return fd.Message() != nil && !fd.IsMap() && !fd.IsList()
}

// ValidPath walks down singular message fields (each step with probability deepPct) and ends at a
// random field: a path fieldmaskpb accepts, by construction from the descriptor.
func ValidPath(r *vcoq.Rand, md protoreflect.MessageDescriptor, deepPct, maxDepth int) string {
	var segs []string
	for d := 0; ; d++ {
		if d < maxDepth && r.Chance(deepPct) {
			if fd := pick(r, md, singularMsg); fd != nil {
				segs = append(segs, string(fd.Name()))
				md = fd.Message()
				continue
			}
		}
		fd := pick(r, md, func(protoreflect.FieldDescriptor) bool { return true })
		if fd == nil { // message without fields
			return strings.Join(segs, ".")
		}
		segs = append(segs, string(fd.Name()))
		return strings.Join(segs, ".")
	}
}

// prefixTo returns a valid path that ends at a field satisfying ok (searching the root and, failing
// that, one level of singular sub-messages), plus that field; "" if there is none.
func prefixTo(r *vcoq.Rand, md protoreflect.MessageDescriptor, ok func(protoreflect.FieldDescriptor) bool) (string, protoreflect.FieldDescriptor) {
	if r.Chance(70) {
		if fd := pick(r, md, ok); fd != nil {
			return string(fd.Name()), fd
		}
	}
	if sub := pick(r, md, func(fd protoreflect.FieldDescriptor) bool {
		return singularMsg(fd) && pick(r, fd.Message(), ok) != nil
	}); sub != nil {
		fd := pick(r, sub.Message(), ok)
		return string(sub.Name()) + "." + string(fd.Name()), fd
	}
	if fd := pick(r, md, ok); fd != nil {
		return string(fd.Name()), fd
	}
	return "", nil
}

// CorruptPath builds a path of the requested kind from the descriptor; ok=false if the message
// type has no suitable field.
func CorruptPath(r *vcoq.Rand, md protoreflect.MessageDescriptor, kind PathKind) (string, bool) {
	switch kind {
	case PathValid:
		return ValidPath(r, md, 40, 3), true
	case PathThroughRepMsg:
		p, fd := prefixTo(r, md, func(fd protoreflect.FieldDescriptor) bool { return fd.IsList() && fd.Message() != nil })
		if fd == nil || fd.Message().Fields().Len() == 0 {
			return "", false
		}
		return p + "." + ValidPath(r, fd.Message(), 20, 1), true
	case PathUnknown:
		base := ValidPath(r, md, 40, 2)
		segs := strings.Split(base, ".")
		bad := []string{"zzz", "nope", "Default_int32", "c_"}[r.Intn(4)]
		switch r.Intn(3) {
		case 0: // replace a segment
			i := r.Intn(len(segs))
			segs[i] = bad
			return strings.Join(segs[:i+1+r.Intn(len(segs)-i)], "."), true
		case 1: // unknown field inside a singular message
			p, fd := prefixTo(r, md, singularMsg)
			if fd == nil {
				return bad, true
			}
			return p + "." + bad, true
		default:
			return bad, true
		}
	case PathThroughScalar:
		p, fd := prefixTo(r, md, func(fd protoreflect.FieldDescriptor) bool { return fd.Message() == nil && !fd.IsList() })
		if fd == nil {
			return "", false
		}
		return p + "." + []string{"a", "value", "c"}[r.Intn(3)], true
	case PathThroughMap:
		p, fd := prefixTo(r, md, func(fd protoreflect.FieldDescriptor) bool { return fd.IsMap() })
		if fd == nil {
			return "", false
		}
		return p + "." + []string{"a", "key", "value", "1", "a.a"}[r.Intn(5)], true
	case PathThroughRepScalar:
		p, fd := prefixTo(r, md, func(fd protoreflect.FieldDescriptor) bool { return fd.IsList() && fd.Message() == nil })
		if fd == nil {
			return "", false
		}
		return p + "." + []string{"a", "0", "value"}[r.Intn(3)], true
	case PathEmptySegment:
		base := ValidPath(r, md, 60, 2)
		switch r.Intn(5) {
		case 0:
			return "", true
		case 1:
			return "." + base, true
		case 2:
			return base + ".", true
		case 3:
			return strings.Replace(base+".", ".", "..", 1), true
		default:
			return ".", true
		}
	}
	return "", false
}

// PathRelation classifies two paths: "equal", "parent-child" (a is a proper path-prefix of b),
// "child-parent", "siblings" (same parent message, different leaf), "disjoint".
func PathRelation(a, b string) string {
	switch {
	case a == b:
		return "equal"
	case strings.HasPrefix(b, a+"."):
		return "parent-child"
	case strings.HasPrefix(a, b+"."):
		return "child-parent"
	}
	ia, ib := strings.LastIndexByte(a, '.'), strings.LastIndexByte(b, '.')
	if ia >= 0 && ib >= 0 && a[:ia] == b[:ib] {
		return "siblings"
	}
	return "disjoint"
}

// Clone is proto.Clone that keeps nil as nil.
func Clone(m proto.Message) proto.Message {
	if m == nil {
		return nil
	}
	return proto.Clone(m)
}

// PrefixNamedPairs lists pairs of valid paths (short, long) to sibling fields of md (or of a singular
// sub-message, up to depth levels down) where the NAME of one is a proper string prefix of the other's
// (state / state_change_time, preset / preset_index, temperature_set_point / temperature_set_point_delta).
// Code that compares paths with strings.HasPrefix without the '.' boundary confuses such fields.
func PrefixNamedPairs(md protoreflect.MessageDescriptor, depth int) [][2]string {
	var out [][2]string
	var walk func(md protoreflect.MessageDescriptor, prefix string, d int)
	walk = func(md protoreflect.MessageDescriptor, prefix string, d int) {
		fs := md.Fields()
		for i := 0; i < fs.Len(); i++ {
			for j := 0; j < fs.Len(); j++ {
				a, b := string(fs.Get(i).Name()), string(fs.Get(j).Name())
				if a != b && strings.HasPrefix(b, a) {
					out = append(out, [2]string{prefix + a, prefix + b})
				}
			}
			if fd := fs.Get(i); d > 0 && singularMsg(fd) {
				walk(fd.Message(), prefix+string(fd.Name())+".", d-1)
			}
		}
	}
	walk(md, "", depth)
	return out
}
