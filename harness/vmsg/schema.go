package vmsg

import (
	"github.com/smart-core-os/sc-api/go/traits"
	"github.com/smart-core-os/sc-golang/internal/testproto"
	"github.com/smart-core-os/sc-golang/verifharness/vh"
	"google.golang.org/protobuf/proto"
)

// SchemaRoots is the fixed set of message types dumped into Gen/Schema.v (with everything reachable
// from them). Every harness binary that uses the message algebra calls RegisterSchema, so all of them
// regenerate the same file. Add trait messages here when another check needs them.
var SchemaRoots = []proto.Message{
	&testproto.TestAllTypes{},
	&traits.OnOff{},
	&traits.Brightness{},
	&traits.AirTemperature{},
	&traits.ElectricMode{},
	&traits.ElectricDemand{},
	&traits.Occupancy{},
	&traits.FanSpeed{},
	&traits.Count{},
	&traits.Metadata{},
	&traits.EnergyLevel{},
	&traits.OpenClosePositions{},
	&traits.Consumable{},
	&traits.Booking{},
	&traits.Publication{},
}

// RegisterSchema registers the translator that regenerates coq/theories/Gen/Schema.v.
func RegisterSchema() {
	vh.RegisterTranslator("schema", func(outDir string) error { return WriteSchema(outDir, SchemaRoots...) })
}
