// Package vmsg converts protobuf messages, field masks and descriptors into the Coq message algebra
// of coq/theories/Msg (value trees, paths, schema) and into JSON for replays.
//
// A message becomes its canonical populated-field tree: exactly the fields protoreflect.Message.Range
// reports (so implicit-presence scalars equal to zero are absent and a present-but-empty sub-message
// is `VM []`), sorted by field number, keyed by field name; map entries sorted by key. Unknown fields
// and type names are dropped. Floats are printed as IEEE bit patterns.
//
// Case files using these literals must have `Open Scope string_scope.` in their header (strings are
// printed without a %string suffix to keep the files small); see Header.
package vmsg

import (
	"fmt"
	"math"
	"os"
	"path/filepath"
	"sort"
	"strconv"
	"strings"

	"google.golang.org/protobuf/proto"
	"google.golang.org/protobuf/reflect/protoreflect"
	"google.golang.org/protobuf/types/known/fieldmaskpb"
)

// Header is the import/scope prefix every case file that uses vmsg literals needs; append the
// property's own modules with `From SC Require Import ...`.
const Header = "From SC Require Import Base.Prelude Msg.Msg Msg.Schema Msg.Path Gen.Schema.\nOpen Scope string_scope."

// Str prints a Coq string literal (string_scope must be open). Bytes outside printable ASCII are
// replaced by '?': generators use ASCII alphabets only.
func Str(s string) string {
	var b strings.Builder
	b.WriteByte('"')
	for i := 0; i < len(s); i++ {
		c := s[i]
		switch {
		case c == '"':
			b.WriteString("\"\"")
		case c >= 32 && c < 127:
			b.WriteByte(c)
		default:
			b.WriteByte('?')
		}
	}
	b.WriteByte('"')
	return b.String()
}

func zi(v int64) string {
	if v < 0 {
		return "(" + strconv.FormatInt(v, 10) + ")"
	}
	return strconv.FormatInt(v, 10)
}
func zu(v uint64) string { return strconv.FormatUint(v, 10) }

type node struct {
	coq  string
	json any
}

func scalar(fd protoreflect.FieldDescriptor, v protoreflect.Value) node {
	switch fd.Kind() {
	case protoreflect.BoolKind:
		if v.Bool() {
			return node{"SBool true", true}
		}
		return node{"SBool false", false}
	case protoreflect.Int32Kind, protoreflect.Sint32Kind, protoreflect.Sfixed32Kind,
		protoreflect.Int64Kind, protoreflect.Sint64Kind, protoreflect.Sfixed64Kind:
		return node{"SInt " + zi(v.Int()), v.Int()}
	case protoreflect.Uint32Kind, protoreflect.Fixed32Kind, protoreflect.Uint64Kind, protoreflect.Fixed64Kind:
		return node{"SInt " + zu(v.Uint()), v.Uint()}
	case protoreflect.FloatKind:
		b := uint64(math.Float32bits(float32(v.Float())))
		return node{"SF32 " + zu(b), map[string]any{"f32bits": b}}
	case protoreflect.DoubleKind:
		b := math.Float64bits(v.Float())
		return node{"SF64 " + zu(b), map[string]any{"f64bits": b}}
	case protoreflect.StringKind:
		return node{"SStr " + Str(v.String()), v.String()}
	case protoreflect.BytesKind:
		return node{"SBytes " + Str(string(v.Bytes())), map[string]any{"bytes": string(v.Bytes())}}
	case protoreflect.EnumKind:
		return node{"SEnum " + zi(int64(v.Enum())), map[string]any{"enum": int64(v.Enum())}}
	}
	panic("vmsg: unsupported scalar kind " + fd.Kind().String())
}

func single(fd protoreflect.FieldDescriptor, v protoreflect.Value) node {
	if fd.Message() != nil {
		return message(v.Message())
	}
	s := scalar(fd, v)
	return node{"VS (" + s.coq + ")", s.json}
}

func keyLess(a, b protoreflect.MapKey) bool {
	switch x := a.Interface().(type) {
	case bool:
		return !x && b.Bool()
	case int32, int64:
		return a.Int() < b.Int()
	case uint32, uint64:
		return a.Uint() < b.Uint()
	case string:
		return x < b.String()
	}
	return false
}

func message(m protoreflect.Message) node {
	type fv struct {
		fd protoreflect.FieldDescriptor
		v  protoreflect.Value
	}
	var fs []fv
	m.Range(func(fd protoreflect.FieldDescriptor, v protoreflect.Value) bool {
		fs = append(fs, fv{fd, v})
		return true
	})
	sort.Slice(fs, func(i, j int) bool { return fs[i].fd.Number() < fs[j].fd.Number() })
	items := make([]string, 0, len(fs))
	js := make([]any, 0, len(fs))
	for _, f := range fs {
		var n node
		switch {
		case f.fd.IsList():
			l := f.v.List()
			ci := make([]string, l.Len())
			ji := make([]any, l.Len())
			for i := 0; i < l.Len(); i++ {
				e := single(f.fd, l.Get(i))
				ci[i], ji[i] = e.coq, e.json
			}
			n = node{"VL [" + strings.Join(ci, "; ") + "]", map[string]any{"list": ji}}
		case f.fd.IsMap():
			var keys []protoreflect.MapKey
			f.v.Map().Range(func(k protoreflect.MapKey, _ protoreflect.Value) bool { keys = append(keys, k); return true })
			sort.Slice(keys, func(i, j int) bool { return keyLess(keys[i], keys[j]) })
			ci := make([]string, len(keys))
			ji := make([]any, len(keys))
			for i, k := range keys {
				ks := scalar(f.fd.MapKey(), k.Value())
				e := single(f.fd.MapValue(), f.v.Map().Get(k))
				ci[i] = "(" + ks.coq + ", " + e.coq + ")"
				ji[i] = []any{ks.json, e.json}
			}
			n = node{"VMap [" + strings.Join(ci, "; ") + "]", map[string]any{"map": ji}}
		default:
			n = single(f.fd, f.v)
		}
		items = append(items, "("+Str(string(f.fd.Name()))+", "+n.coq+")")
		js = append(js, []any{string(f.fd.Name()), n.json})
	}
	return node{"VM [" + strings.Join(items, "; ") + "]", map[string]any{"msg": js}}
}

// Value is the Coq `value` literal of m (parenthesised). A nil message prints as the empty message.
func Value(m proto.Message) string {
	if m == nil || !m.ProtoReflect().IsValid() {
		return "(VM [])"
	}
	return "(" + message(m.ProtoReflect()).coq + ")"
}

// JSON is the same tree for replay files: {"msg": [[name, node], ...]}.
func JSON(m proto.Message) any {
	if m == nil || !m.ProtoReflect().IsValid() {
		return nil
	}
	return message(m.ProtoReflect()).json
}

// TypeName is the Coq string literal of m's full name (the key into Gen.Schema.the_schema).
func TypeName(m proto.Message) string { return Str(string(m.ProtoReflect().Descriptor().FullName())) }

// Path is the Coq `path` of a Go path string: its '.'-separated segments, empty ones included.
func Path(p string) string {
	segs := strings.Split(p, ".")
	it := make([]string, len(segs))
	for i, s := range segs {
		it[i] = Str(s)
	}
	return "[" + strings.Join(it, "; ") + "]"
}

// Paths is the Coq `list path` of the given path strings.
func Paths(ps []string) string {
	it := make([]string, len(ps))
	for i, p := range ps {
		it[i] = Path(p)
	}
	return "[" + strings.Join(it, "; ") + "]"
}

// Mask is the Coq `option (list path)` of a field mask: nil mask = None.
func Mask(fm *fieldmaskpb.FieldMask) string {
	if fm == nil {
		return "None"
	}
	return "(Some " + Paths(fm.Paths) + ")"
}

// MaskJSON is nil or the list of path strings.
func MaskJSON(fm *fieldmaskpb.FieldMask) any {
	if fm == nil {
		return nil
	}
	return append([]string{}, fm.Paths...)
}

// ---- schema dump (Gen/Schema.v) ----

func skind(k protoreflect.Kind) string {
	switch k {
	case protoreflect.BoolKind:
		return "KBool"
	case protoreflect.StringKind:
		return "KStr"
	case protoreflect.BytesKind:
		return "KBytes"
	case protoreflect.EnumKind:
		return "KEnum"
	case protoreflect.FloatKind:
		return "KF32"
	case protoreflect.DoubleKind:
		return "KF64"
	}
	return "KInt"
}

func fkind(fd protoreflect.FieldDescriptor) string {
	if fd.Message() != nil {
		return "(FMsg " + Str(string(fd.Message().FullName())) + ")"
	}
	return "(FScalar " + skind(fd.Kind()) + ")"
}

// SchemaV renders Gen/Schema.v for the given root message types and everything reachable from them.
func SchemaV(roots ...proto.Message) string {
	seen := map[protoreflect.FullName]bool{}
	var order []protoreflect.MessageDescriptor
	var visit func(md protoreflect.MessageDescriptor)
	visit = func(md protoreflect.MessageDescriptor) {
		if seen[md.FullName()] || md.IsMapEntry() {
			return
		}
		seen[md.FullName()] = true
		order = append(order, md)
		for i := 0; i < md.Fields().Len(); i++ {
			fd := md.Fields().Get(i)
			switch {
			case fd.IsMap():
				if fd.MapValue().Message() != nil {
					visit(fd.MapValue().Message())
				}
			case fd.Message() != nil:
				visit(fd.Message())
			}
		}
	}
	for _, r := range roots {
		visit(r.ProtoReflect().Descriptor())
	}
	sort.Slice(order, func(i, j int) bool { return order[i].FullName() < order[j].FullName() })
	var b strings.Builder
	b.WriteString("(* GENERATED by harness/vmsg (translator \"schema\") from the compiled Go descriptors on every check run. Do not edit. *)\n")
	b.WriteString("From SC Require Import Base.Prelude Msg.Msg Msg.Schema.\nLocal Open Scope string_scope.\n\n")
	b.WriteString("Definition the_schema : schema := [\n")
	for mi, md := range order {
		var fds []protoreflect.FieldDescriptor
		for i := 0; i < md.Fields().Len(); i++ {
			fds = append(fds, md.Fields().Get(i))
		}
		sort.Slice(fds, func(i, j int) bool { return fds[i].Number() < fds[j].Number() })
		fmt.Fprintf(&b, "  (%s, [\n", Str(string(md.FullName())))
		for i, fd := range fds {
			card, kind, key := "CSingular", fkind(fd), "None"
			switch {
			case fd.IsMap():
				card, kind, key = "CMap", fkind(fd.MapValue()), "(Some "+skind(fd.MapKey().Kind())+")"
			case fd.IsList():
				card = "CList"
			}
			oneof := "None"
			if o := fd.ContainingOneof(); o != nil && !o.IsSynthetic() {
				oneof = "(Some " + Str(string(o.Name())) + ")"
			}
			pres := "false"
			if fd.HasPresence() {
				pres = "true"
			}
			sep := ";"
			if i == len(fds)-1 {
				sep = ""
			}
			fmt.Fprintf(&b, "    mkF %s %d %s %s %s %s %s%s\n", Str(string(fd.Name())), fd.Number(), card, kind, key, pres, oneof, sep)
		}
		if mi == len(order)-1 {
			b.WriteString("  ])\n")
		} else {
			b.WriteString("  ]);\n")
		}
	}
	b.WriteString("].\n")
	return b.String()
}

// WriteSchema writes Gen/Schema.v into outDir.
func WriteSchema(outDir string, roots ...proto.Message) error {
	return os.WriteFile(filepath.Join(outDir, "Schema.v"), []byte(SchemaV(roots...)), 0o644)
}
