module github.com/smart-core-os/sc-golang/verifharness

go 1.23

require (
	github.com/mennanov/fmutils v0.1.1
	github.com/smart-core-os/sc-api/go v1.0.0-beta.51
	github.com/smart-core-os/sc-golang v0.0.0
	google.golang.org/grpc v1.67.1
	google.golang.org/protobuf v1.34.2
)

require (
	github.com/tanema/gween v0.0.0-20200427131925-c89ae23cc63c // indirect
	golang.org/x/exp v0.0.0-20240823005443-9b4947da3948 // indirect
	golang.org/x/net v0.29.0 // indirect
	golang.org/x/sys v0.25.0 // indirect
	golang.org/x/text v0.18.0 // indirect
	google.golang.org/genproto/googleapis/rpc v0.0.0-20240930140551-af27646dc61f // indirect
)

replace github.com/smart-core-os/sc-golang => /repo
