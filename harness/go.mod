module github.com/smart-core-os/sc-golang/verifharness

go 1.23

require (
	github.com/smart-core-os/sc-api/go v1.0.0-beta.51
	github.com/smart-core-os/sc-golang v0.0.0
	google.golang.org/protobuf v1.34.2
)

require (
	golang.org/x/net v0.29.0 // indirect
	golang.org/x/sys v0.25.0 // indirect
	golang.org/x/text v0.18.0 // indirect
	google.golang.org/genproto/googleapis/rpc v0.0.0-20240930140551-af27646dc61f // indirect
	google.golang.org/grpc v1.67.1 // indirect
)

replace github.com/smart-core-os/sc-golang => /repo
