package main

import (
	"fmt"
	"strings"

	"github.com/smart-core-os/sc-api/go/traits"
	"github.com/smart-core-os/sc-api/go/types"
	"github.com/smart-core-os/sc-golang/pkg/resource"
	"github.com/smart-core-os/sc-golang/pkg/trait/openclosepb"
	"github.com/smart-core-os/sc-golang/verifharness/vcoq"
	"google.golang.org/protobuf/proto"
	"google.golang.org/protobuf/types/known/durationpb"
	"google.golang.org/protobuf/types/known/fieldmaskpb"
)

// ---- openclosepb: a Collection of OpenClosePosition keyed by direction; GetPositions ASSEMBLES a
// response whose repeated field holds the stored messages and applies the read mask to it (model:
// Alias/Nested.v r_assembled, nested masks) ----

// nested read masks on OpenClosePositions, with their nmask literal (field numbers)
var ocMasks = []struct {
	paths []string
	coq   string
}{
	{[]string{"states"}, "NM [(1, NM [])]"},
	{[]string{"preset"}, "NM [(2, NM [])]"},
	{[]string{"states", "preset"}, "NM [(1, NM []); (2, NM [])]"},
	{[]string{"states.open_percent"}, "NM [(1, NM [(1, NM [])])]"},
	{[]string{"states.direction", "states.open_percent_tween"}, "NM [(1, NM [(2, NM []); (4, NM [])])]"},
	{[]string{"states.open_percent_tween.total_duration"}, "NM [(1, NM [(2, NM [(2, NM [])])])]"},
	{[]string{"states.open_percent_tween.total_duration.seconds", "states.resistance"}, "NM [(1, NM [(2, NM [(2, NM [(1, NM [])])]); (5, NM [])])]"},
	{[]string{"preset.name", "states.target_open_percent"}, "NM [(1, NM [(3, NM [])]); (2, NM [(1, NM [])])]"},
}

// does GetPositions with a mask below states write the stored positions (code before 2246d41 /
// seeded change C07-r3-3)?  The witness of C07_assembled_in_place_v0_refuted on the implementation.
func probeOpenCloseGet() bool {
	m := openclosepb.NewModel()
	_, _ = m.UpdatePositionN(traits.OpenClosePosition_UP, &traits.OpenClosePosition{OpenPercent: 40, Direction: traits.OpenClosePosition_UP}, resource.WithCreateIfAbsent())
	got, err := m.GetPosition(traits.OpenClosePosition_UP)
	if err != nil || got == nil {
		return false
	}
	cp := proto.Clone(got)
	_, _ = m.GetPositions(resource.WithReadMask(&fieldmaskpb.FieldMask{Paths: []string{"states.open_percent"}}))
	return !proto.Equal(got, cp)
}

func (g *gen) openCloseSeq() {
	m := openclosepb.NewModel()
	probe := func() []proto.Message {
		var out []proto.Message
		all, _ := m.GetPositions()
		for _, p := range all.GetStates() {
			out = append(out, p)
		}
		return out
	}
	s := g.newCase("openclosepb", true, probe)
	cdr := newCoder()
	posFields := []struct {
		num  int64
		name string
	}{{1, "open_percent"}, {2, "open_percent_tween"}, {3, "target_open_percent"}, {4, "direction"}, {5, "resistance"}}
	topMask := func(pct int) ([]int64, []string) {
		if !g.r.Chance(pct) {
			return nil, nil
		}
		var nums []int64
		var names []string
		for _, f := range posFields {
			if g.r.Chance(45) {
				nums, names = append(nums, f.num), append(names, f.name)
			}
		}
		if len(nums) == 0 {
			return []int64{1}, []string{"open_percent"}
		}
		return nums, names
	}
	asm := "RAsm"
	if g.openCloseInPlace {
		asm = "RAsmV0"
	}
	nOps := g.r.Range(4, 12)
	for i := 0; i < nOps; i++ {
		dir := traits.OpenClosePosition_Direction(g.r.Range(1, 3))
		idZ := int64(dir)
		switch k := g.r.Intn(100); {
		case k < 35: // UpdatePositionN
			pos := &traits.OpenClosePosition{OpenPercent: float32(g.r.Intn(5)) * 12.5}
			if g.r.Chance(70) {
				pos.Direction = dir
			}
			if g.r.Chance(40) {
				pos.TargetOpenPercent = float32(g.r.Intn(3)) * 50
			}
			if g.r.Chance(30) {
				pos.Resistance = traits.OpenClosePosition_Resistance(g.r.Intn(3))
			}
			if g.r.Chance(65) {
				pos.OpenPercentTween = &types.Tween{Progress: float32(g.r.Intn(3)) * 0.5}
				if g.r.Chance(80) {
					pos.OpenPercentTween.TotalDuration = &durationpb.Duration{Seconds: int64(g.r.Range(1, 9)), Nanos: int32(g.r.Range(0, 3))}
				}
			}
			create := g.r.Chance(65)
			umN, umP := topMask(30)
			var opts []resource.WriteOption
			if create {
				opts = append(opts, resource.WithCreateIfAbsent())
			}
			if umP != nil {
				opts = append(opts, resource.WithUpdatePaths(umP...))
			}
			cells, at := cdr.cells(pos), txt(pos)
			res, err := m.UpdatePositionN(dir, pos, opts...)
			label := fmt.Sprintf("op %d UpdatePositionN %v create=%v update_mask=%v", i, dir, create, umP)
			s.arg(pos, label+" argument")
			if err == nil {
				s.mon.cross(res, label+" result", false)
			}
			s.tags["UpdatePositionN"] = true
			if umP != nil {
				s.tags["UpdatePositionN masked"] = true
			}
			s.after(vcoq.App("CWrite", vcoq.Z(idZ), cells, "true", optZList(umN), vcoq.App("MUpdate", vcoq.Bool(create)), "INone", "INone"),
				map[string]any{"call": label, "arg": at, "err": fmt.Sprint(err)}, false, -1)
		case k < 50: // GetPosition
			rmN, rmP := topMask(40)
			var opts []resource.ReadOption
			if rmP != nil {
				opts = append(opts, resource.WithReadMask(&fieldmaskpb.FieldMask{Paths: rmP}))
			}
			s.beforeRead()
			res, err := m.GetPosition(dir, opts...)
			label := fmt.Sprintf("op %d GetPosition %v mask=%v", i, dir, rmP)
			if err == nil {
				s.mon.cross(res, label+" result", false)
			}
			s.tags["GetPosition"] = true
			s.after(vcoq.App("CGet", vcoq.Z(idZ), optZList(rmN)), map[string]any{"call": label}, true, -1)
		case k < 85: // GetPositions: the assembled response
			rm, paths := "None", []string(nil)
			var opts []resource.ReadOption
			if g.r.Chance(70) {
				mk := ocMasks[g.r.Intn(len(ocMasks))]
				rm, paths = vcoq.Some("("+mk.coq+")"), mk.paths
				opts = append(opts, resource.WithReadMask(&fieldmaskpb.FieldMask{Paths: paths}))
				if strings.Contains(strings.Join(paths, ","), "states.") {
					s.tags["GetPositions mask below states"] = true
				} else {
					s.tags["GetPositions top-level mask"] = true
				}
			} else {
				s.tags["GetPositions no mask (shares stored messages)"] = true
			}
			s.beforeRead()
			res, _ := m.GetPositions(opts...)
			if len(res.GetStates()) == 0 && paths == nil {
				s.tags["GetPositions on an empty store"] = true
			}
			label := fmt.Sprintf("op %d GetPositions mask=%v", i, paths)
			s.mon.cross(res, label+" result", false)
			s.after(vcoq.App("CRead", vcoq.App(asm, "1", rm)), map[string]any{"call": label}, true, -1)
		default:
			if len(s.args) > 0 {
				s.mutArg(g.r.Intn(len(s.args)))
			}
		}
	}
	s.emit()
}
