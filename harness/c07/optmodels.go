package main

import (
	"fmt"
	"reflect"
	"sort"
	"strings"

	"github.com/smart-core-os/sc-golang/pkg/resource"
	"github.com/smart-core-os/sc-golang/pkg/trait/airqualitysensorpb"
	"github.com/smart-core-os/sc-golang/pkg/trait/airtemperaturepb"
	"github.com/smart-core-os/sc-golang/pkg/trait/bookingpb"
	"github.com/smart-core-os/sc-golang/pkg/trait/electricpb"
	"github.com/smart-core-os/sc-golang/pkg/trait/energystoragepb"
	"github.com/smart-core-os/sc-golang/pkg/trait/enterleavesensorpb"
	"github.com/smart-core-os/sc-golang/pkg/trait/fanspeedpb"
	"github.com/smart-core-os/sc-golang/pkg/trait/lightpb"
	"github.com/smart-core-os/sc-golang/pkg/trait/occupancysensorpb"
	"github.com/smart-core-os/sc-golang/pkg/trait/onoffpb"
	"github.com/smart-core-os/sc-golang/pkg/trait/openclosepb"
	"github.com/smart-core-os/sc-golang/pkg/trait/parentpb"
	"github.com/smart-core-os/sc-golang/pkg/trait/publicationpb"
	"github.com/smart-core-os/sc-golang/pkg/trait/vendingpb"
	"google.golang.org/protobuf/proto"
	"google.golang.org/protobuf/reflect/protoreflect"
	"google.golang.org/protobuf/types/known/fieldmaskpb"
)

// ---- trait models constructed with resource options ----
// A model's constructor takes resource options; the exported With<X>Option(opts ...resource.Option) functions
// of a trait package route them to ONE of the model's resources (electricpb: demand, activeMode, modes).  What
// a resource is constructed with changes which code of a write runs - with writable fields FieldUpdater.Merge
// filters the message it is GIVEN in place - so the monitor constructs its targets also with a random set of
// writable fields per resource (different sets for the resources of one model).  scan.go lists the option
// hooks the tree has; the run stops when one of them is missing here.

type optHook struct {
	name string
	wrap func(...resource.Option) resource.Option
}

type optTarget struct {
	hooks []optHook
	mk    func(opts ...resource.Option) []root // the roots of the target of the same name, constructed with opts
}

var (
	hAirQuality  = optHook{"airqualitysensorpb.WithAirQualityOption", airqualitysensorpb.WithAirQualityOption}
	hAirTemp     = optHook{"airtemperaturepb.WithAirTemperatureOption", airtemperaturepb.WithAirTemperatureOption}
	hBooking     = optHook{"bookingpb.WithBookingOption", bookingpb.WithBookingOption}
	hDemand      = optHook{"electricpb.WithDemandOption", electricpb.WithDemandOption}
	hActiveMode  = optHook{"electricpb.WithActiveModeOption", electricpb.WithActiveModeOption}
	hMode        = optHook{"electricpb.WithModeOption", electricpb.WithModeOption}
	hEnergy      = optHook{"energystoragepb.WithEnergyLevelOption", energystoragepb.WithEnergyLevelOption}
	hEnterLeave  = optHook{"enterleavesensorpb.WithEnterLeaveEventOption", enterleavesensorpb.WithEnterLeaveEventOption}
	hFanSpeed    = optHook{"fanspeedpb.WithFanSpeedOption", fanspeedpb.WithFanSpeedOption}
	hBrightness  = optHook{"lightpb.WithBrightnessOption", lightpb.WithBrightnessOption}
	hOccupancy   = optHook{"occupancysensorpb.WithOccupancyOption", occupancysensorpb.WithOccupancyOption}
	hOnOff       = optHook{"onoffpb.WithOnOffOption", onoffpb.WithOnOffOption}
	hPositions   = optHook{"openclosepb.WithPositionsOption", openclosepb.WithPositionsOption}
	hChildren    = optHook{"parentpb.WithChildrenOption", parentpb.WithChildrenOption}
	hPublication = optHook{"publicationpb.WithPublicationOption", publicationpb.WithPublicationOption}
	hInventory   = optHook{"vendingpb.WithInventoryOption", vendingpb.WithInventoryOption}
	hConsumables = optHook{"vendingpb.WithConsumablesOption", vendingpb.WithConsumablesOption}
)

func one(v any) []root { return []root{{v: v}} }

var optTargets = map[string]optTarget{
	"airqualitysensorpb.Model": {[]optHook{hAirQuality}, func(o ...resource.Option) []root { return one(airqualitysensorpb.NewModel(o...)) }},
	"airtemperaturepb.Model":   {[]optHook{hAirTemp}, func(o ...resource.Option) []root { return one(airtemperaturepb.NewModel(o...)) }},
	"bookingpb.Model":          {[]optHook{hBooking}, func(o ...resource.Option) []root { return one(bookingpb.NewModel(o...)) }},
	"electricpb.Model":         {[]optHook{hDemand, hActiveMode, hMode}, func(o ...resource.Option) []root { return one(electricpb.NewModel(o...)) }},
	"electricpb.ModelServer": {[]optHook{hDemand, hActiveMode, hMode}, func(o ...resource.Option) []root {
		m := electricpb.NewModel(o...)
		return []root{{v: m}, srv(electricpb.NewModelServer(m))}
	}},
	"energystoragepb.Model": {[]optHook{hEnergy}, func(o ...resource.Option) []root { return one(energystoragepb.NewModel(o...)) }},
	"enterleavesensorpb.Model": {[]optHook{hEnterLeave}, func(o ...resource.Option) []root {
		return one(enterleavesensorpb.NewModel(o...))
	}},
	"fanspeedpb.Model": {[]optHook{hFanSpeed}, func(o ...resource.Option) []root { return one(fanspeedpb.NewModel(o...)) }},
	"lightpb.Model":    {[]optHook{hBrightness}, func(o ...resource.Option) []root { return one(lightpb.NewModel(o...)) }},
	"occupancysensorpb.Model": {[]optHook{hOccupancy}, func(o ...resource.Option) []root {
		return one(occupancysensorpb.NewModel(o...))
	}},
	"onoffpb.Model":     {[]optHook{hOnOff}, func(o ...resource.Option) []root { return one(onoffpb.NewModel(o...)) }},
	"openclosepb.Model": {[]optHook{hPositions}, func(o ...resource.Option) []root { return one(openclosepb.NewModel(o...)) }},
	"parentpb.Model":    {[]optHook{hChildren}, func(o ...resource.Option) []root { return one(parentpb.NewModel(o...)) }},
	"publicationpb.Model": {[]optHook{hPublication}, func(o ...resource.Option) []root {
		return one(publicationpb.NewModel(o...))
	}},
	"vendingpb.Model": {[]optHook{hInventory, hConsumables}, func(o ...resource.Option) []root { return one(vendingpb.NewModel(o...)) }},
}

func checkOptHooks(sc *scanResult) error {
	have := map[string]bool{}
	for _, t := range optTargets {
		for _, h := range t.hooks {
			have[h.name] = true
		}
	}
	var problems []string
	seen := map[string]bool{}
	for _, h := range sc.OptHooks {
		seen[h] = true
		if !have[h] {
			problems = append(problems, fmt.Sprintf("resource option hook %s is not used by any monitor target constructed with options", h))
		}
	}
	for h := range have {
		if !seen[h] {
			problems = append(problems, fmt.Sprintf("the option target table names %s, which the tree no longer has", h))
		}
	}
	for n := range optTargets {
		found := false
		for _, t := range targets {
			found = found || t.name == n
		}
		if !found {
			problems = append(problems, "option target "+n+" has no monitor target of that name")
		}
	}
	if len(problems) > 0 {
		sort.Strings(problems)
		return fmt.Errorf("C07 monitor does not cover the tree:\n  %s", strings.Join(problems, "\n  "))
	}
	return nil
}

// field names (top level, and one level below singular sub-messages) of every message type the methods of
// the roots take or return
func fieldPool(roots []root) []string {
	seenT := map[reflect.Type]bool{}
	names := map[string]bool{}
	add := func(t reflect.Type) {
		mt := resultMsgType(t, 0)
		if mt == nil || seenT[mt] {
			return
		}
		seenT[mt] = true
		md := reflect.New(mt.Elem()).Interface().(proto.Message).ProtoReflect().Descriptor()
		fds := md.Fields()
		for i := 0; i < fds.Len(); i++ {
			fd := fds.Get(i)
			names[string(fd.Name())] = true
			if fd.Message() != nil && !fd.IsList() && !fd.IsMap() {
				sub := fd.Message().Fields()
				for j := 0; j < sub.Len() && j < 4; j++ {
					names[string(fd.Name())+"."+string(sub.Get(j).Name())] = true
				}
			}
		}
	}
	for _, r := range roots {
		t := reflect.TypeOf(r.v)
		for k := 0; k < t.NumMethod(); k++ {
			mt := t.Method(k).Type
			for i := 1; i < mt.NumIn(); i++ {
				add(mt.In(i))
			}
			for i := 0; i < mt.NumOut(); i++ {
				add(mt.Out(i))
			}
		}
	}
	out := make([]string, 0, len(names))
	for n := range names {
		out = append(out, n)
	}
	sort.Strings(out)
	return out
}

// rootsWithOptions constructs the target with a random set of writable fields per resource
func (g *gen) rootsWithOptions(spec target, ot optTarget) (roots []root, note string) {
	pool := fieldPool(spec.mk())
	if len(pool) == 0 {
		return spec.mk(), ""
	}
	var opts []resource.Option
	var notes []string
	for _, h := range ot.hooks {
		if !g.r.Chance(60) {
			continue
		}
		var paths []string
		for _, n := range pool {
			if g.r.Chance(35) {
				paths = append(paths, n)
			}
		}
		if len(paths) == 0 {
			paths = []string{pool[g.r.Intn(len(pool))]}
		}
		opts = append(opts, h.wrap(resource.WithWritableFields(&fieldmaskpb.FieldMask{Paths: paths})))
		notes = append(notes, fmt.Sprintf("%s(resource.WithWritableFields(%v))", h.name, paths))
	}
	if len(opts) == 0 {
		return spec.mk(), ""
	}
	return ot.mk(opts...), "constructed with " + strings.Join(notes, ", ")
}

var _ protoreflect.Name
