package main

import (
	"fmt"
	"sort"
	"strings"

	"github.com/smart-core-os/sc-golang/internal/testproto"
	"github.com/smart-core-os/sc-golang/pkg/resource"
	"github.com/smart-core-os/sc-golang/verifharness/vcoq"
	"google.golang.org/protobuf/proto"
	"google.golang.org/protobuf/reflect/protoreflect"
	"google.golang.org/protobuf/types/known/fieldmaskpb"
)

// ---- writable fields (fixed when the resource is constructed), nested update masks, reset masks ----
// Alias/Writable.v models FieldUpdater.Merge with all three as nmask trees of field numbers; the harness
// computes the trees the way the code does: fieldmaskpb.Union of the resource's and the write's writable
// paths, Normalize (protobuf library functions, not code of the tree), then one tree node per path segment.

// top-level composite fields of TestAllTypes the core histories populate (besides coreFields)
var coreTopPaths = []string{"default_int32", "default_int64", "default_string", "default_foreign_message",
	"repeated_foreign_message", "optional_int32", "default_nested_message", "repeated_int32", "repeated_string",
	"map_string_string", "map_string_nested_message"}

// paths below singular sub-messages (a path cannot continue below a repeated field or a map)
var coreNestedPaths = []string{"default_foreign_message.c", "default_foreign_message.d", "default_nested_message.a",
	"default_nested_message.corecursive", "default_nested_message.corecursive.default_int32",
	"default_nested_message.corecursive.default_foreign_message",
	"default_nested_message.corecursive.default_foreign_message.d",
	"default_nested_message.corecursive.repeated_foreign_message",
	"default_nested_message.corecursive.map_string_string"}

func isCompositePath(p string) bool {
	switch p {
	case "default_foreign_message", "repeated_foreign_message", "default_nested_message", "repeated_int32",
		"repeated_string", "map_string_string", "map_string_nested_message":
		return true
	}
	return false
}

// mtree is fmutils.NestedMaskFromPaths over field numbers
type mtree map[int64]mtree

func maskTree(md protoreflect.MessageDescriptor, paths []string) mtree {
	fm := &fieldmaskpb.FieldMask{Paths: append([]string(nil), paths...)}
	fm.Normalize()
	root := mtree{}
	for _, p := range fm.Paths {
		cur, d := root, md
		for _, seg := range strings.Split(p, ".") {
			fd := d.Fields().ByName(protoreflect.Name(seg))
			if fd == nil {
				panic("C07 harness: unknown path " + p)
			}
			n := int64(fd.Number())
			if cur[n] == nil {
				cur[n] = mtree{}
			}
			cur = cur[n]
			d = fd.Message()
		}
	}
	return root
}
func (t mtree) coq() string {
	var keys []int64
	for k := range t {
		keys = append(keys, k)
	}
	sort.Slice(keys, func(i, j int) bool { return keys[i] < keys[j] })
	var items []string
	for _, k := range keys {
		items = append(items, vcoq.Pair(vcoq.Z(k), t[k].coq()))
	}
	return "(NM " + vcoq.List(items) + ")"
}
func optMask(md protoreflect.MessageDescriptor, fm *fieldmaskpb.FieldMask) string {
	if fm == nil {
		return "None"
	}
	return vcoq.Some(maskTree(md, fm.Paths).coq())
}
func topLevelOnly(paths []string) bool {
	for _, p := range paths {
		if strings.Contains(p, ".") {
			return false
		}
	}
	return true
}
func withinAny(path string, paths []string) bool {
	for _, p := range paths {
		if path == p || strings.HasPrefix(path, p+".") {
			return true
		}
	}
	return false
}

// the writable fields a core history's resource is constructed with: nil (all writable), whole top-level
// fields (at least one of them composite), nested paths only, or a mixture
func (g *gen) coreWritable() (paths []string, tag string) {
	r := g.r
	if r.Chance(45) {
		return nil, "writable: all"
	}
	pick := func(from []string, pct int) {
		for _, p := range from {
			if r.Chance(pct) {
				paths = append(paths, p)
			}
		}
	}
	switch k := r.Intn(100); {
	case k < 45:
		pick(coreTopPaths, 40)
		comp := false
		for _, p := range paths {
			comp = comp || isCompositePath(p)
		}
		if !comp {
			paths = append(paths, []string{"default_foreign_message", "repeated_foreign_message", "default_nested_message",
				"map_string_string", "repeated_int32"}[r.Intn(5)])
		}
		tag = "writable: whole top-level fields"
	case k < 65:
		pick(coreNestedPaths, 35)
		if len(paths) == 0 {
			paths = []string{coreNestedPaths[r.Intn(len(coreNestedPaths))]}
		}
		tag = "writable: nested paths"
	default:
		pick(coreTopPaths, 30)
		pick(coreNestedPaths, 25)
		if len(paths) == 0 {
			paths = []string{"default_foreign_message", "default_nested_message.corecursive"}
		}
		tag = "writable: top-level and nested paths"
	}
	return paths, tag
}

// update / reset paths for one write: any known path, restricted to what is writable when a restriction applies
func (g *gen) corePaths(n int, within []string) []string {
	var cand []string
	for _, p := range append(append([]string(nil), coreTopPaths...), coreNestedPaths...) {
		if within == nil || withinAny(p, within) {
			cand = append(cand, p)
		}
	}
	if len(cand) == 0 {
		return nil
	}
	var out []string
	for i := 0; i < n; i++ {
		out = append(out, cand[g.r.Intn(len(cand))])
	}
	return out
}

// the richer message of the core histories: nested messages three levels deep, scalar lists, maps
func (g *gen) coreMsgDeep(depth int) *testproto.TestAllTypes {
	r := g.r
	m := g.coreMsg()
	if r.Chance(45) {
		n := &testproto.TestAllTypes_NestedMessage{A: int32(r.Range(0, 3))}
		if depth > 0 && r.Chance(65) {
			n.Corecursive = g.coreMsgDeep(depth - 1)
		}
		m.DefaultNestedMessage = n
	}
	if r.Chance(30) {
		for i, k := 0, r.Range(1, 3); i < k; i++ {
			m.RepeatedInt32 = append(m.RepeatedInt32, int32(r.Range(1, 5)))
		}
	}
	if r.Chance(25) {
		for i, k := 0, r.Range(1, 2); i < k; i++ {
			m.RepeatedString = append(m.RepeatedString, []string{"a", "b", "xy"}[r.Intn(3)])
		}
	}
	if r.Chance(35) {
		m.MapStringString = map[string]string{}
		for i, k := 0, r.Range(1, 2); i < k; i++ {
			m.MapStringString[[]string{"a", "b", "c"}[r.Intn(3)]] = []string{"a", "b", "xy"}[r.Intn(3)]
		}
	}
	if r.Chance(25) {
		m.MapStringNestedMessage = map[string]*testproto.TestAllTypes_NestedMessage{
			[]string{"a", "b"}[r.Intn(2)]: {A: int32(r.Range(1, 4))}}
	}
	return m
}

// the witness of C07_writable_share_refuted on the real code: true when a write without update mask on a
// resource whose writable fields are whole top-level fields leaves the stored value sharing sub-messages
// or list elements with the caller's message
func probeWritableShare() bool {
	v := resource.NewValue(resource.WithWritablePaths(&testproto.TestAllTypes{}, "default_int32", "default_foreign_message", "repeated_foreign_message"))
	arg := &testproto.TestAllTypes{DefaultInt32: 40, DefaultInt64: 5, DefaultForeignMessage: &testproto.ForeignMessage{C: 1},
		RepeatedForeignMessage: []*testproto.ForeignMessage{{C: 3}}}
	res, err := v.Set(arg)
	if err != nil {
		return false
	}
	cp := proto.Clone(res)
	scramble(arg.ProtoReflect(), nil)
	return !proto.Equal(res, cp)
}

func pathsNote(what string, paths []string) string {
	if paths == nil {
		return ""
	}
	return fmt.Sprintf(" %s=%v", what, paths)
}
