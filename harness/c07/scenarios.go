package main

import (
	"fmt"

	"github.com/smart-core-os/sc-api/go/traits"
	"github.com/smart-core-os/sc-golang/pkg/resource"
	"github.com/smart-core-os/sc-golang/pkg/trait/electricpb"
	"github.com/smart-core-os/sc-golang/pkg/trait/openclosepb"
	"github.com/smart-core-os/sc-golang/verifharness/vcoq"
	"google.golang.org/protobuf/proto"
)

// Hand-written scenarios for state the generic monitor cannot read back: the positions behind an
// open/close preset are visible only through what applying the preset stores.
func (g *gen) scenarios() {
	mk := func() *openclosepb.Model {
		return openclosepb.NewModel(
			openclosepb.WithPreset(&traits.OpenClosePositions_Preset{Name: "a", Title: "A"},
				&traits.OpenClosePosition{OpenPercent: 10, Direction: traits.OpenClosePosition_UP}),
			openclosepb.WithPreset(&traits.OpenClosePositions_Preset{Name: "b", Title: "B"},
				&traits.OpenClosePosition{OpenPercent: 60, Direction: traits.OpenClosePosition_UP}))
	}
	apply := func(m *openclosepb.Model, name string, opts ...resource.WriteOption) (*traits.OpenClosePositions, *traits.OpenClosePositions) {
		arg := &traits.OpenClosePositions{Preset: &traits.OpenClosePositions_Preset{Name: name}}
		res, _ := m.UpdatePositions(arg, opts...)
		return arg, res
	}
	// 1. the caller rewrites the message it passed; applying the same preset again must store the same
	{
		m := mk()
		arg, r1 := apply(m, "a")
		want := proto.Clone(r1)
		for _, s := range arg.States {
			s.OpenPercent = 99
		}
		_, _ = apply(m, "b")
		_, r2 := apply(m, "a")
		g.hist["scenario: openclose preset, caller rewrites argument"]++
		if !proto.Equal(want, r2) {
			g.o.Directs = append(g.o.Directs, vcoq.Direct{
				What:  "openclosepb UpdatePositions(preset) hands the preset's own position messages to the caller (argument.States): rewriting the argument afterwards changes what the preset stores",
				Class: "argument-retained:openclosepb.Model.UpdatePositions",
				Replay: map[string]any{"steps": []string{"NewModel(WithPreset a: UP 10%, WithPreset b: UP 60%)", "arg := {preset:{name:a}}; UpdatePositions(arg)",
					"arg.States[0].OpenPercent = 99", "UpdatePositions({preset:{name:b}})", "UpdatePositions({preset:{name:a}})"},
					"expected": txt(want), "observed": txt(r2)}})
		}
	}
	// 2. a write with an update mask filters the written message in place: it must not be the preset's own
	{
		m, ref := mk(), mk()
		_, _ = apply(m, "a", resource.WithUpdatePaths("states.resistance"))
		_, _ = apply(m, "b")
		_, got := apply(m, "a")
		_, _ = apply(ref, "b")
		_, want := apply(ref, "a")
		g.hist["scenario: openclose preset, masked write"]++
		if !proto.Equal(want, got) {
			g.o.Directs = append(g.o.Directs, vcoq.Direct{
				What:  "openclosepb UpdatePositions(preset) with an update mask filters the preset's own position messages in place: the preset is damaged for later use",
				Class: "config-mutated:openclosepb.Model.UpdatePositions",
				Replay: map[string]any{"steps": []string{"NewModel(WithPreset a: UP 10%, WithPreset b: UP 60%)", "UpdatePositions({preset:{name:a}}, update_mask=[states.resistance])",
					"UpdatePositions({preset:{name:b}})", "UpdatePositions({preset:{name:a}})"},
					"expected": txt(want), "observed": fmt.Sprint(txt(got))}})
		}
	}
	// 3. the witness of C07_write_of_stored_message_v0_refuted on the tree: a model writes one of its stored
	// messages (the mode held by the modes collection) to another resource constructed with writable fields
	{
		m := electricpb.NewModel(electricpb.WithActiveModeOption(resource.WithWritablePaths(&traits.ElectricMode{}, "id", "title")))
		created, err := m.CreateMode(&traits.ElectricMode{Title: "a", Description: "b", Voltage: 230,
			Segments: []*traits.ElectricMode_Segment{{Magnitude: 3}}})
		g.hist["scenario: electric ChangeActiveMode with writable fields on the active mode"]++
		if err == nil {
			want := proto.Clone(created)
			_, _ = m.ChangeActiveMode(created.Id)
			stored, _ := m.FindMode(created.Id)
			if !proto.Equal(want, created) || !proto.Equal(want, stored) {
				g.o.Directs = append(g.o.Directs, vcoq.Direct{
					What:  "electricpb ChangeActiveMode hands the stored mode to activeMode.Set, which filters the message it is given in place when the resource has writable fields: the stored mode and the earlier result of CreateMode lose their other fields",
					Class: "snapshot-changed:electricpb.Model.ChangeActiveMode",
					Replay: map[string]any{"steps": []string{"NewModel(WithActiveModeOption(resource.WithWritablePaths(ElectricMode, id, title)))",
						"created := CreateMode({title:a description:b voltage:230 segments:{magnitude:3}})", "ChangeActiveMode(created.Id)", "FindMode(created.Id)"},
						"expected": txt(want), "observed": txt(stored)}})
			}
		}
	}
}
