package main

import (
	"bytes"
	"fmt"
	"go/ast"
	"go/parser"
	"go/printer"
	"go/token"
	"os"
	"path/filepath"
	"sort"
	"strings"
)

// ---- discovery: every constructor and every exported method of every hand-written type under
// pkg/trait, read from the source tree on every run (go/parser).  The monitor's target table
// (targets.go) must cover all of them; the run stops when it does not. ----

func repoDir() string {
	if d := os.Getenv("VERIF_REPO"); d != "" {
		return d
	}
	return "/repo"
}

type scannedCtor struct {
	Pkg, Name, Sig, Result string // Result: the type name the constructor returns ("Model", "ModelServer", ...)
}

func (c scannedCtor) Key() string { return c.Pkg + "." + c.Name }

type scanResult struct {
	Ctors   []scannedCtor
	Methods map[string][]string // "pkg.Type" -> exported methods declared in the package, sorted
	// exported functions func(opts ...resource.Option) resource.Option: they route resource options to one
	// of the resources of the package's model
	OptHooks []string
	Files    int
}

func exprStr(fset *token.FileSet, e ast.Expr) string {
	var b bytes.Buffer
	_ = printer.Fprint(&b, fset, e)
	return b.String()
}

func fieldListStr(fset *token.FileSet, fl *ast.FieldList) string {
	if fl == nil {
		return ""
	}
	var parts []string
	for _, f := range fl.List {
		t := exprStr(fset, f.Type)
		if len(f.Names) == 0 {
			parts = append(parts, t)
		}
		for range f.Names {
			parts = append(parts, t)
		}
	}
	return strings.Join(parts, ", ")
}

func scanTraitTree(repo string) (*scanResult, error) {
	root := filepath.Join(repo, "pkg", "trait")
	res := &scanResult{Methods: map[string][]string{}}
	var dirs []string
	err := filepath.Walk(root, func(p string, fi os.FileInfo, err error) error {
		if err != nil {
			return err
		}
		if fi.IsDir() && p != root {
			dirs = append(dirs, p)
		}
		return nil
	})
	if err != nil {
		return nil, err
	}
	sort.Strings(dirs)
	for _, dir := range dirs {
		fset := token.NewFileSet()
		pkgs, err := parser.ParseDir(fset, dir, func(fi os.FileInfo) bool {
			n := fi.Name()
			return !strings.HasSuffix(n, "_test.go") && !strings.HasSuffix(n, ".pb.go")
		}, 0)
		if err != nil {
			return nil, fmt.Errorf("parse %s: %w", dir, err)
		}
		for pname, p := range pkgs {
			var fnames []string
			for n := range p.Files {
				fnames = append(fnames, n)
			}
			sort.Strings(fnames)
			for _, fn := range fnames {
				res.Files++
				for _, d := range p.Files[fn].Decls {
					fd, ok := d.(*ast.FuncDecl)
					if !ok || !fd.Name.IsExported() {
						continue
					}
					if fd.Recv == nil {
						if fieldListStr(fset, fd.Type.Params) == "...resource.Option" && fieldListStr(fset, fd.Type.Results) == "resource.Option" {
							res.OptHooks = append(res.OptHooks, pname+"."+fd.Name.Name)
							continue
						}
						if !strings.HasPrefix(fd.Name.Name, "New") || fd.Type.Results == nil || len(fd.Type.Results.List) == 0 {
							continue
						}
						rt := strings.TrimPrefix(exprStr(fset, fd.Type.Results.List[0].Type), "*")
						if strings.Contains(rt, ".") || !ast.IsExported(rt) {
							continue // returns a type of another package (an option, a client): not a model of this package
						}
						res.Ctors = append(res.Ctors, scannedCtor{Pkg: pname, Name: fd.Name.Name, Result: rt,
							Sig: fmt.Sprintf("%s(%s) %s", fd.Name.Name, fieldListStr(fset, fd.Type.Params), fieldListStr(fset, fd.Type.Results))})
						continue
					}
					rt := strings.TrimPrefix(exprStr(fset, fd.Recv.List[0].Type), "*")
					if !ast.IsExported(rt) {
						continue
					}
					k := pname + "." + rt
					res.Methods[k] = append(res.Methods[k], fd.Name.Name)
				}
			}
		}
	}
	for k := range res.Methods {
		sort.Strings(res.Methods[k])
	}
	sort.Strings(res.OptHooks)
	sort.Slice(res.Ctors, func(i, j int) bool { return res.Ctors[i].Key() < res.Ctors[j].Key() })
	return res, nil
}
