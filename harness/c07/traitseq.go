package main

import (
	"context"
	"fmt"
	"time"

	"github.com/smart-core-os/sc-api/go/traits"
	"github.com/smart-core-os/sc-golang/pkg/resource"
	"github.com/smart-core-os/sc-golang/pkg/trait"
	"github.com/smart-core-os/sc-golang/pkg/trait/enterleavesensorpb"
	"github.com/smart-core-os/sc-golang/pkg/trait/metadatapb"
	"github.com/smart-core-os/sc-golang/pkg/trait/parentpb"
	"github.com/smart-core-os/sc-golang/verifharness/vcoq"
	"github.com/smart-core-os/sc-golang/verifharness/vmsg"
	"google.golang.org/protobuf/proto"
)

// ---- parentpb: a Collection of Child keyed by name; AddChildTrait / RemoveChildTrait are
// Update with the traitUnion / traitRemove interceptors ----
func (g *gen) parentSeq() {
	m := parentpb.NewModel()
	names := []string{"c1", "c2", "c3"}
	traitNames := []string{"t1", "t2", "t3", "t4", "t5", "t6"}
	probe := func() []proto.Message {
		var out []proto.Message
		for _, c := range m.ListChildren() {
			out = append(out, c)
		}
		return out
	}
	find := func(name string) *traits.Child {
		for _, c := range m.ListChildren() {
			if c.Name == name {
				return c
			}
		}
		return nil
	}
	s := g.newCase("parentpb", true, probe)
	cdr := newCoder()
	var subs []*collector
	defer func() {
		for _, c := range subs {
			c.cancel()
		}
	}()
	deliver := func(label string) {
		for si, c := range subs {
			for _, e := range c.take(1) {
				ev := e.(*traits.PullChildrenResponse_Change)
				s.mon.cross(ev.OldValue, fmt.Sprintf("%s event old value (subscription %d)", label, si), false)
				s.mon.cross(ev.NewValue, fmt.Sprintf("%s event new value (subscription %d)", label, si), false)
			}
		}
	}
	nOps := g.r.Range(4, 12)
	for i := 0; i < nOps; i++ {
		ni := g.r.Intn(len(names))
		name, idZ := names[ni], int64(ni+1)
		switch k := g.r.Intn(100); {
		case k < 15: // AddChild
			child := &traits.Child{Name: name}
			for _, t := range traitNames {
				if g.r.Chance(45) {
					child.Traits = append(child.Traits, &traits.Trait{Name: t})
				}
			}
			label := fmt.Sprintf("op %d AddChild %s", i, name)
			existed := find(name) != nil
			cells, at := cdr.cells(child), txt(child)
			m.AddChild(child)
			s.arg(child, label+" argument")
			if !existed {
				s.mon.cross(find(name), label+" stored value", false) // AddChild returns nothing; the stored message is the write's result
				deliver(label)
			}
			s.tags["AddChild"] = true
			s.after(vcoq.App("CWrite", vcoq.Z(idZ), cells, "true", "None", "MAdd", "INone", "INone"),
				map[string]any{"call": label, "arg": at}, false, -1)
		case k < 45: // AddChildTrait (one trait: the capacity oracle is one bit)
			t := traitNames[g.r.Intn(len(traitNames))]
			old := find(name)
			realloc := old == nil || cap(old.Traits) == len(old.Traits) || !g.unionInPlace
			label := fmt.Sprintf("op %d AddChildTrait %s %s (realloc=%v)", i, name, t, realloc)
			cells := cdr.cells(&traits.Child{Name: name})
			res, _ := m.AddChildTrait(name, trait.Name(t))
			s.mon.cross(res, label+" result", false)
			deliver(label)
			s.tags["AddChildTrait"] = true
			s.after(vcoq.App("CWrite", vcoq.Z(idZ), cells, "false", "None", "(MUpdate true)",
				vcoq.App(g.unionCode, "2", "1", vcoq.Z(cdr.str(t)), vcoq.Bool(realloc)), "INone"),
				map[string]any{"call": label}, false, -1)
		case k < 65: // RemoveChildTrait
			t := traitNames[g.r.Intn(len(traitNames))]
			label := fmt.Sprintf("op %d RemoveChildTrait %s %s", i, name, t)
			cells := cdr.cells(&traits.Child{Name: name})
			res := m.RemoveChildTrait(name, trait.Name(t))
			if res != nil {
				s.mon.cross(res, label+" result", false)
				deliver(label)
			}
			s.tags["RemoveChildTrait"] = true
			s.after(vcoq.App("CWrite", vcoq.Z(idZ), cells, "false", "None", "(MUpdate false)",
				vcoq.App(g.removeCode, "2", "1", vcoq.Z(cdr.str(t))), "INone"),
				map[string]any{"call": label}, false, -1)
		case k < 72: // RemoveChildByName
			label := fmt.Sprintf("op %d RemoveChildByName %s", i, name)
			res, err := m.RemoveChildByName(name)
			if err == nil && res != nil {
				s.mon.cross(res, label+" result", false)
				deliver(label)
			}
			s.tags["RemoveChildByName"] = true
			s.after(vcoq.App("CDelete", vcoq.Z(idZ)), map[string]any{"call": label}, false, -1)
		case k < 86: // ListChildren
			s.beforeRead()
			label := fmt.Sprintf("op %d ListChildren", i)
			for j, c := range m.ListChildren() {
				s.mon.cross(c, fmt.Sprintf("%s item %d", label, j), false)
			}
			s.tags["ListChildren"] = true
			s.after("(CList None)", map[string]any{"call": label}, true, -1)
		case k < 93 && len(subs) < 2: // PullChildren
			uo := g.r.Chance(25)
			var rmN []int64
			opts := []resource.ReadOption{resource.WithBackpressure(true), resource.WithUpdatesOnly(uo)}
			if g.r.Chance(30) {
				rmN = []int64{2}
				opts = append(opts, resource.WithReadPaths(&traits.Child{}, "traits"))
			}
			s.beforeRead()
			n := len(s.preLive)
			if uo {
				n = 0
			}
			ctx, cancel := context.WithCancel(context.Background())
			c := &collector{cancel: cancel}
			ch := m.PullChildren(ctx, opts...)
			go func() {
				for e := range ch {
					c.add(e)
				}
			}()
			label := fmt.Sprintf("op %d PullChildren mask=%v updates_only=%v", i, rmN, uo)
			for j, e := range c.take(n) {
				s.mon.cross(e.(*traits.PullChildrenResponse_Change).NewValue, fmt.Sprintf("%s seed %d", label, j), false)
			}
			subs = append(subs, c)
			s.tags["PullChildren"] = true
			s.after(vcoq.App("CPull", optZList(rmN), vcoq.Bool(uo), "SId"), map[string]any{"call": label}, true, -1)
		default:
			if len(s.args) > 0 {
				s.mutArg(g.r.Intn(len(s.args)))
			}
		}
	}
	s.emit()
}

// ---- metadatapb: a Value of Metadata; MergeMetadata is Set with metadataMergeInterceptor ----
func (g *gen) metadataSeq() {
	m := metadatapb.NewModel()
	probe := func() []proto.Message {
		v, _ := m.GetMetadata()
		return []proto.Message{v}
	}
	s := g.newCase("metadatapb", false, probe)
	cdr := newCoder()
	// NewModel stores an initial empty Metadata: the first (hidden) write of the history
	init, _ := m.GetMetadata()
	s.mon.cross(init, "initial value", false)
	s.after(vcoq.App("CWrite", "0", "[CNode [] [] []]", "false", "None", "MSet", "INone", "INone"),
		map[string]any{"call": "NewModel (initial empty Metadata)"}, false, -1)
	var subs []*collector
	defer func() {
		for _, c := range subs {
			c.cancel()
		}
	}()
	deliver := func(label string) {
		for si, c := range subs {
			for _, e := range c.take(1) {
				s.mon.cross(e.(*traits.PullMetadataResponse_Change).Metadata, fmt.Sprintf("%s event value (subscription %d)", label, si), false)
			}
		}
	}
	traitNames := []string{"t1", "t2", "t3", "t4", "t5"}
	uniq := 0
	mkMd := func() *traits.Metadata {
		md := vmsg.RandMsg(g.r, &traits.Metadata{}, vmsg.RandCfg{FieldPct: 18, Depth: 1, MaxList: 2}).(*traits.Metadata)
		md.Traits = nil
		for _, t := range traitNames {
			if g.r.Chance(35) {
				tm := &traits.TraitMetadata{Name: t}
				if g.r.Chance(60) {
					uniq++
					tm.More = map[string]string{"k": fmt.Sprintf("v%d", uniq)}
				}
				md.Traits = append(md.Traits, tm)
			}
		}
		if g.r.Chance(50) { // unsorted order of distinct names
			for i := len(md.Traits) - 1; i > 0; i-- {
				j := g.r.Intn(i + 1)
				md.Traits[i], md.Traits[j] = md.Traits[j], md.Traits[i]
			}
		}
		return md
	}
	mdFields := []struct {
		num  int64
		name string
	}{{1, "name"}, {2, "traits"}, {3, "appearance"}, {4, "location"}, {100, "more"}}
	mask := func(pct int) ([]int64, []string) {
		if !g.r.Chance(pct) {
			return nil, nil
		}
		var nums []int64
		var names []string
		for _, f := range mdFields {
			if g.r.Chance(45) {
				nums, names = append(nums, f.num), append(names, f.name)
			}
		}
		if len(nums) == 0 {
			return []int64{2}, []string{"traits"}
		}
		return nums, names
	}
	nOps := g.r.Range(4, 11)
	for i := 0; i < nOps; i++ {
		switch k := g.r.Intn(100); {
		case k < 45: // UpdateMetadata / MergeMetadata
			md := mkMd()
			merge := g.r.Chance(65)
			umN, umP := mask(25)
			var opts []resource.WriteOption
			if umP != nil {
				opts = append(opts, resource.WithUpdatePaths(umP...))
			}
			cur, _ := m.GetMetadata()
			realloc := cap(cur.Traits) == len(cur.Traits)
			cells, at := cdr.cells(md), txt(md)
			var res *traits.Metadata
			var err error
			ib, call := "INone", "UpdateMetadata"
			if merge {
				ib, call = vcoq.App(g.metaCode, "2", "1", vcoq.Bool(realloc)), "MergeMetadata"
				res, err = m.MergeMetadata(md, opts...)
			} else {
				res, err = m.UpdateMetadata(md, opts...)
			}
			label := fmt.Sprintf("op %d %s", i, call)
			s.arg(md, label+" argument")
			if err == nil {
				s.mon.cross(res, label+" result", false)
				deliver(label)
			}
			s.tags[call] = true
			s.after(vcoq.App("CWrite", "0", cells, "true", optZList(umN), "MSet", ib, "INone"),
				map[string]any{"call": label, "arg": at, "update_mask": umP, "err": fmt.Sprint(err)}, false, -1)
		case k < 70: // GetMetadata
			rmN, rmP := mask(40)
			var opts []resource.ReadOption
			if rmP != nil {
				opts = append(opts, resource.WithReadPaths(&traits.Metadata{}, rmP...))
			}
			s.beforeRead()
			res, _ := m.GetMetadata(opts...)
			label := fmt.Sprintf("op %d GetMetadata mask=%v", i, rmP)
			s.mon.cross(res, label+" result", false)
			s.tags["GetMetadata"] = true
			s.after(vcoq.App("CGet", "0", optZList(rmN)), map[string]any{"call": label}, true, -1)
		case k < 82 && len(subs) < 2: // PullMetadata
			rmN, rmP := mask(40)
			uo := g.r.Chance(25)
			opts := []resource.ReadOption{resource.WithBackpressure(true), resource.WithUpdatesOnly(uo)}
			if rmP != nil {
				opts = append(opts, resource.WithReadPaths(&traits.Metadata{}, rmP...))
			}
			s.beforeRead()
			n := 1
			if uo {
				n = 0
			}
			ctx, cancel := context.WithCancel(context.Background())
			c := &collector{cancel: cancel}
			ch := m.PullMetadata(ctx, opts...)
			go func() {
				for e := range ch {
					c.add(e)
				}
			}()
			label := fmt.Sprintf("op %d PullMetadata mask=%v updates_only=%v", i, rmP, uo)
			for j, e := range c.take(n) {
				s.mon.cross(e.(*traits.PullMetadataResponse_Change).Metadata, fmt.Sprintf("%s seed %d", label, j), false)
			}
			subs = append(subs, c)
			s.tags["PullMetadata"] = true
			s.after(vcoq.App("CPull", optZList(rmN), vcoq.Bool(uo), "SId"), map[string]any{"call": label}, true, -1)
		default:
			if len(s.args) > 0 {
				s.mutArg(g.r.Intn(len(s.args)))
			}
		}
	}
	s.emit()
}

// ---- enterleavesensorpb: a Value of EnterLeaveEvent; Pull edits the seed it is handed ----
func (g *gen) enterLeaveSeq() {
	var zero int32
	// an own initial value: the package default is one message shared by every model
	m := enterleavesensorpb.NewModel(enterleavesensorpb.WithInitialEnterLeaveEvent(&traits.EnterLeaveEvent{EnterTotal: &zero, LeaveTotal: &zero}))
	probe := func() []proto.Message {
		v, _ := m.GetEnterLeaveEvent()
		return []proto.Message{v}
	}
	s := g.newCase("enterleavesensorpb", false, probe)
	cdr := newCoder()
	init, _ := m.GetEnterLeaveEvent()
	s.mon.cross(init, "initial value", false)
	s.after(vcoq.App("CWrite", "0", "[CNode [(3, 0); (4, 0)] [] []]", "false", "None", "MSet", "INone", "INone"),
		map[string]any{"call": "NewModel (initial totals 0/0)"}, false, -1)
	enterCode := cdr.misc(fmt.Sprintf("%s:%v", "enum", traits.EnterLeaveEvent_ENTER.Number()))
	leaveCode := cdr.misc(fmt.Sprintf("%s:%v", "enum", traits.EnterLeaveEvent_LEAVE.Number()))
	totals := vcoq.App("ITotals", "1", "3", "4", vcoq.Z(enterCode), vcoq.Z(leaveCode))
	var subs []*collector
	defer func() {
		for _, c := range subs {
			c.cancel()
		}
	}()
	deliver := func(label string) {
		for si, c := range subs {
			for _, e := range c.take(1) {
				s.mon.cross(e.(enterleavesensorpb.EnterLeaveEventChange).Value, fmt.Sprintf("%s event value (subscription %d)", label, si), false)
			}
		}
	}
	elFields := []struct {
		num  int64
		name string
	}{{1, "direction"}, {2, "occupant"}, {3, "enter_total"}, {4, "leave_total"}}
	mask := func(pct int) ([]int64, []string) {
		if !g.r.Chance(pct) {
			return nil, nil
		}
		var nums []int64
		var names []string
		for _, f := range elFields {
			if g.r.Chance(50) {
				nums, names = append(nums, f.num), append(names, f.name)
			}
		}
		if len(nums) == 0 {
			return []int64{2}, []string{"occupant"}
		}
		return nums, names
	}
	nOps := g.r.Range(4, 10)
	for i := 0; i < nOps; i++ {
		switch k := g.r.Intn(100); {
		case k < 35: // CreateEnterLeaveEvent
			ev := &traits.EnterLeaveEvent{Direction: traits.EnterLeaveEvent_Direction(g.r.Intn(3))}
			if g.r.Chance(70) {
				ev.Occupant = &traits.EnterLeaveEvent_Occupant{Name: []string{"a", "b", "xy"}[g.r.Intn(3)]}
			}
			if g.r.Chance(25) {
				v := int32(g.r.Range(0, 4))
				ev.EnterTotal = &v
			}
			if g.r.Chance(25) {
				v := int32(g.r.Range(0, 4))
				ev.LeaveTotal = &v
			}
			cells, at := cdr.cells(ev), txt(ev)
			err := m.CreateEnterLeaveEvent(ev)
			label := fmt.Sprintf("op %d CreateEnterLeaveEvent", i)
			s.arg(ev, label+" argument")
			if err == nil {
				cur, _ := m.GetEnterLeaveEvent()
				s.mon.cross(cur, label+" stored value", false)
				deliver(label)
			}
			s.tags["CreateEnterLeaveEvent"] = true
			s.after(vcoq.App("CWrite", "0", cells, "true", "None", "MSet", totals, "INone"),
				map[string]any{"call": label, "arg": at, "err": fmt.Sprint(err)}, false, -1)
		case k < 42: // ResetTotals
			err := m.ResetTotals()
			label := fmt.Sprintf("op %d ResetTotals", i)
			if err == nil {
				cur, _ := m.GetEnterLeaveEvent()
				s.mon.cross(cur, label+" stored value", false)
				deliver(label)
			}
			s.tags["ResetTotals"] = true
			s.after(vcoq.App("CWrite", "0", "[CNode [(3, 0); (4, 0)] [] []]", "false", "(Some [3; 4])", "MSet", "INone", "INone"),
				map[string]any{"call": label}, false, -1)
		case k < 65: // GetEnterLeaveEvent
			rmN, rmP := mask(40)
			var opts []resource.ReadOption
			if rmP != nil {
				opts = append(opts, resource.WithReadPaths(&traits.EnterLeaveEvent{}, rmP...))
			}
			s.beforeRead()
			res, _ := m.GetEnterLeaveEvent(opts...)
			label := fmt.Sprintf("op %d GetEnterLeaveEvent mask=%v", i, rmP)
			s.mon.cross(res, label+" result", false)
			s.tags["GetEnterLeaveEvent"] = true
			s.after(vcoq.App("CGet", "0", optZList(rmN)), map[string]any{"call": label}, true, -1)
		case k < 85 && len(subs) < 2: // PullEnterLeaveEvents
			rmN, rmP := mask(40)
			uo := g.r.Chance(25)
			opts := []resource.ReadOption{resource.WithBackpressure(true), resource.WithUpdatesOnly(uo)}
			if rmP != nil {
				opts = append(opts, resource.WithReadPaths(&traits.EnterLeaveEvent{}, rmP...))
			}
			s.beforeRead()
			n := 1
			if uo {
				n = 0
			}
			ctx, cancel := context.WithCancel(context.Background())
			c := &collector{cancel: cancel}
			ch := m.PullEnterLeaveEvents(ctx, opts...)
			go func() {
				for e := range ch {
					c.add(e)
				}
			}()
			label := fmt.Sprintf("op %d PullEnterLeaveEvents mask=%v updates_only=%v", i, rmP, uo)
			for j, e := range c.take(n) {
				s.mon.cross(e.(enterleavesensorpb.EnterLeaveEventChange).Value, fmt.Sprintf("%s seed %d", label, j), false)
			}
			if uo {
				time.Sleep(2 * time.Millisecond) // PullEnterLeaveEvents subscribes inside its goroutine; nothing to wait on
			}
			subs = append(subs, c)
			s.tags["PullEnterLeaveEvents"] = true
			s.after(vcoq.App("CPull", optZList(rmN), vcoq.Bool(uo), vcoq.App(g.seedClearCode, "[1; 2]")), map[string]any{"call": label}, true, -1)
		default:
			if len(s.args) > 0 {
				s.mutArg(g.r.Intn(len(s.args)))
			}
		}
	}
	s.emit()
}
