// Package sites lists, from the source tree, every place where hand-written code of pkg/resource,
// pkg/masks and pkg/trait writes INTO an existing protobuf message or message slice (in-place filters,
// proto.Merge / Reset destinations, sorts, copy / shifting appends, slices.Insert / Delete, field
// assignments), together with where the written object comes from.  The result is Gen/AliasSites.v; the
// policy over it (Alias/SitesPolicy.v) is re-proved on the whole table on every run.
//
// The analysis is syntactic (go/ast), per function, flow-ordered:
//
//	Fresh        a composite literal, new(T), x.ProtoReflect().New(), make(...)
//	Clone        the result of proto.Clone
//	Param k      the k-th parameter of the enclosing function (or of the enclosing function literal)
//	Shared       anything else: results of Get / List / FilterClone (nil mask returns the argument),
//	             struct fields (r.value, e.body), range variables over such, unknown calls
//
// A part of an object (x.F, x.F[i], x.(*T), a range variable over x.F) has the origin of x.  Storing a
// non-fresh value into a fresh object (x.F = v, x.F[i] = v, a literal field) makes it a Shell: its
// root is private but it holds foreign messages - deep writers (Filter, Merge destination) reach them.
// An assignment dominates a later use when it is in the same or an enclosing block; an assignment in a
// branch only adds to what the variable may be (the conditional clone of seeded change C07-2).
package sites

import (
	"fmt"
	"go/ast"
	"go/parser"
	"go/token"
	"os"
	"path/filepath"
	"sort"
	"strings"
)

type Site struct {
	File, Func  string
	Kind        string // FilterInPlace | MergeDst | MergeSrcFiltered | Reset | Sort | Copy | ShiftAppend | SliceEdit | FieldSet | Call:<callee>#<k>
	Origin      string // Fresh | Clone | Param<k> | Shell | Shared
	Expr        string
	Interceptor bool // the enclosing function (literal) has the shape func(old, new proto.Message)
}

type origin struct {
	fresh, clone, shared, shell bool
	params                      map[int]bool
}

func (o origin) String() string {
	switch {
	case o.shared:
		return "Shared"
	case len(o.params) > 0:
		var ks []int
		for k := range o.params {
			ks = append(ks, k)
		}
		sort.Ints(ks)
		return fmt.Sprintf("Param%d", ks[0])
	case o.shell:
		return "Shell"
	case o.clone:
		return "Clone"
	case o.fresh:
		return "Fresh"
	}
	return "Shared"
}

func join(a, b origin) origin {
	r := origin{fresh: a.fresh || b.fresh, clone: a.clone || b.clone, shared: a.shared || b.shared, shell: a.shell || b.shell, params: map[int]bool{}}
	for k := range a.params {
		r.params[k] = true
	}
	for k := range b.params {
		r.params[k] = true
	}
	return r
}

func isPrivate(o origin) bool { return !o.shared && len(o.params) == 0 }

type binding struct {
	o     origin
	depth int // block depth of the assignment
}

type fnCtx struct {
	fset  *token.FileSet
	file  string
	name  string
	env   map[string]binding
	depth int
	icpt  bool
	out   *[]Site
	// writer functions of the package set: name -> written parameter indices
	writers map[string]map[int]bool
	wrote   map[int]bool // parameters of THIS function that are written in place
	// function literals / named functions registered with InterceptBefore / InterceptAfter
	icptLits  map[*ast.FuncLit]bool
	icptNames map[string]bool
}

func exprString(e ast.Expr) string {
	switch x := e.(type) {
	case *ast.Ident:
		return x.Name
	case *ast.SelectorExpr:
		return exprString(x.X) + "." + x.Sel.Name
	case *ast.IndexExpr:
		return exprString(x.X) + "[i]"
	case *ast.SliceExpr:
		return exprString(x.X) + "[:]"
	case *ast.StarExpr:
		return "*" + exprString(x.X)
	case *ast.TypeAssertExpr:
		return exprString(x.X) + ".(T)"
	case *ast.CallExpr:
		return exprString(x.Fun) + "()"
	case *ast.ParenExpr:
		return exprString(x.X)
	case *ast.UnaryExpr:
		return x.Op.String() + exprString(x.X)
	case *ast.CompositeLit:
		return "lit"
	case *ast.ArrayType:
		return "[]" + exprString(x.Elt)
	case *ast.Ellipsis:
		return "[]" + exprString(x.Elt)
	}
	return "?"
}

func calleeName(c *ast.CallExpr) (recv, name string) {
	switch f := c.Fun.(type) {
	case *ast.Ident:
		return "", f.Name
	case *ast.SelectorExpr:
		return exprString(f.X), f.Sel.Name
	}
	return "", ""
}

var shared = origin{shared: true}

// origin of the object an expression denotes (the object that is written when the expression is written into)
func (c *fnCtx) originOf(e ast.Expr) origin {
	switch x := e.(type) {
	case *ast.Ident:
		if x.Name == "nil" {
			return origin{fresh: true}
		}
		if b, ok := c.env[x.Name]; ok {
			return b.o
		}
		return shared
	case *ast.ParenExpr:
		return c.originOf(x.X)
	case *ast.StarExpr:
		return c.originOf(x.X)
	case *ast.TypeAssertExpr:
		return c.originOf(x.X)
	case *ast.SelectorExpr:
		if b, ok := c.env[exprString(x)]; ok {
			return b.o
		}
		if id, ok := x.X.(*ast.Ident); ok {
			if _, bound := c.env[id.Name]; !bound {
				return shared // a field of the receiver / a package variable
			}
		}
		return c.originOf(x.X)
	case *ast.IndexExpr:
		return c.originOf(x.X)
	case *ast.SliceExpr:
		return c.originOf(x.X)
	case *ast.UnaryExpr:
		if x.Op == token.AND {
			return c.originOf(x.X)
		}
		return shared
	case *ast.CompositeLit:
		o := origin{fresh: true}
		for _, el := range x.Elts {
			v := el
			if kv, ok := el.(*ast.KeyValueExpr); ok {
				v = kv.Value
			}
			if c.holdsForeign(v) {
				o.shell = true
			}
		}
		return o
	case *ast.BasicLit, *ast.FuncLit:
		return origin{fresh: true}
	case *ast.CallExpr:
		recv, name := calleeName(x)
		switch {
		case recv == "proto" && name == "Clone":
			return origin{clone: true}
		case recv == "" && (name == "new" || name == "make"):
			return origin{fresh: true}
		case name == "New" && strings.Contains(recv, "ProtoReflect"):
			return origin{fresh: true}
		case name == "Interface" || name == "ProtoReflect":
			if s, ok := x.Fun.(*ast.SelectorExpr); ok {
				return c.originOf(s.X)
			}
		case name == "FilterClone" && len(x.Args) == 1:
			return c.originOf(x.Args[0]) // nil mask: the argument itself
		case recv == "" && name == "append" && len(x.Args) > 0:
			o := c.originOf(x.Args[0])
			for _, a := range x.Args[1:] {
				if c.holdsForeign(a) {
					if isPrivate(o) {
						o.shell = true
					}
				}
			}
			return o
		case recv == "slices" && name == "Clone" && len(x.Args) == 1:
			// a new array with the SAME elements
			o := origin{fresh: true}
			if !isPrivate(c.originOf(x.Args[0])) || c.originOf(x.Args[0]).shell {
				o.shell = true
			}
			return o
		case strings.HasPrefix(name, "List") && recv != "":
			// convention (trusted): a List method returns a slice built for the call; its ELEMENTS may be stored messages
			return origin{fresh: true, shell: true}
		case recv == "" && c.writers[name] != nil:
			// a helper of the scanned packages that edits its parameter in place returns (a slice of) that parameter
			o := origin{fresh: true}
			for k := range c.writers[name] {
				if k < len(x.Args) {
					o = join(o, c.originOf(x.Args[k]))
				}
			}
			if o.shared || len(o.params) > 0 {
				o.fresh = false
			}
			return o
		case recv == "timestamppb" || recv == "durationpb" || recv == "fieldmaskpb" || recv == "fmt" || recv == "status" || recv == "errors":
			return origin{fresh: true}
		}
		return shared
	}
	return shared
}

// does storing this value into a private object make that object hold foreign messages?
func (c *fnCtx) holdsForeign(v ast.Expr) bool {
	switch x := v.(type) {
	case *ast.BasicLit, *ast.FuncLit:
		return false
	case *ast.Ident:
		if x.Name == "nil" || x.Name == "true" || x.Name == "false" {
			return false
		}
		if _, ok := c.env[x.Name]; !ok {
			return false // a constant, a scalar local not tracked (only message-ish values are bound as non-fresh)
		}
	case *ast.BinaryExpr:
		return false
	}
	o := c.originOf(v)
	return !isPrivate(o) || o.shell
}

func (c *fnCtx) bind(name string, o origin) {
	if name == "_" {
		return
	}
	c.env[name] = binding{o: o, depth: c.depth}
}

func (c *fnCtx) site(kind string, target ast.Expr) {
	o := c.originOf(target)
	for k := range o.params {
		c.wrote[k] = true
	}
	*c.out = append(*c.out, Site{File: c.file, Func: c.name, Kind: kind, Origin: o.String(), Expr: exprString(target), Interceptor: c.icpt})
}

// deep writers reach the parts of a shell; shallow writers (a field assignment) do not
func (c *fnCtx) shallowSite(kind string, target ast.Expr) {
	o := c.originOf(target)
	o.shell = false
	for k := range o.params {
		c.wrote[k] = true
	}
	*c.out = append(*c.out, Site{File: c.file, Func: c.name, Kind: kind, Origin: o.String(), Expr: exprString(target), Interceptor: c.icpt})
}

func (c *fnCtx) call(x *ast.CallExpr) {
	recv, name := calleeName(x)
	n := len(x.Args)
	switch {
	case recv == "proto" && name == "Merge" && n == 2:
		c.site("MergeDst", x.Args[0])
	case recv == "proto" && name == "Reset" && n == 1:
		c.site("Reset", x.Args[0])
	case recv == "fmutils" && (name == "Filter" || name == "Prune") && n >= 1:
		c.site("FilterInPlace", x.Args[0])
	case (name == "Filter" || name == "Prune") && n == 1 && recv != "" && recv != "fmutils" && recv != "slices":
		c.site("FilterInPlace", x.Args[0])
	case name == "Merge" && n == 2 && recv != "proto" && recv != "":
		c.site("MergeDst", x.Args[0])
		c.site("MergeSrcFiltered", x.Args[1])
	case (recv == "sort" && (name == "Slice" || name == "SliceStable" || name == "Sort" || name == "Stable")) ||
		(recv == "slices" && (name == "Sort" || name == "SortFunc" || name == "SortStableFunc" || name == "Reverse")):
		if n >= 1 {
			c.shallowSite("Sort", x.Args[0])
		}
	case recv == "" && name == "copy" && n == 2:
		c.shallowSite("Copy", x.Args[0])
	case recv == "" && name == "append" && n >= 1:
		if _, ok := x.Args[0].(*ast.SliceExpr); ok {
			c.shallowSite("ShiftAppend", x.Args[0])
		}
	case recv == "slices" && (name == "Insert" || name == "Delete" || name == "DeleteFunc" || name == "Compact" || name == "CompactFunc" || name == "Replace") && n >= 1:
		c.shallowSite("SliceEdit", x.Args[0])
	default:
		if ws, ok := c.writers[name]; ok && (recv == "" || !strings.Contains(recv, ".")) {
			for k := range ws {
				if k < n {
					c.site(fmt.Sprintf("Call:%s#%d", name, k), x.Args[k])
				}
			}
		}
	}
}

// scoped runs f in a nested scope: inside, an assignment replaces what a variable is; afterwards a variable
// of the outer scope that was assigned inside MAY be either (an assignment in a branch or loop body does
// not dominate what follows), and variables declared inside are gone
func (c *fnCtx) scoped(f func()) {
	saved := make(map[string]binding, len(c.env))
	for k, v := range c.env {
		saved[k] = v
	}
	c.depth++
	f()
	c.depth--
	for k := range c.env {
		if _, ok := saved[k]; !ok {
			delete(c.env, k)
		}
	}
	for k, old := range saved {
		cur := c.env[k]
		if cur.o.String() != old.o.String() || len(cur.o.params) != len(old.o.params) || cur.o.shell != old.o.shell {
			c.env[k] = binding{o: join(old.o, cur.o), depth: old.depth}
		}
	}
}

func isMsgParam(t ast.Expr) bool {
	s := exprString(t)
	return s == "proto.Message" || strings.HasPrefix(s, "*traits.") || strings.HasPrefix(s, "*types.") ||
		strings.HasPrefix(s, "[]*traits.") || strings.HasPrefix(s, "[]*types.") || strings.HasPrefix(s, "*testproto.")
}

func (c *fnCtx) bindParams(ft *ast.FuncType) {
	k := 0
	if ft.Params == nil {
		return
	}
	for _, f := range ft.Params.List {
		names := f.Names
		if len(names) == 0 {
			k++
			continue
		}
		for _, nm := range names {
			if isMsgParam(f.Type) {
				c.env[nm.Name] = binding{o: origin{params: map[int]bool{k: true}}, depth: c.depth}
			}
			k++
		}
	}
}

func interceptorShape(ft *ast.FuncType) bool {
	if ft.Params == nil {
		return false
	}
	var ts []string
	for _, f := range ft.Params.List {
		n := len(f.Names)
		if n == 0 {
			n = 1
		}
		for i := 0; i < n; i++ {
			ts = append(ts, exprString(f.Type))
		}
	}
	return len(ts) == 2 && ts[0] == "proto.Message" && ts[1] == "proto.Message" && (ft.Results == nil || len(ft.Results.List) == 0)
}

func (c *fnCtx) stmt(s ast.Stmt) {
	switch x := s.(type) {
	case nil:
	case *ast.BlockStmt:
		for _, t := range x.List {
			c.stmt(t)
		}
	case *ast.ExprStmt:
		c.expr(x.X)
	case *ast.AssignStmt:
		for _, r := range x.Rhs {
			c.expr(r)
		}
		for i, l := range x.Lhs {
			var rhs ast.Expr
			if len(x.Rhs) == len(x.Lhs) {
				rhs = x.Rhs[i]
			} else if len(x.Rhs) == 1 {
				rhs = x.Rhs[0]
			}
			switch lv := l.(type) {
			case *ast.Ident:
				if rhs != nil {
					o := c.originOf(rhs)
					if i > 0 && len(x.Rhs) == 1 {
						// second result of a call (ok / err): not a message
						if _, isCall := rhs.(*ast.CallExpr); isCall {
							continue
						}
						if _, isTA := rhs.(*ast.TypeAssertExpr); isTA {
							continue
						}
					}
					c.bind(lv.Name, o)
				}
			case *ast.SelectorExpr, *ast.IndexExpr:
				// x.F = v, x.F[i] = v: a write into the object x denotes
				root := rootIdent(lv)
				if root == "" {
					continue
				}
				if _, ok := c.env[root]; !ok {
					continue // a field of the receiver or of a non-message local
				}
				c.shallowSite("FieldSet", innerObject(lv))
				if rhs != nil && c.holdsForeign(rhs) {
					if b, ok := c.env[root]; ok {
						if isPrivate(b.o) {
							b.o.shell = true
						}
						c.env[root] = b
					}
				}
				// x.F = v: from here on the field path x.F denotes what v denotes (newVal.Traits = oldVal.Traits)
				if sel, ok := lv.(*ast.SelectorExpr); ok && rhs != nil {
					if _, simple := sel.X.(*ast.Ident); simple {
						c.env[exprString(sel)] = binding{o: c.originOf(rhs), depth: c.depth}
					}
				}
			}
		}
	case *ast.DeclStmt:
		if gd, ok := x.Decl.(*ast.GenDecl); ok {
			for _, sp := range gd.Specs {
				if vs, ok := sp.(*ast.ValueSpec); ok {
					for i, nm := range vs.Names {
						if i < len(vs.Values) {
							c.expr(vs.Values[i])
							c.bind(nm.Name, c.originOf(vs.Values[i]))
						} else if isMsgParam(vs.Type) {
							c.bind(nm.Name, origin{fresh: true})
						}
					}
				}
			}
		}
	case *ast.IfStmt:
		c.scoped(func() {
			c.stmt(x.Init)
			c.expr(x.Cond)
			c.scoped(func() { c.stmt(x.Body) })
			if x.Else != nil {
				c.scoped(func() { c.stmt(x.Else) })
			}
		})
	case *ast.ForStmt:
		c.scoped(func() {
			c.stmt(x.Init)
			if x.Cond != nil {
				c.expr(x.Cond)
			}
			c.stmt(x.Post)
			c.stmt(x.Body)
		})
	case *ast.RangeStmt:
		c.scoped(func() {
			c.expr(x.X)
			if v, ok := x.Value.(*ast.Ident); ok && v != nil {
				c.env[v.Name] = binding{o: c.originOf(x.X), depth: c.depth}
			}
			if k, ok := x.Key.(*ast.Ident); ok && k != nil && x.Value == nil {
				// for e := range ch
				c.env[k.Name] = binding{o: c.originOf(x.X), depth: c.depth}
			}
			c.stmt(x.Body)
		})
	case *ast.SwitchStmt:
		c.scoped(func() {
			c.stmt(x.Init)
			if x.Tag != nil {
				c.expr(x.Tag)
			}
			c.stmt(x.Body)
		})
	case *ast.TypeSwitchStmt:
		c.scoped(func() {
			c.stmt(x.Init)
			c.stmt(x.Assign)
			c.stmt(x.Body)
		})
	case *ast.CaseClause:
		c.scoped(func() {
			for _, e := range x.List {
				c.expr(e)
			}
			for _, t := range x.Body {
				c.stmt(t)
			}
		})
	case *ast.SelectStmt:
		c.stmt(x.Body)
	case *ast.CommClause:
		c.scoped(func() {
			c.stmt(x.Comm)
			for _, t := range x.Body {
				c.stmt(t)
			}
		})
	case *ast.ReturnStmt:
		for _, r := range x.Results {
			c.expr(r)
		}
	case *ast.GoStmt:
		c.expr(x.Call)
	case *ast.DeferStmt:
		c.expr(x.Call)
	case *ast.SendStmt:
		c.expr(x.Chan)
		c.expr(x.Value)
	case *ast.LabeledStmt:
		c.stmt(x.Stmt)
	case *ast.IncDecStmt:
	}
}

func rootIdent(e ast.Expr) string {
	for {
		switch x := e.(type) {
		case *ast.Ident:
			return x.Name
		case *ast.SelectorExpr:
			e = x.X
		case *ast.IndexExpr:
			e = x.X
		case *ast.StarExpr:
			e = x.X
		case *ast.ParenExpr:
			e = x.X
		case *ast.TypeAssertExpr:
			e = x.X
		default:
			return ""
		}
	}
}

// the object a field / element assignment writes: x for x.F = v, x.F for x.F[i] = v
func innerObject(e ast.Expr) ast.Expr {
	switch x := e.(type) {
	case *ast.SelectorExpr:
		return x.X
	case *ast.IndexExpr:
		return x.X
	}
	return e
}

func (c *fnCtx) expr(e ast.Expr) {
	ast.Inspect(e, func(n ast.Node) bool {
		switch x := n.(type) {
		case *ast.FuncLit:
			// a closure: analysed with the enclosing environment; its own message parameters are its parameters
			sub := &fnCtx{fset: c.fset, file: c.file, name: c.name + "$lit", env: map[string]binding{}, depth: c.depth + 1,
				icpt: interceptorShape(x.Type) && c.icptLits[x], out: c.out, writers: c.writers, wrote: map[int]bool{},
				icptLits: c.icptLits, icptNames: c.icptNames}
			for k, v := range c.env {
				// captured variables keep their origin; captured PARAMETERS of the outer function are the outer caller's
				sub.env[k] = v
			}
			sub.bindParams(x.Type)
			sub.stmt(x.Body)
			return false
		case *ast.CallExpr:
			if _, nm := calleeName(x); nm == "InterceptBefore" || nm == "InterceptAfter" {
				for _, a := range x.Args {
					if fl, ok := a.(*ast.FuncLit); ok {
						c.icptLits[fl] = true
					}
				}
			}
			c.call(x)
		}
		return true
	})
}

// Scan analyses the hand-written files of the given directories (relative to repo).
func Scan(repo string, dirs []string) ([]Site, error) {
	type fdecl struct {
		fset *token.FileSet
		file string
		d    *ast.FuncDecl
	}
	var decls []fdecl
	for _, root := range dirs {
		err := filepath.Walk(filepath.Join(repo, root), func(p string, fi os.FileInfo, err error) error {
			if err != nil {
				return err
			}
			if fi.IsDir() || !strings.HasSuffix(p, ".go") || strings.HasSuffix(p, "_test.go") || strings.HasSuffix(p, ".pb.go") ||
				strings.Contains(fi.Name(), "verif") {
				return nil
			}
			fset := token.NewFileSet()
			f, err := parser.ParseFile(fset, p, nil, 0)
			if err != nil {
				return err
			}
			rel, _ := filepath.Rel(repo, p)
			for _, d := range f.Decls {
				if fd, ok := d.(*ast.FuncDecl); ok && fd.Body != nil {
					decls = append(decls, fdecl{fset, rel, fd})
				}
			}
			return nil
		})
		if err != nil {
			return nil, err
		}
	}
	sort.SliceStable(decls, func(i, j int) bool {
		if decls[i].file != decls[j].file {
			return decls[i].file < decls[j].file
		}
		return decls[i].d.Pos() < decls[j].d.Pos()
	})
	// named functions registered as interceptors: InterceptBefore(f) / InterceptAfter(m.f)
	icptNames := map[string]bool{}
	for _, fd := range decls {
		ast.Inspect(fd.d.Body, func(n ast.Node) bool {
			if call, ok := n.(*ast.CallExpr); ok {
				if _, nm := calleeName(call); nm == "InterceptBefore" || nm == "InterceptAfter" {
					for _, a := range call.Args {
						switch f := a.(type) {
						case *ast.Ident:
							icptNames[f.Name] = true
						case *ast.SelectorExpr:
							icptNames[f.Sel.Name] = true
						}
					}
				}
			}
			return true
		})
	}
	// fixpoint: which unexported helper functions write which of their parameters in place
	writers := map[string]map[int]bool{}
	var out []Site
	for round := 0; round < 6; round++ {
		out = nil
		changed := false
		for _, fd := range decls {
			name := fd.d.Name.Name
			if fd.d.Recv != nil && len(fd.d.Recv.List) > 0 {
				name = strings.TrimPrefix(exprString(fd.d.Recv.List[0].Type), "*") + "." + name
			}
			c := &fnCtx{fset: fd.fset, file: fd.file, name: name, env: map[string]binding{}, out: &out, writers: writers,
				wrote: map[int]bool{}, icpt: interceptorShape(fd.d.Type) && icptNames[fd.d.Name.Name],
				icptLits: map[*ast.FuncLit]bool{}, icptNames: icptNames}
			c.bindParams(fd.d.Type)
			c.stmt(fd.d.Body)
			if fd.d.Recv == nil && !fd.d.Name.IsExported() {
				for k := range c.wrote {
					if writers[fd.d.Name.Name] == nil {
						writers[fd.d.Name.Name] = map[int]bool{}
					}
					if !writers[fd.d.Name.Name][k] {
						writers[fd.d.Name.Name][k] = true
						changed = true
					}
				}
			}
		}
		if !changed {
			break
		}
	}
	return out, nil
}
