package main

import (
	"context"
	"fmt"
	"reflect"
	"strings"
	"time"

	"google.golang.org/grpc"
	"google.golang.org/grpc/metadata"
	"google.golang.org/protobuf/proto"
	"google.golang.org/protobuf/reflect/protoreflect"
	"google.golang.org/protobuf/reflect/protoregistry"
	"google.golang.org/protobuf/types/known/fieldmaskpb"
)

// ---- server-streaming methods of servers and groups: the handler of the service description is
// called with a stream the monitor implements.  The request the handler allocates is filled by the
// monitor (and is an argument the caller may rewrite later); every message the server sends is taken
// as it is handed to Send - the very object, not a copy - and held as a snapshot. ----

type fakeStream struct {
	ctx  context.Context
	fill func(m proto.Message)
	c    *collector
	req  chan proto.Message
	got  bool
}

func (f *fakeStream) SetHeader(metadata.MD) error  { return nil }
func (f *fakeStream) SendHeader(metadata.MD) error { return nil }
func (f *fakeStream) SetTrailer(metadata.MD)       {}
func (f *fakeStream) Context() context.Context     { return f.ctx }
func (f *fakeStream) SendMsg(m any) error {
	if err := f.ctx.Err(); err != nil {
		return err
	}
	f.c.add(m)
	return nil
}
func (f *fakeStream) RecvMsg(m any) error {
	if f.got {
		<-f.ctx.Done()
		return f.ctx.Err()
	}
	f.got = true
	pm, ok := m.(proto.Message)
	if ok {
		f.fill(pm)
	}
	f.req <- pm
	return nil
}

var fieldMaskName = (&fieldmaskpb.FieldMask{}).ProtoReflect().Descriptor().FullName()

func isWellKnown(md protoreflect.MessageDescriptor) bool {
	return strings.HasPrefix(string(md.FullName()), "google.protobuf.")
}

// the resource a stream response carries: changes[].<first message field that is not a well-known type>
func streamResource(svc, method string) protoreflect.MessageDescriptor {
	d, err := protoregistry.GlobalFiles.FindDescriptorByName(protoreflect.FullName(svc))
	if err != nil {
		return nil
	}
	sd, ok := d.(protoreflect.ServiceDescriptor)
	if !ok {
		return nil
	}
	md := sd.Methods().ByName(protoreflect.Name(method))
	if md == nil {
		return nil
	}
	out := md.Output()
	if ch := out.Fields().ByName("changes"); ch != nil && ch.Message() != nil {
		out = ch.Message()
	}
	fds := out.Fields()
	for i := 0; i < fds.Len(); i++ {
		if fd := fds.Get(i); fd.Message() != nil && !fd.IsMap() && !isWellKnown(fd.Message()) {
			return fd.Message()
		}
	}
	return nil
}

// fixMasks gives the FieldMask fields of a request paths that exist: read_mask relative to the
// response / resource type, update_mask relative to the resource the request carries
func (mr *modelRun) fixMasks(m proto.Message, resT reflect.Type) {
	var resMd protoreflect.MessageDescriptor
	if resT != nil {
		resMd = reflect.New(resT.Elem()).Interface().(proto.Message).ProtoReflect().Descriptor()
	}
	mr.fixMasksMd(m, resMd)
}

func (mr *modelRun) fixMasksMd(m proto.Message, resMd protoreflect.MessageDescriptor) {
	g := mr.g
	pm := m.ProtoReflect()
	fds := pm.Descriptor().Fields()
	var sibling protoreflect.MessageDescriptor
	for i := 0; i < fds.Len(); i++ {
		if fd := fds.Get(i); fd.Message() != nil && !fd.IsMap() && !fd.IsList() && !isWellKnown(fd.Message()) && sibling == nil {
			sibling = fd.Message()
		}
	}
	for i := 0; i < fds.Len(); i++ {
		fd := fds.Get(i)
		if fd.Message() == nil || fd.Message().FullName() != fieldMaskName || fd.IsList() {
			continue
		}
		pm.Clear(fd)
		var md protoreflect.MessageDescriptor
		pctSet := 0
		switch fd.Name() {
		case "read_mask":
			md, pctSet = resMd, 50
		case "update_mask":
			md, pctSet = sibling, 40
		}
		if md != nil && md.Fields().Len() > 0 && g.r.Chance(pctSet) {
			pm.Set(fd, protoreflect.ValueOfMessage((&fieldmaskpb.FieldMask{Paths: g.randPaths(md)}).ProtoReflect()))
		}
	}
}

func (mr *modelRun) streamOp(i int, ref methRef) {
	g := mr.g
	full := ref.owner + "." + ref.name
	ctx, cancel := context.WithCancel(context.Background())
	c := &collector{cancel: cancel}
	resMd := streamResource(ref.svc, ref.name)
	var reqTxt string
	fs := &fakeStream{ctx: ctx, c: c, req: make(chan proto.Message, 1), fill: func(m proto.Message) {
		r := mr.randMsg(reflect.TypeOf(m))
		proto.Merge(m, r.Interface().(proto.Message))
		mr.fixMasksMd(m, resMd)
		reqTxt = txt(m)
	}}
	before := mr.state()
	srvObj := mr.roots[ref.root].v
	done := make(chan string, 1)
	go func() {
		defer func() {
			if r := recover(); r != nil {
				done <- fmt.Sprintf("panic: %v", r)
			}
		}()
		if err := ref.stream.Handler(srvObj, fs); err != nil {
			done <- "error"
			return
		}
		done <- "closed"
	}()
	var req proto.Message
	select {
	case req = <-fs.req:
	case <-time.After(2 * time.Second):
	}
	call := fmt.Sprintf("op %d %s(stream, %s)", i, ref.name, reqTxt)
	mr.log = append(mr.log, call)
	g.hist["model:"+mr.spec.name]++
	g.hist["server stream opened through its handler"]++
	g.methodCalls[full]++
	g.bracketedMethods[full] = true
	// an immediate end (invalid request, not found) shows within the quiet period
	select {
	case how := <-done:
		mr.log[len(mr.log)-1] += " -> " + how
		if strings.HasPrefix(how, "panic") {
			g.hist["panic (not judged here)"]++
		}
	case <-time.After(300 * time.Microsecond):
	}
	if req != nil {
		mr.cross(reflect.ValueOf(req), fmt.Sprintf("%s argument 0 of %s", callTag(i), full), true, 0)
	}
	mr.subs = append(mr.subs, c)
	mr.subName = append(mr.subName, fmt.Sprintf("%s stream %s", callTag(i), full))
	mr.drain()
	time.Sleep(150 * time.Microsecond)
	if after := mr.state(); !mr.spec.isAsync() && !sameState(before, after) {
		mr.direct("read-mutated:"+full, fmt.Sprintf("stored state of %s differs after opening the stream %s", mr.spec.name, call))
	}
	mr.report(full, call)
}

var _ grpc.ServerStream = (*fakeStream)(nil)
