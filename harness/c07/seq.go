package main

import (
	"context"
	"fmt"
	"sync"
	"time"

	"github.com/mennanov/fmutils"
	"github.com/smart-core-os/sc-golang/internal/testproto"
	"github.com/smart-core-os/sc-golang/pkg/resource"
	"github.com/smart-core-os/sc-golang/verifharness/vcoq"
	"google.golang.org/protobuf/proto"
	"google.golang.org/protobuf/reflect/protoreflect"
	"google.golang.org/protobuf/types/known/fieldmaskpb"
)

// ---- the observational monitor ----
// Every message that crosses the API boundary is registered with a deep copy; changed() reports
// (by crossing index) the ones whose live message no longer equals the copy, then re-bases.
type snapshot struct {
	live, copy proto.Message
	isArg      bool
	what       string
}
type monitor struct{ snaps []*snapshot }

func (m *monitor) cross(msg proto.Message, what string, isArg bool) int {
	if isNilMsg(msg) {
		return -1
	}
	m.snaps = append(m.snaps, &snapshot{live: msg, copy: proto.Clone(msg), isArg: isArg, what: what})
	return len(m.snaps) - 1
}
func (m *monitor) changed() []int64 {
	out := []int64{}
	for i, s := range m.snaps {
		if !proto.Equal(s.live, s.copy) {
			out = append(out, int64(i))
			s.copy = proto.Clone(s.live)
		}
	}
	return out
}

// ---- a correspondence case under construction ----
type seqCase struct {
	g        *gen
	kind     string
	coll     bool
	mon      monitor
	ops, obs []string
	js       []any
	args     []int // snapshot index of the k-th argument
	probe    func() []proto.Message
	pre      []proto.Message // copies of the stored values taken before a read
	preLive  []proto.Message
	tags     map[string]bool
	viol     bool
	evbad    bool // an event value differs from the stored value under the subscription's mask
	evnote   []string
	held     []*heldEvent // every event received so far, re-read after every later operation
}

type heldEvent struct {
	ev     any
	copies []proto.Message
	ptrs   []proto.Message
	what   string
}

func eventValues(ev any) []proto.Message {
	switch e := ev.(type) {
	case *resource.ValueChange:
		return []proto.Message{e.Value}
	case *resource.CollectionChange:
		return []proto.Message{e.OldValue, e.NewValue}
	}
	return nil
}
func sameMsg(a, b proto.Message) bool {
	if isNilMsg(a) || isNilMsg(b) {
		return isNilMsg(a) && isNilMsg(b)
	}
	return proto.Equal(a, b)
}

// hold keeps a received event; its values are compared with want = the stored value(s) under the
// subscription's read mask (reference projection: clone + fmutils.Filter)
func (s *seqCase) hold(ev any, what string, paths []string, want ...proto.Message) {
	h := &heldEvent{ev: ev, what: what}
	for i, v := range eventValues(ev) {
		h.ptrs = append(h.ptrs, v)
		if isNilMsg(v) {
			h.copies = append(h.copies, nil)
		} else {
			h.copies = append(h.copies, proto.Clone(v))
		}
		if i < len(want) && !sameMsg(v, project(want[i], paths)) {
			s.evbad = true
			s.evnote = append(s.evnote, fmt.Sprintf("%s: received %s, stored value under mask %v is %s", what, txt(v), paths, txt(project(want[i], paths))))
		}
	}
	s.held = append(s.held, h)
}
func project(m proto.Message, paths []string) proto.Message {
	if isNilMsg(m) || paths == nil {
		return m
	}
	c := proto.Clone(m)
	fmutils.Filter(c, paths)
	return c
}

func (g *gen) newCase(kind string, coll bool, probe func() []proto.Message) *seqCase {
	return &seqCase{g: g, kind: kind, coll: coll, probe: probe, tags: map[string]bool{kind: true}}
}

// beforeRead copies the stored values; after() of a read compares them.
func (s *seqCase) beforeRead() {
	s.preLive = s.probe()
	s.pre = nil
	for _, m := range s.preLive {
		s.pre = append(s.pre, proto.Clone(m))
	}
}
func (s *seqCase) after(op string, js any, isRead bool, allowed int) {
	ch := s.mon.changed()
	mut := false
	if isRead {
		for i, m := range s.preLive {
			if !proto.Equal(m, s.pre[i]) {
				mut = true
			}
		}
	}
	for _, h := range s.held {
		// the event struct must keep pointing at the messages it was delivered with (a change INSIDE such a
		// message is reported through the snapshots); another subscription swapping them shows here
		for i, v := range eventValues(h.ev) {
			if v != h.ptrs[i] {
				s.evbad = true
				s.evnote = append(s.evnote, fmt.Sprintf("%s: the event now carries %s, it carried %s when received", h.what, txt(v), txt(h.copies[i])))
				h.ptrs[i] = v
			}
		}
	}
	evbad, evnote := s.evbad, s.evnote
	s.evbad, s.evnote = false, nil
	s.ops = append(s.ops, op)
	s.obs = append(s.obs, vcoq.App("mkO", vcoq.Int(len(s.mon.snaps)), vcoq.ListZ(ch), vcoq.Bool(mut), vcoq.Bool(evbad)))
	desc := []string{}
	for _, i := range ch {
		if int(i) != allowed {
			s.viol = true
		}
		desc = append(desc, fmt.Sprintf("%d:%s", i, s.mon.snaps[i].what))
	}
	if mut || evbad {
		s.viol = true
	}
	s.js = append(s.js, map[string]any{"op": js, "snapshots": len(s.mon.snaps), "changed": desc, "store_mutated_by_read": mut, "event_values_wrong": evnote})
}
func (s *seqCase) arg(m proto.Message, what string) {
	i := s.mon.cross(m, what, true)
	if i >= 0 {
		s.args = append(s.args, i)
	}
}
func (s *seqCase) mutArg(k int) {
	i := s.args[k]
	scramble(s.mon.snaps[i].live.ProtoReflect(), nil)
	s.after(vcoq.App("CMutArg", vcoq.Nat(k), vcoq.Int(i)), fmt.Sprintf("caller rewrites argument %d (snapshot %d)", k, i), false, i)
	s.tags["MutArg"] = true
}
func (s *seqCase) emit() {
	coq := vcoq.App("KSeq", vcoq.Bool(s.coll), vcoq.List(s.ops), vcoq.List(s.obs))
	tags := []string{}
	for t := range s.tags {
		tags = append(tags, t)
	}
	if s.viol {
		tags = append(tags, "observed-violation")
	}
	// C07_guard: no contract-breaking harness interceptor (masks are never empty, arguments always well-formed)
	if s.tags["undocumented-interceptor"] {
		tags = append(tags, "guard: outside (contract-breaking interceptor)")
	} else {
		tags = append(tags, "guard: inside")
		s.g.guardIn++
	}
	s.g.guardAll++
	s.g.o.Add(vcoq.Case{Coq: coq, JSON: map[string]any{"kind": s.kind, "collection": s.coll, "steps": s.js},
		Key: coq, NonTrivial: len(s.ops) >= 3, Tags: tags})
}

// ---- subscriptions: a collector per Pull so that events are taken as they come ----
type collector struct {
	mu     sync.Mutex
	events []any
	taken  int
	cancel context.CancelFunc
}

func (c *collector) add(e any) {
	c.mu.Lock()
	c.events = append(c.events, e)
	c.mu.Unlock()
}

// take waits until n more events have arrived (or the timeout passes) and returns the new ones.
func (c *collector) take(n int) []any {
	deadline := time.Now().Add(2 * time.Second)
	for {
		c.mu.Lock()
		if len(c.events)-c.taken >= n || time.Now().After(deadline) {
			out := append([]any(nil), c.events[c.taken:]...)
			c.taken = len(c.events)
			c.mu.Unlock()
			return out
		}
		c.mu.Unlock()
		time.Sleep(20 * time.Microsecond)
	}
}

// takeQuiet returns what arrives until nothing new has come for the given time (no expected count).
func (c *collector) takeQuiet(quiet time.Duration) []any {
	last := -1
	for {
		c.mu.Lock()
		n := len(c.events)
		c.mu.Unlock()
		if n == last {
			break
		}
		last = n
		time.Sleep(quiet)
	}
	c.mu.Lock()
	defer c.mu.Unlock()
	out := append([]any(nil), c.events[c.taken:]...)
	c.taken = len(c.events)
	return out
}

// ---- the interceptor family on testproto.TestAllTypes (by field number) ----
type icpt struct {
	coq string
	fn  resource.UpdateInterceptor
	bad bool
	tag string
}

func fdByNum(m protoreflect.Message, n int) protoreflect.FieldDescriptor {
	return m.Descriptor().Fields().ByNumber(protoreflect.FieldNumber(n))
}
func intVal(fd protoreflect.FieldDescriptor, v int64) protoreflect.Value {
	if fd.Kind() == protoreflect.Int32Kind {
		return protoreflect.ValueOfInt32(int32(v))
	}
	return protoreflect.ValueOfInt64(v)
}
func valid(m proto.Message) bool { return !isNilMsg(m) }

func (g *gen) randIcpt() icpt {
	r := g.r
	switch {
	case r.Chance(60):
		return icpt{coq: "INone", tag: "INone"}
	case r.Chance(45):
		f, v := r.Range(1, 2), int64(r.Range(1, 9))
		return icpt{coq: vcoq.App("ISetNew", vcoq.Int(f), vcoq.Z(v)), tag: "ISetNew", fn: func(old, new proto.Message) {
			nm := new.ProtoReflect()
			nm.Set(fdByNum(nm, f), intVal(fdByNum(nm, f), v))
		}}
	case r.Chance(50):
		return icpt{coq: vcoq.App("IAddOld", "1"), tag: "IAddOld", fn: func(old, new proto.Message) {
			if !valid(old) {
				return
			}
			om, nm := old.ProtoReflect(), new.ProtoReflect()
			fd := fdByNum(nm, 1)
			if !om.Has(fd) {
				return
			}
			nm.Set(fd, protoreflect.ValueOfInt32(int32(om.Get(fd).Int()+nm.Get(fd).Int())))
		}}
	case r.Chance(34):
		f, v := r.Range(1, 2), int64(r.Range(20, 29))
		return icpt{coq: vcoq.App("IBadOldScalar", vcoq.Int(f), vcoq.Z(v)), bad: true, tag: "IBadOldScalar", fn: func(old, new proto.Message) {
			if !valid(old) {
				return
			}
			om := old.ProtoReflect()
			om.Set(fdByNum(om, f), intVal(fdByNum(om, f), v))
		}}
	case r.Chance(50):
		return icpt{coq: vcoq.App("IBadShareSub", "19"), bad: true, tag: "IBadShareSub", fn: func(old, new proto.Message) {
			if !valid(old) {
				return
			}
			om, nm := old.ProtoReflect(), new.ProtoReflect()
			fd := fdByNum(om, 19)
			if om.Has(fd) {
				nm.Set(fd, om.Get(fd))
			}
		}}
	default:
		i, gf, v := r.Intn(3), r.Range(1, 2), int64(r.Range(30, 39))
		return icpt{coq: vcoq.App("IBadOldElem", "49", vcoq.Nat(i), vcoq.Int(gf), vcoq.Z(v)), bad: true, tag: "IBadOldElem", fn: func(old, new proto.Message) {
			if !valid(old) {
				return
			}
			om := old.ProtoReflect()
			l := om.Get(fdByNum(om, 49)).List()
			if i < l.Len() {
				e := l.Get(i).Message()
				e.Set(fdByNum(e, gf), protoreflect.ValueOfInt32(int32(v)))
			}
		}}
	}
}

// ---- messages and masks for the core sequences ----
var coreFields = []struct {
	num  int64
	name string
}{{1, "default_int32"}, {2, "default_int64"}, {14, "default_string"}, {19, "default_foreign_message"},
	{49, "repeated_foreign_message"}, {80, "optional_int32"}, {18, "default_nested_message"}, {31, "repeated_int32"},
	{44, "repeated_string"}, {69, "map_string_string"}, {71, "map_string_nested_message"}}

func (g *gen) foreign() *testproto.ForeignMessage {
	return &testproto.ForeignMessage{C: int32(g.r.Range(0, 3)), D: int32(g.r.Range(0, 2))}
}
func (g *gen) coreMsg() *testproto.TestAllTypes {
	r := g.r
	m := &testproto.TestAllTypes{}
	if r.Chance(70) {
		m.DefaultInt32 = int32(r.Range(1, 5))
	}
	if r.Chance(40) {
		m.DefaultInt64 = int64(r.Range(1, 5))
	}
	if r.Chance(40) {
		m.DefaultString = []string{"a", "b", "xy"}[r.Intn(3)]
	}
	if r.Chance(50) {
		m.DefaultForeignMessage = g.foreign()
	}
	if r.Chance(60) {
		for i, n := 0, r.Range(1, 3); i < n; i++ {
			m.RepeatedForeignMessage = append(m.RepeatedForeignMessage, g.foreign())
		}
	}
	if r.Chance(25) {
		v := int32(r.Range(0, 2))
		m.OptionalInt32 = &v
	}
	return m
}
func (g *gen) coreMask(pct int) ([]int64, []string) {
	if !g.r.Chance(pct) {
		return nil, nil
	}
	var nums []int64
	var names []string
	for _, f := range coreFields {
		if g.r.Chance(40) {
			nums = append(nums, f.num)
			names = append(names, f.name)
		}
	}
	if len(nums) == 0 {
		f := coreFields[g.r.Intn(len(coreFields))]
		nums, names = []int64{f.num}, []string{f.name}
	}
	return nums, names
}

type coreSub struct {
	col   *collector
	mask  []int64
	paths []string
}

// one random history on a resource.Value or resource.Collection of TestAllTypes
func (g *gen) coreSeq(coll bool) {
	var val *resource.Value
	var col *resource.Collection
	// the writable fields are fixed when the resource is constructed
	wpaths, wtag := g.coreWritable()
	var ropts []resource.Option
	var wm *fieldmaskpb.FieldMask
	if wpaths != nil {
		ropts = append(ropts, resource.WithWritablePaths(&testproto.TestAllTypes{}, wpaths...))
		wm = &fieldmaskpb.FieldMask{Paths: wpaths}
	}
	tmd := (&testproto.TestAllTypes{}).ProtoReflect().Descriptor()
	if coll {
		col = resource.NewCollection(ropts...)
	} else {
		val = resource.NewValue(ropts...)
	}
	probe := func() []proto.Message {
		if coll {
			return col.List()
		}
		if v := val.Get(); !isNilMsg(v) {
			return []proto.Message{v}
		}
		return nil
	}
	kind := "core.Value"
	if coll {
		kind = "core.Collection"
	}
	s := g.newCase(kind, coll, probe)
	s.tags[wtag] = true
	cdr := newCoder()
	var subs []*coreSub
	defer func() {
		for _, sb := range subs {
			sb.col.cancel()
		}
	}()
	ids := []string{"1", "2", "3"}
	nOps := g.r.Range(4, 12)
	deliver := func(label string, want ...proto.Message) {
		// one event per open subscription, in the order the subscriptions were opened; want = the stored
		// old and new value (collection) or the new value (value) the event must carry under the mask
		for si, sb := range subs {
			for _, e := range sb.col.take(1) {
				switch ev := e.(type) {
				case *resource.ValueChange:
					s.mon.cross(ev.Value, fmt.Sprintf("%s event value (subscription %d)", label, si), false)
				case *resource.CollectionChange:
					s.mon.cross(ev.OldValue, fmt.Sprintf("%s event old value (subscription %d)", label, si), false)
					s.mon.cross(ev.NewValue, fmt.Sprintf("%s event new value (subscription %d)", label, si), false)
				}
				s.hold(e, fmt.Sprintf("%s event (subscription %d)", label, si), sb.paths, want...)
			}
		}
	}
	storedNow := func(id string) proto.Message {
		if coll {
			m, _ := col.Get(id)
			return m
		}
		return val.Get()
	}
	for i := 0; i < nOps; i++ {
		id := g.r.Intn(len(ids))
		idZ := int64(id + 1)
		if !coll {
			idZ = 0
		}
		switch k := g.r.Intn(100); {
		case k < 40: // write
			arg := g.coreMsgDeep(2)
			ib, ia := g.randIcpt(), g.randIcpt()
			if g.r.Chance(50) {
				ia = icpt{coq: "INone", tag: "INone"}
			}
			var opts []resource.WriteOption
			// the writable fields of this write: the resource's, widened or lifted by write options
			eff := wm
			var more []string
			allW := false
			if wm != nil && g.r.Chance(12) {
				more = g.corePaths(1, nil)
				opts = append(opts, resource.WithMoreWritablePaths(more...))
				eff = fieldmaskpb.Union(wm, &fieldmaskpb.FieldMask{Paths: more})
				s.tags["write: more writable paths"] = true
			} else if wm != nil && g.r.Chance(6) {
				allW = true
				opts = append(opts, resource.WithAllFieldsWritable())
				eff = nil
				s.tags["write: all fields writable"] = true
			}
			// update mask: none, without paths, top-level fields, or paths of any depth (inside what is writable)
			var umN []int64
			var umP []string
			var um *fieldmaskpb.FieldMask
			switch {
			case g.r.Chance(50):
			case g.r.Chance(6):
				um = &fieldmaskpb.FieldMask{}
				umP = []string{}
				opts = append(opts, resource.WithUpdateMask(um))
				s.tags["write: update mask without paths"] = true
			case eff == nil && g.r.Chance(50):
				umN, umP = g.coreMask(100)
			default:
				var within []string
				if eff != nil {
					within = eff.Paths
				}
				umP = g.corePaths(g.r.Range(1, 3), within)
				if umP != nil && !topLevelOnly(umP) {
					s.tags["write: nested update mask"] = true
				}
			}
			if um == nil && umP != nil {
				um = &fieldmaskpb.FieldMask{Paths: umP}
				opts = append(opts, resource.WithUpdatePaths(umP...))
			}
			var reset *fieldmaskpb.FieldMask
			if g.r.Chance(15) {
				reset = &fieldmaskpb.FieldMask{Paths: g.corePaths(g.r.Range(1, 2), nil)}
				opts = append(opts, resource.WithResetPaths(reset.Paths...))
				s.tags["write: reset mask"] = true
			}
			if um == nil {
				s.tags["write: no update mask"] = true
			}
			if ib.fn != nil {
				opts = append(opts, resource.InterceptBefore(ib.fn))
			}
			if ia.fn != nil {
				opts = append(opts, resource.InterceptAfter(ia.fn))
			}
			cells := cdr.cells(arg)
			argTxt := txt(arg)
			oldStored := storedNow(ids[id])
			var res proto.Message
			var err error
			mode, label := "MSet", "Set"
			switch {
			case !coll:
				res, err = val.Set(arg, opts...)
			case g.r.Chance(25):
				mode, label = "MAdd", "Add "+ids[id]
				res, err = col.Add(ids[id], arg, opts...)
			case g.r.Chance(70):
				mode, label = "(MUpdate true)", "Update(create) "+ids[id]
				res, err = col.Update(ids[id], arg, append(opts, resource.WithCreateIfAbsent())...)
			default:
				mode, label = "(MUpdate false)", "Update "+ids[id]
				res, err = col.Update(ids[id], arg, opts...)
			}
			label = fmt.Sprintf("op %d %s", i, label)
			s.arg(arg, label+" argument")
			if err == nil {
				s.mon.cross(res, label+" result", false)
				if coll {
					deliver(label, oldStored, res)
				} else {
					deliver(label, res)
				}
			}
			s.tags["write:"+ib.tag+"/"+ia.tag] = true
			if ib.bad || ia.bad {
				s.tags["undocumented-interceptor"] = true
			}
			js := map[string]any{"call": label, "arg": argTxt, "update_mask": umP, "before": ib.coq, "after": ia.coq, "err": fmt.Sprint(err),
				"resource_writable_paths": wpaths, "more_writable_paths": more, "all_fields_writable": allW}
			if reset != nil {
				js["reset_mask"] = reset.Paths
			}
			if eff == nil && reset == nil && (um == nil || (len(umP) > 0 && topLevelOnly(umP))) {
				// the fragment of Alias/Owned.v upd_merge: no writable restriction, nil or top-level update mask
				if umP != nil && umN == nil {
					for _, p := range umP {
						umN = append(umN, int64(tmd.Fields().ByName(protoreflect.Name(p)).Number()))
					}
				}
				s.after(vcoq.App("CWrite", vcoq.Z(idZ), cells, "true", optZList(umN), mode, ib.coq, ia.coq), js, false, -1)
			} else {
				// FieldUpdater.Merge as a whole (Alias/Writable.v)
				mc := vcoq.App(g.mergeCode, optMask(tmd, eff), optMask(tmd, um), optMask(tmd, reset))
				s.tags["write: FieldUpdater.Merge with writable / nested / reset masks"] = true
				s.after(vcoq.App("CWriteF", vcoq.Z(idZ), cells, "true", mc, mode, ib.coq, ia.coq), js, false, -1)
			}
		case k < 48 && coll: // delete
			res, err := col.Delete(ids[id])
			label := fmt.Sprintf("op %d Delete %s", i, ids[id])
			if err == nil {
				s.mon.cross(res, label+" result", false)
				deliver(label, res, nil)
			}
			s.tags["delete"] = true
			s.after(vcoq.App("CDelete", vcoq.Z(idZ)), map[string]any{"call": label, "err": fmt.Sprint(err)}, false, -1)
		case k < 66: // get
			rmN, rmP := g.coreMask(45)
			var opts []resource.ReadOption
			if rmP != nil {
				opts = append(opts, resource.WithReadPaths(&testproto.TestAllTypes{}, rmP...))
			}
			s.beforeRead()
			var res proto.Message
			if coll {
				res, _ = col.Get(ids[id], opts...)
			} else {
				res = val.Get(opts...)
			}
			label := fmt.Sprintf("op %d Get %d mask=%v", i, idZ, rmP)
			s.mon.cross(res, label+" result", false)
			s.tags["get"] = true
			s.after(vcoq.App("CGet", vcoq.Z(idZ), optZList(rmN)), map[string]any{"call": label}, true, -1)
		case k < 74 && coll: // list
			rmN, rmP := g.coreMask(45)
			var opts []resource.ReadOption
			if rmP != nil {
				opts = append(opts, resource.WithReadPaths(&testproto.TestAllTypes{}, rmP...))
			}
			s.beforeRead()
			label := fmt.Sprintf("op %d List mask=%v", i, rmP)
			for j, m := range col.List(opts...) {
				s.mon.cross(m, fmt.Sprintf("%s item %d", label, j), false)
			}
			s.tags["list"] = true
			s.after(vcoq.App("CList", optZList(rmN)), map[string]any{"call": label}, true, -1)
		case k < 88 && len(subs) < 3: // pull
			rmN, rmP := g.coreMask(45)
			uo := g.r.Chance(25)
			bp := g.r.Chance(60)
			opts := []resource.ReadOption{resource.WithBackpressure(bp), resource.WithUpdatesOnly(uo)}
			if rmP != nil {
				opts = append(opts, resource.WithReadPaths(&testproto.TestAllTypes{}, rmP...))
			}
			s.beforeRead()
			nSeeds := len(s.preLive)
			if uo {
				nSeeds = 0
			}
			ctx, cancel := context.WithCancel(context.Background())
			c := &collector{cancel: cancel}
			if coll {
				ch := col.Pull(ctx, opts...)
				go func() {
					for e := range ch {
						c.add(e)
					}
				}()
			} else {
				ch := val.Pull(ctx, opts...)
				go func() {
					for e := range ch {
						c.add(e)
					}
				}()
			}
			label := fmt.Sprintf("op %d Pull mask=%v updates_only=%v backpressure=%v", i, rmP, uo, bp)
			for j, e := range c.take(nSeeds) {
				switch ev := e.(type) {
				case *resource.ValueChange:
					s.mon.cross(ev.Value, fmt.Sprintf("%s seed %d", label, j), false)
				case *resource.CollectionChange:
					s.mon.cross(ev.NewValue, fmt.Sprintf("%s seed %d", label, j), false)
				}
			}
			subs = append(subs, &coreSub{col: c, mask: rmN, paths: rmP})
			s.tags[fmt.Sprintf("pull backpressure=%v", bp)] = true
			s.tags[fmt.Sprintf("subscriptions open: %d", len(subs))] = true
			s.after(vcoq.App("CPull", optZList(rmN), vcoq.Bool(uo), "SId"), map[string]any{"call": label}, true, -1)
		default:
			if len(s.args) == 0 {
				continue
			}
			s.mutArg(g.r.Intn(len(s.args)))
		}
	}
	s.emit()
}
