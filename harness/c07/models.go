package main

import (
	"context"
	"fmt"
	"reflect"
	"sort"
	"strings"
	"time"

	"github.com/smart-core-os/sc-golang/pkg/resource"
	"github.com/smart-core-os/sc-golang/pkg/trait"
	"github.com/smart-core-os/sc-golang/verifharness/vcoq"
	"github.com/smart-core-os/sc-golang/verifharness/vmsg"
	"google.golang.org/protobuf/proto"
	"google.golang.org/protobuf/reflect/protoreflect"
	"google.golang.org/protobuf/types/known/fieldmaskpb"
)

// ---- every target of targets.go, driven through its exported methods by reflection ----

func pct(v float32) *float32 { return &v }

var (
	protoMsgType  = reflect.TypeOf((*proto.Message)(nil)).Elem()
	ctxType       = reflect.TypeOf((*context.Context)(nil)).Elem()
	readOptType   = reflect.TypeOf((*resource.ReadOption)(nil)).Elem()
	writeOptType  = reflect.TypeOf((*resource.WriteOption)(nil)).Elem()
	resOptType    = reflect.TypeOf((*resource.Option)(nil)).Elem()
	traitNameType = reflect.TypeOf(trait.Name(""))
	enumType      = reflect.TypeOf((*protoreflect.Enum)(nil)).Elem()
	errorType     = reflect.TypeOf((*error)(nil)).Elem()
	timeType      = reflect.TypeOf(time.Time{})
)

func isProtoPtr(t reflect.Type) bool { return t.Kind() == reflect.Ptr && t.Implements(protoMsgType) }

var writePrefixes = []string{"Update", "Set", "Create", "Add", "Delete", "Remove", "Merge", "Reset", "Record", "Change",
	"Dispense", "Generate", "Acknowledge", "Clear", "Stop", "Start", "Confirm", "Silence", "Save"}

// the read-only operations of the property: Get, List, Pull (and its seed), Describe - and lookups
var readPrefixes = []string{"Get", "List", "Pull", "Describe", "Has", "Find"}

func hasReadPrefix(method string) bool {
	for _, p := range readPrefixes {
		if strings.HasPrefix(method, p) {
			return true
		}
	}
	return false
}

func isReadOnly(method string) bool {
	if hasReadPrefix(method) {
		return true
	}
	for _, p := range writePrefixes {
		if strings.HasPrefix(method, p) {
			return false
		}
	}
	return true
}

// a call the monitor brackets with state probes: named as a read, or an accessor without arguments
// (Modes(), ActiveMode(), FanSpeed(opts...)); anything else (CheckInBooking, ReverseFanSpeedDirection,
// Charge, DeriveValues ...) is treated as a write
func bracketed(m reflect.Method) bool {
	if hasReadPrefix(m.Name) {
		return true
	}
	n := m.Type.NumIn() - 1
	return isReadOnly(m.Name) && (n == 0 || (n == 1 && m.Type.IsVariadic()))
}

func supportedParam(t reflect.Type, variadic bool) bool {
	if variadic {
		e := t.Elem()
		return e == readOptType || e == writeOptType || e == resOptType || e == traitNameType || isProtoPtr(e) || e.Kind() == reflect.String
	}
	switch {
	case t == ctxType, isProtoPtr(t), t == protoMsgType:
		return true
	case t.Kind() == reflect.String, t.Kind() == reflect.Bool, t.Kind() == reflect.Float32, t.Kind() == reflect.Float64:
		return true
	case t.Kind() >= reflect.Int && t.Kind() <= reflect.Uint64:
		return true
	}
	return false
}

// the first proto message type among the results of a method (through slices, chans, structs)
func resultMsgType(t reflect.Type, depth int) reflect.Type {
	if depth > 3 {
		return nil
	}
	switch {
	case isProtoPtr(t):
		return t
	case t.Kind() == reflect.Slice, t.Kind() == reflect.Chan, t.Kind() == reflect.Ptr:
		return resultMsgType(t.Elem(), depth+1)
	case t.Kind() == reflect.Struct && t != timeType:
		for i := 0; i < t.NumField(); i++ {
			if t.Field(i).IsExported() {
				if r := resultMsgType(t.Field(i).Type, depth+1); r != nil {
					return r
				}
			}
		}
	}
	return nil
}

func (g *gen) randPaths(md protoreflect.MessageDescriptor) []string {
	fds := md.Fields()
	var out []string
	for n := g.r.Range(1, 2); n > 0 && fds.Len() > 0; n-- {
		fd := fds.Get(g.r.Intn(fds.Len()))
		p := string(fd.Name())
		if fd.Message() != nil && !fd.IsMap() && g.r.Chance(50) && fd.Message().Fields().Len() > 0 {
			sub := fd.Message().Fields()
			p += "." + string(sub.Get(g.r.Intn(sub.Len())).Name())
		}
		dup := false
		for _, q := range out {
			dup = dup || q == p
		}
		if !dup {
			out = append(out, p)
		}
	}
	return out
}

// ---- one sequence on one model ----
type modelRun struct {
	g        *gen
	spec     target
	roots    []root
	rvs      []reflect.Value
	refs     []methRef
	mon      monitor
	owner    []string // per snapshot: the method whose argument it was (arguments only)
	subs     []*collector
	subName  []string
	pool     []string
	poolBy   map[string][]string  // string values seen in results, by field name (version, id, name ...)
	lastRes  protoreflect.Message // the latest result / event value with an id or a name: follow-up calls refer to it
	ints     []int64              // integers earlier calls returned (counts, indexes)
	lastK    methRef
	lastArgs []reflect.Value
	lastPre  []proto.Message
	lastDesc []string
	log      []string
	seen     map[string]bool // classes already reported for this run
}

func (mr *modelRun) direct(class, what string) {
	if mr.seen[class] {
		return
	}
	mr.seen[class] = true
	steps := append([]string(nil), mr.log...)
	mr.g.o.Directs = append(mr.g.o.Directs, vcoq.Direct{What: what, Class: class,
		Replay: map[string]any{"model": mr.spec.name, "steps": steps, "seed": mr.g.o.Seed}})
}

func (mr *modelRun) cross(v reflect.Value, what string, isArg bool, depth int) {
	if depth > 3 || !v.IsValid() {
		return
	}
	t := v.Type()
	switch {
	case isProtoPtr(t):
		if v.IsNil() {
			return
		}
		m := v.Interface().(proto.Message)
		mr.mon.cross(m, what, isArg)
		mr.owner = append(mr.owner, what)
		mr.harvestStrings(m)
	case t.Kind() == reflect.Slice || t.Kind() == reflect.Array:
		for i := 0; i < v.Len(); i++ {
			mr.cross(v.Index(i), fmt.Sprintf("%s[%d]", what, i), isArg, depth+1)
		}
	case t.Kind() == reflect.Ptr || t.Kind() == reflect.Interface:
		if !v.IsNil() {
			mr.cross(v.Elem(), what, isArg, depth+1)
		}
	case t.Kind() == reflect.Struct && t != timeType:
		for i := 0; i < t.NumField(); i++ {
			if t.Field(i).IsExported() {
				mr.cross(v.Field(i), what+"."+t.Field(i).Name, isArg, depth+1)
			}
		}
	}
}

func (mr *modelRun) harvestStrings(m proto.Message) {
	pm := m.ProtoReflect()
	// every populated top-level string field, by its name: requests carrying a field of the same name
	// (version, id, booking_id ...) are then given values that exist
	if mr.poolBy == nil {
		mr.poolBy = map[string][]string{}
	}
	pm.Range(func(fd protoreflect.FieldDescriptor, v protoreflect.Value) bool {
		if fd.Kind() == protoreflect.StringKind && !fd.IsList() && !fd.IsMap() {
			n := string(fd.Name())
			if s := v.String(); s != "" && s != scrStr {
				if len(mr.poolBy[n]) < 6 {
					mr.poolBy[n] = append(mr.poolBy[n], s)
				} else {
					mr.poolBy[n][mr.g.r.Intn(6)] = s // keep recent values (versions change with every write)
				}
				if n == "id" || n == "name" {
					mr.lastRes = pm
				}
			}
		}
		return true
	})
	for _, n := range []string{"id", "name", "title", "consumable"} {
		if fd := pm.Descriptor().Fields().ByName(protoreflect.Name(n)); fd != nil && fd.Kind() == protoreflect.StringKind && !fd.IsList() {
			if s := pm.Get(fd).String(); s != "" && s != scrStr && len(mr.pool) < 12 {
				mr.pool = append(mr.pool, s)
			}
		}
	}
}

// state: deep copies of what every argument-free read-only method returns
func (mr *modelRun) state() []proto.Message {
	var out []proto.Message
	for _, rv := range mr.rvs {
		mr.stateOf(rv, &out)
	}
	return out
}
func (mr *modelRun) stateOf(model reflect.Value, outp *[]proto.Message) {
	out := *outp
	defer func() { *outp = out }()
	t := model.Type()
	for i := 0; i < t.NumMethod(); i++ {
		m := t.Method(i)
		ft := m.Type
		if !isReadOnly(m.Name) || strings.HasPrefix(m.Name, "Pull") {
			continue
		}
		n := ft.NumIn() - 1
		if !(n == 0 || (n == 1 && ft.IsVariadic())) || resultMsgTypeOfFunc(ft) == nil {
			continue
		}
		func() {
			defer func() { recover() }()
			for _, r := range model.Method(i).Call(nil) {
				collectMsgs(r, 0, &out)
			}
		}()
	}
}
func resultMsgTypeOfFunc(ft reflect.Type) reflect.Type {
	for i := 0; i < ft.NumOut(); i++ {
		if r := resultMsgType(ft.Out(i), 0); r != nil {
			return r
		}
	}
	return nil
}
func collectMsgs(v reflect.Value, depth int, out *[]proto.Message) {
	if depth > 3 || !v.IsValid() {
		return
	}
	t := v.Type()
	switch {
	case isProtoPtr(t):
		if !v.IsNil() {
			*out = append(*out, proto.Clone(v.Interface().(proto.Message)))
		} else {
			*out = append(*out, nil)
		}
	case t.Kind() == reflect.Slice:
		for i := 0; i < v.Len(); i++ {
			collectMsgs(v.Index(i), depth+1, out)
		}
	case t.Kind() == reflect.Ptr || t.Kind() == reflect.Interface:
		if !v.IsNil() {
			collectMsgs(v.Elem(), depth+1, out)
		}
	case t.Kind() == reflect.Struct && t != timeType:
		for i := 0; i < t.NumField(); i++ {
			if t.Field(i).IsExported() {
				collectMsgs(v.Field(i), depth+1, out)
			}
		}
	}
}
func sameState(a, b []proto.Message) bool {
	if len(a) != len(b) {
		return false
	}
	for i := range a {
		if (a[i] == nil) != (b[i] == nil) || (a[i] != nil && !proto.Equal(a[i], b[i])) {
			return false
		}
	}
	return true
}

func (mr *modelRun) str() string {
	base := []string{"a", "b", "xy", "00", "01", "02"}
	if len(mr.pool) > 0 && mr.g.r.Chance(60) {
		return mr.pool[mr.g.r.Intn(len(mr.pool))]
	}
	return base[mr.g.r.Intn(len(base))]
}

func (mr *modelRun) randMsg(t reflect.Type) reflect.Value {
	zero := reflect.New(t.Elem()).Interface().(proto.Message)
	m := vmsg.RandMsg(mr.g.r, zero, vmsg.RandCfg{FieldPct: 35, Depth: 2, MaxList: 3})
	// ids / names that exist make updates hit stored items
	pm := m.ProtoReflect()
	for _, n := range []string{"id", "name", "consumable"} {
		if fd := pm.Descriptor().Fields().ByName(protoreflect.Name(n)); fd != nil && fd.Kind() == protoreflect.StringKind && !fd.IsList() && mr.g.r.Chance(70) {
			pm.Set(fd, protoreflect.ValueOfString(mr.str()))
		}
	}
	// a follow-up call on the latest result: its id / name / version / ... copied by field name
	fds := pm.Descriptor().Fields()
	if mr.lastRes != nil && mr.lastRes.IsValid() && mr.g.r.Chance(50) {
		lfs := mr.lastRes.Descriptor().Fields()
		for i := 0; i < fds.Len(); i++ {
			fd := fds.Get(i)
			if fd.Kind() != protoreflect.StringKind || fd.IsList() || fd.IsMap() {
				continue
			}
			lf := lfs.ByName(fd.Name())
			if lf == nil && strings.HasSuffix(string(fd.Name()), "_id") {
				lf = lfs.ByName("id")
			}
			if lf != nil && lf.Kind() == protoreflect.StringKind && !lf.IsList() && !lf.IsMap() && mr.lastRes.Has(lf) {
				if v := mr.lastRes.Get(lf).String(); v != scrStr {
					pm.Set(fd, protoreflect.ValueOfString(v))
				}
			}
		}
		mr.g.hist["follow-up call on the latest result"]++
		return reflect.ValueOf(m)
	}
	// other string fields whose name has been seen in a result (version, booking_id -> id ...)
	for i := 0; i < fds.Len(); i++ {
		fd := fds.Get(i)
		if fd.Kind() != protoreflect.StringKind || fd.IsList() || fd.IsMap() {
			continue
		}
		n := string(fd.Name())
		vals := mr.poolBy[n]
		if len(vals) == 0 && strings.HasSuffix(n, "_id") {
			vals = mr.poolBy["id"]
		}
		if n != "id" && n != "name" && len(vals) > 0 && mr.g.r.Chance(70) {
			pm.Set(fd, protoreflect.ValueOfString(vals[mr.g.r.Intn(len(vals))]))
		}
	}
	return reflect.ValueOf(m)
}

func (mr *modelRun) step(i int) {
	g := mr.g
	if len(mr.refs) == 0 {
		return
	}
	ref := mr.refs[g.r.Intn(len(mr.refs))]
	// the same call again, with equal arguments (fresh copies of the messages): re-activating the active
	// mode, re-adding the same child, ... are where "nothing to do" paths edit in place
	repeat := mr.lastArgs != nil && g.r.Chance(30)
	if repeat {
		ref = mr.lastK
	}
	if ref.stream != nil {
		mr.lastArgs = nil
		mr.streamOp(i, ref)
		return
	}
	k := ref.idx
	model := mr.rvs[ref.root]
	meth := model.Type().Method(k)
	ft := meth.Type
	readOnly := bracketed(meth) && !mr.spec.isAsync()
	if readOnly {
		g.bracketedMethods[ref.owner+"."+meth.Name] = true
	}
	resT := resultMsgTypeOfFunc(ft)
	var args []reflect.Value
	var msgArgs []reflect.Value
	var desc []string
	var ctx context.Context
	var cancel context.CancelFunc
	if repeat {
		for idx, a := range mr.lastArgs {
			switch {
			case mr.lastPre[idx] != nil:
				v := reflect.ValueOf(proto.Clone(mr.lastPre[idx]))
				args, msgArgs = append(args, v), append(msgArgs, v)
			case a.Type().Implements(ctxType):
				ctx, cancel = context.WithCancel(context.Background())
				args = append(args, reflect.ValueOf(ctx))
			default:
				args = append(args, a)
			}
		}
		desc = append([]string{"again"}, mr.lastDesc...)
		g.hist["same call repeated"]++
	}
	for p := 1; p < ft.NumIn() && !repeat; p++ {
		pt := ft.In(p)
		if ft.IsVariadic() && p == ft.NumIn()-1 {
			e := pt.Elem()
			switch {
			case e == readOptType:
				if resT != nil && g.r.Chance(45) {
					paths := g.randPaths(reflect.New(resT.Elem()).Interface().(proto.Message).ProtoReflect().Descriptor())
					args = append(args, reflect.ValueOf(resource.WithReadMask(&fieldmaskpb.FieldMask{Paths: paths})))
					desc = append(desc, fmt.Sprintf("read_mask=%v", paths))
				}
				if strings.HasPrefix(meth.Name, "Pull") && g.r.Chance(20) {
					args = append(args, reflect.ValueOf(resource.WithUpdatesOnly(true)))
					desc = append(desc, "updates_only")
				}
			case e == writeOptType:
				if len(msgArgs) > 0 && g.r.Chance(35) {
					paths := g.randPaths(msgArgs[0].Interface().(proto.Message).ProtoReflect().Descriptor())
					args = append(args, reflect.ValueOf(resource.WithUpdatePaths(paths...)))
					desc = append(desc, fmt.Sprintf("update_mask=%v", paths))
				}
				if g.r.Chance(15) {
					args = append(args, reflect.ValueOf(resource.WithCreateIfAbsent()))
					desc = append(desc, "create_if_absent")
				}
				if g.r.Chance(10) {
					args = append(args, reflect.ValueOf(resource.WithAllowMissing(true)))
					desc = append(desc, "allow_missing")
				}
			case e == traitNameType:
				for n := g.r.Range(1, 2); n > 0; n-- {
					tn := fmt.Sprintf("t%d", g.r.Range(1, 6))
					args = append(args, reflect.ValueOf(trait.Name(tn)))
					desc = append(desc, tn)
				}
			case isProtoPtr(e):
				for n := g.r.Range(0, 2); n > 0; n-- {
					v := mr.randMsg(e)
					args, msgArgs = append(args, v), append(msgArgs, v)
					desc = append(desc, txt(v.Interface().(proto.Message)))
				}
			case e.Kind() == reflect.String:
				s := mr.str()
				args = append(args, reflect.ValueOf(s).Convert(e))
				desc = append(desc, s)
			}
			continue
		}
		switch {
		case pt == ctxType:
			ctx, cancel = context.WithCancel(context.Background())
			args = append(args, reflect.ValueOf(ctx))
		case pt == protoMsgType:
			// an exported interceptor (fanspeedpb.Model.DeriveValues(old, new)): messages of the type the model's getters return
			ct := mainMsgType(model)
			if ct == nil {
				ct = reflect.TypeOf(&fieldmaskpb.FieldMask{})
			}
			v := mr.randMsg(ct)
			args, msgArgs = append(args, v), append(msgArgs, v)
			desc = append(desc, txt(v.Interface().(proto.Message)))
		case isProtoPtr(pt):
			v := mr.randMsg(pt)
			mr.fixMasks(v.Interface().(proto.Message), resT)
			args, msgArgs = append(args, v), append(msgArgs, v)
			desc = append(desc, txt(v.Interface().(proto.Message)))
		case pt.Kind() == reflect.String:
			s := mr.str()
			if pt == traitNameType {
				s = fmt.Sprintf("t%d", g.r.Range(1, 6))
			}
			args = append(args, reflect.ValueOf(s).Convert(pt))
			desc = append(desc, s)
		case pt.Kind() == reflect.Bool:
			b := g.r.Bool()
			args = append(args, reflect.ValueOf(b).Convert(pt))
			desc = append(desc, fmt.Sprint(b))
		case pt.Kind() == reflect.Float32 || pt.Kind() == reflect.Float64:
			f := []float64{0, 1, 2.5, 40}[g.r.Intn(4)]
			args = append(args, reflect.ValueOf(f).Convert(pt))
			desc = append(desc, fmt.Sprint(f))
		default:
			n := int64(g.r.Intn(4))
			if !pt.Implements(enumType) && len(mr.ints) > 0 && g.r.Chance(50) {
				n = mr.ints[g.r.Intn(len(mr.ints))] - int64(g.r.Intn(2))
			}
			args = append(args, reflect.ValueOf(n).Convert(pt))
			desc = append(desc, fmt.Sprint(n))
		}
	}
	if !repeat {
		mr.lastK, mr.lastArgs, mr.lastDesc = ref, args, desc
		mr.lastPre = make([]proto.Message, len(args))
		for idx, a := range args {
			if isProtoPtr(a.Type()) && !a.IsNil() {
				mr.lastPre[idx] = proto.Clone(a.Interface().(proto.Message))
			}
		}
	}
	full := ref.owner + "." + meth.Name
	call := fmt.Sprintf("op %d %s(%s)", i, meth.Name, strings.Join(desc, ", "))
	mr.log = append(mr.log, call)
	g.hist["model:"+mr.spec.name]++
	g.methodCalls[full]++
	var before []proto.Message
	if readOnly {
		before = mr.state()
	}
	var results []reflect.Value
	panicked := func() (p bool) {
		defer func() {
			if r := recover(); r != nil {
				p = true
				mr.log[len(mr.log)-1] += fmt.Sprintf(" -> panic: %v", r)
			}
		}()
		results = model.Method(k).Call(args)
		return false
	}()
	if panicked {
		g.hist["panic (not judged here)"]++
		if cancel != nil {
			cancel()
		}
	}
	// arguments as the caller has them back
	for ai, a := range msgArgs {
		mr.cross(a, fmt.Sprintf("%s argument %d of %s", callTag(i), ai, full), true, 0)
	}
	isPull := false
	for ri, r := range results {
		if r.Kind() == reflect.Chan && ctx != nil {
			isPull = true
			c := &collector{cancel: cancel}
			ch := r
			go func() {
				for {
					v, ok := ch.Recv()
					if !ok {
						return
					}
					c.add(v.Interface())
				}
			}()
			mr.subs = append(mr.subs, c)
			mr.subName = append(mr.subName, fmt.Sprintf("%s subscription %s", callTag(i), full))
			continue
		}
		if r.Kind() >= reflect.Int && r.Kind() <= reflect.Int64 && !r.Type().Implements(enumType) {
			if len(mr.ints) < 8 {
				mr.ints = append(mr.ints, r.Int())
			}
			continue
		}
		if r.Type() == errorType {
			if !r.IsNil() {
				mr.log[len(mr.log)-1] += " -> error"
			}
			continue
		}
		mr.cross(r, fmt.Sprintf("%s result %d of %s", callTag(i), ri, full), false, 0)
	}
	if cancel != nil && !isPull {
		cancel()
	}
	mr.drain()
	if readOnly {
		time.Sleep(150 * time.Microsecond)
		if after := mr.state(); !sameState(before, after) {
			mr.direct("read-mutated:"+full, fmt.Sprintf("stored state of %s differs after the read-only call %s", mr.spec.name, call))
		}
	}
	mr.report(full, call)
	if g.r.Chance(35) {
		mr.readAll(i)
	}

	// now and then the caller rewrites a message it passed to an earlier call
	if g.r.Chance(30) {
		var argIdx []int
		for si, s := range mr.mon.snaps {
			if s.isArg {
				argIdx = append(argIdx, si)
			}
		}
		if len(argIdx) > 0 {
			ai := argIdx[g.r.Intn(len(argIdx))]
			st0 := mr.state()
			scramble(mr.mon.snaps[ai].live.ProtoReflect(), nil)
			mr.mon.snaps[ai].copy = proto.Clone(mr.mon.snaps[ai].live)
			mr.log = append(mr.log, fmt.Sprintf("caller rewrites %s", mr.mon.snaps[ai].what))
			g.hist["caller rewrites an argument"]++
			who := mr.mon.snaps[ai].what[strings.LastIndex(mr.mon.snaps[ai].what, " of ")+4:]
			if st1 := mr.state(); !mr.spec.isAsync() && !sameState(st0, st1) {
				mr.direct("argument-retained:"+who, fmt.Sprintf("rewriting a message after %s returned changes the stored state", who))
			}
			for _, ci := range mr.mon.changed() {
				s := mr.mon.snaps[ci]
				if s.isArg {
					continue // two arguments sharing parts is the caller's own business
				}
				mr.direct("argument-retained:"+who, fmt.Sprintf("rewriting a message after %s returned changes %s", who, s.what))
			}
		}
	}
}

// readAll performs every argument-free read of the model and keeps what it returns (the monitor as a
// reader: results of Modes(), ListChildren(), GetX() ... are held and re-compared like any other result)
func (mr *modelRun) readAll(i int) {
	for _, rv := range mr.rvs {
		mr.readAllOf(i, rv)
	}
	mr.g.hist["monitor reads all getters"]++
}
func (mr *modelRun) readAllOf(i int, model reflect.Value) {
	t := model.Type()
	for k := 0; k < t.NumMethod(); k++ {
		m := t.Method(k)
		ft := m.Type
		n := ft.NumIn() - 1
		if !isReadOnly(m.Name) || strings.HasPrefix(m.Name, "Pull") || !(n == 0 || (n == 1 && ft.IsVariadic())) || resultMsgTypeOfFunc(ft) == nil {
			continue
		}
		func() {
			defer func() { recover() }()
			for ri, r := range model.Method(k).Call(nil) {
				if r.Type() != errorType {
					mr.cross(r, fmt.Sprintf("%s (monitor read) result %d of %s.%s", callTag(i), ri, mr.spec.name, m.Name), false, 0)
				}
			}
		}()
	}
}

// the message type the argument-free getters of a model return
func mainMsgType(model reflect.Value) reflect.Type {
	t := model.Type()
	for k := 0; k < t.NumMethod(); k++ {
		ft := t.Method(k).Type
		n := ft.NumIn() - 1
		if isReadOnly(t.Method(k).Name) && !strings.HasPrefix(t.Method(k).Name, "Pull") && (n == 0 || (n == 1 && ft.IsVariadic())) {
			if r := resultMsgTypeOfFunc(ft); r != nil {
				return r
			}
		}
	}
	return nil
}

func callTag(i int) string { return fmt.Sprintf("op %d", i) }

// at most 4 open subscriptions: the oldest is cancelled (its events so far have been taken)
func (mr *modelRun) capSubs() {
	for len(mr.subs) > 4 {
		mr.subs[0].cancel()
		mr.subs, mr.subName = mr.subs[1:], mr.subName[1:]
	}
}

func (mr *modelRun) drain() {
	mr.capSubs()
	for si, c := range mr.subs {
		for _, e := range c.takeQuiet(120 * time.Microsecond) {
			mr.cross(reflect.ValueOf(e), "event of "+mr.subName[si], false, 0)
		}
	}
}

func (mr *modelRun) report(full, call string) {
	for _, ci := range mr.mon.changed() {
		s := mr.mon.snaps[ci]
		mr.direct("snapshot-changed:"+full, fmt.Sprintf("%s changed after %s", s.what, call))
	}
}

func numMethods(spec target) (n int) {
	defer func() { recover() }()
	return len(methodRefs(spec.mk()))
}

func (g *gen) modelSeq(spec target, nOps int) {
	mr := &modelRun{g: g, spec: spec, seen: map[string]bool{}}
	func() {
		defer func() { recover() }()
		if ot, ok := optTargets[spec.name]; ok && g.r.Chance(40) {
			var note string
			if mr.roots, note = g.rootsWithOptions(spec, ot); note != "" {
				mr.log = append(mr.log, note)
				g.hist["model constructed with writable fields per resource"]++
			}
			return
		}
		mr.roots = spec.mk()
	}()
	if len(mr.roots) == 0 {
		return
	}
	for _, r := range mr.roots {
		mr.rvs = append(mr.rvs, reflect.ValueOf(r.v))
	}
	mr.refs = methodRefs(mr.roots)
	defer func() {
		for _, c := range mr.subs {
			c.cancel()
		}
	}()
	for i := 0; i < nOps; i++ {
		mr.step(i)
	}
	g.modelOps += nOps
	g.targetOps[spec.name] += nOps
	g.targetRuns[spec.name]++
}

func sortedKeys(m map[string]int) []string {
	out := make([]string, 0, len(m))
	for k := range m {
		out = append(out, k)
	}
	sort.Strings(out)
	return out
}
