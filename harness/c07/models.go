package main

import (
	"context"
	"fmt"
	"reflect"
	"sort"
	"strings"
	"time"

	"github.com/smart-core-os/sc-api/go/traits"
	"github.com/smart-core-os/sc-api/go/types"
	"github.com/smart-core-os/sc-golang/pkg/resource"
	"github.com/smart-core-os/sc-golang/pkg/trait"
	"github.com/smart-core-os/sc-golang/pkg/trait/accesspb"
	"github.com/smart-core-os/sc-golang/pkg/trait/airqualitysensorpb"
	"github.com/smart-core-os/sc-golang/pkg/trait/airtemperaturepb"
	"github.com/smart-core-os/sc-golang/pkg/trait/bookingpb"
	"github.com/smart-core-os/sc-golang/pkg/trait/countpb"
	"github.com/smart-core-os/sc-golang/pkg/trait/electricpb"
	"github.com/smart-core-os/sc-golang/pkg/trait/emergencypb"
	"github.com/smart-core-os/sc-golang/pkg/trait/energystoragepb"
	"github.com/smart-core-os/sc-golang/pkg/trait/enterleavesensorpb"
	"github.com/smart-core-os/sc-golang/pkg/trait/fanspeedpb"
	"github.com/smart-core-os/sc-golang/pkg/trait/hailpb"
	"github.com/smart-core-os/sc-golang/pkg/trait/lightpb"
	"github.com/smart-core-os/sc-golang/pkg/trait/metadatapb"
	"github.com/smart-core-os/sc-golang/pkg/trait/meterpb"
	"github.com/smart-core-os/sc-golang/pkg/trait/modepb"
	"github.com/smart-core-os/sc-golang/pkg/trait/occupancysensorpb"
	"github.com/smart-core-os/sc-golang/pkg/trait/onoffpb"
	"github.com/smart-core-os/sc-golang/pkg/trait/openclosepb"
	"github.com/smart-core-os/sc-golang/pkg/trait/parentpb"
	"github.com/smart-core-os/sc-golang/pkg/trait/presspb"
	"github.com/smart-core-os/sc-golang/pkg/trait/publicationpb"
	"github.com/smart-core-os/sc-golang/pkg/trait/speakerpb"
	"github.com/smart-core-os/sc-golang/pkg/trait/vendingpb"
	"github.com/smart-core-os/sc-golang/pkg/trait/wastepb"
	"github.com/smart-core-os/sc-golang/verifharness/vcoq"
	"github.com/smart-core-os/sc-golang/verifharness/vmsg"
	"google.golang.org/protobuf/proto"
	"google.golang.org/protobuf/reflect/protoreflect"
	"google.golang.org/protobuf/types/known/fieldmaskpb"
)

// ---- every trait model / memory device, driven through its exported methods by reflection ----
type modelSpec struct {
	name string
	mk   func() any
}

func pct(v float32) *float32 { return &v }

var modelSpecs = []modelSpec{
	{"accesspb.Model", func() any { return accesspb.NewModel() }},
	{"airqualitysensorpb.Model", func() any { return airqualitysensorpb.NewModel() }},
	{"airtemperaturepb.Model", func() any { return airtemperaturepb.NewModel() }},
	{"airtemperaturepb.MemoryDevice", func() any { return airtemperaturepb.NewMemoryDevice() }},
	{"bookingpb.Model", func() any { return bookingpb.NewModel() }},
	{"countpb.MemoryDevice", func() any { return countpb.NewMemoryDevice() }},
	{"electricpb.Model", func() any { return electricpb.NewModel() }},
	{"emergencypb.MemoryDevice", func() any { return emergencypb.NewMemoryDevice() }},
	{"energystoragepb.Model", func() any { return energystoragepb.NewModel() }},
	{"enterleavesensorpb.Model", func() any {
		var zero int32
		return enterleavesensorpb.NewModel(enterleavesensorpb.WithInitialEnterLeaveEvent(&traits.EnterLeaveEvent{EnterTotal: &zero, LeaveTotal: &zero}))
	}},
	{"fanspeedpb.Model", func() any { return fanspeedpb.NewModel() }},
	{"hailpb.Model", func() any { return hailpb.NewModel() }},
	{"lightpb.Model", func() any {
		return lightpb.NewModel(lightpb.WithPreset(10, &traits.LightPreset{Name: "a", Title: "A"}), lightpb.WithPreset(80, &traits.LightPreset{Name: "b", Title: "B"}))
	}},
	{"lightpb.MemoryDevice", func() any { return lightpb.NewMemoryDevice() }},
	{"metadatapb.Model", func() any { return metadatapb.NewModel() }},
	{"meterpb.Model", func() any { return meterpb.NewModel() }},
	{"modepb.Model", func() any { return modepb.NewModel() }},
	{"occupancysensorpb.Model", func() any { return occupancysensorpb.NewModel() }},
	{"onoffpb.Model", func() any { return onoffpb.NewModel() }},
	{"openclosepb.Model", func() any {
		return openclosepb.NewModel(
			openclosepb.WithPreset(&traits.OpenClosePositions_Preset{Name: "a", Title: "A"},
				&traits.OpenClosePosition{OpenPercent: 10, Direction: traits.OpenClosePosition_UP}),
			openclosepb.WithPreset(&traits.OpenClosePositions_Preset{Name: "b", Title: "B"},
				&traits.OpenClosePosition{OpenPercent: 60, Direction: traits.OpenClosePosition_UP},
				&traits.OpenClosePosition{OpenPercent: 70, Direction: traits.OpenClosePosition_DOWN}))
	}},
	{"openclosepb.Model(plain)", func() any { return openclosepb.NewModel() }},
	{"parentpb.Model", func() any { return parentpb.NewModel() }},
	{"presspb.Model", func() any { return presspb.NewModel(traits.PressedState_UNPRESSED) }},
	{"publicationpb.Model", func() any { return publicationpb.NewModel() }},
	{"speakerpb.MemoryDevice", func() any { return speakerpb.NewMemoryDevice(&types.AudioLevel{Gain: 10}) }},
	{"vendingpb.Model", func() any { return vendingpb.NewModel() }},
	{"wastepb.Model", func() any { return wastepb.NewModel() }},
}

var (
	protoMsgType  = reflect.TypeOf((*proto.Message)(nil)).Elem()
	ctxType       = reflect.TypeOf((*context.Context)(nil)).Elem()
	readOptType   = reflect.TypeOf((*resource.ReadOption)(nil)).Elem()
	writeOptType  = reflect.TypeOf((*resource.WriteOption)(nil)).Elem()
	resOptType    = reflect.TypeOf((*resource.Option)(nil)).Elem()
	traitNameType = reflect.TypeOf(trait.Name(""))
	enumType      = reflect.TypeOf((*protoreflect.Enum)(nil)).Elem()
	errorType     = reflect.TypeOf((*error)(nil)).Elem()
	timeType      = reflect.TypeOf(time.Time{})
)

func isProtoPtr(t reflect.Type) bool { return t.Kind() == reflect.Ptr && t.Implements(protoMsgType) }

var writePrefixes = []string{"Update", "Set", "Create", "Add", "Delete", "Remove", "Merge", "Reset", "Record", "Change",
	"Dispense", "Generate", "Acknowledge", "Clear", "Stop", "Start", "Confirm", "Silence", "Save"}

func isReadOnly(method string) bool {
	for _, p := range writePrefixes {
		if strings.HasPrefix(method, p) {
			return false
		}
	}
	return true
}

func supportedParam(t reflect.Type, variadic bool) bool {
	if variadic {
		e := t.Elem()
		return e == readOptType || e == writeOptType || e == resOptType || e == traitNameType || isProtoPtr(e) || e.Kind() == reflect.String
	}
	switch {
	case t == ctxType, isProtoPtr(t):
		return true
	case t.Kind() == reflect.String, t.Kind() == reflect.Bool, t.Kind() == reflect.Float32, t.Kind() == reflect.Float64:
		return true
	case t.Kind() >= reflect.Int && t.Kind() <= reflect.Uint64:
		return true
	}
	return false
}

// the first proto message type among the results of a method (through slices, chans, structs)
func resultMsgType(t reflect.Type, depth int) reflect.Type {
	if depth > 3 {
		return nil
	}
	switch {
	case isProtoPtr(t):
		return t
	case t.Kind() == reflect.Slice, t.Kind() == reflect.Chan, t.Kind() == reflect.Ptr:
		return resultMsgType(t.Elem(), depth+1)
	case t.Kind() == reflect.Struct && t != timeType:
		for i := 0; i < t.NumField(); i++ {
			if t.Field(i).IsExported() {
				if r := resultMsgType(t.Field(i).Type, depth+1); r != nil {
					return r
				}
			}
		}
	}
	return nil
}

func (g *gen) randPaths(md protoreflect.MessageDescriptor) []string {
	fds := md.Fields()
	var out []string
	for n := g.r.Range(1, 2); n > 0 && fds.Len() > 0; n-- {
		fd := fds.Get(g.r.Intn(fds.Len()))
		p := string(fd.Name())
		if fd.Message() != nil && !fd.IsMap() && g.r.Chance(50) && fd.Message().Fields().Len() > 0 {
			sub := fd.Message().Fields()
			p += "." + string(sub.Get(g.r.Intn(sub.Len())).Name())
		}
		dup := false
		for _, q := range out {
			dup = dup || q == p
		}
		if !dup {
			out = append(out, p)
		}
	}
	return out
}

// ---- one sequence on one model ----
type modelRun struct {
	g        *gen
	spec     modelSpec
	model    reflect.Value
	mon      monitor
	owner    []string // per snapshot: the method whose argument it was (arguments only)
	subs     []*collector
	subName  []string
	pool     []string
	ints     []int64 // integers earlier calls returned (counts, indexes)
	lastK    int
	lastArgs []reflect.Value
	lastPre  []proto.Message
	lastDesc []string
	log      []string
	seen     map[string]bool // classes already reported for this run
}

func (mr *modelRun) direct(class, what string) {
	if mr.seen[class] {
		return
	}
	mr.seen[class] = true
	steps := append([]string(nil), mr.log...)
	mr.g.o.Directs = append(mr.g.o.Directs, vcoq.Direct{What: what, Class: class,
		Replay: map[string]any{"model": mr.spec.name, "steps": steps, "seed": mr.g.o.Seed}})
}

func (mr *modelRun) cross(v reflect.Value, what string, isArg bool, depth int) {
	if depth > 3 || !v.IsValid() {
		return
	}
	t := v.Type()
	switch {
	case isProtoPtr(t):
		if v.IsNil() {
			return
		}
		m := v.Interface().(proto.Message)
		mr.mon.cross(m, what, isArg)
		mr.owner = append(mr.owner, what)
		mr.harvestStrings(m)
	case t.Kind() == reflect.Slice || t.Kind() == reflect.Array:
		for i := 0; i < v.Len(); i++ {
			mr.cross(v.Index(i), fmt.Sprintf("%s[%d]", what, i), isArg, depth+1)
		}
	case t.Kind() == reflect.Ptr || t.Kind() == reflect.Interface:
		if !v.IsNil() {
			mr.cross(v.Elem(), what, isArg, depth+1)
		}
	case t.Kind() == reflect.Struct && t != timeType:
		for i := 0; i < t.NumField(); i++ {
			if t.Field(i).IsExported() {
				mr.cross(v.Field(i), what+"."+t.Field(i).Name, isArg, depth+1)
			}
		}
	}
}

func (mr *modelRun) harvestStrings(m proto.Message) {
	pm := m.ProtoReflect()
	for _, n := range []string{"id", "name", "title", "consumable"} {
		if fd := pm.Descriptor().Fields().ByName(protoreflect.Name(n)); fd != nil && fd.Kind() == protoreflect.StringKind && !fd.IsList() {
			if s := pm.Get(fd).String(); s != "" && s != scrStr && len(mr.pool) < 12 {
				mr.pool = append(mr.pool, s)
			}
		}
	}
}

// state: deep copies of what every argument-free read-only method returns
func (mr *modelRun) state() []proto.Message {
	var out []proto.Message
	t := mr.model.Type()
	for i := 0; i < t.NumMethod(); i++ {
		m := t.Method(i)
		ft := m.Type
		if !isReadOnly(m.Name) || strings.HasPrefix(m.Name, "Pull") {
			continue
		}
		n := ft.NumIn() - 1
		if !(n == 0 || (n == 1 && ft.IsVariadic())) || resultMsgTypeOfFunc(ft) == nil {
			continue
		}
		func() {
			defer func() { recover() }()
			for _, r := range mr.model.Method(i).Call(nil) {
				collectMsgs(r, 0, &out)
			}
		}()
	}
	return out
}
func resultMsgTypeOfFunc(ft reflect.Type) reflect.Type {
	for i := 0; i < ft.NumOut(); i++ {
		if r := resultMsgType(ft.Out(i), 0); r != nil {
			return r
		}
	}
	return nil
}
func collectMsgs(v reflect.Value, depth int, out *[]proto.Message) {
	if depth > 3 || !v.IsValid() {
		return
	}
	t := v.Type()
	switch {
	case isProtoPtr(t):
		if !v.IsNil() {
			*out = append(*out, proto.Clone(v.Interface().(proto.Message)))
		} else {
			*out = append(*out, nil)
		}
	case t.Kind() == reflect.Slice:
		for i := 0; i < v.Len(); i++ {
			collectMsgs(v.Index(i), depth+1, out)
		}
	case t.Kind() == reflect.Ptr || t.Kind() == reflect.Interface:
		if !v.IsNil() {
			collectMsgs(v.Elem(), depth+1, out)
		}
	case t.Kind() == reflect.Struct && t != timeType:
		for i := 0; i < t.NumField(); i++ {
			if t.Field(i).IsExported() {
				collectMsgs(v.Field(i), depth+1, out)
			}
		}
	}
}
func sameState(a, b []proto.Message) bool {
	if len(a) != len(b) {
		return false
	}
	for i := range a {
		if (a[i] == nil) != (b[i] == nil) || (a[i] != nil && !proto.Equal(a[i], b[i])) {
			return false
		}
	}
	return true
}

func (mr *modelRun) str() string {
	base := []string{"a", "b", "xy", "00", "01", "02"}
	if len(mr.pool) > 0 && mr.g.r.Chance(60) {
		return mr.pool[mr.g.r.Intn(len(mr.pool))]
	}
	return base[mr.g.r.Intn(len(base))]
}

func (mr *modelRun) randMsg(t reflect.Type) reflect.Value {
	zero := reflect.New(t.Elem()).Interface().(proto.Message)
	m := vmsg.RandMsg(mr.g.r, zero, vmsg.RandCfg{FieldPct: 35, Depth: 2, MaxList: 3})
	// ids / names that exist make updates hit stored items
	pm := m.ProtoReflect()
	for _, n := range []string{"id", "name", "consumable"} {
		if fd := pm.Descriptor().Fields().ByName(protoreflect.Name(n)); fd != nil && fd.Kind() == protoreflect.StringKind && !fd.IsList() && mr.g.r.Chance(70) {
			pm.Set(fd, protoreflect.ValueOfString(mr.str()))
		}
	}
	return reflect.ValueOf(m)
}

func (mr *modelRun) step(i int) {
	g := mr.g
	t := mr.model.Type()
	var eligible []int
	for k := 0; k < t.NumMethod(); k++ {
		ft := t.Method(k).Type
		ok := true
		for p := 1; p < ft.NumIn(); p++ {
			ok = ok && supportedParam(ft.In(p), ft.IsVariadic() && p == ft.NumIn()-1)
		}
		// streaming server methods (req, stream) and interceptor-shaped helpers are not API calls of the model
		if ok && !(ft.NumIn() >= 3 && ft.In(1) == protoMsgType) {
			eligible = append(eligible, k)
		}
	}
	if len(eligible) == 0 {
		return
	}
	k := eligible[g.r.Intn(len(eligible))]
	// the same call again, with equal arguments (fresh copies of the messages): re-activating the active
	// mode, re-adding the same child, ... are where "nothing to do" paths edit in place
	repeat := mr.lastArgs != nil && g.r.Chance(30)
	if repeat {
		k = mr.lastK
	}
	meth := t.Method(k)
	ft := meth.Type
	readOnly := isReadOnly(meth.Name)
	resT := resultMsgTypeOfFunc(ft)
	var args []reflect.Value
	var msgArgs []reflect.Value
	var desc []string
	var ctx context.Context
	var cancel context.CancelFunc
	if repeat {
		for idx, a := range mr.lastArgs {
			switch {
			case mr.lastPre[idx] != nil:
				v := reflect.ValueOf(proto.Clone(mr.lastPre[idx]))
				args, msgArgs = append(args, v), append(msgArgs, v)
			case a.Type().Implements(ctxType):
				ctx, cancel = context.WithCancel(context.Background())
				args = append(args, reflect.ValueOf(ctx))
			default:
				args = append(args, a)
			}
		}
		desc = append([]string{"again"}, mr.lastDesc...)
		g.hist["same call repeated"]++
	}
	for p := 1; p < ft.NumIn() && !repeat; p++ {
		pt := ft.In(p)
		if ft.IsVariadic() && p == ft.NumIn()-1 {
			e := pt.Elem()
			switch {
			case e == readOptType:
				if resT != nil && g.r.Chance(45) {
					paths := g.randPaths(reflect.New(resT.Elem()).Interface().(proto.Message).ProtoReflect().Descriptor())
					args = append(args, reflect.ValueOf(resource.WithReadMask(&fieldmaskpb.FieldMask{Paths: paths})))
					desc = append(desc, fmt.Sprintf("read_mask=%v", paths))
				}
				if strings.HasPrefix(meth.Name, "Pull") && g.r.Chance(20) {
					args = append(args, reflect.ValueOf(resource.WithUpdatesOnly(true)))
					desc = append(desc, "updates_only")
				}
			case e == writeOptType:
				if len(msgArgs) > 0 && g.r.Chance(35) {
					paths := g.randPaths(msgArgs[0].Interface().(proto.Message).ProtoReflect().Descriptor())
					args = append(args, reflect.ValueOf(resource.WithUpdatePaths(paths...)))
					desc = append(desc, fmt.Sprintf("update_mask=%v", paths))
				}
				if g.r.Chance(15) {
					args = append(args, reflect.ValueOf(resource.WithCreateIfAbsent()))
					desc = append(desc, "create_if_absent")
				}
				if g.r.Chance(10) {
					args = append(args, reflect.ValueOf(resource.WithAllowMissing(true)))
					desc = append(desc, "allow_missing")
				}
			case e == traitNameType:
				for n := g.r.Range(1, 2); n > 0; n-- {
					tn := fmt.Sprintf("t%d", g.r.Range(1, 6))
					args = append(args, reflect.ValueOf(trait.Name(tn)))
					desc = append(desc, tn)
				}
			case isProtoPtr(e):
				for n := g.r.Range(0, 2); n > 0; n-- {
					v := mr.randMsg(e)
					args, msgArgs = append(args, v), append(msgArgs, v)
					desc = append(desc, txt(v.Interface().(proto.Message)))
				}
			case e.Kind() == reflect.String:
				s := mr.str()
				args = append(args, reflect.ValueOf(s).Convert(e))
				desc = append(desc, s)
			}
			continue
		}
		switch {
		case pt == ctxType:
			ctx, cancel = context.WithCancel(context.Background())
			args = append(args, reflect.ValueOf(ctx))
		case isProtoPtr(pt):
			v := mr.randMsg(pt)
			args, msgArgs = append(args, v), append(msgArgs, v)
			desc = append(desc, txt(v.Interface().(proto.Message)))
		case pt.Kind() == reflect.String:
			s := mr.str()
			if pt == traitNameType {
				s = fmt.Sprintf("t%d", g.r.Range(1, 6))
			}
			args = append(args, reflect.ValueOf(s).Convert(pt))
			desc = append(desc, s)
		case pt.Kind() == reflect.Bool:
			b := g.r.Bool()
			args = append(args, reflect.ValueOf(b).Convert(pt))
			desc = append(desc, fmt.Sprint(b))
		case pt.Kind() == reflect.Float32 || pt.Kind() == reflect.Float64:
			f := []float64{0, 1, 2.5, 40}[g.r.Intn(4)]
			args = append(args, reflect.ValueOf(f).Convert(pt))
			desc = append(desc, fmt.Sprint(f))
		default:
			n := int64(g.r.Intn(4))
			if !pt.Implements(enumType) && len(mr.ints) > 0 && g.r.Chance(50) {
				n = mr.ints[g.r.Intn(len(mr.ints))] - int64(g.r.Intn(2))
			}
			args = append(args, reflect.ValueOf(n).Convert(pt))
			desc = append(desc, fmt.Sprint(n))
		}
	}
	if !repeat {
		mr.lastK, mr.lastArgs, mr.lastDesc = k, args, desc
		mr.lastPre = make([]proto.Message, len(args))
		for idx, a := range args {
			if isProtoPtr(a.Type()) && !a.IsNil() {
				mr.lastPre[idx] = proto.Clone(a.Interface().(proto.Message))
			}
		}
	}
	full := mr.spec.name + "." + meth.Name
	call := fmt.Sprintf("op %d %s(%s)", i, meth.Name, strings.Join(desc, ", "))
	mr.log = append(mr.log, call)
	g.hist["model:"+mr.spec.name]++
	var before []proto.Message
	if readOnly {
		before = mr.state()
	}
	var results []reflect.Value
	panicked := func() (p bool) {
		defer func() {
			if r := recover(); r != nil {
				p = true
				mr.log[len(mr.log)-1] += fmt.Sprintf(" -> panic: %v", r)
			}
		}()
		results = mr.model.Method(k).Call(args)
		return false
	}()
	if panicked {
		g.hist["panic (not judged here)"]++
		if cancel != nil {
			cancel()
		}
	}
	// arguments as the caller has them back
	for ai, a := range msgArgs {
		mr.cross(a, fmt.Sprintf("%s argument %d of %s", callTag(i), ai, full), true, 0)
	}
	isPull := false
	for ri, r := range results {
		if r.Kind() == reflect.Chan && ctx != nil {
			isPull = true
			c := &collector{cancel: cancel}
			ch := r
			go func() {
				for {
					v, ok := ch.Recv()
					if !ok {
						return
					}
					c.add(v.Interface())
				}
			}()
			mr.subs = append(mr.subs, c)
			mr.subName = append(mr.subName, fmt.Sprintf("%s subscription %s", callTag(i), full))
			continue
		}
		if r.Kind() >= reflect.Int && r.Kind() <= reflect.Int64 && !r.Type().Implements(enumType) {
			if len(mr.ints) < 8 {
				mr.ints = append(mr.ints, r.Int())
			}
			continue
		}
		if r.Type() == errorType {
			if !r.IsNil() {
				mr.log[len(mr.log)-1] += " -> error"
			}
			continue
		}
		mr.cross(r, fmt.Sprintf("%s result %d of %s", callTag(i), ri, full), false, 0)
	}
	if cancel != nil && !isPull {
		cancel()
	}
	mr.drain()
	if readOnly {
		time.Sleep(150 * time.Microsecond)
		if after := mr.state(); !sameState(before, after) {
			mr.direct("read-mutated:"+full, fmt.Sprintf("stored state of %s differs after the read-only call %s", mr.spec.name, call))
		}
	}
	mr.report(full, call)
	if g.r.Chance(35) {
		mr.readAll(i)
	}

	// now and then the caller rewrites a message it passed to an earlier call
	if g.r.Chance(30) {
		var argIdx []int
		for si, s := range mr.mon.snaps {
			if s.isArg {
				argIdx = append(argIdx, si)
			}
		}
		if len(argIdx) > 0 {
			ai := argIdx[g.r.Intn(len(argIdx))]
			st0 := mr.state()
			scramble(mr.mon.snaps[ai].live.ProtoReflect(), nil)
			mr.mon.snaps[ai].copy = proto.Clone(mr.mon.snaps[ai].live)
			mr.log = append(mr.log, fmt.Sprintf("caller rewrites %s", mr.mon.snaps[ai].what))
			g.hist["caller rewrites an argument"]++
			who := mr.mon.snaps[ai].what[strings.LastIndex(mr.mon.snaps[ai].what, " of ")+4:]
			if st1 := mr.state(); !sameState(st0, st1) {
				mr.direct("argument-retained:"+who, fmt.Sprintf("rewriting a message after %s returned changes the stored state", who))
			}
			for _, ci := range mr.mon.changed() {
				s := mr.mon.snaps[ci]
				if s.isArg {
					continue // two arguments sharing parts is the caller's own business
				}
				mr.direct("argument-retained:"+who, fmt.Sprintf("rewriting a message after %s returned changes %s", who, s.what))
			}
		}
	}
}

// readAll performs every argument-free read of the model and keeps what it returns (the monitor as a
// reader: results of Modes(), ListChildren(), GetX() ... are held and re-compared like any other result)
func (mr *modelRun) readAll(i int) {
	t := mr.model.Type()
	for k := 0; k < t.NumMethod(); k++ {
		m := t.Method(k)
		ft := m.Type
		n := ft.NumIn() - 1
		if !isReadOnly(m.Name) || strings.HasPrefix(m.Name, "Pull") || !(n == 0 || (n == 1 && ft.IsVariadic())) || resultMsgTypeOfFunc(ft) == nil {
			continue
		}
		func() {
			defer func() { recover() }()
			for ri, r := range mr.model.Method(k).Call(nil) {
				if r.Type() != errorType {
					mr.cross(r, fmt.Sprintf("%s (monitor read) result %d of %s.%s", callTag(i), ri, mr.spec.name, m.Name), false, 0)
				}
			}
		}()
	}
	mr.g.hist["monitor reads all getters"]++
}

func callTag(i int) string { return fmt.Sprintf("op %d", i) }

func (mr *modelRun) drain() {
	for si, c := range mr.subs {
		for _, e := range c.takeQuiet(120 * time.Microsecond) {
			mr.cross(reflect.ValueOf(e), "event of "+mr.subName[si], false, 0)
		}
	}
}

func (mr *modelRun) report(full, call string) {
	for _, ci := range mr.mon.changed() {
		s := mr.mon.snaps[ci]
		mr.direct("snapshot-changed:"+full, fmt.Sprintf("%s changed after %s", s.what, call))
	}
}

func numMethods(spec modelSpec) (n int) {
	defer func() { recover() }()
	return reflect.TypeOf(spec.mk()).NumMethod()
}

func (g *gen) modelSeq(spec modelSpec, nOps int) {
	mr := &modelRun{g: g, spec: spec, seen: map[string]bool{}}
	func() {
		defer func() { recover() }()
		mr.model = reflect.ValueOf(spec.mk())
	}()
	if !mr.model.IsValid() {
		return
	}
	defer func() {
		for _, c := range mr.subs {
			c.cancel()
		}
	}()
	for i := 0; i < nOps; i++ {
		mr.step(i)
	}
	g.modelOps += nOps
}

func sortedKeys(m map[string]int) []string {
	out := make([]string, 0, len(m))
	for k := range m {
		out = append(out, k)
	}
	sort.Strings(out)
	return out
}
