package main

import (
	"fmt"
	"sort"
	"strings"

	"github.com/smart-core-os/sc-golang/verifharness/vcoq"
	"google.golang.org/protobuf/encoding/prototext"
	"google.golang.org/protobuf/proto"
	"google.golang.org/protobuf/reflect/protoreflect"
)

// ---- value codes (Alias/Owned.v: scalars are Z codes) ----
// signed ints: the value; strings: 1000 + rank in a sorted alphabet (order preserving, needed by
// the models of traitUnion/traitRemove/sort), "~" (what the scrambling caller writes) = -7;
// maps whose key is not a bool and lists of int / unsigned / float / string / bytes scalars (what the
// scrambling caller rewrites IN PLACE: the map is emptied and given one entry, every list element is
// overwritten): 2000000 + an interned id of the text rendering;
// everything else (unsigned, bool, enum, float, bytes scalars, other lists and maps): 1000000 + an
// interned id of the text rendering - the model never rewrites those.

var alphabet = func() []string {
	a := []string{"a", "b", "c", "xy", "c1", "c2", "c3", "c4"}
	for i := 1; i <= 9; i++ {
		a = append(a, fmt.Sprintf("t%d", i))
	}
	sort.Strings(a)
	return a
}()

type coder struct {
	other map[string]int64
	strs  map[string]int64
}

func newCoder() *coder { return &coder{other: map[string]int64{}, strs: map[string]int64{}} }

const scrInt = -7
const scrStr = "~"

func (c *coder) str(s string) int64 {
	if s == scrStr {
		return scrInt
	}
	i := sort.SearchStrings(alphabet, s)
	if i < len(alphabet) && alphabet[i] == s {
		return 1000 + int64(i)
	}
	if v, ok := c.strs[s]; ok {
		return v
	}
	v := 500000 + int64(len(c.strs))
	c.strs[s] = v
	return v
}
func (c *coder) misc(s string) int64 {
	if v, ok := c.other[s]; ok {
		return v
	}
	v := 1000000 + int64(len(c.other))
	c.other[s] = v
	return v
}

func (c *coder) composite(s string) int64 { return c.misc(s) + 1000000 }

func unsignedKind(k protoreflect.Kind) bool {
	switch k {
	case protoreflect.Uint32Kind, protoreflect.Uint64Kind, protoreflect.Fixed32Kind, protoreflect.Fixed64Kind:
		return true
	}
	return false
}

// scramblable: the caller's rewrite of this map / scalar list field changes it whatever it held
func scramblable(fd protoreflect.FieldDescriptor) bool {
	switch {
	case fd.IsMap():
		return fd.MapKey().Kind() != protoreflect.BoolKind
	case fd.IsList() && fd.Message() == nil:
		k := fd.Kind()
		return signedKind(k) || unsignedKind(k) || k == protoreflect.StringKind || k == protoreflect.BytesKind ||
			k == protoreflect.FloatKind || k == protoreflect.DoubleKind
	}
	return false
}

// the value the scrambling caller writes for a scalar of this kind
func scrScalar(fd protoreflect.FieldDescriptor) protoreflect.Value {
	switch k := fd.Kind(); {
	case k == protoreflect.Int32Kind || k == protoreflect.Sint32Kind || k == protoreflect.Sfixed32Kind:
		return protoreflect.ValueOfInt32(scrInt)
	case signedKind(k):
		return protoreflect.ValueOfInt64(scrInt)
	case k == protoreflect.Uint32Kind || k == protoreflect.Fixed32Kind:
		return protoreflect.ValueOfUint32(4000000007)
	case unsignedKind(k):
		return protoreflect.ValueOfUint64(4000000007)
	case k == protoreflect.StringKind:
		return protoreflect.ValueOfString(scrStr)
	case k == protoreflect.BytesKind:
		return protoreflect.ValueOfBytes([]byte(scrStr))
	case k == protoreflect.FloatKind:
		return protoreflect.ValueOfFloat32(-7.5)
	case k == protoreflect.DoubleKind:
		return protoreflect.ValueOfFloat64(-7.5)
	case k == protoreflect.BoolKind:
		return protoreflect.ValueOfBool(true)
	case k == protoreflect.EnumKind:
		return protoreflect.ValueOfEnum(0)
	}
	return protoreflect.Value{}
}

func signedKind(k protoreflect.Kind) bool {
	switch k {
	case protoreflect.Int32Kind, protoreflect.Int64Kind, protoreflect.Sint32Kind, protoreflect.Sint64Kind,
		protoreflect.Sfixed32Kind, protoreflect.Sfixed64Kind:
		return true
	}
	return false
}

// ---- message -> cells with tags relative to the root (root = 0) ----
type enc struct {
	c     *coder
	cells []string
}

func sortedFields(md protoreflect.MessageDescriptor) []protoreflect.FieldDescriptor {
	fds := md.Fields()
	out := make([]protoreflect.FieldDescriptor, fds.Len())
	for i := range out {
		out[i] = fds.Get(i)
	}
	sort.Slice(out, func(i, j int) bool { return out[i].Number() < out[j].Number() })
	return out
}

func callerTag(i int) string { return fmt.Sprintf("(Caller, %d)", i) }

func (e *enc) msg(m protoreflect.Message) int {
	idx := len(e.cells)
	e.cells = append(e.cells, "")
	var sc, subs, reps []string
	for _, fd := range sortedFields(m.Descriptor()) {
		if !m.Has(fd) {
			continue
		}
		num := vcoq.Z(int64(fd.Number()))
		v := m.Get(fd)
		switch {
		case scramblable(fd):
			sc = append(sc, vcoq.Pair(num, vcoq.Z(e.c.composite(fmt.Sprintf("%s:%v", fd.FullName(), renderValue(fd, v))))))
		case fd.IsMap() || (fd.IsList() && fd.Message() == nil):
			sc = append(sc, vcoq.Pair(num, vcoq.Z(e.c.misc(fmt.Sprintf("%s:%v", fd.FullName(), renderValue(fd, v))))))
		case fd.IsList():
			l := v.List()
			aidx := len(e.cells)
			e.cells = append(e.cells, "")
			var slots []string
			for i := 0; i < l.Len(); i++ {
				slots = append(slots, callerTag(e.msg(l.Get(i).Message())))
			}
			e.cells[aidx] = vcoq.App("CArr", vcoq.List(slots))
			reps = append(reps, vcoq.Pair(num, vcoq.Pair(callerTag(aidx), vcoq.Int(l.Len()))))
		case fd.Message() != nil:
			subs = append(subs, vcoq.Pair(num, callerTag(e.msg(v.Message()))))
		case signedKind(fd.Kind()):
			sc = append(sc, vcoq.Pair(num, vcoq.Z(v.Int())))
		case fd.Kind() == protoreflect.StringKind:
			sc = append(sc, vcoq.Pair(num, vcoq.Z(e.c.str(v.String()))))
		default:
			sc = append(sc, vcoq.Pair(num, vcoq.Z(e.c.misc(fmt.Sprintf("%s:%v", fd.Kind(), v.Interface())))))
		}
	}
	e.cells[idx] = vcoq.App("CNode", vcoq.List(sc), vcoq.List(subs), vcoq.List(reps))
	return idx
}

func renderValue(fd protoreflect.FieldDescriptor, v protoreflect.Value) string {
	if fd.IsMap() {
		var items []string
		v.Map().Range(func(k protoreflect.MapKey, x protoreflect.Value) bool {
			if fd.MapValue().Message() != nil {
				items = append(items, fmt.Sprintf("%v=%s", k.Interface(), prototext.MarshalOptions{}.Format(x.Message().Interface())))
			} else {
				items = append(items, fmt.Sprintf("%v=%v", k.Interface(), x.Interface()))
			}
			return true
		})
		sort.Strings(items)
		return strings.Join(items, ",")
	}
	l := v.List()
	var items []string
	for i := 0; i < l.Len(); i++ {
		items = append(items, fmt.Sprintf("%v", l.Get(i).Interface()))
	}
	return strings.Join(items, ",")
}

// cells of a message as a Coq list literal (the caller's argument as it is before the call)
func (c *coder) cells(m proto.Message) string {
	e := &enc{c: c}
	e.msg(m.ProtoReflect())
	return vcoq.List(e.cells)
}

// ---- the scrambling caller: every populated signed-int / string scalar of every message
// reachable through singular and repeated message fields and map values; every map (not keyed by bool):
// the messages it holds are rewritten, then the map itself is emptied and given one entry, IN PLACE;
// every list of int / unsigned / float / string / bytes scalars: every element overwritten IN PLACE ----
func scramble(m protoreflect.Message, seen map[protoreflect.Message]bool) {
	if !m.IsValid() {
		return
	}
	for _, fd := range sortedFields(m.Descriptor()) {
		if !m.Has(fd) {
			continue
		}
		switch {
		case fd.IsMap():
			if !scramblable(fd) {
				break
			}
			mp := m.Get(fd).Map()
			if fd.MapValue().Message() != nil {
				mp.Range(func(_ protoreflect.MapKey, v protoreflect.Value) bool {
					scramble(v.Message(), seen)
					return true
				})
			}
			var keys []protoreflect.MapKey
			mp.Range(func(k protoreflect.MapKey, _ protoreflect.Value) bool {
				keys = append(keys, k)
				return true
			})
			for _, k := range keys {
				mp.Clear(k)
			}
			if fd.MapValue().Message() != nil {
				mp.Set(scrScalar(fd.MapKey()).MapKey(), mp.NewValue())
			} else {
				mp.Set(scrScalar(fd.MapKey()).MapKey(), scrScalar(fd.MapValue()))
			}
		case fd.IsList() && fd.Message() == nil:
			if scramblable(fd) {
				l := m.Get(fd).List()
				for i := 0; i < l.Len(); i++ {
					l.Set(i, scrScalar(fd))
				}
			}
		case fd.IsList():
			if fd.Message() != nil {
				l := m.Get(fd).List()
				for i := 0; i < l.Len(); i++ {
					scramble(l.Get(i).Message(), seen)
				}
			}
		case fd.Message() != nil:
			scramble(m.Get(fd).Message(), seen)
		case signedKind(fd.Kind()):
			if fd.Kind() == protoreflect.Int32Kind || fd.Kind() == protoreflect.Sint32Kind || fd.Kind() == protoreflect.Sfixed32Kind {
				m.Set(fd, protoreflect.ValueOfInt32(scrInt))
			} else {
				m.Set(fd, protoreflect.ValueOfInt64(scrInt))
			}
		case fd.Kind() == protoreflect.StringKind:
			m.Set(fd, protoreflect.ValueOfString(scrStr))
		}
	}
}

func isNilMsg(m proto.Message) bool {
	if m == nil {
		return true
	}
	return !m.ProtoReflect().IsValid()
}

func txt(m proto.Message) string {
	if isNilMsg(m) {
		return "<nil>"
	}
	return prototext.MarshalOptions{}.Format(m)
}

func optZList(fs []int64) string {
	if fs == nil {
		return "None"
	}
	return vcoq.Some(vcoq.ListZ(fs))
}
