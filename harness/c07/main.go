// Command c07 is the correspondence harness and observational monitor of C07 (messages are
// isolated).  Part 1 drives histories on resource.Value / resource.Collection (and on parentpb,
// metadatapb, enterleavesensorpb, whose methods are resource operations with their own
// interceptors / seed hooks), registers a deep copy of every message crossing the API boundary and
// emits, per operation, which snapshots changed - the tagged-heap model of Alias/Owned.v must
// predict exactly that.  Part 2 drives every trait model and memory device through its exported
// methods by reflection with the same monitor and reports violations directly.
package main

import (
	"context"
	"fmt"
	"sort"
	"strings"
	"time"

	"github.com/smart-core-os/sc-api/go/traits"
	"github.com/smart-core-os/sc-golang/pkg/resource"
	"github.com/smart-core-os/sc-golang/pkg/trait"
	"github.com/smart-core-os/sc-golang/pkg/trait/enterleavesensorpb"
	"github.com/smart-core-os/sc-golang/pkg/trait/metadatapb"
	"github.com/smart-core-os/sc-golang/pkg/trait/parentpb"
	"github.com/smart-core-os/sc-golang/verifharness/vcoq"
	"github.com/smart-core-os/sc-golang/verifharness/vh"
	"google.golang.org/protobuf/proto"
)

func init() { vh.Register("C07", genC07) }

func main() { vh.Main() }

type gen struct {
	o        *vcoq.Out
	r        *vcoq.Rand
	hist     map[string]int
	modelOps int
	// per target / per method counts of the monitor part (evidence)
	targetOps, targetRuns, methodCalls map[string]int
	bracketedMethods                   map[string]bool
	guardIn, guardAll                  int
	// which variant of the code the tree has, learnt by running the refutation witnesses of
	// Props/C07.v on the implementation (a repaired tree is then compared with the repaired model)
	metaCode, seedClearCode, removeCode, unionCode string
	unionInPlace                                   bool
	openCloseInPlace                               bool
	mergeCode                                      string // MW: FieldUpdater.Merge copies; MWShare: writable fields replaced by reference
}

// ---- the witnesses of Props/C07.v on the real code ----
func probeMetadata() bool { // true: MergeMetadata writes into an earlier result
	m := metadatapb.NewModel()
	_, _ = m.UpdateMetadata(&traits.Metadata{Traits: []*traits.TraitMetadata{{Name: "t1"}}})
	got, _ := m.GetMetadata()
	cp := proto.Clone(got)
	_, _ = m.MergeMetadata(&traits.Metadata{Traits: []*traits.TraitMetadata{{Name: "t1", More: map[string]string{"k": "v"}}}})
	return !proto.Equal(got, cp)
}
func probeEnterLeave() bool { // true: Pull clears fields of the stored event
	var zero int32
	m := enterleavesensorpb.NewModel(enterleavesensorpb.WithInitialEnterLeaveEvent(&traits.EnterLeaveEvent{EnterTotal: &zero, LeaveTotal: &zero}))
	_ = m.CreateEnterLeaveEvent(&traits.EnterLeaveEvent{Direction: traits.EnterLeaveEvent_ENTER, Occupant: &traits.EnterLeaveEvent_Occupant{Name: "a"}})
	got, _ := m.GetEnterLeaveEvent()
	cp := proto.Clone(got)
	ctx, cancel := context.WithCancel(context.Background())
	defer cancel()
	select {
	case <-m.PullEnterLeaveEvents(ctx):
	case <-time.After(2 * time.Second):
	}
	return !proto.Equal(got, cp)
}
func probeParentRemove() bool {
	m := parentpb.NewModel()
	m.AddChild(&traits.Child{Name: "c1", Traits: []*traits.Trait{{Name: "t1"}, {Name: "t3"}, {Name: "t5"}}})
	got := m.ListChildren()[0]
	cp := proto.Clone(got)
	m.RemoveChildTrait("c1", trait.Name("t1"))
	return !proto.Equal(got, cp)
}
func probeParentUnion() bool {
	m := parentpb.NewModel()
	m.AddChild(&traits.Child{Name: "c1", Traits: []*traits.Trait{{Name: "t1"}, {Name: "t3"}, {Name: "t5"}}})
	got := m.ListChildren()[0]
	if cap(got.Traits) == len(got.Traits) {
		m.AddChildTrait("c1", trait.Name("t7")) // grows the stored slice: spare capacity afterwards
		got = m.ListChildren()[0]
	}
	cp := proto.Clone(got)
	m.AddChildTrait("c1", trait.Name("t2"))
	return !proto.Equal(got, cp)
}

func genC07(o *vcoq.Out, r *vcoq.Rand, tier string) error {
	o.Header = "From SC Require Import Base.Prelude Alias.Owned Alias.Nested Alias.Writable Alias.C07Judge."
	o.CaseType = "c07case"
	o.Judge = "judge"
	o.Shard = 40
	o.Rule = "random histories of 4-12 operations: Set/Update/Add/Delete/Get/List/Pull (nil and top-level read/update masks, updates_only, up to 3 subscriptions with different masks with and without backpressure - every event value compared with the stored value under the subscription's mask -, interceptors before/after from {none, set-new, add-old, write-old-scalar, share-old-sub, write-old-element}) on resource.Value and resource.Collection of TestAllTypes; the same through parentpb (AddChild, AddChildTrait, RemoveChildTrait, RemoveChildByName, ListChildren, PullChildren), metadatapb (Update/Merge/Get/Pull) and enterleavesensorpb (Create/ResetTotals/Get/Pull); the caller rewrites every int/string scalar of an earlier argument at random points. Non-trivial: >= 3 operations; distinct by the whole history with observations. Monitor part: every trait model and memory device, methods and arguments chosen by reflection."
	g := &gen{o: o, r: r, hist: map[string]int{}, targetOps: map[string]int{}, targetRuns: map[string]int{}, methodCalls: map[string]int{}, bracketedMethods: map[string]bool{}}
	// what the tree has, read from the source on every run; the run stops when the monitor does not cover it
	sc, err := scanTraitTree(repoDir())
	if err != nil {
		return err
	}
	cov, err := checkCoverage(sc)
	if err != nil {
		return err
	}
	if err := checkOptHooks(sc); err != nil {
		return err
	}
	g.metaCode, g.seedClearCode, g.removeCode, g.unionCode = "IMeta", "SClear", "IRemove", "IUnion"
	if probeMetadata() {
		g.metaCode = "IMetaV0"
	}
	if probeEnterLeave() {
		g.seedClearCode = "SClearV0"
	}
	if probeParentRemove() {
		g.removeCode = "IRemoveV0"
	}
	if g.unionInPlace = probeParentUnion(); g.unionInPlace {
		g.unionCode = "IUnionV0"
	}
	asmCode := "RAsm"
	if g.openCloseInPlace = probeOpenCloseGet(); g.openCloseInPlace {
		asmCode = "RAsmV0"
	}
	g.mergeCode = "MW"
	if probeWritableShare() {
		g.mergeCode = "MWShare"
	}
	o.Extra["coverage_extra"] = map[string]any{"variants": map[string]any{"metadata_merge": g.metaCode, "field_updater_merge": g.mergeCode,
		"enterleave_pull_seed": g.seedClearCode, "parent_remove": g.removeCode, "parent_union": g.unionCode,
		"openclose_get_positions": asmCode}}

	scale := 1
	if tier == "thorough" {
		scale = 12
	}
	for i := 0; i < 70*scale; i++ {
		g.coreSeq(true)
	}
	for i := 0; i < 50*scale; i++ {
		g.coreSeq(false)
	}
	for i := 0; i < 45*scale; i++ {
		g.parentSeq()
	}
	for i := 0; i < 45*scale; i++ {
		g.metadataSeq()
	}
	for i := 0; i < 40*scale; i++ {
		g.enterLeaveSeq()
	}
	for i := 0; i < 40*scale; i++ {
		g.openCloseSeq()
	}
	// monitor part
	for _, spec := range targets {
		// models with many methods get longer and more histories (electricpb: 20 methods)
		nm := numMethods(spec)
		reps, nOps := 5+nm, 24
		multi := strings.Contains(spec.name, "Server") || strings.Contains(spec.name, "Group")
		if multi {
			// a server with the model behind it: the model's own methods have their own target
			reps = 4 + nm/3
		}
		if nm > 8 {
			nOps = 3 * nm
			if multi {
				nOps = 2 * nm
			}
		}
		mscale := scale
		if mscale > 6 {
			mscale = 6 // thorough: 6x the monitor histories (53 targets), 12x the Coq cases
		}
		for rep := 0; rep < reps*mscale; rep++ {
			g.modelSeq(spec, nOps)
		}
	}
	g.scenarios()
	ce := o.Extra["coverage_extra"].(map[string]any)
	ce["guard_pass"] = map[string]int{"inside_guard": g.guardIn, "cases": g.guardAll}
	ce["monitor_operations"] = g.modelOps
	ce["monitor_histogram"] = g.hist
	ce["monitor_models"] = len(targets)
	// every discovered method must actually have been called during this run
	var never []string
	perTarget := map[string]any{}
	for _, t := range targets {
		perTarget[t.name] = map[string]int{"histories": g.targetRuns[t.name], "operations": g.targetOps[t.name]}
	}
	for ty, ms := range cov.PerType {
		for _, m := range ms {
			if g.methodCalls[ty+"."+m] == 0 {
				never = append(never, ty+"."+m)
			}
		}
	}
	sort.Strings(never)
	ce["monitor_targets"] = perTarget
	ce["monitor_method_calls"] = g.methodCalls
	ce["monitor_discovered"] = map[string]int{"source_files": sc.Files, "constructors": cov.Constructors, "types": cov.Types, "methods": cov.Methods,
		"resource_option_hooks": len(sc.OptHooks)}
	ce["monitor_methods_never_called"] = never
	var br []string
	for k := range g.bracketedMethods {
		br = append(br, k)
	}
	sort.Strings(br)
	ce["monitor_methods_bracketed_as_reads"] = br
	if len(never) > 0 {
		return fmt.Errorf("C07 monitor: discovered methods that no history of this run called: %v", never)
	}
	return nil
}

var _ = resource.NewValue
