package main

import (
	"github.com/smart-core-os/sc-golang/verifharness/c07/sites"
	"github.com/smart-core-os/sc-golang/verifharness/vh"
)

// translator "aliassites": Gen/AliasSites.v, the in-place write sites of the tree under check
func init() {
	vh.RegisterTranslator("aliassites", func(outDir string) error { return sites.WriteCoq(outDir, repoDir()) })
}
