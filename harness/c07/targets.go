package main

import (
	"context"
	"fmt"
	"reflect"
	"sort"
	"strings"

	"github.com/smart-core-os/sc-api/go/traits"
	"github.com/smart-core-os/sc-api/go/types"
	"github.com/smart-core-os/sc-golang/pkg/trait/accesspb"
	"github.com/smart-core-os/sc-golang/pkg/trait/airqualitysensorpb"
	"github.com/smart-core-os/sc-golang/pkg/trait/airtemperaturepb"
	"github.com/smart-core-os/sc-golang/pkg/trait/bookingpb"
	"github.com/smart-core-os/sc-golang/pkg/trait/countpb"
	"github.com/smart-core-os/sc-golang/pkg/trait/electricpb"
	"github.com/smart-core-os/sc-golang/pkg/trait/emergencypb"
	"github.com/smart-core-os/sc-golang/pkg/trait/energystoragepb"
	"github.com/smart-core-os/sc-golang/pkg/trait/enterleavesensorpb"
	"github.com/smart-core-os/sc-golang/pkg/trait/fanspeedpb"
	"github.com/smart-core-os/sc-golang/pkg/trait/hailpb"
	"github.com/smart-core-os/sc-golang/pkg/trait/lightpb"
	"github.com/smart-core-os/sc-golang/pkg/trait/metadatapb"
	"github.com/smart-core-os/sc-golang/pkg/trait/meterpb"
	"github.com/smart-core-os/sc-golang/pkg/trait/modepb"
	"github.com/smart-core-os/sc-golang/pkg/trait/occupancysensorpb"
	"github.com/smart-core-os/sc-golang/pkg/trait/onoffpb"
	"github.com/smart-core-os/sc-golang/pkg/trait/openclosepb"
	"github.com/smart-core-os/sc-golang/pkg/trait/parentpb"
	"github.com/smart-core-os/sc-golang/pkg/trait/presspb"
	"github.com/smart-core-os/sc-golang/pkg/trait/publicationpb"
	"github.com/smart-core-os/sc-golang/pkg/trait/speakerpb"
	"github.com/smart-core-os/sc-golang/pkg/trait/vendingpb"
	"github.com/smart-core-os/sc-golang/pkg/trait/wastepb"
	"google.golang.org/grpc"
)

// ---- the monitor's targets: every trait model, memory device, collection, model/collection/info
// server and group of pkg/trait.  A target is a set of objects sharing state (a server and the model
// behind it): the operations of a history are drawn from the exported methods of all of them, the
// state probe reads all of them.  `covers` names the constructors a target exercises; scan.go lists
// the constructors and exported methods the tree HAS, and checkCoverage stops the run when one of them
// is not covered. ----

type root struct {
	v   any
	reg func(grpc.ServiceRegistrar) // services whose server-streaming methods are driven through their handlers
}

type target struct {
	name   string
	covers []string
	mk     func() []root
}

// targets that change their own state in the background (lightpb.MemoryDevice ramps the brightness with a
// ticker goroutine after an update carrying a tween): their state is not compared across a call (a tick
// between the two probes would be reported as a read writing the store); snapshots are still compared - the
// background writes go through Value.Set and must not touch them
var asyncTargets = map[string]bool{"lightpb.MemoryDevice": true}

func (t target) isAsync() bool { return asyncTargets[t.name] }

// a server's own Register method, when it has one
func regOf(s any) func(grpc.ServiceRegistrar) {
	if r, ok := s.(interface{ Register(grpc.ServiceRegistrar) }); ok {
		return r.Register
	}
	return nil
}

func srv(s any) root { return root{v: s, reg: regOf(s)} }

func newEnterLeave() *enterleavesensorpb.Model {
	var zero int32
	return enterleavesensorpb.NewModel(enterleavesensorpb.WithInitialEnterLeaveEvent(&traits.EnterLeaveEvent{EnterTotal: &zero, LeaveTotal: &zero}))
}
func newLight() *lightpb.Model {
	return lightpb.NewModel(lightpb.WithPreset(10, &traits.LightPreset{Name: "a", Title: "A"}), lightpb.WithPreset(80, &traits.LightPreset{Name: "b", Title: "B"}))
}
func newOpenClose() *openclosepb.Model {
	return openclosepb.NewModel(
		openclosepb.WithPreset(&traits.OpenClosePositions_Preset{Name: "a", Title: "A"},
			&traits.OpenClosePosition{OpenPercent: 10, Direction: traits.OpenClosePosition_UP}),
		openclosepb.WithPreset(&traits.OpenClosePositions_Preset{Name: "b", Title: "B"},
			&traits.OpenClosePosition{OpenPercent: 60, Direction: traits.OpenClosePosition_UP},
			&traits.OpenClosePosition{OpenPercent: 70, Direction: traits.OpenClosePosition_DOWN}))
}
func newModes() *modepb.Model {
	return modepb.NewModelModes(&traits.Modes{Modes: []*traits.Modes_Mode{
		{Name: "a", Ordered: true, Values: []*traits.Modes_Value{{Name: "a"}, {Name: "b"}, {Name: "xy"}}},
		{Name: "b", Values: []*traits.Modes_Value{{Name: "00"}, {Name: "01"}}}}})
}

var targets = []target{
	{"accesspb.Model", []string{"accesspb.NewModel"}, func() []root { return []root{{v: accesspb.NewModel()}} }},
	{"accesspb.ModelServer", []string{"accesspb.NewModel", "accesspb.NewModelServer"}, func() []root {
		m := accesspb.NewModel()
		s := accesspb.NewModelServer(m)
		return []root{{v: m}, {v: s, reg: func(r grpc.ServiceRegistrar) { traits.RegisterAccessApiServer(r, s) }}}
	}},
	{"airqualitysensorpb.Model", []string{"airqualitysensorpb.NewModel"}, func() []root { return []root{{v: airqualitysensorpb.NewModel()}} }},
	{"airqualitysensorpb.ModelServer", []string{"airqualitysensorpb.NewModel", "airqualitysensorpb.NewModelServer"}, func() []root {
		m := airqualitysensorpb.NewModel()
		return []root{{v: m}, srv(airqualitysensorpb.NewModelServer(m))}
	}},
	{"airtemperaturepb.Model", []string{"airtemperaturepb.NewModel"}, func() []root { return []root{{v: airtemperaturepb.NewModel()}} }},
	{"airtemperaturepb.ModelServer", []string{"airtemperaturepb.NewModel", "airtemperaturepb.NewModelServer"}, func() []root {
		m := airtemperaturepb.NewModel()
		return []root{{v: m}, srv(airtemperaturepb.NewModelServer(m))}
	}},
	{"airtemperaturepb.MemoryDevice", []string{"airtemperaturepb.NewMemoryDevice"}, func() []root { return []root{srv(airtemperaturepb.NewMemoryDevice())} }},
	{"bookingpb.Model", []string{"bookingpb.NewModel"}, func() []root { return []root{{v: bookingpb.NewModel()}} }},
	{"bookingpb.ModelServer", []string{"bookingpb.NewModel", "bookingpb.NewModelServer"}, func() []root {
		m := bookingpb.NewModel()
		return []root{{v: m}, srv(bookingpb.NewModelServer(m))}
	}},
	{"countpb.MemoryDevice", []string{"countpb.NewMemoryDevice"}, func() []root {
		d := countpb.NewMemoryDevice()
		return []root{{v: d, reg: func(r grpc.ServiceRegistrar) { traits.RegisterCountApiServer(r, d) }}}
	}},
	{"electricpb.Model", []string{"electricpb.NewModel"}, func() []root { return []root{{v: electricpb.NewModel()}} }},
	{"electricpb.ModelServer", []string{"electricpb.NewModel", "electricpb.NewModelServer"}, func() []root {
		m := electricpb.NewModel()
		return []root{{v: m}, srv(electricpb.NewModelServer(m))}
	}},
	{"emergencypb.MemoryDevice", []string{"emergencypb.NewMemoryDevice"}, func() []root { return []root{srv(emergencypb.NewMemoryDevice())} }},
	{"energystoragepb.Model", []string{"energystoragepb.NewModel"}, func() []root { return []root{{v: energystoragepb.NewModel()}} }},
	{"energystoragepb.ModelServer", []string{"energystoragepb.NewModel", "energystoragepb.NewModelServer"}, func() []root {
		m := energystoragepb.NewModel()
		return []root{{v: m}, srv(energystoragepb.NewModelServer(m))}
	}},
	{"enterleavesensorpb.Model", []string{"enterleavesensorpb.NewModel"}, func() []root { return []root{{v: newEnterLeave()}} }},
	{"enterleavesensorpb.ModelServer", []string{"enterleavesensorpb.NewModel", "enterleavesensorpb.NewModelServer"}, func() []root {
		m := newEnterLeave()
		return []root{{v: m}, srv(enterleavesensorpb.NewModelServer(m))}
	}},
	{"fanspeedpb.Model", []string{"fanspeedpb.NewModel"}, func() []root { return []root{{v: fanspeedpb.NewModel()}} }},
	{"fanspeedpb.ModelServer", []string{"fanspeedpb.NewModel", "fanspeedpb.NewModelServer"}, func() []root {
		m := fanspeedpb.NewModel()
		return []root{{v: m}, srv(fanspeedpb.NewModelServer(m))}
	}},
	{"hailpb.Model", []string{"hailpb.NewModel"}, func() []root { return []root{{v: hailpb.NewModel()}} }},
	{"hailpb.ModelServer", []string{"hailpb.NewModel", "hailpb.NewModelServer"}, func() []root {
		m := hailpb.NewModel()
		return []root{{v: m}, srv(hailpb.NewModelServer(m))}
	}},
	{"lightpb.Model", []string{"lightpb.NewModel"}, func() []root { return []root{{v: newLight()}} }},
	{"lightpb.ModelServer", []string{"lightpb.NewModel", "lightpb.NewModelServer"}, func() []root {
		m := newLight()
		return []root{{v: m}, srv(lightpb.NewModelServer(m))}
	}},
	{"lightpb.MemoryDevice", []string{"lightpb.NewMemoryDevice"}, func() []root {
		d := lightpb.NewMemoryDevice()
		return []root{{v: d, reg: func(r grpc.ServiceRegistrar) { traits.RegisterLightApiServer(r, d) }}}
	}},
	{"lightpb.Group", []string{"lightpb.NewModel", "lightpb.NewModelServer", "lightpb.NewGroup"}, func() []root {
		m := newLight()
		g := lightpb.NewGroup(lightpb.WrapApi(lightpb.NewModelServer(m)), "a", "b")
		return []root{{v: m}, {v: g, reg: func(r grpc.ServiceRegistrar) { traits.RegisterLightApiServer(r, g) }}}
	}},
	{"metadatapb.Model", []string{"metadatapb.NewModel"}, func() []root { return []root{{v: metadatapb.NewModel()}} }},
	{"metadatapb.ModelServer", []string{"metadatapb.NewModel", "metadatapb.NewModelServer"}, func() []root {
		m := metadatapb.NewModel()
		return []root{{v: m}, srv(metadatapb.NewModelServer(m))}
	}},
	{"metadatapb.Collection", []string{"metadatapb.NewCollection"}, func() []root { return []root{{v: metadatapb.NewCollection()}} }},
	{"metadatapb.CollectionServer", []string{"metadatapb.NewCollection", "metadatapb.NewCollectionServer"}, func() []root {
		c := metadatapb.NewCollection()
		s := metadatapb.NewCollectionServer(c)
		return []root{{v: c}, {v: s, reg: func(r grpc.ServiceRegistrar) { traits.RegisterMetadataApiServer(r, s) }}}
	}},
	{"meterpb.Model", []string{"meterpb.NewModel"}, func() []root { return []root{{v: meterpb.NewModel()}} }},
	{"meterpb.ModelServer", []string{"meterpb.NewModel", "meterpb.NewModelServer"}, func() []root {
		m := meterpb.NewModel()
		s := meterpb.NewModelServer(m)
		return []root{{v: m}, {v: s, reg: func(r grpc.ServiceRegistrar) { traits.RegisterMeterApiServer(r, s) }}, {v: &meterpb.InfoServer{MeterReading: &traits.MeterReadingSupport{Unit: "kWh"}}}}
	}},
	{"modepb.Model", []string{"modepb.NewModel"}, func() []root { return []root{{v: modepb.NewModel()}} }},
	{"modepb.Model(modes)", []string{"modepb.NewModelModes"}, func() []root { return []root{{v: newModes()}} }},
	{"modepb.ModelServer", []string{"modepb.NewModelModes", "modepb.NewModelServer"}, func() []root {
		m := newModes()
		return []root{{v: m}, srv(modepb.NewModelServer(m)), {v: &modepb.InfoServer{Modes: &traits.ModesSupport{AvailableModes: m.Modes()}}}}
	}},
	{"occupancysensorpb.Model", []string{"occupancysensorpb.NewModel"}, func() []root { return []root{{v: occupancysensorpb.NewModel()}} }},
	{"occupancysensorpb.ModelServer", []string{"occupancysensorpb.NewModel", "occupancysensorpb.NewModelServer"}, func() []root {
		m := occupancysensorpb.NewModel()
		return []root{{v: m}, srv(occupancysensorpb.NewModelServer(m))}
	}},
	{"onoffpb.Model", []string{"onoffpb.NewModel"}, func() []root { return []root{{v: onoffpb.NewModel()}} }},
	{"onoffpb.ModelServer", []string{"onoffpb.NewModel", "onoffpb.NewModelServer"}, func() []root {
		m := onoffpb.NewModel()
		return []root{{v: m}, srv(onoffpb.NewModelServer(m))}
	}},
	{"onoffpb.Group", []string{"onoffpb.NewModel", "onoffpb.NewModelServer", "onoffpb.NewGroup"}, func() []root {
		m := onoffpb.NewModel()
		g := onoffpb.NewGroup(onoffpb.WrapApi(onoffpb.NewModelServer(m)), "a", "b")
		return []root{{v: m}, {v: g, reg: func(r grpc.ServiceRegistrar) { traits.RegisterOnOffApiServer(r, g) }}}
	}},
	{"openclosepb.Model", []string{"openclosepb.NewModel"}, func() []root { return []root{{v: newOpenClose()}} }},
	{"openclosepb.Model(plain)", []string{"openclosepb.NewModel"}, func() []root { return []root{{v: openclosepb.NewModel()}} }},
	{"openclosepb.ModelServer", []string{"openclosepb.NewModel", "openclosepb.NewModelServer"}, func() []root {
		m := newOpenClose()
		return []root{{v: m}, srv(openclosepb.NewModelServer(m))}
	}},
	{"parentpb.Model", []string{"parentpb.NewModel"}, func() []root { return []root{{v: parentpb.NewModel()}} }},
	{"parentpb.ModelServer", []string{"parentpb.NewModel", "parentpb.NewModelServer"}, func() []root {
		m := parentpb.NewModel()
		s := parentpb.NewModelServer(m)
		return []root{{v: m}, {v: s, reg: func(r grpc.ServiceRegistrar) { traits.RegisterParentApiServer(r, s) }}}
	}},
	{"presspb.Model", []string{"presspb.NewModel"}, func() []root { return []root{{v: presspb.NewModel(traits.PressedState_UNPRESSED)}} }},
	{"presspb.ModelServer", []string{"presspb.NewModel", "presspb.NewModelServer"}, func() []root {
		m := presspb.NewModel(traits.PressedState_UNPRESSED)
		s := presspb.NewModelServer(m)
		return []root{{v: m}, {v: s, reg: func(r grpc.ServiceRegistrar) { traits.RegisterPressApiServer(r, s) }}}
	}},
	{"publicationpb.Model", []string{"publicationpb.NewModel"}, func() []root { return []root{{v: publicationpb.NewModel()}} }},
	{"publicationpb.ModelServer", []string{"publicationpb.NewModel", "publicationpb.NewModelServer"}, func() []root {
		m := publicationpb.NewModel()
		return []root{{v: m}, srv(publicationpb.NewModelServer(m))}
	}},
	{"speakerpb.MemoryDevice", []string{"speakerpb.NewMemoryDevice"}, func() []root { return []root{srv(speakerpb.NewMemoryDevice(&types.AudioLevel{Gain: 10}))} }},
	{"vendingpb.Model", []string{"vendingpb.NewModel"}, func() []root { return []root{{v: vendingpb.NewModel()}} }},
	{"vendingpb.ModelServer", []string{"vendingpb.NewModel", "vendingpb.NewModelServer"}, func() []root {
		m := vendingpb.NewModel()
		return []root{{v: m}, srv(vendingpb.NewModelServer(m))}
	}},
	{"wastepb.Model", []string{"wastepb.NewModel"}, func() []root { return []root{{v: wastepb.NewModel()}} }},
	{"wastepb.ModelServer", []string{"wastepb.NewModel", "wastepb.NewModelServer"}, func() []root {
		m := wastepb.NewModel()
		s := wastepb.NewModelServer(m)
		return []root{{v: m}, {v: s, reg: func(r grpc.ServiceRegistrar) { traits.RegisterWasteApiServer(r, s) }}}
	}},
}

// methods that are not operations on messages
var notAnOperation = map[string]string{
	"Register": "registers the server with a grpc.ServiceRegistrar (used by the monitor to obtain the stream handlers)",
	"Unwrap":   "returns the model behind the server",
}

// ---- capturing service descriptions: the streaming methods of a server are driven through the handlers
// of its grpc.ServiceDesc with a stream the monitor implements ----
type descCapture struct{ descs []*grpc.ServiceDesc }

func (c *descCapture) RegisterService(d *grpc.ServiceDesc, _ any) { c.descs = append(c.descs, d) }

// an operation the monitor can perform on a target
type methRef struct {
	root   int
	idx    int    // reflect method index; -1 for a stream handler
	name   string // method name
	owner  string // "pkg.Type"
	stream *grpc.StreamDesc
	svc    string // gRPC service name, for stream handlers
}

func typeKey(v any) string {
	t := reflect.TypeOf(v)
	for t.Kind() == reflect.Ptr {
		t = t.Elem()
	}
	p := t.PkgPath()
	return p[strings.LastIndex(p, "/")+1:] + "." + t.Name()
}

func reflectEligible(ft reflect.Type) bool {
	ok := true
	for p := 1; p < ft.NumIn(); p++ {
		ok = ok && supportedParam(ft.In(p), ft.IsVariadic() && p == ft.NumIn()-1)
	}
	return ok
}

func methodRefs(roots []root) []methRef {
	var out []methRef
	for ri, r := range roots {
		rv := reflect.ValueOf(r.v)
		t := rv.Type()
		owner := typeKey(r.v)
		seen := map[string]bool{}
		for k := 0; k < t.NumMethod(); k++ {
			m := t.Method(k)
			if notAnOperation[m.Name] != "" {
				continue
			}
			if reflectEligible(m.Type) {
				out = append(out, methRef{root: ri, idx: k, name: m.Name, owner: owner})
				seen[m.Name] = true
			}
		}
		if r.reg != nil {
			c := &descCapture{}
			r.reg(c)
			for _, d := range c.descs {
				for si := range d.Streams {
					sd := &d.Streams[si]
					if sd.ServerStreams && !sd.ClientStreams && !seen[sd.StreamName] {
						if _, has := t.MethodByName(sd.StreamName); has {
							out = append(out, methRef{root: ri, idx: -1, name: sd.StreamName, owner: owner, stream: sd, svc: d.ServiceName})
							seen[sd.StreamName] = true
						}
					}
				}
			}
		}
	}
	return out
}

type coverage struct {
	Constructors int
	Types        int
	Methods      int
	PerType      map[string][]string
}

// checkCoverage compares what the tree has (scan.go) with what the targets drive.
func checkCoverage(sc *scanResult) (*coverage, error) {
	var problems []string
	covered := map[string]bool{}
	for _, t := range targets {
		for _, c := range t.covers {
			covered[c] = true
		}
	}
	have := map[string]bool{}
	for _, c := range sc.Ctors {
		have[c.Key()] = true
		if !covered[c.Key()] {
			problems = append(problems, fmt.Sprintf("constructor %s (%s) is not exercised by any monitor target", c.Key(), c.Sig))
		}
	}
	for c := range covered {
		if !have[c] {
			problems = append(problems, fmt.Sprintf("monitor target table names constructor %s, which the tree no longer has", c))
		}
	}
	driven := map[string]map[string]bool{}
	for _, t := range targets {
		var roots []root
		func() {
			defer func() {
				if r := recover(); r != nil {
					problems = append(problems, fmt.Sprintf("target %s: constructor panicked: %v", t.name, r))
				}
			}()
			roots = t.mk()
		}()
		for _, ref := range methodRefs(roots) {
			if driven[ref.owner] == nil {
				driven[ref.owner] = map[string]bool{}
			}
			driven[ref.owner][ref.name] = true
		}
		for _, r := range roots {
			if k := typeKey(r.v); driven[k] == nil {
				driven[k] = map[string]bool{}
			}
		}
	}
	cov := &coverage{Constructors: len(sc.Ctors), PerType: map[string][]string{}}
	var keys []string
	for k := range sc.Methods {
		keys = append(keys, k)
	}
	sort.Strings(keys)
	for _, k := range keys {
		cov.Types++
		d, ok := driven[k]
		if !ok {
			problems = append(problems, fmt.Sprintf("type %s (methods %v) is not part of any monitor target", k, sc.Methods[k]))
			continue
		}
		for _, m := range sc.Methods[k] {
			switch {
			case notAnOperation[m] != "":
			case d[m]:
				cov.Methods++
				cov.PerType[k] = append(cov.PerType[k], m)
			default:
				problems = append(problems, fmt.Sprintf("method %s.%s is not in the monitor's operation set (parameter types the driver cannot build, or a stream without a registered service)", k, m))
			}
		}
	}
	if len(problems) > 0 {
		sort.Strings(problems)
		return cov, fmt.Errorf("C07 monitor does not cover the tree:\n  %s", strings.Join(problems, "\n  "))
	}
	return cov, nil
}

var _ = context.Background
