// Second wave: the judge's guard mirrored (and cross-checked by the judge: KG), branch classes of the
// tolerance comparers observed on the real code, and whole collections (several ids, deletes, re-adds,
// WithInclude, WithUpdatesOnly) pulled under an equivalence.
package main

import (
	"context"
	"fmt"
	"math"
	"math/big"
	"sort"
	"time"

	"github.com/smart-core-os/sc-api/go/traits"
	"github.com/smart-core-os/sc-api/go/types"
	"github.com/smart-core-os/sc-golang/internal/testproto"
	"github.com/smart-core-os/sc-golang/pkg/cmp"
	"github.com/smart-core-os/sc-golang/pkg/resource"
	"github.com/smart-core-os/sc-golang/verifharness/vcoq"
	"google.golang.org/protobuf/proto"
	"google.golang.org/protobuf/reflect/protoreflect"
	"google.golang.org/protobuf/types/known/durationpb"
	"google.golang.org/protobuf/types/known/timestamppb"
)

// ---- C16_guard of Cmp/C16Judge.v, in Go (the judge compares: a wrong mirror is a mismatch) ----

func smallDyadic(f float64) bool {
	if math.IsNaN(f) || math.IsInf(f, 0) {
		return false
	}
	r := new(big.Rat).SetFloat64(f)
	den, num := r.Denom(), new(big.Int).Abs(r.Num())
	if den.Cmp(big.NewInt(1024)) > 0 || num.Cmp(big.NewInt(1048576)) > 0 {
		return false
	}
	d := den.Int64()
	return d&(d-1) == 0
}

func flSmall(f float64) bool { return math.IsNaN(f) || math.IsInf(f, 0) || smallDyadic(f) }

func valGuard(top bool, m protoreflect.Message) bool {
	if !top && !m.IsValid() {
		return false
	}
	if m.Descriptor().FullName() == "google.protobuf.Timestamp" {
		s := m.Get(m.Descriptor().Fields().ByName("seconds")).Int()
		if s > 1<<60 || s < -(1<<60) {
			return false
		}
	}
	ok := true
	single := func(fd protoreflect.FieldDescriptor, v protoreflect.Value) bool {
		switch fd.Kind() {
		case protoreflect.MessageKind, protoreflect.GroupKind:
			return valGuard(false, v.Message())
		case protoreflect.FloatKind, protoreflect.DoubleKind:
			return flSmall(v.Float())
		}
		return true
	}
	m.Range(func(fd protoreflect.FieldDescriptor, v protoreflect.Value) bool {
		switch {
		case fd.IsList():
			l := v.List()
			for i := 0; i < l.Len(); i++ {
				ok = ok && single(fd, l.Get(i))
			}
		case fd.IsMap():
			v.Map().Range(func(_ protoreflect.MapKey, mv protoreflect.Value) bool {
				ok = ok && single(fd.MapValue(), mv)
				return true
			})
		default:
			ok = ok && single(fd, v)
		}
		return true
	})
	return ok
}

func optGuard(m proto.Message) bool {
	if m == nil {
		return true
	}
	return valGuard(true, m.ProtoReflect())
}

func (c vcfg) guard() bool {
	switch c.kind {
	case "float":
		return smallDyadic(c.a) && smallDyadic(c.b) && c.a >= 0 && c.b >= 0
	case "time", "dur":
		return c.d >= 0
	}
	return smallDyadic(c.a)
}

func (e ecfg) guard() bool {
	for _, v := range e.vs {
		if !v.guard() {
			return false
		}
	}
	return true
}

func kg(g bool, coq string) string { return vcoq.App("KG", vcoq.Bool(g), coq) }

func guardTag(g bool) string {
	if g {
		return "guard:pass"
	}
	return "guard:outside"
}

// ---- branch classes of the tolerance comparers, read off the real comparer's calls ----

func f64bits(f float64) string {
	switch {
	case math.IsNaN(f):
		return "nan"
	case math.IsInf(f, 0):
		return "inf"
	case f == 0:
		return "zero"
	}
	return "fin"
}

// classify names the branch of the model a call of comparer c on (fd, x, y) takes.
func classify(c vcfg, fd protoreflect.FieldDescriptor, x, y protoreflect.Value, eq, ok bool) string {
	res := fmt.Sprintf("%v", eq)
	if !ok {
		return "branch:" + c.kind + ":declined"
	}
	switch c.kind {
	case "float":
		fx, fy := x.Float(), y.Float()
		switch {
		case fx == fy:
			return "branch:float:identical"
		case math.IsNaN(fx) && math.IsNaN(fy):
			return "branch:float:nan-nan"
		case math.IsNaN(fx) || math.IsNaN(fy):
			return "branch:float:nan-vs-number:" + res
		case math.IsInf(fx, 0) || math.IsInf(fy, 0):
			return "branch:float:infinity:" + res
		}
		rel := c.a * math.Min(math.Abs(fx), math.Abs(fy))
		if rel > c.b {
			return "branch:float:relative-margin:" + res
		}
		return "branch:float:absolute-margin:" + res
	case "time", "dur", "durp":
		mx, my := x.Message(), y.Message()
		full := protoreflect.FullName("google.protobuf.Timestamp")
		if c.kind != "time" {
			full = "google.protobuf.Duration"
		}
		if (mx.Descriptor().FullName() == full) != (my.Descriptor().FullName() == full) {
			return "branch:" + c.kind + ":one-side-other-type:" + res
		}
		if !mx.IsValid() || !my.IsValid() {
			return "branch:" + c.kind + ":typed-nil:" + res
		}
		if c.kind == "time" {
			xt, yt := mx.Interface().(*timestamppb.Timestamp).AsTime(), my.Interface().(*timestamppb.Timestamp).AsTime()
			d := xt.Sub(yt)
			order := "not-before"
			if xt.Before(yt) {
				order = "before"
			}
			if d == math.MaxInt64 || d == math.MinInt64 {
				return "branch:time:" + order + ":sub-saturated:" + res
			}
			return "branch:time:" + order + ":sub-exact:" + res
		}
		dx, dy := mx.Interface().(*durationpb.Duration), my.Interface().(*durationpb.Duration)
		sat := func(d *durationpb.Duration) bool {
			v := d.AsDuration()
			return v == math.MaxInt64 || v == math.MinInt64
		}
		far := "within-int64-ns"
		if sat(dx) || sat(dy) {
			far = "beyond-int64-ns"
		}
		if c.kind == "durp" {
			// DurationValueWithinP still goes through AsDuration
			return "branch:durp:asduration-" + far + ":" + res
		}
		// DurationValueWithin works on (seconds, nanos): the branch of durationsWithin the pair takes
		xs, xn, ys, yn := dx.GetSeconds(), int64(dx.GetNanos()), dy.GetSeconds(), int64(dy.GetNanos())
		if xs < ys {
			xs, xn, ys, yn = ys, yn, xs, xn
		}
		ds := new(big.Int).Sub(big.NewInt(xs), big.NewInt(ys))
		ns := new(big.Int).Mul(ds, big.NewInt(1000000000))
		switch {
		case ds.Cmp(big.NewInt(9223372041)) > 0:
			return "branch:dur:" + far + ":seconds-too-far-apart:" + res
		case xn-yn >= 0:
			return "branch:dur:" + far + ":nanos-add:" + res
		case ns.Cmp(big.NewInt(yn-xn)) >= 0:
			return "branch:dur:" + far + ":nanos-subtract:" + res
		}
		return "branch:dur:" + far + ":nanos-dominate:" + res
	}
	return "branch:?"
}

// branchTags runs e once more on (x, y) with every value comparer wrapped, and returns the branch classes hit.
func branchTags(e ecfg, x, y proto.Message) (tags []string) {
	defer func() { recover() }()
	seen := map[string]bool{}
	vs := make([]cmp.Value, len(e.vs))
	for i, v := range e.vs {
		v, inner := v, v.real()
		vs[i] = func(fd protoreflect.FieldDescriptor, a, b protoreflect.Value) (bool, bool) {
			eq, ok := inner(fd, a, b)
			seen[classify(v, fd, a, b, eq, ok)] = true
			return eq, ok
		}
	}
	if e.or {
		cmp.Equal(cmp.ValueOr(vs...))(x, y)
	} else {
		cmp.Equal(vs...)(x, y)
	}
	for t := range seen {
		tags = append(tags, t)
	}
	sort.Strings(tags)
	return tags
}

// ---- whole collections ----

type idv struct {
	id string
	v  proto.Message // nil: delete
}

func coqOptMsg(m proto.Message) string {
	if m == nil {
		return "None"
	}
	return "(Some " + coqMsg(m) + ")"
}

// coll runs init and ops against a resource.Collection configured with e and emits a KColl case.
func (g *c16) coll(e ecfg, uo bool, thr *float64, paths *[]string, init []idv, ops []idv, tags []string) {
	js := map[string]any{"op": "collection", "equivalence": e.js(), "updates_only": uo}
	if thr != nil {
		js["include_default_double_at_least"] = *thr
	}
	var ij, oj []any
	for _, p := range init {
		ij = append(ij, map[string]any{"id": p.id, "value": jsMsg(p.v)})
	}
	for _, p := range ops {
		if p.v == nil {
			oj = append(oj, map[string]any{"delete": p.id})
		} else {
			oj = append(oj, map[string]any{"put": p.id, "value": jsMsg(p.v)})
		}
	}
	js["init"], js["ops"] = ij, oj
	opts := []resource.Option{resource.WithMessageEquivalence(e.real())}
	if len(e.vs) == 0 {
		opts = []resource.Option{resource.WithNoDuplicates()}
	}
	c := resource.NewCollection(opts...)
	present := map[string]bool{}
	for _, p := range init {
		if _, err := c.Add(p.id, proto.Clone(p.v)); err != nil {
			g.direct("Collection.Add failed: "+err.Error(), "stream:set-error", js)
			return
		}
		present[p.id] = true
	}
	ropts := []resource.ReadOption{resource.WithBackpressure(true), resource.WithUpdatesOnly(uo)}
	if paths != nil {
		js["read_paths"] = *paths
		ropts = append(ropts, resource.WithReadPaths(&testproto.TestAllTypes{}, *paths...))
	}
	if thr != nil {
		t := *thr
		ropts = append(ropts, resource.WithInclude(func(id string, item proto.Message) bool {
			m, ok := item.(*testproto.TestAllTypes)
			return ok && m.DefaultDouble >= t
		}))
	}
	ctx, cancel := context.WithCancel(context.Background())
	defer cancel()
	ch := c.Pull(ctx, ropts...)
	type tr struct {
		id       string
		old, new proto.Message
	}
	got := make(chan []tr, 1)
	go func() {
		var l []tr
		for ch := range ch {
			if ch.Id == "zzzz-barrier" {
				break
			}
			t := tr{id: ch.Id}
			if ch.OldValue != nil {
				t.old = proto.Clone(ch.OldValue)
			}
			if ch.NewValue != nil {
				t.new = proto.Clone(ch.NewValue)
			}
			l = append(l, t)
		}
		got <- l
	}()
	for _, p := range ops {
		var err error
		switch {
		case p.v == nil:
			_, err = c.Delete(p.id)
			delete(present, p.id)
		case present[p.id]:
			_, err = c.Update(p.id, proto.Clone(p.v))
		default:
			_, err = c.Add(p.id, proto.Clone(p.v))
			present[p.id] = true
		}
		if err != nil {
			g.direct("collection write failed: "+err.Error(), "stream:set-error", js)
			return
		}
	}
	c.Add("zzzz-barrier", &testproto.TestAllTypes{DefaultString: "barrier", DefaultDouble: 1048576})
	var emitted []tr
	select {
	case emitted = <-got:
	case <-time.After(5 * time.Second):
		g.direct("the barrier item was never delivered", "stream:barrier-lost", js)
		return
	}
	var ej []any
	ec := make([]string, len(emitted))
	for i, t := range emitted {
		ec[i] = vcoq.Pair(vcoq.Pair(vcoq.Str(t.id), coqOptMsg(t.old)), coqOptMsg(t.new))
		ej = append(ej, map[string]any{"id": t.id, "old": jsMsg(t.old), "new": jsMsg(t.new)})
	}
	js["emitted"] = ej
	ic := make([]string, len(init))
	guard := e.guard()
	for i, p := range init {
		ic[i] = vcoq.Pair(vcoq.Str(p.id), coqMsg(p.v))
		guard = guard && optGuard(p.v)
	}
	oc := make([]string, len(ops))
	for i, p := range ops {
		oc[i] = vcoq.Pair(vcoq.Str(p.id), coqOptMsg(p.v))
		guard = guard && optGuard(p.v)
	}
	tc := "None"
	if thr != nil {
		tc = "(Some " + coqQ(*thr) + ")"
		guard = guard && smallDyadic(*thr)
	}
	coq := vcoq.App("KColl", e.coq(), vcoq.Bool(uo), tc, vcoq.List(ic), vcoq.List(oc), vcoq.List(ec))
	if paths != nil {
		coq = vcoq.App("KCollM", coqStrs(*paths), e.coq(), vcoq.Bool(uo), tc, vcoq.List(ic), vcoq.List(oc), vcoq.List(ec))
		tags = append(tags, fmt.Sprintf("collection:read-mask:%d-paths", len(*paths)))
	}
	suppressed := len(ops) - (len(emitted) - btoi(!uo)*len(init))
	tags = append(tags, "collection", "collection:"+e.tag(), fmt.Sprintf("collection:updates-only=%v", uo),
		fmt.Sprintf("collection:include=%v", thr != nil), fmt.Sprintf("collection-not-delivered:%d", min(max(suppressed, 0), 4)), guardTag(guard))
	g.o.Add(vcoq.Case{Coq: kg(guard, coq), JSON: js, Key: coq, NonTrivial: len(ops) > 1, Tags: tags})
}

func (g *c16) collections(n int) {
	r := g.r
	item := func(v float64, t int64) proto.Message {
		m := &testproto.TestAllTypes{DefaultDouble: v}
		if t >= 0 {
			m.DefaultWellKnown = &testproto.WellKnown{DefaultTimestamp: &timestamppb.Timestamp{Seconds: t / 1000000000, Nanos: int32(t % 1000000000)}}
		}
		return m
	}
	half := ecfg{vs: []vcfg{{kind: "float", b: 0.5}}}
	one := 1.0
	// fixed histories: drift on two ids interleaved; drift through a delete and re-add; drift across the
	// inclusion threshold; updates-only drift (the subscriber is taken to hold the value at subscription)
	g.coll(half, false, nil, nil, []idv{{"a", item(1, -1)}, {"b", item(5, -1)}},
		[]idv{{"a", item(1.25, -1)}, {"b", item(5.25, -1)}, {"a", item(1.5, -1)}, {"b", item(5.5, -1)}, {"a", item(1.75, -1)}, {"b", item(5.75, -1)}, {"a", item(1.5, -1)}},
		[]string{"collection:fixed:interleaved-drift"})
	g.coll(half, false, nil, nil, []idv{{"a", item(1, -1)}},
		[]idv{{"a", item(1.5, -1)}, {"a", nil}, {"a", item(1.25, -1)}, {"a", item(1.5, -1)}, {"a", item(1.75, -1)}, {"a", item(2, -1)}},
		[]string{"collection:fixed:delete-readd"})
	g.coll(half, false, &one, nil, []idv{{"a", item(1.25, -1)}, {"b", item(0.5, -1)}},
		[]idv{{"a", item(1, -1)}, {"a", item(0.75, -1)}, {"a", item(1, -1)}, {"b", item(0.75, -1)}, {"b", item(1, -1)}, {"b", item(1.5, -1)}, {"b", item(1.75, -1)}},
		[]string{"collection:fixed:threshold"})
	g.coll(half, true, nil, nil, []idv{{"a", item(1, -1)}},
		[]idv{{"a", item(1.25, -1)}, {"a", item(1.5, -1)}, {"a", item(1.75, -1)}, {"b", item(3, -1)}, {"b", item(3.25, -1)}},
		[]string{"collection:fixed:updates-only-drift"})
	g.coll(ecfg{}, false, nil, nil, nil, []idv{{"a", item(1, -1)}, {"a", item(1, -1)}, {"a", nil}}, []string{"collection:fixed:empty-start"})
	ids := []string{"a", "b", "c"}
	for i := 0; i < n; i++ {
		var e ecfg
		switch r.Intn(4) {
		case 0:
		case 1:
			e = ecfg{vs: []vcfg{{kind: "float", b: []float64{0.25, 0.5, 1}[r.Intn(3)]}}}
		case 2:
			e = ecfg{vs: []vcfg{{kind: "float", b: 0.5}, {kind: "time", d: 1000000000}}}
		default:
			e = ecfg{or: true, vs: []vcfg{{kind: "float", b: 0}, {kind: "float", b: 0.5}}}
		}
		uo := r.Chance(25)
		var thr *float64
		if r.Chance(40) {
			t := []float64{0, 1, 1.5, 2}[r.Intn(4)]
			thr = &t
		}
		val := map[string]float64{}
		tim := map[string]int64{}
		present := map[string]bool{}
		var init []idv
		for _, id := range ids[:r.Intn(4)] {
			val[id], tim[id] = dyadics[r.Intn(len(dyadics))], -1
			if r.Chance(30) {
				tim[id] = int64(r.Range(0, 3)) * 1000000000
			}
			present[id] = true
			init = append(init, idv{id, item(val[id], tim[id])})
		}
		var ops []idv
		nops := r.Range(1, 10)
		for k := 0; k < nops; k++ {
			id := ids[r.Intn(len(ids))]
			switch {
			case present[id] && r.Chance(12):
				ops = append(ops, idv{id, nil})
				present[id] = false
				continue
			case !present[id]:
				if _, known := val[id]; !known || r.Chance(50) {
					val[id], tim[id] = dyadics[r.Intn(len(dyadics))], -1
				}
				present[id] = true
			default:
				switch r.Intn(6) {
				case 0: // the same value again
				case 1, 2, 3:
					val[id] += []float64{0.25, 0.125, -0.25, 0.5}[r.Intn(4)]
				case 4:
					if tim[id] >= 0 {
						tim[id] += []int64{250000000, 500000000, 1000000000}[r.Intn(3)]
					} else {
						val[id] += 0.25
					}
				default:
					val[id] = dyadics[r.Intn(len(dyadics))]
				}
			}
			ops = append(ops, idv{id, item(val[id], tim[id])})
		}
		g.coll(e, uo, thr, nil, init, ops, nil)
	}
}

func coqStrs(l []string) string {
	it := make([]string, len(l))
	for i, x := range l {
		it[i] = vcoq.Str(x)
	}
	return vcoq.List(it)
}

// streamM: stream() with WithReadPaths(paths...): the subscriber sees, and the equivalence compares, filtered values.
func (g *c16) streamM(paths []string, e ecfg, seed proto.Message, writes []proto.Message) {
	js := map[string]any{"op": "stream", "equivalence": e.js(), "seed": jsMsg(seed), "read_paths": paths}
	var wj []any
	for _, w := range writes {
		wj = append(wj, jsMsg(w))
	}
	js["writes"] = wj
	opts := []resource.Option{resource.WithMessageEquivalence(e.real())}
	if len(e.vs) == 0 {
		opts = []resource.Option{resource.WithNoDuplicates()}
	}
	if seed != nil {
		opts = append(opts, resource.WithInitialValue(proto.Clone(seed)))
	}
	val := resource.NewValue(opts...)
	ctx, cancel := context.WithCancel(context.Background())
	defer cancel()
	ch := val.Pull(ctx, resource.WithBackpressure(true), resource.WithReadPaths(&testproto.TestAllTypes{}, paths...))
	// the barrier differs from everything in every field a mask can select
	barrier := &testproto.TestAllTypes{DefaultString: "barrier", DefaultDouble: 1048576, DefaultInt32: 77,
		DefaultWellKnown: &testproto.WellKnown{DefaultTimestamp: &timestamppb.Timestamp{Seconds: 777777}}}
	isBarrier := func(m proto.Message) bool {
		t, ok := m.(*testproto.TestAllTypes)
		return ok && (t.DefaultString == "barrier" || t.DefaultDouble == 1048576 || t.DefaultInt32 == 77 || t.GetDefaultWellKnown().GetDefaultTimestamp().GetSeconds() == 777777)
	}
	got := make(chan []proto.Message, 1)
	go func() {
		var l []proto.Message
		for c := range ch {
			if isBarrier(c.Value) {
				break
			}
			l = append(l, proto.Clone(c.Value))
		}
		got <- l
	}()
	for _, w := range writes {
		if _, err := val.Set(proto.Clone(w)); err != nil {
			g.direct("Value.Set failed: "+err.Error(), "stream:set-error", js)
			return
		}
	}
	val.Set(barrier)
	if len(paths) == 0 {
		// under the empty mask every value is filtered to the empty message, the barrier too, so it is
		// suppressed like any other write; but the bus is backpressured: once Set(barrier) has returned the
		// Pull goroutine has taken the barrier event, so everything before it has been handed to us
		cancel()
	}
	var emitted []proto.Message
	select {
	case emitted = <-got:
	case <-time.After(5 * time.Second):
		g.direct("the barrier write was never delivered", "stream:barrier-lost", js)
		return
	}
	var ej []any
	ec := make([]string, len(emitted))
	for i, m := range emitted {
		ec[i] = coqMsg(m)
		ej = append(ej, jsMsg(m))
	}
	js["emitted"] = ej
	wc := make([]string, len(writes))
	guard := e.guard() && optGuard(seed)
	for i, w := range writes {
		wc[i] = coqMsg(w)
		guard = guard && optGuard(w)
	}
	coq := vcoq.App("KStreamM", coqStrs(paths), e.coq(), coqOpt(seed), vcoq.List(wc), vcoq.List(ec))
	g.o.Add(vcoq.Case{Coq: kg(guard, coq), JSON: js, Key: coq, NonTrivial: len(writes) > 1,
		Tags: []string{"stream-masked", "stream-masked:" + e.tag(), fmt.Sprintf("stream-masked:%d-paths", len(paths)),
			fmt.Sprintf("stream-masked-suppressed:%d", min(len(writes)+btoi(seed != nil)-len(emitted), 4)), guardTag(guard)}})
}

// masked: Value and Collection pulled through a read mask; writes that change only what the mask hides.
func (g *c16) masked(n int) {
	r := g.r
	mk := func(v float64, s string, i int32, t int64) *testproto.TestAllTypes {
		m := &testproto.TestAllTypes{DefaultDouble: v, DefaultString: s, DefaultInt32: i}
		if t >= 0 {
			m.DefaultWellKnown = &testproto.WellKnown{DefaultTimestamp: &timestamppb.Timestamp{Seconds: t}}
		}
		return m
	}
	masks := [][]string{{"default_double"}, {"default_double", "default_string"}, {"default_string"}, {"default_well_known", "default_double"}, {}}
	half := ecfg{vs: []vcfg{{kind: "float", b: 0.5}}}
	// only the hidden field changes: nothing to deliver; then a visible drift
	g.streamM(masks[0], ecfg{}, mk(1, "a", 0, -1), []proto.Message{mk(1, "b", 0, -1), mk(1, "c", 1, -1), mk(2, "c", 1, -1), mk(2, "d", 1, -1)})
	g.streamM(masks[0], half, mk(1, "a", 0, -1), []proto.Message{mk(1.25, "b", 0, -1), mk(1.5, "c", 0, -1), mk(1.75, "d", 0, -1), mk(1.75, "e", 0, -1)})
	g.streamM(masks[4], ecfg{}, mk(1, "a", 0, -1), []proto.Message{mk(2, "b", 0, -1), mk(3, "c", 1, 5)})
	one := 1.0
	g.coll(ecfg{}, false, nil, &masks[0], []idv{{"a", mk(1, "a", 0, -1)}, {"b", mk(2, "a", 0, -1)}},
		[]idv{{"a", mk(1, "b", 0, -1)}, {"b", mk(2, "b", 3, -1)}, {"a", mk(1.5, "b", 0, -1)}, {"b", nil}, {"b", mk(2, "z", 0, -1)}}, []string{"collection:fixed:masked"})
	g.coll(half, false, &one, &masks[2], []idv{{"a", mk(1, "a", 0, -1)}},
		[]idv{{"a", mk(1.25, "a", 0, -1)}, {"a", mk(0.5, "a", 0, -1)}, {"a", mk(1.5, "b", 0, -1)}, {"a", mk(1.75, "b", 0, -1)}}, []string{"collection:fixed:masked-threshold"})
	strs := []string{"a", "b", ""}
	for i := 0; i < n; i++ {
		var e ecfg
		switch r.Intn(3) {
		case 0:
		case 1:
			e = half
		default:
			e = ecfg{vs: []vcfg{{kind: "float", b: 0.25}, {kind: "time", d: 1000000000}}}
		}
		paths := masks[r.Intn(len(masks))]
		v, s, k, t := dyadics[r.Intn(len(dyadics))], strs[r.Intn(3)], int32(r.Intn(2)), int64(-1)
		if r.Chance(40) {
			t = int64(r.Range(0, 3))
		}
		step := func() *testproto.TestAllTypes {
			switch r.Intn(6) {
			case 0:
				s = strs[r.Intn(3)]
			case 1:
				k = int32(r.Intn(3))
			case 2, 3:
				v += []float64{0.25, 0.125, -0.25, 0.5}[r.Intn(4)]
			case 4:
				if t >= 0 {
					t += int64(r.Intn(3))
				} else {
					s = strs[r.Intn(3)]
				}
			}
			return mk(v, s, k, t)
		}
		if i%2 == 0 {
			var seed proto.Message
			if r.Chance(75) {
				seed = mk(v, s, k, t)
			}
			var writes []proto.Message
			for j, nw := 0, r.Range(1, 7); j < nw; j++ {
				writes = append(writes, step())
			}
			g.streamM(paths, e, seed, writes)
			continue
		}
		init := []idv{{"a", mk(v, s, k, t)}}
		present := true
		var ops []idv
		for j, nw := 0, r.Range(1, 8); j < nw; j++ {
			if present && r.Chance(10) {
				ops = append(ops, idv{"a", nil})
				present = false
				continue
			}
			present = true
			ops = append(ops, idv{"a", step()})
		}
		var thr *float64
		if r.Chance(30) {
			x := []float64{1, 2}[r.Intn(2)]
			thr = &x
		}
		g.coll(e, r.Chance(25), thr, &paths, init, ops, nil)
	}
}

// moreCorners: grids added after the second round of self-mutation (notes/C16.md): negative and mixed-sign
// floats under relative margins, float tolerances on map values, maps of equal size with different keys,
// change_time outside a Change / a Change at the top, negative tolerances, Change messages through a
// resource with WithNoDuplicates.
func (g *c16) moreCorners() {
	// (x, y, fraction, margin): margin below / at the difference, relative margin below / at / above it
	vals := []float64{-4, -3, -2, -0.25, -0.125, 0, 0.125, 0.25, 2, 3, 4}
	for _, a := range vals {
		for _, b := range vals {
			d := math.Abs(a - b)
			cfgs := []ecfg{{vs: []vcfg{{kind: "float", a: 0.25, b: 0}}}, {vs: []vcfg{{kind: "float", a: 0.5, b: 0}}},
				{vs: []vcfg{{kind: "float", a: 0.125, b: d / 2}}}, {vs: []vcfg{{kind: "float", a: 0, b: d}}},
				{vs: []vcfg{{kind: "float", a: 0.5, b: d / 2}}}, {vs: []vcfg{{kind: "float", a: 1, b: 0}}},
				{or: true, vs: []vcfg{{kind: "float", a: 0, b: 0}, {kind: "float", a: 0.25, b: d / 4}}}}
			x := &testproto.TestAllTypes{DefaultDouble: a, RepeatedDouble: []float64{a, 1}, MapInt32Double: map[int32]float64{1: a, 2: 1}, MapInt32Float: map[int32]float32{7: float32(a)}}
			y := &testproto.TestAllTypes{DefaultDouble: b, RepeatedDouble: []float64{b, 1}, MapInt32Double: map[int32]float64{1: b, 2: 1}, MapInt32Float: map[int32]float32{7: float32(b)}}
			g.pair(x, y, cfgs, nil, []string{"mut:float-grid"}, true)
		}
	}
	// tolerances on map VALUES only (scalar and message values), and on list elements only
	ts := func(s int64, n int32) *timestamppb.Timestamp { return &timestamppb.Timestamp{Seconds: s, Nanos: n} }
	du := func(s int64, n int32) *durationpb.Duration { return &durationpb.Duration{Seconds: s, Nanos: n} }
	tol := []ecfg{{}, {vs: []vcfg{{kind: "float", b: 0.5}}}, {vs: []vcfg{{kind: "float", b: 0.125}}}, {vs: []vcfg{{kind: "time", d: 1000000000}}},
		{vs: []vcfg{{kind: "time", d: 999999999}}}, {vs: []vcfg{{kind: "dur", d: 500000000}}}, {vs: []vcfg{{kind: "dur", d: 499999999}}},
		{vs: []vcfg{{kind: "float", b: 0.25}, {kind: "time", d: 1000000000}, {kind: "dur", d: 500000000}}}}
	mv := func(f float64, t *timestamppb.Timestamp, d *durationpb.Duration) proto.Message {
		return &testproto.TestAllTypes{MapInt32Double: map[int32]float64{1: f}, MapInt32Float: map[int32]float32{2: float32(f)},
			MapStringWellKnown: map[string]*testproto.WellKnown{"k": {DefaultTimestamp: t, DefaultDuration: d}},
			RepeatedWellKnown:  []*testproto.WellKnown{{DefaultTimestamp: t}, {DefaultDuration: d}}}
	}
	mvs := []proto.Message{mv(1, ts(5, 0), du(1, 0)), mv(1.25, ts(5, 0), du(1, 0)), mv(1, ts(6, 0), du(1, 0)), mv(1, ts(5, 0), du(1, 500000000)),
		mv(1.5, ts(5, 999999999), du(0, 500000000)), mv(1, ts(6, 1), du(1, 500000001))}
	for _, x := range mvs {
		for _, y := range mvs {
			g.pair(x, y, tol, nil, []string{"mut:map-values"}, true)
		}
	}
	// maps of the same size with different keys; the same key with different value kinds
	keyed := []proto.Message{
		&testproto.TestAllTypes{MapStringString: map[string]string{"a": "v"}}, &testproto.TestAllTypes{MapStringString: map[string]string{"b": "v"}},
		&testproto.TestAllTypes{MapStringString: map[string]string{"": "v"}}, &testproto.TestAllTypes{MapStringString: map[string]string{"a": ""}},
		&testproto.TestAllTypes{MapStringBytes: map[string][]byte{"a": []byte("a")}}, &testproto.TestAllTypes{MapStringBytes: map[string][]byte{"": nil}},
		&testproto.TestAllTypes{MapInt32Int32: map[int32]int32{1: 2, 3: 4}}, &testproto.TestAllTypes{MapInt32Int32: map[int32]int32{1: 2, 4: 4}},
		&testproto.TestAllTypes{MapInt32Int32: map[int32]int32{0: 0, 3: 4}}, &testproto.TestAllTypes{MapBoolBool: map[bool]bool{true: false}},
		&testproto.TestAllTypes{MapBoolBool: map[bool]bool{false: false}},
		&testproto.TestAllTypes{MapStringNestedMessage: map[string]*testproto.TestAllTypes_NestedMessage{"a": {A: 1}}},
		&testproto.TestAllTypes{MapStringNestedMessage: map[string]*testproto.TestAllTypes_NestedMessage{"b": {A: 1}}},
		&testproto.TestAllTypes{MapStringNestedMessage: map[string]*testproto.TestAllTypes_NestedMessage{"a": {}}},
		&testproto.TestAllTypes{MapStringWellKnown: map[string]*testproto.WellKnown{"a": {DefaultTimestamp: ts(1, 0)}}},
		&testproto.TestAllTypes{MapStringWellKnown: map[string]*testproto.WellKnown{"b": {DefaultTimestamp: ts(1, 0)}}},
	}
	for _, x := range keyed {
		for _, y := range keyed {
			g.pair(x, y, []ecfg{{}, {vs: []vcfg{{kind: "float", b: 0.5}, {kind: "time", d: 1000000000}}}}, nil, []string{"mut:map-keys"}, true)
		}
	}
	// change_time: inside a Change (ignored), in a message that is not called Change (compared), a Change at the top
	lvl := func(p float32) *traits.Brightness { return &traits.Brightness{LevelPercent: p} }
	ct := []proto.Message{
		&types.AudioLevelChange{Name: "n", ChangeTime: ts(1, 0)}, &types.AudioLevelChange{Name: "n", ChangeTime: ts(2, 0)}, &types.AudioLevelChange{Name: "n"},
		&traits.PullBrightnessResponse_Change{Name: "n", ChangeTime: ts(1, 0), Brightness: lvl(1)}, &traits.PullBrightnessResponse_Change{Name: "n", ChangeTime: ts(2, 0), Brightness: lvl(1)},
		&traits.PullBrightnessResponse_Change{Name: "n", Brightness: lvl(1)}, &traits.PullBrightnessResponse_Change{Name: "n", ChangeTime: ts(1, 0), Brightness: lvl(2)},
		&traits.PullBrightnessResponse{Changes: []*traits.PullBrightnessResponse_Change{{Name: "n", ChangeTime: ts(1, 0)}, {Name: "m", ChangeTime: ts(1, 0)}}},
		&traits.PullBrightnessResponse{Changes: []*traits.PullBrightnessResponse_Change{{Name: "n", ChangeTime: ts(3, 0)}, {Name: "m"}}},
		&traits.PullBrightnessResponse{Changes: []*traits.PullBrightnessResponse_Change{{Name: "n", ChangeTime: ts(3, 0)}}},
	}
	for _, x := range ct {
		for _, y := range ct {
			g.pair(x, y, []ecfg{{}, {vs: []vcfg{{kind: "time", d: 500000000}}}, {vs: []vcfg{{kind: "time", d: 1000000000}}}, {vs: []vcfg{{kind: "float", b: 1}}}}, nil, []string{"mut:change-time-placement"}, true)
		}
	}
	// negative tolerances accept nothing, not even identical values (outside the guard: model fidelity)
	wk := func(t *timestamppb.Timestamp, d *durationpb.Duration) proto.Message {
		return &testproto.WellKnown{DefaultTimestamp: t, DefaultDuration: d}
	}
	neg := []proto.Message{wk(ts(1, 0), du(1, 0)), wk(ts(5, 0), du(5, 0)), wk(ts(1, 1), du(1, 1)), wk(ts(-9223372036, 0), du(-9223372036, -854775808)), wk(ts(9223372036, 0), du(9223372036, 854775807))}
	for _, x := range neg {
		for _, y := range neg {
			cfgs := []ecfg{{vs: []vcfg{{kind: "time", d: -1}}}, {vs: []vcfg{{kind: "dur", d: -1}}}, {vs: []vcfg{{kind: "time", d: math.MinInt64}}}, {vs: []vcfg{{kind: "dur", d: math.MinInt64}}},
				{vs: []vcfg{{kind: "dur", d: -1}, {kind: "dur", d: 0}}}, {or: true, vs: []vcfg{{kind: "time", d: -1}, {kind: "time", d: 0}}}}
			g.pair(x, y, cfgs, nil, []string{"mut:negative-tolerance"}, true)
		}
	}
	// Change messages through a Collection with WithNoDuplicates / a time tolerance: a write that differs only in
	// change_time is a duplicate
	resp := func(ctime int64, level float32) proto.Message {
		return &traits.PullBrightnessResponse{Changes: []*traits.PullBrightnessResponse_Change{{Name: "n", ChangeTime: ts(ctime, 0), Brightness: lvl(level)}}}
	}
	for _, e := range []ecfg{{}, {vs: []vcfg{{kind: "float", b: 0.5}}}, {vs: []vcfg{{kind: "time", d: 1000000000}}}} {
		g.coll(e, false, nil, nil, []idv{{"a", resp(1, 1)}},
			[]idv{{"a", resp(2, 1)}, {"a", resp(3, 1)}, {"a", resp(3, 1.5)}, {"a", resp(9, 1.5)}, {"a", resp(9, 2)}, {"b", resp(1, 1)}, {"b", resp(2, 1)}},
			[]string{"collection:fixed:change-messages"})
	}
}
