// Second wave: the judge's guard mirrored (and cross-checked by the judge: KG), branch classes of the
// tolerance comparers observed on the real code, and whole collections (several ids, deletes, re-adds,
// WithInclude, WithUpdatesOnly) pulled under an equivalence.
package main

import (
	"context"
	"fmt"
	"math"
	"math/big"
	"sort"
	"time"

	"github.com/smart-core-os/sc-golang/internal/testproto"
	"github.com/smart-core-os/sc-golang/pkg/cmp"
	"github.com/smart-core-os/sc-golang/pkg/resource"
	"github.com/smart-core-os/sc-golang/verifharness/vcoq"
	"google.golang.org/protobuf/proto"
	"google.golang.org/protobuf/reflect/protoreflect"
	"google.golang.org/protobuf/types/known/durationpb"
	"google.golang.org/protobuf/types/known/timestamppb"
)

// ---- C16_guard of Cmp/C16Judge.v, in Go (the judge compares: a wrong mirror is a mismatch) ----

func smallDyadic(f float64) bool {
	if math.IsNaN(f) || math.IsInf(f, 0) {
		return false
	}
	r := new(big.Rat).SetFloat64(f)
	den, num := r.Denom(), new(big.Int).Abs(r.Num())
	if den.Cmp(big.NewInt(1024)) > 0 || num.Cmp(big.NewInt(1048576)) > 0 {
		return false
	}
	d := den.Int64()
	return d&(d-1) == 0
}

func flSmall(f float64) bool { return math.IsNaN(f) || math.IsInf(f, 0) || smallDyadic(f) }

func valGuard(top bool, m protoreflect.Message) bool {
	if !top && !m.IsValid() {
		return false
	}
	if m.Descriptor().FullName() == "google.protobuf.Timestamp" {
		s := m.Get(m.Descriptor().Fields().ByName("seconds")).Int()
		if s > 1<<60 || s < -(1<<60) {
			return false
		}
	}
	ok := true
	single := func(fd protoreflect.FieldDescriptor, v protoreflect.Value) bool {
		switch fd.Kind() {
		case protoreflect.MessageKind, protoreflect.GroupKind:
			return valGuard(false, v.Message())
		case protoreflect.FloatKind, protoreflect.DoubleKind:
			return flSmall(v.Float())
		}
		return true
	}
	m.Range(func(fd protoreflect.FieldDescriptor, v protoreflect.Value) bool {
		switch {
		case fd.IsList():
			l := v.List()
			for i := 0; i < l.Len(); i++ {
				ok = ok && single(fd, l.Get(i))
			}
		case fd.IsMap():
			v.Map().Range(func(_ protoreflect.MapKey, mv protoreflect.Value) bool {
				ok = ok && single(fd.MapValue(), mv)
				return true
			})
		default:
			ok = ok && single(fd, v)
		}
		return true
	})
	return ok
}

func optGuard(m proto.Message) bool {
	if m == nil {
		return true
	}
	return valGuard(true, m.ProtoReflect())
}

func (c vcfg) guard() bool {
	switch c.kind {
	case "float":
		return smallDyadic(c.a) && smallDyadic(c.b) && c.a >= 0 && c.b >= 0
	case "time", "dur":
		return c.d >= 0
	}
	return smallDyadic(c.a)
}

func (e ecfg) guard() bool {
	for _, v := range e.vs {
		if !v.guard() {
			return false
		}
	}
	return true
}

func kg(g bool, coq string) string { return vcoq.App("KG", vcoq.Bool(g), coq) }

func guardTag(g bool) string {
	if g {
		return "guard:pass"
	}
	return "guard:outside"
}

// ---- branch classes of the tolerance comparers, read off the real comparer's calls ----

func f64bits(f float64) string {
	switch {
	case math.IsNaN(f):
		return "nan"
	case math.IsInf(f, 0):
		return "inf"
	case f == 0:
		return "zero"
	}
	return "fin"
}

// classify names the branch of the model a call of comparer c on (fd, x, y) takes.
func classify(c vcfg, fd protoreflect.FieldDescriptor, x, y protoreflect.Value, eq, ok bool) string {
	res := fmt.Sprintf("%v", eq)
	if !ok {
		return "branch:" + c.kind + ":declined"
	}
	switch c.kind {
	case "float":
		fx, fy := x.Float(), y.Float()
		switch {
		case fx == fy:
			return "branch:float:identical"
		case math.IsNaN(fx) && math.IsNaN(fy):
			return "branch:float:nan-nan"
		case math.IsNaN(fx) || math.IsNaN(fy):
			return "branch:float:nan-vs-number:" + res
		case math.IsInf(fx, 0) || math.IsInf(fy, 0):
			return "branch:float:infinity:" + res
		}
		rel := c.a * math.Min(math.Abs(fx), math.Abs(fy))
		if rel > c.b {
			return "branch:float:relative-margin:" + res
		}
		return "branch:float:absolute-margin:" + res
	case "time", "dur", "durp":
		mx, my := x.Message(), y.Message()
		full := protoreflect.FullName("google.protobuf.Timestamp")
		if c.kind != "time" {
			full = "google.protobuf.Duration"
		}
		if (mx.Descriptor().FullName() == full) != (my.Descriptor().FullName() == full) {
			return "branch:" + c.kind + ":one-side-other-type:" + res
		}
		if !mx.IsValid() || !my.IsValid() {
			return "branch:" + c.kind + ":typed-nil:" + res
		}
		if c.kind == "time" {
			xt, yt := mx.Interface().(*timestamppb.Timestamp).AsTime(), my.Interface().(*timestamppb.Timestamp).AsTime()
			d := xt.Sub(yt)
			order := "not-before"
			if xt.Before(yt) {
				order = "before"
			}
			if d == math.MaxInt64 || d == math.MinInt64 {
				return "branch:time:" + order + ":sub-saturated:" + res
			}
			return "branch:time:" + order + ":sub-exact:" + res
		}
		dx, dy := mx.Interface().(*durationpb.Duration), my.Interface().(*durationpb.Duration)
		sat := func(d *durationpb.Duration) bool {
			v := d.AsDuration()
			return v == math.MaxInt64 || v == math.MinInt64
		}
		if sat(dx) || sat(dy) {
			return "branch:" + c.kind + ":asduration-saturated:" + res
		}
		return "branch:" + c.kind + ":asduration-exact:" + res
	}
	return "branch:?"
}

// branchTags runs e once more on (x, y) with every value comparer wrapped, and returns the branch classes hit.
func branchTags(e ecfg, x, y proto.Message) (tags []string) {
	defer func() { recover() }()
	seen := map[string]bool{}
	vs := make([]cmp.Value, len(e.vs))
	for i, v := range e.vs {
		v, inner := v, v.real()
		vs[i] = func(fd protoreflect.FieldDescriptor, a, b protoreflect.Value) (bool, bool) {
			eq, ok := inner(fd, a, b)
			seen[classify(v, fd, a, b, eq, ok)] = true
			return eq, ok
		}
	}
	if e.or {
		cmp.Equal(cmp.ValueOr(vs...))(x, y)
	} else {
		cmp.Equal(vs...)(x, y)
	}
	for t := range seen {
		tags = append(tags, t)
	}
	sort.Strings(tags)
	return tags
}

// ---- whole collections ----

type idv struct {
	id string
	v  proto.Message // nil: delete
}

func coqOptMsg(m proto.Message) string {
	if m == nil {
		return "None"
	}
	return "(Some " + coqMsg(m) + ")"
}

// coll runs init and ops against a resource.Collection configured with e and emits a KColl case.
func (g *c16) coll(e ecfg, uo bool, thr *float64, init []idv, ops []idv, tags []string) {
	js := map[string]any{"op": "collection", "equivalence": e.js(), "updates_only": uo}
	if thr != nil {
		js["include_default_double_at_least"] = *thr
	}
	var ij, oj []any
	for _, p := range init {
		ij = append(ij, map[string]any{"id": p.id, "value": jsMsg(p.v)})
	}
	for _, p := range ops {
		if p.v == nil {
			oj = append(oj, map[string]any{"delete": p.id})
		} else {
			oj = append(oj, map[string]any{"put": p.id, "value": jsMsg(p.v)})
		}
	}
	js["init"], js["ops"] = ij, oj
	opts := []resource.Option{resource.WithMessageEquivalence(e.real())}
	if len(e.vs) == 0 {
		opts = []resource.Option{resource.WithNoDuplicates()}
	}
	c := resource.NewCollection(opts...)
	present := map[string]bool{}
	for _, p := range init {
		if _, err := c.Add(p.id, proto.Clone(p.v)); err != nil {
			g.direct("Collection.Add failed: "+err.Error(), "stream:set-error", js)
			return
		}
		present[p.id] = true
	}
	ropts := []resource.ReadOption{resource.WithBackpressure(true), resource.WithUpdatesOnly(uo)}
	if thr != nil {
		t := *thr
		ropts = append(ropts, resource.WithInclude(func(id string, item proto.Message) bool {
			m, ok := item.(*testproto.TestAllTypes)
			return ok && m.DefaultDouble >= t
		}))
	}
	ctx, cancel := context.WithCancel(context.Background())
	defer cancel()
	ch := c.Pull(ctx, ropts...)
	type tr struct {
		id       string
		old, new proto.Message
	}
	got := make(chan []tr, 1)
	go func() {
		var l []tr
		for ch := range ch {
			if ch.Id == "zzzz-barrier" {
				break
			}
			t := tr{id: ch.Id}
			if ch.OldValue != nil {
				t.old = proto.Clone(ch.OldValue)
			}
			if ch.NewValue != nil {
				t.new = proto.Clone(ch.NewValue)
			}
			l = append(l, t)
		}
		got <- l
	}()
	for _, p := range ops {
		var err error
		switch {
		case p.v == nil:
			_, err = c.Delete(p.id)
			delete(present, p.id)
		case present[p.id]:
			_, err = c.Update(p.id, proto.Clone(p.v))
		default:
			_, err = c.Add(p.id, proto.Clone(p.v))
			present[p.id] = true
		}
		if err != nil {
			g.direct("collection write failed: "+err.Error(), "stream:set-error", js)
			return
		}
	}
	c.Add("zzzz-barrier", &testproto.TestAllTypes{DefaultString: "barrier", DefaultDouble: 1048576})
	var emitted []tr
	select {
	case emitted = <-got:
	case <-time.After(5 * time.Second):
		g.direct("the barrier item was never delivered", "stream:barrier-lost", js)
		return
	}
	var ej []any
	ec := make([]string, len(emitted))
	for i, t := range emitted {
		ec[i] = vcoq.Pair(vcoq.Pair(vcoq.Str(t.id), coqOptMsg(t.old)), coqOptMsg(t.new))
		ej = append(ej, map[string]any{"id": t.id, "old": jsMsg(t.old), "new": jsMsg(t.new)})
	}
	js["emitted"] = ej
	ic := make([]string, len(init))
	guard := e.guard()
	for i, p := range init {
		ic[i] = vcoq.Pair(vcoq.Str(p.id), coqMsg(p.v))
		guard = guard && optGuard(p.v)
	}
	oc := make([]string, len(ops))
	for i, p := range ops {
		oc[i] = vcoq.Pair(vcoq.Str(p.id), coqOptMsg(p.v))
		guard = guard && optGuard(p.v)
	}
	tc := "None"
	if thr != nil {
		tc = "(Some " + coqQ(*thr) + ")"
		guard = guard && smallDyadic(*thr)
	}
	coq := vcoq.App("KColl", e.coq(), vcoq.Bool(uo), tc, vcoq.List(ic), vcoq.List(oc), vcoq.List(ec))
	suppressed := len(ops) - (len(emitted) - btoi(!uo)*len(init))
	tags = append(tags, "collection", "collection:"+e.tag(), fmt.Sprintf("collection:updates-only=%v", uo),
		fmt.Sprintf("collection:include=%v", thr != nil), fmt.Sprintf("collection-not-delivered:%d", min(max(suppressed, 0), 4)), guardTag(guard))
	g.o.Add(vcoq.Case{Coq: kg(guard, coq), JSON: js, Key: coq, NonTrivial: len(ops) > 1, Tags: tags})
}

func (g *c16) collections(n int) {
	r := g.r
	item := func(v float64, t int64) proto.Message {
		m := &testproto.TestAllTypes{DefaultDouble: v}
		if t >= 0 {
			m.DefaultWellKnown = &testproto.WellKnown{DefaultTimestamp: &timestamppb.Timestamp{Seconds: t / 1000000000, Nanos: int32(t % 1000000000)}}
		}
		return m
	}
	half := ecfg{vs: []vcfg{{kind: "float", b: 0.5}}}
	one := 1.0
	// fixed histories: drift on two ids interleaved; drift through a delete and re-add; drift across the
	// inclusion threshold; updates-only drift (the subscriber is taken to hold the value at subscription)
	g.coll(half, false, nil, []idv{{"a", item(1, -1)}, {"b", item(5, -1)}},
		[]idv{{"a", item(1.25, -1)}, {"b", item(5.25, -1)}, {"a", item(1.5, -1)}, {"b", item(5.5, -1)}, {"a", item(1.75, -1)}, {"b", item(5.75, -1)}, {"a", item(1.5, -1)}},
		[]string{"collection:fixed:interleaved-drift"})
	g.coll(half, false, nil, []idv{{"a", item(1, -1)}},
		[]idv{{"a", item(1.5, -1)}, {"a", nil}, {"a", item(1.25, -1)}, {"a", item(1.5, -1)}, {"a", item(1.75, -1)}, {"a", item(2, -1)}},
		[]string{"collection:fixed:delete-readd"})
	g.coll(half, false, &one, []idv{{"a", item(1.25, -1)}, {"b", item(0.5, -1)}},
		[]idv{{"a", item(1, -1)}, {"a", item(0.75, -1)}, {"a", item(1, -1)}, {"b", item(0.75, -1)}, {"b", item(1, -1)}, {"b", item(1.5, -1)}, {"b", item(1.75, -1)}},
		[]string{"collection:fixed:threshold"})
	g.coll(half, true, nil, []idv{{"a", item(1, -1)}},
		[]idv{{"a", item(1.25, -1)}, {"a", item(1.5, -1)}, {"a", item(1.75, -1)}, {"b", item(3, -1)}, {"b", item(3.25, -1)}},
		[]string{"collection:fixed:updates-only-drift"})
	g.coll(ecfg{}, false, nil, nil, []idv{{"a", item(1, -1)}, {"a", item(1, -1)}, {"a", nil}}, []string{"collection:fixed:empty-start"})
	ids := []string{"a", "b", "c"}
	for i := 0; i < n; i++ {
		var e ecfg
		switch r.Intn(4) {
		case 0:
		case 1:
			e = ecfg{vs: []vcfg{{kind: "float", b: []float64{0.25, 0.5, 1}[r.Intn(3)]}}}
		case 2:
			e = ecfg{vs: []vcfg{{kind: "float", b: 0.5}, {kind: "time", d: 1000000000}}}
		default:
			e = ecfg{or: true, vs: []vcfg{{kind: "float", b: 0}, {kind: "float", b: 0.5}}}
		}
		uo := r.Chance(25)
		var thr *float64
		if r.Chance(40) {
			t := []float64{0, 1, 1.5, 2}[r.Intn(4)]
			thr = &t
		}
		val := map[string]float64{}
		tim := map[string]int64{}
		present := map[string]bool{}
		var init []idv
		for _, id := range ids[:r.Intn(4)] {
			val[id], tim[id] = dyadics[r.Intn(len(dyadics))], -1
			if r.Chance(30) {
				tim[id] = int64(r.Range(0, 3)) * 1000000000
			}
			present[id] = true
			init = append(init, idv{id, item(val[id], tim[id])})
		}
		var ops []idv
		nops := r.Range(1, 10)
		for k := 0; k < nops; k++ {
			id := ids[r.Intn(len(ids))]
			switch {
			case present[id] && r.Chance(12):
				ops = append(ops, idv{id, nil})
				present[id] = false
				continue
			case !present[id]:
				if _, known := val[id]; !known || r.Chance(50) {
					val[id], tim[id] = dyadics[r.Intn(len(dyadics))], -1
				}
				present[id] = true
			default:
				switch r.Intn(6) {
				case 0: // the same value again
				case 1, 2, 3:
					val[id] += []float64{0.25, 0.125, -0.25, 0.5}[r.Intn(4)]
				case 4:
					if tim[id] >= 0 {
						tim[id] += []int64{250000000, 500000000, 1000000000}[r.Intn(3)]
					} else {
						val[id] += 0.25
					}
				default:
					val[id] = dyadics[r.Intn(len(dyadics))]
				}
			}
			ops = append(ops, idv{id, item(val[id], tim[id])})
		}
		g.coll(e, uo, thr, init, ops, nil)
	}
}
