// Combinator TREES: cmp.ValueAnd / cmp.ValueOr nested to depth 2-3 over leaf comparers of different
// kinds (OTree of Cmp/C16Judge.v, Logic.v ctree).  A member of a combination may itself be a
// combination; the enclosing loop consumes its (equal, ok) pair like a leaf's.  The shapes include
// empty combinations, combinations none of whose members applies to the field at hand (ValueAnd then
// answers (true, false), ValueOr (false, false)), the applicable leaf before / after such a member,
// and the same leaf at different depths.
package main

import (
	"strings"

	"github.com/smart-core-os/sc-golang/internal/testproto"
	"github.com/smart-core-os/sc-golang/pkg/cmp"
	"github.com/smart-core-os/sc-golang/verifharness/vcoq"
	"google.golang.org/protobuf/proto"
	"google.golang.org/protobuf/types/known/durationpb"
	"google.golang.org/protobuf/types/known/timestamppb"
)

type vtree struct {
	leaf *vcfg
	or   bool
	kids []vtree
}

func tl(v vcfg) vtree       { return vtree{leaf: &v} }
func tand(k ...vtree) vtree { return vtree{kids: k} }
func tor(k ...vtree) vtree  { return vtree{or: true, kids: k} }

func (t vtree) coq() string {
	if t.leaf != nil {
		return vcoq.App("TLeaf", t.leaf.coq())
	}
	it := make([]string, len(t.kids))
	for i, k := range t.kids {
		it[i] = k.coq()
	}
	if t.or {
		return vcoq.App("TOr", vcoq.List(it))
	}
	return vcoq.App("TAnd", vcoq.List(it))
}

func (t vtree) js() any {
	if t.leaf != nil {
		return t.leaf.js()
	}
	it := make([]any, len(t.kids))
	for i, k := range t.kids {
		it[i] = k.js()
	}
	if t.or {
		return map[string]any{"ValueOr": it}
	}
	return map[string]any{"ValueAnd": it}
}

func (t vtree) real() cmp.Value {
	if t.leaf != nil {
		return t.leaf.real()
	}
	vs := make([]cmp.Value, len(t.kids))
	for i, k := range t.kids {
		vs[i] = k.real()
	}
	if t.or {
		return cmp.ValueOr(vs...)
	}
	return cmp.ValueAnd(vs...)
}

func (t vtree) leaves() []vcfg {
	if t.leaf != nil {
		return []vcfg{*t.leaf}
	}
	var out []vcfg
	for _, k := range t.kids {
		out = append(out, k.leaves()...)
	}
	return out
}

func (t vtree) guard() bool { return ecfg{vs: t.leaves()}.guard() }

func (t vtree) depth() int {
	d := 0
	for _, k := range t.kids {
		if kd := k.depth(); kd > d {
			d = kd
		}
	}
	if t.leaf != nil {
		return 0
	}
	return d + 1
}

func (t vtree) shape() string {
	if t.leaf != nil {
		return t.leaf.kind
	}
	k := make([]string, len(t.kids))
	for i, c := range t.kids {
		k[i] = c.shape()
	}
	if t.or {
		return "Or(" + strings.Join(k, ",") + ")"
	}
	return "And(" + strings.Join(k, ",") + ")"
}

// randTree: a random tree of the given depth over the leaf makers; combinations have 0-3 members.
func randTree(r *vcoq.Rand, depth int, leaves []func() vcfg) vtree {
	if depth == 0 || r.Chance(25) {
		return tl(leaves[r.Intn(len(leaves))]())
	}
	n := r.Intn(4)
	kids := make([]vtree, n)
	for i := range kids {
		kids[i] = randTree(r, depth-1, leaves)
	}
	return vtree{or: r.Bool(), kids: kids}
}

// treeShapes: the fixed shapes, over one leaf of each kind.
func treeShapes(f, t, d vcfg) []vtree {
	F, T, D := tl(f), tl(t), tl(d)
	return []vtree{
		tor(T, tand(F, D)), tor(tand(F, D), T), tor(T, tand()), tor(tand(), T), tor(tor(T), tand(F)),
		tand(T, tor(F, D)), tand(tor(F, D), T), tand(tor(), T), tand(T, tor()), tand(tand(T), tor(F)),
		tor(tand(tor(T))), tand(tor(tand(T))), tor(tand(tor(), tand()), T, D), tand(tor(tand(), tor()), F, T),
		tor(tand(T, F), D), tand(tor(T, F), D), tor(F, tand(T, tor(D, tand()))), tand(F, tor(T, tand(D, tor()))),
		tor(tand(F), tand(T), tand(D)), tand(tor(F), tor(T), tor(D)), tor(), tand(), T,
	}
}

// treeGrid: messages differing in a double, a timestamp and a duration by less / more than the
// tolerances, under every fixed shape.
func (g *c16) treeGrid() {
	mk := func(v float64, tn, dn int64) proto.Message {
		return &testproto.TestAllTypes{DefaultDouble: v, DefaultString: "s",
			DefaultWellKnown: &testproto.WellKnown{
				DefaultTimestamp: &timestamppb.Timestamp{Seconds: 1000 + tn/1000000000, Nanos: int32(tn % 1000000000)},
				DefaultDuration:  &durationpb.Duration{Seconds: 60 + dn/1000000000, Nanos: int32(dn % 1000000000)}}}
	}
	vals := []float64{1, 1.25, 3}
	tns := []int64{0, 500000000, 10000000000}
	dns := []int64{0, 500000000, 10000000000}
	base := mk(1, 0, 0)
	shapes := treeShapes(vcfg{kind: "float", b: 0.5}, vcfg{kind: "time", d: 1000000000}, vcfg{kind: "dur", d: 1000000000})
	exact := treeShapes(vcfg{kind: "float"}, vcfg{kind: "time"}, vcfg{kind: "dur"})
	for _, v := range vals {
		for _, tn := range tns {
			for _, dn := range dns {
				y := mk(v, tn, dn)
				g.pairT(base, y, nil, nil, shapes, []string{"mut:tree-grid"}, true)
				if g.r.Chance(30) {
					g.pairT(base, y, nil, nil, exact, []string{"mut:tree-grid"}, true)
				}
			}
		}
	}
	other := mk(1, 0, 0)
	other.(*testproto.TestAllTypes).DefaultString = "different"
	g.pairT(base, other, nil, nil, shapes, []string{"mut:tree-grid"}, true)
}
